"""C12 — unlabeled samples do not influence supervised models.

Correspondence: spy estimators record exactly the (X, y, sample_weight) the wrappers hand to them; the
record is compared with the Lean model `SkaModel/Core/Fit.lean` (`filterLabeled` and the per-wrapper
fit models).  Property oracle: paired real fits with unlabeled rows inserted / removed / re-ordered /
re-weighted must give identical predictions."""
import warnings

import numpy as np

from .. import vlib
from ..vlib import f2bits
from .c11 import Labels, canon, gen_label_idx, mat_bits, flat_bits, dy

LEAN_TARGETS = ["SkaModel.Props.C12"]
LEVEL = "proof"
RULE = (
    "cases: (a) fits of SklearnClassifier (fit / partial_fit, estimators with and without a sample_weight parameter), "
    "SklearnRegressor, SklearnNormalRegressor around spy estimators, NICKernelRegressor, AnnotatorLogisticRegression (what "
    "reaches the EM algorithm, captured from compute_vote_vectors / the optimiser's closure) and ParzenWindowClassifier "
    "(dyadic precomputed kernels, n_neighbors=None), compared with the model; (b) paired real fits (GaussianNB, "
    "LogisticRegression, DecisionTree, SGD, LinearRegression, DecisionTreeRegressor, BayesianRidge, GaussianProcess, PWC, NIC, "
    "ALR, and SklearnRegressor / SklearnNormalRegressor around estimators that cannot be fitted — fallback path with 0/1/2 labels, "
    "comparing predict with std / entropy, the distribution's variance, sample_y and _label_mean/_label_std) on a data set and on its variants with unlabeled rows inserted, deleted, permuted and re-weighted. non-trivial = at "
    "least one labeled and one unlabeled row; distinct = distinct (learner, data set, variant) tuples"
)
ASSUMPTIONS = [
    "estimators are deterministic functions of the arguments they are called with (fixed random_state where they have one)",
    "ParzenWindowClassifier: fixed bandwidth, n_neighbors=None; bit-exact comparison on dyadic kernels, 1e-12 on rbf kernels "
    "(BLAS may sum the additional zero terms in a different order)",
    "the relative order of the labeled rows is kept (the property speaks of re-ordering unlabeled samples)",
]
TRUSTED = ["scikit-learn / scipy estimators are functions of their inputs"]


# ---------------------------------------------------------------------------------------------

def tok_y(y_idx):
    return " ".join("n" if i is None else str(int(i)) for i in y_idx)


def wbits(w, n):
    return " ".join(f2bits(x) for x in (w if w is not None else [0.0] * n))


def ids_of(X):
    return [int(round(float(r[0]))) for r in np.asarray(X).reshape(len(X), -1)] if len(X) else []


def viol(ctx, cls, kind, what, cfg, pre=None):
    ctx.violate(f"C12/{cls}.fit/{kind}" + (f"/{pre}" if pre else ""), what, dict(cfg, _cls=cls))


# ---------------------------------------------------------------------------------------------
# (a) spies

def make_spy_classifier(variant):
    from sklearn.base import BaseEstimator, ClassifierMixin

    log = []

    class Base(ClassifierMixin, BaseEstimator):
        def __init__(self, tag=0):
            self.tag = tag

        def _rec(self, how, X, y, sample_weight, given):
            log.append(dict(how=how, X=np.array(X).copy(), y=np.array(y).copy(),
                            w=None if sample_weight is None else np.array(sample_weight, dtype=float).copy(), w_given=given))
            self.classes_ = np.unique(y)

        def predict_proba(self, X):
            return np.full((len(X), len(self.classes_)), 1.0 / len(self.classes_))

        def predict(self, X):
            return np.full(len(X), self.classes_[0])

    if variant == "w":
        class Spy(Base):
            def fit(self, X, y, sample_weight=None):
                self._rec("fit", X, y, sample_weight, True)
                return self
    elif variant == "now":
        class Spy(Base):
            def fit(self, X, y):
                self._rec("fit", X, y, None, False)
                return self
    elif variant == "pw":           # fit and partial_fit both accept weights
        class Spy(Base):
            def fit(self, X, y, sample_weight=None):
                self._rec("fit", X, y, sample_weight, True)
                return self

            def partial_fit(self, X, y, classes=None, sample_weight=None):
                self._rec("partial_fit", X, y, sample_weight, True)
                self.classes_ = np.array(classes)
                return self
    else:                           # "pnow": fit has no sample_weight, partial_fit has one
        class Spy(Base):
            def fit(self, X, y):
                self._rec("fit", X, y, None, False)
                return self

            def partial_fit(self, X, y, classes=None, sample_weight=None):
                self._rec("partial_fit", X, y, sample_weight, True)
                self.classes_ = np.array(classes)
                return self
    return Spy, log


def case_spy_clf(ctx, lines, expect, cfg):
    from skactiveml.classifier import SklearnClassifier

    lab = Labels(cfg["label_kind"], cfg["k"])
    y = lab.y(cfg["y_idx"])
    n = len(y)
    w = None if cfg["w"] is None else np.array(cfg["w"], dtype=float)
    classes = None if cfg["classes_order"] is None else lab.classes(cfg["classes_order"])
    Spy, log = make_spy_classifier(cfg["variant"])
    clf = SklearnClassifier(Spy(), classes=classes, missing_label=lab.missing, random_state=0)
    X = np.column_stack([np.arange(n, dtype=float), np.array(cfg["feat"], dtype=float)]) if n else np.zeros((0, 2))
    partial = cfg["partial"]
    try:
        kw = {} if w is None else dict(sample_weight=w)
        (clf.partial_fit if partial else clf.fit)(X, y, **kw)
    except Exception as e:
        if "No class label is known" in str(e):
            ctx.count("inadmissible_fit_rejected")
            return
        viol(ctx, "SklearnClassifier", "raises", f"{type(e).__name__}: {e}", cfg)
        return
    k = len(clf.classes_)
    cls_list = list(clf.classes_)
    # encoded labels of the data as the wrapper sees them
    enc = [None if i is None else cls_list.index(lab.values[i]) for i in cfg["y_idx"]]
    acceptsW = cfg["variant"] in ("w", "pw")
    lines.append(f"skfit {k} {int(acceptsW)} {int(w is not None)} {n} {tok_y(enc)} {wbits(cfg['w'], n)}")
    counts = " ".join(str(int(c)) for c in clf._label_counts)
    if not log:
        impl = counts + " | none"
    else:
        rec = log[-1]
        ys = " ".join(str(cls_list.index(v)) for v in rec["y"])
        ws = "none" if rec["w"] is None else "w " + " ".join(f2bits(x) for x in rec["w"])
        impl = f"{counts} | {' '.join(map(str, ids_of(rec['X'])))} ; {ys} ; {ws}"
    expect.append((impl, dict(cfg, what="skfit")))
    n_lab = sum(i is not None for i in cfg["y_idx"])
    ctx.case(("spy_clf", repr(cfg)), 0 < n_lab < n, sample=dict(kind="SklearnClassifier+spy", variant=cfg["variant"], partial=partial,
                                                               y=y, w=w, recorded=impl))
    ctx.count(f"spy_clf_{cfg['variant']}" + ("_partial" if partial else "") + ("_not_called" if not log else ""))
    # property oracle directly on the record: no unlabeled row, no weight of an unlabeled row reaches the estimator
    if log:
        rec = log[-1]
        lab_ids = [i for i, v in enumerate(cfg["y_idx"]) if v is not None]
        if ids_of(rec["X"]) != lab_ids:
            viol(ctx, "SklearnClassifier", "estimator-saw-other-rows", f"estimator fitted on rows {ids_of(rec['X'])}, labeled rows are {lab_ids}", cfg)
        elif rec["w"] is not None and not np.array_equal(rec["w"], w[lab_ids]):
            viol(ctx, "SklearnClassifier", "estimator-saw-other-weights", f"weights {rec['w'].tolist()} != {w[lab_ids].tolist()}", cfg)
    elif n_lab > 0:
        viol(ctx, "SklearnClassifier", "estimator-not-called", "labeled rows exist but the estimator was not fitted", cfg)


def gen_spy_clf(rng):
    k = rng.randint(1, 4)
    n = rng.randint(0, 7)
    y_idx = gen_label_idx(rng, n, k, rng.choice(["none", "one", "sub", "mix", "mix"]))
    declared = not (rng.random() < 0.25 and any(i is not None for i in y_idx))
    order = None
    if declared:
        order = list(range(k))
        rng.shuffle(order)
    variant = rng.choice(["w", "now", "pw", "pnow"])
    partial = variant in ("pw", "pnow") and rng.random() < 0.6 and declared
    w = [dy(rng, 0, 9, 4) for _ in range(n)] if rng.random() < 0.6 else None
    if variant == "now" or (variant == "pnow" and not partial):
        w = None            # the wrapper's signature mirrors the estimator's
    return dict(kind="spy_clf", k=k, label_kind=rng.choice(Labels.KINDS), y_idx=y_idx, classes_order=order, w=w,
                variant=variant, partial=partial, feat=[float(rng.randint(-3, 3)) for _ in range(n)])


def make_spy_regressor(accepts_w, normal):
    from sklearn.base import BaseEstimator, RegressorMixin
    from sklearn.exceptions import NotFittedError

    log = []

    class Base(RegressorMixin, BaseEstimator):
        def _rec(self, how, X, y, sample_weight):
            log.append(dict(how=how, X=np.array(X).copy(), y=np.array(y, dtype=float).copy(),
                            w=None if sample_weight is None else np.array(sample_weight, dtype=float).copy()))
            if len(y) == 0:
                raise ValueError("spy regressor: empty training set")
            self.mean_ = float(np.mean(y))

        def _chk(self):
            if not hasattr(self, "mean_"):
                raise NotFittedError("spy regressor not fitted")

    if normal:
        class P(Base):
            def predict(self, X, return_std=False):
                self._chk()
                m = np.full(len(X), self.mean_)
                return (m, np.ones(len(X))) if return_std else m
    else:
        class P(Base):
            def predict(self, X):
                self._chk()
                return np.full(len(X), self.mean_)

    if accepts_w:
        class Spy(P):
            def fit(self, X, y, sample_weight=None):
                self._rec("fit", X, y, sample_weight)
                return self

            def partial_fit(self, X, y, sample_weight=None):
                self._rec("partial_fit", X, y, sample_weight)
                return self
    else:
        class Spy(P):
            def fit(self, X, y):
                self._rec("fit", X, y, None)
                return self

            def partial_fit(self, X, y):
                self._rec("partial_fit", X, y, None)
                return self
    return Spy, log


def case_spy_reg(ctx, lines, expect, cfg):
    from skactiveml.regressor import SklearnNormalRegressor, SklearnRegressor

    y = np.array([np.nan if v is None else v for v in cfg["y"]], dtype=float)
    n = len(y)
    w = None if cfg["w"] is None else np.array(cfg["w"], dtype=float)
    Spy, log = make_spy_regressor(cfg["accepts_w"], cfg["normal"])
    Wr = SklearnNormalRegressor if cfg["normal"] else SklearnRegressor
    reg = Wr(Spy(), random_state=0)
    X = np.column_stack([np.arange(n, dtype=float), np.array(cfg["feat"], dtype=float)]) if n else np.zeros((0, 2))
    name = Wr.__name__
    try:
        kw = {} if w is None else dict(sample_weight=w)
        (reg.partial_fit if cfg["partial"] else reg.fit)(X, y, **kw)
    except Exception as e:
        viol(ctx, name, "raises", f"{type(e).__name__}: {e}", cfg)
        return
    lines.append(f"regfit {int(w is not None)} {n} {' '.join(f2bits(v) for v in y)} {wbits(cfg['w'], n)}")
    if not log:
        impl = "not-called"
    else:
        rec = log[-1]
        ws = "none" if rec["w"] is None else "w " + " ".join(f2bits(x) for x in rec["w"])
        impl = f"{' '.join(map(str, ids_of(rec['X'])))} ; {' '.join(f2bits(v) for v in rec['y'])} ; {ws}"
    expect.append((impl, dict(cfg, what="regfit")))
    n_lab = int(np.sum(~np.isnan(y)))
    if n_lab < 8:
        # the wrapper's fallback statistics are functions of the labeled values only
        lab_vals = y[~np.isnan(y)]
        lines.append(f"labelstats {n_lab} {' '.join(f2bits(v) for v in lab_vals)}")
        expect.append((" ".join(f2bits(float(v) + 0.0) for v in (reg._label_mean, reg._label_std)), dict(cfg, what="labelstats")))
        want_std = 1.0 if n_lab < 2 else float(np.std(lab_vals))
        want_mean = 0.0 if n_lab == 0 else float(np.mean(lab_vals))
        if not (np.isclose(reg._label_mean, want_mean, rtol=1e-12, atol=1e-12) and np.isclose(reg._label_std, want_std, rtol=1e-12, atol=1e-12)):
            viol(ctx, name, "fallback-statistics-depend-on-unlabeled-rows",
                 f"_label_mean={reg._label_mean}, _label_std={reg._label_std} but the labeled values {lab_vals.tolist()} give {want_mean}, {want_std}", cfg)
    ctx.case(("spy_reg", repr(cfg)), 0 < n_lab < n, sample=dict(kind=name + "+spy", y=y, w=w, recorded=impl))
    ctx.count(f"spy_reg_{name}" + ("_partial" if cfg["partial"] else ""))
    if log:
        rec = log[-1]
        lab_ids = [i for i in range(n) if not np.isnan(y[i])]
        if ids_of(rec["X"]) != lab_ids:
            viol(ctx, name, "estimator-saw-other-rows", f"estimator fitted on rows {ids_of(rec['X'])}, labeled rows are {lab_ids}", cfg)
        elif rec["w"] is not None and not np.array_equal(rec["w"], w[lab_ids]):
            viol(ctx, name, "estimator-saw-other-weights", f"weights {rec['w'].tolist()} != {w[lab_ids].tolist()}", cfg)


def gen_reg_labels(rng, n):
    mode = rng.choice(["none", "mix", "mix", "mix", "all"])
    out = []
    for _ in range(n):
        if mode == "none" or (mode == "mix" and rng.random() < 0.4):
            out.append(None)
        else:
            out.append(rng.choice([dy(rng, -8, 9, 4), round(rng.uniform(-3, 3), 3)]))
    return out


def gen_spy_reg(rng):
    n = rng.randint(0, 7)
    accepts_w = rng.random() < 0.7
    return dict(kind="spy_reg", y=gen_reg_labels(rng, n), w=[dy(rng, 0, 9, 4) for _ in range(n)] if (accepts_w and rng.random() < 0.6) else None,
                accepts_w=accepts_w, normal=rng.random() < 0.4, partial=rng.random() < 0.3,
                feat=[float(rng.randint(-3, 3)) for _ in range(n)])


def case_nic(ctx, lines, expect, cfg):
    from skactiveml.regressor import NICKernelRegressor, NadarayaWatsonRegressor

    y = np.array([np.nan if v is None else v for v in cfg["y"]], dtype=float)
    n = len(y)
    w = None if cfg["w"] is None else np.array(cfg["w"], dtype=float)
    reg = (NadarayaWatsonRegressor if cfg["nw"] else NICKernelRegressor)(metric="rbf", metric_dict={"gamma": 0.5})
    X = np.column_stack([np.arange(n, dtype=float), np.array(cfg["feat"], dtype=float)]) if n else np.zeros((0, 2))
    lines.append(f"nicfit {int(w is not None)} {n} {' '.join(f2bits(v) for v in y)} {wbits(cfg['w'], n)}")
    try:
        reg.fit(X, y, sample_weight=w)
        ws = "none" if reg.weights_ is None else "w " + " ".join(f2bits(x) for x in reg.weights_)
        impl = f"ok {' '.join(map(str, ids_of(reg.X_)))} ; {' '.join(f2bits(v) for v in reg.y_)} ; {ws}"
    except ValueError as e:
        if "must not be all zero" not in str(e):
            raise
        impl = "err zero-weights"
    expect.append((impl, dict(cfg, what="nicfit")))
    n_lab = int(np.sum(~np.isnan(y)))
    ctx.case(("nic", repr(cfg)), 0 < n_lab < n, sample=dict(kind="NICKernelRegressor", y=y, w=w, stored=impl))
    ctx.count("nic_fit" + ("_zero_weights" if impl.startswith("err") else ""))


def gen_nic(rng):
    n = rng.randint(0, 7)
    w = None
    if rng.random() < 0.6:
        w = [dy(rng, 0, 9, 4) for _ in range(n)] if rng.random() < 0.85 else [0.0] * n
    return dict(kind="nic", y=gen_reg_labels(rng, n), w=w, nw=rng.random() < 0.3, feat=[float(rng.randint(-3, 3)) for _ in range(n)])


def case_alr(ctx, lines, expect, cfg):
    import skactiveml.classifier.multiannotator._annotator_logistic_regression as A
    from skactiveml.classifier.multiannotator import AnnotatorLogisticRegression

    k, a = cfg["k"], cfg["a"]
    lab = Labels("int-nan", k)
    y = lab.y(cfg["y_idx"]) if len(cfg["y_idx"]) else np.zeros((0, a))
    n = len(y)
    y = y.reshape(n, a)
    w = None if cfg["w"] is None else np.array(cfg["w"], dtype=float).reshape(n, a)
    X = np.column_stack([np.arange(n, dtype=float), np.array(cfg["feat"], dtype=float)]) if n else np.zeros((0, 2))
    clf = AnnotatorLogisticRegression(n_annotators=a, classes=list(range(k)), max_iter=2, fit_intercept=False, random_state=0)
    seen = {}
    orig_cvv, orig_min = A.compute_vote_vectors, A.minimize

    def cvv(*args, **kw):
        if "y" not in seen:
            seen["y"] = np.array(kw["y"], dtype=float).copy()
            seen["w"] = np.array(kw["w"], dtype=float).copy()
        return orig_cvv(*args, **kw)

    def mini(fun, *args, **kw):
        if "X" not in seen:
            cells = dict(zip(fun.__code__.co_freevars, fun.__closure__))
            seen["X"] = np.array(cells["X"].cell_contents).copy()
        return orig_min(fun, *args, **kw)

    A.compute_vote_vectors, A.minimize = cvv, mini
    try:
        try:
            clf.fit(X, y, sample_weight=w)
        finally:
            A.compute_vote_vectors, A.minimize = orig_cvv, orig_min
    except Exception as e:
        rows_unl = [all(i is None for i in row) for row in cfg["y_idx"]]
        pre = "sample-weight-with-fully-unlabeled-row" if (w is not None and any(rows_unl) and not all(rows_unl)) else None
        viol(ctx, "AnnotatorLogisticRegression", "raises", f"{type(e).__name__}: {e}", cfg, pre)
        return
    ys = " ".join("n" if i is None else str(i) for row in cfg["y_idx"] for i in row)
    wflat = [v for row in cfg["w"] for v in row] if cfg["w"] is not None else None
    lines.append(f"alrfit {int(w is not None)} {n} {a} {ys} {wbits(wflat, n * a)}")
    if "y" in seen:
        yy = " , ".join(" ".join("n" if v < 0 else str(int(v)) for v in row) for row in seen["y"])
        ww = "w " + " , ".join(" ".join(f2bits(v) for v in row) for row in seen["w"]) if w is not None else "none"
        impl = f"{' '.join(map(str, ids_of(seen['X'])))} ; {yy} ; {ww}"
        if w is None and not np.all(seen["w"] == 1):
            viol(ctx, "AnnotatorLogisticRegression", "default-weights-not-one", "sample_weight=None but non-unit weights reached the EM algorithm", cfg)
    else:
        impl = " ;  ; " + ("w " if w is not None else "none")      # nothing reached the EM algorithm (no annotated row)
    expect.append((impl, dict(cfg, what="alrfit")))
    n_lab = sum(any(i is not None for i in row) for row in cfg["y_idx"])
    ctx.case(("alr", repr(cfg)), 0 < n_lab < n, sample=dict(kind="AnnotatorLogisticRegression", y=y, w=w, reached_em=impl))
    ctx.count("alr_fit" + ("_nothing_reaches_em" if "y" not in seen else ""))


def gen_alr(rng):
    k, a = rng.randint(2, 3), rng.randint(1, 3)
    n = rng.randint(0, 6)
    y_idx = []
    for _ in range(n):
        r = rng.random()
        if r < 0.3:
            y_idx.append([None] * a)
        else:
            y_idx.append([rng.randrange(k) if rng.random() < 0.7 else None for _ in range(a)])
    w = [[dy(rng, 1, 9, 4) for _ in range(a)] for _ in range(n)] if rng.random() < 0.5 else None
    return dict(kind="alr", k=k, a=a, y_idx=y_idx, w=w, feat=[float(rng.randint(-3, 3)) for _ in range(n)])


def case_pwcrows(ctx, lines, expect, cfg):
    from skactiveml.classifier import ParzenWindowClassifier

    k = cfg["k"]
    lab = Labels("int-nan", k)
    y = lab.y(cfg["y_idx"])
    n = len(y)
    w = None if cfg["w"] is None else np.array(cfg["w"], dtype=float)
    K = np.array(cfg["K"], dtype=float).reshape(-1, n)
    clf = ParzenWindowClassifier(metric="precomputed", classes=list(range(k)), n_neighbors=None)
    clf.fit(np.zeros((n, 1)), y, sample_weight=w)
    F = clf.predict_freq(K)
    for q in range(len(K)):
        lines.append(f"pwcrows {k} {n} {flat_bits(K[q])} {tok_y(cfg['y_idx'])} " + wbits(cfg["w"] if w is not None else [1.0] * n, n))
        fb = " ".join(f2bits(float(v) + 0.0) for v in F[q])
        expect.append((fb + " | " + fb, dict(cfg, what="pwcrows")))
    n_lab = sum(i is not None for i in cfg["y_idx"])
    ctx.case(("pwcrows", repr(cfg)), 0 < n_lab < n, sample=dict(kind="ParzenWindowClassifier", y=y, w=w, K=K, F=F))
    ctx.count("pwc_rows")


def gen_pwcrows(rng):
    k = rng.randint(1, 4)
    n = rng.randint(1, 7)
    return dict(kind="pwcrows", k=k, y_idx=gen_label_idx(rng, n, k, rng.choice(["none", "mix", "mix", "sub"])),
                w=[dy(rng, 0, 9, 4) for _ in range(n)] if rng.random() < 0.6 else None,
                K=[[rng.choice([0, 0.25, 0.5, 1, 1, 2, 3.5]) for _ in range(n)] for _ in range(rng.randint(1, 3))])


# ---------------------------------------------------------------------------------------------
# (b) paired real fits

def kern_table(a, b):
    """a dyadic, non-negative kernel value determined by the ids of the two rows."""
    return float((int(a[0]) * 7 + int(b[0]) * 3) % 9) / 8.0


def make_learner(name):
    """returns (constructor(classes, missing), task, outputs(model, Xq) -> list of arrays)."""
    from sklearn.gaussian_process import GaussianProcessRegressor
    from sklearn.linear_model import BayesianRidge, LinearRegression, LogisticRegression, SGDClassifier, SGDRegressor
    from sklearn.naive_bayes import GaussianNB
    from sklearn.tree import DecisionTreeClassifier, DecisionTreeRegressor

    from skactiveml.classifier import ParzenWindowClassifier, SklearnClassifier
    from skactiveml.classifier.multiannotator import AnnotatorLogisticRegression
    from skactiveml.regressor import NICKernelRegressor, SklearnNormalRegressor, SklearnRegressor

    def clf_out(m, Xq):
        return [m.predict_proba(Xq), m.predict(Xq)]

    skl = {"gnb": GaussianNB, "lr": lambda: LogisticRegression(max_iter=100), "tree": lambda: DecisionTreeClassifier(random_state=0),
           "sgd": lambda: SGDClassifier(loss="log_loss", random_state=0, max_iter=10, tol=None)}
    if name in skl:
        return (lambda classes, missing: SklearnClassifier(skl[name](), classes=classes, missing_label=missing, random_state=0)), "clf", clf_out
    if name == "sgd_partial":
        class PF:
            def __init__(self, classes, missing):
                self.m = SklearnClassifier(skl["sgd"](), classes=classes, missing_label=missing, random_state=0)

            def fit(self, X, y, sample_weight=None):
                self.m.partial_fit(X, y, sample_weight=sample_weight)
                return self

            def predict_proba(self, X):
                return self.m.predict_proba(X)

            def predict(self, X):
                return self.m.predict(X)

        return (lambda classes, missing: PF(classes, missing)), "clf", clf_out
    if name == "pwc_table":
        return (lambda classes, missing: ParzenWindowClassifier(metric=kern_table, classes=classes, missing_label=missing,
                                                                class_prior=0.5, random_state=0)), "clf", \
            lambda m, Xq: [m.predict_freq(Xq), m.predict_proba(Xq), m.predict(Xq)]
    if name == "pwc_rbf":
        return (lambda classes, missing: ParzenWindowClassifier(metric="rbf", metric_dict={"gamma": 0.25}, classes=classes,
                                                                missing_label=missing, random_state=0)), "clf", \
            lambda m, Xq: [m.predict_freq(Xq), m.predict_proba(Xq)]
    if name == "alr":
        return (lambda classes, missing: AnnotatorLogisticRegression(classes=classes, missing_label=missing, max_iter=3,
                                                                     n_annotators=2, random_state=0)), "multi", \
            lambda m, Xq: [m.predict_proba(Xq), m.predict_annotator_perf(Xq)]
    reg = {"linreg": LinearRegression, "treereg": lambda: DecisionTreeRegressor(random_state=0),
           "sgdreg": lambda: SGDRegressor(random_state=0, max_iter=10, tol=None)}
    if name in reg:
        return (lambda classes, missing: SklearnRegressor(reg[name](), random_state=0)), "reg", lambda m, Xq: [m.predict(Xq)]
    nreg = {"bayesridge": BayesianRidge, "gp": lambda: GaussianProcessRegressor(random_state=0)}
    if name in nreg:
        return (lambda classes, missing: SklearnNormalRegressor(nreg[name](), random_state=0)), "reg", \
            lambda m, Xq: list(m.predict(Xq, return_std=True))
    if name == "nic":
        return (lambda classes, missing: NICKernelRegressor(metric="rbf", metric_dict={"gamma": 0.25}, random_state=0)), "reg", \
            lambda m, Xq: list(m.predict(Xq, return_std=True))
    if name in ("nic_gm", "nw", "nw_gm"):
        # symbolic bandwidth (resolved from the training data, if the regressor supports it) and the Nadaraya-Watson subclass:
        # whatever is resolved at fit time must be resolved from the labeled samples only
        from skactiveml.regressor import NadarayaWatsonRegressor

        cls_ = NICKernelRegressor if name == "nic_gm" else NadarayaWatsonRegressor
        md = {"gamma": 0.25} if name == "nw" else {"gamma": "mean"}
        return (lambda classes, missing: cls_(metric="rbf", metric_dict=dict(md), random_state=0)), "reg", \
            lambda m, Xq: list(m.predict(Xq, return_std=True))
    if name.startswith("fb_"):
        # fallback paths: the wrapped estimator cannot be fitted (raises, or needs at least `min_n` samples)
        from sklearn.base import BaseEstimator, RegressorMixin
        from sklearn.exceptions import NotFittedError

        class Unfittable(RegressorMixin, BaseEstimator):
            def __init__(self, min_n=10**9):
                self.min_n = min_n

            def fit(self, X, y, sample_weight=None):
                if len(y) < self.min_n:
                    raise ValueError("cannot be fitted on so few samples")
                self.mean_ = float(np.mean(y))
                return self

            def predict(self, X, return_std=False):
                if not hasattr(self, "mean_"):
                    raise NotFittedError("not fitted")
                m = np.full(len(X), self.mean_)
                return (m, np.full(len(X), 0.5)) if return_std else m

            def sample_y(self, X, n_samples=1, random_state=None):
                if not hasattr(self, "mean_"):
                    raise NotFittedError("not fitted")
                return np.full((len(X), n_samples), self.mean_)

        min_n = 2 if name.endswith("min2") else 10**9
        stats = lambda m: np.array([m._label_mean, m._label_std], dtype=float)
        if name.startswith("fb_nreg"):
            return (lambda classes, missing: SklearnNormalRegressor(Unfittable(min_n), random_state=0)), "reg", \
                lambda m, Xq: list(m.predict(Xq, return_std=True, return_entropy=True)) + [
                    m.predict_target_distribution(Xq).var(), m.sample_y(Xq, n_samples=3, random_state=1), stats(m)]
        return (lambda classes, missing: SklearnRegressor(Unfittable(min_n), random_state=0)), "reg", \
            lambda m, Xq: list(m.predict(Xq, return_std=True)) + [m.sample_y(Xq, n_samples=3, random_state=1), stats(m)]
    raise KeyError(name)


LEARNERS = ["gnb", "lr", "tree", "sgd", "sgd_partial", "pwc_table", "pwc_rbf", "alr", "linreg", "treereg", "sgdreg", "bayesridge", "gp", "nic",
            "nic_gm", "nw", "nw_gm", "fb_reg", "fb_reg_min2", "fb_nreg", "fb_nreg_min2"]


def build_variant(cfg, variant):
    """rows of the base data set + the transformation; returns list of rows (id, feat, y, w)."""
    rows = [dict(id=i, f=cfg["feat"][i], y=cfg["y"][i], w=None if cfg["w"] is None else cfg["w"][i]) for i in range(len(cfg["y"]))]

    def unl(r):
        yy = r["y"]
        return yy is None or (isinstance(yy, list) and all(v is None for v in yy))

    extra = [dict(id=100 + j, f=e["f"], y=cfg["unl_label"], w=e["w"] if cfg["w"] is not None else None) for j, e in enumerate(cfg["extra"])]
    if variant in ("base", "base_for_reveal", "reveal_fwd", "reveal_bwd"):
        return rows
    if variant == "labeled_only":
        return [r for r in rows if not unl(r)]
    if variant == "insert":
        out = list(rows)
        for e, pos in zip(extra, cfg["positions"]):
            out.insert(pos % (len(out) + 1), e)
        return out
    if variant == "permute":
        labeled = [r for r in rows if not unl(r)]
        unlabeled = [r for r in rows if unl(r)] + extra
        order = cfg["perm"]
        unlabeled = [unlabeled[i % len(unlabeled)] for i in order[: len(unlabeled)]] if unlabeled else []
        # put all unlabeled rows first, then alternate
        out, li = [], 0
        for j, u in enumerate(unlabeled):
            out.append(u)
            if li < len(labeled) and j % 2 == 1:
                out.append(labeled[li])
                li += 1
        out += labeled[li:]
        return out
    if variant == "reweight":
        out = []
        for j, r in enumerate(rows):
            r = dict(r)
            if unl(r) and r["w"] is not None:
                r["w"] = cfg["new_w"][j % len(cfg["new_w"])]
            out.append(r)
        return out
    raise KeyError(variant)


def fit_variant(cfg, variant):
    ctor, task, outs = make_learner(cfg["learner"])
    rows = build_variant(cfg, variant)
    n = len(rows)
    X = np.array([[float(r["id"]), float(r["f"][0]), float(r["f"][1])] for r in rows], dtype=float).reshape(n, 3)
    if cfg["learner"] not in ("pwc_table",):
        X = X[:, 1:] if n else np.zeros((0, 2))
    w = None if cfg["w"] is None else np.array([r["w"] for r in rows], dtype=float)
    if task == "clf":
        lab = Labels(cfg["label_kind"], cfg["k"])
        y = lab.y([r["y"] for r in rows])
        classes, missing = (lab.classes() if cfg["declared"] else None), lab.missing
    elif task == "multi":
        lab = Labels("int-nan", cfg["k"])
        y = lab.y([r["y"] for r in rows]).reshape(n, 2) if n else np.zeros((0, 2))
        classes, missing = lab.classes(), lab.missing
        w = None if w is None else np.repeat(w.reshape(-1, 1), 2, axis=1)
    else:
        y = np.array([np.nan if r["y"] is None else r["y"] for r in rows], dtype=float)
        classes, missing = None, np.nan
    Xq = np.array(cfg["Xq"], dtype=float)
    if cfg["learner"] == "pwc_table":
        Xq = np.column_stack([1000 + np.arange(len(Xq)), Xq])
    m = ctor(classes, missing)
    if variant.startswith("reveal"):
        # the pool loop: ONE model object and ONE caller-owned float64 weight array are re-used while the labels are
        # revealed one at a time (in index order / in reverse order); the last fit sees exactly the base labels
        def hidden(i):
            return [None, None] if task == "multi" else None

        labeled = [i for i, r in enumerate(rows) if not (r["y"] is None or (isinstance(r["y"], list) and all(v is None for v in r["y"])))]
        order = labeled if variant == "reveal_fwd" else labeled[::-1]
        w0 = None if w is None else w.copy()
        for step in range(0, len(order)):
            shown = set(order[: step])
            ys = [r["y"] if i in shown else hidden(i) for i, r in enumerate(rows)]
            if task == "clf":
                y_step = lab.y(ys)
            elif task == "multi":
                y_step = lab.y(ys).reshape(n, 2) if n else np.zeros((0, 2))
            else:
                y_step = np.array([np.nan if v is None else v for v in ys], dtype=float)
            try:
                m.fit(X, y_step, **({} if w is None else dict(sample_weight=w)))
            except Exception:  # noqa: BLE001  (too few labels for this learner: not the point here)
                pass
        try:
            m.fit(X, y, **({} if w is None else dict(sample_weight=w)))
            res = [np.array(o) for o in outs(m, Xq)]
        except Exception as e:  # noqa: BLE001
            return ("err", f"{type(e).__name__}: {str(e)[:80]}")
        if w is not None and not np.array_equal(w, w0):
            return ("ok", res + [np.array(["sample_weight array modified by fit"])])
        return ("ok", res + ([np.array(["sample_weight array intact"])] if w is not None else []))
    try:
        m.fit(X, y, **({} if w is None else dict(sample_weight=w)))
        res = [np.array(o) for o in outs(m, Xq)]
        if variant == "base_for_reveal" and w is not None:
            res.append(np.array(["sample_weight array intact"]))
        return ("ok", res)
    except Exception as e:
        return ("err", f"{type(e).__name__}: {str(e)[:80]}")


def case_paired(ctx, lines, expect, cfg):
    case_reveal(ctx, cfg)
    base = fit_variant(cfg, "base")
    exact_learner = cfg["learner"] != "pwc_rbf"
    n = len(cfg["y"])
    unl_rows = sum(1 for v in cfg["y"] if v is None or (isinstance(v, list) and all(x is None for x in v)))
    for variant in ("labeled_only", "insert", "permute", "reweight"):
        if variant == "reweight" and cfg["w"] is None:
            continue
        other = fit_variant(cfg, variant)
        ctx.case(("paired", cfg["learner"], variant, repr(cfg)), 0 < unl_rows < n or (variant in ("insert", "permute") and unl_rows < n),
                 sample=dict(kind="paired-fit", learner=cfg["learner"], variant=variant, y=cfg["y"], base=str(base[0])))
        ctx.count(f"paired_{cfg['learner']}_{variant}")
        if base[0] != other[0]:
            if base[0] == "err" and "sample weights of the labeled" in base[1]:
                continue
            viol(ctx, cfg["learner"], "fit-succeeds-only-for-one-variant",
                 f"base: {base[1] if base[0] == 'err' else 'ok'}; {variant}: {other[1] if other[0] == 'err' else 'ok'}", dict(cfg, variant=variant), variant)
            continue
        if base[0] == "err":
            ctx.count("paired_both_raise")
            continue
        for a, b in zip(base[1], other[1]):
            same = a.shape == b.shape and (np.array_equal(a, b, equal_nan=True) if a.dtype.kind == "f" else np.array_equal(a, b))
            if same:
                continue
            if not exact_learner and a.shape == b.shape and np.allclose(a, b, rtol=1e-12, atol=1e-12, equal_nan=True):
                ctx.count("pwc_rbf_differs_within_1e-12")
                continue
            viol(ctx, cfg["learner"], "unlabeled-rows-change-predictions",
                 f"variant {variant}: outputs differ: {a.tolist()} vs {b.tolist()}", dict(cfg, variant=variant), variant)
            break


# learners whose `fit` starts from scratch (the partial_fit-based one accumulates by design)
HISTORY_FREE = [l for l in LEARNERS if l != "sgd_partial"]


def case_reveal(ctx, cfg):
    """Reveal order: one model object + one weight array across the fits of a pool loop vs one fit on the final labels."""
    if cfg["learner"] not in HISTORY_FREE:
        return
    base = fit_variant(cfg, "base_for_reveal")
    for variant in ("reveal_fwd", "reveal_bwd"):
        other = fit_variant(cfg, variant)
        ctx.case(("reveal", cfg["learner"], variant, repr(cfg)), True, sample=dict(kind="reveal-loop", learner=cfg["learner"], variant=variant, y=cfg["y"], weighted=cfg["w"] is not None))
        ctx.count(f"reveal_{cfg['learner']}")
        if base[0] != other[0]:
            viol(ctx, cfg["learner"], "reveal-loop-fit-succeeds-only-for-one-variant",
                 f"single fit: {base[1] if base[0] == 'err' else 'ok'}; {variant}: {other[1] if other[0] == 'err' else 'ok'}", dict(cfg, variant=variant), variant)
            continue
        if base[0] == "err":
            continue
        for a, b in zip(base[1], other[1]):
            same = a.shape == b.shape and (np.array_equal(a, b, equal_nan=True) if a.dtype.kind == "f" else np.array_equal(a, b))
            if same or (cfg["learner"] == "pwc_rbf" and a.shape == b.shape and a.dtype.kind == "f" and np.allclose(a, b, rtol=1e-12, atol=1e-12, equal_nan=True)):
                continue
            viol(ctx, cfg["learner"], "reveal-order-changes-model",
                 f"{variant}: a model re-fitted while labels were revealed one by one (same object, same weight array) differs from one "
                 f"fit on the final labels: {a.tolist()} vs {b.tolist()}", dict(cfg, variant=variant), variant)
            break


def gen_paired(rng, learner=None):
    learner = learner or rng.choice(LEARNERS)
    _, task, _ = make_learner(learner)
    n = rng.randint(2, 8)
    k = rng.randint(2, 3)
    if task == "clf":
        y = gen_label_idx(rng, n, k, rng.choice(["mix", "mix", "mix", "sub", "none"]))
        unl = None
    elif task == "multi":
        y = [[rng.randrange(k) if rng.random() < 0.7 else None for _ in range(2)] if rng.random() < 0.7 else [None, None] for _ in range(n)]
        unl = [None, None]
    else:
        y = gen_reg_labels(rng, n)
        if learner.startswith("fb_"):
            # 0, 1 or 2 labels among the rows (the boundary cases of the fallback statistics), the rest unlabeled
            n_lab = rng.choice([0, 1, 1, 1, 2, 2, 3])
            pos = rng.sample(range(n), min(n_lab, n))
            y = [(rng.choice([dy(rng, -8, 9, 4), round(rng.uniform(-3, 3), 3)]) if i in pos else None) for i in range(n)]
        unl = None
    declared = True if task != "clf" else (rng.random() < 0.7 or all(v is None for v in y))
    m = rng.randint(1, 3)
    return dict(kind="paired", learner=learner, k=k, label_kind=rng.choice(["int-nan", "spread-nan", "str-none", "int-neg1"]), declared=declared,
                y=y, unl_label=unl, w=[dy(rng, 1, 9, 4) for _ in range(n)] if rng.random() < 0.5 else None,
                feat=[[float(rng.randint(-3, 3)), float(rng.randint(-3, 3))] for _ in range(n)],
                extra=[dict(f=[float(rng.randint(-3, 3)), float(rng.randint(-3, 3))], w=dy(rng, 0, 40, 4)) for _ in range(m)],
                positions=[rng.randrange(0, 20) for _ in range(m)], perm=[rng.randrange(0, 20) for _ in range(12)],
                new_w=[dy(rng, 0, 80, 4) for _ in range(3)],
                Xq=[[float(rng.randint(-3, 3)), float(rng.randint(-3, 3))] for _ in range(rng.randint(1, 3))])


# ---------------------------------------------------------------------------------------------

RUNNERS = dict(spy_clf=case_spy_clf, spy_reg=case_spy_reg, nic=case_nic, alr=case_alr, pwcrows=case_pwcrows, paired=case_paired)


def run_case(ctx, lines, expect, cfg):
    with warnings.catch_warnings():
        warnings.simplefilter("ignore")
        with np.errstate(all="ignore"):
            RUNNERS[cfg["kind"]](ctx, lines, expect, cfg)


def fixed_cases():
    return [
        dict(kind="alr", k=2, a=2, y_idx=[[0, 1], [None, None], [1, 1]], w=[[1.0, 1.0], [1.0, 1.0], [1.0, 1.0]], feat=[0.0, 1.0, 2.0]),
        dict(kind="spy_clf", k=3, label_kind="spread-nan", y_idx=[None, 2, None, 0], classes_order=[0, 1, 2], w=[5.0, 1.0, 7.0, 2.0],
             variant="w", partial=False, feat=[0.0, 1.0, 2.0, 3.0]),
        dict(kind="nic", y=[None, None], w=[1.0, 1.0], nw=False, feat=[0.0, 1.0]),
        dict(kind="spy_reg", y=[None, 2.5, None], w=None, accepts_w=True, normal=True, partial=False, feat=[0.0, 1.0, 2.0]),
    ] + [dict(kind="paired", learner=ln, k=2, label_kind="int-nan", declared=True, y=[None, 2.5, None], unl_label=None, w=None,
              feat=[[0.0, 0.0], [1.0, 1.0], [2.0, 1.0]], extra=[dict(f=[1.0, 2.0], w=1.0)], positions=[0], perm=[1, 0, 2, 3],
              new_w=[1.0], Xq=[[0.0, 0.0], [1.0, 1.0]]) for ln in ("fb_reg", "fb_nreg", "fb_nreg_min2")]


def gen_any(rng):
    r = rng.random()
    if r < 0.25:
        return gen_spy_clf(rng)
    if r < 0.42:
        return gen_spy_reg(rng)
    if r < 0.52:
        return gen_nic(rng)
    if r < 0.60:
        return gen_alr(rng)
    if r < 0.70:
        return gen_pwcrows(rng)
    return gen_paired(rng)


def correspond(ctx):
    rng = ctx.rng
    lines, expect = [], []
    for cfg in fixed_cases():
        run_case(ctx, lines, expect, cfg)
    for _ in range(1500 if not ctx.thorough else 24000):
        run_case(ctx, lines, expect, gen_any(rng))
    if ctx.thorough:
        import itertools

        cnt = 0
        for n in range(0, 5):
            for pat in itertools.product([None, 0, 1], repeat=n):
                for variant, partial in (("w", False), ("now", False), ("pw", True)):
                    run_case(ctx, lines, expect, dict(kind="spy_clf", k=2, label_kind="int-nan", y_idx=list(pat), classes_order=[0, 1],
                                                      w=None if variant == "now" else [float(i + 1) for i in range(n)], variant=variant,
                                                      partial=partial, feat=[0.0] * n))
                run_case(ctx, lines, expect, dict(kind="spy_reg", y=[None if v is None else float(v) for v in pat],
                                                  w=[float(i + 1) for i in range(n)], accepts_w=True, normal=False, partial=False, feat=[0.0] * n))
                cnt += 1
        ctx.notes["exhaustive_subrun"] = f"all label patterns over {{missing,c0,c1}}^n, n<=4 ({cnt}) through 3 spy classifier variants and the spy regressor"
        ctx.exhaustive = False
    outs = vlib.run_driver(lines)
    for line, out, (impl, case) in zip(lines, outs, expect):
        if canon(out) != canon(impl):
            ctx.disagree("SkaModel.Core.Fit vs skactiveml fit (" + str(case.get("what")) + ")", dict(case, line=line[:300]), out[:300], impl[:300])
    ctx.notes["model_lines"] = len(lines)


def search(ctx):
    rng = ctx.rng
    lines, expect = [], []
    for _ in range(1500):
        run_case(ctx, lines, expect, gen_paired(rng) if rng.random() < 0.7 else gen_any(rng))
        if ctx.violations:
            return


def replay(payload):
    ctx = vlib.Ctx("C12", "quick", 0)
    cfg = dict(payload.get("replay", {}))
    cfg.pop("_cls", None)
    cfg.pop("variant", None) if cfg.get("kind") == "paired" else None
    lines, expect = [], []
    run_case(ctx, lines, expect, cfg)
    for v in ctx.violations:
        print("REPRODUCED:", v["key"], "--", v["what"][:300])
    return 1 if ctx.violations else 0
