"""Shared pool machinery for C01 / C02 / C14 / C08 / C20: running real strategies under spies,
building model lines, evaluating the C01/C02 oracles."""
import contextlib
import importlib
import pkgutil
import signal
import warnings

import re

import numpy as np

from .. import vlib
from ..catalog import make_data, pool_specs
from ..vlib import f2bits, fl, il
from .c18 import ChoiceSpyRS, SpyRS


class Timeout(Exception):
    pass


@contextlib.contextmanager
def alarm(seconds):
    def h(sig, frm):
        raise Timeout()

    old = signal.signal(signal.SIGALRM, h)
    signal.alarm(seconds)
    try:
        yield
    finally:
        signal.alarm(0)
        signal.signal(signal.SIGALRM, old)


def pool_modules():
    import skactiveml.pool as P

    mods = []
    for m in pkgutil.iter_modules(P.__path__):
        if m.name.startswith("_") and not m.ispkg:
            mods.append(importlib.import_module(f"skactiveml.pool.{m.name}"))
    return mods


class SimpleBatchSpy:
    """Replaces `simple_batch` in every skactiveml.pool module namespace by a recorder that runs the
    real function on a RandomState clone which logs the noise / choice draws."""

    def __init__(self, spy_generator=False):
        self.calls = []
        self._saved = []
        self.spy_generator = spy_generator
        self.generators = []

    def __enter__(self):
        import skactiveml.utils._selection as sel

        if self.spy_generator:
            # the per-call generator `random_state_` of the strategy becomes a logging clone in the same state
            import skactiveml.base as B

            real_crs = B.check_random_state
            spy0 = self

            def crs(random_state, seed_multiplier=None):
                r = real_crs(random_state, seed_multiplier)
                c = ChoiceSpyRS(0)
                c.set_state(r.get_state())
                spy0.generators.append(c)
                return c

            self._saved.append((B, "check_random_state", real_crs))
            B.check_random_state = crs

        real = sel.simple_batch
        spy = self

        def wrapper(utilities, random_state=None, batch_size=1, return_utilities=False, method="max"):
            rec = dict(utilities=np.array(utilities, dtype=float).copy(), batch_size=batch_size, method=method,
                       return_utilities=return_utilities, rs_type=type(random_state).__name__)
            if isinstance(random_state, np.random.RandomState):
                clone = SpyRS(0)
                clone.set_state(random_state.get_state())
                try:
                    out = real(utilities, clone, batch_size=batch_size, return_utilities=return_utilities, method=method)
                finally:
                    random_state.set_state(clone.get_state())
                    rec["noises"] = [x[1] for x in clone.log if x[0] == "random"]
                    ch = [x[1] for x in clone.log if x[0] == "choice"]
                    rec["choice"] = ch[0] if ch else np.array([], dtype=int)
            else:
                out = real(utilities, random_state, batch_size=batch_size, return_utilities=return_utilities, method=method)
                rec["noises"] = None
            rec["out"] = out
            spy.calls.append(rec)
            return out

        real_ra = sel.rand_argmax
        self.ra_calls = []

        def ra_wrapper(a, random_state=None, **kw):
            rec = dict(a=np.array(a, dtype=float).copy(), kw=dict(kw))
            if isinstance(random_state, np.random.RandomState):
                clone = SpyRS(0)
                clone.set_state(random_state.get_state())
                try:
                    out = real_ra(a, clone, **kw)
                finally:
                    random_state.set_state(clone.get_state())
                rec["noise"] = [x[1] for x in clone.log if x[0] == "random"]
            elif isinstance(random_state, (int, np.integer)) and not isinstance(random_state, bool):
                # an integer seed: rand_argmax builds RandomState(seed) itself; replay the same generator through a spy
                clone = SpyRS(int(random_state))
                out = real_ra(a, clone, **kw)
                rec["noise"] = [x[1] for x in clone.log if x[0] == "random"]
            else:
                out = real_ra(a, random_state, **kw)
                rec["noise"] = None
            rec["out"] = np.array(out).copy()
            spy.ra_calls.append(rec)
            return out

        for mod in pool_modules():
            if hasattr(mod, "simple_batch"):
                self._saved.append((mod, "simple_batch", mod.simple_batch))
                mod.simple_batch = wrapper
            if hasattr(mod, "rand_argmax"):
                self._saved.append((mod, "rand_argmax", mod.rand_argmax))
                mod.rand_argmax = ra_wrapper
        return self

    def __exit__(self, *a):
        for mod, name, f in self._saved:
            setattr(mod, name, f)
        return False


def candidate_arg(data, mode, rng, spec, subset=True):
    """Build the `candidates` argument. Returns (candidates, cand_index_set or None, n_columns)."""
    y = data["y"]
    unl = np.flatnonzero(np.isnan(y))
    n = len(y)
    if mode == "none":
        return None, unl, n
    if mode == "idx":
        if len(unl) == 0:
            return None, None, n
        if subset and len(unl) > 1 and rng.random() < 0.7:
            k = rng.randint(1, len(unl))
            idx = np.array(sorted(rng.sample(list(unl), k)))
        else:
            idx = unl.copy()
        if spec.arbitrary_idx and rng.random() < 0.4:
            lab = np.flatnonzero(~np.isnan(y))
            if len(lab):
                extra = rng.sample(list(lab), rng.randint(1, min(2, len(lab))))
                idx = np.array(sorted(set(idx.tolist()) | set(extra)))
        arg = idx.copy()
        if rng.random() < 0.3:  # unsorted order / list input
            arg = np.array(rng.sample(list(arg), len(arg)))
        if rng.random() < 0.3:  # an index *set* given with repeated entries (in any order)
            extra = [rng.choice(list(arg)) for _ in range(rng.randint(1, 3))]
            arg = np.array(rng.sample(list(arg) + extra, len(arg) + len(extra)))
        return arg, np.unique(idx), n
    if mode == "rows":
        if len(unl) == 0:
            return None, None, n
        k = rng.randint(1, len(unl))
        idx = np.array(sorted(rng.sample(list(unl), k)))
        return data["X"][idx].copy(), np.arange(k), k
    raise ValueError(mode)


def run_query(spec, data, candidates, b, seed, timeout=30, qs=None):
    """Run the real strategy (a fresh object, or `qs` re-used). Returns dict(q, U, err, calls)."""
    qs = spec.make(seed) if qs is None else qs
    kw = spec.kwargs(data, seed)
    res = dict(q=None, U=None, err=None, calls=[])
    with SimpleBatchSpy(spy_generator=spec.name in SEQ_CHOICE) as spy:
        try:
            with alarm(timeout), warnings.catch_warnings(), np.errstate(all="ignore"):
                warnings.simplefilter("ignore")
                out = qs.query(data["X"], data["y"], candidates=candidates, batch_size=b, return_utilities=True, **kw)
            res["q"], res["U"] = out
        except Timeout:
            res["err"] = "non-termination"
        except Exception as e:
            res["err"] = f"{type(e).__name__}: {str(e)[:100]}"
    res["calls"] = spy.calls
    res["ra_calls"] = spy.ra_calls
    res["choice_calls"] = [c for g in spy.generators for c in g.choice_calls]
    res["qs"] = qs
    return res


def as_index_list(q):
    """The property demands a one-dimensional integer array. Returns (list, problem-or-None)."""
    a = np.asarray(q)
    if a.size == 0:
        return [], None
    if a.ndim != 1:
        return [int(x) for x in a.ravel()], f"indices have shape {a.shape}, not one-dimensional"
    if not np.issubdtype(a.dtype, np.integer):
        return [int(x) for x in a.ravel()], f"indices have dtype {a.dtype}, not integer"
    return [int(x) for x in a], None


def py_oracle(cand_set, n_cols, b, q, U, kind):
    """The C01/C02 statement evaluated in Python on an implementation output (independent of the
    Lean decider). Returns (c01_problem, c02_problem)."""
    cand = [int(c) for c in cand_set]
    k = min(b, len(cand))
    p1 = None
    if len(q) != k:
        p1 = f"size {len(q)} != min(batch_size, #candidates) = {k}"
    elif len(set(q)) != len(q):
        p1 = "duplicate-index"
    elif any(i not in set(cand) for i in q):
        p1 = "non-candidate-selected"
    p2 = None
    U = np.asarray(U, dtype=float)
    if U.ndim != 2 or U.shape != (len(q), n_cols):
        p2 = f"utilities shape {U.shape} != ({len(q)}, {n_cols})"
    else:
        for i, pick in enumerate(q):
            exp = np.ones(n_cols, dtype=bool)
            exp[cand] = False
            ok_prev = [p for p in q[:i] if 0 <= p < n_cols]
            exp[ok_prev] = True
            if not np.array_equal(np.isnan(U[i]), exp):
                p2 = "nan-pattern"
                break
            if not (0 <= pick < n_cols) or np.isnan(U[i, pick]):
                p2 = "pick-is-nan"
                break
            if kind == "max" and not (U[i, pick] == np.nanmax(U[i])):
                p2 = "pick-not-row-max"
                break
            if kind == "mass" and not (U[i, pick] > 0):
                p2 = "pick-zero-mass"
                break
    return p1, p2


def validpool_line(kind, n_cols, cand_set, b, q, U):
    U = np.asarray(U, dtype=float)
    if U.ndim != 2 or U.shape != (len(q), n_cols):
        return None
    rows = U
    toks = ["validpool", kind, str(n_cols), il(cand_set), str(int(b)), il(q), str(len(q))]
    toks += [f2bits(x) for r in rows for x in r]
    return " ".join(toks)


def poolA_line(n_cols, mapping, util_cand, b, method, noises, choice):
    toks = ["poolA", str(n_cols)]
    toks.append("none" if mapping is None else "some " + il(mapping))
    toks += [fl(util_cand), str(int(b)), method, str(len(noises))]
    toks += [f2bits(x) for nz in noises for x in np.asarray(nz).ravel()]
    toks.append(il(np.atleast_1d(choice)))
    return " ".join(toks)


def canon_rows(U):
    U = np.asarray(U, dtype=float)
    if U.size == 0:
        return ""
    return " ; ".join(" ".join(f2bits(x) for x in r) for r in U.reshape(U.shape[0], -1))


FLAVOURS = ["random", "random", "grid", "duplicates", "constant_feature", "all_equal"]


# ---------------------------------------------------------------------------------------------
# exploration shared by C01 and C02

def err_sig(err):
    """what failed, without the numbers: the first words of the exception message (part of a finding's key, so that another
    exception of the same type in the same method is a different finding)"""
    msg = err.split(":", 1)[1] if ":" in err else err
    words = re.findall(r"[A-Za-z_]+", msg)
    return "-".join(w.lower() for w in words[:4]) or "no-message"


def has_duplicate_candidates(data, cand, cs):
    """Do two candidates have identical feature rows?"""
    try:
        Xc = np.asarray(cand, dtype=float) if (cand is not None and np.asarray(cand).ndim == 2) else np.asarray(data["X"], dtype=float)[np.asarray(cs, dtype=int)]
        return len(np.unique(Xc, axis=0)) < len(Xc)
    except Exception:  # noqa: BLE001
        return False


def finding_key(prop, spec, kind, U=None):
    key = f"{prop}/{spec.name}.query/{kind}"
    if U is not None and kind in ("duplicate-index", "nan-pattern", "pick-is-nan", "pick-not-row-max", "non-candidate-selected"):
        try:
            U = np.asarray(U, dtype=float)
            tie = False
            for r in U.reshape(U.shape[0], -1):
                if np.any(~np.isnan(r)) and np.sum(r == np.nanmax(r)) > 1:
                    tie = True
            key += "/tied-row-maximum" if tie else "/no-tie"
        except Exception:
            pass
    return key


def gen_case(ctx, spec, rng, sizes=(4, 11), endgame=False, colddup=False, dense=False):
    nrs = np.random.RandomState(rng.randrange(2**31 - 1))
    n = rng.randint(*sizes)
    flavour = rng.choice(FLAVOURS)
    cold = rng.random() < 0.12
    n_lab = 0 if cold else rng.randint(0, n - 1)
    if endgame:
        # the end of an active-learning run on a larger pool: several labels, distinct points, and a batch that takes (almost)
        # every remaining candidate -- the regime in which per-cluster / per-leaf quotas have to be redistributed (seed R6C01)
        flavour = "random"
        n_lab = rng.randint(2, max(2, n - 3))
    if colddup:
        # the first cycles of a run on a pool with repeated measurements: no (or hardly any) label, every point present
        # several times, a batch of a few samples -- normalisations hit their extremes at *several* candidates (seed R10G02)
        flavour = "duplicates"
        n_lab = rng.choice([0, 0, 1, 2])
    if dense:
        # late in a run on a large, dense pool: a couple of hundred labeled samples on top of each other (kernel frequency
        # sums in the hundreds: closed forms with gamma / factorials / exponentials leave the floating-point range; seed R12I02)
        flavour = rng.choice(["all_equal", "all_equal", "all_equal", "duplicates", "grid"])
        n_lab = n - rng.randint(3, 8)
    data = make_data(nrs, n, spec.kind, flavour, n_labeled=n_lab, classes=spec.classes or (0, 1, 2))
    modes = ["none", "idx"] + (["rows"] if spec.rows else [])
    mode = rng.choice(modes)
    # strategies with their own batch loop: bias towards proper index subsets with batch sizes >= 2 (the
    # situation in which a loop has to skip clusters / leaves without candidates and mask earlier picks)
    hard = spec.skeleton == "B" and rng.random() < 0.5
    if hard:
        mode = "idx"
    cand, cs, ncols = candidate_arg(data, mode, rng, spec)
    if cs is None or len(cs) == 0:
        return None
    b = rng.choice([1, 2, 3, max(1, len(cs) - 1), len(cs), len(cs) + 2])
    if hard:
        b = rng.choice([2, 3, len(cs), max(2, len(cs) - 1), len(cs) + 1])
    if endgame:
        b = rng.choice([max(1, len(cs) - 2), max(1, len(cs) - 1), len(cs), len(cs) + 1])
    if colddup:
        b = rng.choice([2, 3, 4])
    if dense:
        b = rng.choice([1, 2, len(cs)])
    seed = rng.randrange(10**6)
    return dict(spec=spec.name, n=n, flavour=flavour, mode=mode, b=int(b), seed=seed, X=data["X"], y=data["y"],
                candidates=cand), data, cand, cs, ncols


def eval_case(ctx, prop, spec, case, data, cand, cs, ncols, lines, checks):
    """Run one real query; register oracles/violations for `prop`; queue model lines."""
    b, seed = case["b"], case["seed"]
    r = run_query(spec, data, cand, b, seed)
    kind = "mass" if spec.selection == "prop" else "max"
    sample = dict(strategy=spec.name, mode=case["mode"], n=case["n"], flavour=case["flavour"], batch_size=b,
                  n_candidates=len(cs), seed=seed)
    nontriv = len(cs) >= 2
    ctx.count(f"mode_{case['mode']}")
    ctx.count(f"flavour_{case['flavour']}")
    ctx.count("batch_gt_candidates" if b > len(cs) else ("batch_eq_candidates" if b == len(cs) else "batch_lt_candidates"))
    if r["err"]:
        ctx.case((spec.name, case["mode"], b, seed, case["n"]), nontriv, sample=dict(sample, result="ERR " + r["err"]))
        ctx.count("query_raised")
        if prop == "C01":
            k = "non-termination" if r["err"] == "non-termination" else "raises:" + r["err"].split(":")[0] + "/" + err_sig(r["err"])
            if k.startswith("raises") and has_duplicate_candidates(data, cand, cs):
                k += "/duplicated-candidate-points"    # precondition class (part of the key a known finding is matched by)
            ctx.violate(finding_key("C01", spec, k), f"{spec.name}.query raised on a valid input: {r['err']}", case)
        return
    q, shape_problem = as_index_list(r["q"])
    p1, p2 = py_oracle(cs, ncols, b, q, r["U"], kind)
    sample["result"] = dict(indices=q, c01=p1 or shape_problem or "ok", c02=p2 or "ok")
    ctx.case((spec.name, case["mode"], b, seed, case["n"]), nontriv, sample=sample)
    U = r["U"]
    if prop == "C01" and seed % 3 == 0 and not shape_problem:
        # the statement is about query(X, y, candidates, batch_size): the path without utilities must select the same
        # samples as the path with utilities (a freshly built strategy with the same seed)
        try:
            with alarm(30), warnings.catch_warnings(), np.errstate(all="ignore"):
                warnings.simplefilter("ignore")
                q_plain = spec.make(seed).query(data["X"], data["y"], candidates=None if cand is None else np.array(cand).copy(), batch_size=b,
                                                **spec.kwargs(data, seed))
            ctx.count("without_utilities_compared")
            q_plain_l, sp2 = as_index_list(q_plain)
            if sp2 or q_plain_l != q:
                ctx.violate(finding_key("C01", spec, "selection-differs-without-utilities"),
                            f"{spec.name}.query: return_utilities=False selects {q_plain_l}{' (' + sp2 + ')' if sp2 else ''}, with utilities {q}", case)
        except Timeout:
            ctx.violate(finding_key("C01", spec, "non-termination"), f"{spec.name}.query(return_utilities=False) did not terminate", case)
        except Exception as e:  # noqa: BLE001
            ctx.violate(finding_key("C01", spec, "raises:" + type(e).__name__),
                        f"{spec.name}.query(return_utilities=False) raised {type(e).__name__}: {str(e)[:100]} (the call with utilities succeeds)", case)
    if prop == "C01":
        if shape_problem:
            ctx.violate(finding_key("C01", spec, "index-shape"), f"{spec.name}.query: {shape_problem}", case)
        if p1:
            kindp = p1.split(" ")[0] if p1.startswith("size") else p1
            kindp = "short-batch" if kindp == "size" else kindp
            ctx.violate(finding_key("C01", spec, kindp, U), f"{spec.name}.query: {p1}", case)
    if prop == "C02" and p2:
        kindp = "utilities-shape" if p2.startswith("utilities shape") else p2
        ctx.violate(finding_key("C02", spec, kindp, U), f"{spec.name}.query utilities: {p2}", case)
    # Lean deciders on the implementation output must agree with the Python oracle
    vl = validpool_line(kind, ncols, cs, b, q, U)
    if vl is not None:
        lines.append(vl)
        checks.append(("decider", case, f"batch={0 if p1 else 1} utils={0 if p2 else 1}"))
    # Skeleton A correspondence through the captured simple_batch call
    calls = r["calls"]
    if spec.skeleton == "A" and len(calls) != 1:
        ctx.disagree("Skeleton A: query no longer ends in exactly one simple_batch call", case, "1 call", f"{len(calls)} calls")
    if len(calls) == 1 and calls[0].get("noises") is not None and calls[0]["method"] in ("max", "proportional"):
        c = calls[0]
        full = c["utilities"]
        if full.ndim == 1:
            mapping = None if case["mode"] == "rows" else [int(i) for i in cs]
            uc = full if mapping is None else full[mapping]
            lines.append(poolA_line(len(full), mapping, uc, b, c["method"], c["noises"], c["choice"]))
            impl = (f"ok {int(c['batch_size'])} | " + " ".join(str(i) for i in q) + " | " + canon_rows(U)
                    + " | full " + " ".join(f2bits(x) for x in full))
            checks.append(("skeletonA", case, impl))
            ctx.count("skeletonA_correspondence")
    elif spec.name in SEQ_MASKED and not p1 and not shape_problem:
        seq_correspondence(ctx, spec, case, r, q, cs, ncols, lines, checks)
    elif spec.name in SEQ_CHOICE and not p1 and not shape_problem:
        choice_correspondence(ctx, spec, case, r, q, cs, ncols, lines, checks)
    if spec.name in SEQ_SHRINK and not p1 and not shape_problem:
        shrink_correspondence(ctx, spec, case, r, q, cs, ncols, lines, checks)


# strategies whose batch loop is "mask the earlier picks with NaN, then rand_argmax" (measured on the
# unchanged tree; TypiClust interleaves a second rand_argmax over clusters and RegressionTreeBasedAL
# [representativity] selects per cluster and masks afterwards, so the generic loop model does not apply to them)
SEQ_MASKED = {"FourDs", "DiscriminativeAL", "Clue", "DropQuery", "CoreSet", "ProbCover", "GreedySamplingX",
              "RegressionTreeBasedAL[random]", "RegressionTreeBasedAL[diversity]", "TypiClust", "BatchBALD"}


# strategies that *draw* their batch: weights, zero at the earlier picks, `random_state_.choice(p=…)`
SEQ_CHOICE = {"Badge", "Falcun"}
# strategies whose loop keeps the list of remaining candidates, scores exactly those and deletes the pick
SEQ_SHRINK = {"GreedySamplingX", "GreedySamplingTarget[GSi]", "GreedySamplingTarget[GSy]"}


def choice_correspondence(ctx, spec, case, r, q, cs, ncols, lines, checks):
    """Badge / Falcun: the weight vectors and uniform numbers of the real `choice` calls go to the Lean `choiceseq`
    (positions recomputed by the model of numpy's `choice`, zero discipline, `choice` preconditions).  The theorem
    `choiceSeq_valid` turns these decidable facts into distinctness / membership / positive weight."""
    calls = [c for c in r.get("choice_calls", []) if c["p"] is not None and len(c["inner"]) == 1 and len(c["inner"][0]) == 1
             and np.asarray(c["out"]).size == 1]
    if not q:
        return
    y = np.asarray(case["y"], dtype=float)
    if case["mode"] == "rows":
        space = list(range(len(cs)))
    elif spec.cls == "Badge":
        space = [int(c) for c in cs if np.isnan(y[int(c)])]      # Badge draws among the unlabeled candidates
    else:
        space = [int(c) for c in cs]
    n_first = len(q) - len(calls)
    if n_first not in (0, 1) or any(len(c["p"]) != len(space) for c in calls) or any(i not in space for i in q):
        ctx.count("choice_selection_not_matched")
        return
    pos = [space.index(i) for i in q]
    toks = ["choiceseq", il(pos[:n_first]), str(len(calls))]
    for c in calls:
        toks.append(fl(c["p"]))
        toks.append(f2bits(c["inner"][0][0]))
    lines.append(" ".join(toks))
    checks.append(("weighted-draw-selection", case, "picks " + " ".join(str(p) for p in pos[n_first:]) + " | zero=1 prob=1"))
    ctx.count("choice_correspondence")
    ctx.count(f"choice_first_by_argmax_{n_first}")


def shrink_correspondence(ctx, spec, case, r, q, cs, ncols, lines, checks):
    """`_greedy_sampling`: the score vectors and noise of the real `rand_argmax` calls go to the Lean `shrinkseq`
    (positions recomputed by the model, list shrunk by the model); theorem `shrinkSeq_valid`."""
    calls = [c for c in r.get("ra_calls", []) if c["noise"] and len(c["noise"]) == 1 and c["a"].ndim == 1 and not c["kw"]]
    if not q or len(q) < 2:
        return
    space = list(range(len(cs))) if case["mode"] == "rows" else [int(c) for c in cs]
    # the calls of one `_greedy_sampling` run have lengths n, n-1, …; GreedySamplingTarget runs it twice (x, then y)
    runs, cur = [], []
    for c in calls:
        if cur and len(c["a"]) == len(cur[-1]["a"]) - 1:
            cur.append(c)
        else:
            if cur:
                runs.append(cur)
            cur = [c]
    if cur:
        runs.append(cur)
    if sum(len(x) for x in runs) != len(q) or not runs or len(runs[0][0]["a"]) != len(space):
        ctx.count("shrink_selection_not_matched")
        return
    remaining, off = list(space), 0
    for run in runs:
        if len(run[0]["a"]) != len(remaining):
            ctx.count("shrink_selection_not_matched")
            return
        toks = ["shrinkseq", il(remaining), str(len(run))]
        for c in run:
            toks.append(fl(c["a"]))
            toks.append(" ".join(f2bits(x) for x in np.asarray(c["noise"][0]).ravel()))
        got = q[off:off + len(run)]
        lines.append(" ".join(toks))
        checks.append(("shrinking-list-selection", case, "picks " + " ".join(str(p) for p in got) + " | len=1"))
        remaining = [c for c in remaining if c not in got]
        off += len(run)
    ctx.count("shrink_correspondence")
    ctx.count(f"shrink_runs_{len(runs)}")


def seq_correspondence(ctx, spec, case, r, q, cs, ncols, lines, checks):
    """Strategies with their own batch loop: match the captured rand_argmax calls to the returned picks and
    hand rows + noise to the Lean `seqcheck` (picks recomputed by the model, mask discipline, NaN outside the
    candidates).  The theorem `maskedSeq_valid` turns these decidable facts into distinctness / membership."""
    calls = [c for c in r.get("ra_calls", []) if c["noise"] and len(c["noise"]) == 1 and c["a"].ndim == 1 and not c["kw"]]
    if not calls or not q:
        return
    n_cand = len(cs)
    if spec.cls == "TypiClust":
        # TypiClust interleaves a rand_argmax over the cluster sizes (length n_labeled + batch_size, no NaN) with the
        # sample picks (candidate space); keep the sample picks only, and skip the ambiguous equal-length situation
        n_clusters = int(np.sum(~np.isnan(case["y"]))) + min(case["b"], n_cand)
        if n_clusters == n_cand:
            ctx.count("seq_typiclust_ambiguous_skipped")
            return
        calls = [c for c in calls if len(c["a"]) == n_cand]
    cand_space = None
    matched, qi = [], 0
    for c in calls:
        if qi >= len(q):
            break
        L = len(c["a"])
        pick = int(np.asarray(c["out"]).ravel()[0])
        if L == ncols and case["mode"] != "rows" and pick == q[qi]:
            space = "X"
        elif L == n_cand and pick < n_cand and int(cs[pick]) == q[qi] and case["mode"] != "rows":
            space = "cand"
        elif L == n_cand and case["mode"] == "rows" and pick == q[qi]:
            space = "cand"
        else:
            continue
        if cand_space is None:
            cand_space = space
        if space != cand_space:
            continue
        matched.append(c)
        qi += 1
    if qi != len(q):
        ctx.count("seq_selection_not_via_rand_argmax")
        return
    if cand_space == "X":
        cand_list = [int(i) for i in cs]
        expect_picks = q
    else:
        cand_list = list(range(n_cand))
        expect_picks = [int(np.asarray(c["out"]).ravel()[0]) for c in matched]
    toks = ["seqcheck", il(cand_list), str(len(matched))]
    for c in matched:
        toks.append(fl(c["a"]))
        toks.append(" ".join(f2bits(x) for x in np.asarray(c["noise"][0]).ravel()))
    lines.append(" ".join(toks))
    checks.append(("masked-sequential-selection", case, "picks " + " ".join(str(p) for p in expect_picks) + " | mask=1 outside=1"))
    ctx.count("seq_correspondence")
    ctx.count(f"seq_space_{cand_space}")


def finish_lines(ctx, lines, checks):
    outs = vlib.run_driver(lines)
    for line, out, (what, case, impl) in zip(lines, outs, checks):
        if out.split() != impl.split():
            ctx.disagree(f"{what}: SkaModel.Core.Pool vs implementation", dict(case, line=line[:2000]), out[:2000], impl[:2000])


def explore(ctx, prop, per_spec, sizes=(4, 11), only=None, endgame=False, skeleton=None, colddup=False, dense=False):
    rng = ctx.rng
    lines, checks = [], []
    for spec in pool_specs():
        if only and spec.cls not in only:
            continue
        if skeleton and spec.skeleton != skeleton:
            continue
        done = tries = 0
        while done < per_spec and tries < per_spec * 3:
            tries += 1
            g = gen_case(ctx, spec, rng, sizes, endgame=endgame, colddup=colddup, dense=dense)
            if dense:
                ctx.count("dense_large_pool_regime_cases")
            if endgame:
                ctx.count("endgame_regime_cases")
            if colddup:
                ctx.count("cold_duplicates_regime_cases")
            if g is None:
                continue
            case, data, cand, cs, ncols = g
            eval_case(ctx, prop, spec, case, data, cand, cs, ncols, lines, checks)
            done += 1
    finish_lines(ctx, lines, checks)


def replay_case(prop, payload):
    """Re-run a recorded failing query on the real code."""
    r = payload["replay"]
    spec = [s for s in pool_specs() if s.name == r["spec"]][0]

    def arr(x):
        return np.array([[float("nan") if v == "nan" else v for v in row] if isinstance(row, list) else (float("nan") if row == "nan" else row) for row in x], dtype=float)

    data = dict(X=arr(r["X"]), y=arr(r["y"]))
    cand = r["candidates"]
    if cand is not None:
        cand = np.array(cand)
        if cand.ndim == 2:
            cand = cand.astype(float)
    ctx = vlib.Ctx(prop, "quick", 0)
    y = data["y"]
    if cand is None:
        cs, ncols = np.flatnonzero(np.isnan(y)), len(y)
    elif np.asarray(cand).ndim == 1:
        cs, ncols = np.unique(cand), len(y)
    else:
        cs, ncols = np.arange(len(cand)), len(cand)
    case = dict(r, X=data["X"], y=data["y"], candidates=cand)
    eval_case(ctx, prop, spec, case, data, cand, cs, ncols, [], [])
    for v in ctx.violations:
        print("REPRODUCED:", v["key"], "-", v["what"])
    return 1 if ctx.violations else 0
