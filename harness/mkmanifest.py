"""Regenerates MANIFEST.json from the table below (keeps it valid at all times)."""
import json
import os

VERIF = os.path.dirname(os.path.dirname(os.path.abspath(__file__)))
ALL = [f"C{i:02d}" for i in range(1, 21)]

TRUST = (
    "Trusted: Lean 4.33 kernel (axioms audited each run: propext, Classical.choice, Quot.sound only; no sorry/native_decide); "
    "the hand-written model is tied to /repo by the correspondence run (generators, spies, canonicalisation, driver parsing are trusted); "
    "numpy / scikit-learn primitives and learners are parameters of the theorems; exact arithmetic in theorems vs IEEE doubles in code."
)

CHECKS = {
    "C18": dict(
        text="Lean 4 theorems over all utility vectors / noise vectors / batch sizes (rand_argmax/rand_argmin optimality, tie reachability, "
        "simple_batch size/distinctness/NaN rows/order in both modes, error branches) about an executable model of _selection.py; "
        "the model is tied to the code on every run by bit-exact differential execution with numpy's captured noise/choice draws, "
        "and the property oracle is evaluated on every implementation output."
        " Second tie (translation): harness/translate/pyselect.py re-translates rand_argmax, rand_argmin and simple_batch (method max; 1-d) from the current source into Lean (Gen/SelectionGen.lean) on every run; Lemmas/SelectionGen.lean proves them equal to the model for all inputs (rand_argmax_eq, rand_argmin_eq, simple_batch_max_eq), Props/SelectionGen.lean transfers randArgmax_is_max and simpleBatch_max_spec to the translated functions; the translated model is executed bit-exactly against the real functions (skaselgendriver).",
        design="§4 C18",
        technique="Lean 4 proof (induction over lists) + model/implementation correspondence via line-protocol driver",
    ),
    "C01": dict(
        text="Lean 4 theorems: for every pool size, mapping, candidate-utility vector, batch size and noise the common query tail "
        "(clip batch size, scatter through mapping, simple_batch) returns min(b,#candidates) pairwise distinct candidates "
        "(poolQueryA_valid / _none_valid / _valid_rows / _valid_nan / _prop_valid); validBatchB_iff ties the Boolean decider to the "
        "statement. Tie to the code: every exported pool strategy is run on generated pools in all candidate modes; Skeleton-A strategies "
        "are compared bit-exactly with the model through the captured simple_batch call; every implementation output is judged by the "
        "property oracle and by the proved-equivalent Lean decider. Strategies with their own selection loops are tied through the arrays actually "
        "passed to rand_argmax / RandomState.choice: maskedSeq_valid (mask discipline), choiceSeq_valid (Badge, Falcun; numpy's choice modelled, "
        "choiceIdx_spec) and shrinkSeq_valid (_greedy_sampling); only RegressionTreeBasedAL[representativity] is judged on outputs alone.",
        design="§4 C01",
        technique="Lean 4 proof (induction, refinement to simple_batch spec) + model/implementation correspondence with spies",
    ),
    "C02": dict(
        text="Lean 4 theorems: ValidUtils (shape, NaN exactly at non-candidates and earlier picks, pick attains row maximum) holds for the "
        "scatter + simple_batch skeleton for all inputs (poolQueryA_utils, _utils_rows, simpleBatch_max_validUtils); validUtilsB_iff makes the "
        "Boolean decider run on implementation outputs sound and complete; stepwise_implies_valid derives distinctness/membership from C02. "
        "Tie to the code as for C01.",
        design="§4 C01/C02",
        technique="Lean 4 proof + model/implementation correspondence with spies",
    ),
    "C14": dict(
        text="Lean 4 theorem alLoop_exhausts: for every query function returning a C01-valid batch at every labeling, every initial labeling, "
        "batch size and oracle, the loop queries only unlabeled samples, never repeats one and exhausts the pool after exactly ceil(u/b) queries "
        "(induction on the number of unlabeled samples); skeletonA_loop discharges the hypothesis for Skeleton-A strategies from C01; "
        "alTraceAccepts_sound proves the trace acceptor. Tie: full loops are run on every real strategy (one object across cycles) and the "
        "recorded traces are checked by the Lean acceptor and the Python evaluation of the same conclusions.",
        design="§4 C14",
        technique="Lean 4 proof (induction over the loop) + trace validation against the implementation",
    ),
    "C20": dict(
        text="Lean 4 theorems: np.array_split loses nothing for any number of chunks >= 1, so the parallel wrapper reports exactly the wrapped "
        "strategy's utilities and (equal seed) selection for pointwise scores (arraySplit_flatten, parallel_eq_inner, parallel_selection_eq_inner, "
        "nChunks_pos/_le); the sub-sampling wrapper's caller-space utilities row equals the documented one for all index lists (subRowCode_eq_spec), "
        "the sub-sample has the documented size and picks lie inside it (subSample_spec), and the exclude_non_subsample index translation is the "
        "identity on the sub-sample (expand_innerCands). Tie: paired wrapper/inner runs with a recording proxy and a spy on the sub-sample draw; "
        "chunk sizes, sub-sample size, index translation and every utilities row are compared with the model; the property clauses are evaluated "
        "on every real output. The single-annotator wrapper clause is proved in Props/C07 (annotWrapper_sample_order).",
        design="§4 C20",
        technique="Lean 4 proof + model/implementation correspondence with recording proxies",
    ),
    "C04": dict(
        text="Lean 4 theorems over any ordered field: the guarded decayed counter stays in [0, b*w+1) and grants < b*n + n/w + b*w + 1 for every "
        "wanted-stream, window w >= 1, budget b > 0 and prefix n (guarded_decay_bound); every window-based manager refines that process "
        "(fixed/variable/randVar/split/random _guarded and _budget_respected); dbSplit_bound (<= b*n+1), periodic_bound and "
        "randomSampling_strict_bound (<= b*n); chunked_grants_eq: the bounds hold however the stream is chunked. Tie: bit-exact Float "
        "correspondence of u_t_, theta_, counters and decisions after every chunk with numpy's captured draws, boundary streams (u/w == b), "
        "adversarial utilities; the exact rational bound is evaluated at every prefix of every real run."
        " Second tie (translation): harness/translate/pystream.py re-translates query_by_utility / query / update of every budget manager and both baseline strategies from the current Python source into Lean (Gen/StreamBM.lean) on every run; Lemmas/StreamGen.lean proves each translated method equal to the hand-written model for all inputs (19 bridging theorems), Props/StreamGen.lean transfers the property theorems to the translated managers (gen_* theorems via the simulation lemma Sim.run_chunked); the translated model is also executed bit-exactly against the real classes (skagendriver).",
        design="§4 C04",
        technique="Lean 4 proof (invariant by induction over the stream, refinement; theorems transferred to a model translated from the Python source on every run) + bit-exact model/implementation correspondence",
    ),
    "C03": dict(
        text="Lean 4 theorems: for every budget manager, both baselines and the utility / density / cognitive strategy models, query returns the "
        "object state unchanged (X_query_pure; the models mirror the code's mutate-then-restore structure, and unrestored_query_not_pure shows "
        "the statement is not vacuous), repeated queries agree, and inserting extra queries anywhere in any history leaves all later results "
        "and the final state unchanged (extra_queries_irrelevant, induction over histories). Tie: state-level correspondence (deep attribute "
        "snapshots incl. RandomState.get_state()) before/after every call on all exported stream strategies x managers; twin histories with "
        "extra queries (also with other training data / weights / fit_clf / utility_weight than the regular calls). The density window of "
        "StreamDensityBasedAL (window_, min_dist_, _calculate_ldf) is modelled (Core/Density.lean; C03dens: density_query_restores, step_aligned) "
        "and compared bit-exactly after every call; its kernel _calculate_ldf is also translated from the source on every run "
        "(harness/translate/pydensity.py -> Gen/DensityGen.lean, proved equal to the model: calculate_ldf_eq; gen_step_aligned)."
        " Second tie (translation): harness/translate/pystream.py re-translates query_by_utility / query / update of every budget manager and both baseline strategies from the current Python source into Lean (Gen/StreamBM.lean) on every run; Lemmas/StreamGen.lean proves each translated method equal to the hand-written model for all inputs (19 bridging theorems), Props/StreamGen.lean transfers the property theorems to the translated managers (gen_* theorems via the simulation lemma Sim.run_chunked); the translated model is also executed bit-exactly against the real classes (skagendriver).",
        design="§4 C03",
        technique="Lean 4 proof (purity + induction over histories; theorems transferred to a model translated from the Python source on every run) + state-snapshot and bit-exact correspondence",
    ),
    "C10": dict(
        text="Lean 4 theorems: queried indices strictly increasing and in range for all managers/strategies; update commits exactly the "
        "simulated state (X_update_commits); chunk_invariance_{fixed,variable,split,random,biqf,streamRandom,periodic} for every stream and "
        "every two chunkings; cognitive_update_accepts / density_update_accepts at full strength on the repaired code; counterexamples for the "
        "recorded chunk-dependence finding of the density strategies with density_chunk_invariance_partial. Tie: bit-exact correspondence under "
        "random rechunkings, update fed with query results and with foreign index lists, spies on what the manager receives."
        " Second tie (translation): harness/translate/pystream.py re-translates query_by_utility / query / update of every budget manager and both baseline strategies from the current Python source into Lean (Gen/StreamBM.lean) on every run; Lemmas/StreamGen.lean proves each translated method equal to the hand-written model for all inputs (19 bridging theorems), Props/StreamGen.lean transfers the property theorems to the translated managers (gen_* theorems via the simulation lemma Sim.run_chunked); the translated model is also executed bit-exactly against the real classes (skagendriver).",
        design="§4 C10",
        technique="Lean 4 proof (refinement of chunked to per-instance process; theorems transferred to a model translated from the Python source on every run) + bit-exact correspondence",
    ),
    "C07": dict(
        text="Lean 4 theorems: transformCandAnnot_spec for all nine candidates x annotators cases, batch clipping to available pairs, "
        "nToAssign_terminates (unconditional on the repaired loop; the old loop's divergence kept as a regression theorem), "
        "queryAnnotators_valid / wrapperQuery_valid (k distinct available pairs, utilities NaN at unavailable and earlier pairs, annotators per "
        "sample respected, samples in the inner strategy's order), iet_valid for IntervalEstimationThreshold. Tie: SingleAnnotatorWrapper around "
        "17 inner strategies and IntervalEstimationThreshold over the 3x3 specification grid with captured inner results and noise; property "
        "oracle on every real output under a timeout alarm. Translator tie: harness/translate/pyannot.py re-translates _n_to_assign_annotators (numpy vector expressions, "
        "the while loop with fuel, break) from the current source into Gen/AnnotGen.lean on every run; n_to_assign_eq proves it equal to nToAssign for all inputs and "
        "fuels, gen_n_to_assign_terminates / _fills / _saturated / _fuel_irrelevant are stated about the generated text, skaannotgendriver executes it on the arguments "
        "of every real call and on direct calls of the static method; deviations are leads for the failing-input search.",
        design="§4 C07",
        technique="Lean 4 proof + model/implementation correspondence with spies",
    ),
    "C08": dict(
        text="Lean 4 theorems on the index algebra: candidates=None and candidates=<unlabeled indices> produce the same mapping for every labeling "
        "(none_eq_idx_unlabeled, via np.unique being the identity on strictly increasing lists) and hence literally the same Skeleton-A computation; "
        "feature-row utilities are the index-mode utilities gathered at the mapped positions (rows_eq_idx_gather); a unique best candidate is selected under "
        "every positive noise (randArgmax_unique); for pointwise candidate utilities restriction and row permutation act as stated (pointwise_restrict, "
        "pointwise_permute). Tie: the real _validate_data + _transform_candidates vs the model on random index lists; paired real queries under the three "
        "addressings, candidate subsets and row permutations for every strategy (lists of sample-wise scorers in the evidence assumptions). That a given "
        "strategy's numeric score is pointwise is validated on samples, not proved."
        " UncertaintySampling's least_confident / margin_sampling scores, the scatter through the mapping and the utility weights are modelled (Core/Uncertainty.lean; C08us: scores_pointwise, us_restrict, leastConfident_spec) and compared bit-exactly through the captured probability rows.",
        design="§4 C08",
        technique="Lean 4 proof (index algebra) + paired-run correspondence on the implementation",
    ),
    "C19": dict(
        text="Lean 4 theorems (42): refinement of IndexClassifierWrapper to training lists of (index,label,weight) triples (abs_fit, abs_partialFit), invariants "
        "(enforceUnique_nodup, base_unchanged_without_setBase, partialFit_useBase_independent_of_cur, atomicity of fit), clf_is_replay for every fitFn/pfitFn, "
        "flag setting and call sequence (native path), clf_is_fresh_fit_partial on clean runs with the counterexample for the recorded non-atomic partial_fit "
        "finding, speedup_never_changes_prediction over whole histories on the repaired code. Tie: random and exhaustive op sequences on the real wrapper around a "
        "recording spy classifier, ParzenWindowClassifier (speed-up on/off in lock-step) and SklearnClassifier(GaussianNB); state compared after every call; "
        "predictions compared with a fresh clone trained on the implied multiset. Translator tie: harness/translate/pywrapper.py re-translates the helpers "
        "_get_sw/_copy_sw/_concat_sw and the new-training-record block of the emulated partial_fit from the current source into Gen/WrapperGen.lean on every run; "
        "merge_eq proves the generated block equal to the model's merge for all inputs, gen_merge_spec / gen_merge_total / gen_merge_mixed / gen_merge_nodup are "
        "stated about the generated text, and skawrapgendriver executes it against the record the real object holds after partial_fit; the attribute-storing tail of "
        "fit is translated too (fit.store; gen_fit_store_eq_fit: it leaves exactly the state the model's fit returns) and executed against the real attributes, "
        "and so is the native branch of partial_fit (partial_fit.native; gen_native_eq_partialNative), executed on the call histories of the recording classifiers.",
        design="§4 C19",
        technique="Lean 4 proof (refinement + induction over op sequences; bridging proof for the translated source) + state-level correspondence",
    ),
    "C17": dict(
        text="Lean 4 theorems: voteVectors_eq_count (V[i][c] = sum_j w[i][j]*[y[i][j]=c] for all shapes, missing and NaN-weight patterns, any semiring), "
        "majorityVote_max (a class of maximal vote; sentinel exactly for rows without a label; reuses C18), confusion_counts (raw counts for normalize=None, "
        "on the repaired code), confusion_normalised_{true,pred,all}, confusion_rejects. Tie: random label/weight matrices under several encodings, all four "
        "normalisation modes, captured tie-breaking noise; bit-exact comparison with the model and the property oracle on every real output.",
        design="§4 C17",
        technique="Lean 4 proof + model/implementation correspondence",
    ),
    "C16": dict(
        text="Lean 4 theorems (22) over any linear order of labels: isLabeled_compl, isUnlabeled_iff_sentinel (NaN included) and the acceptance table of "
        "check_missing_label, indices_enumerate / _2d (sorted resp. lexicographic, exactly the marked positions), classes_sorted, transform_range, "
        "transform_monotone, transform_unseen_raises (on the repaired encoder), inverse_transform_roundtrip, inverse_out_of_range. Tie: dtype x sentinel x "
        "shape x missing-pattern grid incl. the error enum against the real utilities and ExtLabelEncoder; labels reach the model as kind tags plus "
        "order-preserving integer codes; thorough tier exhaustive for n<=3, m<=2.",
        design="§4 C16",
        technique="Lean 4 proof + model/implementation correspondence (exhaustive small scope in the thorough tier)",
    ),
    "C09": dict(
        text="Lean 4 theorems on the encoding algebra: encode_monotone_invariant (every strictly increasing relabeling and any two sentinels give the identical "
        "encoded array), isUnlabeled_invariant, decode_relabel, factors_through_encoding, predictions_reencoded, costMatrix_perm_invariant. That a given strategy or "
        "classifier factors through the encoding is established by paired real runs under four encodings (189 configurations over 52 classes: all classifiers, pool, "
        "stream and multi-annotator strategies), compared bit-exactly; recorded findings list the strategies that do not.",
        design="§4 C09",
        technique="Lean 4 proof (encoding algebra) + paired-encoding runs on the implementation",
    ),
    "C11": dict(
        text="Lean 4 theorems (22): normalizeFreq_simplex / _uniform_of_zero (declared classes, no labels => uniform), ensemble hard/soft voting simplex, freq_nonneg, "
        "remap_simplex / remap_columns for the scikit-learn wrapper incl. fallbacks, predict_min_cost / predict_most_probable (reusing C18), the three predict branches of "
        "SklearnClassifier with the counterexample for the recorded sampling fallback. Tie: spy and real estimators on training sets with zero labels, one class, "
        "unobserved classes, weights, cost matrices, priors; dyadic kernels so K*V is exact; property oracle on all six classifiers.",
        design="§4 C11",
        technique="Lean 4 proof + model/implementation correspondence with spy estimators",
    ),
    "C12": dict(
        text="Lean 4 theorems (14): filterLabeled is invariant under inserting, deleting, moving and re-weighting unlabeled rows, hence every fit and prediction for every "
        "estimator function (fit_unlabeled_irrelevant, fit_eq_fit_on_labeled_subset, reveal_order_irrelevant), per-wrapper instances (Sklearn classifier/regressors, "
        "NIC, AnnotatorLogisticRegression on the repaired code), pwc_freq_labeled_only, label_counts_labeled_only. Tie: spy estimators recording exactly the "
        "(X, y, sample_weight) they are fitted on; paired real fits with/without unlabeled rows compared bit-exactly.",
        design="§4 C12",
        technique="Lean 4 proof + spy-estimator correspondence",
    ),
    "C15": dict(
        text="Lean 4 theorems (16): predict_is_mean / predict_parts, combine_pos / combine_scale_pos (posterior parameters positive, scale^2 >= 0), estimateMl_spec, "
        "nic_std_finite_proper_prior, nadaraya_watson_std_finite, wrapper_delegates / wrapper_fallback_values, sample_shape; normal_fallback_partial with the "
        "counterexample for the recorded zero-label-std finding. Tie: NIC / NadarayaWatson with dyadic precomputed kernels (posterior parameters bit-exact), predict vs "
        "predict_target_distribution, sample_y shape and reproducibility, wrappers around estimators that fit or raise with 0/1/2 labels.",
        design="§4 C15",
        technique="Lean 4 proof + bit-exact model/implementation correspondence",
    ),
    "C05": dict(
        text="Lean 4 theorems over an abstract store semantics (objects, references, copy/deepcopy/clone; effect language writeAttr / mutateVia / bind / callFit / "
        "callQuery): frameOK_preserves_params (a summary passing the decidable predicate FrameOK leaves get_params of self, every argument object and every "
        "caller-owned cell unchanged, also on exceptional exit), frameOK_sequence (any number of consecutive queries), frameOK_closed_under_callQuery (wrappers). "
        "Tie 1: an AST translator regenerates the effect summary of every pool strategy's query from the current source on every run; 32 per-class obligations "
        "`by decide`. Tie 2: deep before/after snapshots on the real objects (input arrays incl. read-only views, get_params(deep=True), caller models, pickle, "
        "clone twin) for every class x configuration x candidate mode validate the summaries and are the property's oracle.",
        design="Part I §I.2, Part II §4 C05",
        technique="Lean 4 proof over an effect abstraction + AST translation validated by dynamic snapshots",
        note="Trusted: Lean kernel (axioms audited); that effect summaries over-approximate the Python semantics (validated dynamically, not proved); numpy aliasing is not "
        "modelled, so immutability of the input arrays is established by the snapshot runs only.",
    ),
    "C13": dict(
        text="Lean 4 theorems: frame_fit_history_free (a fit whose summary reads no fitted attribute before writing it and certainly writes what it may write equals "
        "a fit on a fresh object and preserves get_params), public_calls_preserve_params, window_is_last_w_partial (SlidingWindowClassifier equals a fit on exactly the "
        "last window_size samples, with the counterexample for the recorded non-atomic error path), pureReader_preserves_object (every predict* / sample* method "
        "writes and mutates nothing of self). 132 generated obligations over every public method of 32 "
        "estimator / manager / stream classes. Dynamic tie: refit-vs-fresh-clone on different data, get_params and caller dicts before/after every public call in "
        "random call sequences, window op sequences against the Lean window model.",
        design="Part I §I.2, Part II §4 C13",
        technique="Lean 4 proof over an effect abstraction + window model; AST translation validated dynamically",
        note="Trusted: Lean kernel (axioms audited); effect summaries over-approximate the Python semantics (validated dynamically); three documented imprecisions in "
        "harness/translate/expected.json.",
    ),
    "C06": dict(
        text="Lean 4 theorems over programs with two random sources (own, global): no_global_independent (no draw site or unseeded constructor uses the global source "
        "=> the result is independent of the global generator), run_det, pool_repeat_equal, crs_private / crs_deterministic / repeat_all_equal (check_random_state(seed, multiplier) modelled from the caller's side and compared with the real function). 121 generated obligations "
        "over the RNG draw-site tables of 64 classes. Dynamic tie: twin objects, repeated calls and three different np.random.seed states must agree for every class "
        "x configuration, also with RandomState instances as random_state (caller's instance unchanged, repeat equal) and for a used object vs a fresh one; query_history_free + 32 generated "
        "query_<Class>_historyFree obligations (read-before-write analysis of the regenerated effect summaries of every pool query). Source-to-Lean tie: "
        "harness/translate/pyrng.py re-translates skactiveml.utils.check_random_state into Gen/RngGen.lean on every run (generator objects with identity); "
        "check_random_state_eq proves it equal to checkRandomState for all inputs, gen_crs_private / gen_crs_deterministic / gen_crs_seed are stated about the "
        "generated text, skarnggendriver executes it on the calls made to the real function. One caller-owned generator handed to two fresh budget managers / "
        "stream strategies (also with update before the first query) must give identical runs.",
        design="Part I §I.2, Part II §4 C06",
        technique="Lean 4 proof over an RNG-source abstraction + AST translation validated dynamically",
        note="Trusted: Lean kernel (axioms audited); RNG-site tables over-approximate the Python semantics (validated dynamically); third-party estimators are deterministic "
        "given their random_state; thread-level nondeterminism is not modelled.",
    ),
}

NOT_YET = "check not built yet in this round (design in DESIGN.md §4); no claim is made"


def main():
    checks, na = [], []
    for pid in ALL:
        if pid in CHECKS:
            c = CHECKS[pid]
            checks.append(
                dict(
                    property_id=pid,
                    quick_cmd=f"./check {pid} quick",
                    thorough_cmd=f"./check {pid} thorough",
                    evidence_file=f"evidence/{pid}.json",
                    replay_cmd_template=f"./check {pid} --replay {{path}}",
                    engine="lean4-model+correspondence",
                    level_claimed=dict(category=c.get("category", "proof"), text=c["text"], design_ref=c["design"]),
                    level_note=c.get("note", TRUST),
                    technique=c["technique"],
                )
            )
        else:
            na.append(dict(property_id=pid, reason=NA.get(pid, NOT_YET)))
    m = dict(
        version=1,
        setup_cmd="cd lean && lake build",
        hooks=dict(
            guard="SKACTIVEML_VERIF",
            enable="no source hooks: all observation is done by monkeypatching from the harness (PYTHONPATH=/repo /venv/bin/python); the variable is exported by ./check for future guarded hooks",
            baseline_off_cmd="cd /repo && /venv/bin/python -m pytest -ra -q -p no:cacheprovider --timeout=900 --continue-on-collection-errors",
            source_commits=[],
            add_only=True,
        ),
        engines=[
            dict(
                name="lean4-model+correspondence",
                path="lean/ + harness/",
                serves_properties=sorted(CHECKS),
                kind_free_text="Lean 4 theorems about hand-written executable models; models tied to /repo by differential execution through a compiled line-protocol driver; AST translator for frame-like obligations",
            )
        ],
        checks=checks,
        not_applicable=na,
        notes="Every check: lake build of the property's theorems, axiom audit, model-vs-code correspondence, property oracle on the implementation, failing-input search when a tie breaks. known_findings.json lists recorded genuine defects.",
    )
    with open(os.path.join(VERIF, "MANIFEST.json"), "w") as f:
        json.dump(m, f, indent=1)
        f.write("\n")


NA = {}

if __name__ == "__main__":
    main()
