"""Regenerates MANIFEST.json from the table below (keeps it valid at all times)."""
import json
import os

VERIF = os.path.dirname(os.path.dirname(os.path.abspath(__file__)))
ALL = [f"C{i:02d}" for i in range(1, 21)]

TRUST = (
    "Trusted: Lean 4.33 kernel (axioms audited each run: propext, Classical.choice, Quot.sound only; no sorry/native_decide); "
    "the hand-written model is tied to /repo by the correspondence run (generators, spies, canonicalisation, driver parsing are trusted); "
    "numpy / scikit-learn primitives and learners are parameters of the theorems; exact arithmetic in theorems vs IEEE doubles in code."
)

CHECKS = {
    "C18": dict(
        text="Lean 4 theorems over all utility vectors / noise vectors / batch sizes (rand_argmax/rand_argmin optimality, tie reachability, "
        "simple_batch size/distinctness/NaN rows/order in both modes, error branches) about an executable model of _selection.py; "
        "the model is tied to the code on every run by bit-exact differential execution with numpy's captured noise/choice draws, "
        "and the property oracle is evaluated on every implementation output.",
        design="§4 C18",
        technique="Lean 4 proof (induction over lists) + model/implementation correspondence via line-protocol driver",
    ),
}

NOT_YET = "check not built yet in this round (design in DESIGN.md §4); no claim is made"


def main():
    checks, na = [], []
    for pid in ALL:
        if pid in CHECKS:
            c = CHECKS[pid]
            checks.append(
                dict(
                    property_id=pid,
                    quick_cmd=f"./check {pid} quick",
                    thorough_cmd=f"./check {pid} thorough",
                    evidence_file=f"evidence/{pid}.json",
                    replay_cmd_template=f"./check {pid} --replay {{path}}",
                    engine="lean4-model+correspondence",
                    level_claimed=dict(category=c.get("category", "proof"), text=c["text"], design_ref=c["design"]),
                    level_note=c.get("note", TRUST),
                    technique=c["technique"],
                )
            )
        else:
            na.append(dict(property_id=pid, reason=NA.get(pid, NOT_YET)))
    m = dict(
        version=1,
        setup_cmd="cd lean && lake build",
        hooks=dict(
            guard="SKACTIVEML_VERIF",
            enable="no source hooks: all observation is done by monkeypatching from the harness (PYTHONPATH=/repo /venv/bin/python); the variable is exported by ./check for future guarded hooks",
            baseline_off_cmd="cd /repo && /venv/bin/python -m pytest -ra -q -p no:cacheprovider --timeout=900 --continue-on-collection-errors",
            source_commits=[],
            add_only=True,
        ),
        engines=[
            dict(
                name="lean4-model+correspondence",
                path="lean/ + harness/",
                serves_properties=sorted(CHECKS),
                kind_free_text="Lean 4 theorems about hand-written executable models; models tied to /repo by differential execution through a compiled line-protocol driver; AST translator for frame-like obligations",
            )
        ],
        checks=checks,
        not_applicable=na,
        notes="Every check: lake build of the property's theorems, axiom audit, model-vs-code correspondence, property oracle on the implementation, failing-input search when a tie breaks. known_findings.json lists recorded genuine defects.",
    )
    with open(os.path.join(VERIF, "MANIFEST.json"), "w") as f:
        json.dump(m, f, indent=1)
        f.write("\n")


NA = {}

if __name__ == "__main__":
    main()
