"""Regenerates MANIFEST.json from the table below (keeps it valid at all times)."""
import json
import os

VERIF = os.path.dirname(os.path.dirname(os.path.abspath(__file__)))
ALL = [f"C{i:02d}" for i in range(1, 21)]

TRUST = (
    "Trusted: Lean 4.33 kernel (axioms audited each run: propext, Classical.choice, Quot.sound only; no sorry/native_decide); "
    "the hand-written model is tied to /repo by the correspondence run (generators, spies, canonicalisation, driver parsing are trusted); "
    "numpy / scikit-learn primitives and learners are parameters of the theorems; exact arithmetic in theorems vs IEEE doubles in code."
)

CHECKS = {
    "C18": dict(
        text="Lean 4 theorems over all utility vectors / noise vectors / batch sizes (rand_argmax/rand_argmin optimality, tie reachability, "
        "simple_batch size/distinctness/NaN rows/order in both modes, error branches) about an executable model of _selection.py; "
        "the model is tied to the code on every run by bit-exact differential execution with numpy's captured noise/choice draws, "
        "and the property oracle is evaluated on every implementation output.",
        design="§4 C18",
        technique="Lean 4 proof (induction over lists) + model/implementation correspondence via line-protocol driver",
    ),
    "C01": dict(
        text="Lean 4 theorems: for every pool size, mapping, candidate-utility vector, batch size and noise the common query tail "
        "(clip batch size, scatter through mapping, simple_batch) returns min(b,#candidates) pairwise distinct candidates "
        "(poolQueryA_valid / _none_valid / _valid_rows / _valid_nan / _prop_valid); validBatchB_iff ties the Boolean decider to the "
        "statement. Tie to the code: every exported pool strategy is run on generated pools in all candidate modes; Skeleton-A strategies "
        "are compared bit-exactly with the model through the captured simple_batch call; every implementation output is judged by the "
        "property oracle and by the proved-equivalent Lean decider. Strategies with their own selection loops are covered by the oracle "
        "and decider only (their loops are not yet modelled).",
        design="§4 C01",
        technique="Lean 4 proof (induction, refinement to simple_batch spec) + model/implementation correspondence with spies",
    ),
    "C02": dict(
        text="Lean 4 theorems: ValidUtils (shape, NaN exactly at non-candidates and earlier picks, pick attains row maximum) holds for the "
        "scatter + simple_batch skeleton for all inputs (poolQueryA_utils, _utils_rows, simpleBatch_max_validUtils); validUtilsB_iff makes the "
        "Boolean decider run on implementation outputs sound and complete; stepwise_implies_valid derives distinctness/membership from C02. "
        "Tie to the code as for C01.",
        design="§4 C01/C02",
        technique="Lean 4 proof + model/implementation correspondence with spies",
    ),
    "C14": dict(
        text="Lean 4 theorem alLoop_exhausts: for every query function returning a C01-valid batch at every labeling, every initial labeling, "
        "batch size and oracle, the loop queries only unlabeled samples, never repeats one and exhausts the pool after exactly ceil(u/b) queries "
        "(induction on the number of unlabeled samples); skeletonA_loop discharges the hypothesis for Skeleton-A strategies from C01; "
        "alTraceAccepts_sound proves the trace acceptor. Tie: full loops are run on every real strategy (one object across cycles) and the "
        "recorded traces are checked by the Lean acceptor and the Python evaluation of the same conclusions.",
        design="§4 C14",
        technique="Lean 4 proof (induction over the loop) + trace validation against the implementation",
    ),
}

NOT_YET = "check not built yet in this round (design in DESIGN.md §4); no claim is made"


def main():
    checks, na = [], []
    for pid in ALL:
        if pid in CHECKS:
            c = CHECKS[pid]
            checks.append(
                dict(
                    property_id=pid,
                    quick_cmd=f"./check {pid} quick",
                    thorough_cmd=f"./check {pid} thorough",
                    evidence_file=f"evidence/{pid}.json",
                    replay_cmd_template=f"./check {pid} --replay {{path}}",
                    engine="lean4-model+correspondence",
                    level_claimed=dict(category=c.get("category", "proof"), text=c["text"], design_ref=c["design"]),
                    level_note=c.get("note", TRUST),
                    technique=c["technique"],
                )
            )
        else:
            na.append(dict(property_id=pid, reason=NA.get(pid, NOT_YET)))
    m = dict(
        version=1,
        setup_cmd="cd lean && lake build",
        hooks=dict(
            guard="SKACTIVEML_VERIF",
            enable="no source hooks: all observation is done by monkeypatching from the harness (PYTHONPATH=/repo /venv/bin/python); the variable is exported by ./check for future guarded hooks",
            baseline_off_cmd="cd /repo && /venv/bin/python -m pytest -ra -q -p no:cacheprovider --timeout=900 --continue-on-collection-errors",
            source_commits=[],
            add_only=True,
        ),
        engines=[
            dict(
                name="lean4-model+correspondence",
                path="lean/ + harness/",
                serves_properties=sorted(CHECKS),
                kind_free_text="Lean 4 theorems about hand-written executable models; models tied to /repo by differential execution through a compiled line-protocol driver; AST translator for frame-like obligations",
            )
        ],
        checks=checks,
        not_applicable=na,
        notes="Every check: lake build of the property's theorems, axiom audit, model-vs-code correspondence, property oracle on the implementation, failing-input search when a tie breaks. known_findings.json lists recorded genuine defects.",
    )
    with open(os.path.join(VERIF, "MANIFEST.json"), "w") as f:
        json.dump(m, f, indent=1)
        f.write("\n")


NA = {}

if __name__ == "__main__":
    main()
