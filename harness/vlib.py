"""Shared machinery for the /verif checks (runs under /venv/bin/python with PYTHONPATH=/repo).

Every check does, in this order:
  1. (optional) regenerate Lean `Gen` files from /repo's current source (translator tie);
  2. `lake build` of the property's Lean targets + the driver  (theorems re-checked);
  3. axiom / forbidden-token audit of the property theorems;
  4. correspondence: model (Lean driver) vs implementation on generated cases + the property's own
     oracle on every implementation output;
  5. if a tie broke and no failing input is known yet: failing-input search on the implementation;
  6. known-findings matching, evidence, exit code.
"""
import fcntl
import hashlib
import json
import os
import random
import re
import struct
import subprocess
import sys
import time
import traceback
import warnings

VERIF = os.path.dirname(os.path.dirname(os.path.abspath(__file__)))
LEAN = os.path.join(VERIF, "lean")
REPO = os.environ.get("SKA_REPO", "/repo")
DRIVER = os.path.join(LEAN, ".lake", "build", "bin", "skadriver")
GENDRIVER = os.path.join(LEAN, ".lake", "build", "bin", "skagendriver")
SELGENDRIVER = os.path.join(LEAN, ".lake", "build", "bin", "skaselgendriver")
DENSGENDRIVER = os.path.join(LEAN, ".lake", "build", "bin", "skadensgendriver")
WRAPGENDRIVER = os.path.join(LEAN, ".lake", "build", "bin", "skawrapgendriver")
RNGGENDRIVER = os.path.join(LEAN, ".lake", "build", "bin", "skarnggendriver")
ALLOWED_AXIOMS = {"propext", "Classical.choice", "Quot.sound"}
FORBIDDEN = re.compile(
    r"\bsorry\b|\badmit\b|^axiom\s|native_decide|bv_decide|implemented_by|\bunsafe\s|maxHeartbeats\s+0\b",
    re.M,
)
TRUSTED_BASE = [
    "Lean 4.33 kernel; axioms limited to propext, Classical.choice, Quot.sound (audited per theorem each run)",
    "hand-written Lean model tied to /repo by this run's correspondence (harness generators, spies, canonicalisation, line protocol)",
    "numpy/scikit-learn primitives modelled, not verified (argmax first maximum, RandomState.choice contract, MT19937 as a source of arbitrary noise)",
    "exact arithmetic in theorems vs IEEE doubles in the code",
]


# ---------------------------------------------------------------------------------------------
# floats on the wire: decimal value of the 64-bit pattern, `nan` for NaN

def f2bits(x):
    x = float(x)
    if x != x:
        return "nan"
    return str(struct.unpack("<Q", struct.pack("<d", x))[0])


def bits2f(tok):
    if tok == "nan":
        return float("nan")
    return struct.unpack("<d", struct.pack("<Q", int(tok)))[0]


def fl(xs):
    """`<n> x1 .. xn` for a flat iterable of floats."""
    xs = [f2bits(x) for x in xs]
    return " ".join([str(len(xs))] + xs)


def il(xs):
    xs = [str(int(x)) for x in xs]
    return " ".join([str(len(xs))] + xs)


# ---------------------------------------------------------------------------------------------
# Lean side

class BuildResult:
    def __init__(self, ok, log, seconds):
        self.ok, self.log, self.seconds = ok, log, seconds


def _lock():
    os.makedirs(os.path.join(LEAN, ".lake"), exist_ok=True)
    f = open(os.path.join(LEAN, ".lake", "verif.lock"), "w")
    fcntl.flock(f, fcntl.LOCK_EX)
    return f


def lake_build(targets):
    """Build the given lake targets (module names / exe) under a lock. Returns BuildResult."""
    t0 = time.time()
    lk = _lock()
    try:
        p = subprocess.run(
            ["lake", "build"] + list(targets), cwd=LEAN, stdout=subprocess.PIPE, stderr=subprocess.STDOUT, text=True
        )
    finally:
        lk.close()
    return BuildResult(p.returncode == 0, p.stdout, time.time() - t0)


def strip_comments(src):
    # remove /- ... -/ (nested) and -- comments
    out, i, depth = [], 0, 0
    while i < len(src):
        if src.startswith("/-", i):
            depth += 1
            i += 2
        elif src.startswith("-/", i) and depth > 0:
            depth -= 1
            i += 2
        elif depth > 0:
            if src[i] == "\n":
                out.append("\n")
            i += 1
        elif src.startswith("--", i):
            j = src.find("\n", i)
            i = len(src) if j < 0 else j
        else:
            out.append(src[i])
            i += 1
    return "".join(out)


def theorem_names(path):
    """Fully qualified names of the theorems declared in a Props file (namespace aware, simple)."""
    src = strip_comments(open(path).read())
    ns, names = [], []
    for line in src.splitlines():
        m = re.match(r"\s*namespace\s+(\S+)", line)
        if m:
            ns.append(m.group(1))
            continue
        m = re.match(r"\s*end\s+(\S+)", line)
        if m and ns and ns[-1] == m.group(1):
            ns.pop()
            continue
        m = re.match(r"\s*(?:private\s+|protected\s+)?theorem\s+([^\s:({\[]+)", line)
        if m:
            names.append(".".join(ns + [m.group(1)]))
    return names


def audit(prop_modules, extra_modules=()):
    """#print axioms for every theorem of the given Props modules; forbidden-token grep over all
    Lean sources. Returns dict(obligations, discharged, problems[list of str], theorems[list])."""
    problems, thms = [], []
    for mod in prop_modules:
        path = os.path.join(LEAN, mod.replace(".", "/") + ".lean")
        thms += theorem_names(path)
    os.makedirs(os.path.join(LEAN, ".lake", "audit"), exist_ok=True)
    tag = hashlib.sha1(" ".join(prop_modules).encode()).hexdigest()[:10]
    apath = os.path.join(LEAN, ".lake", "audit", f"Audit_{tag}_{os.getpid()}.lean")
    with open(apath, "w") as f:
        for mod in list(prop_modules) + list(extra_modules):
            f.write(f"import {mod}\n")
        for t in thms:
            f.write(f"#print axioms {t}\n")
    p = subprocess.run(["lake", "env", "lean", apath], cwd=LEAN, stdout=subprocess.PIPE, stderr=subprocess.STDOUT, text=True)
    os.remove(apath)
    out = p.stdout
    # "'name' depends on axioms: [a, b]"  |  "'name' does not depend on any axioms"
    seen = {}
    for m in re.finditer(r"'([^']+)' depends on axioms: \[([^\]]*)\]", out):
        seen[m.group(1)] = {a.strip() for a in m.group(2).replace("\n", " ").split(",") if a.strip()}
    for m in re.finditer(r"'([^']+)' does not depend on any axioms", out):
        seen[m.group(1)] = set()
    discharged = 0
    for t in thms:
        if t not in seen:
            problems.append(f"theorem {t}: no axiom report (does it still exist / compile?)")
        elif not seen[t] <= ALLOWED_AXIOMS:
            problems.append(f"theorem {t}: depends on non-standard axioms {sorted(seen[t] - ALLOWED_AXIOMS)}")
        else:
            discharged += 1
    if p.returncode != 0 and not problems:
        problems.append("axiom audit failed to run: " + out[-500:])
    # forbidden tokens anywhere in our Lean sources
    for root, _, files in os.walk(LEAN):
        if ".lake" in root:
            continue
        for fn in files:
            if fn.endswith(".lean"):
                src = strip_comments(open(os.path.join(root, fn)).read())
                m = FORBIDDEN.search(src)
                if m:
                    problems.append(f"forbidden token {m.group(0)!r} in {os.path.relpath(os.path.join(root, fn), LEAN)}")
    return dict(obligations=len(thms), discharged=discharged, problems=problems, theorems=thms)


def failing_theorems(log):
    """Names of the theorems / definitions enclosing the error positions of a lake build log."""
    out = []
    for m in re.finditer(r"error: (SkaModel/[\w/]+\.lean):(\d+):\d+", log):
        path, line = os.path.join(LEAN, m.group(1)), int(m.group(2))
        try:
            src = open(path).read().splitlines()
        except OSError:
            continue
        name = None
        for k in range(min(line, len(src)) - 1, -1, -1):
            mm = re.match(r"\s*(?:private\s+)?(?:theorem|lemma|def|instance)\s+([^\s:({\[]+)", src[k])
            if mm:
                name = mm.group(1)
                break
        tag = f"{name} ({m.group(1)}:{line})" if name else f"{m.group(1)}:{line}"
        if tag not in out and not any(t.startswith((name or '?') + " ") for t in out):
            out.append(tag)
    return out[:8]


def run_driver(lines, timeout=600, exe=None):
    """Pipe the case lines to the compiled model driver; one output line per input line."""
    if not lines:
        return []
    data = "\n".join(lines) + "\n"
    p = subprocess.run([exe or DRIVER], input=data, stdout=subprocess.PIPE, stderr=subprocess.PIPE, text=True, timeout=timeout)
    out = p.stdout.splitlines()
    if p.returncode != 0 or len(out) != len(lines):
        raise RuntimeError(f"driver failed rc={p.returncode} lines_in={len(lines)} lines_out={len(out)} err={p.stderr[-400:]}")
    return out


# ---------------------------------------------------------------------------------------------
# results

class Ctx:
    """Per-run context handed to the property module."""

    def __init__(self, prop, tier, seed):
        self.prop, self.tier, self.seed = prop, tier, seed
        self.rng = random.Random(seed * 1000003 + 17)
        self.thorough = tier == "thorough"
        self.evaluations = 0
        self.nontrivial = set()
        self.samples = []
        self.stats = {}
        self.disagreements = []      # model vs implementation (broken correspondence)
        self.violations = []         # property oracle failed on the implementation
        self.broken = []             # other broken ties (build, audit, translator)
        self.assumptions = []
        self.exhaustive = None
        self.traces = 0
        self.notes = {}

    # bookkeeping -------------------------------------------------------------------------
    def count(self, key, n=1):
        self.stats[key] = self.stats.get(key, 0) + n

    def case(self, key, nontrivial, sample=None):
        """Register one explored case. `key` identifies it (for distinctness)."""
        self.evaluations += 1
        if nontrivial:
            self.nontrivial.add(hashlib.sha1(repr(key).encode()).hexdigest())
        if sample is not None and len(self.samples) < 6:
            self.samples.append(sample)

    def disagree(self, what, case, model, impl):
        self.disagreements.append(dict(correspondence=what, case=case, model=model, impl=impl))

    def violate(self, key, what, replay):
        """Property oracle failed on the implementation. `key` identifies the finding class
        (matched against known_findings.json); `replay` must let `--replay` re-run it."""
        self.violations.append(dict(key=key, what=what, replay=replay))

    def np_rng(self, salt=0):
        import numpy as np

        return np.random.RandomState((self.seed * 7919 + salt) % (2**31))


def jsonable(x):
    import numpy as np

    if isinstance(x, dict):
        return {str(k): jsonable(v) for k, v in x.items()}
    if isinstance(x, (list, tuple)):
        return [jsonable(v) for v in x]
    if isinstance(x, np.ndarray):
        return jsonable(x.tolist())
    if isinstance(x, (np.integer,)):
        return int(x)
    if isinstance(x, (np.floating, float)):
        x = float(x)
        if x != x:
            return "nan"
        if x in (float("inf"), float("-inf")):
            return "inf" if x > 0 else "-inf"
        return x
    if isinstance(x, (np.bool_,)):
        return bool(x)
    if isinstance(x, (str, int, bool)) or x is None:
        return x
    return repr(x)


def load_known():
    p = os.path.join(VERIF, "known_findings.json")
    if not os.path.exists(p):
        return []
    return json.load(open(p)).get("findings", [])


def write_replay(prop, payload):
    os.makedirs(os.path.join(VERIF, "replays"), exist_ok=True)
    blob = json.dumps(jsonable(payload), sort_keys=True, indent=1)
    name = f"{prop}_{hashlib.sha1(blob.encode()).hexdigest()[:12]}.json"
    with open(os.path.join(VERIF, "replays", name), "w") as f:
        f.write(blob)
    return os.path.join("replays", name)


def run_check(prop, module, tier, seed):
    """Orchestrate one property check. `module` provides:
         LEAN_TARGETS   list of lake targets holding the property theorems (Props modules)
         generate(ctx)  optional: regenerate Gen files from /repo (translator); may add ctx.broken
         correspond(ctx) run model vs implementation + oracles; fills ctx
         search(ctx)    optional deeper failing-input search, called only when a tie broke
         LEVEL, TECH notes
    """
    t0 = time.time()
    warnings.simplefilter("ignore")
    ctx = Ctx(prop, tier, seed)
    known = [k for k in load_known() if k.get("property") == prop and k.get("status", "open") == "open"]
    rc = 0
    build_log = ""
    aud = dict(obligations=0, discharged=0, problems=[], theorems=[])
    try:
        if hasattr(module, "generate"):
            module.generate(ctx)
        targets = list(module.LEAN_TARGETS) + ["skadriver"]
        br = lake_build(targets)
        build_log = br.log
        if not br.ok:
            errs = [l for l in br.log.splitlines() if "error" in l][:8]
            ctx.broken.append("lake build failed: " + " | ".join(errs))
        else:
            prop_mods = list(module.LEAN_TARGETS)
            # targets that depend on files regenerated from the current source (translator tie): built separately, so
            # that a generated file that stops compiling breaks this tie only and not the hand-written model's driver
            gen_targets = list(getattr(module, "GEN_TARGETS", []))
            groups = gen_targets if (gen_targets and isinstance(gen_targets[0], (list, tuple))) else ([gen_targets] if gen_targets else [])
            ctx.gen_ok = False
            ctx.gen_ok_groups = []
            for gi, group in enumerate(groups):
                # each group belongs to one translator: a generated file that stops compiling breaks that tie only
                br2 = lake_build(list(group))
                build_log += br2.log
                ctx.gen_ok_groups.append(br2.ok)
                if br2.ok:
                    prop_mods += [t for t in group if t.startswith("SkaModel.")]
                else:
                    errs = [l for l in br2.log.splitlines() if "error" in l][:6]
                    failing = failing_theorems(br2.log)
                    if failing:
                        errs = ["theorems that no longer check: " + ", ".join(failing)] + errs[:3]
                    ctx.broken.append("the theorems about the model generated from the current source no longer check "
                                      "(lake build " + " ".join(group) + "): " + " | ".join(errs))
            ctx.gen_ok = bool(groups) and ctx.gen_ok_groups[0]
            aud = audit(prop_mods)
            for pr in aud["problems"]:
                ctx.broken.append("audit: " + pr)
            if tier == "thorough":
                # independent re-check of the compiled theorems by the toolchain's external checker
                t1 = time.time()
                mods = [t for t in prop_mods if t.startswith("SkaModel.")]
                lc = subprocess.run(["lake", "env", "leanchecker"] + mods, cwd=LEAN, stdout=subprocess.PIPE,
                                    stderr=subprocess.STDOUT, text=True)
                ctx.notes["leanchecker"] = dict(modules=mods, returncode=lc.returncode, seconds=round(time.time() - t1, 1))
                if lc.returncode != 0:
                    ctx.broken.append("leanchecker rejected the compiled modules: " + lc.stdout[-400:])
        if os.path.exists(DRIVER):
            try:
                module.correspond(ctx)
            except (subprocess.TimeoutExpired, KeyboardInterrupt):
                raise
            except Exception as e:  # noqa: BLE001
                # An exception escaping from the implementation under test (innermost frames inside /repo) while the
                # harness drives it with inputs that are valid on the reference tree is an observation about the code,
                # not a harness failure: the correspondence cannot be completed, i.e. the tie is broken.
                tb = traceback.extract_tb(e.__traceback__)
                inner = tb[-1].filename if tb else ""
                in_repo = any(os.path.abspath(fr.filename).startswith(os.path.abspath(REPO) + os.sep) for fr in tb[-6:])
                if not in_repo:
                    # the harness itself failed while digesting what the implementation returned (never happens on the
                    # reference tree, where every generated case is digested): the correspondence cannot be completed, so
                    # the tie is not established on this tree; go on to the failing-input search instead of giving up
                    hw = "; ".join(f"{os.path.basename(fr.filename)}:{fr.lineno}" for fr in tb[-3:])
                    ctx.broken.append(f"the correspondence run could not be completed: the harness raised {type(e).__name__}: "
                                      f"{str(e)[:160]} while processing the implementation's output ({hw})")
                    where = None
                else:
                    where = "; ".join(f"{os.path.relpath(fr.filename, REPO)}:{fr.lineno}" for fr in tb if os.path.abspath(fr.filename).startswith(os.path.abspath(REPO) + os.sep))[-300:]
                if where is not None:
                    ctx.broken.append(f"the implementation raised {type(e).__name__}: {str(e)[:160]} inside the correspondence run "
                                      f"(frames: {where}); the run could not be completed")
        else:
            ctx.broken.append("model driver could not be built; correspondence not run")
            if hasattr(module, "oracle_only"):
                module.oracle_only(ctx)
        tie_broken = bool(ctx.broken or ctx.disagreements)
        known_keys = {k["key"] for k in known}
        # a listed known finding is not the failing input of a *broken tie*: the search still has to run
        if tie_broken and not [v for v in ctx.violations if v["key"] not in known_keys] and hasattr(module, "search"):
            try:
                module.search(ctx)
            except (subprocess.TimeoutExpired, KeyboardInterrupt):
                raise
            except Exception as e:  # noqa: BLE001  -- the tie is already broken; a crashing search finds nothing
                ctx.broken.append(f"failing-input search aborted: {type(e).__name__}: {str(e)[:160]}")
    except subprocess.TimeoutExpired as e:
        print(f"TIMEOUT in check {prop}: {e}")
        sys.exit(2)
    except Exception:
        traceback.print_exc()
        print(f"HARNESS-ERROR in check {prop} (not a verdict)")
        sys.exit(2)

    # classify ---------------------------------------------------------------------------------
    reported = 0
    known_hits = {}
    new_violations = []
    for v in ctx.violations:
        hit = None
        for k in known:
            if k["key"] == v["key"]:
                hit = k
                break
        if hit is not None:
            known_hits.setdefault(hit["key"], (hit, 0))
            known_hits[hit["key"]] = (hit, known_hits[hit["key"]][1] + 1)
        else:
            new_violations.append(v)
    for k in known:
        n = known_hits.get(k["key"], (k, 0))[1]
        note = f"{n} case(s) reproduced this run" if n else "not reproduced by this run's sample"
        print(f"KNOWN-FINDING: property={prop} {k['what']} [{k['key']}; {note}]")
    seen_keys = set()
    for v in new_violations:
        if v["key"] in seen_keys:
            continue
        seen_keys.add(v["key"])
        path = write_replay(prop, dict(property=prop, kind="failing-input", key=v["key"], what=v["what"], replay=v["replay"]))
        print(f"VIOLATION property={prop} replay={path}")
        reported += 1
        rc = 1
    tie_broken = bool(ctx.broken or ctx.disagreements)
    if tie_broken and not new_violations:
        payload = dict(
            property=prop,
            kind="broken-tie",
            broken=ctx.broken,
            disagreements=ctx.disagreements[:5],
            n_disagreements=len(ctx.disagreements),
            note="a theorem / obligation / correspondence no longer checks and the failing-input search found no input on which the implementation violates the property",
            build_log_tail=build_log[-1500:] if ctx.broken else "",
        )
        path = write_replay(prop, payload)
        print(f"VIOLATION property={prop} replay={path} no-failing-input-found")
        reported += 1
        rc = 1
    elif tie_broken:
        # the tie broke and the search found concrete failing inputs (reported above)
        for b in ctx.broken[:3]:
            print(f"note: broken tie: {b}")
        if ctx.disagreements:
            print(f"note: {len(ctx.disagreements)} model/implementation disagreement(s), first: {json.dumps(jsonable(ctx.disagreements[0]))[:400]}")

    # evidence -----------------------------------------------------------------------------------
    level = getattr(module, "LEVEL", "proof")
    cov = dict(
        obligations=max(aud["obligations"] + ctx.notes.get("generated_obligations", 0), 1),
        discharged=max(aud["discharged"] + ctx.notes.get("generated_discharged", 0), 0),
        checker_cmd="cd lean && lake build " + " ".join(list(module.LEAN_TARGETS) + [t for g in getattr(module, "GEN_TARGETS", []) for t in (g if isinstance(g, (list, tuple)) else [g])]) + " && lake env lean <generated #print axioms file>",
        trusted_base=TRUSTED_BASE + list(getattr(module, "TRUSTED", [])),
        theorems=aud["theorems"],
        evaluations=ctx.evaluations,
        distinct_nontrivial=len(ctx.nontrivial),
        rule=getattr(module, "RULE", ""),
        samples=jsonable(ctx.samples) or ["(no correspondence samples)"],
        traces_validated_against_impl=ctx.evaluations,
        disagreements=len(ctx.disagreements),
        broken_ties=ctx.broken,
        distribution=jsonable(ctx.stats),
        known_findings_hit=sorted(known_hits),
    )
    if ctx.exhaustive is not None:
        cov["exhaustive"] = bool(ctx.exhaustive)
    cov.update(jsonable(ctx.notes))
    ev = dict(
        property_id=prop,
        tier=tier,
        seed=int(seed),
        level=level,
        coverage=cov,
        assumptions=list(getattr(module, "ASSUMPTIONS", [])) + ctx.assumptions,
        wall_s=round(time.time() - t0, 2),
        violations=reported,
    )
    if cov["discharged"] == 0:
        # nothing was discharged (build broken): keep only the measured exploration counts
        cov.pop("discharged")
        cov.pop("obligations")
    os.makedirs(os.path.join(VERIF, "evidence"), exist_ok=True)
    with open(os.path.join(VERIF, "evidence", f"{prop}.json"), "w") as f:
        json.dump(ev, f, indent=1, sort_keys=True)
    print(
        f"{prop} {tier} seed={seed}: theorems {aud['discharged']}/{aud['obligations']}, cases {ctx.evaluations} "
        f"(nontrivial distinct {len(ctx.nontrivial)}), disagreements {len(ctx.disagreements)}, "
        f"impl violations {len(ctx.violations)} (known {sum(n for _, n in known_hits.values())}), {ev['wall_s']}s"
    )
    return rc
