import SkaModel.Core.Selection
import SkaModel.Core.Proto
import SkaModel.Lemmas.Selection
import SkaModel.Props.C18
