import SkaModel.Lemmas.RngGen
import SkaModel.Props.C06

/-! # Property theorems about the model translated from the current source of `check_random_state`

`Gen/RngGen.lean` is rewritten by `harness/translate/pyrng.py` from `skactiveml/utils/_validation.py` on every run.  The theorems
below are about *that* text (C06: with `random_state` given, the per-call generator is private to the call and a function of
`(random_state, multiplier)` alone). -/

namespace Ska.RngGenProps
open Ska Ska.Rng Ska.PyRng Ska.Gen.Rng

/-- the translated function computes the hand-written `checkRandomState` (on which `Props/C06.lean` is built), for all inputs -/
theorem gen_check_random_state_eq (mk : Nat → Stream) (seed : Seed) (mult : Option Nat) (globS : Stream) (globCur : Nat) :
    toCrs seed (check_random_state mk (globObj globS globCur) (absSeed seed) mult) =
      checkRandomState mk seed mult globS globCur :=
  check_random_state_eq mk seed mult globS globCur

/-- **privacy**: with `random_state` given (an integer or an instance) and a multiplier, the generator the translated function
returns is not an object the caller owns, and the call takes no draw from the caller's instance or from numpy's global generator -/
theorem gen_crs_private (mk : Nat → Stream) (seed : Seed) (mult : Nat) (globS : Stream) (globCur : Nat)
    (hs : seed.given = true) :
    (check_random_state mk (globObj globS globCur) (absSeed seed) (some mult)).1.callers = false ∧
    (check_random_state mk (globObj globS globCur) (absSeed seed) (some mult)).2 = 0 := by
  cases seed with
  | none => cases hs
  | int n => exact ⟨rfl, rfl⟩
  | inst st cur => exact ⟨rfl, rfl⟩

/-- **determinism**: what it returns is a function of `(random_state, multiplier)` alone — the state of numpy's global generator
is irrelevant -/
theorem gen_crs_deterministic (mk : Nat → Stream) (seed : Seed) (mult : Nat) (g g' : Stream) (c c' : Nat)
    (hs : seed.given = true) :
    (check_random_state mk (globObj g c) (absSeed seed) (some mult)).1 =
      (check_random_state mk (globObj g' c') (absSeed seed) (some mult)).1 := by
  cases seed with
  | none => cases hs
  | int n => rfl
  | inst st cur => rfl

/-- the derived seed, spelled out: one draw of (a copy of) the given generator times the multiplier, modulo `2^31` -/
theorem gen_crs_seed (mk : Nat → Stream) (st : Stream) (cur mult : Nat) (globS : Stream) (globCur : Nat) :
    (check_random_state mk (globObj globS globCur) (absSeed (.inst st cur)) (some mult)).1 =
      newRandomState mk (derivedSeed (st cur) mult) := by
  simp [check_random_state, absSeed, RSParam.isNone, deepcopy, check_random_state_sklearn, randint, derivedSeed]

/-- without a multiplier the caller's instance itself is handed back (scikit-learn's behaviour): draws of the method advance it -/
theorem gen_crs_shared_without_multiplier (mk : Nat → Stream) (st : Stream) (cur : Nat) (globS : Stream) (globCur : Nat) :
    (check_random_state mk (globObj globS globCur) (absSeed (.inst st cur)) none).1.callers = true := rfl

/-- **one caller-owned generator handed to two objects**: the first object's call leaves the instance where it was, so a second
object constructed with the same instance derives the same per-call generator — whatever the global generator did in between.
(What the C06 check observes on budget managers and stream strategies with a shared `RandomState`.) -/
theorem gen_crs_second_object (mk : Nat → Stream) (st : Stream) (cur mult : Nat) (g g' : Stream) (c c' : Nat) :
    (check_random_state mk (globObj g' c')
        (absSeed (.inst st (cur + (check_random_state mk (globObj g c) (absSeed (.inst st cur)) (some mult)).2))) (some mult)).1 =
      (check_random_state mk (globObj g c) (absSeed (.inst st cur)) (some mult)).1 := by
  have h0 : (check_random_state mk (globObj g c) (absSeed (.inst st cur)) (some mult)).2 = 0 :=
    (gen_crs_private mk (.inst st cur) mult g c rfl).2
  rw [h0, Nat.add_zero]
  exact gen_crs_deterministic mk (.inst st cur) mult g' g c' c rfl

/-- non-vacuity -/
example : (check_random_state (fun n i => n + i) ⟨fun i => 100 + i, true, 0⟩ (.int 5) (some 3)).1.stream 0 = 15 := by decide

end Ska.RngGenProps
