import SkaModel.Core.Rng
import SkaModel.Props.C13

/-!
# C06 — results are reproducible for a fixed `random_state`

Theorems over the draw-site model of `SkaModel/Core/Rng.lean`.  The per-class instances
(`NoGlobal rng_<Class>_<method> = true`) are regenerated from the current source into
`SkaModel/Gen/RngC06.lean` on every run; classes whose table contains a `global` / `unseeded` site
on the unchanged tree get the negated fact and are handled by the dynamic oracle of
`harness/props/c06.py`.

Trusted (DESIGN §4 C06): third-party estimators are deterministic given their `random_state`;
MT19937 is a deterministic function of its seed; thread-level nondeterminism is not modelled.
-/

namespace Ska.C06
open Ska.Rng

/-- helper: without a global site the whole run (cursors and drawn values) does not look at the global stream -/
theorem run_glob_irrelevant (ownS argS g g' : Stream) (p : List Src) (h : NoGlobal p = true) :
    ∀ c : Cur, (run ownS argS g p c) = (run ownS argS g' p c) := by
  induction p with
  | nil => intro c; rfl
  | cons s p ih =>
    intro c
    unfold NoGlobal at h ih
    simp only [List.all_cons, Bool.and_eq_true] at h
    simp only [run]
    have hs : step ownS argS g c s = step ownS argS g' c s := by
      cases s <;> simp_all [step, Src.usesGlobal]
    rw [hs]
    exact ih h.2 _

/-- helper: without a global site the global generator is not advanced -/
theorem run_glob_cursor (ownS argS g : Stream) (p : List Src) (h : NoGlobal p = true) :
    ∀ c : Cur, (run ownS argS g p c).glob = c.glob := by
  induction p with
  | nil => intro c; rfl
  | cons s p ih =>
    intro c
    unfold NoGlobal at h ih
    simp only [List.all_cons, Bool.and_eq_true] at h
    simp only [run]
    rw [ih h.2]
    cases s <;> simp_all [step, Src.usesGlobal]

/-- **Independence from the process-global generator.**  If no draw site of a method uses the
global source (neither `np.random.*` nor an unseeded third-party estimator), everything it draws —
hence every result it computes — is the same for all contents `g, g'` of the global generator, and
the global generator is not advanced. -/
theorem no_global_independent (ownS argS g g' : Stream) (p : List Src) (h : NoGlobal p = true)
    (c : Cur) :
    (run ownS argS g p c).drawn = (run ownS argS g' p c).drawn ∧ (run ownS argS g p c).glob = c.glob :=
  ⟨by rw [run_glob_irrelevant ownS argS g g' p h c], run_glob_cursor ownS argS g p h c⟩

/-- **Twin objects.**  Two runs with equal own and argument generators (equal constructor
parameters) and equal draw tables draw the same values, whatever the global generator holds,
provided no site uses it. -/
theorem run_det (ownS ownS' argS argS' g g' : Stream) (p : List Src) (h : NoGlobal p = true)
    (ho : ownS = ownS') (ha : argS = argS') (c : Cur) :
    (run ownS argS g p c).drawn = (run ownS' argS' g' p c).drawn := by
  subst ho; subst ha
  exact (no_global_independent ownS argS g g' p h c).1

/-- **Repeating a pool query gives the same result**, and the result does not depend on the global
generator: with `random_state` an integer or a `RandomState` instance, `random_state_` is a function
of `(random_state, #unlabeled + 1)` only — the instance is deep-copied, so the second call starts
from the same state (`seed` and `mult` are the same in both calls; `globCur`/`globCur'` and `g`/`g'`
are whatever the global generator happens to be at either call). -/
theorem pool_repeat_equal {β : Type} (F : List Nat → β) (mk : Nat → Stream) (seed : Seed) (mult : Nat)
    (argS g g' : Stream) (globCur globCur' : Nat) (p : List Src) (h : NoGlobal p = true)
    (hs : seed.given = true) :
    (poolQuery F mk seed mult argS g globCur p).1 = (poolQuery F mk seed mult argS g' globCur' p).1 := by
  have hown : ownStream mk seed mult g globCur = ownStream mk seed mult g' globCur' := by
    cases seed with
    | none => cases hs
    | int n => rfl
    | inst st cur => rfl
  simp only [poolQuery]
  rw [hown, run_glob_irrelevant _ argS g g' p h]
  -- the start cursors differ only in `glob`, which no step reads or copies into `drawn`
  have key : ∀ (q : List Src), NoGlobal q = true → ∀ (c c' : Cur), c.own = c'.own → c.arg = c'.arg →
      c.drawn = c'.drawn →
      (run (ownStream mk seed mult g' globCur') argS g' q c).drawn =
        (run (ownStream mk seed mult g' globCur') argS g' q c').drawn := by
    intro q
    induction q with
    | nil => intro _ c c' _ _ hd; exact hd
    | cons s q ih =>
      intro hq c c' h1 h2 h3
      unfold NoGlobal at hq ih
      simp only [List.all_cons, Bool.and_eq_true] at hq
      simp only [run]
      apply ih hq.2
      all_goals (cases s <;> simp_all [step, Src.usesGlobal])
  rw [key p h ⟨0, 0, globCur, []⟩ ⟨0, 0, globCur', []⟩ rfl rfl rfl]

/-! ### no state carried from one query into the next -/

/-- **A pool query is a function of the constructor parameters and the call arguments.**  If the effect summary of
`query` (regenerated from the current source into `SkaModel/Gen/EffectsC05.lean`, obligation
`query_<Class>_historyFree`) never looks at a non-parameter attribute of `self` before having written it in the same
call, then for any two strategy objects that agree on the constructor parameters — one with an arbitrary history of
earlier queries, one freshly constructed — and the same arguments and draws (`F`), both calls read the same values,
take the same branches and compute the same values: whatever an earlier query cached on the object cannot reach the
result.  (Instance of the read-before-write theorem proved for `fit` in C13.) -/
theorem query_history_free (S : Ska.Effects.Summary) (hh : Ska.Effects.HistoryFree S = true) (F : Ska.Effects.HOra)
    (o o' : Nat → Ska.Effects.Val) (hparams : ∀ a, S.params.contains a = true → o a = o' a) :
    (Ska.Effects.hRun F S.body ⟨o, [], 0, false⟩).log = (Ska.Effects.hRun F S.body ⟨o', [], 0, false⟩).log ∧
    (Ska.Effects.hRun F S.body ⟨o, [], 0, false⟩).dead = (Ska.Effects.hRun F S.body ⟨o', [], 0, false⟩).dead :=
  ⟨(Ska.C13.fit_history_free S hh F o o' hparams).1, (Ska.C13.fit_history_free S hh F o o' hparams).2.1⟩

/-! ### `check_random_state` seen from the caller -/

/-- the per-call generator of the draw-site model is the one `check_random_state` returns -/
theorem ownStream_eq_checkRandomState (mk : Nat → Stream) (seed : Seed) (mult : Nat) (g : Stream) (c : Nat) :
    ownStream mk seed mult g c = (checkRandomState mk seed (some mult) g c).stream := by
  cases seed <;> rfl

/-- **With a multiplier, a given `random_state` is never handed out and never advanced**: the generator returned
is a new object, and a caller-owned instance stands where it stood — for every multiplier (1 included). -/
theorem crs_private (mk : Nat → Stream) (seed : Seed) (mult : Nat) (g : Stream) (c : Nat)
    (hs : seed.given = true) :
    (checkRandomState mk seed (some mult) g c).shared = false ∧
    ∀ st cur, seed = .inst st cur → (checkRandomState mk seed (some mult) g c).callerCur = cur := by
  cases seed with
  | none => cases hs
  | int n => exact ⟨rfl, fun _ _ h => by cases h⟩
  | inst st cur => exact ⟨rfl, fun _ _ h => by cases h; rfl⟩

/-- … and what it returns is a function of `(random_state, multiplier)` alone -/
theorem crs_deterministic (mk : Nat → Stream) (seed : Seed) (mult : Nat) (g g' : Stream) (c c' : Nat)
    (hs : seed.given = true) :
    (checkRandomState mk seed (some mult) g c).stream = (checkRandomState mk seed (some mult) g' c').stream := by
  cases seed with
  | none => cases hs
  | int n => rfl
  | inst st cur => rfl

/-- **Any number of repetitions of a pool query return the result of the first**, with `random_state` a
caller-owned instance: by induction over the number of calls, using that each call leaves the instance where
it was. -/
theorem repeat_all_equal {β : Type} (F : List Nat → β) (mk : Nat → Stream) (st : Stream) (mult : Nat)
    (argS g : Stream) (globCur : Nat) (p : List Src) (n cur : Nat) :
    ∀ r ∈ repeatQueries F mk st mult argS g globCur p n cur,
      r = (poolQuery F mk (.inst st cur) mult argS g globCur p).1 := by
  induction n with
  | zero => intro r hr; simp [repeatQueries] at hr
  | succ n ih =>
    intro r hr
    simp only [repeatQueries, List.mem_cons] at hr
    rcases hr with rfl | hr
    · rfl
    · exact ih r hr

/-- Handing the caller's instance itself to the method breaks this already for two calls and one draw (the seeded
change `R3B` — a shortcut for multiplier 1 — and the repaired `SingleAnnotatorWrapper._query_annotators` did this). -/
theorem shared_instance_counterexample :
    repeatQueriesShared id (fun i => i) (fun _ => 0) (fun _ => 0) 0 [.own] 2 0 = [[0], [1]] := by decide

/-- Without a seed the statement is false in the model as in the code (`random_state=None` draws
from the global generator): the hypothesis `seed.given` is needed. -/
theorem unseeded_counterexample :
    (poolQuery id (fun n i => n + i) .none 3 (fun _ => 0) (fun i => i) 0 [.own]).1
      ≠ (poolQuery id (fun n i => n + i) .none 3 (fun _ => 0) (fun i => i) 5 [.own]).1 := by decide

/-- … and a single unseeded third-party estimator makes the result depend on the global generator
even with an integer seed (TypiClust / ProbCover / Clue / DropQuery with `cluster_algo_dict=None`). -/
theorem unseeded_ctor_counterexample :
    (poolQuery id (fun n i => n + i) (.int 1) 3 (fun _ => 0) (fun i => i) 0 [.unseeded, .own]).1
      ≠ (poolQuery id (fun n i => n + i) (.int 1) 3 (fun _ => 0) (fun i => 7 * i) 4 [.unseeded, .own]).1 := by
  decide

/-- the hypotheses are satisfiable by a non-trivial table -/
example : NoGlobal [.own, .derived, .seededArg, .own] = true := by decide
example : NoGlobal [.own, .unseeded] = false := by decide

end Ska.C06
