import SkaModel.Lemmas.Window

/-!
# C13 (sliding-window clause) — a sliding-window classifier equals a fit on exactly the last
`window_size` samples it was given

Property theorems only; model `SkaModel/Core/Window.lean`, lemmas `SkaModel/Lemmas/Window.lean`.
All statements quantify over every sample type `S`, weight type `W`, wrapped estimator `fitFn`, window
size (or none), `only_labeled` setting and every call sequence.
-/

namespace Ska.C13w
open Ska Ska.Window

variable {C S W : Type}

/-- What the caller has handed over since (and including) the last `fit`: the samples (after the
`only_labeled` filter), and their weights — `none` as soon as the most recent call came without weights. -/
structure Given (S W : Type) where
  samples : List S
  weights : Option (List W)
  deriving Repr, DecidableEq

/-- bookkeeping of one accepted call on the specification side: `fit` starts afresh, `partial_fit` appends -/
def given (cfg : Cfg) (labeled : S → Bool) (isFit : Bool) (g : Given S W) (xs : List S) (ws : Option (List W)) :
    Given S W :=
  let b := filterBatch cfg labeled xs ws
  let g0 : Given S W := if isFit then ⟨[], some []⟩ else g
  ⟨g0.samples ++ b.1, match g0.weights, b.2 with | some a, some w => some (a ++ w) | _, _ => none⟩

/-- the object represents `g`: its buffers are the last `window_size` entries of what was given, weights
aligned with samples, and the estimator (once there is one) is a fresh fit on exactly these buffers -/
def Rel (cfg : Cfg) (fitFn : List S → Option (List W) → C) (g : Given S W) (s : St C S W) : Prop :=
  s.buf = lastN cfg.window g.samples ∧ s.sw = g.weights.map (lastN cfg.window) ∧
  (∀ w, g.weights = some w → w.length = g.samples.length) ∧
  (∀ c, s.clf = some c → c = fitFn s.buf s.sw)

theorem rel_init (cfg : Cfg) (fitFn : List S → Option (List W) → C) :
    Rel cfg fitFn ⟨[], some []⟩ (St.init : St C S W) := by
  refine ⟨by simp [St.init, lastN_nil], by simp [St.init, lastN_nil], ?_, ?_⟩
  · intro w hw; injection hw with hw; subst hw; rfl
  · intro c hc; cases hc

/-- **one accepted call** (`fit` or `partial_fit`) keeps the object in step with the specification, and
the estimator is refitted on exactly the new window -/
theorem window_step (cfg : Cfg) (labeled : S → Bool) (fitFn : List S → Option (List W) → C) (isFit : Bool)
    (g : Given S W) (s s' : St C S W) (xs : List S) (ws : Option (List W))
    (hr : Rel cfg fitFn g s) (h : call cfg labeled fitFn isFit s xs ws = (s', none)) :
    Rel cfg fitFn (given cfg labeled isFit g xs ws) s' ∧ s'.clf = some (fitFn s'.buf s'.sw) := by
  obtain ⟨r1, r2, r3, r4⟩ := hr
  unfold call at h
  split at h
  · injection h with _ h; cases h
  rename_i hv
  -- weights of the batch are as long as the batch, also after the filter
  have hlen : ∀ w, (filterBatch cfg labeled xs ws).2 = some w → w.length = (filterBatch cfg labeled xs ws).1.length := by
    intro w hw
    unfold validate at hv
    split at hv
    · cases hv
    cases ws with
    | none => unfold filterBatch at hw; split at hw <;> simp at hw
    | some w0 =>
      simp only at hv
      split at hv
      · rename_i hl
        cases ho : cfg.onlyLabeled with
        | true =>
          simp only [filterBatch, ho, if_true, Option.map_some, Option.some.injEq] at hw ⊢
          subst hw
          simpa using filter_zip_length labeled xs w0 hl
        | false =>
          simp only [filterBatch, ho, Bool.false_eq_true, if_false, Option.some.injEq] at hw ⊢
          subst hw; exact hl
      · cases hv
  simp only at h
  cases hb : (filterBatch cfg labeled xs ws).2 with
  | none =>
    rw [hb] at h
    simp only at h
    injection h with h _
    subst h
    refine ⟨⟨?_, ?_, ?_, ?_⟩, rfl⟩
    · simp only [given]
      cases isFit
      · simp only [Bool.false_eq_true, if_false, r1]; exact lastN_lastN_append _ _ _
      · simp
    · simp only [given, hb]
      split <;> simp_all
    · intro w hw
      simp only [given, hb] at hw
      split at hw <;> simp_all
    · intro c hc; simp only at hc; injection hc with hc; exact hc.symm
  | some w =>
    rw [hb] at h
    simp only at h
    cases isFit
    · simp only [Bool.false_eq_true, if_false] at h
      cases hsw : s.sw with
      | none => rw [hsw] at h; simp at h
      | some d =>
        rw [hsw] at h
        simp only at h
        injection h with h _
        subst h
        cases hgw : g.weights with
        | none => rw [hgw, hsw] at r2; simp at r2
        | some gw =>
          rw [hgw, hsw] at r2
          simp only [Option.map_some, Option.some.injEq] at r2
          refine ⟨⟨?_, ?_, ?_, ?_⟩, rfl⟩
          · simp only [given, Bool.false_eq_true, if_false, r1]; exact lastN_lastN_append _ _ _
          · simp only [given, Bool.false_eq_true, if_false, hgw, hb, Option.map_some, r2]
            rw [lastN_lastN_append]
          · intro w' hw'
            simp only [given, Bool.false_eq_true, if_false, hgw, hb, Option.some.injEq] at hw'
            subst hw'
            simp [given, r3 gw hgw, hlen w hb]
          · intro c hc; simp only at hc; injection hc with hc; exact hc.symm
    · simp only [if_true] at h
      injection h with h _
      subst h
      refine ⟨⟨?_, ?_, ?_, ?_⟩, rfl⟩
      · simp [given]
      · simp [given, hb]
      · intro w' hw'
        simp only [given, if_true, hb, Option.some.injEq, List.nil_append] at hw'
        subst hw'
        simpa [given] using hlen w hb
      · intro c hc; simp only at hc; injection hc with hc; exact hc.symm

/-- `call_error_atomic` — **a raising `fit` / `partial_fit` leaves the object as it was** (validation
errors, and weights given after a call without weights) -/
theorem call_error_atomic (cfg : Cfg) (labeled : S → Bool) (fitFn : List S → Option (List W) → C) (isFit : Bool)
    (s : St C S W) (xs : List S) (ws : Option (List W))
    (h : (call cfg labeled fitFn isFit s xs ws).2 ≠ none) : (call cfg labeled fitFn isFit s xs ws).1 = s := by
  unfold call at h ⊢
  cases hv : validate cfg xs ws with
  | some e => rfl
  | none =>
    rw [hv] at h
    simp only at h ⊢
    cases hb : (filterBatch cfg labeled xs ws).2 with
    | none => rw [hb] at h; simp at h
    | some w =>
      rw [hb] at h
      simp only at h ⊢
      cases hs : (if isFit = true then some [] else s.sw) with
      | none => rfl
      | some d => rw [hs] at h; simp at h

/-- what has been given after a whole call sequence (raising calls add nothing) -/
def givenRun (cfg : Cfg) (labeled : S → Bool) (fitFn : List S → Option (List W) → C) :
    St C S W → Given S W → List (Op S W) → Given S W
  | _, g, [] => g
  | s, g, (f, xs, ws) :: ops =>
    let r := call cfg labeled fitFn f s xs ws
    givenRun cfg labeled fitFn r.1 (if r.2 = none then given cfg labeled f g xs ws else g) ops

/-- `window_is_last_w` — **after any sequence of `fit` / `partial_fit` calls** (raising calls included)
the training buffer equals the last `window_size` samples given since the last `fit` (filtered to labeled
ones if `only_labeled`), the weights — if the latest call had weights — are the weights of exactly those
samples, **and the classifier equals a fit on exactly those**, for every wrapped estimator. -/
theorem window_is_last_w (cfg : Cfg) (labeled : S → Bool) (fitFn : List S → Option (List W) → C)
    (ops : List (Op S W)) (s : St C S W) (g : Given S W) (hr : Rel cfg fitFn g s) :
    Rel cfg fitFn (givenRun cfg labeled fitFn s g ops) (run cfg labeled fitFn s ops) := by
  induction ops generalizing s g with
  | nil => exact hr
  | cons op ops ih =>
    obtain ⟨f, xs, ws⟩ := op
    simp only [run, givenRun]
    apply ih
    rcases hres : call cfg labeled fitFn f s xs ws with ⟨s', e⟩
    cases e with
    | none => simp only [if_true]; exact (window_step cfg labeled fitFn f g s s' xs ws hr hres).1
    | some e =>
      have := call_error_atomic cfg labeled fitFn f s xs ws (by rw [hres]; simp)
      rw [hres] at this
      simp only at this
      subst this
      simpa using hr

/-- in particular: from a fresh object, every run ends with `estimator_` fitted on the last `window_size`
samples given since the last `fit` -/
theorem window_clf_is_fit_on_last_w (cfg : Cfg) (labeled : S → Bool) (fitFn : List S → Option (List W) → C)
    (ops : List (Op S W)) (c : C)
    (h : (run cfg labeled fitFn (St.init : St C S W) ops).clf = some c) :
    c = fitFn (lastN cfg.window (givenRun cfg labeled fitFn St.init ⟨[], some []⟩ ops).samples)
          ((givenRun cfg labeled fitFn St.init ⟨[], some []⟩ ops).weights.map (lastN cfg.window)) := by
  obtain ⟨r1, r2, -, r4⟩ := window_is_last_w cfg labeled fitFn ops St.init ⟨[], some []⟩ (rel_init cfg fitFn)
  rw [← r1, ← r2]
  exact r4 c h

/-- validation errors leave the object unchanged -/
theorem call_rejected_atomic (cfg : Cfg) (labeled : S → Bool) (fitFn : List S → Option (List W) → C) (isFit : Bool)
    (s : St C S W) (xs : List S) (ws : Option (List W)) (e : Err) (h : validate cfg xs ws = some e) :
    call cfg labeled fitFn isFit s xs ws = (s, some e) := by
  unfold call; rw [h]

/-! ## Non-vacuity -/

example :
    let cfg : Cfg := ⟨some 3, true⟩
    let fitFn : List Nat → Option (List Nat) → List Nat × Option (List Nat) := fun b w => (b, w)
    let ops : List (Op Nat Nat) := [(true, [1, 0, 2], some [5, 6, 7]), (false, [3, 4], some [8, 9]), (false, [0, 5], some [1, 2])]
    (run cfg (fun x => x != 0) fitFn St.init ops).clf = some ([3, 4, 5], some [8, 9, 2]) := by
  decide

end Ska.C13w

/-! ## Regressions: statements about definitions the code no longer has -/

namespace Ska.C13w.Regressions
open Ska Ska.Window

/-- `fit` / `partial_fit` as they were before the repair: with weights after a call without weights,
`None.extend` raised `AttributeError` *after* `X_train_` / `y_train_` had been extended -/
def callV0 {C S W : Type} (cfg : Cfg) (labeled : S → Bool) (fitFn : List S → Option (List W) → C) (isFit : Bool)
    (s : St C S W) (xs : List S) (ws : Option (List W)) : St C S W × Option Err :=
  match validate cfg xs ws with
  | some e => (s, some e)
  | none =>
    let b := filterBatch cfg labeled xs ws
    let buf0 := if isFit then [] else s.buf
    let sw0 := if isFit then some [] else s.sw
    let buf' := lastN cfg.window (buf0 ++ b.1)
    match b.2 with
    | some w =>
      match sw0 with
      | some d =>
        let sw' := some (lastN cfg.window (d ++ w))
        (⟨buf', sw', some (fitFn buf' sw')⟩, none)
      | none => (⟨buf', none, s.clf⟩, some .attr)
    | none => (⟨buf', none, some (fitFn buf' none)⟩, none)

/-- old code: the estimator stayed the old one while the window held the rejected sample, and the next
`partial_fit` trained on it as well -/
theorem window_is_last_w_counterexample :
    let cfg : Cfg := ⟨some 3, false⟩
    let fitFn : List Nat → Option (List Nat) → List Nat × Option (List Nat) := fun b w => (b, w)
    let s1 := (callV0 cfg (fun _ => true) fitFn false (St.init : St _ Nat Nat) [1, 2] none).1
    let r2 := callV0 cfg (fun _ => true) fitFn false s1 [3] (some [7])
    let r3 := callV0 cfg (fun _ => true) fitFn false r2.1 [4] none
    r2.2 = some .attr ∧ r2.1.buf = [1, 2, 3] ∧ r2.1.clf = some ([1, 2], none) ∧
      r3.2 = none ∧ r3.1.clf = some ([2, 3, 4], none) := by decide

/-- the repaired code on the same input: the call is rejected (`ValueError`) and nothing changes -/
theorem window_is_last_w_repaired :
    let cfg : Cfg := ⟨some 3, false⟩
    let fitFn : List Nat → Option (List Nat) → List Nat × Option (List Nat) := fun b w => (b, w)
    let s1 := (call cfg (fun _ => true) fitFn false (St.init : St _ Nat Nat) [1, 2] none).1
    let r2 := call cfg (fun _ => true) fitFn false s1 [3] (some [7])
    let r3 := call cfg (fun _ => true) fitFn false r2.1 [4] none
    r2.2 = some .value ∧ r2.1 = s1 ∧ r3.1.clf = some ([1, 2, 4], none) := by decide

end Ska.C13w.Regressions
