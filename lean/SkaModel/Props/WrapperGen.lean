import SkaModel.Lemmas.WrapperGen

/-! # Property theorems about the model translated from the current source of `IndexClassifierWrapper`

`Gen/WrapperGen.lean` is rewritten by `harness/translate/pywrapper.py` from `skactiveml/pool/utils.py` on every run
(`_get_sw`, `_copy_sw`, `_concat_sw`, and the block of the emulated `partial_fit` that computes the new training record).
The theorems below are about *that* text: a change of the source that alters the block changes the definitions and the
proofs have to go through again.  (C19: the wrapper's training record is the specified training list.) -/

namespace Ska.WrapperGenProps
open Ska Ska.IW Ska.PyIW Ska.Gen.IW

variable {C L W : Type}

/-- the translated block computes the hand-written `merge` (on which `Props/C19.lean` is built), for all inputs -/
theorem gen_merge_eq (u : Bool) (d : Data L W) (idx : List Int) (ay : List L) (aw : Option (List W)) :
    partial_fit.merge u d.idx d.y d.sw idx ay aw = merge u d idx ay aw :=
  merge_eq u d idx ay aw

/-- **the translated block refines the specification on training lists**: on in-step records the new record is in step,
its list of `(index, label, weight)` triples is the old list without the re-added indices (with `enforce_unique_samples`)
followed by the added triples — the surviving samples keep their order, the added ones come last —, and weights stay
absent / present. -/
theorem gen_merge_spec (u : Bool) (d : Data L W) (idx : List Int) (ay : List L) (aw : Option (List W))
    (hd : d.WF) (ha : (⟨idx, ay, aw⟩ : Data L W).WF) (d' : Data L W)
    (h : partial_fit.merge u d.idx d.y d.sw idx ay aw = .ok d') :
    d'.WF ∧ d'.triples = specPartial u d.triples (Data.triples ⟨idx, ay, aw⟩) ∧
      d'.idx = d.idx.filter (fun i => !(u && idx.contains i)) ++ idx ∧ d'.sw.isSome = d.sw.isSome := by
  rw [gen_merge_eq] at h
  exact merge_ok_spec u d idx ay aw hd ha d' h

/-- the translated block succeeds whenever the weights are both absent or both given -/
theorem gen_merge_total (u : Bool) (d : Data L W) (idx : List Int) (ay : List L) (aw : Option (List W))
    (hd : d.WF) (hsw : d.sw.isSome = aw.isSome) :
    ∃ d', partial_fit.merge u d.idx d.y d.sw idx ay aw = .ok d' := by
  simp only [gen_merge_eq]
  exact merge_ok_of_wf u d idx ay aw hd hsw

/-- … and raises `ValueError` ("All `sample_weight` must be either None or given.") when exactly one side has weights -/
theorem gen_merge_mixed (u : Bool) (d : Data L W) (idx : List Int) (ay : List L) (aw : Option (List W))
    (hd : d.WF) (hsw : d.sw.isSome ≠ aw.isSome) :
    partial_fit.merge u d.idx d.y d.sw idx ay aw = .error .mixed := by
  rw [gen_merge_eq]
  simp only [merge]
  rw [selKeep_some u _ d.y (by rw [keepMask_length]; exact hd.1)]
  cases hs : d.sw with
  | none =>
    cases aw with
    | none => simp [hs] at hsw
    | some a => rfl
  | some w =>
    simp only
    rw [selKeep_some u _ w (by rw [keepMask_length]; exact hd.2 w hs)]
    cases aw with
    | none => rfl
    | some a => simp [hs] at hsw

/-- with `enforce_unique_samples` no index occurs twice in the new record -/
theorem gen_merge_nodup (d : Data L W) (idx : List Int) (ay : List L) (aw : Option (List W)) (d' : Data L W)
    (hd : d.idx.Nodup) (hi : idx.Nodup)
    (h : partial_fit.merge true d.idx d.y d.sw idx ay aw = .ok d') : d'.idx.Nodup := by
  rw [gen_merge_eq] at h
  rw [merge_idx true d idx ay aw d' h]
  exact merged_idx_nodup d idx hd hi

/-- the helpers: `_copy_sw` is the identity, `_get_sw` of absent weights is absent, `_concat_sw` concatenates -/
theorem gen_copy_sw (w : Option (List W)) : _copy_sw w = .ok w := by
  cases w <;> rfl

theorem gen_get_sw_none (c : CurIdx) : _get_sw (none : Option (List W)) c = .ok none := rfl

theorem gen_concat_sw_some (a b : List W) : _concat_sw (some a) (some b) = .ok (some (a ++ b)) := rfl

/-- **the translated tail of `fit` stores what the model's `fit` stores**: whenever the model's `fit` gets past its argument
checks (so that the wrapped classifier is fitted on `⟨idx, yy, ww⟩`), the translated attribute assignments — run on the object
whose `clf_` has just been fitted — never raise and leave attributes that stand for exactly the state `Ska.IW.fit` returns:
`idx_, y_, sample_weight_` only without native `partial_fit`, the `base_*` copies only with `set_base_clf`. -/
theorem gen_fit_store_eq_fit (cfg : Cfg L W) (fitFn : Data L W → C) (o : WObj C L W)
    (idx : List Int) (y : Option (List L)) (sw : Option (List W)) (sb : Bool) (yy : List L) (ww : Option (List W))
    (hc : checkIdx cfg idx = none) (hy : resolveY cfg idx y = .ok yy) (hw : resolveSW cfg idx sw = .ok ww)
    (hx : xIndexOk cfg idx = true) :
    ∃ o', fit.store cfg.native sb { o with clf_ := some (fitFn ⟨idx, yy, ww⟩) } idx yy ww = .ok o' ∧
      absW o' = (fit cfg fitFn (absW o) idx y sw sb).1 ∧ (fit cfg fitFn (absW o) idx y sw sb).2 = none := by
  obtain ⟨o', h1, h2⟩ := fit_store_abs cfg.native sb { o with clf_ := some (fitFn ⟨idx, yy, ww⟩) }
    (fitFn ⟨idx, yy, ww⟩) idx yy ww rfl
  refine ⟨o', h1, ?_, ?_⟩
  · rw [h2]
    simp only [fit, hc, hy, hw, hx, absW]
    cases sb <;> cases cfg.native <;> simp
  · simp only [fit, hc, hy, hw, hx]
    cases sb <;> simp

/-- the attributes are assigned together: after the translated tail the record `(idx_, y_, sample_weight_)` is complete
whenever it was complete or absent before -/
theorem gen_fit_store_record_complete (native sb : Bool) (o o' : WObj C L W) (c : C) (idx : List Int) (y : List L)
    (sw : Option (List W)) (hc : o.clf_ = some c) (h : fit.store native sb o idx y sw = .ok o')
    (hn : native = false) : (absW o').cur = some ⟨idx, y, sw⟩ := by
  obtain ⟨o2, h1, h2⟩ := fit_store_abs native sb o c idx y sw hc
  rw [h] at h1
  cases h1
  rw [h2]
  subst hn
  cases sb <;> simp

/-- **the translated native branch of `partial_fit` is the model's `partialNative`**: given the classifier to update (the argument
validation has raised `NotFittedError` otherwise), it raises `IndexError` exactly when `self.X[add_idx]` does — leaving the object
as it was — and otherwise ends in the state `partialNative` returns: `clf_` is the chosen classifier (a copy of the base
classifier with `use_base_clf`) after one native `partial_fit` on the added samples, `base_clf_` follows with `set_base_clf`,
the stored records are untouched. -/
theorem gen_native_eq_partialNative (cfg : Cfg L W) (pfit : C → Data L W → C) (ub sb : Bool) (o : WObj C L W) (c : C)
    (idx : List Int) (ay : List L) (aw : Option (List W)) (hc : (if ub then o.base_clf_ else o.clf_) = some c) :
    (match partial_fit.native cfg.n pfit ub sb o idx ay aw with
     | .ok o' => (absW o', (none : Option Err))
     | .error e => (absW o, some e)) = partialNative cfg pfit (absW o) idx ay aw ub sb :=
  native_abs cfg pfit ub sb o c idx ay aw hc

/-- the classifier after a successful native update, spelled out -/
theorem gen_native_clf (cfg : Cfg L W) (pfit : C → Data L W → C) (ub sb : Bool) (o o' : WObj C L W) (c : C)
    (idx : List Int) (ay : List L) (aw : Option (List W)) (hc : (if ub then o.base_clf_ else o.clf_) = some c)
    (h : partial_fit.native cfg.n pfit ub sb o idx ay aw = .ok o') :
    (absW o').clf = some (pfit c ⟨idx, ay, aw⟩) ∧ (absW o').cur = (absW o).cur ∧ (absW o').base = (absW o).base ∧
      (absW o').bclf = (if sb then some (pfit c ⟨idx, ay, aw⟩) else (absW o).bclf) := by
  have hn := native_abs cfg pfit ub sb o c idx ay aw hc
  rw [h] at hn
  simp only at hn
  have hs : (partialNative cfg pfit (absW o) idx ay aw ub sb).2 = none := by rw [← hn]
  have hb : (if ub then (absW o).bclf else (absW o).clf) = some c := by
    cases ub <;> simpa [absW] using hc
  unfold partialNative at hn hs
  by_cases hx : xIndexOk cfg idx = true
  · simp only [hx, Bool.not_true, Bool.false_eq_true, ↓reduceIte, hb] at hn
    cases sb
    · simp only [Bool.false_eq_true, ↓reduceIte] at hn
      have := congrArg Prod.fst hn
      simp only at this
      rw [this]; simp
    · simp only [↓reduceIte] at hn
      have := congrArg Prod.fst hn
      simp only at this
      rw [this]; simp
  · simp [hx] at hs

/-- **the two translated blocks of the emulated `partial_fit` together**: from an in-step record `d` (the current or the base
record) the new-record block yields `d'`, the closing `fit` stores it (translated tail, no native `partial_fit`), and the object
then holds exactly the specified training list: the old triples without the re-added indices (with `enforce_unique_samples`),
followed by the added triples. -/
theorem gen_emulated_partial_fit_record (u sb : Bool) (o o' : WObj C L W) (c : C) (d d' : Data L W)
    (idx : List Int) (ay : List L) (aw : Option (List W))
    (hd : d.WF) (ha : (⟨idx, ay, aw⟩ : Data L W).WF)
    (hm : partial_fit.merge u d.idx d.y d.sw idx ay aw = .ok d')
    (hc : o.clf_ = some c) (hs : fit.store false sb o d'.idx d'.y d'.sw = .ok o') :
    (absW o').cur = some d' ∧ d'.WF ∧ d'.triples = specPartial u d.triples (Data.triples ⟨idx, ay, aw⟩) := by
  obtain ⟨hwf, htr, -, -⟩ := gen_merge_spec u d idx ay aw hd ha d' hm
  have := gen_fit_store_record_complete false sb o o' c d'.idx d'.y d'.sw hc hs rfl
  exact ⟨this, hwf, htr⟩

/-- non-vacuity: relabelling sample 1 of the record `[3, 1, 4]` in unique mode moves it to the end; without the flag it is
listed twice -/
example : partial_fit.merge true [3, 1, 4] [10, 11, 12] (some [1, 2, 3]) [1] [77] (some [9]) =
    .ok (⟨[3, 4, 1], [10, 12, 77], some [1, 3, 9]⟩ : Data Nat Nat) := by rfl

example : partial_fit.merge false [3, 1, 4] [10, 11, 12] (none : Option (List Nat)) [1] [77] none =
    .ok (⟨[3, 1, 4, 1], [10, 11, 12, 77], none⟩ : Data Nat Nat) := by rfl

end Ska.WrapperGenProps
