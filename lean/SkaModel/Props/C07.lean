import SkaModel.Lemmas.MultiAnnot

/-!
# C07 — multi-annotator pool query returns distinct, available sample-annotator pairs

Property theorems only; the model is `SkaModel/Core/MultiAnnot.lean`, helper lemmas are in
`SkaModel/Lemmas/MultiAnnot.lean`.  Matrices over pairs are flat (`p = i * m + j`); utilities are
`Option α` (`none` = NaN) over an arbitrary linear ordered field; noise is any vector of positive
entries over an arbitrary linear order; the wrapped strategy's result is an arbitrary argument
constrained only by its own contract (distinct picks, a number at each pick).
-/

namespace Ska.C07
open Ska Ska.C18 Ska.MultiAnnot
set_option linter.unusedSimpArgs false
set_option linter.unusedSectionVars false

/-- **`_transform_cand_annot` marks exactly the available pairs** (all nine combinations of
`candidates` ∈ {None, index array, feature rows} × `annotators` ∈ {None, index array, Boolean
matrix}): entry `(i, j)` of the mask is `True` iff row `i` is about a sample `s` (`mapping[i]`, or
`i` itself for feature rows) and the pair `(s, j)` is available as defined by the arguments — with
both left at `None`: the label of `(s, j)` is still missing.  The mask is a list of `Bool` rows by
construction (the model of the current code is Boolean-typed in every case; the harness compares the
dtype of the real `A_cand`). -/
theorem transformCandAnnot_spec (nS m : Nat) (unl : List (List Bool)) (cand : Cand) (annot : Annot)
    (hM : ∀ M, annot = .mat M → M.length = candCount nS cand) (i j : Nat) :
    (((transformCandAnnot nS m unl cand annot).2.getD i []).getD j false = true ↔
      ∃ s, rowSample (transformCandAnnot nS m unl cand annot).1
            (transformCandAnnot nS m unl cand annot).2.length i = some s ∧
          Available nS m unl cand annot s i j) := by
  cases cand with
  | all =>
    cases annot with
    | all =>
      simp only [transformCandAnnot, rowSample, Available, List.getD_eq_getElem?_getD, List.getElem?_map]
      cases h : (unlabeledSamples unl)[i]? <;> simp
    | idx a =>
      simp only [transformCandAnnot, annotRows, rowSample, Available, getD_replicate_row]
      by_cases h : i < nS
      · simp [h, colMask_iff, List.getElem?_range h]
      · simp [h, List.getElem?_eq_none (show (List.range nS).length ≤ i by simp; omega)]
    | mat M =>
      have := hM M rfl
      simp only [candCount] at this
      simp only [transformCandAnnot, annotRows, rowSample, Available]
      by_cases h : i < nS
      · simp [h, List.getElem?_range h]
      · simp [h, List.getElem?_eq_none (show (List.range nS).length ≤ i by simp; omega),
          List.getD_eq_getElem?_getD, List.getElem?_eq_none (show M.length ≤ i by omega)]
  | idx c =>
    cases annot with
    | all =>
      simp only [transformCandAnnot, annotRows, rowSample, Available, getD_replicate_row]
      by_cases h : i < c.length
      · simp [h, replicate_true_iff]
      · simp [h, List.getElem?_eq_none (show c.length ≤ i by omega)]
    | idx a =>
      simp only [transformCandAnnot, annotRows, rowSample, Available, getD_replicate_row]
      by_cases h : i < c.length
      · simp [h, colMask_iff]
      · simp [h, List.getElem?_eq_none (show c.length ≤ i by omega)]
    | mat M =>
      have := hM M rfl
      simp only [candCount] at this
      simp only [transformCandAnnot, annotRows, rowSample, Available]
      by_cases h : i < c.length
      · simp [h]
      · simp [h, List.getElem?_eq_none (show c.length ≤ i by omega),
          List.getD_eq_getElem?_getD, List.getElem?_eq_none (show M.length ≤ i by omega)]
  | feat n =>
    cases annot with
    | all =>
      simp only [transformCandAnnot, annotRows, rowSample, Available, getD_replicate_row]
      by_cases h : i < n
      · simp [h, replicate_true_iff]
      · simp [h]
    | idx a =>
      simp only [transformCandAnnot, annotRows, rowSample, Available, getD_replicate_row]
      by_cases h : i < n
      · simp [h, colMask_iff]
      · simp [h]
    | mat M =>
      have := hM M rfl
      simp only [candCount] at this
      simp only [transformCandAnnot, annotRows, rowSample, Available]
      by_cases h : i < n
      · simp [h, this]
      · simp [h, this, List.getD_eq_getElem?_getD, List.getElem?_eq_none (show M.length ≤ i by omega)]

/-- **Termination of `_n_to_assign_annotators`**: if the chosen samples together have at least
`batch_size` available annotators, the `while` loop exits after at most `Σ nmax` passes with
`Σ annot_per_sample ≥ batch_size`, never above the available number, never below the initial
request `min(nmax, pref)`, and equal to it when that already fills the batch. -/
theorem nToAssign_terminates (fuel b : Nat) (nmax pref : List Nat) (hlen : nmax.length = pref.length)
    (hb : b ≤ nmax.sum) (hf : nmax.sum ≤ fuel) :
    ∃ r, nToAssign fuel b nmax pref = some r ∧ b ≤ r.sum ∧ LeL r nmax ∧ LeL (assignInit nmax pref) r ∧
      (b ≤ (assignInit nmax pref).sum → r = assignInit nmax pref) :=
  assignIter_some fuel b nmax _ (assignInit_le nmax pref hlen) hb (by omega)

/-- **Divergence**: if the chosen samples have fewer than `batch_size` available annotators in
total, the loop condition holds after every number of passes: the Python loop never exits. -/
theorem nToAssign_diverges (b : Nat) (nmax pref : List Nat) (h : nmax.sum < b) :
    ∀ fuel, nToAssign fuel b nmax pref = none :=
  fun fuel => assignIter_none fuel b nmax _ h (assignInit_sum_le nmax pref)

/-- Witness: one chosen sample without any available annotator, `batch_size = 1`. -/
theorem nToAssign_diverges_witness : ∀ fuel, nToAssign fuel 1 [0] [1] = none :=
  nToAssign_diverges 1 [0] [1] (by decide)

/-- The precondition holds whenever every chosen sample has an available annotator and the batch is
not larger than the number of chosen samples (always the case for `candidates`/`annotators` given as
`None` or index arrays when `batch_size ≤ n_candidates`). -/
theorem nToAssign_precondition_holds (b : Nat) (nmax : List Nat) (h1 : ∀ x ∈ nmax, 1 ≤ x)
    (hb : b ≤ nmax.length) : b ≤ nmax.sum := by
  have : nmax.length ≤ nmax.sum := by
    clear hb
    induction nmax with
    | nil => simp
    | cons x xs ih =>
      have := ih (fun y hy => h1 y (List.mem_cons_of_mem _ hy))
      have := h1 x (List.mem_cons_self ..)
      simp only [List.length_cons, List.sum_cons]; omega
  omega

section W
variable {α : Type} [LT α] [DecidableLT α] [Add α] [OfNat α 1]
variable {β : Type} [LT β] [DecidableLT β] [OfNat β 0]

/-- The whole query diverges on an availability matrix with an all-`False` row that the inner
strategy selects (`A = [[F,F],[T,T]]`, `batch_size = 1`, inner pick = sample 0), for every fuel, every
utilities and every noise: the model of the current code returns `nonTermination`. -/
theorem queryAnnotators_diverges_witness (ninf : α) (cast : Nat → α) (fuel : Nat)
    (candRows : List (List (Option α))) (au : List α) (noises : List (List β)) :
    queryAnnotators ninf cast fuel 2 1 [[false, false], [true, true]] candRows [0] au [1] noises =
      .error .nonTermination := by
  unfold queryAnnotators
  have : nToAssign fuel 1 ([0].map (fun s => countRow ([[false, false], [true, true]].getD s []))) [1] = none :=
    nToAssign_diverges_witness fuel
  simp only [this]

end W

section Wrapper
variable {α : Type} [Field α] [LinearOrder α] [IsStrictOrderedRing α]
variable {β : Type} [LinearOrder β] [Zero β]

/-- **SingleAnnotatorWrapper: the batch of pairs is valid.**  Preconditions: the availability mask is
rectangular; the inner strategy kept its contract (`sIdx` distinct positions, row `t` of its utilities
has a number at `sIdx[t]`); annotator utilities lie in `[0, 1)` (what `rand` / the `A_perf`
normalisation produce); `n_annotators_per_sample ≥ 1`; every chosen sample has an available annotator
and together they have at least `batch_size` of them (`nToAssign_precondition_holds`; false exactly in
the divergence case); noise is positive.  Then the query returns `b` steps whose flat picks are
pairwise distinct and available; the utilities matrix of step `k` has `A.length * m` entries, is NaN at
every unavailable pair and at the picks of the steps before `k` (one-directional, as C07 states) and a
number at the pick of step `k`; the samples are served in the inner strategy's order, sample
`sIdx[t]` receiving `nAs[t]` annotators (`expand`), where `min(nmax, pref) ≤ nAs ≤ nmax` pointwise and
`nAs = min(nmax, pref)` whenever that already fills the batch — so a sample with enough available
annotators (`pref[t] ≤ nmax[t]`) gets exactly the requested number. -/
theorem queryAnnotators_valid
    (ninf : α) (cast : Nat → α) (hcast : ∀ a b : Nat, a < b → cast a + 1 ≤ cast b)
    (fuel m b : Nat) (hm : 0 < m)
    (A : List (List Bool)) (hrect : ∀ r ∈ A, r.length = m)
    (candRows : List (List (Option α))) (sIdx : List Nat) (au : List α) (pref : List Nat)
    (noises : List (List β))
    (hT : candRows.length = sIdx.length) (hP : pref.length = sIdx.length)
    (hinner : ∀ (t : Nat) (row : List (Option α)) (s : Nat), candRows[t]? = some row → sIdx[t]? = some s →
      row.length = A.length ∧ s < A.length ∧ ∃ v, row[s]? = some (some v))
    (hnodup : sIdx.Nodup)
    (hau : au.length = A.length * m) (hau01 : ∀ a ∈ au, 0 ≤ a ∧ a < 1)
    (hpref : ∀ x ∈ pref, 1 ≤ x)
    (havail1 : ∀ s ∈ sIdx, 1 ≤ countRow (A.getD s []))
    (hreach : b ≤ (sIdx.map (fun s => countRow (A.getD s []))).sum)
    (hfuel : (sIdx.map (fun s => countRow (A.getD s []))).sum ≤ fuel)
    (hnoise : b ≤ noises.length) (hpos : PosNoise (A.length * m) noises) :
    ∃ nAs out, queryAnnotators ninf cast fuel m b A candRows sIdx au pref noises = .ok (nAs, out) ∧
      out.length = b ∧
      LeL (assignInit (sIdx.map (fun s => countRow (A.getD s []))) pref) nAs ∧
      LeL nAs (sIdx.map (fun s => countRow (A.getD s []))) ∧
      (b ≤ (assignInit (sIdx.map (fun s => countRow (A.getD s []))) pref).sum →
        nAs = assignInit (sIdx.map (fun s => countRow (A.getD s []))) pref) ∧
      (out.map Prod.fst).Nodup ∧
      (∀ r ∈ out, A.flatten.getD r.1 false = true ∧ ∃ v, r.2[r.1]? = some (some v)) ∧
      (∀ r ∈ out, r.2.length = A.length * m) ∧
      (∀ k, ∀ hk : k < out.length, ∀ q,
        (A.flatten.getD q false = false ∨ q ∈ (out.map Prod.fst).take k) → out[k].2.getD q none = none) ∧
      b ≤ nAs.sum ∧
      out.map (fun r => r.1 / m) = (expand nAs sIdx).take b := by
  generalize hnm : sIdx.map (fun s => countRow (A.getD s [])) = nmax at *
  have hnl : nmax.length = sIdx.length := by rw [← hnm]; simp
  have hinit := assignInit_le nmax pref (by omega)
  obtain ⟨nAs, hnAs, n1, n2, n3, n4⟩ :=
    assignIter_some fuel b nmax (assignInit nmax pref) hinit hreach (by omega)
  have hlen : nAs.length = sIdx.length := by rw [LeL.length n2, hnl]
  have hnmax : ∀ t, t < sIdx.length → nmax.getD t 0 = countRow (A.getD (sIdx.getD t 0) []) := by
    intro t ht
    rw [← hnm]
    simp [List.getD_eq_getElem?_getD, List.getElem?_map, List.getElem?_eq_getElem ht]
  have hnas1 : ∀ t, t < sIdx.length → 1 ≤ nAs.getD t 0 := by
    intro t ht
    have h1 := LeL.getD n3 t
    rw [assignInit_getD nmax pref t (by omega) (by omega)] at h1
    have h2 : 1 ≤ nmax.getD t 0 := by
      rw [hnmax t ht]
      apply havail1
      simp [List.getD_eq_getElem?_getD, List.getElem?_eq_getElem ht]
    have h3 : 1 ≤ pref.getD t 0 := by
      apply hpref
      have : t < pref.length := by omega
      simp [List.getD_eq_getElem?_getD, List.getElem?_eq_getElem this]
    omega
  obtain ⟨good, hblock⟩ := good_init ninf cast m A hrect candRows sIdx au hT hinner hau hau01 hcast
  have hfl := flatten_length A m hrect
  obtain ⟨o1, o2, o3⟩ := qaLoop_valid m hm A.flatten sIdx nAs hlen hnodup hnas1 b _ 0 0 noises []
    good (by simp) hnoise (by rw [hfl]; exact hpos)
    (by
      intro t _ ht
      rw [hblock t ht, ← hnmax t ht]
      have := LeL.getD n2 t
      split <;> omega)
    (fun h => hnas1 0 h)
    (by simpa using n1)
  obtain ⟨v1, -, v3, v4, v5⟩ := valid_spec _ _ _ o2
  have hsched := phaseSeq_expand nAs sIdx hlen hnas1 b 0 0 (fun h => hnas1 0 h) (by simpa using n1)
  simp only [List.drop_zero] at hsched
  refine ⟨nAs, _, ?_, o1, n3, n2, n4, v1, v3, ?_, ?_, n1, o3.trans hsched⟩
  · unfold queryAnnotators nToAssign
    simp only [flatten2, hnm, hnAs, o1, Nat.lt_irrefl, if_false]
  · intro r hr; rw [v4 r hr, hfl]
  · intro k hk q hq
    apply v5 k hk q
    rcases hq with hq | hq
    · exact Or.inl hq
    · exact Or.inr (Or.inr hq)

/-- Distinct flat picks at available positions are distinct `(sample, annotator)` pairs after the
re-translation `indices[:, 0] = mapping[w_indices[:, 0]]` (mapping without repetitions, one entry per
row of the mask). -/
theorem translated_pairs_distinct (m : Nat) (hm : 0 < m) (A : List (List Bool))
    (hrect : ∀ r ∈ A, r.length = m) (mapping : Option (List Nat))
    (hmp : ∀ mp, mapping = some mp → mp.Nodup ∧ mp.length = A.length) (picks : List Nat)
    (hnd : picks.Nodup) (hav : ∀ p ∈ picks, A.flatten.getD p false = true) :
    (picks.map (translatePick m mapping)).Nodup := by
  apply translatePick_nodup m hm mapping A.length hmp picks hnd
  intro p hp
  have := getD_true_lt _ _ (hav p hp)
  rwa [flatten_length A m hrect] at this

end Wrapper

section IET
variable {α : Type} [LinearOrder α] [Zero α] [Add α]
variable {β : Type} [LinearOrder β] [Zero β]

/-- **IntervalEstimationThreshold**: for every way of giving candidates/annotators, every batch size ≥ 1,
utilities without infinities and positive noise, the query succeeds and returns
`min(batch_size, #selectable)` flat picks (`#selectable` = number of non-NaN entries after masking the
samples that lack an annotator) which are pairwise distinct and available, and the utilities row of
step `k` is NaN at every unavailable pair and at the picks of the earlier steps. -/
theorem iet_valid (isInf : α → Bool) (nS m : Nat) (hm : 0 < m) (unl : List (List Bool)) (cand : Cand)
    (annot : Annot) (hrect : ∀ r ∈ (transformCandAnnot nS m unl cand annot).2, r.length = m)
    (b : Nat) (hb : 1 ≤ b) (U : List (Option α)) (noises : List (List β))
    (hfin : ∀ v, some v ∈ ietUtilities nS m unl cand annot U → isInf v = false)
    (hn : min b (countSome (ietUtilities nS m unl cand annot U)) ≤ noises.length)
    (hpos : PosNoise (ietUtilities nS m unl cand annot U).length noises) :
    ∃ rs, ietQuery isInf nS m unl cand annot b U noises = .ok rs ∧
      rs.length = min b (countSome (ietUtilities nS m unl cand annot U)) ∧
      (rs.map Prod.fst).Nodup ∧
      (∀ r ∈ rs, outAvail m (transformCandAnnot nS m unl cand annot).1
        (transformCandAnnot nS m unl cand annot).2 r.1 = true) ∧
      (∀ k, ∀ hk : k < rs.length, ∀ q,
        (outAvail m (transformCandAnnot nS m unl cand annot).1
            (transformCandAnnot nS m unl cand annot).2 q = false ∨ q ∈ (rs.map Prod.fst).take k) →
          rs[k].2.getD q none = none) := by
  obtain ⟨rs, h1, h2, -, h4, h5, h6, -⟩ :=
    simpleBatch_max_spec isInf (ietUtilities nS m unl cand annot U) b noises [] hfin hb hn hpos
  refine ⟨rs, h1, h2, h4, ?_, ?_⟩
  · intro r hr
    obtain ⟨v, hv⟩ := h5 r hr
    exact ietUtilities_some nS m hm unl cand annot hrect U r.1 v hv
  · intro k hk q hq
    rw [h6 k hk, List.getD_eq_getElem?_getD, getElem?_setNones]
    split
    · rfl
    · rename_i hnot
      rcases hq with hq | hq
      · cases hu : (ietUtilities nS m unl cand annot U)[q]? with
        | none => rfl
        | some x =>
          cases x with
          | none => rfl
          | some v =>
            have := ietUtilities_some nS m hm unl cand annot hrect U q v hu
            rw [hq] at this; cases this
      · cases hu : (ietUtilities nS m unl cand annot U)[q]? with
        | none => rfl
        | some x => exact absurd ⟨hq, (List.getElem?_eq_some_iff.mp hu).1⟩ hnot

end IET

/-! ## Non-vacuity: concrete instances meet the hypotheses -/

example : ((transformCandAnnot 3 2 [[true, false], [false, false], [true, true]] .all (.idx [1])).2.getD 2 []).getD 1 false
    = true := by decide

example : transformCandAnnot 3 2 [[true, false], [false, false], [true, true]] .all .all =
    (some [0, 2], [[true, false], [true, true]]) := by decide

example : nToAssign 4 3 [2, 2] [1, 1] = some [2, 2] := by decide

example : expand [2, 1] [5, 3] = [5, 5, 3] := by decide

/-- the hypotheses of `queryAnnotators_valid` are satisfiable: two samples, two annotators, the inner
strategy picked sample 1 then sample 0, batch of two pairs -/
example {α : Type} [Field α] [LinearOrder α] [IsStrictOrderedRing α] :
    ∃ nAs out, queryAnnotators (β := Nat) (0 : α) (fun n => (n : α)) 3 2 2 [[true, true], [true, false]]
      [[some 0, some 1], [some 0, none]] [1, 0] [0, 0, 0, 0] [1, 1] [[1, 1, 1, 1], [1, 1, 1, 1]] = .ok (nAs, out) ∧
      out.length = 2 := by
  obtain ⟨nAs, out, h, hl, -⟩ := queryAnnotators_valid (β := Nat) (0 : α) (fun n => (n : α))
    (by intro a b h; exact_mod_cast h) 3 2 2 (by omega) [[true, true], [true, false]] (by simp)
    [[some 0, some 1], [some 0, none]] [1, 0] [0, 0, 0, 0] [1, 1] [[1, 1, 1, 1], [1, 1, 1, 1]] rfl rfl
    (by
      intro t row s h1 h2
      match t with
      | 0 => simp at h1 h2; subst h1; subst h2; simp
      | 1 => simp at h1 h2; subst h1; subst h2; simp
      | t + 2 => simp at h1)
    (by simp) rfl (by simp) (by simp) (by simp [countRow]) (by simp [countRow]) (by simp [countRow]) (by simp)
    (by intro nz h; simp at h; subst h; simp)
  exact ⟨nAs, out, h, hl⟩

end Ska.C07
