import SkaModel.Lemmas.MultiAnnot

/-!
# C07 — multi-annotator pool query returns distinct, available sample-annotator pairs

Property theorems only; the model is `SkaModel/Core/MultiAnnot.lean`, helper lemmas are in
`SkaModel/Lemmas/MultiAnnot.lean`.  Matrices over pairs are flat (`p = i * m + j`); utilities are
`Option α` (`none` = NaN) over an arbitrary linear ordered field; noise is any vector of positive
entries over an arbitrary linear order; the wrapped strategy's result is an arbitrary argument
constrained only by its own contract (distinct picks, a number at each pick).
-/

namespace Ska.C07
open Ska Ska.C18 Ska.MultiAnnot
set_option linter.unusedSimpArgs false
set_option linter.unusedSectionVars false

/-- **`_transform_cand_annot` marks exactly the available pairs** (all nine combinations of
`candidates` ∈ {None, index array, feature rows} × `annotators` ∈ {None, index array, Boolean
matrix}): entry `(i, j)` of the mask is `True` iff row `i` is about a sample `s` (`mapping[i]`, or
`i` itself for feature rows) and the pair `(s, j)` is available as defined by the arguments — with
both left at `None`: the label of `(s, j)` is still missing.  The mask is a list of `Bool` rows by
construction (the model of the current code is Boolean-typed in every case; the harness compares the
dtype of the real `A_cand`). -/
theorem transformCandAnnot_spec (nS m : Nat) (unl : List (List Bool)) (cand : Cand) (annot : Annot)
    (hM : ∀ M, annot = .mat M → M.length = candCount nS cand) (i j : Nat) :
    (((transformCandAnnot nS m unl cand annot).2.getD i []).getD j false = true ↔
      ∃ s, rowSample (transformCandAnnot nS m unl cand annot).1
            (transformCandAnnot nS m unl cand annot).2.length i = some s ∧
          Available nS m unl cand annot s i j) := by
  cases cand with
  | all =>
    cases annot with
    | all =>
      simp only [transformCandAnnot, rowSample, Available, List.getD_eq_getElem?_getD, List.getElem?_map]
      cases h : (unlabeledSamples unl)[i]? <;> simp
    | idx a =>
      simp only [transformCandAnnot, annotRows, rowSample, Available, getD_replicate_row]
      by_cases h : i < nS
      · simp [h, colMask_iff, List.getElem?_range h]
      · simp [h, List.getElem?_eq_none (show (List.range nS).length ≤ i by simp; omega)]
    | mat M =>
      have := hM M rfl
      simp only [candCount] at this
      simp only [transformCandAnnot, annotRows, rowSample, Available]
      by_cases h : i < nS
      · simp [h, List.getElem?_range h]
      · simp [h, List.getElem?_eq_none (show (List.range nS).length ≤ i by simp; omega),
          List.getD_eq_getElem?_getD, List.getElem?_eq_none (show M.length ≤ i by omega)]
  | idx c =>
    cases annot with
    | all =>
      simp only [transformCandAnnot, annotRows, rowSample, Available, getD_replicate_row]
      by_cases h : i < c.length
      · simp [h, replicate_true_iff]
      · simp [h, List.getElem?_eq_none (show c.length ≤ i by omega)]
    | idx a =>
      simp only [transformCandAnnot, annotRows, rowSample, Available, getD_replicate_row]
      by_cases h : i < c.length
      · simp [h, colMask_iff]
      · simp [h, List.getElem?_eq_none (show c.length ≤ i by omega)]
    | mat M =>
      have := hM M rfl
      simp only [candCount] at this
      simp only [transformCandAnnot, annotRows, rowSample, Available]
      by_cases h : i < c.length
      · simp [h]
      · simp [h, List.getElem?_eq_none (show c.length ≤ i by omega),
          List.getD_eq_getElem?_getD, List.getElem?_eq_none (show M.length ≤ i by omega)]
  | feat n =>
    cases annot with
    | all =>
      simp only [transformCandAnnot, annotRows, rowSample, Available, getD_replicate_row]
      by_cases h : i < n
      · simp [h, replicate_true_iff]
      · simp [h]
    | idx a =>
      simp only [transformCandAnnot, annotRows, rowSample, Available, getD_replicate_row]
      by_cases h : i < n
      · simp [h, colMask_iff]
      · simp [h]
    | mat M =>
      have := hM M rfl
      simp only [candCount] at this
      simp only [transformCandAnnot, annotRows, rowSample, Available]
      by_cases h : i < n
      · simp [h, this]
      · simp [h, this, List.getD_eq_getElem?_getD, List.getElem?_eq_none (show M.length ≤ i by omega)]

/-- **The batch size is clipped to the number of available pairs**: the `batch_size` the strategies work
with is `min(requested, #True entries of the availability mask)`, and by `transformCandAnnot_spec` the
`True` entries are exactly the available pairs (annotator index arrays are unique and in range after
`check_indices`). -/
theorem batch_clipped_to_available_pairs (nS m : Nat) (unl : List (List Bool)) (cand : Cand) (annot : Annot)
    (ha : ∀ a, annot = .idx a → a.Nodup ∧ ∀ x ∈ a, x < m) (bReq : Nat) :
    clipBatch bReq (nCandidatePairs nS m unl cand annot) =
      min bReq (countTrue (transformCandAnnot nS m unl cand annot).2) := by
  rw [clipBatch_eq_min, nCandidatePairs_eq_countTrue nS m unl cand annot ha]

/-- **Termination of `_n_to_assign_annotators`** (code after repair 6c5fda89), unconditionally: for
every batch size, every availability counts `nmax` of the chosen samples and every preference vector
the `while` loop exits after at most `Σ nmax` passes.  The result is never above the available number,
never below the initial request `min(nmax, pref)`, equal to it when that already fills the batch, and
either fills the batch (`Σ r ≥ batch_size`) or is saturated (`r = nmax`). -/
theorem nToAssign_terminates (fuel b : Nat) (nmax pref : List Nat) (hlen : nmax.length = pref.length)
    (hf : nmax.sum ≤ fuel) :
    ∃ r, nToAssign fuel b nmax pref = some r ∧ (b ≤ r.sum ∨ r = nmax) ∧ LeL r nmax ∧
      LeL (assignInit nmax pref) r ∧ (b ≤ (assignInit nmax pref).sum → r = assignInit nmax pref) :=
  assignIter_some fuel b nmax _ (assignInit_le nmax pref hlen) (by omega)

/-- If the chosen samples together have at least `batch_size` available annotators the result fills
the batch: `Σ annot_per_sample ≥ batch_size`. -/
theorem nToAssign_fills (fuel b : Nat) (nmax pref : List Nat) (hlen : nmax.length = pref.length)
    (hb : b ≤ nmax.sum) (hf : nmax.sum ≤ fuel) :
    ∃ r, nToAssign fuel b nmax pref = some r ∧ b ≤ r.sum := by
  obtain ⟨r, h, h1, -⟩ := nToAssign_terminates fuel b nmax pref hlen hf
  refine ⟨r, h, ?_⟩
  rcases h1 with h1 | h1
  · exact h1
  · rw [h1]; exact hb

/-- **Saturation**: if the chosen samples have fewer than `batch_size` available annotators in total
(only possible when `annotators` is a Boolean matrix with all-`False` rows that the inner strategy
selects), every chosen sample is assigned all its available annotators, `r = nmax_chosen`; the
remaining pairs of the batch are then taken from the best other samples by the batch loop (each
sample pointer position serves at least one step). -/
theorem nToAssign_saturated (fuel b : Nat) (nmax pref : List Nat) (hlen : nmax.length = pref.length)
    (hb : nmax.sum < b) (hf : nmax.sum ≤ fuel) : nToAssign fuel b nmax pref = some nmax := by
  obtain ⟨r, h, h1, h2, -⟩ := nToAssign_terminates fuel b nmax pref hlen hf
  rcases h1 with h1 | h1
  · have := LeL.sum_le h2; omega
  · rw [h, h1]

namespace Regressions
open Ska.MultiAnnot.Regressions

/-- **Divergence of the loop before repair 6c5fda89** (`while n_pairs < batch_size:` without the
saturation test): if the chosen samples have fewer than `batch_size` available annotators in total,
the old loop condition holds after every number of passes — the Python loop never exited. -/
theorem nToAssignOld_diverges (b : Nat) (nmax pref : List Nat) (h : nmax.sum < b) :
    ∀ fuel, nToAssignOld fuel b nmax pref = none :=
  fun fuel => assignIterOld_none fuel b nmax _ h (assignInit_sum_le nmax pref)

/-- Witness: one chosen sample without any available annotator, `batch_size = 1`. -/
theorem nToAssignOld_diverges_witness : ∀ fuel, nToAssignOld fuel 1 [0] [1] = none :=
  nToAssignOld_diverges 1 [0] [1] (by decide)

/-- the repaired loop exits on the same input, saturated -/
theorem nToAssign_repaired_witness : ∀ fuel, nToAssign fuel 1 [0] [1] = some [0] := by
  intro fuel
  cases fuel <;> simp [nToAssign, assignIter, assignInit, canGrow, ltB]

/-- **Counterexample for the ranking before repair 79ce7853**: two candidates whose inner utilities
are both `-inf` (TypiClust), chosen sample 0.  `np.nanmax(row) + 1 = -inf` does not lift the chosen
sample: it gets ordinal rank 1, *below* the other sample (rank 2), so the wrapper served the wrong
sample first (and later returned duplicate / unavailable pairs). -/
theorem rankRowOld_infinite_counterexample :
    rankRowOld Ext.negInf Ext.fin [some Ext.negInf, some Ext.negInf] 0 = [some (.fin 1), some (.fin 2)] := by
  decide

/-- the repaired ranking on the same input: the chosen sample gets `n + 1 = 3`, above every ordinal rank -/
theorem rankRow_repaired_witness :
    rankRow Ext.negInf Ext.fin [some Ext.negInf, some Ext.negInf] 0 = [some (.fin 3), some (.fin 2)] := by
  decide

end Regressions

/-- **The chosen sample is ranked strictly first, for all utilities** (also `±inf`; no arithmetic on the
utilities is involved any more): in the rank row built by `_get_order_preserving_s_query` the chosen
sample has rank `n + 1` and every other entry an ordinal rank `≤ n`. -/
theorem chosen_rank_is_top {α : Type} [LinearOrder α] (ninf : α) (row : List (Option α)) (chosen i : Nat)
    (hne : i ≠ chosen) :
    chosenRank row.length chosen (ordRank (row.map (fillNaN ninf)) i) i <
      chosenRank row.length chosen (ordRank (row.map (fillNaN ninf)) chosen) chosen := by
  have := ordRank_le_length (row.map (fillNaN ninf)) i
  simp only [List.length_map] at this
  simp only [chosenRank, if_neg hne, if_true]
  omega


/-- The precondition holds whenever every chosen sample has an available annotator and the batch is
not larger than the number of chosen samples (always the case for `candidates`/`annotators` given as
`None` or index arrays when `batch_size ≤ n_candidates`). -/
theorem nToAssign_precondition_holds (b : Nat) (nmax : List Nat) (h1 : ∀ x ∈ nmax, 1 ≤ x)
    (hb : b ≤ nmax.length) : b ≤ nmax.sum := by
  have : nmax.length ≤ nmax.sum := by
    clear hb
    induction nmax with
    | nil => simp
    | cons x xs ih =>
      have := ih (fun y hy => h1 y (List.mem_cons_of_mem _ hy))
      have := h1 x (List.mem_cons_self ..)
      simp only [List.length_cons, List.sum_cons]; omega
  omega

/-- What the repaired query returns in the saturated case, on the former divergence witness
(`A = [[F,F],[T,T]]`, `batch_size = 1`, inner pick = sample 0 which has no annotator; utilities and noise
over `Nat`): `nAs = [0]`, and still one pair — the available pair `(1, 0)` (flat position 2) of the
other sample, with the utilities NaN on the unavailable row.  So `k = batch_size` also here. -/
theorem queryAnnotators_saturated_witness :
    (queryAnnotators (α := Nat) (β := Nat) 0 id 1 2 1 [[false, false], [true, true]]
      [[some 5, some 3]] [0] [0, 0, 0, 0] [1] [[1, 1, 1, 1]]).toOption =
      some ([0], [(2, [none, none, some 1, some 1])]) := by decide

section Wrapper
variable {α : Type} [Field α] [LinearOrder α] [IsStrictOrderedRing α]
variable {β : Type} [LinearOrder β] [Zero β]

/-- **SingleAnnotatorWrapper: the batch of pairs is valid.**  Preconditions: the availability mask is
rectangular; the inner strategy kept its contract (`sIdx` distinct positions, row `t` of its utilities
has a number at `sIdx[t]`); annotator utilities lie in `[0, 1)` (what `rand` / the `A_perf`
normalisation produce); `n_annotators_per_sample ≥ 1`; every chosen sample has an available annotator
and together they have at least `batch_size` of them (`nToAssign_precondition_holds`; false exactly in
the saturated case, see `nToAssign_saturated`); noise is positive.  Then the query returns `b` steps whose flat picks are
pairwise distinct and available; the utilities matrix of step `k` has `A.length * m` entries, is NaN at
every unavailable pair and at the picks of the steps before `k` (one-directional, as C07 states) and a
number at the pick of step `k`; the samples are served in the inner strategy's order, sample
`sIdx[t]` receiving `nAs[t]` annotators (`expand`), where `min(nmax, pref) ≤ nAs ≤ nmax` pointwise and
`nAs = min(nmax, pref)` whenever that already fills the batch — so a sample with enough available
annotators (`pref[t] ≤ nmax[t]`) gets exactly the requested number. -/
theorem queryAnnotators_valid
    (ninf : α) (cast : Nat → α) (hcast : ∀ a b : Nat, a < b → cast a + 1 ≤ cast b)
    (fuel m b : Nat) (hm : 0 < m)
    (A : List (List Bool)) (hrect : ∀ r ∈ A, r.length = m)
    (candRows : List (List (Option α))) (sIdx : List Nat) (au : List α) (pref : List Nat)
    (noises : List (List β))
    (hT : candRows.length = sIdx.length) (hP : pref.length = sIdx.length)
    (hinner : ∀ (t : Nat) (row : List (Option α)) (s : Nat), candRows[t]? = some row → sIdx[t]? = some s →
      row.length = A.length ∧ s < A.length ∧ ∃ v, row[s]? = some (some v))
    (hnodup : sIdx.Nodup)
    (hau : au.length = A.length * m) (hau01 : ∀ a ∈ au, 0 ≤ a ∧ a < 1)
    (hpref : ∀ x ∈ pref, 1 ≤ x)
    (havail1 : ∀ s ∈ sIdx, 1 ≤ countRow (A.getD s []))
    (hreach : b ≤ (sIdx.map (fun s => countRow (A.getD s []))).sum)
    (hfuel : (sIdx.map (fun s => countRow (A.getD s []))).sum ≤ fuel)
    (hnoise : b ≤ noises.length) (hpos : PosNoise (A.length * m) noises) :
    ∃ nAs out, queryAnnotators ninf cast fuel m b A candRows sIdx au pref noises = .ok (nAs, out) ∧
      out.length = b ∧
      LeL (assignInit (sIdx.map (fun s => countRow (A.getD s []))) pref) nAs ∧
      LeL nAs (sIdx.map (fun s => countRow (A.getD s []))) ∧
      (b ≤ (assignInit (sIdx.map (fun s => countRow (A.getD s []))) pref).sum →
        nAs = assignInit (sIdx.map (fun s => countRow (A.getD s []))) pref) ∧
      (out.map Prod.fst).Nodup ∧
      (∀ r ∈ out, A.flatten.getD r.1 false = true ∧ ∃ v, r.2[r.1]? = some (some v)) ∧
      (∀ r ∈ out, r.2.length = A.length * m) ∧
      (∀ k, ∀ hk : k < out.length, ∀ q,
        (A.flatten.getD q false = false ∨ q ∈ (out.map Prod.fst).take k) → out[k].2.getD q none = none) ∧
      b ≤ nAs.sum ∧
      out.map (fun r => r.1 / m) = (expand nAs sIdx).take b := by
  generalize hnm : sIdx.map (fun s => countRow (A.getD s [])) = nmax at *
  have hnl : nmax.length = sIdx.length := by rw [← hnm]; simp
  have hinit := assignInit_le nmax pref (by omega)
  obtain ⟨nAs, hnAs, n1', n2, n3, n4⟩ :=
    assignIter_some fuel b nmax (assignInit nmax pref) hinit (by omega)
  have n1 : b ≤ nAs.sum := by
    rcases n1' with h | h
    · exact h
    · rw [h]; exact hreach
  have hlen : nAs.length = sIdx.length := by rw [LeL.length n2, hnl]
  have hnmax : ∀ t, t < sIdx.length → nmax.getD t 0 = countRow (A.getD (sIdx.getD t 0) []) := by
    intro t ht
    rw [← hnm]
    simp [List.getD_eq_getElem?_getD, List.getElem?_map, List.getElem?_eq_getElem ht]
  have hnas1 : ∀ t, t < sIdx.length → 1 ≤ nAs.getD t 0 := by
    intro t ht
    have h1 := LeL.getD n3 t
    rw [assignInit_getD nmax pref t (by omega) (by omega)] at h1
    have h2 : 1 ≤ nmax.getD t 0 := by
      rw [hnmax t ht]
      apply havail1
      simp [List.getD_eq_getElem?_getD, List.getElem?_eq_getElem ht]
    have h3 : 1 ≤ pref.getD t 0 := by
      apply hpref
      have : t < pref.length := by omega
      simp [List.getD_eq_getElem?_getD, List.getElem?_eq_getElem this]
    omega
  obtain ⟨good, hblock⟩ := good_init ninf cast m A hrect candRows sIdx au hT hinner hau hau01 hcast
  have hfl := flatten_length A m hrect
  obtain ⟨o1, o2, o3⟩ := qaLoop_valid m hm A.flatten sIdx nAs hlen hnodup hnas1 b _ 0 0 noises []
    good (by simp) hnoise (by rw [hfl]; exact hpos)
    (by
      intro t _ ht
      rw [hblock t ht, ← hnmax t ht]
      have := LeL.getD n2 t
      split <;> omega)
    (fun h => hnas1 0 h)
    (by simpa using n1)
  obtain ⟨v1, -, v3, v4, v5⟩ := valid_spec _ _ _ o2
  have hsched := phaseSeq_expand nAs sIdx hlen hnas1 b 0 0 (fun h => hnas1 0 h) (by simpa using n1)
  simp only [List.drop_zero] at hsched
  refine ⟨nAs, _, ?_, o1, n3, n2, n4, v1, v3, ?_, ?_, n1, o3.trans hsched⟩
  · unfold queryAnnotators nToAssign
    simp only [flatten2, hnm, hnAs, o1, Nat.lt_irrefl, if_false]
  · intro r hr; rw [v4 r hr, hfl]
  · intro k hk q hq
    apply v5 k hk q
    rcases hq with hq | hq
    · exact Or.inl hq
    · exact Or.inr (Or.inr hq)

/-- Distinct flat picks at available positions are distinct `(sample, annotator)` pairs after the
re-translation `indices[:, 0] = mapping[w_indices[:, 0]]` (mapping without repetitions, one entry per
row of the mask). -/
theorem translated_pairs_distinct (m : Nat) (hm : 0 < m) (A : List (List Bool))
    (hrect : ∀ r ∈ A, r.length = m) (mapping : Option (List Nat))
    (hmp : ∀ mp, mapping = some mp → mp.Nodup ∧ mp.length = A.length) (picks : List Nat)
    (hnd : picks.Nodup) (hav : ∀ p ∈ picks, A.flatten.getD p false = true) :
    (picks.map (translatePick m mapping)).Nodup := by
  apply translatePick_nodup m hm mapping A.length hmp picks hnd
  intro p hp
  have := getD_true_lt _ _ (hav p hp)
  rwa [flatten_length A m hrect] at this

end Wrapper

section E2E
variable {α : Type} [Field α] [LinearOrder α] [IsStrictOrderedRing α]
variable {β : Type} [LinearOrder β] [Zero β]

/-- **End to end: everything `SingleAnnotatorWrapper.query` does around the inner strategy's call.**
`(mapping, A)` is the result of `_transform_cand_annot`, `b` the batch size clipped to the number of
available pairs (`batch_clipped_to_available_pairs`).  The inner strategy's contract is stated in its
own index space (distinct picks, `min(b, n_selectable)` of them, each a selectable candidate with a
number in its utilities row); the remaining preconditions are those of `queryAnnotators_valid`.  Then
the query succeeds with `b` pairs in the index space of the result (through `mapping`), pairwise
distinct, each available (`outAvail`, linked to the arguments by `transformCandAnnot_spec`), the
samples in the inner strategy's order (`expand nAs innerPicks`), and `b` utility matrices that are NaN at
every unavailable position and at every pair selected in an earlier step. -/
theorem wrapperQuery_valid
    (ninf : α) (cast : Nat → α) (hcast : ∀ a b : Nat, a < b → cast a + 1 ≤ cast b)
    (nS m : Nat) (hm : 0 < m) (unl : List (List Bool)) (cand : Cand) (annot : Annot) (bReq : Nat)
    (pref : Pref) (innerPicks : List Nat) (innerU : List (List (Option α))) (au : List α)
    (noises : List (List β)) (mapping : Option (List Nat)) (A : List (List Bool)) (b : Nat)
    (htr : transformCandAnnot nS m unl cand annot = (mapping, A))
    (hb : b = clipBatch bReq (nCandidatePairs nS m unl cand annot))
    (hrect : ∀ r ∈ A, r.length = m)
    (hmp : ∀ mp, mapping = some mp → mp.Nodup ∧ mp.length = A.length)
    (hk : innerPicks.length = min b A.length) (hU : innerU.length = innerPicks.length)
    (hnd : innerPicks.Nodup)
    (hin : ∀ (t : Nat) (row : List (Option α)) (s : Nat), innerU[t]? = some row → innerPicks[t]? = some s →
      (∃ v, row.getD s none = some v) ∧
      (match mapping with
       | none => row.length = A.length ∧ s < A.length
       | some mp => s ∈ mp))
    (hau : au.length = A.length * m) (hau01 : ∀ a ∈ au, 0 ≤ a ∧ a < 1)
    (hpref : ∀ x ∈ prefVector pref (min b A.length), 1 ≤ x)
    (hplen : (prefVector pref (min b A.length)).length = min b A.length)
    (havail1 : ∀ s ∈ innerPicks, 1 ≤ nmaxAt A (selPos mapping s))
    (hreach : b ≤ (innerPicks.map (fun s => nmaxAt A (selPos mapping s))).sum)
    (hnoise : b ≤ noises.length) (hpos : PosNoise (A.length * m) noises) :
    ∃ res, wrapperQuery ninf cast nS m unl cand annot bReq pref innerPicks innerU au noises = .ok res ∧
      res.batch = b ∧ res.mapping = mapping ∧ res.A = A ∧
      res.picks.length = b ∧ res.picks.Nodup ∧
      (∀ pr ∈ res.picks, pr.2 < m ∧ outAvail m mapping A (outPos m pr) = true) ∧
      res.picks.map Prod.fst = (expand res.nAs innerPicks).take b ∧
      res.rows.length = b ∧
      (∀ k, ∀ hk : k < res.rows.length, ∀ q,
        (outAvail m mapping A q = false ∨ q ∈ (res.picks.take k).map (outPos m)) →
          res.rows[k].getD q none = none) := by
  -- the inner strategy's result over the selectable candidates
  obtain ⟨candRows, sIdx, hcr, hsi, hT, hinner, hnodup, hback, hnm⟩ :
      ∃ candRows sIdx,
        candRows = (match mapping with | none => innerU | some mp => innerU.map (gatherRow mp)) ∧
        sIdx = (match mapping with | none => innerPicks | some mp => innerPicks.map (posIn mp)) ∧
        candRows.length = sIdx.length ∧
        (∀ (t : Nat) (row : List (Option α)) (s : Nat), candRows[t]? = some row → sIdx[t]? = some s →
          row.length = A.length ∧ s < A.length ∧ ∃ v, row[s]? = some (some v)) ∧
        sIdx.Nodup ∧
        (sIdx.map (fun i => (translatePick m mapping (i * m)).1) = innerPicks) ∧
        sIdx.map (fun s => countRow (A.getD s [])) = innerPicks.map (fun s => nmaxAt A (selPos mapping s)) := by
    cases mapping with
    | none =>
      refine ⟨innerU, innerPicks, rfl, rfl, hU, ?_, hnd, ?_, ?_⟩
      · intro t row s h1 h2
        obtain ⟨⟨v, hv⟩, h3⟩ := hin t row s h1 h2
        exact ⟨h3.1, h3.2, v, getD_some_getElem? row s v hv⟩
      · have : (fun i => (translatePick m none (i * m)).1) = id := by
          funext i; simp [translatePick, Nat.mul_div_cancel _ hm]
        rw [this]; simp
      · rfl
    | some mp =>
      obtain ⟨hmnd, hml⟩ := hmp mp rfl
      have hmem : ∀ s ∈ innerPicks, s ∈ mp := by
        intro s hs
        obtain ⟨t, ht, rfl⟩ := List.getElem_of_mem hs
        have h1 : innerU[t]? = some innerU[t] := List.getElem?_eq_getElem (by omega)
        exact (hin t _ _ h1 (List.getElem?_eq_getElem ht)).2
      refine ⟨_, _, rfl, rfl, by simp [hU], ?_, ?_, ?_, ?_⟩
      · intro t row' s' h1 h2
        rw [List.getElem?_map] at h1 h2
        cases hr : innerU[t]? with
        | none => rw [hr] at h1; simp at h1
        | some row =>
          cases hs : innerPicks[t]? with
          | none => rw [hs] at h2; simp at h2
          | some s =>
            rw [hr] at h1; rw [hs] at h2
            simp only [Option.map_some, Option.some.injEq] at h1 h2
            subst h1; subst h2
            obtain ⟨⟨v, hv⟩, h3⟩ := hin t row s hr hs
            have hl : posIn mp s < mp.length := List.idxOf_lt_length_of_mem h3
            refine ⟨by simp [gatherRow, hml], by omega, v, ?_⟩
            rw [gatherRow_get mp row s h3, hv]
      · apply nodup_map_of_inj_on _ _ _ hnd
        intro x hx y hy e
        rw [← posIn_getD mp x (hmem x hx), ← posIn_getD mp y (hmem y hy), e]
      · rw [List.map_map]
        have : ∀ s ∈ innerPicks, ((fun i => (translatePick m (some mp) (i * m)).1) ∘ posIn mp) s = s := by
          intro s hs
          simp only [Function.comp, translatePick, Nat.mul_div_cancel _ hm]
          exact posIn_getD mp s (hmem s hs)
        rw [List.map_congr_left this]; simp
      · rw [List.map_map]; rfl
  have hfl := flatten_length A m hrect
  have hplen' : (prefVector pref (min b A.length)).length = sIdx.length := by
    rw [hplen, ← hk]
    cases mapping <;> simp [hsi]
  have hsilt : ∀ s ∈ sIdx, s < A.length := by
    intro s hs
    obtain ⟨t, ht, rfl⟩ := List.getElem_of_mem hs
    have h1 : candRows[t]? = some candRows[t] := List.getElem?_eq_getElem (by omega)
    exact (hinner t _ _ h1 (List.getElem?_eq_getElem ht)).2.1
  obtain ⟨nAs, out, hq, o1, -, -, -, o5, o6, o7, o8, -, o10⟩ :=
    queryAnnotators_valid ninf cast hcast ((sIdx.map (fun s => countRow (A.getD s []))).sum) m b hm A hrect
      candRows sIdx au (prefVector pref (min b A.length)) noises hT hplen' hinner hnodup hau hau01 hpref
      (by
        intro s hs
        have : countRow (A.getD s []) ∈ sIdx.map (fun s => countRow (A.getD s [])) := List.mem_map.mpr ⟨s, hs, rfl⟩
        rw [hnm] at this
        obtain ⟨x, hx, hxe⟩ := List.mem_map.mp this
        rw [← hxe]; exact havail1 x hx)
      (by rw [hnm]; exact hreach) (Nat.le_refl _) hnoise hpos
  obtain ⟨t1, t2⟩ := translate_spec nS m hm A hrect mapping hmp out (fun r hr => (o6 r hr).1) o8
  have t0 := translated_pairs_distinct m hm A hrect mapping hmp (out.map Prod.fst) o5
    (by intro p hp; obtain ⟨r, hr, rfl⟩ := List.mem_map.mp hp; exact (o6 r hr).1)
  have hany : (sIdx.any (fun s => decide (A.length ≤ s))) = false := by
    rw [List.any_eq_false]
    intro s hs
    have := hsilt s hs
    simp; omega
  refine ⟨{ batch := b, mapping := mapping, A := A, pref := prefVector pref (min b A.length), nAs := nAs,
            picks := out.map (fun r => translatePick m mapping r.1),
            rows := out.map (fun r => translateRow nS m mapping r.2) }, ?_, rfl, rfl, rfl, by simp [o1], ?_, ?_, ?_,
          by simp [o1], ?_⟩
  · unfold wrapperQuery
    simp only [htr, ← hb]
    cases mapping with
    | none =>
      simp only at hcr hsi
      subst hcr; subst hsi
      simp only [hany, Bool.false_eq_true, if_false, hq]
    | some mp =>
      simp only at hcr hsi
      subst hcr; subst hsi
      simp only [hany, Bool.false_eq_true, if_false, hq]
  · rw [List.map_map] at t0; exact t0
  · intro pr hpr
    simp only [List.mem_map] at hpr
    obtain ⟨r, hr, rfl⟩ := hpr
    exact t1 r hr
  · -- samples in the inner strategy's order
    have e1 : (out.map (fun r => translatePick m mapping r.1)).map Prod.fst =
        (out.map (fun r => r.1 / m)).map (fun i => (translatePick m mapping (i * m)).1) := by
      simp only [List.map_map]
      apply List.map_congr_left
      intro r _
      cases mapping <;> simp [translatePick, Nat.mul_div_cancel _ hm]
    simp only
    rw [e1, o10, List.map_take, expand_map, hback]
  · intro k hk q hq
    simp only [List.length_map] at hk
    simp only [List.getElem_map]
    apply t2 k hk q
    rcases hq with hq | hq
    · exact Or.inl hq
    · right
      simp only [List.map_take, List.map_map] at hq ⊢
      exact hq

end E2E

/-- **`annotWrapper_sample_order` (used by C20): the wrapper serves the samples in the order in which the
wrapped strategy ranked them.**  Whenever the translated sample column of the result is
`(expand nAs innerPicks).take b` (conclusion of `wrapperQuery_valid`), a sample that the inner strategy
picked later never precedes one it picked earlier, and all pairs of one sample are consecutive. -/
theorem annotWrapper_sample_order (innerPicks nAs : List Nat) (b : Nat) (hnd : innerPicks.Nodup)
    (samples : List Nat) (h : samples = (expand nAs innerPicks).take b) :
    samples.Pairwise (fun x y => innerPicks.idxOf x ≤ innerPicks.idxOf y) ∧ ∀ s ∈ samples, s ∈ innerPicks := by
  subst h
  refine ⟨(expand_pairwise nAs innerPicks hnd).sublist (List.take_sublist _ _), ?_⟩
  intro s hs
  exact mem_expand nAs innerPicks s (List.mem_of_mem_take hs)

/-- **`n_annotators_per_sample` as documented**: an int is the request for every ranked sample; an
array is cut to the ranking when longer, and when shorter it is extended by repeating its LAST entry
(not cycled): entry `t` of `pref_n_annotators` is `l[t]` inside the array and `l.getLast` beyond it. -/
theorem prefVector_documented (sq : Nat) :
    (∀ n, prefVector (.int n) sq = List.replicate sq n) ∧
    (∀ l : List Nat, sq < l.length → prefVector (.arr l) sq = l.take sq) ∧
    (∀ (l : List Nat) (hne : l ≠ []), l.length ≤ sq →
      (prefVector (.arr l) sq).length = sq ∧
      ∀ t, t < sq → (prefVector (.arr l) sq).getD t 0 =
        if h : t < l.length then l[t] else l.getLast hne) := by
  refine ⟨fun n => rfl, ?_, ?_⟩
  · intro l h; simp [prefVector, h]
  · intro l hne hle
    refine ⟨prefVector_length _ _, ?_⟩
    intro t ht
    have hnot : ¬ sq < l.length := by omega
    simp only [prefVector, if_neg hnot, List.getD_eq_getElem?_getD]
    by_cases h : t < l.length
    · rw [dif_pos h, List.getElem?_append_left h, List.getElem?_eq_getElem h]; rfl
    · rw [dif_neg h, List.getElem?_append_right (by omega), List.getElem?_replicate, if_pos (by omega)]
      simp only [Option.getD_some]
      cases l with
      | nil => exact absurd rfl hne
      | cons a as => simp [List.getLast_eq_getLastD, List.getLast?_cons]

section Naps
variable {α : Type} [Field α] [LinearOrder α] [IsStrictOrderedRing α]
variable {β : Type} [LinearOrder β] [Zero β]

/-- **The requested number of annotators per sample is respected whenever enough annotators are
available**: if every ranked sample `sIdx[t]` has at least `pref[t]` available annotators
(`pref ≤ nmax` pointwise) and the requests fill the batch (`b ≤ Σ pref`), then `nAs = pref` and the
batch serves the ranked samples in order, sample `t` exactly `pref[t]` times (the last one served is
cut by the batch size): consecutive same-sample groups of sizes `pref`. -/
theorem naps_respected
    (ninf : α) (cast : Nat → α) (hcast : ∀ a b : Nat, a < b → cast a + 1 ≤ cast b)
    (fuel m b : Nat) (hm : 0 < m)
    (A : List (List Bool)) (hrect : ∀ r ∈ A, r.length = m)
    (candRows : List (List (Option α))) (sIdx : List Nat) (au : List α) (pref : List Nat)
    (noises : List (List β))
    (hT : candRows.length = sIdx.length) (hP : pref.length = sIdx.length)
    (hinner : ∀ (t : Nat) (row : List (Option α)) (s : Nat), candRows[t]? = some row → sIdx[t]? = some s →
      row.length = A.length ∧ s < A.length ∧ ∃ v, row[s]? = some (some v))
    (hnodup : sIdx.Nodup)
    (hau : au.length = A.length * m) (hau01 : ∀ a ∈ au, 0 ≤ a ∧ a < 1)
    (hpref : ∀ x ∈ pref, 1 ≤ x)
    (henough : LeL pref (sIdx.map (fun s => countRow (A.getD s []))))
    (hfill : b ≤ pref.sum)
    (hfuel : (sIdx.map (fun s => countRow (A.getD s []))).sum ≤ fuel)
    (hnoise : b ≤ noises.length) (hpos : PosNoise (A.length * m) noises) :
    ∃ out, queryAnnotators ninf cast fuel m b A candRows sIdx au pref noises = .ok (pref, out) ∧
      out.length = b ∧ out.map (fun r => r.1 / m) = (expand pref sIdx).take b := by
  have hinit := assignInit_eq_of_le _ _ henough
  have havail1 : ∀ s ∈ sIdx, 1 ≤ countRow (A.getD s []) := by
    intro s hs
    obtain ⟨t, ht, rfl⟩ := List.getElem_of_mem hs
    have h1 := LeL.getD henough t
    have h2 : 1 ≤ pref.getD t 0 := by
      apply hpref
      have : t < pref.length := by omega
      simp [List.getD_eq_getElem?_getD, List.getElem?_eq_getElem this]
    have h3 : (sIdx.map (fun s => countRow (A.getD s []))).getD t 0 = countRow (A.getD sIdx[t] []) := by
      simp [List.getD_eq_getElem?_getD, List.getElem?_map, List.getElem?_eq_getElem ht]
    omega
  obtain ⟨nAs, out, h, hl, -, -, heq, -, -, -, -, -, hs⟩ :=
    queryAnnotators_valid ninf cast hcast fuel m b hm A hrect candRows sIdx au pref noises hT hP hinner hnodup
      hau hau01 hpref havail1 (by have := LeL.sum_le henough; omega) hfuel hnoise hpos
  have : nAs = pref := by rw [heq (by rw [hinit]; exact hfill), hinit]
  subst this
  exact ⟨out, h, hl, hs⟩

end Naps
section IET
variable {α : Type} [LinearOrder α] [Zero α] [Add α]
variable {β : Type} [LinearOrder β] [Zero β]

/-- **IntervalEstimationThreshold**: for every way of giving candidates/annotators, every batch size ≥ 1,
utilities without infinities and positive noise, the query succeeds and returns
`min(batch_size, #selectable)` flat picks (`#selectable` = number of non-NaN entries after masking the
samples that lack an annotator) which are pairwise distinct and available, and the utilities row of
step `k` is NaN at every unavailable pair and at the picks of the earlier steps. -/
theorem iet_valid (isInf : α → Bool) (nS m : Nat) (hm : 0 < m) (unl : List (List Bool)) (cand : Cand)
    (annot : Annot) (hrect : ∀ r ∈ (transformCandAnnot nS m unl cand annot).2, r.length = m)
    (b : Nat) (hb : 1 ≤ b) (U : List (Option α)) (noises : List (List β))
    (hfin : ∀ v, some v ∈ ietUtilities nS m unl cand annot U → isInf v = false)
    (hn : min b (countSome (ietUtilities nS m unl cand annot U)) ≤ noises.length)
    (hpos : PosNoise (ietUtilities nS m unl cand annot U).length noises) :
    ∃ rs, ietQuery isInf nS m unl cand annot b U noises = .ok rs ∧
      rs.length = min b (countSome (ietUtilities nS m unl cand annot U)) ∧
      (rs.map Prod.fst).Nodup ∧
      (∀ r ∈ rs, outAvail m (transformCandAnnot nS m unl cand annot).1
        (transformCandAnnot nS m unl cand annot).2 r.1 = true) ∧
      (∀ k, ∀ hk : k < rs.length, ∀ q,
        (outAvail m (transformCandAnnot nS m unl cand annot).1
            (transformCandAnnot nS m unl cand annot).2 q = false ∨ q ∈ (rs.map Prod.fst).take k) →
          rs[k].2.getD q none = none) := by
  obtain ⟨rs, h1, h2, -, h4, h5, h6, -⟩ :=
    simpleBatch_max_spec isInf (ietUtilities nS m unl cand annot U) b noises [] hfin hb hn hpos
  refine ⟨rs, h1, h2, h4, ?_, ?_⟩
  · intro r hr
    obtain ⟨v, hv⟩ := h5 r hr
    exact ietUtilities_some nS m hm unl cand annot hrect U r.1 v hv
  · intro k hk q hq
    rw [h6 k hk, List.getD_eq_getElem?_getD, getElem?_setNones]
    split
    · rfl
    · rename_i hnot
      rcases hq with hq | hq
      · cases hu : (ietUtilities nS m unl cand annot U)[q]? with
        | none => rfl
        | some x =>
          cases x with
          | none => rfl
          | some v =>
            have := ietUtilities_some nS m hm unl cand annot hrect U q v hu
            rw [hq] at this; cases this
      · cases hu : (ietUtilities nS m unl cand annot U)[q]? with
        | none => rfl
        | some x => exact absurd ⟨hq, (List.getElem?_eq_some_iff.mp hu).1⟩ hnot

end IET

/-- On IntervalEstimationThreshold's documented domain (every candidate sample has all annotators
available; utilities are numbers) `#selectable = n_candidates * n_annotators = #available pairs`, so
`iet_valid` gives `k = min(batch_size, #available pairs)`.  Outside it only the pairs of fully
available samples are selectable (documented restriction of the strategy). -/
theorem iet_selectable_documented {α : Type} (nS m : Nat) (hm : 0 < m) (unl : List (List Bool)) (cand : Cand)
    (annot : Annot) (U : List (Option α))
    (hmp : ∀ mp, (transformCandAnnot nS m unl cand annot).1 = some mp →
      mp.Nodup ∧ (∀ s ∈ mp, s < nS) ∧ mp.length = (transformCandAnnot nS m unl cand annot).2.length)
    (hfull : ∀ r ∈ (transformCandAnnot nS m unl cand annot).2, allTrue r = true)
    (hU : ∀ p, p < (transformCandAnnot nS m unl cand annot).2.length * m → (U.getD p none).isSome = true) :
    countSome (ietUtilities nS m unl cand annot U) =
      (transformCandAnnot nS m unl cand annot).2.length * m :=
  ietUtilities_countSome_full nS m hm unl cand annot U hmp hfull hU

/-! ## Non-vacuity: concrete instances meet the hypotheses -/

example : ((transformCandAnnot 3 2 [[true, false], [false, false], [true, true]] .all (.idx [1])).2.getD 2 []).getD 1 false
    = true := by decide

example : transformCandAnnot 3 2 [[true, false], [false, false], [true, true]] .all .all =
    (some [0, 2], [[true, false], [true, true]]) := by decide

example : nToAssign 4 3 [2, 2] [1, 1] = some [2, 2] := by decide

example : expand [2, 1] [5, 3] = [5, 5, 3] := by decide

/-- the hypotheses of `queryAnnotators_valid` are satisfiable: two samples, two annotators, the inner
strategy picked sample 1 then sample 0, batch of two pairs -/
example {α : Type} [Field α] [LinearOrder α] [IsStrictOrderedRing α] :
    ∃ nAs out, queryAnnotators (β := Nat) (0 : α) (fun n => (n : α)) 3 2 2 [[true, true], [true, false]]
      [[some 0, some 1], [some 0, none]] [1, 0] [0, 0, 0, 0] [1, 1] [[1, 1, 1, 1], [1, 1, 1, 1]] = .ok (nAs, out) ∧
      out.length = 2 := by
  obtain ⟨nAs, out, h, hl, -⟩ := queryAnnotators_valid (β := Nat) (0 : α) (fun n => (n : α))
    (by intro a b h; exact_mod_cast h) 3 2 2 (by omega) [[true, true], [true, false]] (by simp)
    [[some 0, some 1], [some 0, none]] [1, 0] [0, 0, 0, 0] [1, 1] [[1, 1, 1, 1], [1, 1, 1, 1]] rfl rfl
    (by
      intro t row s h1 h2
      match t with
      | 0 => simp at h1 h2; subst h1; subst h2; simp
      | 1 => simp at h1 h2; subst h1; subst h2; simp
      | t + 2 => simp at h1)
    (by simp) rfl (by simp) (by simp) (by simp [countRow]) (by simp [countRow]) (by simp [countRow]) (by simp)
    (by intro nz h; simp at h; subst h; simp)
  exact ⟨nAs, out, h, hl⟩

/-- the hypotheses of `wrapperQuery_valid` are satisfiable: two samples, two annotators, label matrix with
three missing entries, `candidates = annotators = None`, batch of two, inner picks 1 then 0 -/
example {α : Type} [Field α] [LinearOrder α] [IsStrictOrderedRing α] :
    ∃ res, wrapperQuery (β := Nat) (0 : α) (fun n => (n : α)) 2 2 [[true, true], [true, false]] .all .all 2
      (.int 1) [1, 0] [[some 0, some 1], [some 0, none]] [0, 0, 0, 0] [[1, 1, 1, 1], [1, 1, 1, 1]] = .ok res ∧
      res.picks.length = 2 ∧ res.picks.Nodup := by
  obtain ⟨res, h, -, -, -, hl, hn, -⟩ := wrapperQuery_valid (β := Nat) (0 : α) (fun n => (n : α))
    (by intro a b h; exact_mod_cast h) 2 2 (by omega) [[true, true], [true, false]] .all .all 2 (.int 1) [1, 0]
    [[some 0, some 1], [some 0, none]] [0, 0, 0, 0] [[1, 1, 1, 1], [1, 1, 1, 1]]
    (some [0, 1]) [[true, true], [true, false]] 2 (by decide) (by decide) (by simp)
    (by intro mp h; injection h with h; subst h; simp) (by simp) rfl (by simp)
    (by
      intro t row s h1 h2
      match t with
      | 0 => simp at h1 h2; subst h1; subst h2; simp
      | 1 => simp at h1 h2; subst h1; subst h2; simp
      | t + 2 => simp at h1)
    rfl (by simp) (by simp [prefVector]) (by simp [prefVector])
    (by intro s hs; simp at hs; rcases hs with rfl | rfl <;> decide)
    (by decide) (by simp) (by intro nz h; simp at h; subst h; simp)
  exact ⟨res, h, hl, hn⟩

end Ska.C07
