import SkaModel.Props.C02
import SkaModel.Core.Skeleton

/-!
# C01 — a pool query returns a valid batch: right size, distinct, only candidates

`ValidBatch` is the property's statement, `validBatchB_iff` ties the Boolean run on implementation
outputs to it, and `poolQueryA_valid*` prove it for the scatter + `simple_batch` skeleton for all
pool sizes, mappings, candidate utilities, batch sizes and noise.
-/

namespace Ska.C01
open Ska Ska.C18 Ska.C02

/-- **C01**: exactly `min(batch_size, #candidates)` pairwise distinct indices, each a candidate. -/
def ValidBatch (cand : List Nat) (b : Nat) (q : List Nat) : Prop :=
  q.length = min b cand.length ∧ q.Nodup ∧ ∀ i ∈ q, i ∈ cand

theorem validBatchB_iff (cand : List Nat) (b : Nat) (q : List Nat) :
    validBatchB cand b q = true ↔ ValidBatch cand b q := by
  unfold validBatchB ValidBatch
  simp [nodupB_iff, and_assoc]

/-! ### candidates = None means the unlabeled samples -/

theorem mem_unlabeledFrom (i : Nat) (y : List Bool) (j : Nat) :
    j ∈ unlabeledFrom i y ↔ ∃ k, j = i + k ∧ y[k]? = some true := by
  induction y generalizing i with
  | nil => simp [unlabeledFrom]
  | cons x xs ih =>
    cases x with
    | true =>
      simp only [unlabeledFrom, List.mem_cons, ih]
      constructor
      · rintro (rfl | ⟨k, rfl, hk⟩)
        · exact ⟨0, rfl, rfl⟩
        · exact ⟨k+1, by omega, by simpa using hk⟩
      · rintro ⟨k, rfl, hk⟩
        cases k with
        | zero => left; rfl
        | succ k => right; exact ⟨k, by omega, by simpa using hk⟩
    | false =>
      simp only [unlabeledFrom, ih]
      constructor
      · rintro ⟨k, rfl, hk⟩
        exact ⟨k+1, by omega, by simpa using hk⟩
      · rintro ⟨k, rfl, hk⟩
        cases k with
        | zero => simp at hk
        | succ k => exact ⟨k, by omega, by simpa using hk⟩

theorem unlabeledFrom_ge (i : Nat) (y : List Bool) : ∀ j ∈ unlabeledFrom i y, i ≤ j := by
  intro j hj
  obtain ⟨k, rfl, -⟩ := (mem_unlabeledFrom i y j).mp hj
  omega

theorem unlabeledFrom_nodup (i : Nat) (y : List Bool) : (unlabeledFrom i y).Nodup := by
  induction y generalizing i with
  | nil => simp [unlabeledFrom]
  | cons x xs ih =>
    cases x with
    | true =>
      simp only [unlabeledFrom, List.nodup_cons]
      refine ⟨fun h => ?_, ih (i+1)⟩
      have := unlabeledFrom_ge (i+1) xs i h
      omega
    | false => simpa [unlabeledFrom] using ih (i+1)

/-- `unlabeled_indices(y)`: exactly the samples whose label is missing, each once, all in range. -/
theorem unlabeledIdx_spec (y : List Bool) :
    (unlabeledIdx y).Nodup ∧ (∀ j, j ∈ unlabeledIdx y ↔ y[j]? = some true) ∧
      ∀ j ∈ unlabeledIdx y, j < y.length := by
  refine ⟨unlabeledFrom_nodup 0 y, ?_, ?_⟩
  · intro j
    unfold unlabeledIdx
    rw [mem_unlabeledFrom]
    constructor
    · rintro ⟨k, rfl, hk⟩; simpa using hk
    · intro h; exact ⟨j, by omega, h⟩
  · intro j hj
    unfold unlabeledIdx at hj
    obtain ⟨k, rfl, hk⟩ := (mem_unlabeledFrom 0 y j).mp hj
    rcases Nat.lt_or_ge k y.length with h | h
    · omega
    · rw [List.getElem?_eq_none h] at hk; cases hk

theorem unlabeledIdx_length (y : List Bool) : (unlabeledIdx y).length = y.count true := by
  unfold unlabeledIdx
  suffices ∀ i, (unlabeledFrom i y).length = y.count true from this 0
  induction y with
  | nil => simp [unlabeledFrom]
  | cons x xs ih => intro i; cases x <;> simp [unlabeledFrom, ih]

/-! ### Skeleton A -/

variable {α : Type} [LinearOrder α] [Zero α] [Add α]
variable {β : Type} [LinearOrder β] [Zero β]

/-- **Skeleton A (index / None candidates, max mode)**: for every pool size, mapping, candidate
utilities (numbers, no infinities), batch size ≥ 1 and positive noise, the query succeeds and returns
a valid batch w.r.t. the candidate set `mp`. -/
theorem poolQueryA_valid (isInf : α → Bool) (n : Nat) (mp : List Nat) (uc : List (Option α))
    (b : Nat) (noises : List (List β)) (choice : List Nat)
    (hlen : uc.length = mp.length) (hnd : mp.Nodup) (hr : ∀ i ∈ mp, i < n)
    (hall : ∀ x ∈ uc, ∃ v, x = some v ∧ isInf v = false) (hb : 1 ≤ b) (hne : 1 ≤ mp.length)
    (hn : min b mp.length ≤ noises.length) (hpos : PosNoise n noises) :
    ∃ rs, poolQueryA isInf n (some mp) uc b .max noises choice = .ok rs ∧
      ValidBatch mp b (rs.map Prod.fst) := by
  obtain ⟨rs, hrs, hl, hv⟩ := poolQueryA_utils isInf n mp uc b noises choice hlen hnd hr hall hb hne hn hpos
  obtain ⟨hnd', hmem⟩ := stepwise_implies_valid _ _ _ _ _ hv
  exact ⟨rs, hrs, by simpa using hl, hnd', fun i hi => (hmem i hi).1⟩

/-- With `candidates=None` (mapping = the unlabeled samples of the labeling `y`): only samples that
are still unlabeled are selected, `min(b, #unlabeled)` of them, pairwise distinct. -/
theorem poolQueryA_none_valid (isInf : α → Bool) (y : List Bool) (uc : List (Option α))
    (b : Nat) (noises : List (List β)) (choice : List Nat)
    (hlen : uc.length = (unlabeledIdx y).length)
    (hall : ∀ x ∈ uc, ∃ v, x = some v ∧ isInf v = false) (hb : 1 ≤ b) (hne : 1 ≤ y.count true)
    (hn : min b (y.count true) ≤ noises.length) (hpos : PosNoise y.length noises) :
    ∃ rs, poolQueryA isInf y.length (some (unlabeledIdx y)) uc b .max noises choice = .ok rs ∧
      (rs.map Prod.fst).length = min b (y.count true) ∧ (rs.map Prod.fst).Nodup ∧
      ∀ i ∈ rs.map Prod.fst, y[i]? = some true := by
  obtain ⟨h1, h2, h3⟩ := unlabeledIdx_spec y
  have hl := unlabeledIdx_length y
  obtain ⟨rs, hrs, hv1, hv2, hv3⟩ := poolQueryA_valid isInf y.length (unlabeledIdx y) uc b noises choice
    hlen h1 h3 hall hb (by omega) (by omega) hpos
  exact ⟨rs, hrs, by omega, hv2, fun i hi => (h2 i).mp (hv3 i hi)⟩

/-- Feature-row candidates: row numbers of the candidate matrix. -/
theorem poolQueryA_valid_rows (isInf : α → Bool) (n : Nat) (uc : List (Option α))
    (b : Nat) (noises : List (List β)) (choice : List Nat)
    (hall : ∀ x ∈ uc, ∃ v, x = some v ∧ isInf v = false) (hb : 1 ≤ b) (hne : 1 ≤ uc.length)
    (hn : min b uc.length ≤ noises.length) (hpos : PosNoise uc.length noises) :
    ∃ rs, poolQueryA isInf n none uc b .max noises choice = .ok rs ∧
      ValidBatch (List.range uc.length) b (rs.map Prod.fst) := by
  obtain ⟨rs, hrs, hl, hv⟩ := poolQueryA_utils_rows isInf n uc b noises choice hall hb hne hn hpos
  obtain ⟨hnd', hmem⟩ := stepwise_implies_valid _ _ _ _ _ hv
  exact ⟨rs, hrs, by simpa using hl, hnd', fun i hi => (hmem i hi).1⟩

/-- What a NaN among the candidate utilities costs (the hypothesis "no NaN" above is necessary):
whatever the candidate utilities, Skeleton A returns `min(b, #candidates, #non-NaN utilities)`
distinct positions holding numbers — i.e. a *short* batch exactly when some utility is NaN. -/
theorem poolQueryA_valid_nan (isInf : α → Bool) (n : Nat) (mapping : Option (List Nat))
    (uc : List (Option α)) (b : Nat) (noises : List (List β)) (choice : List Nat)
    (hfin : ∀ v, some v ∈ fullUtilities n mapping uc → isInf v = false) (hb : 1 ≤ b)
    (hne : 1 ≤ (nCandOf mapping uc))
    (hn : min b (nCandOf mapping uc) ≤ noises.length) (hpos : PosNoise (fullUtilities n mapping uc).length noises) :
    ∃ rs, poolQueryA isInf n mapping uc b .max noises choice = .ok rs ∧
      rs.length = min (min b (nCandOf mapping uc))
        (countSome (fullUtilities n mapping uc)) ∧
      (rs.map Prod.fst).Nodup ∧
      ∀ p ∈ rs, ∃ v, (fullUtilities n mapping uc)[p.1]? = some (some v) := by
  obtain ⟨rs, hrs, hl, -, hnd, hmem, -, -⟩ :=
    simpleBatch_max_spec isInf (fullUtilities n mapping uc)
      (min b (nCandOf mapping uc)) noises choice hfin
      (by omega) (Nat.le_trans (Nat.min_le_left ..) hn) hpos
  refine ⟨rs, ?_, hl, hnd, hmem⟩
  unfold poolQueryA
  rw [if_neg (by omega)]
  exact hrs

/-- Proportional mode (sampling strategies built on `simple_batch(method="proportional")`): whenever
the call succeeds the picks are distinct, `min(b, #candidates, #non-NaN)` many, and carry non-zero mass. -/
theorem poolQueryA_prop_valid (isInf : α → Bool) (n : Nat) (mapping : Option (List Nat))
    (uc : List (Option α)) (b : Nat) (noises : List (List β)) (choice : List Nat)
    (rs : List (Nat × List (Option α)))
    (h : poolQueryA isInf n mapping uc b .proportional noises choice = .ok rs) :
    rs.length = min (min b (nCandOf mapping uc))
        (countSome (fullUtilities n mapping uc)) ∧
      (rs.map Prod.fst).Nodup ∧
      ∀ c ∈ rs.map Prod.fst, ∃ v, (fullUtilities n mapping uc)[c]? = some (some v) ∧ v ≠ 0 := by
  unfold poolQueryA at h
  split at h
  · cases h
  · obtain ⟨h1, h2, h3, h4, -⟩ := simpleBatch_prop_spec isInf _ _ noises choice rs h
    refine ⟨h2, by rw [h1]; exact h3, ?_⟩
    intro c hc
    rw [h1] at hc
    obtain ⟨v, hv, -, hv0⟩ := h4 c hc
    exact ⟨v, hv, hv0⟩

/-! ### the source-derived skeleton (translator tie) -/

open Ska.Skeleton in
/-- A `query` method whose regenerated skeleton is well formed denotes `poolQueryA` with its method. -/
theorem skel_sound (s : Skel) (h : s.wellFormed = true) (isInf : α → Bool) (n : Nat)
    (mapping : Option (List Nat)) (uc : List (Option α)) (b : Nat) (noises : List (List β)) (choice : List Nat) :
    ∃ m, s.methodOf = some m ∧
      s.denote isInf n mapping uc b noises choice = some (poolQueryA isInf n mapping uc b m noises choice) := by
  unfold Skel.denote
  rw [if_pos h]
  cases hm : s.methodOf with
  | none =>
    simp only [Skel.wellFormed, Bool.and_eq_true] at h
    rw [hm] at h; simp at h
  | some m => exact ⟨m, rfl, rfl⟩

open Ska.Skeleton in
/-- **C01 for every class whose source has a well-formed maximising skeleton**: the obligation
`skel_<Class>_wf` (regenerated from the source and checked by `decide` on every run) is all that is
needed to conclude a valid batch, for all inputs. -/
theorem skel_max_valid (s : Skel) (h : s.wellFormed = true) (hmax : s.method = "max")
    (isInf : α → Bool) (n : Nat) (mp : List Nat) (uc : List (Option α))
    (b : Nat) (noises : List (List β)) (choice : List Nat)
    (hlen : uc.length = mp.length) (hnd : mp.Nodup) (hr : ∀ i ∈ mp, i < n)
    (hall : ∀ x ∈ uc, ∃ v, x = some v ∧ isInf v = false) (hb : 1 ≤ b) (hne : 1 ≤ mp.length)
    (hn : min b mp.length ≤ noises.length) (hpos : PosNoise n noises) :
    ∃ rs, s.denote isInf n (some mp) uc b noises choice = some (.ok rs) ∧
      ValidBatch mp b (rs.map Prod.fst) ∧ ValidUtils .max n mp (rs.map Prod.fst) (rs.map Prod.snd) := by
  obtain ⟨m, hm, hd⟩ := skel_sound s h isInf n (some mp) uc b noises choice
  have : m = .max := by
    simp only [Skel.methodOf, hmax, if_true, Option.some.injEq] at hm
    exact hm.symm
  subst this
  obtain ⟨rs, hrs, hl, hv⟩ := poolQueryA_utils isInf n mp uc b noises choice hlen hnd hr hall hb hne hn hpos
  obtain ⟨hnd', hmem⟩ := stepwise_implies_valid _ _ _ _ _ hv
  exact ⟨rs, by rw [hd, hrs], ⟨by simpa using hl, hnd', fun i hi => (hmem i hi).1⟩, hv⟩

/-! ### non-vacuity -/

example : ValidBatch [1, 3, 4] 2 [4, 1] := by rw [← validBatchB_iff]; decide
example : unlabeledIdx [false, true, false, true, true] = [1, 3, 4] := by decide

end Ska.C01
