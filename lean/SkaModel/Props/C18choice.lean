import SkaModel.Core.SeqChoice
import SkaModel.Props.C01choice
import SkaModel.Props.C18
import Mathlib.Algebra.Order.Field.Basic
import Mathlib.Tactic.Linarith
import Mathlib.Data.List.Perm.Subperm

/-!
# C18 — `RandomState.choice(n, size, replace=False, p=p)` as numpy computes it

The proportional branch of `simple_batch` hands the selection to numpy's `choice` without replacement.  Earlier
the result of that call was an oracle with a checked contract; here the algorithm itself is modelled
(`Core/SeqChoice.lean: choiceNR`) and the contract is proved:

* `choiceNR_sound`: whatever the uniform draws are, if the call returns, it returns exactly `size` pairwise
  distinct positions of positive weight (for every weight vector without negative entries that has at least `size`
  positive entries);
* `choiceNR_terminates`: every round finds at least one new position, so `size` rounds always suffice — numpy's
  `while n_uniq < size` loop terminates.
-/

namespace Ska.C18choice
open Ska Ska.Seq Ska.C01choice

variable {α : Type} [Field α] [LinearOrder α] [IsStrictOrderedRing α]

/-! ### `zeroAt` -/

omit [LinearOrder α] [IsStrictOrderedRing α] in
theorem zeroAt_getElem? (found : List Nat) (p : List α) (k : Nat) :
    (zeroAt found p)[k]? = (p[k]?).map (fun x => if found.contains k then 0 else x) := by
  unfold zeroAt
  rw [List.getElem?_map, List.getElem?_zipIdx]
  cases p[k]? <;> simp

omit [IsStrictOrderedRing α] in
theorem zeroAt_nonneg (found : List Nat) (p : List α) (h : ∀ x ∈ p, 0 ≤ x) : ∀ x ∈ zeroAt found p, 0 ≤ x := by
  intro x hx
  obtain ⟨k, hk, rfl⟩ := List.getElem_of_mem hx
  have := zeroAt_getElem? found p k
  rw [List.getElem?_eq_getElem hk] at this
  cases hp : p[k]? with
  | none => rw [hp] at this; cases this
  | some v =>
    rw [hp] at this
    simp only [Option.map_some, Option.some.injEq] at this
    rw [this]
    split
    · exact le_refl 0
    · exact h v (List.mem_of_getElem? hp)

omit [IsStrictOrderedRing α] in
/-- a positive entry of `zeroAt found p` is a positive entry of `p` outside `found` -/
theorem zeroAt_pos (found : List Nat) (p : List α) (k : Nat) (v : α)
    (h : (zeroAt found p)[k]? = some v) (hv : 0 < v) : k ∉ found ∧ p[k]? = some v := by
  rw [zeroAt_getElem?] at h
  cases hp : p[k]? with
  | none => rw [hp] at h; cases h
  | some w =>
    rw [hp] at h
    simp only [Option.map_some, Option.some.injEq] at h
    by_cases hc : found.contains k = true
    · rw [if_pos hc] at h; rw [← h] at hv; exact absurd hv (lt_irrefl 0)
    · rw [if_neg hc] at h
      exact ⟨by simpa using hc, by rw [h]⟩

/-! ### a positive entry gives a positive total -/

theorem foldl_add_pos (l : List α) (acc : α) (hacc : 0 ≤ acc) (h : ∀ x ∈ l, 0 ≤ x) (hex : ∃ x ∈ l, 0 < x) :
    0 < l.foldl (· + ·) acc := by
  induction l generalizing acc with
  | nil => obtain ⟨x, hx, -⟩ := hex; cases hx
  | cons y ys ih =>
    simp only [List.foldl_cons]
    obtain ⟨x, hx, hpos⟩ := hex
    have hy : 0 ≤ y := h y (by simp)
    rcases List.mem_cons.mp hx with rfl | hx'
    · have := foldl_add_nonneg ys (acc + x) (fun z hz => h z (by simp [hz]))
      linarith
    · exact ih (acc + y) (by linarith) (fun z hz => h z (by simp [hz])) ⟨x, hx', hpos⟩

/-! ### pigeonhole: fewer found positions than positive ones leaves a positive one -/

omit [IsStrictOrderedRing α] in
theorem mem_posIdx (p : List α) (i : Nat) : i ∈ posIdx p ↔ ∃ v, p[i]? = some v ∧ 0 < v := by
  unfold posIdx
  rw [List.mem_filter, List.mem_range]
  constructor
  · rintro ⟨hi, h⟩
    rw [List.getElem?_eq_getElem hi] at h
    exact ⟨p[i], List.getElem?_eq_getElem hi, by simpa using h⟩
  · rintro ⟨v, hv, hpos⟩
    have hi : i < p.length := by
      rcases Nat.lt_or_ge i p.length with h | h
      · exact h
      · rw [List.getElem?_eq_none h] at hv; cases hv
    refine ⟨hi, ?_⟩
    rw [hv]; simpa using hpos

omit [IsStrictOrderedRing α] in
theorem posIdx_nodup (p : List α) : (posIdx p).Nodup := by
  unfold posIdx
  exact List.Nodup.sublist List.filter_sublist List.nodup_range

omit [IsStrictOrderedRing α] in
theorem exists_pos_not_found (p : List α) (found : List Nat) (h : found.length < (posIdx p).length) :
    ∃ i ∈ posIdx p, i ∉ found := by
  by_contra hcon
  have hsub : posIdx p ⊆ found := by
    intro i hi
    by_contra hn
    exact hcon ⟨i, hi, hn⟩
  have := (List.subperm_of_subset (posIdx_nodup p) hsub).length_le
  omega

theorem zeroAt_total_pos (p : List α) (found : List Nat) (hnn : ∀ x ∈ p, 0 ≤ x)
    (h : found.length < (posIdx p).length) : 0 < total (zeroAt found p) := by
  obtain ⟨i, hi, hnf⟩ := exists_pos_not_found p found h
  obtain ⟨v, hv, hpos⟩ := (mem_posIdx p i).mp hi
  unfold total
  refine foldl_add_pos _ 0 (le_refl 0) (zeroAt_nonneg found p hnn) ⟨v, ?_, hpos⟩
  have : (zeroAt found p)[i]? = some v := by
    rw [zeroAt_getElem?, hv]
    simp [hnf]
  exact List.mem_of_getElem? this

/-! ### `keepFresh` -/

theorem keepFresh_spec (new : List Nat) : ∀ seen : List Nat,
    (keepFresh seen new).Nodup ∧ (∀ x ∈ keepFresh seen new, x ∈ new ∧ x ∉ seen) ∧
    (keepFresh seen new).length ≤ new.length := by
  induction new with
  | nil => intro seen; simp [keepFresh]
  | cons x xs ih =>
    intro seen
    unfold keepFresh
    by_cases hc : seen.contains x = true
    · rw [if_pos hc]
      obtain ⟨h1, h2, h3⟩ := ih seen
      exact ⟨h1, fun y hy => ⟨by simp [(h2 y hy).1], (h2 y hy).2⟩, by simp; omega⟩
    · rw [if_neg hc]
      obtain ⟨h1, h2, h3⟩ := ih (x :: seen)
      refine ⟨?_, ?_, by simp; omega⟩
      · rw [List.nodup_cons]
        refine ⟨?_, h1⟩
        intro hin
        exact (h2 x hin).2 (by simp)
      · intro y hy
        rcases List.mem_cons.mp hy with rfl | hy'
        · exact ⟨by simp, by simpa using hc⟩
        · obtain ⟨a, b⟩ := h2 y hy'
          exact ⟨by simp [a], fun hs => b (by simp [hs])⟩

theorem keepFresh_ne_nil (x : Nat) (xs : List Nat) : keepFresh [] (x :: xs) ≠ [] := by
  simp [keepFresh]

/-! ### the contract of `choice` without replacement -/

/-- what is known about the positions found so far -/
def Inv (p : List α) (size : Nat) (found : List Nat) : Prop :=
  found.Nodup ∧ (∀ i ∈ found, ∃ v, p[i]? = some v ∧ 0 < v) ∧ found.length ≤ size

/-- one round keeps the invariant and, if it has a draw, finds a new position -/
theorem round_inv (p : List α) (size : Nat) (found : List Nat) (us : List α)
    (hnn : ∀ x ∈ p, 0 ≤ x) (hsize : size ≤ (posIdx p).length) (hu : ∀ u ∈ us, 0 ≤ u ∧ u < 1)
    (hinv : Inv p size found) (hlt : found.length < size) :
    Inv p size (found ++ keepFresh [] ((us.take (size - found.length)).map (choiceIdx (zeroAt found p)))) ∧
    (us ≠ [] → found.length <
      (found ++ keepFresh [] ((us.take (size - found.length)).map (choiceIdx (zeroAt found p)))).length) := by
  obtain ⟨hnd, hpos, -⟩ := hinv
  have htot : 0 < total (zeroAt found p) := zeroAt_total_pos p found hnn (by omega)
  have hz := zeroAt_nonneg found p hnn
  obtain ⟨f1, f2, f3⟩ := keepFresh_spec ((us.take (size - found.length)).map (choiceIdx (zeroAt found p))) []
  have hnew : ∀ k ∈ (us.take (size - found.length)).map (choiceIdx (zeroAt found p)),
      k ∉ found ∧ ∃ v, p[k]? = some v ∧ 0 < v := by
    intro k hk
    obtain ⟨u, hu', rfl⟩ := List.mem_map.mp hk
    obtain ⟨h0, h1⟩ := hu u (List.mem_of_mem_take hu')
    obtain ⟨v, hv, hvpos⟩ := choiceIdx_spec (zeroAt found p) u hz htot h0 h1
    obtain ⟨a, b⟩ := zeroAt_pos found p _ v hv hvpos
    exact ⟨a, v, b, hvpos⟩
  refine ⟨⟨?_, ?_, ?_⟩, ?_⟩
  · rw [List.nodup_append]
    exact ⟨hnd, f1, fun a ha b hb hab => (hnew b (f2 b hb).1).1 (hab ▸ ha)⟩
  · intro i hi
    rcases List.mem_append.mp hi with h | h
    · exact hpos i h
    · exact (hnew i (f2 i h).1).2
  · rw [List.length_append]
    have : ((us.take (size - found.length)).map (choiceIdx (zeroAt found p))).length ≤ size - found.length := by
      simp
    omega
  · intro hne
    rw [List.length_append]
    cases us with
    | nil => exact absurd rfl hne
    | cons u us' =>
      have hpos' : 0 < size - found.length := by omega
      obtain ⟨n, hn⟩ : ∃ n, size - found.length = n + 1 := ⟨size - found.length - 1, by omega⟩
      rw [hn, List.take_succ_cons, List.map_cons]
      have := keepFresh_ne_nil (choiceIdx (zeroAt found p) u) ((us'.take n).map (choiceIdx (zeroAt found p)))
      have : 0 < (keepFresh [] (choiceIdx (zeroAt found p) u :: (us'.take n).map (choiceIdx (zeroAt found p)))).length :=
        List.length_pos_iff.mpr this
      omega

/-- **Soundness**: whatever the uniform draws are, a result of `choice(…, replace=False, p=p)` consists of exactly
`size` pairwise distinct positions of positive weight (and extends what was found before). -/
theorem choiceNR_sound (p : List α) (size : Nat) (hnn : ∀ x ∈ p, 0 ≤ x) (hsize : size ≤ (posIdx p).length)
    (uss : List (List α)) : ∀ found res : List Nat, (∀ us ∈ uss, ∀ u ∈ us, 0 ≤ u ∧ u < 1) →
    Inv p size found → choiceNR p size uss found = some res →
    res.length = size ∧ res.Nodup ∧ (∀ i ∈ res, ∃ v, p[i]? = some v ∧ 0 < v) := by
  induction uss with
  | nil =>
    intro found res _ hinv h
    unfold choiceNR at h
    split at h
    · cases h; exact ⟨by have := hinv.2.2; omega, hinv.1, hinv.2.1⟩
    · cases h
  | cons us rest ih =>
    intro found res hu hinv h
    unfold choiceNR at h
    split at h
    · cases h; exact ⟨by have := hinv.2.2; omega, hinv.1, hinv.2.1⟩
    · rename_i hlt
      obtain ⟨hinv', -⟩ := round_inv p size found us hnn hsize (hu us (by simp)) hinv (by omega)
      exact ih _ res (fun us' hus' => hu us' (by simp [hus'])) hinv' h

/-- **Termination**: with one non-empty round of draws per missing position the loop returns. -/
theorem choiceNR_terminates (p : List α) (size : Nat) (hnn : ∀ x ∈ p, 0 ≤ x) (hsize : size ≤ (posIdx p).length)
    (uss : List (List α)) : ∀ found : List Nat, (∀ us ∈ uss, us ≠ [] ∧ ∀ u ∈ us, 0 ≤ u ∧ u < 1) →
    Inv p size found → size - found.length ≤ uss.length →
    ∃ res, choiceNR p size uss found = some res := by
  induction uss with
  | nil =>
    intro found _ _ hlen
    unfold choiceNR
    simp only [List.length_nil] at hlen
    rw [if_pos (by omega)]
    exact ⟨found, rfl⟩
  | cons us rest ih =>
    intro found hu hinv hlen
    unfold choiceNR
    by_cases hc : size ≤ found.length
    · rw [if_pos hc]; exact ⟨found, rfl⟩
    · rw [if_neg hc]
      obtain ⟨hne, hur⟩ := hu us (by simp)
      obtain ⟨hinv', hgrow⟩ := round_inv p size found us hnn hsize hur hinv (by omega)
      refine ih _ (fun us' hus' => hu us' (by simp [hus'])) hinv' ?_
      have := hgrow hne
      simp only [List.length_cons] at hlen
      omega

/-- from scratch: `size` rounds suffice, and the result is a valid draw without replacement -/
theorem choiceNR_spec (p : List α) (size : Nat) (hnn : ∀ x ∈ p, 0 ≤ x) (hsize : size ≤ (posIdx p).length)
    (uss : List (List α)) (hu : ∀ us ∈ uss, us ≠ [] ∧ ∀ u ∈ us, 0 ≤ u ∧ u < 1) (hlen : size ≤ uss.length) :
    ∃ res, choiceNR p size uss [] = some res ∧ res.length = size ∧ res.Nodup ∧
      ∀ i ∈ res, ∃ v, p[i]? = some v ∧ 0 < v := by
  have hinv : Inv p size [] := by
    refine ⟨List.nodup_nil, ?_, Nat.zero_le _⟩
    intro i hi; cases hi
  obtain ⟨res, hres⟩ := choiceNR_terminates p size hnn hsize uss [] hu hinv (by simpa using hlen)
  exact ⟨res, hres, choiceNR_sound p size hnn hsize uss [] res (fun us hus => (hu us hus).2) hinv hres⟩

/-! ### `simple_batch(method="proportional")` end to end -/

omit [LinearOrder α] [IsStrictOrderedRing α] in
theorem propWeights_getElem? (u : List (Option α)) (s : α) (k : Nat) :
    (propWeights u s)[k]? = (u[k]?).map (propW s) := by
  unfold propWeights
  rw [List.getElem?_map]

/-- the sign analysis `posW` of the selection model is exactly "positive normalised weight" -/
theorem propWeight_pos_iff (s v : α) (hs : s ≠ 0) : 0 < v / s ↔ posW s (some v) = true := by
  unfold posW
  simp only [Bool.or_eq_true, Bool.and_eq_true, decide_eq_true_eq]
  rcases lt_or_gt_of_ne hs with h | h
  · rw [div_pos_iff]
    constructor
    · rintro (⟨a, b⟩ | ⟨a, b⟩)
      · exact absurd b (not_lt.mpr (le_of_lt h))
      · exact Or.inr ⟨h, a⟩
    · rintro (⟨a, b⟩ | ⟨a, b⟩)
      · exact absurd a (not_lt.mpr (le_of_lt h))
      · exact Or.inr ⟨b, h⟩
  · rw [div_pos_iff]
    constructor
    · rintro (⟨a, b⟩ | ⟨a, b⟩)
      · exact Or.inl ⟨h, a⟩
      · exact absurd b (not_lt.mpr (le_of_lt h))
    · rintro (⟨a, b⟩ | ⟨a, b⟩)
      · exact Or.inl ⟨b, h⟩
      · exact absurd a (not_lt.mpr (le_of_lt h))

/-- without an entry of the opposite sign all normalised weights are non-negative -/
theorem propWeights_nonneg (u : List (Option α)) (s : α) (hs : s ≠ 0) (hneg : u.any (negW s) = false) :
    ∀ x ∈ propWeights u s, 0 ≤ x := by
  intro x hx
  unfold propWeights at hx
  obtain ⟨o, ho, rfl⟩ := List.mem_map.mp hx
  cases o with
  | none => exact le_refl 0
  | some v =>
    show 0 ≤ v / s
    have hn : negW s (some v) = false := by
      have := List.any_eq_false.mp hneg (some v) ho
      simpa using this
    unfold negW at hn
    simp only [Bool.or_eq_false_iff, Bool.and_eq_false_iff, decide_eq_false_iff_not, not_lt] at hn
    rcases lt_or_gt_of_ne hs with h | h
    · have hv : v ≤ 0 := by
        rcases hn.2 with a | a
        · exact absurd h (not_lt.mpr a)
        · exact a
      exact div_nonneg_of_nonpos hv (le_of_lt h)
    · have hv : 0 ≤ v := by
        rcases hn.1 with a | a
        · exact absurd h (not_lt.mpr a)
        · exact a
      exact div_nonneg hv (le_of_lt h)

omit [IsStrictOrderedRing α] in
/-- counting positions of a list by a predicate on the entries = counting the entries -/
theorem range_filter_length {γ : Type} (l : List γ) (P : γ → Bool) :
    ((List.range l.length).filter (fun i => match l[i]? with | some x => P x | none => false)).length
      = (l.filter P).length := by
  induction l with
  | nil => simp
  | cons x xs ih =>
    rw [List.length_cons, List.range_succ_eq_map, List.filter_cons, List.filter_map]
    simp only [List.getElem?_cons_zero, List.filter_cons]
    have : ((fun i => match (x :: xs)[i]? with | some x => P x | none => false) ∘ Nat.succ)
        = (fun i => match xs[i]? with | some x => P x | none => false) := by
      funext i; simp
    rw [this]
    by_cases h : P x = true
    · simp [h, ih]
    · simp [h, ih]

theorem posIdx_propWeights_length (u : List (Option α)) (s : α) (hs : s ≠ 0) :
    (posIdx (propWeights u s)).length = (u.filter (posW s)).length := by
  rw [← range_filter_length u (posW s)]
  unfold posIdx
  have hl : (propWeights u s).length = u.length := by simp [propWeights]
  rw [hl]
  congr 1
  apply List.filter_congr
  intro i _
  rw [propWeights_getElem?]
  cases hu : u[i]? with
  | none => rfl
  | some o =>
    cases o with
    | none => simp [posW, propW]
    | some v =>
      simp only [Option.map_some, propW]
      rw [Bool.eq_iff_iff, decide_eq_true_iff]
      exact propWeight_pos_iff s v hs

/-- **`simple_batch(method="proportional")` never fails for want of an oracle**: on every input numpy accepts (no
infinity, batch size ≥ 1, non-zero total, no weight of the opposite sign, enough positive weights), for all uniform
draws in `[0, 1)` and `size` non-empty rounds, the call returns, and what it returns satisfies the specification
`simpleBatch_prop_spec` (right size, distinct, positive mass, NaN at earlier picks). -/
theorem simpleBatchProp_ok (isInf : α → Bool) (u : List (Option α)) (b : Nat) (uss : List (List α))
    (hinf : hasInf isInf u = false) (hb : 1 ≤ b) (hs : nansum u ≠ 0) (hneg : u.any (negW (nansum u)) = false)
    (hpos : min b (countSome u) ≤ (u.filter (posW (nansum u))).length)
    (hu : ∀ us ∈ uss, us ≠ [] ∧ ∀ x ∈ us, 0 ≤ x ∧ x < 1) (hlen : min b (countSome u) ≤ uss.length) :
    ∃ rs c, simpleBatchProp isInf u b uss = .ok rs ∧
      choiceNR (propWeights u (nansum u)) (min b (countSome u)) uss [] = some c ∧
      rs.map Prod.fst = c ∧ rs.length = min b (countSome u) ∧ c.Nodup := by
  have hnn := propWeights_nonneg u (nansum u) hs hneg
  have hsize : min b (countSome u) ≤ (posIdx (propWeights u (nansum u))).length := by
    rw [posIdx_propWeights_length u (nansum u) hs]; exact hpos
  obtain ⟨c, hc, hclen, hcnd, hcpos⟩ := choiceNR_spec (propWeights u (nansum u)) (min b (countSome u)) hnn hsize uss hu hlen
  have hall : c.all (fun i => posW (nansum u) (u.getD i none)) = true := by
    rw [List.all_eq_true]
    intro i hi
    obtain ⟨v, hv, hvpos⟩ := hcpos i hi
    rw [propWeights_getElem?] at hv
    cases hui : u[i]? with
    | none => rw [hui] at hv; cases hv
    | some o =>
      rw [hui] at hv
      rw [List.getD_eq_getElem?_getD, hui]
      cases o with
      | none =>
        simp only [Option.map_some, Option.some.injEq, propW] at hv
        rw [← hv] at hvpos; exact absurd hvpos (lt_irrefl 0)
      | some w =>
        simp only [Option.map_some, Option.some.injEq, propW] at hv
        rw [← hv] at hvpos
        simpa using (propWeight_pos_iff (nansum u) w hs).mp hvpos
  have hok : ∃ rs, simpleBatch (β := α) isInf u b .proportional [] c = .ok rs := by
    unfold simpleBatch
    rw [if_neg (by simp [hinf]), if_neg (by omega)]
    simp only
    have h1 : ¬ ((!decide ((0 : α) < nansum u) && !decide (nansum u < (0 : α))) = true) := by
      rcases lt_or_gt_of_ne hs with h | h <;> simp [h]
    rw [if_neg h1, if_neg (by simp [hneg]), if_neg (by omega)]
    rw [if_pos (by
      rw [Bool.and_eq_true, Bool.and_eq_true]
      exact ⟨⟨by simpa using hclen, (C18.nodupB_iff c).mpr hcnd⟩, hall⟩)]
    exact ⟨_, rfl⟩
  obtain ⟨rs, hrs⟩ := hok
  obtain ⟨s1, s2, s3, -, -⟩ := C18.simpleBatch_prop_spec isInf u b [] c rs hrs
  refine ⟨rs, c, ?_, hc, s1, s2, s3⟩
  unfold simpleBatchProp
  rw [hc]; exact hrs

/-! ### non-vacuity: a collision in the first round is resolved in the second -/

example : choiceNR (α := Rat) [1/4, 0, 1/2, 1/4] 2 [[3/10, 3/8], [9/10]] [] = some [2, 3] := by decide +kernel
example : posIdx (α := Rat) [1/4, 0, 1/2, 1/4] = [0, 2, 3] := by decide +kernel

end Ska.C18choice
