import SkaModel.Props.C05

/-!
# C13 — `fit` is history-free and never rewrites constructor parameters

Theorems over the effect semantics of `SkaModel/Core/Effects.lean` (frame part shared with C05).
The per-class instances — `FrameOK summary_<Class>_<method> = true` for every public method of every
classifier, regressor, budget manager and stream strategy, and `HistoryFree summary_<Class>_fit =
true` — are regenerated from the current source into `SkaModel/Gen/EffectsC13.lean` on every run.
The sliding-window clause of the property is in `Props/C13w.lean` (separate model).

Honest limits: the theorems are about summaries (translator validated dynamically by
`harness/props/c13.py`: refit-vs-fresh-clone on different data, `get_params` and caller-owned dicts
before/after every public call in random call sequences).  History-freeness is stated for what `fit`
reads and writes: an attribute that an earlier `fit` set and this `fit` neither writes nor reads
stays on the object; whether `predict` looks at it is covered by the dynamic refit-vs-fresh oracle.
-/

namespace Ska.C13
open Ska.Effects

/-- helper: `HistoryFree` contains the read-before-write check -/
theorem historyFree_check {S : Summary} (hh : HistoryFree S = true) :
    (histCheck S.params S.body 0).1 = true := by
  unfold HistoryFree at hh
  cases h : histCheck S.params S.body 0 with
  | mk ok r =>
    rw [h] at hh
    cases r with
    | none => exact hh
    | some W => simp only [Bool.and_eq_true] at hh; exact hh.1

/-- every attribute `fit` may write is among the certainly written ones -/
theorem historyFree_complete {S : Summary} (hh : HistoryFree S = true) (W : Nat)
    (hW : (histCheck S.params S.body 0).2 = some W) (a : Nat)
    (ha : (mayWrite S.body).testBit a = true) : W.testBit a = true := by
  unfold HistoryFree at hh
  cases h : histCheck S.params S.body 0 with
  | mk ok r =>
    rw [h] at hh hW
    simp only at hW
    subst hW
    simp only [Bool.and_eq_true, beq_iff_eq] at hh
    have := congrArg (fun n => n.testBit a) hh.2
    simp only [Nat.testBit_and, ha, Bool.true_and] at this
    exact this

/-- **`fit` is history free.**  If the summary of `fit` never looks at a non-parameter attribute of
`self` before having written it in the same call (`HistoryFree`), then for *any* two objects that
agree on the constructor parameters — in particular an object with an arbitrary history of earlier
`fit` / `predict` / `query` calls and a fresh clone — and the same arguments (`F`): both calls read
exactly the same values, take the same branches, compute the same values (hence return the same
thing or raise the same exception) and leave the same value in every attribute `fit` may write
(every such attribute is certainly written, so nothing of an earlier fit survives in them):
`fit (anyHistory o) d = fit (fresh o) d`. -/
theorem fit_history_free (S : Summary) (hh : HistoryFree S = true) (F : HOra) (o o' : Nat → Val)
    (hparams : ∀ a, S.params.contains a = true → o a = o' a) :
    (hRun F S.body ⟨o, [], 0, false⟩).log = (hRun F S.body ⟨o', [], 0, false⟩).log ∧
    (hRun F S.body ⟨o, [], 0, false⟩).dead = (hRun F S.body ⟨o', [], 0, false⟩).dead ∧
    ((hRun F S.body ⟨o, [], 0, false⟩).dead = false →
      ∀ a, (S.params.contains a || (mayWrite S.body).testBit a) = true →
        (hRun F S.body ⟨o, [], 0, false⟩).obj a = (hRun F S.body ⟨o', [], 0, false⟩).obj a) := by
  have h0 : HAgree S.params 0 ⟨o, [], 0, false⟩ ⟨o', [], 0, false⟩ := by
    refine ⟨fun a ha => hparams a ?_, rfl, rfl⟩
    simpa using ha
  have := hist_sound F S.params S.body 0 _ _ h0 rfl rfl (historyFree_check hh)
  refine ⟨this.1, this.2.2.1, fun hlive a ha => ?_⟩
  obtain ⟨W', hW', hag⟩ := this.2.2.2 hlive
  apply hag.1 a
  simp only [Bool.or_eq_true] at ha ⊢
  rcases ha with ha | ha
  · exact Or.inl ha
  · exact Or.inr (historyFree_complete hh W' hW' a ha)

/-- **Prediction leaves the object alone.**  A method whose summary is a pure reader (obligations
`pure_<Class>_<method>` regenerated for every `predict*` / `sample*` method) leaves every attribute of `self` as it
found it, on every path, for all arguments and oracles: nothing resolved during a prediction can leak into a later
`fit` or prediction. -/
theorem pureReader_preserves_object (F : HOra) (p : Prog) (h : pureReader p = true) :
    ∀ s : HSt, (hRun F p s).obj = s.obj := by
  induction p with
  | skip => intro s; rfl
  | abort => intro s; rfl
  | seq e rest ih =>
    intro s
    cases e with
    | writeAttr a r => simp [pureReader] at h
    | mutate q st =>
      simp only [pureReader, Bool.and_eq_true] at h
      simp only [hRun]; rw [ih h.2]; rfl
    | callFit q =>
      simp only [pureReader, Bool.and_eq_true] at h
      simp only [hRun]; rw [ih h.2]; rfl
    | bind x r => simp only [pureReader] at h; simp only [hRun]; rw [ih h]; rfl
    | callInner q => simp only [pureReader] at h; simp only [hRun]; rw [ih h]; rfl
    | readAttr a => simp only [pureReader] at h; simp only [hRun]; rw [ih h]; rfl
  | ite t e rest iht ihe ihr =>
    intro s
    simp only [pureReader, Bool.and_eq_true] at h
    obtain ⟨⟨ht, he⟩, hr⟩ := h
    simp only [hRun]
    by_cases hc : F.cond s.clk s.log = true
    · simp only [hc, if_true]
      split
      · rw [iht ht]
      · rw [ihr hr, iht ht]
    · have hc' : F.cond s.clk s.log = false := by simpa using hc
      simp only [hc', Bool.false_eq_true, if_false]
      split
      · rw [ihe he]
      · rw [ihr hr, ihe he]

/-- **C13, combined statement** (`frame_fit_history_free` of DESIGN §4): a `fit` whose summary
neither reads a fitted attribute before writing it nor writes / mutates a parameter (i) computes
the same model from any history as from a fresh clone and (ii) leaves `get_params` — including the
contents of every object a parameter refers to — unchanged, for all heaps, arguments and oracles. -/
theorem frame_fit_history_free (S : Summary) (hh : HistoryFree S = true) (hok : FrameOK S = true) :
    (∀ (F : HOra) (o o' : Nat → Val), (∀ a, S.params.contains a = true → o a = o' a) →
      (hRun F S.body ⟨o, [], 0, false⟩).log = (hRun F S.body ⟨o', [], 0, false⟩).log ∧
      (hRun F S.body ⟨o, [], 0, false⟩).dead = (hRun F S.body ⟨o', [], 0, false⟩).dead ∧
      ((hRun F S.body ⟨o, [], 0, false⟩).dead = false →
        ∀ a, (S.params.contains a || (mayWrite S.body).testBit a) = true →
          (hRun F S.body ⟨o, [], 0, false⟩).obj a = (hRun F S.body ⟨o', [], 0, false⟩).obj a)) ∧
    (∀ (C : Ctx), C.WF → C.ps = S.params → ∀ (inner : Nat → Heap → Heap), InnerOK C inner →
      ∀ (ω : Ora) (s : St), s.dead = false → ∀ (D₀ : Nat → Prop), C05.OwnInv S C s.h D₀ →
        getParams (run C.self inner ω S.body s).h C.self S.params = getParams s.h C.self S.params ∧
        (∀ r, r < C.n₀ → r ≠ C.self → ¬ C.O r → (∀ k, ¬ C.W r k) →
          (run C.self inner ω S.body s).h.cell r = s.h.cell r)) :=
  ⟨fun F o o' hp => fit_history_free S hh F o o' hp,
   fun C hC hps inner hin ω s hlive D₀ hent =>
     let h := C05.frameOK_preserves_params S hok C hC hps inner hin ω s hlive D₀ hent
     ⟨h.1, h.2.1⟩⟩

/-- **No public method changes what `get_params` reports**: any sequence of public calls
(`fit` / `partial_fit` / `predict*` / `query` / `update` …) whose summaries are all `FrameOK`
leaves the parameters of the object and every caller-owned object (e.g. a `metric_dict` passed to
the constructor) unchanged. -/
theorem public_calls_preserve_params (ps cl sf : List Nat) (inner : Nat → Heap → Heap) (C : Ctx)
    (hC : C.WF) (hps : C.ps = ps) (hin : InnerOK C inner) (calls : List C05.Call)
    (hok : ∀ c ∈ calls, FrameOK ⟨ps, cl, sf, c.body⟩ = true) (h : Heap) (D₀ : Nat → Prop)
    (hent : C05.OwnInv ⟨ps, cl, sf, Prog.skip⟩ C h D₀) :
    getParams (C05.runCalls C.self inner calls h) C.self ps = getParams h C.self ps ∧
    (∀ r, r < C.n₀ → r ≠ C.self → ¬ C.O r → (∀ k, ¬ C.W r k) →
      (C05.runCalls C.self inner calls h).cell r = h.cell r) := by
  have hfr := C05.frameOK_sequence ps cl sf inner C hC hps hin calls hok h D₀ hent
  have := C05.frameRel_caller_view hC hfr
  rw [hps] at this
  exact ⟨this.1, this.2.1⟩

/-! ## Instances and counter-examples -/

/-- `self.X_ = X[is_lbld]; self.metric_dict_ = dict(self.metric_dict); self.metric_dict_["gamma"] = g`
(attributes: 0 = parameter `metric_dict`, 1 = `X_`, 2 = `metric_dict_`) — the repaired
`ParzenWindowClassifier.fit` pattern. -/
def sampleFit : Summary :=
  { params := [0], closedAttrs := [], safeAttrs := [2],
    body := .seq (.writeAttr 1 (.fresh [])) (.seq (.writeAttr 2 (.copy (.attr 0)))
      (.seq (.mutate (.attr 2) []) .skip)) }

example : FrameOK sampleFit = true := by decide
example : HistoryFree sampleFit = true := by decide

/-- `self.metric_dict = {} if self.metric_dict is None else self.metric_dict`
(`NICKernelRegressor.fit` as it is). -/
def nicFit : Summary :=
  { params := [0], closedAttrs := [], safeAttrs := [],
    body := .seq (.writeAttr 1 (.fresh [])) (.ite (.seq (.writeAttr 0 (.fresh [])) .skip)
      (.seq (.writeAttr 0 (.alias (.attr 0))) .skip) .skip) }

theorem nic_param_write_counterexample :
    FrameOK nicFit = false ∧
    getParams (run 0 (fun _ h => h) C05.ω₁ nicFit.body C05.s₀).h 0 nicFit.params
      ≠ getParams C05.s₀.h 0 nicFit.params := by decide

/-- A `fit` that reuses a cached attribute of an earlier fit:
`if not hasattr(self, "cache_"): self.cache_ = f(X); self.model_ = g(self.cache_)`. -/
def cachedFit : Summary :=
  { params := [0], closedAttrs := [], safeAttrs := [],
    body := .seq (.readAttr 1) (.ite (.seq (.writeAttr 1 (.fresh [])) .skip) .skip
      (.seq (.readAttr 1) (.seq (.writeAttr 2 (.fresh [])) .skip))) }

def Fc : HOra :=
  { val := fun _ log => match log with | v :: _ => v | [] => .atom 0
    cond := fun _ log => match log with | .atom 0 :: _ => true | _ => false }

/-- … is not history free, and in the semantics an object with a history (`cache_` = 9) ends with a
different model than a fresh one (`cache_` unset = 0). -/
theorem cached_fit_counterexample :
    HistoryFree cachedFit = false ∧
    (hRun Fc cachedFit.body ⟨fun k => if k = 1 then .atom 9 else .atom 0, [], 0, false⟩).obj 2
      ≠ (hRun Fc cachedFit.body ⟨fun _ => .atom 0, [], 0, false⟩).obj 2 := by decide

namespace Regressions

/-- `ParzenWindowClassifier.fit` before commit 047f603c: `metric_dict_` aliased the parameter and
the resolved `gamma` was written through the alias. -/
def pwcFitOld : Summary :=
  { params := [0], closedAttrs := [], safeAttrs := [],
    body := .seq (.writeAttr 2 (.alias (.attr 0))) (.seq (.mutate (.attr 2) []) .skip) }

/-- cell 0 = the classifier, its parameter 0 refers to cell 1 = the caller's dict -/
def sPwc : St := ⟨⟨fun r _ => if r = 0 then .ref 1 else .atom 7, 2⟩, fun _ => .atom 0, 0, false⟩

theorem pwc_gamma_mean_counterexample :
    FrameOK pwcFitOld = false ∧
    (run 0 (fun _ h => h) C05.ω₁ pwcFitOld.body sPwc).h.cell 1 0 ≠ sPwc.h.cell 1 0 := by decide

end Regressions

end Ska.C13
