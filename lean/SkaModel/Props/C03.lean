import SkaModel.Lemmas.Budget
import Mathlib.Algebra.Field.Rat
import Mathlib.Algebra.Order.Ring.Rat
import Mathlib.Tactic.NormNum

/-!
# C03 — stream query is a pure simulation: it never changes strategy state

Property theorems only. The models (`SkaModel/Core/Budget.lean`, `Core/Stream.lean`) return from every
`query` the state of the object *after* the call, built the way the code builds it: the loop runs on
temporaries and on the live generator, then the generator is restored. "Query is pure" is therefore a
statement about these definitions (dropping the restore line makes it false: `unrestored_query_not_pure`).

The purity statements hold over **every numeric carrier** with the operations the models use (no
axioms on them are needed: in particular they hold at `Float`), for all states, all utility streams
incl. NaN, all parameters and all random streams.
-/

set_option linter.unusedSectionVars false

namespace Ska.C03
open Ska Ska.Budget

section Pure
variable {α : Type} [Add α] [Sub α] [Mul α] [Div α] [LT α] [DecidableLT α] [OfNat α 0] [OfNat α 1]

/-- FixedUncertaintyBudgetManager.query_by_utility leaves `u_t_` (and everything else) unchanged. -/
theorem fixed_query_pure (p : ZParams α) : PureQ (fixedMgr p) :=
  fun s xs => by simp only [fixedMgr, fixedQuery, zQuery_eq]

/-- VariableUncertaintyBudgetManager: `u_t_`, `theta_` unchanged (the loop adapts `tmp_theta` only). -/
theorem variable_query_pure (p : ZParams α) : PureQ (varMgr p) :=
  fun s xs => by simp only [varMgr, varQuery, zQuery_eq]

/-- RandomVariableUncertaintyBudgetManager: `u_t_`, `theta_` **and the generator** unchanged, although
the loop draws one normal number per instance that still has budget. -/
theorem randVar_query_pure (p : ZParams α) (nrm : Nat → α) : PureQ (randVarMgr p nrm) :=
  fun s xs => by simp only [randVarMgr, randVarQuery, zQuery_eq]

/-- SplitBudgetManager: unchanged although one or two uniform numbers are drawn per instance. -/
theorem split_query_pure (p : ZParams α) (uni : Nat → α) : PureQ (splitMgr p uni) :=
  fun s xs => by simp only [splitMgr, splitQuery, zQuery_eq]

/-- RandomBudgetManager: unchanged although `random_sample(n)` is drawn. -/
theorem random_query_pure (p : ZParams α) (uni : Nat → α) : PureQ (randomMgr p uni) :=
  fun s xs => by simp only [randomMgr, randomQuery, zQuery_eq]

variable [NatCast α]

/-- DensityBasedSplitBudgetManager: `u_`, `t_`, `theta_` and the generator unchanged. -/
theorem dbSplit_query_pure (p : DParams α) (nrm : Nat → α) : PureQ (dbMgr p nrm) := by
  intro s xs; cases s; rfl

/-- BalancedIncrementalQuantileFilter: counters and the history deque unchanged (the loop appends to a copy). -/
theorem biqf_query_pure (p : QParams α) (qf : List (Option α) → Option α) : PureQ (biqfMgr p qf) :=
  fun _ _ => rfl

/-- StreamRandomSampling.query: counters and the generator unchanged (utilities are drawn, then the
generator state is put back). -/
theorem streamRandom_query_pure (allow : Bool) (b : α) (uni : Nat → α) : PureQ (srsMgr allow b uni) := by
  intro s xs; cases s; rfl

/-- PeriodicSampling.query: counters unchanged. -/
theorem periodic_query_pure (b : α) : PureQ (perMgr b) := fun _ _ => rfl

end Pure

section Glue
variable {σ ι κ : Type}

/-- UncertaintyZliobaite (Fixed/Variable/RandomVariable/Split) and StreamProbabilisticAL:
`query` is `budget_manager_.query_by_utility(utilities)`; pure whenever the manager is. -/
theorem utilStrategy_query_pure (util : κ → ι) (M : Mgr σ ι) (h : PureQ M) : PureQ (utilStrategy util M) :=
  fun s c => h s (c.map util)

/-- The manager-facing part of StreamDensityBasedAL / CognitiveDualQueryStrategy.query (one-element
`query_by_utility` calls, results of failing instances discarded): the manager state is unchanged.
(The window bookkeeping of these two strategies is checked on the implementation only.) -/
theorem densityStrategy_query_pure (keepAll : Bool) (M : Mgr σ (Option ι)) : PureQ (densityStrategy keepAll M) :=
  fun _ _ => rfl

/-- the same for `CognitiveDualQueryStrategy` (it shares `query` with the density strategy model) -/
theorem cognitiveStrategy_query_pure (ffb : Bool) (M : Mgr σ (Option ι)) : PureQ (cognitiveStrategy ffb M) :=
  fun _ _ => rfl

/-- **Repeated calls with the same arguments return the same indices.** -/
theorem repeated_query_same (M : Mgr σ ι) (h : PureQ M) (s : σ) (xs : List ι) :
    (M.query (M.query s xs).2 xs).1 = (M.query s xs).1 := by
  rw [h s xs]

/-- **extra_queries_irrelevant**: take any history of `query` / `update` calls in which some calls are
marked as extra, all of them queries. Then the results of the unmarked calls (queried indices, update
success/failure) are exactly the results of the history without the extra calls, and the final state is
the same: state advances only through `update`. -/
theorem extra_queries_irrelevant (M : Mgr σ ι) (h : PureQ M) (ops : List (Bool × Op ι))
    (hq : ∀ o ∈ ops, o.1 = true → isQueryOp o.2 = true) (s : σ) :
    ((runMarked M s ops).1.filter notExtra).map (·.2) = (runOps M s ((ops.filter notExtra).map (·.2))).1 ∧
    (runMarked M s ops).2 = (runOps M s ((ops.filter notExtra).map (·.2))).2 :=
  runMarked_extra h ops hq s

end Glue

/-- every budget manager and both baselines satisfy the hypothesis of `extra_queries_irrelevant` -/
theorem all_managers_pure {α : Type} [Add α] [Sub α] [Mul α] [Div α] [LT α] [DecidableLT α] [OfNat α 0]
    [OfNat α 1] [NatCast α] (p : ZParams α) (d : DParams α) (q : QParams α) (uni nrm : Nat → α)
    (qf : List (Option α) → Option α) (allow : Bool) :
    PureQ (fixedMgr p) ∧ PureQ (varMgr p) ∧ PureQ (randVarMgr p nrm) ∧ PureQ (splitMgr p uni) ∧
    PureQ (randomMgr p uni) ∧ PureQ (dbMgr d nrm) ∧ PureQ (biqfMgr q qf) ∧ PureQ (srsMgr allow d.b uni) ∧
    PureQ (perMgr d.b) :=
  ⟨fixed_query_pure p, variable_query_pure p, randVar_query_pure p nrm, split_query_pure p uni,
   random_query_pure p uni, dbSplit_query_pure d nrm, biqf_query_pure q qf,
   streamRandom_query_pure allow d.b uni, periodic_query_pure d.b⟩

/-- The purity statements are about the restore step: the object as it is *before*
`random_state_.set_state(prior)` differs from the original as soon as one draw was made
(here: RandomBudgetManager over ℚ, one instance). -/
theorem unrestored_query_not_pure :
    let p : ZParams ℚ := { w := 4, b := 1/4, s := 0, v := 0, nc := 2 }
    let s : ZState ℚ := { u := 0, theta := 0, rng := 0 }
    ({ s with rng := (simLoop (randomBody p (fun _ => 0)) s [some 1]).2.rng } : ZState ℚ) ≠ s := by
  simp [simLoop, randomBody]

/-- a concrete non-trivial history with two extra queries (the hypotheses of
`extra_queries_irrelevant` are satisfiable) -/
example :
    let M := splitMgr (α := ℚ) { w := 4, b := 1/4, s := 1/100, v := 1/10, nc := 0 } (fun i => if i % 2 = 0 then 1/2 else 0)
    let ops : List (Bool × Op (Option ℚ)) :=
      [(true, .query [some 1]), (false, .query [some 1, none]), (true, .query [none]), (false, .update [some 1, none] [0])]
    ∀ o ∈ ops, o.1 = true → isQueryOp o.2 = true := by
  intro _M ops o ho h
  simp only [ops, List.mem_cons, List.not_mem_nil, or_false] at ho
  rcases ho with rfl | rfl | rfl | rfl <;> simp_all [isQueryOp]

end Ska.C03
