import SkaModel.Lemmas.AnnotGen
import SkaModel.Props.C07

/-! # Property theorems about the model translated from the current source of `_n_to_assign_annotators`

`Gen/AnnotGen.lean` is rewritten by `harness/translate/pyannot.py` from `skactiveml/pool/multiannotator/_wrapper.py` on every
run.  The theorems below are about *that* text (C07: the multi-annotator query terminates and a requested number of annotators
per sample is respected whenever enough annotators are available). -/

namespace Ska.AnnotGenProps
open Ska Ska.MultiAnnot Ska.Gen.Annot

/-- `np.sum(A, axis=1)[s_indices]` -/
def nmaxOf (A : List (List Bool)) (s : List Nat) : List Nat := s.map (fun i => countRow (A.getD i []))

/-- the translated function computes the hand-written `nToAssign` (on which `Props/C07.lean` is built), for all inputs -/
theorem gen_n_to_assign_eq (fuel b : Nat) (A : List (List Bool)) (s pref : List Nat) :
    _n_to_assign_annotators fuel b A s pref = nToAssign fuel b (nmaxOf A s) pref :=
  n_to_assign_eq fuel b A s pref

/-- **the translated `while` loop terminates**, for every batch size, availability matrix, chosen samples and preference
vector: after at most `Σ nmax` passes it has returned.  The result is never above the number of available annotators of a
sample, never below the initial request `min(nmax, pref)`, equal to it when that already fills the batch, and it either fills
the batch or is saturated. -/
theorem gen_n_to_assign_terminates (fuel b : Nat) (A : List (List Bool)) (s pref : List Nat)
    (hlen : s.length = pref.length) (hf : (nmaxOf A s).sum ≤ fuel) :
    ∃ r, _n_to_assign_annotators fuel b A s pref = some r ∧ (b ≤ r.sum ∨ r = nmaxOf A s) ∧ LeL r (nmaxOf A s) ∧
      LeL (assignInit (nmaxOf A s) pref) r ∧
      (b ≤ (assignInit (nmaxOf A s) pref).sum → r = assignInit (nmaxOf A s) pref) := by
  rw [gen_n_to_assign_eq]
  exact Ska.C07.nToAssign_terminates fuel b (nmaxOf A s) pref (by simp [nmaxOf, hlen]) hf

/-- if the chosen samples together have at least `batch_size` available annotators, the translated function fills the batch -/
theorem gen_n_to_assign_fills (fuel b : Nat) (A : List (List Bool)) (s pref : List Nat)
    (hlen : s.length = pref.length) (hb : b ≤ (nmaxOf A s).sum) (hf : (nmaxOf A s).sum ≤ fuel) :
    ∃ r, _n_to_assign_annotators fuel b A s pref = some r ∧ b ≤ r.sum := by
  rw [gen_n_to_assign_eq]
  exact Ska.C07.nToAssign_fills fuel b (nmaxOf A s) pref (by simp [nmaxOf, hlen]) hb hf

/-- otherwise every chosen sample gets all its available annotators -/
theorem gen_n_to_assign_saturated (fuel b : Nat) (A : List (List Bool)) (s pref : List Nat)
    (hlen : s.length = pref.length) (hb : (nmaxOf A s).sum < b) (hf : (nmaxOf A s).sum ≤ fuel) :
    _n_to_assign_annotators fuel b A s pref = some (nmaxOf A s) := by
  rw [gen_n_to_assign_eq]
  exact Ska.C07.nToAssign_saturated fuel b (nmaxOf A s) pref (by simp [nmaxOf, hlen]) hb hf

/-- the result does not depend on the fuel once it suffices (the `while` loop has one behaviour) -/
theorem gen_n_to_assign_fuel_irrelevant (f1 f2 b : Nat) (A : List (List Bool)) (s pref : List Nat)
    (hlen : s.length = pref.length) (h1 : (nmaxOf A s).sum ≤ f1) (h2 : (nmaxOf A s).sum ≤ f2) :
    _n_to_assign_annotators f1 b A s pref = _n_to_assign_annotators f2 b A s pref := by
  obtain ⟨r1, e1, -⟩ := gen_n_to_assign_terminates f1 b A s pref hlen h1
  obtain ⟨r2, e2, -⟩ := gen_n_to_assign_terminates f2 b A s pref hlen h2
  rw [e1, e2]
  rw [gen_n_to_assign_eq] at e1 e2
  unfold nToAssign at e1 e2
  rcases Nat.le_total f1 f2 with h | h
  · have := assignIter_mono f1 f2 b _ _ r1 e1 h
    rw [this] at e2; exact e2
  · have := assignIter_mono f2 f1 b _ _ r2 e2 h
    rw [this] at e1; exact e1.symm

/-- non-vacuity: two chosen samples with 2 and 1 available annotators, one preferred, batch of 3: the loop runs once -/
example : _n_to_assign_annotators 3 3 [[true, true], [false, true], [false, false]] [0, 1] [1, 1] = some [2, 1] := by decide
/-- the all-False row that made the loop diverge before repair 6c5fda89 -/
example : _n_to_assign_annotators 0 1 [[false, false]] [0] [1] = some [0] := by decide

end Ska.AnnotGenProps
