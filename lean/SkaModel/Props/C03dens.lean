import SkaModel.Core.Density

/-!
# C03 / C10 — the density window of `StreamDensityBasedAL`

Model: `SkaModel/Core/Density.lean` (`window_`, `min_dist_`, `_calculate_ldf`, the loops of `query` and `update`), tied to
the implementation by the bit-exact correspondence of check C03 (window contents, minimal distances and the density-filter
outcome of every instance after every call).  Statements hold for every distance function, every window size, every
history; no arithmetic is needed.
-/

set_option linter.unusedSectionVars false

namespace Ska.C03dens
open Ska Ska.Budget Ska.Density

variable {α : Type} [LT α] [DecidableLT α] {χ : Type}

/-- **C03**: `query` leaves `window_` and `min_dist_` exactly as they were, although the loop appends every candidate to
the live window and rewrites the live minimal distances (the model runs the loop on the live object and then puts the
saved deques back, as the code does). -/
theorem density_query_restores (w : Nat) (inf : α) (dist : χ → χ → α) (s : DW α χ) (xs : List χ) :
    (query w inf dist s xs).2 = s := by
  cases s; rfl

/-- **C03**: repeated queries with the same candidates see the same windows, hence report the same filter outcomes. -/
theorem density_query_repeat (w : Nat) (inf : α) (dist : χ → χ → α) (s : DW α χ) (xs : List χ) :
    (query w inf dist (query w inf dist s xs).2 xs).1 = (query w inf dist s xs).1 := by
  rw [density_query_restores]

/-- **C10** (window part): the density-filter outcomes `update` commits are the ones `query` simulated. -/
theorem density_update_commits_query (w : Nat) (inf : α) (dist : χ → χ → α) (s : DW α χ) (xs : List χ) :
    (update w inf dist s xs).1 = (query w inf dist s xs).1 := rfl

theorem pushMax_length {β : Type} (w : Nat) (l : List β) (x : β) :
    (pushMax w l x).length = min (l.length + 1) w := by
  simp only [pushMax, List.length_drop, List.length_append, List.length_singleton]
  omega

theorem lowerTo_length (ms ds : List α) : (lowerTo ms ds).length = ms.length := by
  induction ms generalizing ds with
  | nil => rfl
  | cons m ms ih => cases ds <;> simp [lowerTo, ih]

/-- the two deques are aligned (one minimal distance per window member) and within capacity -/
def Aligned (w : Nat) (s : DW α χ) : Prop := s.md.length = s.win.length ∧ s.win.length ≤ w

/-- **window invariant**: every instance processed by `query` / `update` keeps `min_dist_` aligned with `window_`
(so `distances < np.array(min_dist_)` compares arrays of equal length and never raises) and within `window_size`. -/
theorem step_aligned (w : Nat) (inf : α) (dist : χ → χ → α) (s : DW α χ) (x : χ) (h : Aligned w s) :
    Aligned w (step w inf dist s x).2 := by
  obtain ⟨h1, h2⟩ := h
  unfold step calcLdf Aligned
  cases hd : s.win.map (fun v => dist v x) with
  | nil =>
    simp only [pushMax_length]
    omega
  | cons d ds =>
    simp only [pushMax_length, lowerTo_length]
    omega

theorem update_aligned (w : Nat) (inf : α) (dist : χ → χ → α) (xs : List χ) (s : DW α χ) (h : Aligned w s) :
    Aligned w (update w inf dist s xs).2 := by
  unfold update
  induction xs generalizing s with
  | nil => simpa [simLoop] using h
  | cons x xs ih =>
    simp only [simLoop]
    exact ih _ (step_aligned w inf dist s x h)

/-- a fresh object (empty deques) is aligned, so every reachable object is -/
theorem fresh_aligned (w : Nat) : Aligned w ({ win := [], md := [] } : DW α χ) := by
  simp [Aligned]

/-- the hypotheses are satisfiable and the loop really moves the live window: window size 2, three points on a line -/
example : (update 2 (100 : Int) (fun a b : Int => if a < b then b - a else a - b) { win := [], md := [] } [0, 5, 6]).2.win = [5, 6] := by
  decide

end Ska.C03dens
