import SkaModel.Lemmas.Aggregation

/-!
# C17 — annotation aggregation equals plain counting

Property theorems only; helper lemmas are in `SkaModel/Lemmas/Aggregation.lean`.

All statements quantify over every encoded label matrix (any number of samples, annotators and
classes, any missing pattern; codes are the output of `ExtLabelEncoder.transform`, see
`encoded_codes_valid`), every weight matrix over an arbitrary semiring `α` (NaN weights are `none`;
no sign condition is needed), every noise matrix.  `majorityVote_max` additionally uses a linear order
on `α` (no compatibility with `+` is needed), the normalisation theorems a field of characteristic 0.
-/

namespace Ska.C17
open Ska Ska.Label Ska.Agg

/-! ## compute_vote_vectors -/

section Votes
variable {α : Type} [Semiring α]

/-- The codes `ExtLabelEncoder.transform` produces are valid inputs of the aggregation functions:
`-1` or a class index below `K = len(classes_)`. -/
theorem encoded_codes_valid {γ : Type} [LinearOrder γ] (cls : List γ) (missing : γ → Bool) (y : List γ)
    (es : List Int) (h : transformFlat cls missing y = .ok es) : ∀ e ∈ es, ValidCode cls.length e := by
  intro e he
  obtain ⟨i, hi, rfl⟩ := List.getElem_of_mem he
  obtain ⟨hl, hget⟩ := transformFlat_ok cls missing y es h
  obtain ⟨_, hc⟩ := hget i (by omega)
  rcases encode1_spec cls missing y[i] es[i] hc with ⟨-, h1⟩ | ⟨-, c, h1, -, hg⟩
  · exact Or.inl h1
  · right
    rw [h1]
    have : c < cls.length := by
      rcases Nat.lt_or_ge c cls.length with h | h
      · exact h
      · rw [List.getElem?_eq_none h] at hg; cases hg
    omega

/-- **`compute_vote_vectors` returns for every sample and class exactly the weighted number of
annotators that voted for that class, ignoring missing labels** (and NaN weights):
`V[i][c] = Σ_j w[i][j] · [y[i][j] = c]`, for every shape, missing pattern and weight matrix. -/
theorem voteVectors_eq_count (K : Nat) (yenc : List (List Int)) (w : Option (List (List (Option α))))
    (V : List (List α)) (h : computeVoteVectors K yenc w = .ok V)
    (hv : ∀ r ∈ yenc, ∀ e ∈ r, ValidCode K e) :
    V.length = yenc.length ∧
    ∀ i, ∀ hi : i < yenc.length, ∃ row wi, V[i]? = some row ∧ (effWeights yenc w)[i]? = some wi ∧
      row.length = K ∧
      ∀ c, c < K → row[c]? = some
        (((yenc[i].zip wi).map (fun ew => if ew.1 = (c : Int) then weightOf ew.2 else 0)).sum) := by
  obtain ⟨-, -, hl, hrow⟩ := computeVoteVectors_spec K yenc w V h hv
  refine ⟨hl, ?_⟩
  intro i hi
  obtain ⟨row, wi, h1, h2, h3, h4⟩ := hrow i hi
  refine ⟨row, wi, h1, h2, h3, ?_⟩
  intro c hc
  rw [h4 c hc, rowVote_eq_sum]

/-- Unweighted (`w=None`): the vote is the number of annotators that chose the class. -/
theorem voteVectors_unweighted (K : Nat) (yenc : List (List Int)) (V : List (List α))
    (h : computeVoteVectors K yenc none = .ok V) (hv : ∀ r ∈ yenc, ∀ e ∈ r, ValidCode K e) :
    ∀ i, ∀ hi : i < yenc.length, ∃ row, V[i]? = some row ∧ row.length = K ∧
      ∀ c, c < K → row[c]? = some (((yenc[i].filter (fun e => decide (e = (c : Int)))).length : α)) := by
  obtain ⟨-, -, hl, hrow⟩ := computeVoteVectors_spec K yenc none V h hv
  intro i hi
  obtain ⟨row, wi, h1, h2, h3, h4⟩ := hrow i hi
  refine ⟨row, h1, h3, ?_⟩
  intro c hc
  have : wi = yenc[i].map (fun _ => some (1 : α)) := by
    simp only [effWeights, onesLike, List.getElem?_map, List.getElem?_eq_getElem hi, Option.map_some,
      Option.some.injEq] at h2
    exact h2.symm
  rw [h4 c hc, this, rowVote_ones]

/-- The call succeeds exactly when at least one class is known and `w` has the shape of `y`; the
two error branches are `ValueError`s. -/
theorem voteVectors_errors (K : Nat) (yenc : List (List Int)) (w : Option (List (List (Option α)))) :
    (K = 0 → computeVoteVectors K yenc w = .error .noClasses) ∧
    (K ≠ 0 → sameShape yenc (effWeights yenc w) = false → computeVoteVectors K yenc w = .error .shape) ∧
    (K ≠ 0 → sameShape yenc (effWeights yenc w) = true → ∃ V, computeVoteVectors K yenc w = .ok V) := by
  unfold computeVoteVectors
  refine ⟨fun h => by simp [h], fun h hs => by simp [h, hs], fun h hs => by simp [h, hs]⟩

end Votes

/-! ## majority_vote -/

section Majority
variable {α : Type} [Semiring α] [LinearOrder α]
variable {β : Type} [LinearOrder β] [Zero β]

/-- **`majority_vote` returns for every sample a class with maximal vote, and the missing-label
sentinel (code `-1`) exactly for the samples without any label.**  Noise is what
`rand_argmax(V, axis=1)` draws: one row of `K` numbers per labeled sample, all strictly positive
(numpy draws from `[0,1)`; the `2⁻⁵³` corner of a zero is excluded as in C18). -/
theorem majorityVote_max (K : Nat) (yenc : List (List Int)) (w : Option (List (List (Option α))))
    (noise : List (List β)) (hK : 0 < K)
    (hv : ∀ r ∈ yenc, ∀ e ∈ r, ValidCode K e)
    (hs : sameShape yenc (effWeights yenc w) = true)
    (hn : noise.length = (selectRows (yenc.map rowLabeled) yenc).length)
    (hpos : ∀ nz ∈ noise, nz.length = K ∧ ∀ x ∈ nz, 0 < x) :
    ∃ res, majorityVote K yenc w noise = .ok res ∧ res.length = yenc.length ∧
      ∀ i, ∀ hi : i < yenc.length, ∃ wi, (effWeights yenc w)[i]? = some wi ∧
        (res[i]? = some (-1) ↔ rowLabeled yenc[i] = false) ∧
        (rowLabeled yenc[i] = true → ∃ c : Nat, c < K ∧ res[i]? = some (c : Int) ∧
          ∀ c', c' < K → rowVote c' yenc[i] wi ≤ rowVote c yenc[i] wi) := by
  obtain ⟨res, h1, h2, h3⟩ := majorityVote_spec K yenc w noise hK hv hs hn hpos
  refine ⟨res, h1, h2, ?_⟩
  intro i hi
  obtain ⟨wi, a1, a2, a3⟩ := h3 i hi
  refine ⟨wi, a1, ⟨?_, a2⟩, a3⟩
  intro hres
  cases hl : rowLabeled yenc[i] with
  | false => rfl
  | true =>
    obtain ⟨c, -, hc, -⟩ := a3 hl
    rw [hres] at hc
    have := Option.some.inj hc
    omega

/-- `rowLabeled` is "the sample has at least one non-missing label". -/
theorem rowLabeled_iff (r : List Int) : rowLabeled r = true ↔ ∃ e ∈ r, e ≠ -1 := by
  simp [rowLabeled]

end Majority

/-! ## ext_confusion_matrix -/

section Confusion
variable {α : Type} [Field α]

/-- **`normalize=None`: for every annotator the raw confusion counts of its non-missing labels
against the true labels**: entry `(i, j)` of annotator `a` is the number of samples with true class
`i` that `a` labeled `j` (samples `a` did not label are not counted anywhere). -/
theorem confusion_counts (K : Nat) (ts : List Int) (predCols : List (List Int))
    (C : List (List (List α)))
    (h : extConfusionMatrix (fun n => (n : α)) K ts predCols (some .none_) = .ok C) :
    C.length = predCols.length ∧
    ∀ a, ∀ ha : a < predCols.length, ∀ i j, i < K → j < K →
      ((C[a]?.bind (·[i]?)).bind (·[j]?)) =
        some ((((ts.zip predCols[a]).filter (pairIs i j)).length : Nat) : α) := by
  unfold extConfusionMatrix at h
  simp only at h
  split at h
  · cases h
  injection h with h
  subst h
  refine ⟨by simp, ?_⟩
  intro a ha i j hi hj
  simp only [List.getElem?_map, List.getElem?_eq_getElem ha, Option.map_some, Option.bind_some,
    normalizeCm]
  have := confusionCounts_getElem K (labeledPairs ts predCols[a]) i j hi hj
  rw [labeledPairs_filter] at this
  cases hr : (confusionCounts K (labeledPairs ts predCols[a]))[i]? with
  | none => rw [hr] at this; simp at this
  | some r =>
    rw [hr] at this
    simp only [Option.bind_some] at this
    simp [this]

/-- `y_true` with a missing label is rejected; an unknown `normalize` is rejected first. -/
theorem confusion_rejects (cast : Nat → α) (K : Nat) (ts : List Int) (predCols : List (List Int)) :
    extConfusionMatrix cast K ts predCols none = .error .normalize ∧
    (∀ nm, (-1 : Int) ∈ ts → extConfusionMatrix cast K ts predCols (some nm) = .error .trueMissing) := by
  refine ⟨rfl, ?_⟩
  intro nm hm
  unfold extConfusionMatrix
  simp only
  rw [if_pos]
  rw [List.any_eq_true]
  exact ⟨-1, hm, by simp⟩

/-- Whatever the mode, the result is the per-annotator normalisation of the per-annotator counts. -/
theorem confusion_is_normalised_counts (cast : Nat → α) (K : Nat) (ts : List Int)
    (predCols : List (List Int)) (nm : Norm) (C : List (List (List α)))
    (h : extConfusionMatrix cast K ts predCols (some nm) = .ok C) :
    C = predCols.map (fun ps => normalizeCm cast K nm (confusionCounts K (labeledPairs ts ps))) := by
  unfold extConfusionMatrix at h
  simp only at h
  split at h
  · cases h
  injection h with h
  exact h.symm

variable [CharZero α]

/-- **`normalize='true'`**: every row of an annotator's matrix is the row of counts divided by its
sum — hence sums to one — and the constant `1/K` where the row of counts is empty. -/
theorem confusion_normalised_true (K : Nat) (cm : List (List Nat)) (i : Nat) (hi : i < cm.length) :
    ∃ row, (normalizeCm (fun n => (n : α)) K .true_ cm)[i]? = some row ∧
      (natSum cm[i] ≠ 0 → row = cm[i].map (fun (c : Nat) => (c : α) / ((natSum cm[i] : Nat) : α)) ∧ row.sum = 1) ∧
      (natSum cm[i] = 0 → ∀ x ∈ row, x = 1 / (K : α)) := by
  refine ⟨cm[i].map (fun (c : Nat) => if natSum cm[i] = 0 then (1 : α) / (K : α) else (c : α) / ((natSum cm[i] : Nat) : α)),
    by simp [normalizeCm, List.getElem?_eq_getElem hi], ?_, ?_⟩
  · intro hs
    have e : cm[i].map (fun (c : Nat) => if natSum cm[i] = 0 then (1 : α) / (K : α) else (c : α) / ((natSum cm[i] : Nat) : α)) =
        cm[i].map (fun (c : Nat) => (c : α) / ((natSum cm[i] : Nat) : α)) := by
      apply List.map_congr_left
      intro c _
      rw [if_neg hs]
    rw [e]
    exact ⟨rfl, normalised_row_sum cm[i] hs⟩
  · intro hs x hx
    simp only [hs, if_true, List.mem_map] at hx
    obtain ⟨_, -, rfl⟩ := hx
    rfl

/-- **`normalize='all'`**: every entry is the count divided by the annotator's total — the whole
matrix sums to one — and the constant `1/K²` for an annotator without any label. -/
theorem confusion_normalised_all (K : Nat) (cm : List (List Nat)) :
    let s := natSum (cm.map natSum)
    (s ≠ 0 → normalizeCm (fun n => (n : α)) K .all cm =
        cm.map (fun r => r.map (fun (c : Nat) => (c : α) / ((s : Nat) : α))) ∧
      ((normalizeCm (fun n => (n : α)) K .all cm).map List.sum).sum = 1) ∧
    (s = 0 → ∀ r ∈ normalizeCm (fun n => (n : α)) K .all cm, ∀ x ∈ r, x = 1 / ((K * K : Nat) : α)) := by
  intro s
  refine ⟨?_, ?_⟩
  · intro hs
    have e : normalizeCm (fun n => (n : α)) K .all cm =
        cm.map (fun r => r.map (fun (c : Nat) => (c : α) / ((s : Nat) : α))) := by
      simp only [normalizeCm]
      apply List.map_congr_left
      intro r _
      apply List.map_congr_left
      intro c _
      rw [if_neg hs]
    refine ⟨e, ?_⟩
    rw [e, List.map_map]
    have : (List.map (List.sum ∘ fun r => List.map (fun (c : Nat) => (c : α) / ((s : Nat) : α)) r) cm)
        = (cm.map natSum).map (fun (c : Nat) => (c : α) / ((s : Nat) : α)) := by
      rw [List.map_map]
      apply List.map_congr_left
      intro r _
      simp only [Function.comp]
      rw [sum_map_div, ← cast_natSum]
    rw [this]
    exact normalised_row_sum (cm.map natSum) hs
  · intro hs r hr x hx
    simp only [normalizeCm, List.mem_map] at hr
    obtain ⟨r0, -, rfl⟩ := hr
    simp only [List.mem_map] at hx
    obtain ⟨c, -, rfl⟩ := hx
    rw [if_pos hs]

/-- **`normalize='pred'`**: every column of an annotator's (square, `K × K`) matrix is the column of
counts divided by its sum — hence sums to one — and the constant `1/K` where the column is empty. -/
theorem confusion_normalised_pred (K : Nat) (cm : List (List Nat)) (hrect : ∀ r ∈ cm, r.length = K)
    (j : Nat) (hj : j < K) :
    let s := natSum (colOf cm j)
    (s ≠ 0 → ((normalizeCm (fun n => (n : α)) K .pred cm).map (fun r => r.getD j 0)).sum = 1) ∧
    (s = 0 → ∀ r ∈ normalizeCm (fun n => (n : α)) K .pred cm, r.getD j 0 = 1 / (K : α)) := by
  intro s
  have hcol : ∀ r ∈ cm, ((List.range r.length).map (fun j' =>
        if natSum (colOf cm j') = 0 then (1 : α) / (K : α)
        else ((r.getD j' 0 : Nat) : α) / ((natSum (colOf cm j') : Nat) : α))).getD j 0 =
      if s = 0 then (1 : α) / (K : α) else ((r.getD j 0 : Nat) : α) / ((s : Nat) : α) := by
    intro r hr
    have hjr : j < r.length := by rw [hrect r hr]; exact hj
    simp [List.getD, hjr]
    rfl
  refine ⟨?_, ?_⟩
  · intro hs
    have e : (normalizeCm (fun n => (n : α)) K .pred cm).map (fun r => r.getD j 0) =
        (colOf cm j).map (fun (c : Nat) => (c : α) / ((s : Nat) : α)) := by
      have e2 : (colOf cm j).map (fun (c : Nat) => (c : α) / ((s : Nat) : α)) =
          cm.map (fun r => ((r.getD j 0 : Nat) : α) / ((s : Nat) : α)) := by
        simp [colOf, List.map_map]
      rw [e2]
      simp only [normalizeCm, List.map_map]
      apply List.map_congr_left
      intro r hr
      simp only [Function.comp]
      rw [hcol r hr, if_neg hs]
    rw [e]
    exact normalised_row_sum (colOf cm j) hs
  · intro hs r hr
    simp only [normalizeCm, List.mem_map] at hr
    obtain ⟨r0, hr0, rfl⟩ := hr
    rw [hcol r0 hr0, if_pos hs]

/-- the count matrices `ext_confusion_matrix` normalises are square (`K × K`), so
`confusion_normalised_pred` applies to them. -/
theorem confusion_counts_square (K : Nat) (pairs : List (Int × Int)) :
    (confusionCounts K pairs).length = K ∧ ∀ r ∈ confusionCounts K pairs, r.length = K :=
  confusionCounts_shape K pairs

end Confusion

/-! ## Non-vacuity: concrete instances -/

-- y = [[0, 1, missing], [1, 1, 0]], w = [[2, 3, 5], [1, NaN, 4]], K = 2
example : computeVoteVectors (α := Int) 2 [[0, 1, -1], [1, 1, 0]]
    (some [[some 2, some 3, some 5], [some 1, none, some 4]]) = .ok [[2, 3], [4, 1]] := by decide

example : computeVoteVectors (α := Int) 2 [[0, 1, -1], [1, 1, 0]] none = .ok [[1, 1], [1, 2]] := by decide

example : ∀ r ∈ [[(0:Int), 1, -1], [1, 1, 0]], ∀ e ∈ r, ValidCode 2 e := by
  intro r hr e he
  simp at hr
  rcases hr with rfl | rfl <;> simp at he <;> rcases he with rfl | rfl | rfl <;> simp [ValidCode]

-- rows: tie broken by the noise / unlabeled sample / clear majority
example : majorityVote (α := Int) (β := Nat) 2 [[0, 1, -1], [-1, -1, -1], [1, 1, 0]] none [[1, 2], [3, 1]]
    = .ok [1, -1, 1] := by decide

example : extConfusionMatrix (α := Rat) (fun n => (n : Rat)) 2 [0, 0, 1] [[0, 1, -1]] (some .none_)
    = .ok [[[1, 1], [0, 0]]] := by decide

-- the hypotheses of the normalisation theorems are met by these counts: row 0 / column 0 / the total are
-- non-zero, row 1 is empty (fallback)
example : natSum ((confusionCounts 2 (labeledPairs [0, 0, 1] [0, 1, -1]))[0]!) ≠ 0 ∧
    natSum ((confusionCounts 2 (labeledPairs [0, 0, 1] [0, 1, -1]))[1]!) = 0 ∧
    natSum (colOf (confusionCounts 2 (labeledPairs [0, 0, 1] [0, 1, -1])) 0) ≠ 0 ∧
    natSum ((confusionCounts 2 (labeledPairs [0, 0, 1] [0, 1, -1])).map natSum) ≠ 0 := by decide

end Ska.C17
