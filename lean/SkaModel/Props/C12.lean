import SkaModel.Lemmas.Fit

/-!
# C12 — unlabeled samples do not influence supervised models

Property theorems only (helpers: `SkaModel/Lemmas/Fit.lean`).  Statements are about the model
`SkaModel/Core/Fit.lean` of what each wrapper hands to its estimator; `harness/props/c12.py` ties it to
`/repo` with spy estimators that record exactly the `(X, y, sample_weight)` they are fitted on.
They quantify over every training set (any feature / label / weight types), every missing-label
pattern, all weights and every estimator function.

Clauses of the property:
* "adding, removing or reordering unlabeled samples … never changes the fitted model":
  `filterLabeled_insert_unlabeled`, `filterLabeled_interleave`, `fit_unlabeled_irrelevant`,
  `sklearnFit_unlabeled_irrelevant`, `regressorFit_unlabeled_irrelevant`, `nicFit_unlabeled_irrelevant`,
  `alrFit_unlabeled_irrelevant`;
* "sample weights of unlabeled samples are likewise irrelevant": `filterLabeled_unlabeled_weights`
  (and through it all the `…_unlabeled_irrelevant` theorems);
* "revealing labels in a different order": `reveal_order_irrelevant`;
* ParzenWindowClassifier with a fixed bandwidth and no neighbour limit: `pwc_freq_labeled_only`;
* the wrapper's fallback distribution: `label_counts_labeled_only`.
-/

set_option linter.unusedSectionVars false
set_option linter.unusedVariables false

namespace Ska.C12
open Ska Ska.Classifier Ska.Fit

section Filter
variable {ξ ζ ω : Type}

/-- **filterLabeled_insert_unlabeled**: inserting (read right-to-left: deleting) an unlabeled row at
any position, with any features and any weight, leaves the rows handed to the estimator unchanged. -/
theorem filterLabeled_insert_unlabeled (a b : List (ξ × Option ζ × ω)) (x : ξ) (w : ω) :
    filterLabeled (a ++ (x, none, w) :: b) = filterLabeled (a ++ b) := by
  rw [filterLabeled_append, filterLabeled_cons_unlabeled, ← filterLabeled_append]

/-- any number of unlabeled rows `u` interleaved with `d` in any way — insertion, deletion and every
reordering of unlabeled rows relative to the labeled ones and to each other. -/
theorem filterLabeled_interleave (d u d' : List (ξ × Option ζ × ω)) (h : Interleave d u d')
    (hu : ∀ r ∈ u, r.2.1 = none) : filterLabeled d' = filterLabeled d := by
  induction h with
  | nil => rfl
  | left r _ ih =>
    obtain ⟨x, y, w⟩ := r
    cases y with
    | none => rw [filterLabeled_cons_unlabeled, filterLabeled_cons_unlabeled]; exact ih hu
    | some y => rw [filterLabeled_cons_labeled, filterLabeled_cons_labeled, ih hu]
  | right r _ ih =>
    obtain ⟨x, y, w⟩ := r
    have : y = none := hu (x, y, w) (List.mem_cons_self ..)
    subst this
    rw [filterLabeled_cons_unlabeled]
    exact ih (fun r hr => hu r (List.mem_cons_of_mem _ hr))

/-- two orders of the unlabeled rows (any two interleavings of the same labeled data with permuted
unlabeled rows) give the same estimator input. -/
theorem filterLabeled_reorder_unlabeled (d u₁ u₂ d₁ d₂ : List (ξ × Option ζ × ω))
    (h₁ : Interleave d u₁ d₁) (h₂ : Interleave d u₂ d₂)
    (hu₁ : ∀ r ∈ u₁, r.2.1 = none) (hu₂ : ∀ r ∈ u₂, r.2.1 = none) :
    filterLabeled d₁ = filterLabeled d₂ := by
  rw [filterLabeled_interleave d u₁ d₁ h₁ hu₁, filterLabeled_interleave d u₂ d₂ h₂ hu₂]

/-- **weights of unlabeled rows are irrelevant**. -/
theorem filterLabeled_unlabeled_weights (d d' : List (ξ × Option ζ × ω)) (h : SameUpToUnlabeledWeights d d') :
    filterLabeled d = filterLabeled d' := by
  unfold SameUpToUnlabeledWeights at h
  induction h with
  | nil => rfl
  | @cons r r' l l' hr _ ih =>
    obtain ⟨x, y, w⟩ := r
    obtain ⟨x', y', w'⟩ := r'
    obtain ⟨h1, h2, h3⟩ := hr
    simp only at h1 h2 h3
    subst h1; subst h2
    cases y with
    | none => rw [filterLabeled_cons_unlabeled, filterLabeled_cons_unlabeled, ih]
    | some y =>
      have : w = w' := h3 rfl
      subst this
      rw [filterLabeled_cons_labeled, filterLabeled_cons_labeled, ih]

/-- **hence every fit and every prediction**: for every estimator function `est`, every prediction
function and every query, the wrapped model trained with the extra / missing / re-weighted unlabeled
rows predicts the same. -/
theorem fit_unlabeled_irrelevant {M Q R : Type} (est : List (ξ × ζ × ω) → M) (predict : M → Q → R)
    (d d' : List (ξ × Option ζ × ω)) (h : filterLabeled d' = filterLabeled d) (q : Q) :
    predict (fitWrapped est d') q = predict (fitWrapped est d) q := by
  unfold fitWrapped; rw [h]

/-- the same, starting from the labeled subset itself: training on `(X, y)` equals training on the
labeled subset only. -/
theorem fit_eq_fit_on_labeled_subset {M : Type} (est : List (ξ × ζ × ω) → M) (d : List (ξ × Option ζ × ω)) :
    fitWrapped est d = fitWrapped est ((filterLabeled d).map (fun r => (r.1, some r.2.1, r.2.2))) := by
  unfold fitWrapped
  congr 1
  induction d with
  | nil => rfl
  | cons r rs ih =>
    obtain ⟨x, y, w⟩ := r
    cases y with
    | none => rw [filterLabeled_cons_unlabeled]; exact ih
    | some y => rw [filterLabeled_cons_labeled, List.map_cons, filterLabeled_cons_labeled, ← ih]

/-- **reveal_order_irrelevant**: revealing the labels of distinct samples in any order produces the
same training set, hence the same fit. -/
theorem reveal_order_irrelevant (d : List (ξ × Option ζ × ω)) (rs rs' : List (Nat × ζ))
    (hp : rs.Perm rs') (hnd : (rs.map Prod.fst).Nodup) :
    revealAll d rs = revealAll d rs' := by
  unfold revealAll
  induction hp generalizing d with
  | nil => rfl
  | cons x _ ih =>
    simp only [List.foldl_cons]
    exact ih _ (by simpa using (List.nodup_cons.mp (by simpa using hnd)).2)
  | swap x y l =>
    simp only [List.foldl_cons]
    have hne : y.1 ≠ x.1 := by
      simp only [List.map_cons, List.nodup_cons, List.mem_cons, not_or] at hnd
      exact hnd.1.1
    rw [reveal_comm d y x hne]
  | trans h₁ h₂ ih₁ ih₂ =>
    rw [ih₁ d hnd]
    exact ih₂ d ((h₁.map Prod.fst).nodup_iff.mp hnd)

end Filter

/-! ## The individual wrappers -/

section Wrappers
variable {ξ ω : Type}

/-- `SklearnClassifier._fit`: the label counts, whether the estimator is called at all, and the
arguments it is called with depend on the labeled rows only. -/
theorem sklearnFit_unlabeled_irrelevant (k : Nat) (acceptsW hasW : Bool) (d d' : List (ξ × Option Nat × ω))
    (h : filterLabeled d' = filterLabeled d) :
    sklearnFit k acceptsW hasW d' = sklearnFit k acceptsW hasW d := by
  unfold sklearnFit labelCounts; rw [h]

/-- **label_counts_labeled_only**: `_label_counts[c]` is the number of labeled rows of class `c`. -/
theorem label_counts_labeled_only (k : Nat) (d : List (ξ × Option Nat × ω)) (c : Nat) (hc : c < k) :
    (labelCounts k d)[c]? = some ((d.filter (fun r => r.2.1 == some c)).length) := by
  unfold labelCounts
  rw [List.getElem?_map, List.getElem?_range hc]
  simp only [Option.map_some, Option.some.injEq]
  induction d with
  | nil => rfl
  | cons r rs ih =>
    obtain ⟨x, y, w⟩ := r
    cases y with
    | none => rw [filterLabeled_cons_unlabeled, ih]; simp
    | some y =>
      rw [filterLabeled_cons_labeled]
      simp only [List.filter_cons, hasClass]
      by_cases hy : y = c
      · subst hy; simp [ih]
      · simp [hy, ih]

variable {α : Type} [Field α] [LinearOrder α] [IsStrictOrderedRing α]

/-- `SklearnRegressor` / `SklearnNormalRegressor`. -/
theorem regressorFit_unlabeled_irrelevant (hasW : Bool) (d d' : List (ξ × Option α × α))
    (h : filterLabeled d' = filterLabeled d) : regressorFit hasW d' = regressorFit hasW d := by
  unfold regressorFit; rw [h]

/-- `NICKernelRegressor.fit` (`X_`, `y_`, `weights_`, and whether it raises). -/
theorem nicFit_unlabeled_irrelevant (hasW : Bool) (d d' : List (ξ × Option α × α))
    (h : filterLabeled d' = filterLabeled d) : nicFit hasW d' = nicFit hasW d := by
  unfold nicFit; rw [h]

end Wrappers

section Alr
variable {ξ ζ ω : Type}

/-- `AnnotatorLogisticRegression.fit`: a row that no annotator labeled (with any features and any
weights) does not reach the EM algorithm — neither its features, nor its labels, nor its weights. -/
theorem alrFit_unlabeled_irrelevant (hasW : Bool) (a b : List (ξ × List (Option ζ) × List ω)) (x : ξ)
    (ys : List (Option ζ)) (ws : List ω) (hys : ∀ y ∈ ys, y = none) :
    alrFit hasW (a ++ (x, ys, ws) :: b) = alrFit hasW (a ++ b) := by
  have : anyLabeled (x, ys, ws) = false := by
    simp only [anyLabeled, List.any_eq_false]
    intro y hy; rw [hys y hy]; simp
  simp [alrFit, this]

end Alr

/-! ## Parzen window classifier -/

section Pwc
variable {ξ : Type} {α : Type} [Semiring α]

/-- **pwc_freq_labeled_only**: unlabeled rows have a zero vote vector, so the kernel frequency estimate
summed over all rows equals the sum over the labeled rows — over any semiring (in particular any
ordered semiring), for every kernel function, class and weights. -/
theorem pwc_freq_labeled_only (kern : ξ → α) (d : List (ξ × Option Nat × α)) (c : Nat) :
    predictFreq kern d c = predictFreq kern (d.filter isLabeledRow) c := by
  unfold predictFreq
  induction d with
  | nil => rfl
  | cons r rs ih =>
    obtain ⟨x, y, w⟩ := r
    cases y with
    | none =>
      simp only [List.map_cons, sumL_cons', List.filter_cons, isLabeledRow, Option.isSome_none,
        Bool.false_eq_true, if_false, vote, mul_zero, zero_add]
      exact ih
    | some y =>
      simp only [List.map_cons, sumL_cons', List.filter_cons, isLabeledRow, Option.isSome_some, if_true]
      rw [ih]

/-- consequently inserting an unlabeled row (any features, any weight) changes no frequency. -/
theorem pwc_freq_insert_unlabeled (kern : ξ → α) (a b : List (ξ × Option Nat × α)) (x : ξ) (w : α) (c : Nat) :
    predictFreq kern (a ++ (x, none, w) :: b) c = predictFreq kern (a ++ b) c := by
  rw [pwc_freq_labeled_only, pwc_freq_labeled_only kern (a ++ b)]
  simp [List.filter_append, isLabeledRow]

end Pwc

/-! ## Non-vacuity -/

example : filterLabeled [((0 : Nat), some (7 : Nat), (1 : Nat)), (1, none, 5), (2, some 3, 2)] = [(0, 7, 1), (2, 3, 2)] := by
  decide

example : Interleave [((0 : Nat), some (7 : Nat), (1 : Nat))] [(1, none, 5), (2, none, 0)]
    [(1, none, 5), (0, some 7, 1), (2, none, 0)] :=
  .right _ (.left _ (.right _ .nil))

example : revealAll [((0 : Nat), (none : Option Nat), (1 : Nat)), (1, none, 1)] [(0, 4), (1, 5)] =
    revealAll [(0, none, 1), (1, none, 1)] [(1, 5), (0, 4)] := by decide

example : (sklearnFit (ξ := Nat) (ω := Nat) 2 true true [(0, some 1, 3), (1, none, 9)]).call = some ([0], [1], some [3]) := by
  decide

end Ska.C12
