import SkaModel.Core.Wrapper
import SkaModel.Props.C01

/-!
# C20 — wrapper strategies are transparent to the strategy they wrap

* parallel wrapper: splitting the candidates into any number of chunks ≥ 1, scoring each chunk with a
  pointwise inner score and concatenating gives exactly the inner strategy's utilities, hence (equal
  noise, i.e. equal seed) exactly its selection — `arraySplit_flatten`, `parallel_eq_inner`,
  `parallel_selection_eq_inner`;
* sub-sampling wrapper: the sub-sample has the documented size and lies inside the candidates, the
  reported utilities are the inner utilities on the sub-sample, −inf on the other candidates and NaN on
  non-candidates in the caller's index space, and the index translation used with
  `exclude_non_subsample=True` is the identity on the sub-sample — `subRowCode_eq_spec`,
  `subSample_spec`, `expand_innerCands`;
* the single-annotator wrapper's sample order is part of C07 (`Props/C07.lean`).
-/

namespace Ska.C20
open Ska Ska.Wrapper

/-! ## np.array_split and the parallel wrapper -/

theorem sum_sectionSizes (n k : Nat) (hk : 0 < k) : (sectionSizes n k).sum = n := by
  unfold sectionSizes
  rw [List.sum_append, List.sum_replicate_nat, List.sum_replicate_nat]
  have hmod : n % k < k := Nat.mod_lt _ hk
  have h := Nat.div_add_mod n k
  have e : (k - n % k) * (n / k) = k * (n / k) - (n % k) * (n / k) := Nat.sub_mul ..
  have hle : (n % k) * (n / k) ≤ k * (n / k) := Nat.mul_le_mul_right _ (Nat.le_of_lt hmod)
  rw [e, Nat.mul_add]
  omega

theorem length_sectionSizes (n k : Nat) (hk : 0 < k) : (sectionSizes n k).length = k := by
  unfold sectionSizes
  have hmod : n % k < k := Nat.mod_lt _ hk
  simp; omega

theorem splitBy_flatten {γ : Type} (sizes : List Nat) (l : List γ) :
    (splitBy sizes l).flatten = l.take sizes.sum := by
  induction sizes generalizing l with
  | nil => simp [splitBy]
  | cons s ss ih =>
    simp only [splitBy, List.flatten_cons, List.sum_cons, ih]
    rw [List.take_add]

theorem length_splitBy {γ : Type} (sizes : List Nat) (l : List γ) :
    (splitBy sizes l).length = sizes.length := by
  induction sizes generalizing l with
  | nil => simp [splitBy]
  | cons s ss ih => simp [splitBy, ih]

/-- **Chunking loses nothing**: concatenating the chunks of `np.array_split(l, k)` gives back `l`,
for every list and every number of chunks `k ≥ 1`. -/
theorem arraySplit_flatten {γ : Type} (l : List γ) (k : Nat) (hk : 0 < k) :
    (arraySplit l k).flatten = l := by
  unfold arraySplit
  rw [splitBy_flatten, sum_sectionSizes _ _ hk, List.take_length]

theorem arraySplit_length {γ : Type} (l : List γ) (k : Nat) (hk : 0 < k) :
    (arraySplit l k).length = k := by
  unfold arraySplit
  rw [length_splitBy, length_sectionSizes _ _ hk]

/-- **The parallel wrapper reports the inner strategy's utilities**: if the inner strategy scores
candidates independently (`score`), any number of chunks `k ≥ 1` yields `map score cands`. -/
theorem parallel_eq_inner {γ δ : Type} (score : γ → δ) (cands : List γ) (k : Nat) (hk : 0 < k) :
    parallelUtils (List.map score) cands k = cands.map score := by
  unfold parallelUtils
  rw [← List.map_flatten, arraySplit_flatten cands k hk]

/-- the number of chunks used by the (repaired) wrapper is at least 1 whenever there is a candidate
and the requested `n_jobs` is not 0 -/
theorem nChunks_pos (nJobs : Int) (nCand cpu : Nat) (hc : 0 < nCand) (hcpu : 0 < cpu) (hj : nJobs ≠ 0) :
    0 < nChunks nJobs nCand cpu := by
  unfold nChunks
  simp only
  split
  · omega
  · rename_i h
    have : 0 < min nJobs (nCand : Int) := by omega
    omega

/-- … and never exceeds the number of candidates, so no chunk is empty for the inner strategy to
choke on (this is what the `fix:` commit for `n_jobs=-1` restored). -/
theorem nChunks_le (nJobs : Int) (nCand cpu : Nat) : nChunks nJobs nCand cpu ≤ nCand := by
  unfold nChunks
  simp only
  split
  · omega
  · omega

/-- **Equal utilities and equal seed give equal selection**: the wrapper's final
`scatter + simple_batch` on the concatenated utilities is literally the inner strategy's. -/
theorem parallel_selection_eq_inner {α β : Type} [LT α] [DecidableLT α] [OfNat α 0] [Add α]
    [LT β] [DecidableLT β] [OfNat β 0] {γ : Type} (isInf : α → Bool) (n : Nat)
    (mapping : Option (List Nat)) (score : γ → Option α) (cands : List γ) (k : Nat) (hk : 0 < k)
    (b : Nat) (m : Method) (noises : List (List β)) (choice : List Nat) :
    poolQueryA isInf n mapping (parallelUtils (List.map score) cands k) b m noises choice =
      poolQueryA isInf n mapping (cands.map score) b m noises choice := by
  rw [parallel_eq_inner score cands k hk]

/-! ## Sub-sampling wrapper -/

variable {α : Type}

theorem foldl_set_getElem? (f : Nat → Option α) (L : List Nat) (r : List (Option α)) (j : Nat)
    (hj : j < r.length) :
    (L.foldl (fun r i => r.set i (f i)) r)[j]? = if j ∈ L then some (f j) else r[j]? := by
  induction L generalizing r with
  | nil => simp
  | cons x xs ih =>
    simp only [List.foldl_cons]
    rw [ih (r.set x (f x)) (by simpa using hj)]
    by_cases hx : j ∈ xs
    · simp [hx]
    · simp only [hx, if_false, List.mem_cons, or_false]
      by_cases hjx : j = x
      · subst hjx; simp [hj]
      · have : ¬ x = j := fun e => hjx e.symm
        rw [List.getElem?_set_ne this]; simp [hjx]

/-- **The utilities the sub-sampling wrapper reports are the documented ones**: in the caller's index
space, the inner strategy's value on the sub-sample, −inf on all other candidates, NaN on
non-candidates — for all index lists (no assumption needed: later writes win exactly as the
specification prioritises). -/
theorem subRowCode_eq_spec (ninf : α) (n : Nat) (cand sub : List Nat) (inner : List (Option α)) :
    subRowCode ninf n cand sub inner = subRowSpec ninf n cand sub inner := by
  apply List.ext_getElem?
  intro j
  unfold subRowCode subRowSpec
  by_cases hj : j < n
  · have hl1 : j < (cand.foldl (fun r j => r.set j (some ninf)) (List.replicate n (none : Option α))).length := by
      have : ∀ (L : List Nat) (r : List (Option α)),
          (L.foldl (fun r j => r.set j (some ninf)) r).length = r.length := by
        intro L; induction L with
        | nil => intro r; rfl
        | cons x xs ih => intro r; simp [ih]
      rw [this]; simpa using hj
    rw [foldl_set_getElem? (fun j => inner.getD j none) sub _ j hl1]
    rw [foldl_set_getElem? (fun _ => some ninf) cand _ j (by simpa using hj)]
    simp only [List.getElem?_map, List.getElem?_range hj, Option.map_some]
    by_cases hs : j ∈ sub
    · simp [hs]
    · by_cases hc : j ∈ cand
      · simp [hs, hc]
      · simp [hs, hc, hj]
  · have hlen : ∀ (f : Nat → Option α) (L : List Nat) (r : List (Option α)),
        (L.foldl (fun r i => r.set i (f i)) r).length = r.length := by
      intro f L; induction L with
      | nil => intro r; rfl
      | cons x xs ih => intro r; simp [ih]
    rw [List.getElem?_eq_none, List.getElem?_eq_none]
    · simp; omega
    · rw [hlen (fun j => inner.getD j none), hlen (fun _ => some ninf)]; simp; omega

theorem choiceOkB_iff (cand : List Nat) (k : Nat) (sub : List Nat) :
    choiceOkB cand k sub = true ↔ (sub.length = k ∧ sub.Nodup ∧ ∀ i ∈ sub, i ∈ cand) := by
  unfold choiceOkB
  simp [Ska.C18.nodupB_iff, and_assoc]

/-- **The sub-sampling wrapper selects only from a random subset of the candidates of the documented
size**: for every candidate list, every `max_candidates` value `m` (after the fractional → integer
conversion), every draw obeying numpy's `choice` contract and every inner result that is a valid
batch w.r.t. the sub-sample (C01 for the inner strategy): the sub-sample has `min(m, #candidates)`
elements, all of them candidates, and the returned picks are `min(b, #sub-sample)` distinct members
of the sub-sample. -/
theorem subSample_spec (cand : List Nat) (m b : Nat) (sub q : List Nat)
    (hchoice : choiceOkB cand (subSize m cand.length) sub = true)
    (hinner : Ska.C01.ValidBatch sub b q) :
    sub.length = min m cand.length ∧ (∀ i ∈ sub, i ∈ cand) ∧
    q.length = min b (min m cand.length) ∧ q.Nodup ∧ (∀ i ∈ q, i ∈ sub ∧ i ∈ cand) := by
  obtain ⟨h1, -, h3⟩ := (choiceOkB_iff _ _ _).mp hchoice
  obtain ⟨g1, g2, g3⟩ := hinner
  unfold subSize at h1
  exact ⟨h1, h3, by rw [g1, h1], g2, fun i hi => ⟨g3 i hi, h3 i (g3 i hi)⟩⟩

/-! ### `exclude_non_subsample=True`: the index translation is the identity on the sub-sample -/

theorem mem_insertSorted (x y : Nat) (l : List Nat) : y ∈ insertSorted x l ↔ y = x ∨ y ∈ l := by
  induction l with
  | nil => simp [insertSorted]
  | cons z zs ih =>
    simp only [insertSorted]
    split
    · simp
    · simp only [List.mem_cons, ih]
      constructor
      · rintro (h | h | h)
        · right; left; exact h
        · left; exact h
        · right; right; exact h
      · rintro (h | h | h)
        · right; left; exact h
        · left; exact h
        · right; right; exact h

theorem mem_sortNat (y : Nat) (l : List Nat) : y ∈ sortNat l ↔ y ∈ l := by
  induction l with
  | nil => simp [sortNat]
  | cons x xs ih =>
    have : sortNat (x :: xs) = insertSorted x (sortNat xs) := by simp [sortNat]
    rw [this, mem_insertSorted, ih]; simp

theorem getD_posOf (x : Nat) (l : List Nat) (h : x ∈ l) : l.getD (posOf x l) 0 = x := by
  induction l with
  | nil => simp at h
  | cons y ys ih =>
    simp only [posOf]
    split
    · rename_i e; simp [e]
    · rename_i e
      have : x ∈ ys := by
        rcases List.mem_cons.mp h with h | h
        · exact absurd h e
        · exact h
      simpa using ih this

/-- Every inner-space candidate position translates back to a member of the sub-sample, and every
member of the sub-sample is reached: the picks returned by the inner strategy (which are inner
candidates, C01) are reported to the caller as sub-sample members in the caller's index space. -/
theorem expand_innerCands (labeled sub : List Nat) :
    ∀ i, i ∈ expand (subsetAndLabeled labeled sub) (innerCands (subsetAndLabeled labeled sub) sub) ↔ i ∈ sub := by
  intro i
  unfold expand innerCands
  simp only [List.mem_map, mem_sortNat]
  constructor
  · rintro ⟨p, ⟨x, hx, rfl⟩, rfl⟩
    have hmem : x ∈ subsetAndLabeled labeled sub := by
      unfold subsetAndLabeled; rw [mem_sortNat]; simp [hx]
    rw [getD_posOf x _ hmem]; exact hx
  · intro hi
    have hmem : i ∈ subsetAndLabeled labeled sub := by
      unfold subsetAndLabeled; rw [mem_sortNat]; simp [hi]
    exact ⟨posOf i _, ⟨i, hi, rfl⟩, getD_posOf i _ hmem⟩

theorem expand_subset (labeled sub q : List Nat)
    (hq : ∀ p ∈ q, p ∈ innerCands (subsetAndLabeled labeled sub) sub) :
    ∀ i ∈ expand (subsetAndLabeled labeled sub) q, i ∈ sub := by
  intro i hi
  unfold expand at hi
  obtain ⟨p, hp, rfl⟩ := List.mem_map.mp hi
  apply (expand_innerCands labeled sub _).mp
  unfold expand
  exact List.mem_map.mpr ⟨p, hq p hp, rfl⟩

/-! ### non-vacuity -/

example : arraySplit [10, 11, 12, 13, 14, 15, 16] 3 = [[10, 11, 12], [13, 14], [15, 16]] := by decide
example : subRowCode (α := Int) (-1000) 5 [1, 2, 4] [4, 1] [some 7, some 8, some 9, some 10, some 11]
    = [none, some 8, some (-1000), none, some 11] := by decide
example : expand (subsetAndLabeled [0, 3] [5, 2]) (innerCands (subsetAndLabeled [0, 3] [5, 2]) [5, 2]) = [2, 5] := by
  decide

end Ska.C20
