import SkaModel.Lemmas.Budget
import Mathlib.Algebra.Field.Rat
import Mathlib.Algebra.Order.Ring.Rat
import Mathlib.Tactic.NormNum

/-!
# C10 — stream update commits exactly what query simulated

Property theorems only (models: `SkaModel/Core/Budget.lean`, `Core/Stream.lean`).

* `…_query_wellformed`: queried indices strictly increasing and in range, one utility per candidate;
* `…_update_accepts_query`: `update(candidates, query(candidates))` never raises;
* `…_update_commits`: the state after that `update` is the state the query simulated;
* `chunk_invariance_…`: labels granted over a whole stream and the final state do not depend on how the
  stream is cut into `query`/`update` chunks — for fixed, variable (current code, after eebfd1c6), split,
  random, BIQF, periodic, stream random sampling; for the two managers that consume normal draws the
  claim is not made (the property excludes them), only `u`/`theta` commitment is proved;
* CognitiveDualQueryStrategy: `cognitive_update_accepts` (current code, after a01696e6) at full strength;
  the counterexamples about the code before that commit live in `Ska.C10.Regressions`;
* `density_chunk_dependence_counterexample`: the density / cognitive strategies judge every instance of a
  chunk against the manager state from before the chunk — their grants depend on the chunking.

Everything except the concrete counterexamples holds over every numeric carrier with the operations
used by the models (no field axioms needed), all parameters, utility streams incl. NaN, random streams.
-/

set_option linter.unusedSectionVars false

namespace Ska.C10
open Ska Ska.Budget

section Generic
variable {σ ι : Type}

/-- A manager that refines a per-instance process returns well-formed indices. -/
theorem refines_query_wellformed {M : Mgr σ ι} {step : σ → ι → Bool × σ} (h : Refines M step) (s : σ) (xs : List ι) :
    (M.query s xs).1.Pairwise (· < ·) ∧ ∀ i ∈ (M.query s xs).1, i < xs.length := by
  rw [h.query_eq]
  have := idxOf_wellformed (simLoop step s xs).1
  rwa [simLoop_length] at this

/-- … accepts its own query result, and commits exactly the simulated state. -/
theorem refines_update_commits {M : Mgr σ ι} {step : σ → ι → Bool × σ} (h : Refines M step) (s : σ) (xs : List ι) :
    M.update (M.query s xs).2 xs (M.query s xs).1 = .ok (simLoop step s xs).2 := by
  rw [h.query_eq]; exact h.update_eq s xs

/-- **chunk invariance**: two chunkings of the same stream give the same granted labels (as positions
in the stream) and the same final state; neither run raises. -/
theorem refines_chunk_invariance {M : Mgr σ ι} {step : σ → ι → Bool × σ} (h : Refines M step) (s : σ)
    (c1 c2 : List (List ι)) (hc : c1.flatten = c2.flatten) :
    runChunked M s c1 0 = runChunked M s c2 0 ∧ ∃ r, runChunked M s c1 0 = .ok r := by
  rw [runChunked_eq h, runChunked_eq h, hc]
  exact ⟨rfl, _, rfl⟩

end Generic

section Managers
variable {α : Type} [Add α] [Sub α] [Mul α] [Div α] [LT α] [DecidableLT α] [OfNat α 0] [OfNat α 1]

/-! ### query_indices_wellformed -/

theorem fixed_query_wellformed (p : ZParams α) (s : ZState α) (us : List (Option α)) :
    ((fixedMgr p).query s us).1.Pairwise (· < ·) ∧ ∀ i ∈ ((fixedMgr p).query s us).1, i < us.length :=
  refines_query_wellformed (fixed_refines p) s us

theorem variable_query_wellformed (p : ZParams α) (s : ZState α) (us : List (Option α)) :
    ((varMgr p).query s us).1.Pairwise (· < ·) ∧ ∀ i ∈ ((varMgr p).query s us).1, i < us.length :=
  refines_query_wellformed (var_refines p) s us

theorem split_query_wellformed (p : ZParams α) (uni : Nat → α) (s : ZState α) (us : List (Option α)) :
    ((splitMgr p uni).query s us).1.Pairwise (· < ·) ∧ ∀ i ∈ ((splitMgr p uni).query s us).1, i < us.length :=
  refines_query_wellformed (split_refines p uni) s us

theorem random_query_wellformed (p : ZParams α) (uni : Nat → α) (s : ZState α) (us : List (Option α)) :
    ((randomMgr p uni).query s us).1.Pairwise (· < ·) ∧ ∀ i ∈ ((randomMgr p uni).query s us).1, i < us.length :=
  refines_query_wellformed (random_refines p uni) s us

theorem randVar_query_wellformed (p : ZParams α) (nrm : Nat → α) (s : ZState α) (us : List (Option α)) :
    ((randVarMgr p nrm).query s us).1.Pairwise (· < ·) ∧ ∀ i ∈ ((randVarMgr p nrm).query s us).1, i < us.length := by
  simp only [randVarMgr, randVarQuery, zQuery_eq]
  have := idxOf_wellformed (simLoop (randVarBody p nrm) s us).1
  rwa [simLoop_length] at this

/-! ### update_accepts_query / update commits the simulation -/

theorem fixed_update_commits (p : ZParams α) (s : ZState α) (us : List (Option α)) :
    (fixedMgr p).update ((fixedMgr p).query s us).2 us ((fixedMgr p).query s us).1 = .ok (simLoop (fixedBody p) s us).2 :=
  refines_update_commits (fixed_refines p) s us

/-- current code (after eebfd1c6): `theta_` and `u_t_` after update are the simulated `tmp_theta`, `tmp_u_t` -/
theorem variable_update_commits (p : ZParams α) (s : ZState α) (us : List (Option α)) :
    (varMgr p).update ((varMgr p).query s us).2 us ((varMgr p).query s us).1 = .ok (simLoop (varBody p) s us).2 :=
  refines_update_commits (var_refines p) s us

/-- the generator is advanced by exactly the draws the query simulated -/
theorem split_update_commits (p : ZParams α) (uni : Nat → α) (s : ZState α) (us : List (Option α)) :
    (splitMgr p uni).update ((splitMgr p uni).query s us).2 us ((splitMgr p uni).query s us).1
      = .ok (simLoop (splitBody p uni) s us).2 :=
  refines_update_commits (split_refines p uni) s us

theorem random_update_commits (p : ZParams α) (uni : Nat → α) (s : ZState α) (us : List (Option α)) :
    (randomMgr p uni).update ((randomMgr p uni).query s us).2 us ((randomMgr p uni).query s us).1
      = .ok (simLoop (randomBody p uni) s us).2 :=
  refines_update_commits (random_refines p uni) s us

/-- RandomVariableUncertaintyBudgetManager: update accepts the query result and commits the simulated
`u_t_` and `theta_`; the generator is advanced by `len(candidates)` uniform draws, *not* by the normal
draws of the simulation (hence no chunk-invariance claim, as the property says). -/
theorem randVar_update_accepts_query (p : ZParams α) (nrm : Nat → α) (s : ZState α) (us : List (Option α)) :
    (randVarMgr p nrm).update ((randVarMgr p nrm).query s us).2 us ((randVarMgr p nrm).query s us).1
      = .ok { u := (simLoop (randVarBody p nrm) s us).2.u, theta := (simLoop (randVarBody p nrm) s us).2.theta,
              rng := s.rng + us.length } := by
  obtain ⟨h1, h2⟩ := randVar_commit p nrm us s
  simp only [randVarMgr, randVarQuery, zQuery_eq, randVarUpdate, bitsOf_sim, h1, h2]

/-! ### chunk_invariance -/

theorem chunk_invariance_fixed (p : ZParams α) (s : ZState α) (c1 c2 : List (List (Option α)))
    (hc : c1.flatten = c2.flatten) :
    runChunked (fixedMgr p) s c1 0 = runChunked (fixedMgr p) s c2 0 ∧ ∃ r, runChunked (fixedMgr p) s c1 0 = .ok r :=
  refines_chunk_invariance (fixed_refines p) s c1 c2 hc

/-- true of the current code (the `theta_` loop of `update` advances its copy of `u_t_`); on the code
before commit eebfd1c6 this statement was false. -/
theorem chunk_invariance_variable (p : ZParams α) (s : ZState α) (c1 c2 : List (List (Option α)))
    (hc : c1.flatten = c2.flatten) :
    runChunked (varMgr p) s c1 0 = runChunked (varMgr p) s c2 0 ∧ ∃ r, runChunked (varMgr p) s c1 0 = .ok r :=
  refines_chunk_invariance (var_refines p) s c1 c2 hc

theorem chunk_invariance_split (p : ZParams α) (uni : Nat → α) (s : ZState α) (c1 c2 : List (List (Option α)))
    (hc : c1.flatten = c2.flatten) :
    runChunked (splitMgr p uni) s c1 0 = runChunked (splitMgr p uni) s c2 0 ∧
      ∃ r, runChunked (splitMgr p uni) s c1 0 = .ok r :=
  refines_chunk_invariance (split_refines p uni) s c1 c2 hc

theorem chunk_invariance_random (p : ZParams α) (uni : Nat → α) (s : ZState α) (c1 c2 : List (List (Option α)))
    (hc : c1.flatten = c2.flatten) :
    runChunked (randomMgr p uni) s c1 0 = runChunked (randomMgr p uni) s c2 0 ∧
      ∃ r, runChunked (randomMgr p uni) s c1 0 = .ok r :=
  refines_chunk_invariance (random_refines p uni) s c1 c2 hc

variable [NatCast α]

theorem dbSplit_query_wellformed (p : DParams α) (nrm : Nat → α) (s : DState α) (us : List (Option α)) :
    ((dbMgr p nrm).query s us).1.Pairwise (· < ·) ∧ ∀ i ∈ ((dbMgr p nrm).query s us).1, i < us.length := by
  have := idxOf_wellformed (simLoop (dbBody p nrm) s us).1
  rw [simLoop_length] at this
  exact this

/-- DensityBasedSplitBudgetManager: update accepts the query result and commits the simulated `u_`,
`t_`, `theta_`; the generator is advanced by `len(candidates)` uniform draws. -/
theorem dbSplit_update_accepts_query (p : DParams α) (nrm : Nat → α) (s : DState α) (us : List (Option α)) :
    (dbMgr p nrm).update ((dbMgr p nrm).query s us).2 us ((dbMgr p nrm).query s us).1
      = .ok { (simLoop (dbBody p nrm) s us).2 with rng := s.rng + us.length } := by
  have hq : (dbMgr p nrm).query s us = (idxOf (simLoop (dbBody p nrm) s us).1 0, s) := by cases s; rfl
  rw [hq]
  simp only [dbMgr, dbUpdate, bitsOf_sim, db_commit]

theorem biqf_query_wellformed (p : QParams α) (qf : List (Option α) → Option α) (s : QState α) (us : List (Option α)) :
    ((biqfMgr p qf).query s us).1.Pairwise (· < ·) ∧ ∀ i ∈ ((biqfMgr p qf).query s us).1, i < us.length :=
  refines_query_wellformed (biqf_refines p qf) s us

/-- BIQF (with the chunk's utilities handed to `update`, as `StreamProbabilisticAL` requires) -/
theorem biqf_update_commits (p : QParams α) (qf : List (Option α) → Option α) (s : QState α) (us : List (Option α)) :
    (biqfMgr p qf).update ((biqfMgr p qf).query s us).2 us ((biqfMgr p qf).query s us).1
      = .ok (simLoop (biqfBody p qf) s us).2 :=
  refines_update_commits (biqf_refines p qf) s us

/-- for every quantile function (`np.quantile` is an oracle of the model) -/
theorem chunk_invariance_biqf (p : QParams α) (qf : List (Option α) → Option α) (s : QState α)
    (c1 c2 : List (List (Option α))) (hc : c1.flatten = c2.flatten) :
    runChunked (biqfMgr p qf) s c1 0 = runChunked (biqfMgr p qf) s c2 0 ∧
      ∃ r, runChunked (biqfMgr p qf) s c1 0 = .ok r :=
  refines_chunk_invariance (biqf_refines p qf) s c1 c2 hc

/-! ### baseline strategies -/

/-- StreamRandomSampling.query: indices well-formed, `utilities` has one entry per candidate. -/
theorem streamRandom_query_wellformed (allow : Bool) (b : α) (uni : Nat → α) (s : CState) (n : Nat) :
    (srsQuery allow b uni s n).1.1.Pairwise (· < ·) ∧ (∀ i ∈ (srsQuery allow b uni s n).1.1, i < n) ∧
    (srsQuery allow b uni s n).1.2.length = n := by
  have h := idxOf_wellformed (simLoop (srsBody allow b) s (draws uni s.rng n)).1
  rw [simLoop_length, draws_length] at h
  refine ⟨?_, ?_, draws_length _ _ _⟩
  · cases s; exact h.1
  · cases s; exact h.2

theorem periodic_query_wellformed (b : α) (s : CState) (n : Nat) :
    (perQuery b s n).1.1.Pairwise (· < ·) ∧ (∀ i ∈ (perQuery b s n).1.1, i < n) ∧ (perQuery b s n).1.2.length = n := by
  have h := idxOf_wellformed (simLoop (perBody b) s (List.replicate n ())).1
  rw [simLoop_length, List.length_replicate] at h
  refine ⟨h.1, h.2, ?_⟩
  simp [perQuery, simLoop_length]

theorem streamRandom_update_commits (allow : Bool) (b : α) (uni : Nat → α) (s : CState) (c : List Unit) :
    (srsMgr allow b uni).update ((srsMgr allow b uni).query s c).2 c ((srsMgr allow b uni).query s c).1
      = .ok (simLoop (srsStep allow b uni) s c).2 :=
  refines_update_commits (srs_refines allow b uni) s c

theorem periodic_update_commits (b : α) (s : CState) (c : List Unit) :
    (perMgr b).update ((perMgr b).query s c).2 c ((perMgr b).query s c).1 = .ok (simLoop (perBody b) s c).2 :=
  refines_update_commits (per_refines b) s c

theorem chunk_invariance_streamRandom (allow : Bool) (b : α) (uni : Nat → α) (s : CState)
    (c1 c2 : List (List Unit)) (hc : c1.flatten = c2.flatten) :
    runChunked (srsMgr allow b uni) s c1 0 = runChunked (srsMgr allow b uni) s c2 0 ∧
      ∃ r, runChunked (srsMgr allow b uni) s c1 0 = .ok r :=
  refines_chunk_invariance (srs_refines allow b uni) s c1 c2 hc

theorem chunk_invariance_periodic (b : α) (s : CState) (c1 c2 : List (List Unit)) (hc : c1.flatten = c2.flatten) :
    runChunked (perMgr b) s c1 0 = runChunked (perMgr b) s c2 0 ∧ ∃ r, runChunked (perMgr b) s c1 0 = .ok r :=
  refines_chunk_invariance (per_refines b) s c1 c2 hc

end Managers

/-! ### strategies that delegate to a budget manager -/

section Glue
variable {σ ι κ : Type}

/-- UncertaintyZliobaite / StreamProbabilisticAL: whatever the classifier reports as utilities, update
accepts the query result and the strategy commits what its manager commits. -/
theorem utilStrategy_update_commits (util : κ → ι) {M : Mgr σ ι} {step : σ → ι → Bool × σ} (h : Refines M step)
    (s : σ) (c : List κ) :
    (utilStrategy util M).update ((utilStrategy util M).query s c).2 c ((utilStrategy util M).query s c).1
      = .ok (simLoop step s (c.map util)).2 :=
  refines_update_commits h s (c.map util)

theorem utilStrategy_query_wellformed (util : κ → ι) {M : Mgr σ ι} {step : σ → ι → Bool × σ} (h : Refines M step)
    (s : σ) (c : List κ) :
    ((utilStrategy util M).query s c).1.Pairwise (· < ·) ∧ ∀ i ∈ ((utilStrategy util M).query s c).1, i < c.length := by
  have := refines_query_wellformed h s (c.map util)
  simpa [utilStrategy] using this

/-- StreamDensityBasedAL / CognitiveDualQueryStrategy: the indices returned by query are well-formed
positions of the unfiltered chunk. -/
theorem density_query_wellformed (M : Mgr σ (Option ι)) (s : σ) (c : List (Bool × Option ι)) :
    (densityQuery M s c).1.Pairwise (· < ·) ∧ ∀ i ∈ (densityQuery M s c).1, i < c.length := by
  have := idxOf_wellformed (densityDecisions M s c)
  rwa [densityDecisions_length] at this

/-- **density_update_accepts** — `StreamDensityBasedAL`: failing instances are kept as NaN placeholders,
`new_candidates` has the length of the chunk, so a manager whose `update` only fails on out-of-range
indices accepts every query result. (`hM` holds for all seven managers: "`bitsOf n idx`, then commit".) -/
theorem density_update_accepts (M : Mgr σ (Option ι)) (s : σ) (c : List (Bool × Option ι))
    (hM : ∀ s (xs : List (Option ι)) idx, (∀ i ∈ idx, i < xs.length) → ∃ s', M.update s xs idx = .ok s') :
    ∃ s', (densityStrategy true M).update ((densityStrategy true M).query s c).2 c
      ((densityStrategy true M).query s c).1 = .ok s' := by
  apply hM
  intro i hi
  have := (density_query_wellformed M s c).2 i hi
  have hf : c.filter (passedOn true) = c := List.filter_eq_self.mpr (fun _ _ => rfl)
  simpa [newCandidates, hf] using this

/-- **cognitive_update_accepts** (current code, commit a01696e6), full strength: for both values of
`force_full_budget`, every chunk, every pattern of density-filter outcomes and every manager state,
`update(chunk, query(chunk))` hands the manager a list of indices `js`, one per queried instance, such
that `js[t]` is in range of `new_candidates` **and `new_candidates[js[t]]` is the entry appended for the
queried instance `idx[t]`** (each label is booked on the same instance); hence a manager that only
fails on out-of-range indices accepts. -/
theorem cognitive_update_accepts (ffb : Bool) (M : Mgr σ (Option ι)) (s : σ) (c : List (Bool × Option ι))
    (hM : ∀ s (xs : List (Option ι)) idx, (∀ i ∈ idx, i < xs.length) → ∃ s', M.update s xs idx = .ok s') :
    ∃ js, remap (newPositions ffb c 0) ((cognitiveStrategy ffb M).query s c).1 = .ok js ∧
      List.Forall₂ (fun i j => ∃ hi : i < c.length, (newCandidates ffb c)[j]? = some (entryOf c[i]))
        ((cognitiveStrategy ffb M).query s c).1 js ∧
      ∃ s', (cognitiveStrategy ffb M).update ((cognitiveStrategy ffb M).query s c).2 c
        ((cognitiveStrategy ffb M).query s c).1 = .ok s' := by
  have hspec : ∀ i ∈ (densityQuery M s c).1, ∃ j, (newPositions ffb c 0).getD i none = some j ∧
      ∃ hi : i < c.length, (newCandidates ffb c)[j]? = some (entryOf c[i]) := by
    intro i hi
    obtain ⟨-, hbit⟩ := (mem_idxOf (densityDecisions M s c) 0 i).mp hi
    obtain ⟨hlt, hpass⟩ := densityDecisions_pass M s c i (by simpa using hbit)
    obtain ⟨j, h1, h2⟩ := newPositions_spec ffb c 0 i hlt (by simp [passedOn, hpass])
    exact ⟨j, by simpa using h1, hlt, h2⟩
  obtain ⟨js, hjs, hf⟩ := remap_ok _ _ _ hspec
  refine ⟨js, hjs, hf, ?_⟩
  have hrange : ∀ j ∈ js, j < (newCandidates ffb c).length :=
    forall₂_right (Q := fun j => j < (newCandidates ffb c).length) hf
      (by rintro i j ⟨_, h⟩; exact (List.getElem?_eq_some_iff.mp h).1)
  obtain ⟨s', hs'⟩ := hM s (newCandidates ffb c) js hrange
  refine ⟨s', ?_⟩
  show cognitiveUpdate ffb M s c (densityQuery M s c).1 = .ok s'
  simp only [cognitiveUpdate]
  have hjs' : remap (newPositions ffb c 0) (densityQuery M s c).1 = .ok js := hjs
  rw [hjs']
  exact hs'

/-- the hypothesis `hM` of the two theorems above holds for the managers (here: fixed; the others
have the same shape `match bitsOf n idx with …`) -/
theorem fixed_update_total {α : Type} [Add α] [Sub α] [Mul α] [Div α] [LT α] [DecidableLT α] [OfNat α 0]
    [OfNat α 1] (p : ZParams α) (s : ZState α) (xs : List (Option α)) (idx : List Nat)
    (h : ∀ i ∈ idx, i < xs.length) : ∃ s', (fixedMgr p).update s xs idx = .ok s' := by
  have hall : idx.all (fun i => decide (i < xs.length)) = true := by
    rw [List.all_eq_true]; intro i hi; simpa using h i hi
  simp only [fixedMgr, fixedUpdate, bitsOf, hall, if_true]
  exact ⟨_, rfl⟩

end Glue

/-! ### regressions: the code before commit a01696e6 -/

namespace Regressions

/-- **cognitive_update_counterexample** — for `CognitiveDualQueryStrategy(force_full_budget=False)`
*before* commit a01696e6 (`update` = `densityUpdate false`: indices handed over untranslated) the
statement "`update(chunk, query(chunk))` does not raise" was FALSE: a chunk whose first instance fails the
density filter (always the case for the very first instance of a stream) and whose second instance is
queried gives `queried_indices = [1]` while `new_candidates` has length 1 → IndexError.
Manager: FixedUncertainty, `w = 4`, budget `1/4`, over ℚ. -/
theorem cognitive_update_counterexample :
    let M := densityStrategy false (fixedMgr (α := ℚ) { w := 4, b := 1/4, s := 0, v := 0, nc := 2 })
    let s : ZState ℚ := { u := 0, theta := 0, rng := 0 }
    let chunk : List (Bool × Option ℚ) := [(false, some 1), (true, some 1)]
    (M.query s chunk).1 = [1] ∧ M.update (M.query s chunk).2 chunk (M.query s chunk).1 = .error .indexError := by
  norm_num [densityStrategy, densityQuery, densityDecisions, densityUpdate, newCandidates, passedOn, entryOf, fixedMgr,
    fixedQuery, zQuery, simLoop, fixedBody, fixedUpdate, bitsOf, idxOf, budgetLeft, leO, leB, conf, fixedTheta]

/-- … and when no exception was raised the label was booked on another instance: instance 1 was
queried, the manager was told that its second remaining candidate (instance 2) was. -/
theorem cognitive_update_misaddressed_counterexample :
    let M := densityStrategy false (fixedMgr (α := ℚ) { w := 4, b := 1/4, s := 0, v := 0, nc := 2 })
    let s : ZState ℚ := { u := 0, theta := 0, rng := 0 }
    let chunk : List (Bool × Option ℚ) := [(false, some 1), (true, some 1), (true, none)]
    (M.query s chunk).1 = [1] ∧
    bitsOf (newCandidates false chunk).length (M.query s chunk).1 = .ok [false, true] := by
  norm_num [densityStrategy, densityQuery, densityDecisions, newCandidates, passedOn, entryOf, fixedMgr, fixedQuery,
    zQuery, simLoop, fixedBody, bitsOf, idxOf, budgetLeft, leO, leB, conf, fixedTheta, List.range, List.range.loop]

/-- the same two chunks on the current code: accepted, and instance 1 is booked at position 0 = its
position among the instances passed on. -/
theorem cognitive_update_repaired_example :
    let M := cognitiveStrategy false (fixedMgr (α := ℚ) { w := 4, b := 1/4, s := 0, v := 0, nc := 2 })
    let s : ZState ℚ := { u := 0, theta := 0, rng := 0 }
    let chunk : List (Bool × Option ℚ) := [(false, some 1), (true, some 1), (true, none)]
    (M.query s chunk).1 = [1] ∧ remap (newPositions false chunk 0) (M.query s chunk).1 = .ok [0] ∧
    M.update (M.query s chunk).2 chunk (M.query s chunk).1 = .ok { u := 3/4, theta := 0, rng := 0 } := by
  norm_num [cognitiveStrategy, cognitiveUpdate, remap, newPositions, densityQuery, densityDecisions, newCandidates,
    passedOn, entryOf, fixedMgr, fixedQuery, zQuery, simLoop, fixedBody, fixedUpdate, bitsOf, idxOf, budgetLeft, leO,
    leB, conf, fixedTheta, List.range, List.range.loop, uPass, nextU]

end Regressions

/-! ### the density / cognitive strategies are chunk dependent (current code) -/

/-- **density_chunk_dependence_counterexample.**  The statement
`∀ c1 c2, c1.flatten = c2.flatten → runChunked (densityStrategy true M) s c1 0 = runChunked (densityStrategy true M) s c2 0`
(chunk invariance of `StreamDensityBasedAL` over a deterministic manager; likewise for
`cognitiveStrategy ffb M`, which has the same `query`) is FALSE of the current code: `query` judges
every instance of a chunk by a one-element `query_by_utility` against the manager state from *before
the chunk*, so the budget guard never sees the labels granted earlier in the same chunk.
VariableUncertainty manager, `w = 4`, budget `1/4`, four instances of which the first fails the density
filter: as one chunk the instances 1, 2, 3 are granted (3 labels although `u_t_/w` reaches the budget
after the first), one by one only 1 and 3. -/
theorem density_chunk_dependence_counterexample :
    let M := densityStrategy true (varMgr (α := ℚ) { w := 4, b := 1/4, s := 1/4, v := 0, nc := 0 })
    let s : ZState ℚ := { u := 0, theta := 1, rng := 0 }
    let x0 : Bool × Option ℚ := (false, some (1/2))
    let x : Bool × Option ℚ := (true, some (1/2))
    (runChunked M s [[x0, x, x, x]] 0).map (·.1) = .ok [1, 2, 3] ∧
    (runChunked M s [[x0], [x], [x], [x]] 0).map (·.1) = .ok [1, 3] := by
  norm_num [runChunked, densityStrategy, densityQuery, densityDecisions, densityUpdate, newCandidates, passedOn,
    entryOf, varMgr, varQuery, zQuery, simLoop, varBody, varUpdate, bitsOf, idxOf, budgetLeft, ltO, conf, scale,
    thetaPass, uPass, nextU, List.range, List.range.loop, Except.map]

/-- the same for `CognitiveDualQueryStrategy(force_full_budget=True)` -/
theorem cognitive_chunk_dependence_counterexample :
    let M := cognitiveStrategy true (varMgr (α := ℚ) { w := 4, b := 1/4, s := 1/4, v := 0, nc := 0 })
    let s : ZState ℚ := { u := 0, theta := 1, rng := 0 }
    let x0 : Bool × Option ℚ := (false, some (1/2))
    let x : Bool × Option ℚ := (true, some (1/2))
    (runChunked M s [[x0, x, x, x]] 0).map (·.1) = .ok [1, 2, 3] ∧
    (runChunked M s [[x0], [x], [x], [x]] 0).map (·.1) = .ok [1, 3] := by
  norm_num [runChunked, cognitiveStrategy, cognitiveUpdate, remap, newPositions, densityQuery, densityDecisions,
    newCandidates, passedOn, entryOf, varMgr, varQuery, zQuery, simLoop, varBody, varUpdate, bitsOf, idxOf, budgetLeft,
    ltO, conf, scale, thetaPass, uPass, nextU, List.range, List.range.loop, Except.map]

/-- **density_chunk_invariance_partial**: with chunks of size one the strategies are the per-instance
process by definition, and within a chunk the *decisions* are those of one-element queries on the
state before the chunk — which is all that can be said. -/
theorem density_chunk_invariance_partial {σ ι : Type} (M : Mgr σ (Option ι)) (s : σ) (c : List (Bool × Option ι)) (i : Nat)
    (hi : i < c.length) :
    (densityDecisions M s c)[i]? = some (c[i].1 && !(M.query s [c[i].2]).1.isEmpty) := by
  induction c generalizing i with
  | nil => simp at hi
  | cons x xs ih =>
    obtain ⟨p, u⟩ := x
    cases i with
    | zero => cases p <;> simp [densityDecisions]
    | succ i =>
      have hi' : i < xs.length := by simpa using hi
      simpa [densityDecisions] using ih i hi'

/-- concrete instance of chunk invariance over ℚ (hypotheses satisfiable; the guard boundary
`u_t_/w = budget` is crossed inside a chunk) -/
example :
    runChunked (varMgr (α := ℚ) { w := 4, b := 1/4, s := 1/2, v := 0, nc := 0 }) { u := 0, theta := 1, rng := 0 }
      [[some 1, some 1, some 1]] 0 =
    runChunked (varMgr (α := ℚ) { w := 4, b := 1/4, s := 1/2, v := 0, nc := 0 }) { u := 0, theta := 1, rng := 0 }
      [[some 1], [some 1], [some 1]] 0 :=
  (chunk_invariance_variable _ _ [[some 1, some 1, some 1]] [[some 1], [some 1], [some 1]] (by simp)).1

end Ska.C10
