import SkaModel.Lemmas.Pool

/-!
# C02 — returned utilities agree with the returned selection

`ValidUtils` is the property's statement; `validUtilsB_iff` shows the Boolean decider the driver runs
on every implementation output decides exactly it; `poolQueryA_utils` proves it for the common
scatter + `simple_batch` tail ("Skeleton A") for all inputs; `stepwise_implies_valid` shows that
C02's step conditions imply the distinctness and membership clauses of C01.
-/

namespace Ska.C02
open Ska Ska.C18

variable {α : Type} [LinearOrder α] [Zero α]

/-- what the chosen entry of a row must satisfy -/
def PickOK (kind : SelKind) (row : List (Option α)) (pick : Nat) : Prop :=
  match kind with
  | .max => ∃ m, nanmax row = some m ∧ row[pick]? = some (some m)
  | .mass => ∃ v, row[pick]? = some (some v) ∧ 0 < v
  | .number => ∃ v, row[pick]? = some (some v)

/-- Row `k` of the utilities: one column per sample, NaN exactly at the positions that are not
selectable at this step (non-candidates and earlier picks), and the pick is OK. -/
def RowOK (kind : SelKind) (n : Nat) (cand earlier : List Nat) (pick : Nat) (row : List (Option α)) : Prop :=
  row.length = n ∧ (∀ j, j < n → (row[j]? = some none ↔ (j ∉ cand ∨ j ∈ earlier))) ∧ PickOK kind row pick

/-- **C02**: one row per selected sample; row `k` is `RowOK` w.r.t. the picks `0..k-1`. -/
def ValidUtils (kind : SelKind) (n : Nat) (cand q : List Nat) (U : List (List (Option α))) : Prop :=
  U.length = q.length ∧
  ∀ k, ∀ hk : k < q.length, ∀ hu : k < U.length, RowOK kind n cand (q.take k) q[k] U[k]

/-! ### the decider is sound and complete -/

theorem getD_isNone_iff (row : List (Option α)) (j : Nat) (hj : j < row.length) :
    (row.getD j none).isNone = true ↔ row[j]? = some none := by
  rw [List.getD_eq_getElem?_getD, List.getElem?_eq_getElem hj]
  cases row[j] <;> simp

theorem bool_pattern_iff (a p q : Bool) :
    (a == (!p || q)) = true ↔ (a = true ↔ (p = false ∨ q = true)) := by
  cases a <;> cases p <;> cases q <;> simp

theorem nanPatternRowB_iff (n : Nat) (cand earlier : List Nat) (row : List (Option α)) :
    nanPatternRowB n cand earlier row = true ↔
      (row.length = n ∧ ∀ j, j < n → (row[j]? = some none ↔ (j ∉ cand ∨ j ∈ earlier))) := by
  unfold nanPatternRowB
  simp only [Bool.and_eq_true, decide_eq_true_eq, List.all_eq_true, List.mem_range, bool_pattern_iff]
  constructor
  · rintro ⟨hl, h⟩
    refine ⟨hl, ?_⟩
    intro j hj
    rw [← getD_isNone_iff row j (by omega), h j hj]
    simp
  · rintro ⟨hl, h⟩
    refine ⟨hl, ?_⟩
    intro j hj
    rw [getD_isNone_iff row j (by omega), h j hj]
    simp

theorem pickOkB_iff (kind : SelKind) (row : List (Option α)) (pick : Nat) :
    pickOkB kind row pick = true ↔ PickOK kind row pick := by
  cases kind with
  | max =>
    simp only [pickOkB, argmaxRowB, PickOK]
    rw [List.getD_eq_getElem?_getD]
    cases hm : nanmax row with
    | none => simp
    | some m =>
      cases hp : row[pick]? with
      | none => simp
      | some x =>
        cases x with
        | none => simp
        | some v =>
          simp only [Option.getD_some, eqv_iff, Option.some.injEq, exists_eq_left']
  | mass =>
    simp only [pickOkB, posMassRowB, PickOK]
    rw [List.getD_eq_getElem?_getD]
    cases hp : row[pick]? with
    | none => simp
    | some x => cases x <;> simp
  | number =>
    simp only [pickOkB, numberRowB, PickOK]
    rw [List.getD_eq_getElem?_getD]
    cases hp : row[pick]? with
    | none => simp
    | some x => cases x <;> simp

theorem validRowsB_iff (kind : SelKind) (n : Nat) (cand : List Nat) (earlier q : List Nat)
    (U : List (List (Option α))) :
    validRowsB kind n cand earlier q U = true ↔
      (U.length = q.length ∧
        ∀ k, ∀ hk : k < q.length, ∀ hu : k < U.length,
          RowOK kind n cand (earlier ++ q.take k) q[k] U[k]) := by
  induction q generalizing earlier U with
  | nil =>
    cases U with
    | nil => simp [validRowsB]
    | cons r rs => simp [validRowsB]
  | cons p ps ih =>
    cases U with
    | nil => simp [validRowsB]
    | cons row rows =>
      simp only [validRowsB, Bool.and_eq_true, ih, nanPatternRowB_iff, pickOkB_iff, List.length_cons,
        Nat.add_right_cancel_iff]
      constructor
      · rintro ⟨⟨⟨hl, hp⟩, hpk⟩, hlen, hrest⟩
        refine ⟨hlen, ?_⟩
        intro k hk hu
        cases k with
        | zero => simpa [RowOK] using ⟨hl, hp, hpk⟩
        | succ k =>
          have := hrest k (by omega) (by omega)
          simpa [List.append_assoc] using this
      · rintro ⟨hlen, h⟩
        have h0 := h 0 (by omega) (by omega)
        simp only [RowOK, List.take_zero, List.append_nil, List.getElem_cons_zero] at h0
        refine ⟨⟨⟨h0.1, h0.2.1⟩, h0.2.2⟩, hlen, ?_⟩
        intro k hk hu
        have := h (k+1) (by omega) (by omega)
        simpa [List.append_assoc] using this

/-- The Boolean the driver evaluates on implementation outputs decides exactly `ValidUtils`. -/
theorem validUtilsB_iff (kind : SelKind) (n : Nat) (cand q : List Nat) (U : List (List (Option α))) :
    validUtilsB kind n cand q U = true ↔ ValidUtils kind n cand q U := by
  unfold validUtilsB ValidUtils
  rw [validRowsB_iff]
  simp

/-! ### C02's step conditions imply distinctness and membership (half of C01) -/

theorem nodup_of_not_mem_take (q : List Nat) (h : ∀ k, ∀ hk : k < q.length, q[k] ∉ q.take k) : q.Nodup := by
  unfold List.Nodup
  rw [List.pairwise_iff_getElem]
  intro i j hi hj hij heq
  apply h j hj
  rw [← heq]
  have hi' : i < (q.take j).length := by simp; omega
  have : (q.take j)[i] = q[i] := by simp
  rw [← this]
  exact List.getElem_mem hi'

/-- Any `(q, U)` satisfying C02 (with any selection kind) consists of pairwise distinct candidates. -/
theorem stepwise_implies_valid (kind : SelKind) (n : Nat) (cand q : List Nat)
    (U : List (List (Option α))) (h : ValidUtils kind n cand q U) :
    q.Nodup ∧ ∀ i ∈ q, i ∈ cand ∧ i < n := by
  obtain ⟨hlen, hrows⟩ := h
  have key : ∀ k, ∀ hk : k < q.length, q[k] < n ∧ q[k] ∈ cand ∧ q[k] ∉ q.take k := by
    intro k hk
    obtain ⟨hl, hnan, hpick⟩ := hrows k hk (by omega)
    have hnum : ∃ v, (U[k]'(by omega))[q[k]]? = some (some v) := by
      cases kind with
      | max => obtain ⟨m, _, hm⟩ := hpick; exact ⟨m, hm⟩
      | mass => obtain ⟨v, hv, _⟩ := hpick; exact ⟨v, hv⟩
      | number => exact hpick
    obtain ⟨v, hv⟩ := hnum
    have hlt : q[k] < n := by
      rcases Nat.lt_or_ge q[k] n with h' | h'
      · exact h'
      · rw [List.getElem?_eq_none (by omega)] at hv; cases hv
    have := hnan q[k] hlt
    rw [hv] at this
    simp only [Option.some.injEq, reduceCtorEq, false_iff, not_or, not_not] at this
    exact ⟨hlt, this.1, this.2⟩
  refine ⟨nodup_of_not_mem_take q (fun k hk => (key k hk).2.2), ?_⟩
  intro i hi
  obtain ⟨k, hk, rfl⟩ := List.getElem_of_mem hi
  exact ⟨(key k hk).2.1, (key k hk).1⟩

/-! ### Skeleton A satisfies C02, for all inputs -/

variable {β : Type} [LinearOrder β] [Zero β] [Add α]

/-- `simple_batch` in max mode returns utilities that agree with its selection, with the candidate
set being any index list `cand` that marks exactly the non-NaN entries of `u`. -/
theorem simpleBatch_max_validUtils (isInf : α → Bool) (u : List (Option α)) (cand : List Nat)
    (b : Nat) (noises : List (List β)) (choice : List Nat)
    (hc : ∀ j, j < u.length → (u[j]? = some none ↔ j ∉ cand))
    (hfin : ∀ v, some v ∈ u → isInf v = false) (hb : 1 ≤ b)
    (hn : min b (countSome u) ≤ noises.length) (hpos : PosNoise u.length noises) :
    ∃ rs, simpleBatch isInf u b .max noises choice = .ok rs ∧
      rs.length = min b (countSome u) ∧
      ValidUtils .max u.length cand (rs.map Prod.fst) (rs.map Prod.snd) := by
  obtain ⟨rs, hrs, hl, hstep, -, -, hrows, -⟩ :=
    simpleBatch_max_spec isInf u b noises choice hfin hb hn hpos
  refine ⟨rs, hrs, hl, by simp, ?_⟩
  intro k hk hu
  have hk' : k < rs.length := by simpa using hk
  simp only [List.getElem_map]
  have hrow := hrows k hk'
  have hmax := stepMax_rows_max _ rs hstep k hk'
  refine ⟨?_, ?_, hmax⟩
  · rw [hrow, setNones_length]
  · intro j hj
    rw [hrow, getElem?_setNones]
    by_cases hin : j ∈ List.take k (List.map Prod.fst rs)
    · simp [hin, hj]
    · simp [hin, hc j hj]

/-- **Skeleton A (max mode) returns utilities that agree with the selection**, for every pool size
`n`, every mapping (distinct rows of `X`), every candidate utility vector without NaN / infinities,
every batch size ≥ 1 and all positive noise draws. -/
theorem poolQueryA_utils (isInf : α → Bool) (n : Nat) (mp : List Nat) (uc : List (Option α))
    (b : Nat) (noises : List (List β)) (choice : List Nat)
    (hlen : uc.length = mp.length) (hnd : mp.Nodup) (hr : ∀ i ∈ mp, i < n)
    (hall : ∀ x ∈ uc, ∃ v, x = some v ∧ isInf v = false) (hb : 1 ≤ b) (hne : 1 ≤ mp.length)
    (hn : min b mp.length ≤ noises.length) (hpos : PosNoise n noises) :
    ∃ rs, poolQueryA isInf n (some mp) uc b .max noises choice = .ok rs ∧
      rs.length = min b mp.length ∧
      ValidUtils .max n mp (rs.map Prod.fst) (rs.map Prod.snd) := by
  have hall' : ∀ x ∈ uc, ∃ v, x = some v := fun x hx => let ⟨v, hv, _⟩ := hall x hx; ⟨v, hv⟩
  have hcount := countSome_scatter n mp uc hlen hnd hr hall'
  have hfin : ∀ v, some v ∈ scatter n mp uc → isInf v = false := by
    intro v hv
    obtain ⟨j, hj, hjv⟩ := List.getElem_of_mem hv
    have hjm : j ∈ mp := scatter_some_mem n mp uc j v (by rw [List.getElem?_eq_getElem hj, hjv])
    obtain ⟨k, hk, rfl⟩ := List.getElem_of_mem hjm
    have := scatter_getElem?_mem n mp uc hlen hnd hr k hk
    rw [List.getElem?_eq_getElem hj, hjv] at this
    simp only [Option.some.injEq] at this
    obtain ⟨w, hw, hwi⟩ := hall _ (List.getElem_mem (by omega : k < uc.length))
    rw [← this] at hw
    simp only [Option.some.injEq] at hw
    subst hw; exact hwi
  have hc : ∀ j, j < (scatter n mp uc).length → ((scatter n mp uc)[j]? = some none ↔ j ∉ mp) := by
    intro j hj
    rw [scatter_length] at hj
    constructor
    · intro h hm
      obtain ⟨k', hk', rfl⟩ := List.getElem_of_mem hm
      rw [scatter_getElem?_mem n mp uc hlen hnd hr k' hk'] at h
      obtain ⟨w, hw⟩ := hall' _ (List.getElem_mem (by omega : k' < uc.length))
      rw [hw] at h; cases h
    · exact scatter_getElem?_not_mem n mp uc j hj
  obtain ⟨rs, hrs, hl, hv⟩ :=
    simpleBatch_max_validUtils isInf (scatter n mp uc) mp (min b mp.length) noises choice hc hfin
      (by omega) (by rw [hcount]; simpa using hn) (by rw [scatter_length]; exact hpos)
  rw [scatter_length] at hv
  refine ⟨rs, ?_, by rw [hl, hcount]; omega, hv⟩
  unfold poolQueryA
  rw [if_neg (by omega)]
  exact hrs

/-- The same for feature-row candidates (no mapping): one column per candidate row, candidates are
all row numbers `0..nCand-1`. -/
theorem poolQueryA_utils_rows (isInf : α → Bool) (n : Nat) (uc : List (Option α))
    (b : Nat) (noises : List (List β)) (choice : List Nat)
    (hall : ∀ x ∈ uc, ∃ v, x = some v ∧ isInf v = false) (hb : 1 ≤ b) (hne : 1 ≤ uc.length)
    (hn : min b uc.length ≤ noises.length) (hpos : PosNoise uc.length noises) :
    ∃ rs, poolQueryA isInf n none uc b .max noises choice = .ok rs ∧
      rs.length = min b uc.length ∧
      ValidUtils .max uc.length (List.range uc.length) (rs.map Prod.fst) (rs.map Prod.snd) := by
  have hcount : countSome uc = uc.length := by
    clear hn hpos hne
    induction uc with
    | nil => simp [countSome]
    | cons x xs ih =>
      obtain ⟨v, hv, -⟩ := hall x (List.mem_cons_self ..)
      subst hv
      have := ih (fun y hy => hall y (List.mem_cons_of_mem _ hy))
      simp only [countSome, List.filter, Option.isSome_some, List.length_cons] at this ⊢
      omega
  have hc : ∀ j, j < uc.length → (uc[j]? = some none ↔ j ∉ List.range uc.length) := by
    intro j hj
    constructor
    · intro h
      obtain ⟨v, hv, -⟩ := hall _ (List.getElem_mem hj)
      rw [List.getElem?_eq_getElem hj, hv] at h; cases h
    · intro h; exact absurd (List.mem_range.mpr hj) h
  have hfin : ∀ v, some v ∈ uc → isInf v = false := by
    intro v hv
    obtain ⟨w, hw, hwi⟩ := hall _ hv
    simp only [Option.some.injEq] at hw
    subst hw; exact hwi
  obtain ⟨rs, hrs, hl, hv⟩ :=
    simpleBatch_max_validUtils isInf uc (List.range uc.length) (min b uc.length) noises choice hc hfin
      (by omega) (by rw [hcount]; simpa using hn) hpos
  refine ⟨rs, ?_, by rw [hl, hcount]; omega, hv⟩
  unfold poolQueryA
  rw [if_neg (by omega)]
  exact hrs

/-- With no candidate at all the real code raises (`batch_size` is clipped to 0 and `simple_batch`
rejects it); the pool loop of C14 never calls `query` in that situation. -/
theorem poolQueryA_no_candidates_raises (isInf : α → Bool) (n : Nat) (uc : List (Option α)) (b : Nat)
    (m : Method) (noises : List (List β)) (choice : List Nat) (hb : 1 ≤ b)
    (hfin : ∀ v, some v ∈ scatter n [] uc → isInf v = false) :
    poolQueryA isInf n (some []) uc b m noises choice = .error .batchSize := by
  unfold poolQueryA
  rw [if_neg (by omega)]
  simp only [nCandOf, List.length_nil, Nat.min_zero, fullUtilities]
  exact simpleBatch_rejects_batch0 isInf _ m noises choice hfin

/-! ### non-vacuity -/

example : ValidUtils (α := Int) .max 3 [0, 2] [2, 0]
    [[some 1, none, some 4], [some 1, none, none]] := by
  rw [← validUtilsB_iff]; decide

end Ska.C02
