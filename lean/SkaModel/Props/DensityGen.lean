import SkaModel.Lemmas.DensityGen
import SkaModel.Props.C03dens

/-!
# C03 for the density-window kernel *as translated from the current Python source*

`SkaModel/Gen/DensityGen.lean` is re-written by `harness/translate/pydensity.py` from `StreamDensityBasedAL._calculate_ldf`
on every run of check C03.  `Lemmas/DensityGen.lean` proves the translated function equal to `Density.calcLdf` for all inputs
(any window contents, any lengths of the two deques, any distance function); here the window theorems of `Props/C03dens.lean`
are transferred to it.  Property theorems only.
-/

namespace Ska.DensityGenProps
open Ska Ska.Budget Ska.Density Ska.Gen.Dens Ska.DensityGen Ska.C03dens

variable {α : Type} [LT α] [DecidableLT α] {χ : Type}

/-- **tie**: the translated `_calculate_ldf` is the modelled one -/
theorem gen_calculate_ldf_eq (dist : χ → χ → α) (inf : α) (o : WObj α χ) (x : χ) :
    _calculate_ldf dist inf o x = ((calcLdf o.window_size inf dist (dw o) x).1, wput o (calcLdf o.window_size inf dist (dw o) x).2) :=
  calculate_ldf_eq dist inf o x

/-- the translated kernel never touches `window_` nor `window_size` (only `min_dist_` is rewritten and extended) -/
theorem gen_ldf_leaves_window (dist : χ → χ → α) (inf : α) (o : WObj α χ) (x : χ) :
    (_calculate_ldf dist inf o x).2.window_ = o.window_ ∧ (_calculate_ldf dist inf o x).2.window_size = o.window_size := by
  rw [calculate_ldf_eq]
  constructor
  · simp only [wput, calcLdf, dw]
    cases o.window_.map (fun v => dist v x) <;> rfl
  · rfl

/-- one instance of the loops of `query` / `update` with the translated kernel (kernel, then `window_.append(x)`) is the
modelled step -/
theorem gen_step_eq (dist : χ → χ → α) (inf : α) (o : WObj α χ) (x : χ) :
    let r := _calculate_ldf dist inf o x
    (decide (0 < r.1), ({ win := pushMax o.window_size r.2.window_ x, md := r.2.min_dist_ } : DW α χ))
      = step o.window_size inf dist (dw o) x := by
  simp only [calculate_ldf_eq, step, wput]

/-- **window invariant on the translated source**: an aligned object (one minimal distance per window member, within
capacity) stays aligned after every processed instance -/
theorem gen_step_aligned (dist : χ → χ → α) (inf : α) (o : WObj α χ) (x : χ) (h : Aligned o.window_size (dw o)) :
    Aligned o.window_size ({ win := pushMax o.window_size (_calculate_ldf dist inf o x).2.window_ x,
                             md := (_calculate_ldf dist inf o x).2.min_dist_ } : DW α χ) := by
  have h1 := gen_step_eq dist inf o x
  simp only at h1
  have h2 := step_aligned o.window_size inf dist (dw o) x h
  rw [← h1] at h2
  exact h2

end Ska.DensityGenProps
