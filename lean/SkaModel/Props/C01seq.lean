import SkaModel.Core.SeqSelect
import SkaModel.Props.C01

/-!
# C01 / C02 for strategies with their own sequential selection loop

`maskedSeq_valid`: **any** loop that picks with `rand_argmax` on rows which are NaN at all earlier picks
(the *mask discipline*, a decidable condition the harness evaluates on the rows captured from the real
run) and NaN outside the candidates returns pairwise distinct candidates, each attaining the maximum of
its row — whatever the rows are (distances, typicalities, densities, …), for every batch length and all
positive noise draws.  This is what makes CoreSet, ProbCover, Clue, DropQuery, DiscriminativeAL, FourDs, BatchBALD,
TypiClust, GreedySampling* and RegressionTreeBasedAL satisfy the distinctness / membership clauses of
C01 and the arg-max clause of C02; the per-strategy hypothesis is checked on every run against the
arrays actually passed to `rand_argmax`.
-/

namespace Ska.C01seq
open Ska Ska.Seq Ska.C18

variable {α : Type} [LinearOrder α]
variable {β : Type} [LinearOrder β] [Zero β]

theorem isNaNAt_false_of_some (row : List (Option α)) (j : Nat) (v : α) (h : row[j]? = some (some v)) :
    isNaNAt row j = false := by
  unfold isNaNAt
  rw [List.getD_eq_getElem?_getD, h]; rfl

/-- one step: the pick is a number attaining the row's maximum, hence none of the earlier picks -/
theorem step_fresh (earlier : List Nat) (row : List (Option α)) (nz : List β)
    (hl : nz.length = row.length) (hp : ∀ x ∈ nz, 0 < x) (hs : 0 < countSome row)
    (hmask : earlier.all (isNaNAt row) = true) :
    (∃ m, nanmax row = some m ∧ row[randArgmax row nz]? = some (some m)) ∧ randArgmax row nz ∉ earlier := by
  obtain ⟨m, hm, hget, -⟩ := randArgmax_is_max_of_pos row nz hl hp hs
  refine ⟨⟨m, hm, hget⟩, ?_⟩
  intro hin
  have := List.all_eq_true.mp hmask _ hin
  rw [isNaNAt_false_of_some row _ m hget] at this
  cases this

/-- **Masked sequential arg-max selection returns distinct maximal entries.** -/
theorem maskedSeq_aux (rows : List (List (Option α))) (noises : List (List β)) :
    ∀ earlier : List Nat, rows.length = noises.length →
    (∀ k, ∀ hk : k < rows.length, ∀ hk' : k < noises.length,
        noises[k].length = rows[k].length ∧ (∀ x ∈ noises[k], 0 < x) ∧ 0 < countSome rows[k]) →
    maskOkB earlier rows (seqPicks rows noises) = true →
    (∀ p ∈ seqPicks rows noises, p ∉ earlier) ∧ (seqPicks rows noises).Nodup ∧
    (∀ k, ∀ hk : k < rows.length, ∀ hp : k < (seqPicks rows noises).length,
        ∃ m, nanmax rows[k] = some m ∧ rows[k][(seqPicks rows noises)[k]]? = some (some m)) := by
  induction rows generalizing noises with
  | nil =>
    intro earlier hlen _ _
    cases noises with
    | nil => simp [seqPicks]
    | cons n ns => simp at hlen
  | cons row rows ih =>
    intro earlier hlen hrows hmask
    cases noises with
    | nil => simp at hlen
    | cons nz nzs =>
      have h0 := hrows 0 (by simp) (by simp)
      simp only [List.getElem_cons_zero] at h0
      obtain ⟨hl, hp, hs⟩ := h0
      have hpicks : seqPicks (row :: rows) (nz :: nzs) = randArgmax row nz :: seqPicks rows nzs := by
        simp [seqPicks]
      rw [hpicks] at hmask ⊢
      simp only [maskOkB, Bool.and_eq_true] at hmask
      obtain ⟨hm0, hmrest⟩ := hmask
      obtain ⟨hmax, hfresh⟩ := step_fresh earlier row nz hl hp hs hm0
      have hrows' : ∀ k, ∀ hk : k < rows.length, ∀ hk' : k < nzs.length,
          nzs[k].length = rows[k].length ∧ (∀ x ∈ nzs[k], 0 < x) ∧ 0 < countSome rows[k] := by
        intro k hk hk'
        have := hrows (k+1) (by simpa using hk) (by simpa using hk')
        simpa using this
      obtain ⟨i1, i2, i3⟩ := ih nzs (earlier ++ [randArgmax row nz]) (by simpa using hlen) hrows' hmrest
      refine ⟨?_, ?_, ?_⟩
      · intro p hp'
        rcases List.mem_cons.mp hp' with rfl | hp'
        · exact hfresh
        · intro hin
          exact i1 p hp' (List.mem_append_left _ hin)
      · rw [List.nodup_cons]
        refine ⟨?_, i2⟩
        intro hin
        exact i1 _ hin (List.mem_append_right _ (List.mem_singleton.mpr rfl))
      · intro k hk hp'
        cases k with
        | zero => simpa using hmax
        | succ k =>
          have := i3 k (by simpa using hk) (by simpa using hp')
          simpa using this

/-- The statement used by the check: with rows that are NaN outside the candidates, the picks are
pairwise distinct candidates and every pick attains the maximum of its row. -/
theorem maskedSeq_valid (cand : List Nat) (rows : List (List (Option α))) (noises : List (List β))
    (hlen : rows.length = noises.length)
    (hrows : ∀ k, ∀ hk : k < rows.length, ∀ hk' : k < noises.length,
        noises[k].length = rows[k].length ∧ (∀ x ∈ noises[k], 0 < x) ∧ 0 < countSome rows[k])
    (hcand : ∀ row ∈ rows, nanOutsideB cand row = true)
    (hmask : maskOkB [] rows (seqPicks rows noises) = true) :
    (seqPicks rows noises).length = rows.length ∧ (seqPicks rows noises).Nodup ∧
    (∀ p ∈ seqPicks rows noises, p ∈ cand) ∧
    (∀ k, ∀ hk : k < rows.length, ∀ hp : k < (seqPicks rows noises).length,
        ∃ m, nanmax rows[k] = some m ∧ rows[k][(seqPicks rows noises)[k]]? = some (some m)) := by
  obtain ⟨-, h2, h3⟩ := maskedSeq_aux rows noises [] hlen hrows hmask
  have hl : (seqPicks rows noises).length = rows.length := by simp [seqPicks]; omega
  refine ⟨hl, h2, ?_, h3⟩
  intro p hp
  obtain ⟨k, hk, rfl⟩ := List.getElem_of_mem hp
  have hk' : k < rows.length := by omega
  obtain ⟨m, -, hget⟩ := h3 k hk' hk
  have hno := List.all_eq_true.mp (hcand rows[k] (List.getElem_mem hk')) (seqPicks rows noises)[k]
    (by
      rw [List.mem_range]
      rcases Nat.lt_or_ge (seqPicks rows noises)[k] rows[k].length with h | h
      · exact h
      · rw [List.getElem?_eq_none h] at hget; cases hget)
  rw [isNaNAt_false_of_some _ _ m hget] at hno
  simpa using hno

/-! ### non-vacuity -/

example : maskOkB (α := Int) [] [[some 1, some 5, none], [some 1, none, none]]
    (seqPicks (β := Nat) [[some 1, some 5, none], [some 1, none, none]] [[1, 1, 1], [2, 2, 2]]) = true := by decide

end Ska.C01seq
