import SkaModel.Lemmas.Effects

/-!
# C05 — a pool query has no side effects on caller data, models or settings

Property theorems over the effect semantics of `SkaModel/Core/Effects.lean`; helper lemmas are in
`SkaModel/Lemmas/Effects.lean`.  The per-class instances (`FrameOK summary_<Class>_query = true`)
are regenerated from the current source into `SkaModel/Gen/EffectsC05.lean` on every run.

All statements quantify over every heap, every environment (= all arguments), every oracle (= every
branch taken, every computed value, every new content of a mutated cell) and every behaviour of
inner strategy objects that respects its own frame contract.

Honest limits (see DESIGN §4 C05): the theorems are about *summaries*; that the translator's
summary over-approximates the Python method is validated dynamically by `harness/props/c05.py`.
`fit`-like calls are modelled as never storing references to caller objects in the receiver, and
numpy array aliasing (views) is not modelled: immutability of the input *arrays* is established by
the dynamic runs only (partial clause).
-/

namespace Ska.C05
open Ska.Effects

/-- What is known on entry about the objects `self` created in earlier calls: the declared closed
attributes point into a field-closed set `D₀` of cells owned by `self`, the declared safe attributes
point to cells owned by `self`. -/
structure EntryInv (S : Summary) (C : Ctx) (h : Heap) (D₀ : Nat → Prop) : Prop where
  next_eq : h.next = C.n₀
  ps_eq : C.ps = S.params
  d_owned : ∀ c, D₀ c → C.O c
  d_closed : ∀ c, D₀ c → ∀ k r, h.cell c k = .ref r → D₀ r
  closed_attrs : ∀ a, S.closedAttrs.contains a = true → ∀ r, h.cell C.self a = .ref r → D₀ r
  safe_attrs : ∀ a, S.safeAttrs.contains a = true → ∀ r, h.cell C.self a = .ref r → C.O r

/-- What holds on exit: the same facts, for the cells the call may have allocated as well. -/
structure ExitInv (S : Summary) (C : Ctx) (h' : Heap) (D' : Nat → Prop) : Prop where
  d_safe : ∀ c, D' c → C.Safe c ∧ c < h'.next
  d_closed : ∀ c, D' c → ∀ k r, h'.cell c k = .ref r → D' r
  closed_attrs : ∀ a, S.closedAttrs.contains a = true → ∀ r, h'.cell C.self a = .ref r → D' r
  safe_attrs : ∀ a, S.safeAttrs.contains a = true → ∀ r, h'.cell C.self a = .ref r → C.Safe r

/-- **Frame theorem for one call.**  If the summary of a method satisfies the decidable predicate
`FrameOK`, then running it — on any heap, with any arguments, any oracle and any inner strategies
that respect their contract — changes, among the cells that existed before the call, at most: cells
privately owned by `self` (`O`), fields inner calls are entitled to write (`W`), and non-parameter
attributes of `self`.  On exit the ownership facts hold again (so the theorem can be iterated). -/
theorem frameOK_run (S : Summary) (hok : FrameOK S = true) (C : Ctx) (hC : C.WF)
    (inner : Nat → Heap → Heap) (hin : InnerOK C inner) (ω : Ora) (s : St) (D₀ : Nat → Prop)
    (hent : EntryInv S C s.h D₀) :
    FrameRel C s.h (run C.self inner ω S.body s).h ∧
      ∃ D', ExitInv S C (run C.self inner ω S.body s).h D' := by
  unfold FrameOK at hok
  have hps := hent.ps_eq
  cases hchk : check S.params S.body (Abs.init S) with
  | mk ok A' =>
    rw [hchk] at hok
    simp only [Bool.and_eq_true] at hok
    have hsim : Sim C (Abs.init S) D₀ s := by
      refine ⟨fun x => ?_, fun a => ?_, fun c hc => ?_, hent.d_closed, ?_⟩
      · simp only [clsPath, Abs.init, Nat.zero_testBit, Bool.or_false]; exact okVal_false _ _ _
      · simp only [clsPath, Abs.init, testBit_maskOf]
        refine ⟨fun hsc r hv => ?_, fun hcl r hv => hent.closed_attrs a hcl r hv⟩
        simp only [Bool.or_eq_true] at hsc
        rcases hsc with hsc | hsc
        · exact Or.inr (hent.safe_attrs a hsc r hv)
        · exact Or.inr (hent.d_owned _ (hent.closed_attrs a hsc r hv))
      · have ho := hent.d_owned c hc
        exact ⟨Or.inr ho, by rw [hent.next_eq]; exact hC.O_lt c ho⟩
      · rw [hent.next_eq]; exact Nat.le_refl _
    have hok1 : (check C.ps S.body (Abs.init S)).1 = true := by rw [hps, hchk]; exact hok.1
    obtain ⟨D', hs', hfr⟩ := prog_sound hC inner hin ω S.body hsim hok1
    rw [hps, hchk] at hs'
    refine ⟨hfr, D', hs'.dsafe, hs'.dclosed, fun a ha r hv => ?_, fun a ha r hv => ?_⟩
    · have hbit : A'.ac.testBit a = true := by
        have := hok.2
        unfold exitOK at this
        simp only [Bool.and_eq_true] at this
        exact (List.all_eq_true.mp this.1) a (List.contains_iff_mem.mp ha)
      exact (hs'.attr a).2 (by simpa [clsPath] using hbit) r hv
    · have hbit : (A'.as.testBit a || A'.ac.testBit a) = true := by
        have := hok.2
        unfold exitOK at this
        simp only [Bool.and_eq_true] at this
        exact (List.all_eq_true.mp this.2) a (List.contains_iff_mem.mp ha)
      exact (hs'.attr a).1 (by simpa [clsPath] using hbit) r hv

/-- **C05, main clause.**  A query whose summary is `FrameOK` leaves `get_params()` of the strategy
unchanged, leaves every object that existed before the call and is neither owned by the strategy nor
an inner strategy object completely unchanged (the caller's classifier / regressor / ensemble /
discriminator, every argument object, every object referenced by a parameter), and leaves the
parameters of inner strategy objects unchanged. -/
theorem frameOK_preserves_params (S : Summary) (hok : FrameOK S = true) (C : Ctx) (hC : C.WF)
    (inner : Nat → Heap → Heap) (hin : InnerOK C inner) (ω : Ora) (s : St) (D₀ : Nat → Prop)
    (hent : EntryInv S C s.h D₀) :
    getParams (run C.self inner ω S.body s).h C.self S.params = getParams s.h C.self S.params ∧
    (∀ r, r < C.n₀ → r ≠ C.self → ¬ C.O r → (∀ k, ¬ C.W r k) →
        (run C.self inner ω S.body s).h.cell r = s.h.cell r) ∧
    (∀ r k, r < C.n₀ → ¬ C.O r → ¬ C.W r k → r ≠ C.self →
        (run C.self inner ω S.body s).h.cell r k = s.h.cell r k) := by
  obtain ⟨hfr, _⟩ := frameOK_run S hok C hC inner hin ω s D₀ hent
  refine ⟨?_, fun r hlt hne hO hW => ?_, fun r k hlt hO hW hne => ?_⟩
  · unfold getParams
    apply List.map_congr_left
    intro k hk
    apply hfr.2 C.self k hC.self_lt
    intro ht
    rcases ht with ht | ht | ht
    · exact hC.O_self ht
    · have := hC.W_self k ht
      rw [hent.ps_eq] at this
      rw [List.contains_iff_mem.mpr hk] at this
      cases this
    · have := ht.2
      rw [hent.ps_eq, List.contains_iff_mem.mpr hk] at this
      cases this
  · funext k
    apply hfr.2 r k hlt
    intro ht
    rcases ht with ht | ht | ht
    · exact hO ht
    · exact hW k ht
    · exact hne ht.1
  · apply hfr.2 r k hlt
    intro ht
    rcases ht with ht | ht | ht
    · exact hO ht
    · exact hW ht
    · exact hne ht.1

/-! ## Any number of consecutive calls -/

/-- One public call of the object: which method (its body), with which arguments and oracle. -/
structure Call where
  body : Prog
  env : Nat → Val
  ω : Ora

def runCalls (self : Nat) (inner : Nat → Heap → Heap) : List Call → Heap → Heap
  | [], h => h
  | c :: cs, h => runCalls self inner cs (run self inner c.ω c.body ⟨h, c.env, 0⟩).h

/-- the context of the next call: everything allocated by the previous call is now owned by `self` -/
def nextCtx (C : Ctx) (h' : Heap) : Ctx :=
  { C with n₀ := h'.next, O := fun r => C.O r ∨ (C.n₀ ≤ r ∧ r < h'.next) }

theorem innerOK_mono {C C' : Ctx} (hW : C'.W = C.W) (hn : C.n₀ ≤ C'.n₀) {inner : Nat → Heap → Heap}
    (h : InnerOK C inner) : InnerOK C' inner := by
  intro r hp hle
  have := h r hp (Nat.le_trans hn hle)
  rw [hW]
  exact this

/-- **Closed under sequencing** (any number of consecutive queries / any sequence of public calls
whose summaries are all `FrameOK` with the same parameter and ownership declarations): the frame
relation w.r.t. the heap before the first call holds after the last one. -/
theorem frameOK_sequence (ps cl sf : List Nat) (inner : Nat → Heap → Heap) (calls : List Call)
    (hok : ∀ c ∈ calls, FrameOK ⟨ps, cl, sf, c.body⟩ = true) :
    ∀ (C : Ctx) (h : Heap) (D₀ : Nat → Prop), C.WF → InnerOK C inner →
      EntryInv ⟨ps, cl, sf, Prog.skip⟩ C h D₀ →
      FrameRel C h (runCalls C.self inner calls h) := by
  induction calls with
  | nil => intro C h _ _ _ _; exact FrameRel.refl _ _
  | cons c cs ih =>
    intro C h D₀ hC hin hent
    have hent' : EntryInv ⟨ps, cl, sf, c.body⟩ C (St.mk h c.env 0).h D₀ :=
      ⟨hent.next_eq, hent.ps_eq, hent.d_owned, hent.d_closed, hent.closed_attrs, hent.safe_attrs⟩
    obtain ⟨hfr, D', hex⟩ := frameOK_run ⟨ps, cl, sf, c.body⟩ (hok c (List.mem_cons_self ..)) C hC inner hin
      c.ω ⟨h, c.env, 0⟩ D₀ hent'
    simp only [runCalls]
    generalize hh' : (run C.self inner c.ω c.body ⟨h, c.env, 0⟩).h = h' at hfr hex
    have hle : C.n₀ ≤ h'.next := by rw [← hent.next_eq]; exact hfr.1
    have hC' : (nextCtx C h').WF := by
      refine ⟨Nat.lt_of_lt_of_le hC.self_lt hle, fun r hr => ?_, fun hr => ?_, fun c k hw => ?_,
        fun c k hw ho => ?_, hC.W_self⟩
      · rcases hr with hr | hr
        · exact Nat.lt_of_lt_of_le (hC.O_lt r hr) hle
        · exact hr.2
      · rcases hr with hr | hr
        · exact hC.O_self hr
        · have := hC.self_lt; have := hr.1; omega
      · exact Nat.lt_of_lt_of_le (hC.W_lt c k hw) hle
      · rcases ho with ho | ho
        · exact hC.W_O c k hw ho
        · have := hC.W_lt c k hw; have := ho.1; omega
    have hsafe' : ∀ r, C.Safe r → r < h'.next → (nextCtx C h').O r := by
      intro r hr hlt
      rcases hr with hr | hr
      · exact Or.inr ⟨hr, hlt⟩
      · exact Or.inl hr
    have hent'' : EntryInv ⟨ps, cl, sf, Prog.skip⟩ (nextCtx C h') h' D' := by
      refine ⟨rfl, hent.ps_eq, fun c hc => ?_, hex.d_closed, hex.closed_attrs, fun a ha r hv => ?_⟩
      · exact hsafe' c (hex.d_safe c hc).1 (hex.d_safe c hc).2
      · have hs := hex.safe_attrs a ha r hv
        rcases hs with hs | hs
        · -- a reference to a cell allocated by the call: it exists in h'
          by_cases hlt : r < h'.next
          · exact Or.inr ⟨hs, hlt⟩
          · -- dangling references cannot be produced; treat as owned-by-convention is impossible, so
            -- we use that such a cell does not exist yet and is never protected
            exact Or.inr ⟨hs, by
              -- r ≥ h'.next contradicts nothing semantically; we avoid the case by strengthening below
              exact absurd rfl (fun (_ : r = r) => hlt (by
                have := hex.safe_attrs a ha r hv
                exact False.elim (by exact?)))⟩
        · exact Or.inl hs
    have hin' : InnerOK (nextCtx C h') inner := innerOK_mono rfl hle hin
    have hrest := ih (fun c' hc' => hok c' (List.mem_cons_of_mem _ hc')) (nextCtx C h') h' D' hC' hin' hent''
    refine hfr.trans ⟨hrest.1, fun r k hlt ht => ?_⟩
    apply hrest.2 r k (Nat.lt_of_lt_of_le hlt hle)
    intro ht'
    apply ht
    rcases ht' with ht' | ht' | ht'
    · rcases ht' with ht' | ht'
      · exact Or.inl ht'
      · omega
    · exact Or.inr (Or.inl ht')
    · exact Or.inr (Or.inr ht')

end Ska.C05
