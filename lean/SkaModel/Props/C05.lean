import SkaModel.Lemmas.Effects

/-!
# C05 — a pool query has no side effects on caller data, models or settings

Property theorems over the effect semantics of `SkaModel/Core/Effects.lean`; helper lemmas are in
`SkaModel/Lemmas/Effects.lean`.  The per-class instances (`FrameOK summary_<Class>_query = true`)
are regenerated from the current source into `SkaModel/Gen/EffectsC05.lean` on every run.

All statements quantify over every heap, every environment (= all arguments), every oracle (= every
branch taken, every computed value, every new content of a mutated cell) and every behaviour of
inner strategy objects that respects its own frame contract.

Honest limits (see DESIGN §4 C05): the theorems are about *summaries*; that the translator's
summary over-approximates the Python method is validated dynamically by `harness/props/c05.py`.
`fit`-like calls are modelled as never storing references to caller objects in the receiver, and
numpy array aliasing (views) is not modelled: immutability of the input *arrays* is established by
the dynamic runs only (partial clause).
-/

namespace Ska.C05
open Ska.Effects

/-- Ownership facts about the objects `self` created in earlier calls (they hold trivially for a
newly constructed object with `D = ∅`): the declared closed attributes point into a field-closed set
`D` of cells the call may mutate, the declared safe attributes point to cells the call may mutate. -/
structure OwnInv (S : Summary) (C : Ctx) (h : Heap) (D : Nat → Prop) : Prop where
  next_ge : C.n₀ ≤ h.next
  d_safe : ∀ c, D c → C.Safe c ∧ c < h.next
  d_closed : ∀ c, D c → ∀ k r, h.cell c k = .ref r → D r
  closed_attrs : ∀ a, S.closedAttrs.contains a = true → ∀ r, h.cell C.self a = .ref r → D r
  safe_attrs : ∀ a, S.safeAttrs.contains a = true → ∀ r, h.cell C.self a = .ref r → C.Safe r ∧ r < h.next

/-- **Frame theorem for one call.**  If the summary of a method satisfies the decidable predicate
`FrameOK`, then running it — on any heap, with any arguments, any oracle and any inner strategies
that respect their contract — changes, among the cells below `C.n₀` (those that existed when the
caller last looked), at most: cells privately owned by `self` (`O`), fields inner calls are entitled
to write (`W`), and non-parameter attributes of `self`.  On exit — normal or by an exception — the ownership facts hold again. -/
theorem frameOK_run (S : Summary) (hok : FrameOK S = true) (C : Ctx) (hC : C.WF) (hps : C.ps = S.params)
    (inner : Nat → Heap → Heap) (hin : InnerOK C inner) (ω : Ora) (s : St) (hlive : s.dead = false)
    (D₀ : Nat → Prop) (hent : OwnInv S C s.h D₀) :
    FrameRel C s.h (run C.self inner ω S.body s).h ∧
      ∃ D', OwnInv S C (run C.self inner ω S.body s).h D' := by
  unfold FrameOK at hok
  have hsim : Sim C (Abs.init S) D₀ s := by
    refine ⟨fun x => ?_, fun a => ?_, hent.d_safe, hent.d_closed, hent.next_ge⟩
    · simp only [clsPath, Abs.init, Nat.zero_testBit]; exact okVal_none _ _ _ _
    · simp only [clsPath, Abs.init, testBit_maskOf, Nat.zero_testBit, Nat.testBit_or]
      refine ⟨fun hsc r hv => ?_, fun hcl r hv => hent.closed_attrs a hcl r hv, fun hf => (by cases hf)⟩
      simp only [Bool.or_eq_true] at hsc
      rcases hsc with hsc | hsc
      · exact hent.safe_attrs a hsc r hv
      · exact hent.d_safe r (hent.closed_attrs a hsc r hv)
  -- ownership facts from an abstract state that satisfies the exit condition
  have hexit : ∀ (A' : Abs) (D' : Nat → Prop) (s' : St), Sim C A' D' s' → exitOK S A' = true →
      OwnInv S C s'.h D' := by
    intro A' D' s' hs' hex
    unfold exitOK at hex
    simp only [Bool.and_eq_true] at hex
    refine ⟨hs'.nxt, hs'.dsafe, hs'.dclosed, fun a ha r hv => ?_, fun a ha r hv => ?_⟩
    · have hbit : A'.ac.testBit a = true :=
        (List.all_eq_true.mp hex.1) a (List.contains_iff_mem.mp ha)
      exact (hs'.attr a).2.1 (by simpa [clsPath] using hbit) r hv
    · have hbit : (A'.am.testBit a || A'.ac.testBit a) = true :=
        (List.all_eq_true.mp hex.2) a (List.contains_iff_mem.mp ha)
      simp only [Bool.or_eq_true] at hbit
      rcases hbit with hb | hb
      · exact (hs'.attr a).1 (by simpa [clsPath] using hb) r hv
      · exact hs'.dsafe r ((hs'.attr a).2.1 (by simpa [clsPath] using hb) r hv)
  cases hchk : check S S.body (Abs.init S) with
  | mk ok r =>
    rw [hchk] at hok
    have hok1 : (check S S.body (Abs.init S)).1 = true := by
      rw [hchk]
      cases r with
      | none => exact hok
      | some A' => simp only [Bool.and_eq_true] at hok; exact hok.1
    obtain ⟨D', hpost, hfr⟩ := prog_sound hC S hps.symm inner hin ω S.body hsim hlive hok1
    refine ⟨hfr, D', ?_⟩
    unfold Post at hpost
    cases hd : (run C.self inner ω S.body s).dead with
    | true =>
      simp only [hd, if_true] at hpost
      obtain ⟨A', hs', hex⟩ := hpost
      exact hexit A' D' _ hs' hex
    | false =>
      simp only [hd, Bool.false_eq_true, if_false] at hpost
      obtain ⟨A', hr, hs'⟩ := hpost
      rw [hchk] at hr
      simp only at hr
      subst hr
      simp only [Bool.and_eq_true] at hok
      exact hexit A' D' _ hs' hok.2

/-- What `FrameRel` means for the caller: `get_params()` of the object is unchanged; every cell
below `n₀` that is neither the object itself, nor owned by it, nor an inner strategy object is
completely unchanged (the caller's classifier / regressor / ensemble / discriminator, every argument
object, every object referenced by a parameter); parameters of inner strategy objects are unchanged. -/
theorem frameRel_caller_view {C : Ctx} (hC : C.WF) {h h' : Heap} (hfr : FrameRel C h h') :
    getParams h' C.self C.ps = getParams h C.self C.ps ∧
    (∀ r, r < C.n₀ → r ≠ C.self → ¬ C.O r → (∀ k, ¬ C.W r k) → h'.cell r = h.cell r) ∧
    (∀ r k, r < C.n₀ → r ≠ C.self → ¬ C.O r → ¬ C.W r k → h'.cell r k = h.cell r k) := by
  refine ⟨?_, fun r hlt hne hO hW => ?_, fun r k hlt hne hO hW => ?_⟩
  · unfold getParams
    apply List.map_congr_left
    intro k hk
    apply hfr.2 C.self k hC.self_lt
    intro ht
    rcases ht with ht | ht | ht
    · exact hC.O_self ht
    · have := hC.W_self k ht
      rw [List.contains_iff_mem.mpr hk] at this
      cases this
    · have := ht.2
      rw [List.contains_iff_mem.mpr hk] at this
      cases this
  · funext k
    apply hfr.2 r k hlt
    intro ht
    rcases ht with ht | ht | ht
    · exact hO ht
    · exact hW k ht
    · exact hne ht.1
  · apply hfr.2 r k hlt
    intro ht
    rcases ht with ht | ht | ht
    · exact hO ht
    · exact hW ht
    · exact hne ht.1

/-- **C05, main clause.**  A query whose summary is `FrameOK` leaves `get_params()` of the strategy
unchanged (hence `clone`, which only reads `get_params`, and pickling of the parameter values behave
as before), leaves every caller object untouched and leaves the parameters of inner strategies
unchanged — for all heaps, arguments, oracles. -/
theorem frameOK_preserves_params (S : Summary) (hok : FrameOK S = true) (C : Ctx) (hC : C.WF)
    (hps : C.ps = S.params) (inner : Nat → Heap → Heap) (hin : InnerOK C inner) (ω : Ora) (s : St)
    (hlive : s.dead = false) (D₀ : Nat → Prop) (hent : OwnInv S C s.h D₀) :
    getParams (run C.self inner ω S.body s).h C.self S.params = getParams s.h C.self S.params ∧
    (∀ r, r < C.n₀ → r ≠ C.self → ¬ C.O r → (∀ k, ¬ C.W r k) →
        (run C.self inner ω S.body s).h.cell r = s.h.cell r) ∧
    (∀ r k, r < C.n₀ → r ≠ C.self → ¬ C.O r → ¬ C.W r k →
        (run C.self inner ω S.body s).h.cell r k = s.h.cell r k) := by
  obtain ⟨hfr, _⟩ := frameOK_run S hok C hC hps inner hin ω s hlive D₀ hent
  have := frameRel_caller_view hC hfr
  rw [hps] at this
  exact this

/-! ## Any number of consecutive calls -/

/-- One public call of the object: which method (its body), with which arguments and oracle. -/
structure Call where
  body : Prog
  env : Nat → Val
  ω : Ora

def runCalls (self : Nat) (inner : Nat → Heap → Heap) : List Call → Heap → Heap
  | [], h => h
  | c :: cs, h => runCalls self inner cs (run self inner c.ω c.body ⟨h, c.env, 0, false⟩).h

/-- **Closed under sequencing** (any number of consecutive queries / any sequence of public calls
whose summaries are all `FrameOK` with the same parameter and ownership declarations): the frame
relation w.r.t. the heap before the first call holds after the last one. -/
theorem frameOK_sequence (ps cl sf : List Nat) (inner : Nat → Heap → Heap) (C : Ctx) (hC : C.WF)
    (hps : C.ps = ps) (hin : InnerOK C inner) (calls : List Call)
    (hok : ∀ c ∈ calls, FrameOK ⟨ps, cl, sf, c.body⟩ = true) :
    ∀ (h : Heap) (D₀ : Nat → Prop), OwnInv ⟨ps, cl, sf, Prog.skip⟩ C h D₀ →
      FrameRel C h (runCalls C.self inner calls h) := by
  induction calls with
  | nil => intro h _ _; exact FrameRel.refl _ _
  | cons c cs ih =>
    intro h D₀ hent
    have hent' : OwnInv ⟨ps, cl, sf, c.body⟩ C (St.mk h c.env 0 false).h D₀ :=
      ⟨hent.next_ge, hent.d_safe, hent.d_closed, hent.closed_attrs, hent.safe_attrs⟩
    obtain ⟨hfr, D', hex⟩ := frameOK_run ⟨ps, cl, sf, c.body⟩ (hok c (List.mem_cons_self ..)) C hC hps
      inner hin c.ω ⟨h, c.env, 0, false⟩ rfl D₀ hent'
    simp only [runCalls]
    have hex' : OwnInv ⟨ps, cl, sf, Prog.skip⟩ C (run C.self inner c.ω c.body ⟨h, c.env, 0, false⟩).h D' :=
      ⟨hex.next_ge, hex.d_safe, hex.d_closed, hex.closed_attrs, hex.safe_attrs⟩
    exact hfr.trans (ih (fun c' hc' => hok c' (List.mem_cons_of_mem _ hc')) _ D' hex')

/-! ## Closed under `callQuery` of an inner strategy that is itself `FrameOK` (wrappers) -/

/-- The heap transformer "call method `S'` on the strategy object at `r`" (objects that are not
strategy objects have no such method: nothing happens). -/
def asInner (isStrat : Nat → Bool) (S' : Summary) (inner' : Nat → Heap → Heap) (ω : Ora)
    (env : Nat → Val) : Nat → Heap → Heap :=
  fun r h => if isStrat r then (run r inner' ω S'.body ⟨h, env, 0, false⟩).h else h

/-- If the inner strategy's own summary is `FrameOK` (stateless: no owned attributes), the inner
strategy objects are old objects not owned by the outer one, and the outer context entitles inner
calls to write exactly non-parameter attributes of inner strategy objects, then calling it respects
the contract `InnerOK` that `frameOK_run` assumes — whatever *its* inner calls do, as long as they
respect the same contract.  Iterating this covers wrappers of wrappers to any depth. -/
theorem frameOK_closed_under_callQuery (S' : Summary) (hok' : FrameOK S' = true)
    (hcl : S'.closedAttrs = []) (hsf : S'.safeAttrs = []) (C : Ctx) (isStrat : Nat → Bool)
    (hlt : ∀ r, isStrat r = true → r < C.n₀)
    (hgrant : ∀ r k, isStrat r = true → S'.params.contains k = false → C.W r k)
    (hdeny : ∀ r k, isStrat r = true → C.W r k → S'.params.contains k = false)
    (hWlt : ∀ c k, C.W c k → c < C.n₀)
    (inner' : Nat → Heap → Heap) (hin' : InnerOK C inner') (ω : Ora) (env : Nat → Val) :
    InnerOK C (asInner isStrat S' inner' ω env) := by
  intro r h hle
  unfold asInner
  cases hs : isStrat r with
  | false => exact ⟨Nat.le_refl _, fun _ _ _ _ => rfl⟩
  | true =>
    simp only [if_true]
    let C' : Ctx := { n₀ := h.next, self := r, ps := S'.params, O := fun _ => False, W := C.W }
    have hC' : C'.WF :=
      ⟨Nat.lt_of_lt_of_le (hlt r hs) hle, fun hf => hf,
       fun c k hw => Nat.lt_of_lt_of_le (hWlt c k hw) hle, fun _ _ _ hf => hf,
       fun k hw => hdeny r k hs hw⟩
    have hinC' : InnerOK C' inner' := by
      intro r' hp hle'
      exact hin' r' hp (Nat.le_trans hle hle')
    have hent : OwnInv S' C' (St.mk h env 0 false).h (fun _ => False) :=
      ⟨Nat.le_refl _, fun _ hf => hf.elim, fun _ hf => hf.elim,
       fun a ha => (by rw [hcl] at ha; cases ha), fun a ha => (by rw [hsf] at ha; cases ha)⟩
    obtain ⟨hfr, _⟩ := frameOK_run S' hok' C' hC' rfl inner' hinC' ω ⟨h, env, 0, false⟩ rfl _ hent
    refine ⟨hfr.1, fun c k hc hw => hfr.2 c k hc ?_⟩
    intro ht
    rcases ht with ht | ht | ht
    · exact ht
    · exact hw ht
    · exact hw (ht.1 ▸ hgrant r k hs ht.2)

/-! ## Non-trivial instances, and what a violation looks like -/

/-- `clf = clone(clf).fit(X, y); self.fitted_ = {}`  (locals: 0 = clf, 1 = tmp; attributes: 0 =
parameter `method`, 1 = fitted attribute). -/
def sampleGood : Summary :=
  { params := [0], closedAttrs := [], safeAttrs := [],
    body := .seq (.bind 1 (.deep (.loc 0))) (.seq (.callFit (.loc 1)) (.seq (.bind 0 (.alias (.loc 1)))
      (.seq (.writeAttr 1 (.fresh [])) .skip))) }

/-- `if self.method is None: self.method = "x"` -/
def sampleParamWrite : Summary :=
  { params := [0], closedAttrs := [], safeAttrs := [],
    body := .ite (.seq (.writeAttr 0 (.fresh [])) .skip) .skip .skip }

/-- `clf.fit(X, y)` on the caller's classifier. -/
def sampleFitArg : Summary :=
  { params := [0], closedAttrs := [], safeAttrs := [], body := .seq (.callFit (.loc 0)) .skip }

/-- `d = self.metric_dict; d["gamma"] = g` (alias of a parameter, mutated). -/
def sampleAliasMutation : Summary :=
  { params := [0], closedAttrs := [], safeAttrs := [],
    body := .seq (.bind 0 (.alias (.attr 0))) (.seq (.mutate (.loc 0) []) .skip) }

/-- same with a copy: fine -/
def sampleCopyMutation : Summary :=
  { params := [0], closedAttrs := [], safeAttrs := [],
    body := .seq (.bind 0 (.copy (.attr 0))) (.seq (.mutate (.loc 0) []) .skip) }

example : FrameOK sampleGood = true := by decide
example : FrameOK sampleCopyMutation = true := by decide
example : FrameOK sampleParamWrite = false := by decide
example : FrameOK sampleFitArg = false := by decide
example : FrameOK sampleAliasMutation = false := by decide

/-- the hypotheses of `frameOK_preserves_params` are satisfiable: a two-cell heap (cell 0 = the
strategy, cell 1 = the caller's classifier), no owned cells, no inner strategies -/
example : ∃ (C : Ctx) (s : St), C.WF ∧ C.ps = sampleGood.params ∧ InnerOK C (fun _ h => h) ∧
    OwnInv sampleGood C s.h (fun _ => False) ∧ s.env 0 = .ref 1 :=
  ⟨{ n₀ := 2, self := 0, ps := [0], O := fun _ => False, W := fun _ _ => False },
   ⟨⟨fun _ _ => .atom 7, 2⟩, fun _ => .ref 1, 0, false⟩,
   ⟨by decide, fun h => h, fun _ _ h => h.elim, fun _ _ h => h.elim, fun _ h => h.elim⟩, rfl,
   fun _ _ _ => ⟨Nat.le_refl _, fun _ _ _ _ => rfl⟩,
   ⟨Nat.le_refl _, fun _ h => h.elim, fun _ h => h.elim, fun _ h => (by cases h), fun _ h => (by cases h)⟩,
   rfl⟩

def ω₁ : Ora := { coin := fun _ => true, pick := fun _ _ => .atom 1 }
def s₀ : St := ⟨⟨fun _ _ => .atom 7, 2⟩, fun _ => .ref 1, 0, false⟩

/-- A summary that is not `FrameOK` really can change `get_params` in the semantics: the lazily
resolved default of `sampleParamWrite` (the pattern of the six strategies of DESIGN §5). -/
theorem paramWrite_counterexample :
    getParams (run 0 (fun _ h => h) ω₁ sampleParamWrite.body s₀).h 0 sampleParamWrite.params
      ≠ getParams s₀.h 0 sampleParamWrite.params := by decide

/-- … and fitting the caller's classifier changes the caller's object. -/
theorem fitArg_counterexample :
    (run 0 (fun _ h => h) ω₁ sampleFitArg.body s₀).h.cell 1 0 ≠ s₀.h.cell 1 0 := by decide

end Ska.C05
