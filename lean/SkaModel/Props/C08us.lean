import SkaModel.Core.Uncertainty
import SkaModel.Props.C08

/-!
# C08 for UncertaintySampling: its scores are sample-wise, so restriction of the candidate set leaves them unchanged

Model: `SkaModel/Core/Uncertainty.lean` (`uncertainty_scores` for `least_confident` / `margin_sampling`, the scatter through
`mapping` and the multiplication by `utility_weight`), tied to the implementation by the bit-exact correspondence of check
C08 (the probability rows are captured from the classifier the strategy really calls).  `P j` is the probability row the
classifier returns for sample `j` (row-wise prediction is the assumption the classifier contributes).
-/

set_option linter.unusedSectionVars false

namespace Ska.C08us
open Ska Ska.Uncertainty

section Pointwise
variable {α : Type} [LT α] [DecidableLT α] [Sub α] [Mul α] [OfNat α 1]

/-- every candidate's score is a function of its own probability row -/
theorem scores_pointwise (m : UMethod) (probas : List (List α)) (k : Nat) :
    (scores m probas)[k]? = (probas[k]?).map (score m) := by
  simp [scores]

theorem weight_getElem? (u : List (Option α)) (w : List α) (j : Nat) :
    (weight u w)[j]? = match u[j]?, w[j]? with
      | some x, some wi => some (x.map (fun v => v * wi))
      | _, _ => none := by
  unfold weight
  rw [List.getElem?_zipWith]
  cases u[j]? <;> cases w[j]? <;> rfl

/-- **Restricting the candidates of UncertaintySampling leaves the utilities of the remaining candidates unchanged**
(index candidates / `candidates=None`; any utility weights). -/
theorem us_restrict (m : UMethod) (n : Nat) (mp mp' : List Nat) (P : Nat → List α) (w : List α)
    (hnd : mp.Nodup) (hr : ∀ i ∈ mp, i < n) (hnd' : mp'.Nodup) (hsub : ∀ i ∈ mp', i ∈ mp) :
    ∀ j ∈ mp', (usUtilities m n mp' (mp'.map P) w)[j]? = (usUtilities m n mp (mp.map P) w)[j]? := by
  intro j hj
  have h := C08.pointwise_restrict n mp mp' (fun i => some (score m (P i))) hnd hr hnd' hsub j hj
  simp only [usUtilities, scores, List.map_map, weight_getElem?]
  simp only [Function.comp_def] at h ⊢
  rw [h]

end Pointwise

section Spec
variable {α : Type} [LinearOrder α]

theorem maxRow_spec (p : α) (ps : List α) :
    maxRow p ps ∈ p :: ps ∧ ∀ x ∈ p :: ps, x ≤ maxRow p ps := by
  induction ps generalizing p with
  | nil => simp [maxRow]
  | cons q qs ih =>
    simp only [maxRow]
    obtain ⟨h1, h2⟩ := ih (if p < q then q else p)
    refine ⟨?_, ?_⟩
    · rcases List.mem_cons.mp h1 with h | h
      · rw [h]; split <;> simp
      · simp [h]
    · intro x hx
      rcases List.mem_cons.mp hx with rfl | hx
      · refine le_trans ?_ (h2 _ (List.mem_cons_self ..))
        split
        · exact le_of_lt ‹_›
        · exact le_refl _
      · rcases List.mem_cons.mp hx with rfl | hx
        · refine le_trans ?_ (h2 _ (List.mem_cons_self ..))
          split
          · exact le_refl _
          · exact le_of_not_gt ‹_›
        · exact h2 x (List.mem_cons_of_mem _ hx)

variable [Sub α] [One α]

/-- **least_confident is one minus the largest class probability** of the row (an entry of the row that bounds all others) -/
theorem leastConfident_spec (p : α) (ps : List α) :
    ∃ v ∈ p :: ps, leastConfident (p :: ps) = 1 - v ∧ ∀ x ∈ p :: ps, x ≤ v := by
  obtain ⟨h1, h2⟩ := maxRow_spec p ps
  exact ⟨maxRow p ps, h1, rfl, h2⟩

end Spec

/-- a concrete row: least confident of (1/4, 1/2, 1/4) is 1/2, margin is 1 - (1/2 - 1/4) -/
example : leastConfident ([1, 2, 1] : List Int) = -1 ∧ margin ([1, 4, 2] : List Int) = -1 := by decide

end Ska.C08us
