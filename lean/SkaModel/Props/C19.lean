import SkaModel.Lemmas.IndexWrapper

/-!
# C19 — index-based incremental refitting equals retraining from scratch

Property theorems only (helper lemmas: `SkaModel/Lemmas/IndexWrapper.lean`; model:
`SkaModel/Core/IndexWrapper.lean`). All statements quantify over every label type `L`, weight type `W`,
kernel value type `κ`, every wrapped classifier (`C`, `fitFn`, `pfitFn`), every flag combination in `Cfg`
and every call sequence.

* refinement: `abs_fit`, `abs_partialFit` (each call commutes with the abstraction to training lists of
  `(index, label, weight)` triples — lists, hence also multisets: `clf_depends_only_on_multiset`);
* invariants: `enforceUnique_nodup`, `base_unchanged_without_setBase`,
  `partialFit_useBase_independent_of_cur`, atomicity of every raising call (`fit_error_atomic`,
  `partialFit_error_atomic`, `step_error_atomic`);
* `clf_is_fresh_fit`: emulated path, induction over the call sequence (full strength since the repair of
  `partial_fit`; the old behaviour and its counterexamples are kept in `Ska.C19.Regressions`);
* `clf_is_replay`: native path (and in fact every path), by naturality of the model in the classifier;
* `speedup_eq_direct`, `speedup_nan_raises`, `speedup_never_changes_prediction` (full strength over
  histories since /repo commit 1805c2fd; the old behaviour is kept in `Ska.C19.Regressions`).
-/

namespace Ska.C19
open Ska Ska.IW

variable {C C' L W κ : Type}

/-! ## Refinement to training lists (emulated `partial_fit`: `cfg.native = false`) -/

/-- `abs_fit` — **`fit` commutes with the abstraction**. -/
theorem abs_fit (cfg : Cfg L W) (fitFn : Data L W → C) (s s' : St C L W)
    (idx : List Int) (y : Option (List L)) (sw : Option (List W)) (sb : Bool)
    (hn : cfg.native = false) (h : fit cfg fitFn s idx y sw sb = (s', none)) :
    ∃ d : Data L W, d.Good cfg ∧ d.idx = idx ∧ resolveY cfg idx y = .ok d.y ∧ resolveSW cfg idx sw = .ok d.sw ∧
      s'.cur = some d ∧ s'.clf = some (fitFn d) ∧
      s'.base = (if sb then some d else s.base) ∧ s'.bclf = (if sb then some (fitFn d) else s.bclf) := by
  obtain ⟨yy, ww, hc, hy, hw, hx, hs⟩ := fit_ok cfg fitFn s s' idx y sw sb h
  refine ⟨⟨idx, yy, ww⟩, resolved_good cfg idx y sw yy ww hc hy hw hx, rfl, hy, hw, ?_⟩
  subst hs
  unfold fitResult
  cases sb <;> simp [hn]

theorem abs_partialFit (cfg : Cfg L W) (fitFn : Data L W → C) (pfitFn : C → Data L W → C) (s s' : St C L W)
    (idx : List Int) (y : Option (List L)) (sw : Option (List W)) (ub sb : Bool)
    (hn : cfg.native = false)
    (hg : ∀ d, (if ub then s.base else s.cur) = some d → d.Good cfg)
    (h : partialFit cfg fitFn pfitFn s idx y sw ub sb = (s', none)) :
    ∃ start add d' : Data L W,
      (if ub then s.base else s.cur) = some start ∧
      add.idx = idx ∧ resolveY cfg idx y = .ok add.y ∧ resolveSW cfg idx sw = .ok add.sw ∧
      d'.Good cfg ∧ d'.triples = specPartial cfg.unique start.triples add.triples ∧
      s'.cur = some d' ∧ s'.clf = some (fitFn d') ∧
      s'.base = (if sb then some d' else s.base) ∧ s'.bclf = (if sb then some (fitFn d') else s.bclf) := by
  obtain ⟨ay, aw, hv⟩ := partialFit_ok_valid cfg fitFn pfitFn s s' idx y sw ub sb h
  rw [partialFit_valid cfg fitFn pfitFn s idx y sw ub sb ay aw hv, hn] at h
  simp only [Bool.false_eq_true, if_false] at h
  obtain ⟨hc, -, hy, hw⟩ := validatePartial_ok cfg s idx y sw ub ay aw hv
  have ha : (⟨idx, ay, aw⟩ : Data L W).WF := resolved_wf cfg idx y sw ay aw hy hw
  obtain ⟨d, d', -, hstart, hm, hgood, hs⟩ := partialEmu_ok cfg fitFn s s' idx ay aw ub sb hg ha h
  obtain ⟨hwf', htr, -, -⟩ := merge_ok_spec cfg.unique d idx ay aw (hg d hstart).1 ha d' hm
  refine ⟨d, ⟨idx, ay, aw⟩, d', hstart, rfl, hy, hw, hgood, htr, ?_⟩
  subst hs
  unfold fitResult
  cases sb <;> simp [hn]


/-! ## The wrapped classifier is a fresh fit on the recorded training list -/

/-- Invariant of the emulated path: the recorded training records are in step, within range, without
duplicates in unique mode, and the (base) classifier — whenever both it and a record exist — is
`fitFn` of that record, i.e. a fresh copy of the wrapped classifier trained on exactly the recorded
triples. (`clf = some c` with `cur = none` is the classifier handed over already fitted.) -/
def Inv (cfg : Cfg L W) (fitFn : Data L W → C) (s : St C L W) : Prop :=
  (∀ d, s.cur = some d → d.Good cfg) ∧ (∀ d, s.base = some d → d.Good cfg) ∧
  (∀ c d, s.clf = some c → s.cur = some d → c = fitFn d) ∧
  (∀ c d, s.bclf = some c → s.base = some d → c = fitFn d)

theorem init_inv (cfg : Cfg L W) (fitFn : Data L W → C) (pre : Option C) (sb : Bool) (s : St C L W)
    (h : init cfg pre sb = .ok s) : Inv cfg fitFn s := by
  unfold init at h
  split at h
  · injection h with h; subst h
    exact ⟨fun d hd => (by cases hd), fun d hd => (by cases hd), fun c d _ hd => (by cases hd), fun c d _ hd => (by cases hd)⟩
  · split at h
    · cases h
    · injection h with h; subst h
      exact ⟨fun d hd => (by cases hd), fun d hd => (by cases hd), fun c d _ hd => (by cases hd), fun c d _ hd => (by cases hd)⟩

/-- Every call that returns normally re-establishes the invariant. -/
theorem step_ok_inv (cfg : Cfg L W) (fitFn : Data L W → C) (pfitFn : C → Data L W → C)
    (s : St C L W) (op : Op L W) (hn : cfg.native = false) (hi : Inv cfg fitFn s)
    (h : (step cfg fitFn pfitFn s op).2 = none) : Inv cfg fitFn (step cfg fitFn pfitFn s op).1 := by
  obtain ⟨i1, i2, i3, i4⟩ := hi
  cases op with
  | fit idx y sw sb =>
    simp only [step] at h ⊢
    obtain ⟨d, hg, -, -, -, hcur, hclf, hbase, hbclf⟩ :=
      abs_fit cfg fitFn s _ idx y sw sb hn (Prod.ext rfl h)
    refine ⟨?_, ?_, ?_, ?_⟩
    · intro d' hd'; rw [hcur] at hd'; injection hd' with hd'; subst hd'; exact hg
    · intro d' hd'; rw [hbase] at hd'
      cases sb
      · exact i2 d' hd'
      · simp only [if_true] at hd'; injection hd' with hd'; subst hd'; exact hg
    · intro c d' hc hd'; rw [hcur] at hd'; rw [hclf] at hc
      injection hd' with hd'; injection hc with hc; subst hd'; exact hc.symm
    · intro c d' hc hd'; rw [hbase] at hd'; rw [hbclf] at hc
      cases sb
      · exact i4 c d' hc hd'
      · simp only [if_true] at hd' hc; injection hd' with hd'; injection hc with hc; subst hd'; exact hc.symm
  | pfit idx y sw ub sb =>
    simp only [step] at h ⊢
    have hg : ∀ d, (if ub then s.base else s.cur) = some d → d.Good cfg := by
      intro d hd; cases ub
      · exact i1 d hd
      · exact i2 d hd
    obtain ⟨start, add, d, -, -, -, -, hgood, -, hcur, hclf, hbase, hbclf⟩ :=
      abs_partialFit cfg fitFn pfitFn s _ idx y sw ub sb hn hg (Prod.ext rfl h)
    refine ⟨?_, ?_, ?_, ?_⟩
    · intro d' hd'; rw [hcur] at hd'; injection hd' with hd'; subst hd'; exact hgood
    · intro d' hd'; rw [hbase] at hd'
      cases sb
      · exact i2 d' hd'
      · simp only [if_true] at hd'; injection hd' with hd'; subst hd'; exact hgood
    · intro c d' hc hd'; rw [hcur] at hd'; rw [hclf] at hc
      injection hd' with hd'; injection hc with hc; subst hd'; exact hc.symm
    · intro c d' hc hd'; rw [hbase] at hd'; rw [hbclf] at hc
      cases sb
      · exact i4 c d' hc hd'
      · simp only [if_true] at hd' hc; injection hd' with hd'; injection hc with hc; subst hd'; exact hc.symm

/-! ## Atomicity of raising calls (full strength since the repair of `partial_fit`) -/

/-- `fit` never changes the object when it raises. -/
theorem fit_error_atomic (cfg : Cfg L W) (fitFn : Data L W → C) (s : St C L W)
    (idx : List Int) (y : Option (List L)) (sw : Option (List W)) (sb : Bool)
    (h : (fit cfg fitFn s idx y sw sb).2 ≠ none) : (fit cfg fitFn s idx y sw sb).1 = s := by
  cases he : (fit cfg fitFn s idx y sw sb).2 with
  | none => exact absurd he h
  | some e => exact fit_error_unchanged cfg fitFn s _ idx y sw sb e (Prod.ext rfl he)

/-- `partial_fit` does not change the object when the arguments are rejected by the validation or the
(base) classifier is not fitted. -/
theorem partialFit_rejected_atomic (cfg : Cfg L W) (fitFn : Data L W → C) (pfitFn : C → Data L W → C)
    (s : St C L W) (idx : List Int) (y : Option (List L)) (sw : Option (List W)) (ub sb : Bool) (e : Err)
    (h : validatePartial cfg s idx y sw ub = .error e) :
    partialFit cfg fitFn pfitFn s idx y sw ub sb = (s, some e) :=
  partialFit_rejected_unchanged cfg fitFn pfitFn s idx y sw ub sb e h

theorem partialNative_error_atomic (cfg : Cfg L W) (pfitFn : C → Data L W → C)
    (s : St C L W) (idx : List Int) (ay : List L) (aw : Option (List W)) (ub sb : Bool)
    (h : (partialNative cfg pfitFn s idx ay aw ub sb).2 ≠ none) :
    (partialNative cfg pfitFn s idx ay aw ub sb).1 = s := by
  unfold partialNative at h ⊢
  cases hx : xIndexOk cfg idx with
  | false => simp
  | true =>
    simp only [hx, Bool.not_true, Bool.false_eq_true, if_false] at h ⊢
    cases hc : (if ub = true then s.bclf else s.clf) with
    | none => simp
    | some c => rw [hc] at h; exfalso; cases sb <;> simp at h

theorem partialEmu_error_atomic (cfg : Cfg L W) (fitFn : Data L W → C)
    (s : St C L W) (idx : List Int) (ay : List L) (aw : Option (List W)) (ub sb : Bool)
    (h : (partialEmu cfg fitFn s idx ay aw ub sb).2 ≠ none) :
    (partialEmu cfg fitFn s idx ay aw ub sb).1 = s := by
  unfold partialEmu at h ⊢
  cases hcur : s.cur with
  | none => rfl
  | some cur0 =>
    rw [hcur] at h
    simp only at h ⊢
    cases hst : (if ub = true then s.base else some cur0) with
    | none => rfl
    | some d =>
      rw [hst] at h
      simp only at h ⊢
      cases hm : merge cfg.unique d idx ay aw with
      | error e => rfl
      | ok d' =>
        rw [hm] at h
        simp only at h ⊢
        cases he : (fit cfg fitFn ⟨if ub = true then none else s.clf, some cur0, s.bclf, s.base⟩
            d'.idx (some d'.y) d'.sw sb).2 with
        | some e => rfl
        | none => rw [he] at h; simp only at h; exact absurd he h

/-- the emulated `partial_fit` either leaves the object as it was or ends like the closing `fit` on the
object with `clf_` swapped -/
theorem partialEmu_cases (cfg : Cfg L W) (fitFn : Data L W → C)
    (s : St C L W) (idx : List Int) (ay : List L) (aw : Option (List W)) (ub sb : Bool) :
    (partialEmu cfg fitFn s idx ay aw ub sb).1 = s ∨
    ∃ d' : Data L W, (partialEmu cfg fitFn s idx ay aw ub sb).1 =
      (fit cfg fitFn ⟨if ub = true then none else s.clf, s.cur, s.bclf, s.base⟩ d'.idx (some d'.y) d'.sw sb).1 := by
  unfold partialEmu
  cases hcur : s.cur with
  | none => exact Or.inl rfl
  | some cur0 =>
    simp only
    cases hst : (if ub = true then s.base else some cur0) with
    | none => exact Or.inl rfl
    | some d =>
      simp only
      cases hm : merge cfg.unique d idx ay aw with
      | error e => exact Or.inl rfl
      | ok d' =>
        simp only
        cases he : (fit cfg fitFn ⟨if ub = true then none else s.clf, some cur0, s.bclf, s.base⟩
            d'.idx (some d'.y) d'.sw sb).2 with
        | some e => exact Or.inl rfl
        | none => exact Or.inr ⟨d', rfl⟩

/-- `partialFit_error_atomic` — **`partial_fit` never changes the object when it raises**, on the native
and on the emulated path, whatever the exception (argument validation, `NotFittedError`, mixed weights,
index below `-n`, base data unknown). -/
theorem partialFit_error_atomic (cfg : Cfg L W) (fitFn : Data L W → C) (pfitFn : C → Data L W → C)
    (s : St C L W) (idx : List Int) (y : Option (List L)) (sw : Option (List W)) (ub sb : Bool)
    (h : (partialFit cfg fitFn pfitFn s idx y sw ub sb).2 ≠ none) :
    (partialFit cfg fitFn pfitFn s idx y sw ub sb).1 = s := by
  cases hv : validatePartial cfg s idx y sw ub with
  | error e => rw [partialFit_rejected_unchanged cfg fitFn pfitFn s idx y sw ub sb e hv]
  | ok p =>
    obtain ⟨ay, aw⟩ := p
    rw [partialFit_valid cfg fitFn pfitFn s idx y sw ub sb ay aw hv] at h ⊢
    cases hnat : cfg.native with
    | true =>
      rw [hnat] at h
      simp only [if_true] at h ⊢
      exact partialNative_error_atomic cfg pfitFn s idx ay aw ub sb h
    | false =>
      rw [hnat] at h
      simp only [Bool.false_eq_true, if_false] at h ⊢
      exact partialEmu_error_atomic cfg fitFn s idx ay aw ub sb h

/-- every call on the wrapper is atomic -/
theorem step_error_atomic (cfg : Cfg L W) (fitFn : Data L W → C) (pfitFn : C → Data L W → C)
    (s : St C L W) (op : Op L W) (h : (step cfg fitFn pfitFn s op).2 ≠ none) :
    (step cfg fitFn pfitFn s op).1 = s := by
  cases op with
  | fit idx y sw sb => exact fit_error_atomic cfg fitFn s idx y sw sb h
  | pfit idx y sw ub sb => exact partialFit_error_atomic cfg fitFn pfitFn s idx y sw ub sb h

/-- `clf_is_fresh_fit` — **after every call sequence** (induction over the sequence, raising calls
included) the wrapped classifier is `fitFn` of the recorded training list — a fresh copy trained on
exactly the implied triples — **for every `fitFn`**; likewise the base classifier. -/
theorem clf_is_fresh_fit (cfg : Cfg L W) (fitFn : Data L W → C) (pfitFn : C → Data L W → C)
    (hn : cfg.native = false) (ops : List (Op L W)) (s : St C L W) (hi : Inv cfg fitFn s) :
    Inv cfg fitFn (run cfg fitFn pfitFn s ops) := by
  induction ops generalizing s with
  | nil => exact hi
  | cons op ops ih =>
    simp only [run]
    apply ih
    cases he : (step cfg fitFn pfitFn s op).2 with
    | none => exact step_ok_inv cfg fitFn pfitFn s op hn hi he
    | some e => rw [step_error_atomic cfg fitFn pfitFn s op (by rw [he]; simp)]; exact hi

/-! ## Invariants that hold after *every* call, raising or not -/

/-- in unique mode the recorded index lists have no duplicates -/
def NodupInv (cfg : Cfg L W) (s : St C L W) : Prop :=
  cfg.unique = true → (∀ d, s.cur = some d → d.idx.Nodup) ∧ (∀ d, s.base = some d → d.idx.Nodup)

theorem fit_nodup (cfg : Cfg L W) (fitFn : Data L W → C) (s : St C L W)
    (idx : List Int) (y : Option (List L)) (sw : Option (List W)) (sb : Bool)
    (hi : NodupInv cfg s) : NodupInv cfg (fit cfg fitFn s idx y sw sb).1 := by
  rcases hfe : fit cfg fitFn s idx y sw sb with ⟨s', e⟩
  cases e with
  | some e => rw [fit_error_unchanged cfg fitFn s s' idx y sw sb e hfe]; exact hi
  | none =>
    obtain ⟨yy, ww, hc, -, -, -, hs⟩ := fit_ok cfg fitFn s s' idx y sw sb hfe
    subst hs
    intro hu
    obtain ⟨i1, i2⟩ := hi hu
    have hnd := (checkIdx_none cfg idx hc).2.1 hu
    refine ⟨?_, ?_⟩
    · intro d hd
      unfold fitResult at hd
      cases sb <;> cases hnat : cfg.native <;> simp [hnat] at hd <;>
        first | exact i1 d hd | (subst hd; exact hnd)
    · intro d hd
      unfold fitResult at hd
      cases sb <;> cases hnat : cfg.native <;> simp [hnat] at hd <;>
        first | exact i2 d hd | (subst hd; exact hnd)

/-- `enforce_unique_samples → idx_ and base_idx_ have no duplicates`, after every call. -/
theorem enforceUnique_nodup (cfg : Cfg L W) (fitFn : Data L W → C) (pfitFn : C → Data L W → C)
    (s : St C L W) (op : Op L W) (hi : NodupInv cfg s) :
    NodupInv cfg (step cfg fitFn pfitFn s op).1 := by
  cases op with
  | fit idx y sw sb => exact fit_nodup cfg fitFn s idx y sw sb hi
  | pfit idx y sw ub sb =>
    simp only [step]
    cases hv : validatePartial cfg s idx y sw ub with
    | error e => rw [partialFit_rejected_unchanged cfg fitFn pfitFn s idx y sw ub sb e hv]; exact hi
    | ok p =>
      obtain ⟨ay, aw⟩ := p
      rw [partialFit_valid cfg fitFn pfitFn s idx y sw ub sb ay aw hv]
      obtain ⟨hc, -, -, -⟩ := validatePartial_ok cfg s idx y sw ub ay aw hv
      cases hn : cfg.native with
      | true =>
        simp only [if_true]
        intro hu
        obtain ⟨i1, i2⟩ := hi hu
        unfold partialNative
        split
        · exact ⟨i1, i2⟩
        · split
          · exact ⟨i1, i2⟩
          · split <;> exact ⟨i1, i2⟩
      | false =>
        simp only [Bool.false_eq_true, if_false]
        rcases partialEmu_cases cfg fitFn s idx ay aw ub sb with h | ⟨d', h⟩
        · rw [h]; exact hi
        · rw [h]
          exact fit_nodup cfg fitFn _ _ _ _ sb (fun hu => ⟨(hi hu).1, (hi hu).2⟩)

theorem fit_base_unchanged (cfg : Cfg L W) (fitFn : Data L W → C) (s : St C L W)
    (idx : List Int) (y : Option (List L)) (sw : Option (List W)) :
    (fit cfg fitFn s idx y sw false).1.base = s.base ∧ (fit cfg fitFn s idx y sw false).1.bclf = s.bclf := by
  rcases hfe : fit cfg fitFn s idx y sw false with ⟨s', e⟩
  cases e with
  | some e => rw [fit_error_unchanged cfg fitFn s s' idx y sw false e hfe]; exact ⟨rfl, rfl⟩
  | none =>
    obtain ⟨yy, ww, -, -, -, -, hs⟩ := fit_ok cfg fitFn s s' idx y sw false hfe
    subst hs
    simp [fitResult]

/-- `base_unchanged_without_setBase` — **without `set_base_clf` no call touches the base classifier or
its training record** (whether it raises or not): the base is never aliased by the current model. -/
theorem base_unchanged_without_setBase (cfg : Cfg L W) (fitFn : Data L W → C) (pfitFn : C → Data L W → C)
    (s : St C L W) (idx : List Int) (y : Option (List L)) (sw : Option (List W)) (ub : Bool) :
    ((fit cfg fitFn s idx y sw false).1.base = s.base ∧ (fit cfg fitFn s idx y sw false).1.bclf = s.bclf) ∧
    ((partialFit cfg fitFn pfitFn s idx y sw ub false).1.base = s.base ∧
      (partialFit cfg fitFn pfitFn s idx y sw ub false).1.bclf = s.bclf) := by
  refine ⟨fit_base_unchanged cfg fitFn s idx y sw, ?_⟩
  cases hv : validatePartial cfg s idx y sw ub with
  | error e => rw [partialFit_rejected_unchanged cfg fitFn pfitFn s idx y sw ub false e hv]; exact ⟨rfl, rfl⟩
  | ok p =>
    obtain ⟨ay, aw⟩ := p
    rw [partialFit_valid cfg fitFn pfitFn s idx y sw ub false ay aw hv]
    cases cfg.native with
    | true =>
      simp only [if_true]
      unfold partialNative
      split
      · exact ⟨rfl, rfl⟩
      · split <;> exact ⟨rfl, rfl⟩
    | false =>
      simp only [Bool.false_eq_true, if_false]
      rcases partialEmu_cases cfg fitFn s idx ay aw ub false with h | ⟨d', h⟩
      · rw [h]; exact ⟨rfl, rfl⟩
      · rw [h]; exact fit_base_unchanged cfg fitFn _ _ _ _

/-- the validation inside `fit` never looks at the object: if `fit` raises on one object it raises the
same exception on any other (and leaves it unchanged) -/
theorem fit_error_transfer (cfg : Cfg L W) (fitFn : Data L W → C) (s t s' : St C L W)
    (idx : List Int) (y : Option (List L)) (sw : Option (List W)) (sb : Bool) (e : Err)
    (h : fit cfg fitFn s idx y sw sb = (s', some e)) : fit cfg fitFn t idx y sw sb = (t, some e) := by
  unfold fit at h ⊢
  cases hc : checkIdx cfg idx with
  | some e' => rw [hc] at h; simp only at h ⊢; injection h with _ h2; rw [h2]
  | none =>
    rw [hc] at h; simp only at h ⊢
    cases hy : resolveY cfg idx y with
    | error e' => rw [hy] at h; simp only at h ⊢; injection h with _ h2; rw [h2]
    | ok yy =>
      rw [hy] at h; simp only at h ⊢
      cases hw : resolveSW cfg idx sw with
      | error e' => rw [hw] at h; simp only at h ⊢; injection h with _ h2; rw [h2]
      | ok ww =>
        rw [hw] at h; simp only at h ⊢
        cases hx : xIndexOk cfg idx with
        | false => rw [hx] at h; simp only [Bool.not_false, if_true] at h ⊢; injection h with _ h2; rw [h2]
        | true =>
          rw [hx] at h
          simp only [Bool.not_true, Bool.false_eq_true, if_false] at h
          split at h <;> (injection h with _ h2; cases h2)

/-- with `native = false` the outcome of `fit` does not depend on the object's current classifier and
current record -/
theorem fit_indep_cur (cfg : Cfg L W) (fitFn : Data L W → C) (hn : cfg.native = false) (s t : St C L W)
    (hb : s.base = t.base) (hc : s.bclf = t.bclf)
    (idx : List Int) (y : Option (List L)) (sw : Option (List W)) (sb : Bool) :
    (fit cfg fitFn s idx y sw sb).2 = (fit cfg fitFn t idx y sw sb).2 ∧
    ((fit cfg fitFn s idx y sw sb).2 = none → (fit cfg fitFn s idx y sw sb).1 = (fit cfg fitFn t idx y sw sb).1) := by
  rcases hfe : fit cfg fitFn s idx y sw sb with ⟨s', e⟩
  cases e with
  | some e =>
    rw [fit_error_transfer cfg fitFn s t s' idx y sw sb e hfe]
    exact ⟨rfl, fun h => by cases h⟩
  | none =>
    obtain ⟨yy, ww, h1, h2, h3, h4, hs⟩ := fit_ok cfg fitFn s s' idx y sw sb hfe
    rw [fit_of_valid cfg fitFn t idx y sw sb yy ww h1 h2 h3 h4]
    subst hs
    refine ⟨rfl, fun _ => ?_⟩
    unfold fitResult
    cases sb <;> simp [hn, hb, hc]

/-- `partialFit_useBase_independent_of_cur` — **`partial_fit(use_base_clf=True)` restarts from the base**:
two objects with the same base classifier and base record (and, on the emulated path, some current
record each) raise the same exception or end, if the call returns, in the same state — whatever their
current classifier and current record were. -/
theorem partialFit_useBase_independent_of_cur (cfg : Cfg L W) (fitFn : Data L W → C) (pfitFn : C → Data L W → C)
    (s t : St C L W) (idx : List Int) (y : Option (List L)) (sw : Option (List W)) (sb : Bool)
    (hb : s.base = t.base) (hc : s.bclf = t.bclf)
    (hcur : cfg.native = false → (s.cur = none ↔ t.cur = none))
    (hnat : cfg.native = true → s.cur = t.cur) :
    (partialFit cfg fitFn pfitFn s idx y sw true sb).2 = (partialFit cfg fitFn pfitFn t idx y sw true sb).2 ∧
    ((partialFit cfg fitFn pfitFn s idx y sw true sb).2 = none →
      (partialFit cfg fitFn pfitFn s idx y sw true sb).1 = (partialFit cfg fitFn pfitFn t idx y sw true sb).1) := by
  have hvv : validatePartial cfg s idx y sw true = validatePartial cfg t idx y sw true := by
    simp [validatePartial, hc]
  cases hv : validatePartial cfg s idx y sw true with
  | error e =>
    rw [partialFit_rejected_unchanged cfg fitFn pfitFn s idx y sw true sb e hv,
        partialFit_rejected_unchanged cfg fitFn pfitFn t idx y sw true sb e (hvv ▸ hv)]
    exact ⟨rfl, fun h => by cases h⟩
  | ok p =>
    obtain ⟨ay, aw⟩ := p
    rw [partialFit_valid cfg fitFn pfitFn s idx y sw true sb ay aw hv,
        partialFit_valid cfg fitFn pfitFn t idx y sw true sb ay aw (hvv ▸ hv)]
    cases hn : cfg.native with
    | true =>
      simp only [if_true]
      unfold partialNative
      simp only [if_true, hc, hb, hnat hn]
      cases xIndexOk cfg idx with
      | false => exact ⟨rfl, fun h => by cases h⟩
      | true =>
        simp only [Bool.not_true, Bool.false_eq_true, if_false]
        cases t.bclf with
        | none => exact ⟨rfl, fun h => by cases h⟩
        | some c => cases sb <;> exact ⟨rfl, fun _ => rfl⟩
    | false =>
      simp only [Bool.false_eq_true, if_false]
      unfold partialEmu
      cases hs : s.cur with
      | none =>
        have ht : t.cur = none := (hcur hn).mp hs
        rw [ht]
        exact ⟨rfl, fun h => by cases h⟩
      | some cs =>
        cases ht : t.cur with
        | none => rw [(hcur hn).mpr ht] at hs; cases hs
        | some ct =>
          simp only [if_true, hb]
          cases t.base with
          | none => exact ⟨rfl, fun h => by cases h⟩
          | some d =>
            simp only
            cases merge cfg.unique d idx ay aw with
            | error e => exact ⟨rfl, fun h => by cases h⟩
            | ok d' =>
              simp only
              obtain ⟨f1, f2⟩ := fit_indep_cur cfg fitFn hn (⟨none, some cs, s.bclf, some d⟩ : St C L W)
                ⟨none, some ct, t.bclf, some d⟩ rfl hc d'.idx (some d'.y) d'.sw sb
              rw [← f1]
              cases he : (fit cfg fitFn (⟨none, some cs, s.bclf, some d⟩ : St C L W) d'.idx (some d'.y) d'.sw sb).2 with
              | some e => exact ⟨rfl, fun h => by cases h⟩
              | none => exact ⟨he.trans (by rw [f1] at he; exact he.symm), fun _ => f2 he⟩

/-- The property speaks of the *multiset* of triples: for a wrapped classifier that does not depend on
the order of its training samples, any list with the same multiset gives the same classifier. -/
theorem clf_depends_only_on_multiset {T : Type} (g : List (Int × L × Option W) → T)
    (hg : ∀ a b, a.Perm b → g a = g b) (d : Data L W) (ts : List (Int × L × Option W))
    (h : d.triples.Perm ts) : g d.triples = g ts := hg _ _ h

/-! ## Native `partial_fit`: the wrapped classifier is a fresh copy put through the recorded calls -/

/-- change of classifier representation -/
def mapSt (φ : C → C') (s : St C L W) : St C' L W := ⟨s.clf.map φ, s.cur, s.bclf.map φ, s.base⟩

theorem fit_natural (cfg : Cfg L W) (φ : C → C') (fitFn : Data L W → C) (fitFn' : Data L W → C')
    (hf : ∀ d, φ (fitFn d) = fitFn' d) (s : St C L W)
    (idx : List Int) (y : Option (List L)) (sw : Option (List W)) (sb : Bool) :
    fit cfg fitFn' (mapSt φ s) idx y sw sb =
      (mapSt φ (fit cfg fitFn s idx y sw sb).1, (fit cfg fitFn s idx y sw sb).2) := by
  unfold fit
  cases checkIdx cfg idx with
  | some e => rfl
  | none =>
    simp only
    cases resolveY cfg idx y with
    | error e => rfl
    | ok yy =>
      simp only
      cases resolveSW cfg idx sw with
      | error e => rfl
      | ok ww =>
        simp only
        cases xIndexOk cfg idx with
        | false => rfl
        | true =>
          cases sb <;> simp [mapSt, hf]

theorem step_natural (cfg : Cfg L W) (φ : C → C') (fitFn : Data L W → C) (pfitFn : C → Data L W → C)
    (fitFn' : Data L W → C') (pfitFn' : C' → Data L W → C')
    (hf : ∀ d, φ (fitFn d) = fitFn' d) (hp : ∀ c d, φ (pfitFn c d) = pfitFn' (φ c) d)
    (s : St C L W) (op : Op L W) :
    step cfg fitFn' pfitFn' (mapSt φ s) op =
      (mapSt φ (step cfg fitFn pfitFn s op).1, (step cfg fitFn pfitFn s op).2) := by
  cases op with
  | fit idx y sw sb => exact fit_natural cfg φ fitFn fitFn' hf s idx y sw sb
  | pfit idx y sw ub sb =>
    simp only [step]
    have hv : validatePartial cfg (mapSt φ s) idx y sw ub = validatePartial cfg s idx y sw ub := by
      simp [validatePartial, mapSt]
    unfold partialFit
    rw [hv]
    cases validatePartial cfg s idx y sw ub with
    | error e => rfl
    | ok p =>
      obtain ⟨ay, aw⟩ := p
      simp only
      cases cfg.native with
      | true =>
        simp only [if_true]
        unfold partialNative
        cases xIndexOk cfg idx with
        | false => rfl
        | true =>
          simp only [Bool.not_true, Bool.false_eq_true, if_false]
          cases ub
          · simp only [Bool.false_eq_true, if_false]
            cases hc : s.clf with
            | none => simp [mapSt, hc]
            | some c => cases sb <;> simp [mapSt, hc, hp]
          · simp only [if_true]
            cases hc : s.bclf with
            | none => simp [mapSt, hc]
            | some c => cases sb <;> simp [mapSt, hc, hp]
      | false =>
        simp only [Bool.false_eq_true, if_false]
        unfold partialEmu
        cases hcur : s.cur with
        | none => simp [mapSt, hcur]
        | some cur0 =>
          have : (mapSt φ s).cur = some cur0 := hcur
          rw [this]
          simp only
          have hb : (mapSt φ s).base = s.base := rfl
          rw [hb]
          cases (if ub = true then s.base else some cur0) with
          | none => rfl
          | some d =>
            simp only
            cases merge cfg.unique d idx ay aw with
            | error e => rfl
            | ok d' =>
              simp only
              have hnat := fit_natural cfg φ fitFn fitFn' hf ⟨if ub = true then none else s.clf, some cur0, s.bclf, s.base⟩
                d'.idx (some d'.y) d'.sw sb
              have hst : (⟨if ub = true then none else (mapSt φ s).clf, some cur0, (mapSt φ s).bclf, s.base⟩ : St C' L W) =
                  mapSt φ ⟨if ub = true then none else s.clf, some cur0, s.bclf, s.base⟩ := by
                cases ub <;> simp [mapSt]
              rw [hst, hnat]
              simp only
              cases he : (fit cfg fitFn ⟨if ub = true then none else s.clf, some cur0, s.bclf, s.base⟩
                d'.idx (some d'.y) d'.sw sb).2 with
              | some e => rfl
              | none => simp [he]

theorem run_natural (cfg : Cfg L W) (φ : C → C') (fitFn : Data L W → C) (pfitFn : C → Data L W → C)
    (fitFn' : Data L W → C') (pfitFn' : C' → Data L W → C')
    (hf : ∀ d, φ (fitFn d) = fitFn' d) (hp : ∀ c d, φ (pfitFn c d) = pfitFn' (φ c) d)
    (ops : List (Op L W)) (s : St C L W) :
    run cfg fitFn' pfitFn' (mapSt φ s) ops = mapSt φ (run cfg fitFn pfitFn s ops) := by
  induction ops generalizing s with
  | nil => rfl
  | cons op ops ih =>
    simp only [run]
    rw [step_natural cfg φ fitFn pfitFn fitFn' pfitFn' hf hp s op]
    exact ih _

theorem replay_fit (fitFn : Data L W → C) (pfitFn : C → Data L W → C) (d : Data L W) :
    Hist.replay fitFn pfitFn (Hist.fit d) = fitFn d := rfl

theorem replay_pfit (fitFn : Data L W → C) (pfitFn : C → Data L W → C) (h : Hist L W) (d : Data L W) :
    Hist.replay fitFn pfitFn (Hist.pfit h d) = pfitFn (Hist.replay fitFn pfitFn h) d := by
  simp [Hist.replay, Hist.pfit, List.foldl_append]

/-- `clf_is_replay` — **for every wrapped classifier (`fitFn`, `pfitFn`), every flag setting and every
call sequence — raising calls included —** the classifier held by the wrapper (and the base classifier)
equals a fresh copy put through exactly the recorded sequence of `fit` / native `partial_fit` calls:
the recorded sequence is what the same run yields on the free classifier `Hist`, which only logs its
calls. (On the native path equality with *batch* retraining is not claimed: it depends on the
estimator.) On the emulated path the recorded sequence is a single `fit`, see `clf_is_fresh_fit`. -/
theorem clf_is_replay (cfg : Cfg L W) (fitFn : Data L W → C) (pfitFn : C → Data L W → C)
    (ops : List (Op L W)) :
    run cfg fitFn pfitFn ⟨none, none, none, none⟩ ops =
      mapSt (Hist.replay fitFn pfitFn) (run cfg Hist.fit Hist.pfit ⟨none, none, none, none⟩ ops) := by
  have := run_natural cfg (Hist.replay fitFn pfitFn) Hist.fit Hist.pfit fitFn pfitFn
    (replay_fit fitFn pfitFn) (replay_pfit fitFn pfitFn) ops ⟨none, none, none, none⟩
  simpa [mapSt] using this

/-- What the free run records on the native path: a successful `fit` starts a new history… -/
theorem native_fit_hist (cfg : Cfg L W) (s s' : St (Hist L W) L W)
    (idx : List Int) (y : Option (List L)) (sw : Option (List W)) (sb : Bool) (hn : cfg.native = true)
    (h : fit cfg Hist.fit s idx y sw sb = (s', none)) :
    ∃ d : Data L W, d.idx = idx ∧ resolveY cfg idx y = .ok d.y ∧ resolveSW cfg idx sw = .ok d.sw ∧
      s'.clf = some ⟨d, []⟩ ∧ s'.bclf = (if sb then some ⟨d, []⟩ else s.bclf) ∧ s'.cur = s.cur ∧ s'.base = s.base := by
  obtain ⟨yy, ww, -, hy, hw, -, hs⟩ := fit_ok cfg Hist.fit s s' idx y sw sb h
  subst hs
  refine ⟨⟨idx, yy, ww⟩, rfl, hy, hw, ?_⟩
  unfold fitResult
  cases sb <;> simp [hn, Hist.fit]

/-- …and a successful native `partial_fit` appends the new batch to the history of the current
classifier, or of the base classifier with `use_base_clf`; `set_base_clf` stores the result. -/
theorem native_partialFit_hist (cfg : Cfg L W) (s s' : St (Hist L W) L W)
    (idx : List Int) (y : Option (List L)) (sw : Option (List W)) (ub sb : Bool) (hn : cfg.native = true)
    (h : partialFit cfg Hist.fit Hist.pfit s idx y sw ub sb = (s', none)) :
    ∃ (start : Hist L W) (d : Data L W), (if ub then s.bclf else s.clf) = some start ∧
      d.idx = idx ∧ resolveY cfg idx y = .ok d.y ∧ resolveSW cfg idx sw = .ok d.sw ∧
      s'.clf = some ⟨start.first, start.rest ++ [d]⟩ ∧
      s'.bclf = (if sb then some ⟨start.first, start.rest ++ [d]⟩ else s.bclf) ∧ s'.cur = s.cur ∧ s'.base = s.base := by
  obtain ⟨ay, aw, hv⟩ := partialFit_ok_valid cfg Hist.fit Hist.pfit s s' idx y sw ub sb h
  rw [partialFit_valid cfg Hist.fit Hist.pfit s idx y sw ub sb ay aw hv, hn] at h
  simp only [if_true] at h
  obtain ⟨-, -, hy, hw⟩ := validatePartial_ok cfg s idx y sw ub ay aw hv
  unfold partialNative at h
  cases hx : xIndexOk cfg idx with
  | false => rw [hx] at h; simp at h
  | true =>
    rw [hx] at h
    cases ub
    · simp only [Bool.false_eq_true, if_false, Bool.not_true] at h ⊢
      cases hc : s.clf with
      | none => rw [hc] at h; simp at h
      | some c =>
        rw [hc] at h
        refine ⟨c, ⟨idx, ay, aw⟩, rfl, rfl, hy, hw, ?_⟩
        cases sb <;>
          (simp only [Bool.false_eq_true, if_false, if_true] at h; injection h with h _; subst h; simp [Hist.pfit])
    · simp only [if_true, Bool.not_true, Bool.false_eq_true, if_false] at h ⊢
      cases hc : s.bclf with
      | none => rw [hc] at h; simp at h
      | some c =>
        rw [hc] at h
        refine ⟨c, ⟨idx, ay, aw⟩, rfl, rfl, hy, hw, ?_⟩
        cases sb <;>
          (simp only [Bool.false_eq_true, if_false, if_true] at h; injection h with h _; subst h; simp [Hist.pfit])

/-! ## The precomputed-kernel speed-up -/

/-- every filled entry of `pwc_K_` is the kernel value of its pair -/
def TabSound (k : Nat → Nat → κ) (pre : Tab κ) : Prop := ∀ i j v, pre i j = some v → v = k i j

theorem tab_empty_sound (k : Nat → Nat → κ) : TabSound k Tab.empty := by
  intro i j v h; cases h

/-- `precompute` only ever writes kernel values, and never erases an entry. -/
theorem precompute_sound (cfg : Cfg L W) (isMissing : L → Bool) (k : Nat → Nat → κ) (pre : Tab κ)
    (a b : List Int) (fp pp : Nat) (hs : TabSound k pre) :
    TabSound k (precompute cfg isMissing k pre a b fp pp).1 ∧
    ∀ i j, pre i j ≠ none → (precompute cfg isMissing k pre a b fp pp).1 i j ≠ none := by
  unfold precompute
  split
  · exact ⟨hs, fun _ _ h => h⟩
  split
  · exact ⟨hs, fun _ _ h => h⟩
  split
  · exact ⟨hs, fun _ _ h => h⟩
  split
  · exact ⟨hs, fun _ _ h => h⟩
  split
  · exact ⟨hs, fun _ _ h => h⟩
  split
  · exact ⟨hs, fun _ _ h => h⟩
  split
  · refine ⟨?_, ?_⟩
    · intro i j v h
      simp only at h
      split at h
      · injection h with h; exact h.symm
      · exact hs i j v h
    · intro i j h
      simp only
      split
      · simp
      · exact h
  · exact ⟨hs, fun _ _ h => h⟩

/-- after `precompute(idx_fit, idx_pred)` (with the default `"all"` parameters) every pair
(fit index, predict index) is available -/
theorem precompute_covers (cfg : Cfg L W) (isMissing : L → Bool) (k : Nat → Nat → κ) (pre : Tab κ)
    (a b : List Int) (an bn : List Nat) (hsp : cfg.speed = true)
    (ha : checkIdxPre cfg a = none) (hb : checkIdxPre cfg b = none)
    (han : mapOpt (normIdx cfg.n) a = some an) (hbn : mapOpt (normIdx cfg.n) b = some bn) :
    (precompute cfg isMissing k pre a b 0 0).2 = none ∧
    ∀ i ∈ an, ∀ j ∈ bn, (precompute cfg isMissing k pre a b 0 0).1 i j = some (k i j) := by
  have hae : a.isEmpty = false := by
    unfold checkIdxPre at ha
    split at ha
    · cases ha
    · rename_i h; simpa using h
  have hbe : b.isEmpty = false := by
    unfold checkIdxPre at hb
    split at hb
    · cases hb
    · rename_i h; simpa using h
  unfold precompute
  simp only [ha, hb, hsp, filterParam, Bool.not_true, Bool.false_eq_true, if_false, if_true, hae, hbe,
    Bool.or_self, han, hbn]
  refine ⟨?_, ?_⟩
  · first | rfl | trivial
  intro i hi j hj
  simp [hi, hj]

theorem tableRow_sound (k : Nat → Nat → κ) (pre : Tab κ) (hs : TabSound k pre) (tr : List Nat) (j : Nat)
    (row : List κ) (h : tableRow pre tr j = some row) : row = tr.map (fun i => k i j) :=
  mapOpt_some_eq_map _ _ tr row h (fun i v hv => hs i j v hv)

/-- **What the speed-up hands to the precomputed clone is the kernel matrix the original classifier
computes itself**: if the table is sound and the kernel symmetric, a successful lookup yields
`pairwise_kernels(X[idx], X[idx_])` entry by entry. -/
theorem tableRows_eq_direct (cfg : Cfg L W) (k : Nat → Nat → κ) (pre : Tab κ) (hs : TabSound k pre)
    (hsym : ∀ i j, k i j = k j i) (train q : List Int) (rows : List (List κ))
    (h : tableRows cfg pre train q = .ok rows) :
    ∃ tr qs, mapOpt (normIdx cfg.n) train = some tr ∧ mapOpt (normIdx cfg.n) q = some qs ∧
      rows = directRows k tr qs := by
  unfold tableRows at h
  split at h
  · rename_i tr qs htr hqs
    split at h
    · rename_i rows' hrows
      injection h with h; subst h
      refine ⟨tr, qs, htr, hqs, ?_⟩
      unfold directRows
      apply mapOpt_some_eq_map _ _ qs rows' hrows
      intro j row hrow
      rw [tableRow_sound k pre hs tr j row hrow]
      apply List.map_congr_left
      intro i _; exact hsym i j
    · cases h
  · cases h

/-- the lookup succeeds when every needed pair was precomputed… -/
theorem tableRows_complete (cfg : Cfg L W) (pre : Tab κ) (train q : List Int) (tr qs : List Nat)
    (htr : mapOpt (normIdx cfg.n) train = some tr) (hqs : mapOpt (normIdx cfg.n) q = some qs)
    (hall : ∀ i ∈ tr, ∀ j ∈ qs, pre i j ≠ none) :
    ∃ rows, tableRows cfg pre train q = .ok rows := by
  unfold tableRows
  rw [htr, hqs]
  simp only
  have hrow : ∀ j ∈ qs, tableRow pre tr j ≠ none := by
    intro j hj hn
    obtain ⟨row, hr⟩ := mapOpt_isSome (fun i => pre i j) tr (fun i hi => hall i hi j hj)
    unfold tableRow at hn
    rw [hr] at hn; cases hn
  obtain ⟨rows, hr⟩ := mapOpt_isSome (tableRow pre tr) qs hrow
  exact ⟨rows, by rw [hr]⟩

/-- `speedup_nan_raises` — …and otherwise the code raises (it never guesses): one needed pair missing
makes every `predict*` raise the "not pre-computed" `ValueError`. -/
theorem speedup_nan_raises (cfg : Cfg L W) (pre : Tab κ) (train q : List Int) (tr qs : List Nat)
    (htr : mapOpt (normIdx cfg.n) train = some tr) (hqs : mapOpt (normIdx cfg.n) q = some qs)
    (i j : Nat) (hi : i ∈ tr) (hj : j ∈ qs) (hmiss : pre i j = none) :
    tableRows cfg pre train q = .error .nan := by
  unfold tableRows
  rw [htr, hqs]
  simp only
  have : tableRow pre tr j = none := mapOpt_none_of_mem _ tr i hi hmiss
  rw [mapOpt_none_of_mem _ qs j hj this]

/-- how a plan is answered: the precomputed clone is the same function `predRows` of the kernel rows as
the original classifier (Parzen window: `K @ V_`, see `freqRows`), which computes its rows itself -/
def planEval {R : Type} (predRows : Kind → List (List κ) → R) (k : Nat → Nat → κ) (train : List Nat) :
    Plan κ → Option R
  | .table kind rows => some (predRows kind rows)
  | .direct kind qs => some (predRows kind (directRows k train qs))
  | .orig _ _ => none

/-- `speedup_eq_direct` — **if every needed pair was precomputed and the kernel is symmetric, every
prediction through the table equals the prediction by direct kernel evaluation**: same state, same
query, `use_speed_up` on vs off (the call sequence itself never reads the flag). -/
theorem speedup_eq_direct {R : Type} (cfg : Cfg L W) (predRows : Kind → List (List κ) → R)
    (k : Nat → Nat → κ) (pre : Tab κ) (hs : TabSound k pre) (hsym : ∀ i j, k i j = k j i)
    (s : St C L W) (d : Data L W) (tr qs : List Nat) (kind : Kind) (q : List Int) (orig : Bool)
    (hcur : s.cur = some d) (hclf : s.clf.isNone = false)
    (htr : mapOpt (normIdx cfg.n) d.idx = some tr) (hqs : mapOpt (normIdx cfg.n) q = some qs)
    (hall : ∀ i ∈ tr, ∀ j ∈ qs, pre i j ≠ none) :
    ∃ pOn pOff,
      predictPlan { cfg with speed := true } orig s pre kind q = .ok pOn ∧
      predictPlan { cfg with speed := false } orig s pre kind q = .ok pOff ∧
      planEval predRows k tr pOn = planEval predRows k tr pOff ∧ planEval predRows k tr pOn ≠ none := by
  obtain ⟨rows, hrows⟩ := tableRows_complete { cfg with speed := true } pre d.idx q tr qs htr hqs hall
  obtain ⟨tr', qs', htr', hqs', hdir⟩ := tableRows_eq_direct { cfg with speed := true } k pre hs hsym d.idx q rows hrows
  have e1 : tr' = tr := by rw [htr] at htr'; injection htr' with h; exact h.symm
  have e2 : qs' = qs := by rw [hqs] at hqs'; injection hqs' with h; exact h.symm
  subst e1; subst e2
  refine ⟨.table kind rows, .direct kind qs', ?_, ?_, ?_, ?_⟩
  · simp only [predictPlan, if_true, hcur, hrows, hclf, Bool.false_eq_true, if_false]
  · simp only [predictPlan, Bool.false_eq_true, if_false, hqs, hclf]
  · simp [planEval, hdir]
  · simp [planEval]

/-! ### Speed-up on vs off over whole histories (full strength since /repo commit 1805c2fd) -/

/-- the flag is never read by `fit` / `partial_fit` -/
theorem step_speed_irrelevant (cfg : Cfg L W) (fitFn : Data L W → C) (pfitFn : C → Data L W → C)
    (s : St C L W) (op : Op L W) (b : Bool) :
    step { cfg with speed := b } fitFn pfitFn s op = step cfg fitFn pfitFn s op := by
  cases op <;> rfl

/-- once a training record exists it never disappears -/
theorem cur_some_preserved (cfg : Cfg L W) (fitFn : Data L W → C) (pfitFn : C → Data L W → C)
    (s : St C L W) (op : Op L W) (hn : cfg.native = false) (h : s.cur ≠ none) :
    (step cfg fitFn pfitFn s op).1.cur ≠ none := by
  have hfit : ∀ (t : St C L W) idx y sw sb, t.cur ≠ none → (fit cfg fitFn t idx y sw sb).1.cur ≠ none := by
    intro t idx y sw sb ht
    rcases hfe : fit cfg fitFn t idx y sw sb with ⟨t', e⟩
    cases e with
    | some e => rw [fit_error_unchanged cfg fitFn t t' idx y sw sb e hfe]; exact ht
    | none =>
      obtain ⟨yy, ww, -, -, -, -, hs⟩ := fit_ok cfg fitFn t t' idx y sw sb hfe
      subst hs
      unfold fitResult
      cases sb <;> simp [hn]
  cases op with
  | fit idx y sw sb => exact hfit s idx y sw sb h
  | pfit idx y sw ub sb =>
    simp only [step]
    cases hv : validatePartial cfg s idx y sw ub with
    | error e => rw [partialFit_rejected_unchanged cfg fitFn pfitFn s idx y sw ub sb e hv]; exact h
    | ok p =>
      obtain ⟨ay, aw⟩ := p
      rw [partialFit_valid cfg fitFn pfitFn s idx y sw ub sb ay aw hv, hn]
      simp only [Bool.false_eq_true, if_false]
      rcases partialEmu_cases cfg fitFn s idx ay aw ub sb with h' | ⟨d', h'⟩
      · rw [h']; exact h
      · rw [h']; exact hfit _ _ _ _ _ h

/-- How the object with `use_speed_up=True` (`sOn`) relates to the one without (`sOff`) after the same
calls: identical, except that before the first successful `fit` the speed-up object holds an unfitted
precomputed clone where the other holds the copy of the classifier handed to the constructor (`orig`). -/
def SpeedRel (orig : Option C) (sOn sOff : St C L W) : Prop :=
  (sOff.cur ≠ none ∧ sOn = sOff) ∨
  (sOff.cur = none ∧ sOn = ⟨none, none, sOff.bclf, sOff.base⟩ ∧ sOff.clf = orig)

theorem speedRel_init (cfg : Cfg L W) (pre : Option C) (sb : Bool) (sOn sOff : St C L W)
    (hOn : init { cfg with speed := true } pre sb = .ok sOn)
    (hOff : init { cfg with speed := false } pre sb = .ok sOff) : SpeedRel pre sOn sOff := by
  unfold init at hOn hOff
  cases pre with
  | some c =>
    simp only [if_true, Bool.false_eq_true, if_false] at hOn hOff
    injection hOn with hOn; injection hOff with hOff
    subst hOn; subst hOff
    exact Or.inr ⟨rfl, rfl, rfl⟩
  | none =>
    cases sb
    · simp only [Bool.false_eq_true, if_false] at hOn hOff
      injection hOn with hOn; injection hOff with hOff
      subst hOn; subst hOff
      exact Or.inr ⟨rfl, rfl, rfl⟩
    · simp at hOn

/-- **the relation survives every call, raising or not** (the emulated path: a Parzen window classifier
has no native `partial_fit`) -/
theorem speedRel_step (cfg : Cfg L W) (fitFn : Data L W → C) (pfitFn : C → Data L W → C) (orig : Option C)
    (sOn sOff : St C L W) (op : Op L W) (hn : cfg.native = false) (hr : SpeedRel orig sOn sOff) :
    SpeedRel orig (step { cfg with speed := true } fitFn pfitFn sOn op).1
      (step { cfg with speed := false } fitFn pfitFn sOff op).1 := by
  rw [step_speed_irrelevant cfg fitFn pfitFn sOn op true, step_speed_irrelevant cfg fitFn pfitFn sOff op false]
  rcases hr with ⟨hc, he⟩ | ⟨hc, he, ho⟩
  · subst he
    exact Or.inl ⟨cur_some_preserved cfg fitFn pfitFn sOn op hn hc, rfl⟩
  · subst he
    cases op with
    | fit idx y sw sb =>
      simp only [step]
      rcases hfe : fit cfg fitFn sOff idx y sw sb with ⟨t', e⟩
      cases e with
      | some e =>
        -- both raise (the same validation, which never reads `clf_`) and stay as they were
        have hOff := fit_error_unchanged cfg fitFn sOff t' idx y sw sb e hfe
        subst hOff
        have hOn := fit_error_transfer cfg fitFn t' (⟨none, none, t'.bclf, t'.base⟩ : St C L W) t' idx y sw sb e hfe
        rw [hOn]
        exact Or.inr ⟨hc, rfl, ho⟩
      | none =>
        obtain ⟨yy, ww, h1, h2, h3, h4, hs⟩ := fit_ok cfg fitFn sOff t' idx y sw sb hfe
        rw [fit_of_valid cfg fitFn _ idx y sw sb yy ww h1 h2 h3 h4]
        subst hs
        refine Or.inl ⟨?_, ?_⟩
        · unfold fitResult; cases sb <;> simp [hn]
        · unfold fitResult; cases sb <;> simp [hn]
    | pfit idx y sw ub sb =>
      simp only [step]
      -- without `idx_` the emulated `partial_fit` cannot get past its checks: nothing changes on either side
      have hstay : ∀ (t : St C L W), t.cur = none → (partialFit cfg fitFn pfitFn t idx y sw ub sb).1 = t := by
        intro t ht
        cases hv : validatePartial cfg t idx y sw ub with
        | error e => rw [partialFit_rejected_unchanged cfg fitFn pfitFn t idx y sw ub sb e hv]
        | ok p =>
          obtain ⟨ay, aw⟩ := p
          rw [partialFit_valid cfg fitFn pfitFn t idx y sw ub sb ay aw hv, hn]
          simp only [Bool.false_eq_true, if_false]
          unfold partialEmu
          rw [ht]
      rw [hstay sOff hc, hstay _ rfl]
      exact Or.inr ⟨hc, rfl, ho⟩

theorem speedRel_run (cfg : Cfg L W) (fitFn : Data L W → C) (pfitFn : C → Data L W → C) (orig : Option C)
    (hn : cfg.native = false) (ops : List (Op L W)) (sOn sOff : St C L W) (hr : SpeedRel orig sOn sOff) :
    SpeedRel orig (run { cfg with speed := true } fitFn pfitFn sOn ops)
      (run { cfg with speed := false } fitFn pfitFn sOff ops) := by
  induction ops generalizing sOn sOff with
  | nil => exact hr
  | cons op ops ih =>
    simp only [run]
    exact ih _ _ (speedRel_step cfg fitFn pfitFn orig sOn sOff op hn hr)

/-- What the classifiers compute: `direct c kind q` is `c.<kind>(X[q])` for a classifier with the original
metric, `viaRows c kind rows` is the `metric="precomputed"` clone trained like `c` on the kernel rows. -/
structure Sem (C κ R : Type) where
  direct : C → Kind → List Nat → R
  viaRows : C → Kind → List (List κ) → R

/-- the answer a plan produces on a given object (`orig` = the classifier handed to the constructor) -/
def Sem.eval {R : Type} (sem : Sem C κ R) (orig : Option C) (s : St C L W) : Plan κ → Option R
  | .table kind rows => s.clf.map (fun c => sem.viaRows c kind rows)
  | .direct kind qs => s.clf.map (fun c => sem.direct c kind qs)
  | .orig kind qs => orig.map (fun c => sem.direct c kind qs)

/-- `speedup_never_changes_prediction_state` — **whenever the speed-up object answers, the plain object
gives the same answer** (`predict`, `predict_proba` and `predict_freq` alike, before and after the first
`fit`): for related objects whose classifier is the fresh fit on the recorded list
(`clf_is_fresh_fit`), a sound table, a symmetric kernel, and a precomputed clone that computes
from the kernel rows what the original computes from the samples (`hlink`: Parzen window, `K @ V_`). -/
theorem speedup_never_changes_prediction_state {R : Type} (cfg : Cfg L W) (fitFn : Data L W → C)
    (sem : Sem C κ R) (k : Nat → Nat → κ) (pre : Tab κ) (hs : TabSound k pre) (hsym : ∀ i j, k i j = k j i)
    (hlink : ∀ d tr qs kind, mapOpt (normIdx cfg.n) d.idx = some tr →
      sem.viaRows (fitFn d) kind (directRows k tr qs) = sem.direct (fitFn d) kind qs)
    (orig : Option C) (sOn sOff : St C L W) (hr : SpeedRel orig sOn sOff)
    (hcoh : ∀ c d, sOff.clf = some c → sOff.cur = some d → c = fitFn d)
    (kind : Kind) (q : List Int) (pOn : Plan κ)
    (h : predictPlan { cfg with speed := true } orig.isSome sOn pre kind q = .ok pOn) :
    ∃ pOff, predictPlan { cfg with speed := false } orig.isSome sOff pre kind q = .ok pOff ∧
      sem.eval orig sOn pOn = sem.eval orig sOff pOff ∧ sem.eval orig sOn pOn ≠ none := by
  rcases hr with ⟨hc, he⟩ | ⟨hc, he, ho⟩
  · subst he
    cases hcur : sOn.cur with
    | none => exact absurd hcur hc
    | some d =>
      simp only [predictPlan, if_true, hcur] at h
      split at h
      · cases h
      rename_i rows hrows
      split at h
      · cases h
      rename_i hclf
      injection h with h; subst h
      obtain ⟨tr, qs, htr, hqs, hdir⟩ := tableRows_eq_direct { cfg with speed := true } k pre hs hsym d.idx q rows hrows
      cases hc' : sOn.clf with
      | none => simp [hc'] at hclf
      | some c =>
        have hcd : c = fitFn d := hcoh c d hc' hcur
        refine ⟨.direct kind qs, ?_, ?_, ?_⟩
        · have hqs' : mapOpt (normIdx cfg.n) q = some qs := hqs
          simp only [predictPlan, Bool.false_eq_true, if_false, hqs', hc']
          simp
        · simp only [Sem.eval, hc', Option.map_some, Option.some.injEq]
          rw [hcd, hdir]
          exact hlink d tr qs kind htr
        · simp [Sem.eval, hc']
  · subst he
    simp only [predictPlan, if_true] at h
    split at h
    · cases h
    rename_i qs hqs
    split at h
    · rename_i hof
      injection h with h; subst h
      cases horig : orig with
      | none => rw [horig] at hof; simp at hof
      | some c0 =>
        refine ⟨.direct kind qs, ?_, ?_, ?_⟩
        · have hqs' : mapOpt (normIdx cfg.n) q = some qs := hqs
          simp only [predictPlan, Bool.false_eq_true, if_false, hqs', ho, horig]
          simp
        · simp [Sem.eval, ho, horig]
        · simp [Sem.eval]
    · cases h

/-- `speedup_never_changes_prediction` — the same **over whole histories**: for every classifier handed
to the constructor (fitted or not), every `set_base_clf`, every call sequence (raising calls included),
every kind of prediction and every query. -/
theorem speedup_never_changes_prediction {R : Type} (cfg : Cfg L W) (fitFn : Data L W → C)
    (pfitFn : C → Data L W → C) (hn : cfg.native = false)
    (sem : Sem C κ R) (k : Nat → Nat → κ) (pre : Tab κ) (hs : TabSound k pre) (hsym : ∀ i j, k i j = k j i)
    (hlink : ∀ d tr qs kind, mapOpt (normIdx cfg.n) d.idx = some tr →
      sem.viaRows (fitFn d) kind (directRows k tr qs) = sem.direct (fitFn d) kind qs)
    (orig : Option C) (sb : Bool) (sOn sOff : St C L W)
    (hOn : init { cfg with speed := true } orig sb = .ok sOn)
    (hOff : init { cfg with speed := false } orig sb = .ok sOff)
    (ops : List (Op L W)) (kind : Kind) (q : List Int) (pOn : Plan κ)
    (h : predictPlan { cfg with speed := true } orig.isSome
      (run { cfg with speed := true } fitFn pfitFn sOn ops) pre kind q = .ok pOn) :
    ∃ pOff, predictPlan { cfg with speed := false } orig.isSome
        (run { cfg with speed := false } fitFn pfitFn sOff ops) pre kind q = .ok pOff ∧
      sem.eval orig (run { cfg with speed := true } fitFn pfitFn sOn ops) pOn =
        sem.eval orig (run { cfg with speed := false } fitFn pfitFn sOff ops) pOff := by
  have hrel := speedRel_run cfg fitFn pfitFn orig hn ops sOn sOff (speedRel_init cfg orig sb sOn sOff hOn hOff)
  have hinv := clf_is_fresh_fit { cfg with speed := false } fitFn pfitFn hn ops sOff
    (init_inv _ fitFn orig sb sOff hOff)
  obtain ⟨pOff, h1, h2, -⟩ := speedup_never_changes_prediction_state cfg fitFn sem k pre hs hsym hlink orig _ _ hrel
    hinv.2.2.1 kind q pOn h
  exact ⟨pOff, h1, h2⟩

/-- Parzen window frequencies are a function of the kernel rows only, so they agree as well. -/
theorem freqRows_table_eq_direct [Add κ] [Mul κ] [OfNat κ 0] [OfNat κ 1] (cfg : Cfg L W) (eqL : L → L → Bool)
    (k : Nat → Nat → κ) (pre : Tab κ) (hs : TabSound k pre) (hsym : ∀ i j, k i j = k j i)
    (train q : List Int) (rows : List (List κ)) (y : List L) (sw : Option (List κ)) (classes : List L)
    (h : tableRows cfg pre train q = .ok rows) :
    ∃ tr qs, mapOpt (normIdx cfg.n) train = some tr ∧ mapOpt (normIdx cfg.n) q = some qs ∧
      freqRows eqL rows y sw classes = freqRows eqL (directRows k tr qs) y sw classes := by
  obtain ⟨tr, qs, h1, h2, h3⟩ := tableRows_eq_direct cfg k pre hs hsym train q rows h
  exact ⟨tr, qs, h1, h2, by rw [h3]⟩

end Ska.C19

/-! ## Regressions: statements about definitions the code no longer has -/

namespace Ska.C19.Regressions
open Ska Ska.IW

section OldPartialFit
variable {C L W : Type}

/-- the concatenation block as it was before the repair: the three assignments happened one after the
other on the object; on an exception the result carries the out-of-step record the object was left with -/
def mergeV0 (unique : Bool) (d : Data L W) (idx : List Int) (ay : List L) (aw : Option (List W)) :
    Except (Data L W × Err) (Data L W) :=
  let keep := keepMask unique d.idx idx
  let idx' := maskSel d.idx keep ++ idx
  match selKeep unique keep d.y with
  | none => .error (⟨idx', d.y, d.sw⟩, .index)
  | some ky =>
    let y' := ky ++ ay
    match d.sw with
    | none =>
      match aw with
      | none => .ok ⟨idx', y', none⟩
      | some _ => .error (⟨idx', y', none⟩, .mixed)
    | some w =>
      match selKeep unique keep w with
      | none => .error (⟨idx', y', some w⟩, .index)
      | some kw =>
        match aw with
        | some a => .ok ⟨idx', y', some (kw ++ a)⟩
        | none => .error (⟨idx', y', some w⟩, .mixed)

def partialNativeV0 (cfg : Cfg L W) (pfitFn : C → Data L W → C) (s : St C L W)
    (idx : List Int) (ay : List L) (aw : Option (List W)) (useBase setBase : Bool) :
    St C L W × Option Err :=
  let s1 : St C L W := if useBase then ⟨s.bclf, s.cur, s.bclf, s.base⟩ else s
  if !(xIndexOk cfg idx) then (s1, some .index)
  else
    match s1.clf with
    | none => (s1, some .notFitted)
    | some c =>
      let c' := pfitFn c ⟨idx, ay, aw⟩
      if setBase then (⟨some c', s1.cur, some c', s1.base⟩, none)
      else (⟨some c', s1.cur, s1.bclf, s1.base⟩, none)

def partialEmuV0 (cfg : Cfg L W) (fitFn : Data L W → C) (s : St C L W)
    (idx : List Int) (ay : List L) (aw : Option (List W)) (useBase setBase : Bool) :
    St C L W × Option Err :=
  match s.cur with
  | none => (s, some .notFitted)
  | some cur0 =>
    let clf1 : Option C := if useBase then none else s.clf
    match (if useBase then s.base else some cur0) with
    | none => (⟨clf1, s.cur, s.bclf, s.base⟩, some .attr)
    | some d =>
      match mergeV0 cfg.unique d idx ay aw with
      | .error (d', e) => (⟨clf1, some d', s.bclf, s.base⟩, some e)
      | .ok d' => fit cfg fitFn ⟨clf1, some d', s.bclf, s.base⟩ d'.idx (some d'.y) d'.sw setBase

/-- `partial_fit` as it was before the repair -/
def partialFitV0 (cfg : Cfg L W) (fitFn : Data L W → C) (pfitFn : C → Data L W → C) (s : St C L W)
    (idx : List Int) (y : Option (List L)) (sw : Option (List W)) (useBase setBase : Bool) :
    St C L W × Option Err :=
  match validatePartial cfg s idx y sw useBase with
  | .error e => (s, some e)
  | .ok (ay, aw) =>
    if cfg.native then partialNativeV0 cfg pfitFn s idx ay aw useBase setBase
    else partialEmuV0 cfg fitFn s idx ay aw useBase setBase

end OldPartialFit

/-- old code: weights `None` so far, then a `partial_fit` with weights raised in `_concat_sw` *after*
`idx_` / `y_` were extended; the next (successful) `partial_fit` trained on the rejected sample 2 as well -/
theorem clf_is_fresh_fit_counterexample :
    let cfg : Cfg Nat Nat := ⟨4, [0, 1, 0, 1], none, false, false, false⟩
    let s0 : St (Data Nat Nat) Nat Nat := ⟨none, none, none, none⟩
    let s1 := (fit cfg id s0 [0, 1] none none false).1
    let r2 := partialFitV0 cfg id (fun c _ => c) s1 [2] (some [1]) (some [1]) false false
    let r3 := partialFitV0 cfg id (fun c _ => c) r2.1 [3] none none false false
    r2.2 = some .mixed ∧ r2.1 ≠ s1 ∧ r3.2 = none ∧
      r3.1.clf = some ⟨[0, 1, 2, 3], [0, 1, 1, 1], none⟩ := by decide

/-- old code: three raising paths left a modified object behind (`_concat_sw` on mixed weights; the base
classifier handed to `__init__` has no `base_idx_`, raised after `clf_` was replaced by an unfitted clone;
an index below `-n` that passes the validation when labels are given) -/
theorem partialFit_error_not_atomic_counterexample :
    let cfg : Cfg Nat Nat := ⟨4, [0, 1, 0, 1], none, false, false, false⟩
    let d : Data Nat Nat := ⟨[0, 1], [0, 1], none⟩
    let s : St (Data Nat Nat) Nat Nat := ⟨some d, some d, none, none⟩
    let sb : St (Data Nat Nat) Nat Nat := ⟨some d, some d, some d, none⟩
    partialFitV0 cfg id (fun c _ => c) s [2] (some [1]) (some [1]) false false =
        (⟨some d, some ⟨[0, 1, 2], [0, 1, 1], none⟩, none, none⟩, some .mixed) ∧
    partialFitV0 cfg id (fun c _ => c) sb [2] none none true false =
        (⟨none, some d, some d, none⟩, some .attr) ∧
    partialFitV0 cfg id (fun c _ => c) s [-5] (some [1]) none false false =
        (⟨some d, some ⟨[0, 1, -5], [0, 1, 1], none⟩, none, none⟩, some .index) := by decide

/-- the repaired code on the same three inputs: the same exceptions (the unknown base data now as
`NotFittedError`), the object untouched -/
theorem partialFit_error_atomic_repaired :
    let cfg : Cfg Nat Nat := ⟨4, [0, 1, 0, 1], none, false, false, false⟩
    let d : Data Nat Nat := ⟨[0, 1], [0, 1], none⟩
    let s : St (Data Nat Nat) Nat Nat := ⟨some d, some d, none, none⟩
    let sb : St (Data Nat Nat) Nat Nat := ⟨some d, some d, some d, none⟩
    partialFit cfg id (fun c _ => c) s [2] (some [1]) (some [1]) false false = (s, some .mixed) ∧
    partialFit cfg id (fun c _ => c) sb [2] none none true false = (sb, some .notFitted) ∧
    partialFit cfg id (fun c _ => c) s [-5] (some [1]) none false false = (s, some .index) := by decide

/-- `predictPlan` as the code was before /repo commit 1805c2fd: in the speed-up branch without `idx_`
all three methods returned `self.clf.predict_proba(...)`. -/
def predictPlanV0 {C L W κ : Type} (cfg : Cfg L W) (origFitted : Bool) (s : St C L W) (pre : Tab κ)
    (kind : Kind) (q : List Int) : Except Err (Plan κ) :=
  if cfg.speed then
    match s.cur with
    | some d =>
      match tableRows cfg pre d.idx q with
      | .error e => .error e
      | .ok rows => if s.clf.isNone then .error .notFitted else .ok (.table kind rows)
    | none =>
      match mapOpt (normIdx cfg.n) q with
      | none => .error .index
      | some qs => if origFitted then .ok (.orig .proba qs) else .error .notFitted
  else
    match mapOpt (normIdx cfg.n) q with
    | none => .error .index
    | some qs => if s.clf.isNone then .error .notFitted else .ok (.direct kind qs)

/-- `speedup_prefitted_counterexample` (old code) — a Parzen window classifier handed over already
fitted, no `fit` through the wrapper yet: with the speed-up `predict` and `predict_freq` answered with
`self.clf.predict_proba(...)`, without it with `clf_.predict` / `clf_.predict_freq`. -/
theorem speedup_prefitted_counterexample :
    let cfgOn : Cfg Nat Nat := ⟨3, [0, 1, 0], none, false, false, true⟩
    let cfgOff : Cfg Nat Nat := ⟨3, [0, 1, 0], none, false, false, false⟩
    let tOn : St Nat Nat Nat := ⟨none, none, none, none⟩
    let tOff : St Nat Nat Nat := ⟨some 7, none, none, none⟩
    predictPlanV0 (κ := Nat) cfgOn true tOn Tab.empty .label [0, 2] = .ok (.orig .proba [0, 2]) ∧
    predictPlanV0 (κ := Nat) cfgOn true tOn Tab.empty .freq [0, 2] = .ok (.orig .proba [0, 2]) ∧
    predictPlanV0 (κ := Nat) cfgOff true tOff Tab.empty .label [0, 2] = .ok (.direct .label [0, 2]) ∧
    predictPlanV0 (κ := Nat) cfgOff true tOff Tab.empty .freq [0, 2] = .ok (.direct .freq [0, 2]) := by
  refine ⟨rfl, rfl, rfl, rfl⟩

/-- the repaired code on the same input: the object handed to the constructor answers with the method
that was asked for -/
theorem speedup_prefitted_repaired :
    let cfgOn : Cfg Nat Nat := ⟨3, [0, 1, 0], none, false, false, true⟩
    let tOn : St Nat Nat Nat := ⟨none, none, none, none⟩
    predictPlan (κ := Nat) cfgOn true tOn Tab.empty .label [0, 2] = .ok (.orig .label [0, 2]) ∧
    predictPlan (κ := Nat) cfgOn true tOn Tab.empty .freq [0, 2] = .ok (.orig .freq [0, 2]) := by
  refine ⟨rfl, rfl⟩

end Ska.C19.Regressions

namespace Ska.C19
open Ska Ska.IW

/-! ## Non-vacuity: concrete instances meet the hypotheses -/

/-- a non-trivial run: fit (stored as base), partial fit with a label override, a rejected call (mixed
weights), restart from the base -/
example :
    let cfg : Cfg Nat Nat := ⟨4, [0, 1, 0, 1], none, false, true, false⟩
    let ops : List (Op Nat Nat) :=
      [.fit [0, 1] none none true, .pfit [1, 2] (some [0, 1]) none false false,
       .pfit [2] (some [1]) (some [1]) false false, .pfit [3] none none true false]
    (run cfg id (fun c _ => c) ⟨none, none, none, none⟩ ops).clf = some ⟨[0, 1, 3], [0, 1, 1], none⟩ := by
  decide

example : Inv (C := Data Nat Nat) (⟨4, [0, 1, 0, 1], none, false, true, false⟩ : Cfg Nat Nat) id ⟨none, none, none, none⟩ :=
  init_inv _ id none false _ rfl

/-- a sound, complete table and a symmetric kernel: the hypotheses of `speedup_eq_direct` -/
example :
    let cfg : Cfg Nat Nat := ⟨3, [0, 1, 0], none, false, false, true⟩
    let k : Nat → Nat → Nat := fun i j => i + j
    let pre := (precompute cfg (fun _ => false) k Tab.empty [0, 1, 2] [0, 1, 2] 0 0).1
    TabSound k pre ∧ (∀ i j, k i j = k j i) ∧ (∀ i ∈ [0, 1], ∀ j ∈ [2], pre i j ≠ none) ∧
      tableRows cfg pre [0, 1] [2] = .ok [[2, 3]] := by
  refine ⟨(precompute_sound _ _ _ _ _ _ _ _ (tab_empty_sound _)).1, fun i j => Nat.add_comm i j, by decide, rfl⟩

/-- the native path records what it should -/
example :
    let cfg : Cfg Nat Nat := ⟨4, [0, 1, 0, 1], none, true, false, false⟩
    (run cfg Hist.fit Hist.pfit ⟨none, none, none, none⟩
      [.fit [0, 1] none none true, .pfit [2] none none false false, .pfit [3] (some [0]) none true false]).clf =
      some ⟨⟨[0, 1], [0, 1], none⟩, [⟨[3], [0], none⟩]⟩ := by decide

end Ska.C19
