import SkaModel.Lemmas.Classifier
import SkaModel.Props.C18

/-!
# C11 — classifier outputs are valid probabilities and consistent decisions

Property theorems only (helpers: `SkaModel/Lemmas/Classifier.lean`).  All statements are about the
executable model `SkaModel/Core/Classifier.lean`, which the correspondence of `harness/props/c11.py`
ties to `/repo` on every run.  They quantify over every frequency / kernel / vote / probability
matrix over an arbitrary linear ordered field `α` (exact arithmetic), every class list, cost matrix,
prior, number of query points and every tie-breaking noise.

Clauses of the property:
* "predict_proba … non-negative rows summing to one, shape (n, k)": `normalizeFreq_simplex`
  (frequency estimators), `remap_simplex`, `fallback_simplex`, `nan_fallback` (sklearn wrapper),
  `ensembleSoft_simplex`, `ensembleHard_simplex`, `divRow_simplex` (softmax);
* "columns ordered as classes_": `remap_columns`;
* "predict_freq is non-negative": `freq_nonneg`, `freq_nonneg_neighbors`, `freq_nonneg_mixture`;
* "predict returns only members of classes_ that minimise the expected cost (the most probable class
  by default)": `predict_min_cost`, `predict_most_probable`, `sklearn_predict_cost_branch`,
  `sklearn_predict_min_cost` (all three branches of the sklearn wrapper), `cost_matrix_by_label`
  (declared class order vs `cost_matrix_`); the pre-repair sampling branch is recorded in
  `Regressions.sklearn_unfitted_predict_counterexample`;
* "declared classes and no labels ⇒ uniform": `normalizeFreq_uniform_of_zero`, `no_labels_uniform`,
  `prior_only_uniform`, `fallback_uniform`, `divRow_uniform`.
-/

set_option linter.unusedSectionVars false
set_option linter.unusedVariables false

namespace Ska.C11
open Ska Ska.Classifier

variable {α : Type} [Field α] [LinearOrder α] [IsStrictOrderedRing α]

/-! ## Frequency normalisation (`ClassFrequencyEstimator.predict_proba`) -/

/-- **normalizeFreq_simplex**: for non-negative frequencies `F` (shape `(n, k)`) and a non-negative
prior, `ClassFrequencyEstimator.predict_proba` returns an `(n, k)` matrix whose rows are non-negative
and sum to one — including the rows whose frequencies and prior are all zero (uniform fallback). -/
theorem normalizeFreq_simplex (k : Nat) (hk : 0 < k) (F : List (List α)) (prior : List α)
    (hF : ∀ r ∈ F, r.length = k ∧ ∀ x ∈ r, 0 ≤ x) (hp : prior.length = k ∧ ∀ x ∈ prior, 0 ≤ x) :
    (normalizeFreq k F prior).length = F.length ∧ ∀ r ∈ normalizeFreq k F prior, IsSimplex k r := by
  refine ⟨by simp [normalizeFreq], ?_⟩
  intro r hr
  simp only [normalizeFreq, List.mem_map] at hr
  obtain ⟨f, hf, rfl⟩ := hr
  obtain ⟨hl, hnn⟩ := hF f hf
  apply normalizeRow_simplex k hk
  · rw [addRow_length, hl, hp.1]; simp
  · exact addRow_nonneg f prior hnn hp.2


/-- A zero frequency row with a zero prior is replaced by the uniform row `1/k`. -/
theorem normalizeFreq_uniform_of_zero (k : Nat) (F : List (List α)) (prior : List α)
    (hF : ∀ r ∈ F, ∀ x ∈ r, x = 0) (hp : ∀ x ∈ prior, x = 0) :
    ∀ r ∈ normalizeFreq k F prior, r = uniformRow k ∧ r.length = k ∧ ∀ x ∈ r, x = 1 / (k : α) := by
  intro r hr
  simp only [normalizeFreq, List.mem_map] at hr
  obtain ⟨f, hf, rfl⟩ := hr
  rw [normalizeRow_zero k _ (addRow_zero f prior (hF f hf) hp)]
  exact ⟨rfl, by simp [uniformRow], uniformRow_entry k⟩

/-- `predict_freq ≥ 0` for the kernel classifier: `K ≥ 0`, `V ≥ 0` ⇒ `K @ V ≥ 0`, shape `(n, k)`. -/
theorem freq_nonneg (k : Nat) (K V : List (List α)) (hK : ∀ r ∈ K, ∀ x ∈ r, 0 ≤ x)
    (hV : ∀ r ∈ V, ∀ x ∈ r, 0 ≤ x) :
    (pwcFreq k K V).length = K.length ∧ ∀ r ∈ pwcFreq k K V, r.length = k ∧ ∀ x ∈ r, 0 ≤ x := by
  refine ⟨by simp [pwcFreq, matMul], ?_⟩
  intro r hr
  simp only [pwcFreq, matMul, List.mem_map] at hr
  obtain ⟨a, ha, rfl⟩ := hr
  exact ⟨rowMul_length k a V, rowMul_nonneg k a V (hK a ha) hV⟩

/-- the `n_neighbors` branch sums a sub-selection of the same non-negative terms. -/
theorem freq_nonneg_neighbors (k : Nat) (K V : List (List α)) (indices : List (List Nat))
    (hK : ∀ r ∈ K, ∀ x ∈ r, 0 ≤ x) (hV : ∀ r ∈ V, ∀ x ∈ r, 0 ≤ x) :
    ∀ r ∈ pwcFreqNeighbors k K V indices, r.length = k ∧ ∀ x ∈ r, 0 ≤ x := by
  intro r hr
  simp only [pwcFreqNeighbors] at hr
  obtain ⟨i, hi, rfl⟩ := List.getElem_of_mem hr
  simp only [List.getElem_zipWith]
  refine ⟨rowMul_length k _ _, rowMul_nonneg k _ _ ?_ ?_⟩
  · intro x hx
    obtain ⟨j, -, rfl⟩ := List.mem_map.mp hx
    exact getD_nonneg _ (hK _ (List.getElem_mem _)) j
  · intro row hrow x hx
    obtain ⟨j, -, rfl⟩ := List.mem_map.mp hrow
    rw [List.getD_eq_getElem?_getD] at hx
    cases hj : V[j]? with
    | none => simp [hj] at hx
    | some v =>
      simp only [hj, Option.getD_some] at hx
      exact hV v (List.mem_of_getElem? hj) x hx

/-- mixture-model classifier: responsibilities `R, S ≥ 0`, votes `V ≥ 0` ⇒ `predict_freq ≥ 0`. -/
theorem freq_nonneg_mixture (k m : Nat) (S R V : List (List α)) (hS : ∀ r ∈ S, ∀ x ∈ r, 0 ≤ x)
    (hR : ∀ r ∈ R, ∀ x ∈ r, 0 ≤ x) (hV : ∀ r ∈ V, ∀ x ∈ r, 0 ≤ x) :
    ∀ r ∈ mmcFreq k S (mmcComponents k m R V), r.length = k ∧ ∀ x ∈ r, 0 ≤ x := by
  have hFc : ∀ r ∈ mmcComponents k m R V, ∀ x ∈ r, 0 ≤ x := by
    intro r hr
    simp only [mmcComponents, matMul, List.mem_map] at hr
    obtain ⟨a, ha, rfl⟩ := hr
    apply rowMul_nonneg k a V _ hV
    simp only [transposeM, List.mem_map] at ha
    obtain ⟨j, -, rfl⟩ := ha
    intro x hx
    obtain ⟨row, hrow, rfl⟩ := List.mem_map.mp hx
    exact getD_nonneg row (hR row hrow) j
  intro r hr
  unfold mmcFreq at hr
  split at hr
  · simp only [matMul, List.mem_map] at hr
    obtain ⟨a, ha, rfl⟩ := hr
    exact ⟨rowMul_length k a _, rowMul_nonneg k a _ (hS a ha) hFc⟩
  · simp only [List.mem_map] at hr
    obtain ⟨a, -, rfl⟩ := hr
    refine ⟨by simp, ?_⟩
    intro x hx
    rw [(List.mem_replicate.mp hx).2]

/-- **declared classes, no labels ⇒ uniform**: without any vote (`V = 0`, which is what
`compute_vote_vectors` yields for missing labels, see C12/C17) and with the default prior the
frequency classifier predicts exactly `1/k` for every class. -/
theorem no_labels_uniform (k : Nat) (K V : List (List α)) (prior : List α)
    (hV : ∀ r ∈ V, ∀ x ∈ r, x = 0) (hp : ∀ x ∈ prior, x = 0) :
    ∀ r ∈ normalizeFreq k (pwcFreq k K V) prior, r.length = k ∧ ∀ x ∈ r, x = 1 / (k : α) := by
  intro r hr
  have hF : ∀ f ∈ pwcFreq k K V, ∀ x ∈ f, x = 0 := by
    intro f hf
    simp only [pwcFreq, matMul, List.mem_map] at hf
    obtain ⟨a, -, rfl⟩ := hf
    exact rowMul_zero k a V hV
  exact (normalizeFreq_uniform_of_zero k _ prior hF hp r hr).2

/-- a constant positive prior alone (no votes) also gives the uniform distribution. -/
theorem prior_only_uniform (k : Nat) (hk : 0 < k) (c : α) (hc : 0 < c) (n : Nat) :
    ∀ r ∈ normalizeFreq k (List.replicate n (List.replicate k (0 : α))) (List.replicate k c),
      r.length = k ∧ ∀ x ∈ r, x = 1 / (k : α) := by
  intro r hr
  simp only [normalizeFreq, List.map_replicate, List.mem_replicate] at hr
  obtain ⟨-, rfl⟩ := hr
  have hkα : (0 : α) < (k : α) := by exact_mod_cast hk
  have e : addRow (List.replicate k (0 : α)) (List.replicate k c) = List.replicate k c := by
    simp [addRow]
  rw [e]
  have hs : sumL (List.replicate k c) = (k : α) * c := sumL_replicate k c
  have hpos : 0 < sumL (List.replicate k c) := by rw [hs]; positivity
  rw [normalizeRow_pos k _ hpos]
  refine ⟨by simp, ?_⟩
  intro x hx
  simp only [List.map_replicate, List.mem_replicate] at hx
  rw [hx.2, hs, divBy]
  field_simp

/-- `softmax` rows (given their positive exponentials) and the soft-voting normalisation are
probability rows. -/
theorem divRow_simplex (row : List α) (h : ∀ x ∈ row, 0 ≤ x) (hs : 0 < sumL row) :
    IsSimplex row.length (divRow row) := divBy_simplex row h hs

/-- equal scores (`W_ = 0`, no label seen by `AnnotatorLogisticRegression`) ⇒ uniform. -/
theorem divRow_uniform (k : Nat) (hk : 0 < k) (e : α) (he : 0 < e) :
    ∀ x ∈ divRow (List.replicate k e), x = 1 / (k : α) := by
  intro x hx
  have hkα : (0 : α) < (k : α) := by exact_mod_cast hk
  simp only [divRow, List.map_replicate, List.mem_replicate, sumL_replicate, divBy] at hx
  rw [hx.2]
  field_simp


/-! ## `SklearnClassifier.predict_proba`: column re-mapping and fallback -/

/-- **fallback**: an unfitted wrapped estimator yields the label-count distribution, a probability
row for every count vector; with no counts at all it is uniform. -/
theorem fallback_simplex (k n : Nat) (hk : 0 < k) (estP : List (List (Option α))) (ci : List Nat)
    (counts : List α) (hl : counts.length = k) (hc : ∀ x ∈ counts, 0 ≤ x) :
    ∃ Q, sklearnPredictProba k n false estP ci counts = .ok Q ∧ Q.length = n ∧ ∀ r ∈ Q, IsSimplex k r := by
  refine ⟨labelCountProba k n counts, by simp [sklearnPredictProba], ?_⟩
  exact labelCountProba_simplex k n hk counts hl hc

theorem fallback_uniform (k n : Nat) (counts : List α) (hc : ∀ x ∈ counts, x = 0) :
    labelCountProba k n counts = List.replicate n (uniformRow k) := by
  unfold labelCountProba
  simp [sumL_eq_zero_of_all_zero counts hc]

/-- NaN anywhere in a full-width estimator output ⇒ the label-count fallback (still a simplex). -/
theorem nan_fallback (k n : Nat) (estP : List (List (Option α))) (ci : List Nat) (counts : List α)
    (hw : ∀ r ∈ estP, r.length = k) (hnan : allNumbers estP = none) :
    sklearnPredictProba k n true estP ci counts = .ok (labelCountProba k n counts) := by
  unfold sklearnPredictProba
  cases estP with
  | nil => simp [hnan]
  | cons r rs =>
    have : r.length = k := hw r (List.mem_cons_self ..)
    simp [this, hnan]

/-- **remap_simplex**: if the fitted estimator returns probability rows over its own `m` classes
(`m = len(class_indices)`, the classes it has seen, distinct positions inside `classes_`), the wrapper
returns an `(n, k)` matrix of probability rows — whether `m = k` (no re-mapping), `m = 1` (one class
seen) or `1 < m < k` (declared but unobserved classes get probability 0). -/
theorem remap_simplex (k n : Nat) (Pe : List (List α)) (ci : List Nat) (counts : List α)
    (hn : Pe.length = n) (hne : 0 < n) (hnd : ci.Nodup) (hlt : ∀ i ∈ ci, i < k)
    (hP : ∀ p ∈ Pe, IsSimplex ci.length p) :
    ∃ Q, sklearnPredictProba k n true (Pe.map (fun r => r.map some)) ci counts = .ok Q ∧
      Q.length = n ∧ ∀ r ∈ Q, IsSimplex k r := by
  have hne' : Pe ≠ [] := by intro h; rw [h] at hn; simp at hn; omega
  refine ⟨remapped k ci Pe, sklearnPredictProba_fitted k n Pe ci counts hne' (fun p hp => (hP p hp).1), ?_, ?_⟩
  · unfold remapped; split
    · exact hn
    · split <;> simpa using hn
  · intro r hr
    unfold remapped at hr
    split at hr
    · rename_i hk; rw [← hk]; exact hP r hr
    · split at hr
      · rename_i h1
        obtain ⟨i, rfl⟩ := List.length_eq_one_iff.mp h1
        obtain ⟨p, hp, rfl⟩ := List.mem_map.mp hr
        have hi : i < k := hlt i (List.mem_cons_self ..)
        simp only [List.getD_cons_zero]
        refine ⟨by simp, ?_, ?_⟩
        · intro x hx
          rcases List.mem_or_eq_of_mem_set hx with h | h
          · rw [(List.mem_replicate.mp h).2]
          · rw [h]; exact zero_le_one
        · rw [sumL_set _ _ _ (by simpa using hi), sumL_replicate]
          rw [List.getD_eq_getElem?_getD, List.getElem?_replicate]
          simp [hi]
      · obtain ⟨p, hp, rfl⟩ := List.mem_map.mp hr
        exact scatterCols_zeros_simplex k ci p hnd hlt (hP p hp)

/-- **remap_columns**: with `classes_` strictly increasing and the estimator's classes a duplicate-free
sub-list of it, `class_indices[j]` is the position of the estimator's class `j` in `classes_`, the
re-mapped row carries the estimator's column `j` exactly there and `0` in the column of every class
the estimator has not seen. -/
theorem remap_columns {γ : Type} [LinearOrder γ] (cls est : List γ) (hs : cls.Pairwise (· < ·))
    (hsub : ∀ c ∈ est, c ∈ cls) (hnd : est.Nodup) (p : List α) (hp : p.length = est.length) :
    let ci := classIndices cls est
    ci.length = est.length ∧ ci.Nodup ∧ (∀ i ∈ ci, i < cls.length) ∧
    (∀ j, ∀ hj : j < est.length, cls[ci.getD j 0]? = some est[j] ∧
        (scatterCols (List.replicate cls.length (0 : α)) ci p)[ci.getD j 0]? = p[j]?) ∧
    (∀ c, c < cls.length → c ∉ ci → (scatterCols (List.replicate cls.length (0 : α)) ci p)[c]? = some 0) := by
  have hfilt : est.filter (fun c => cls.contains c) = est := by
    rw [List.filter_eq_self]
    intro c hc
    simpa using hsub c hc
  have hci : classIndices cls est = est.map (searchsorted cls) := by
    unfold classIndices; rw [hfilt]
  simp only
  rw [hci]
  have hlen : (est.map (searchsorted cls)).length = est.length := by simp
  have hnd' : (est.map (searchsorted cls)).Nodup := by
    apply List.Nodup.map_on _ hnd
    intro x hx y hy hxy
    have h1 := searchsorted_spec cls hs x (hsub x hx)
    have h2 := searchsorted_spec cls hs y (hsub y hy)
    rw [hxy, h2] at h1
    exact (Option.some.inj h1).symm
  have hlt : ∀ i ∈ est.map (searchsorted cls), i < cls.length := by
    intro i hi
    obtain ⟨c, hc, rfl⟩ := List.mem_map.mp hi
    exact searchsorted_lt cls hs c (hsub c hc)
  refine ⟨hlen, hnd', hlt, ?_, ?_⟩
  · intro j hj
    have hgd : (est.map (searchsorted cls)).getD j 0 = searchsorted cls est[j] := by
      rw [List.getD_eq_getElem?_getD, List.getElem?_map, List.getElem?_eq_getElem hj]
      simp
    rw [hgd]
    refine ⟨searchsorted_spec cls hs _ (hsub _ (List.getElem_mem hj)), ?_⟩
    have := scatterCols_mem (List.replicate cls.length (0 : α)) (est.map (searchsorted cls)) p hnd'
      (by rw [hp, hlen]) (by simpa using hlt) j (by rw [hlen]; exact hj)
    simpa using this
  · intro c hc hnot
    rw [scatterCols_not_mem _ _ _ _ hnot, List.getElem?_replicate]
    simp [hc]


/-! ## Decisions (`SkactivemlClassifier.predict`, `SklearnClassifier.predict`) -/

section Predict
variable {β : Type} [LinearOrder β] [Zero β] {γ : Type}

/-- **predict_min_cost**: for every probability matrix `P`, cost matrix `C`, class list and strictly
positive tie-breaking noise of the right shape, `predict` returns for each query row a member of
`classes_` whose expected cost `(P @ C)[i, ·]` is minimal. -/
theorem predict_min_cost (classes : List γ) (P C : List (List α)) (noise : List (List β))
    (hk : 0 < classes.length) (hn : noise.length = P.length)
    (hnoise : ∀ nz ∈ noise, nz.length = classes.length ∧ ∀ x ∈ nz, 0 < x) :
    (predictDecision classes P C noise).length = P.length ∧
    ∀ i, i < P.length → ∃ idx c, (predictIdx classes.length P C noise)[i]? = some idx ∧
      idx < classes.length ∧ classes[idx]? = some c ∧ c ∈ classes ∧
      (predictDecision classes P C noise)[i]? = some (some c) ∧
      ∀ j, j < classes.length → costAt classes.length P C i idx ≤ costAt classes.length P C i j := by
  have hlen : (predictIdx classes.length P C noise).length = P.length := by
    simp [predictIdx, randArgminRows, expectedCosts, matMul, hn]
  refine ⟨by simp [predictDecision, decode, hlen], ?_⟩
  intro i hi
  have hin : i < noise.length := by omega
  obtain ⟨hnl, hnp⟩ := hnoise noise[i] (List.getElem_mem hin)
  -- the row of costs
  let row := rowMul classes.length P[i] C
  have hrl : row.length = classes.length := rowMul_length _ _ _
  obtain ⟨m, -, hget, hmin⟩ := Ska.C18.randArgmin_is_min_of_pos (row.map some) noise[i]
    (by simp [hnl, hrl]) hnp (countSome_map_some row (by omega))
  have hidx : (predictIdx classes.length P C noise)[i]? = some (randArgmin (row.map some) noise[i]) := by
    simp only [predictIdx, randArgminRows, expectedCosts, matMul, List.getElem?_zipWith, List.getElem?_map,
      List.getElem?_eq_getElem hi, List.getElem?_eq_getElem hin, Option.map_some]
    rfl
  set idx := randArgmin (row.map some) noise[i] with hidxdef
  rw [List.getElem?_map] at hget
  have hlt : idx < classes.length := by
    by_contra h
    rw [List.getElem?_eq_none (by omega)] at hget
    simp at hget
  have hrow_idx : row[idx]? = some m := by
    cases h : row[idx]? with
    | none => rw [h] at hget; simp at hget
    | some v => rw [h] at hget; simpa using hget
  refine ⟨idx, classes[idx], hidx, hlt, List.getElem?_eq_getElem hlt, List.getElem_mem hlt, ?_, ?_⟩
  · simp only [predictDecision, decode, List.getElem?_map, hidx, Option.map_some,
      List.getElem?_eq_getElem hlt]
  · intro j hj
    have hcost : ∀ j, costAt classes.length P C i j = row.getD j 0 := by
      intro j
      simp only [costAt, expectedCosts, matMul]
      rw [List.getD_eq_getElem?_getD (l := List.map _ P), List.getElem?_map, List.getElem?_eq_getElem hi]
      rfl
    rw [hcost, hcost, List.getD_eq_getElem?_getD, hrow_idx, List.getD_eq_getElem?_getD,
      List.getElem?_eq_getElem (by omega : j < row.length)]
    simp only [Option.getD_some]
    exact hmin _ (List.mem_map.mpr ⟨row[j], List.getElem_mem _, rfl⟩)

/-- **cost matrix by label**: for pairwise distinct declared `classes` (in any order) the matrix
`cost_matrix_` used by `predict` holds, at the positions of two labels inside the sorted `classes_`
(position = number of smaller labels), exactly the user's entry for these two labels: the cost of
predicting `classes[j]` for true class `classes[i]` is `cost_matrix[i][j]` whatever the declared order. -/
theorem cost_matrix_by_label {γ : Type} [LinearOrder γ] (cls : List γ) (hnd : cls.Nodup) (C : List (List α))
    (i j : Nat) (hi : i < cls.length) (hj : j < cls.length) :
    ((permuteCost cls C).getD (searchsorted cls cls[i]) []).getD (searchsorted cls cls[j]) 0 =
      (C.getD i []).getD j 0 := by
  have ri := searchsorted_lt_length cls cls[i] (List.getElem_mem hi)
  have rj := searchsorted_lt_length cls cls[j] (List.getElem_mem hj)
  have ai := argsortL_rank cls hnd i hi ri
  have aj := argsortL_rank cls hnd j hj rj
  have hl : (argsortL cls).length = cls.length := by simp [argsortL]
  rw [List.getD_eq_getElem?_getD, List.getElem?_eq_getElem (by rw [hl]; exact ri)] at ai
  rw [List.getD_eq_getElem?_getD, List.getElem?_eq_getElem (by rw [hl]; exact rj)] at aj
  simp only [Option.getD_some] at ai aj
  have hrow : (permuteCost cls C).getD (searchsorted cls cls[i]) [] =
      (argsortL cls).map (fun b => (C.getD i []).getD b 0) := by
    unfold permuteCost
    simp only
    rw [List.getD_eq_getElem?_getD, List.getElem?_map, List.getElem?_eq_getElem (by rw [hl]; exact ri)]
    simp only [Option.map_some, Option.getD_some, ai]
  rw [hrow, List.getD_eq_getElem?_getD, List.getElem?_map, List.getElem?_eq_getElem (by rw [hl]; exact rj)]
  simp only [Option.map_some, Option.getD_some, aj]

/-- **most probable class by default**: with `cost_matrix_ = 1 - eye(k)` the returned class has the
largest probability in its row. -/
theorem predict_most_probable (classes : List γ) (P : List (List α)) (noise : List (List β))
    (hk : 0 < classes.length) (hn : noise.length = P.length)
    (hnoise : ∀ nz ∈ noise, nz.length = classes.length ∧ ∀ x ∈ nz, 0 < x)
    (hP : ∀ p ∈ P, p.length = classes.length) :
    ∀ i, ∀ hi : i < P.length, ∃ idx c, (predictIdx classes.length P (zeroOne classes.length) noise)[i]? = some idx ∧
      (predictDecision classes P (zeroOne classes.length) noise)[i]? = some (some c) ∧ classes[idx]? = some c ∧
      ∀ j, j < classes.length → P[i].getD j 0 ≤ P[i].getD idx 0 := by
  intro i hi
  obtain ⟨-, h⟩ := predict_min_cost classes P (zeroOne classes.length) noise hk hn hnoise
  obtain ⟨idx, c, h1, hlt, h3, -, h5, hmin⟩ := h i hi
  refine ⟨idx, c, h1, h5, h3, ?_⟩
  intro j hj
  have hcost : ∀ j, j < classes.length →
      costAt classes.length P (zeroOne classes.length) i j = sumL P[i] - P[i].getD j 0 := by
    intro j hj
    simp only [costAt, expectedCosts, matMul]
    rw [List.getD_eq_getElem?_getD (l := List.map _ P), List.getElem?_map, List.getElem?_eq_getElem hi]
    exact rowMul_zeroOne classes.length P[i] (hP _ (List.getElem_mem hi)) j hj
  have := hmin j hj
  rw [hcost idx hlt, hcost j hj] at this
  linarith

/-- `SklearnClassifier.predict`, cost-matrix branch and unfitted branch (`is_fitted_ = False`, with or
without a user cost matrix): the decoded minimum-cost decision of the base class on `predict_proba`. -/
theorem sklearn_predict_cost_branch (classes : List γ) (fitted hasCost : Bool) (estPred : List γ) (P C : List (List α))
    (noise : List (List β)) (h : fitted = false ∨ hasCost = true) :
    sklearnPredict classes fitted hasCost estPred P C noise = predictDecision classes P C noise := by
  rcases h with h | h
  · subst h; simp [sklearnPredict]
  · subst h; simp [sklearnPredict]

/-- default branch: the wrapped estimator's own `predict` is passed through unchanged. -/
theorem sklearn_predict_default_branch (classes : List γ) (estPred : List γ) (P C : List (List α))
    (noise : List (List β)) :
    sklearnPredict classes true false estPred P C noise = estPred.map some := by
  simp [sklearnPredict]

/-- **all three branches**: `SklearnClassifier.predict` returns, for every query row, a member of
`classes_` of minimal expected cost under `predict_proba` — unconditionally in the cost-matrix branch
and in the unfitted branch; in the default branch (the estimator's own `predict` is passed through)
exactly when the wrapped estimator's predictions are such minimisers (`hest`: a consistent estimator
predicts a most probable class; this is the estimator's contract, not the wrapper's). -/
theorem sklearn_predict_min_cost (classes : List γ) (fitted hasCost : Bool) (estPred : List γ) (P C : List (List α))
    (noise : List (List β)) (hk : 0 < classes.length) (hn : noise.length = P.length)
    (hnoise : ∀ nz ∈ noise, nz.length = classes.length ∧ ∀ x ∈ nz, 0 < x)
    (hest : fitted = true → hasCost = false → ∀ i, i < P.length → ∃ idx c, estPred[i]? = some c ∧
        idx < classes.length ∧ classes[idx]? = some c ∧
        ∀ j, j < classes.length → costAt classes.length P C i idx ≤ costAt classes.length P C i j) :
    ∀ i, i < P.length → ∃ idx c, (sklearnPredict classes fitted hasCost estPred P C noise)[i]? = some (some c) ∧
      idx < classes.length ∧ classes[idx]? = some c ∧ c ∈ classes ∧
      ∀ j, j < classes.length → costAt classes.length P C i idx ≤ costAt classes.length P C i j := by
  intro i hi
  by_cases hb : fitted = true ∧ hasCost = false
  · obtain ⟨hf, hc⟩ := hb
    obtain ⟨idx, c, h1, h2, h3, h4⟩ := hest hf hc i hi
    subst hf; subst hc
    refine ⟨idx, c, ?_, h2, h3, List.mem_of_getElem? h3, h4⟩
    simp [sklearnPredict, h1]
  · have hb' : fitted = false ∨ hasCost = true := by
      cases fitted <;> cases hasCost <;> simp_all
    rw [sklearn_predict_cost_branch classes fitted hasCost estPred P C noise hb']
    obtain ⟨-, h⟩ := predict_min_cost classes P C noise hk hn hnoise
    obtain ⟨idx, c, -, h2, h3, h4, h5, h6⟩ := h i hi
    exact ⟨idx, c, h5, h2, h3, h4, h6⟩

end Predict

/-! ## Ensemble voting (`AnnotatorEnsembleClassifier.predict_proba`) -/

/-- **soft voting**: at least one member, each returning probability rows ⇒ a probability row. -/
theorem ensembleSoft_simplex (k : Nat) (Ps : List (List (List α)))
    (h : ∀ rows ∈ Ps, rows ≠ [] ∧ ∀ r ∈ rows, IsSimplex k r) :
    ∀ q ∈ ensembleSoft k Ps, IsSimplex k q := by
  intro q hq
  simp only [ensembleSoft, List.mem_map] at hq
  obtain ⟨rows, hrows, rfl⟩ := hq
  obtain ⟨hne, hs⟩ := h rows hrows
  obtain ⟨hl, hnn, hsum⟩ := addRows_spec k rows hs
  have hpos : 0 < sumL (addRows k rows) := by
    rw [hsum]
    have : 0 < rows.length := List.length_pos_of_ne_nil hne
    exact_mod_cast this
  have := divRow_simplex _ hnn hpos
  rwa [hl] at this

/-- **hard voting**: at least one member whose predictions are class indices below `k` (i.e. members
of `classes_`) ⇒ the normalised vote counts are a probability row. -/
theorem ensembleHard_simplex (k : Nat) (preds : List (List Nat))
    (h : ∀ p ∈ preds, p ≠ [] ∧ ∀ c ∈ p, c < k) :
    ∀ q ∈ ensembleHard (α := α) k preds, IsSimplex k q := by
  intro q hq
  simp only [ensembleHard, List.mem_map] at hq
  obtain ⟨p, hp, rfl⟩ := hq
  obtain ⟨hne, hlt⟩ := h p hp
  have hl : (voteCounts (α := α) k p).length = k := by simp [voteCounts]
  have hnn : ∀ x ∈ voteCounts (α := α) k p, 0 ≤ x := by
    intro x hx
    simp only [voteCounts, List.mem_map] at hx
    obtain ⟨c, -, rfl⟩ := hx
    rw [natTo_eq]; positivity
  have hsum := sumL_voteCounts (α := α) k p hlt
  have hpos : 0 < sumL (voteCounts (α := α) k p) := by
    rw [hsum]
    have : 0 < p.length := List.length_pos_of_ne_nil hne
    exact_mod_cast this
  have := divRow_simplex _ hnn hpos
  rwa [hl] at this

/-! ## Non-vacuity -/

example : IsSimplex (α := Rat) 3 [1/2, 1/2, 0] := by
  refine ⟨rfl, ?_, ?_⟩
  · intro x hx; simp at hx; rcases hx with rfl | rfl | rfl <;> norm_num
  · simp [sumL, sumFrom]; norm_num

/-- classes declared as `[20, 30, 10]` with an asymmetric cost matrix: `cost_matrix_` in sorted order. -/
example : permuteCost (α := Int) [20, 30, 10] [[0, 1, 2], [3, 0, 4], [5, 6, 0]] = [[0, 5, 6], [2, 0, 1], [4, 3, 0]] := by
  decide

/-- declared classes `[10,20,30]`, estimator has seen `[10,30]`: positions `[0,2]`. -/
example : classIndices [10, 20, 30] [10, 30] = [0, 2] := by decide

example : scatterCols [0, 0, 0] [0, 2] [3, 4] = [3, 0, 4] := by decide

example : predictDecision (α := Int) (β := Nat) [10, 20, 30] [[1, 2, 1]] (zeroOne 3) [[1, 1, 1]] = [some 20] := by
  decide

end Ska.C11

/-! ## Regressions: statements about definitions that model code as it was before a repair -/

namespace Ska.C11.Regressions
open Ska Ska.Classifier

/-- before commit b88b57ad the unfitted branch of `SklearnClassifier.predict` sampled a label from the
label-count distribution.  With no labels (`P` uniform; written over `Int` as the doubled row `[1, 1]` —
the comparison of expected costs is scale invariant) and the cost matrix `[[0,1],[5,0]]`, the draw
`choice = [0]` (probability 1/2) returned class `10` of expected cost `5/2` although class `20` costs
`1/2`; the current definition returns `20`. -/
theorem sklearn_unfitted_predict_counterexample :
    sklearnPredictOld (α := Int) (β := Nat) [10, 20] false true ([] : List Nat)
        [[1, 1]] [[0, 1], [5, 0]] [[1, 1]] [0] = [some 10] ∧
    expectedCosts (α := Int) 2 [[1, 1]] [[0, 1], [5, 0]] = [[5, 1]] ∧
    sklearnPredict (α := Int) (β := Nat) [10, 20] false true ([] : List Nat)
        [[1, 1]] [[0, 1], [5, 0]] [[1, 1]] = [some 20] := by
  decide

end Ska.C11.Regressions
