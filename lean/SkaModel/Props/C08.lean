import SkaModel.Props.C01

/-!
# C08 — a sample's utility does not depend on how candidates are addressed

Index algebra of `_transform_candidates` and of the scatter step, for all labelings, index sets and
utility functions:

* `none_eq_idx_unlabeled`: `candidates=None` and `candidates=<indices of the unlabeled samples>` produce
  the same mapping, hence literally the same computation (`addressing_none_eq_idx`);
* `rows_eq_idx_gather`: the utilities reported for feature-row candidates are the index-mode utilities
  gathered at the mapped positions;
* `randArgmax_unique`: when the best candidate is unique every (positive) noise selects it, so the three
  addressings select the same sample;
* `pointwise_restrict` / `pointwise_permute`: for a strategy whose candidate utilities are a function of
  the candidate itself, restricting the candidate set leaves the remaining utilities unchanged and
  permuting the rows permutes the utilities.
That a given strategy's score really is pointwise is validated on samples by the harness, not proved.
-/

namespace Ska.C08
open Ska Ska.C01 Ska.C18

/-! ### np.unique is the identity on the (strictly increasing) unlabeled indices -/

def StrictSorted : List Nat → Prop
  | [] => True
  | [_] => True
  | x :: y :: ys => x < y ∧ StrictSorted (y :: ys)

theorem insertUnique_lt_head (x : Nat) (l : List Nat) (h : ∀ y ∈ l, x < y) (hs : StrictSorted l) :
    insertUnique x l = x :: l := by
  cases l with
  | nil => rfl
  | cons y ys => simp [insertUnique, h y (List.mem_cons_self ..)]

theorem strictSorted_head_lt (x : Nat) (l : List Nat) (hs : StrictSorted (x :: l)) : ∀ y ∈ l, x < y := by
  induction l generalizing x with
  | nil => intro y hy; cases hy
  | cons z zs ih =>
    obtain ⟨hxz, hrest⟩ := hs
    intro y hy
    rcases List.mem_cons.mp hy with rfl | hy
    · exact hxz
    · exact Nat.lt_trans hxz (ih z hrest y hy)

theorem strictSorted_tail (x : Nat) (l : List Nat) (hs : StrictSorted (x :: l)) : StrictSorted l := by
  cases l with
  | nil => trivial
  | cons z zs => exact hs.2

theorem uniqueSorted_of_strictSorted (l : List Nat) (hs : StrictSorted l) : uniqueSorted l = l := by
  induction l with
  | nil => rfl
  | cons x xs ih =>
    have e : uniqueSorted (x :: xs) = insertUnique x (uniqueSorted xs) := rfl
    rw [e, ih (strictSorted_tail x xs hs)]
    exact insertUnique_lt_head x xs (strictSorted_head_lt x xs hs) (strictSorted_tail x xs hs)

theorem unlabeledFrom_strictSorted (i : Nat) (y : List Bool) : StrictSorted (unlabeledFrom i y) := by
  induction y generalizing i with
  | nil => trivial
  | cons b bs ih =>
    cases b with
    | false => simpa [unlabeledFrom] using ih (i+1)
    | true =>
      simp only [unlabeledFrom]
      have hrest := ih (i+1)
      cases hl : unlabeledFrom (i+1) bs with
      | nil => trivial
      | cons z zs =>
        rw [hl] at hrest
        refine ⟨?_, hrest⟩
        have := unlabeledFrom_ge (i+1) bs z (by rw [hl]; exact List.mem_cons_self ..)
        omega

/-- **`candidates=None` ≡ `candidates=<indices of the unlabeled samples>`**: both yield the same
mapping, for every labeling. -/
theorem none_eq_idx_unlabeled (y : List Bool) :
    transformCandidates (.idx (unlabeledIdx y)) y = transformCandidates .none y := by
  simp only [transformCandidates]
  have h : StrictSorted (unlabeledIdx y) := unlabeledFrom_strictSorted 0 y
  rw [uniqueSorted_of_strictSorted _ h]

/-- … and therefore the whole Skeleton-A query is literally the same computation, for every utility
function `utilOf` of the mapped candidates, batch size, method, noise and choice draw. -/
theorem addressing_none_eq_idx {α β : Type} [LT α] [DecidableLT α] [OfNat α 0] [Add α]
    [LT β] [DecidableLT β] [OfNat β 0] (isInf : α → Bool) (y : List Bool)
    (utilOf : Option (List Nat) → List (Option α)) (b : Nat) (m : Method)
    (noises : List (List β)) (choice : List Nat) :
    poolQueryA isInf y.length (transformCandidates (.idx (unlabeledIdx y)) y)
        (utilOf (transformCandidates (.idx (unlabeledIdx y)) y)) b m noises choice =
      poolQueryA isInf y.length (transformCandidates .none y)
        (utilOf (transformCandidates .none y)) b m noises choice := by
  rw [none_eq_idx_unlabeled]

/-- The order and multiplicity in which index candidates are given is irrelevant: only the set counts. -/
theorem mem_insertUnique (x z : Nat) (l : List Nat) : z ∈ insertUnique x l ↔ z = x ∨ z ∈ l := by
  induction l with
  | nil => simp [insertUnique]
  | cons y ys ih =>
    simp only [insertUnique]
    split
    · simp
    · split
      · rename_i h; subst h; simp
      · simp only [List.mem_cons, ih]
        constructor
        · rintro (h | h | h)
          · right; left; exact h
          · left; exact h
          · right; right; exact h
        · rintro (h | h | h)
          · right; left; exact h
          · left; exact h
          · right; right; exact h

theorem mem_uniqueSorted (z : Nat) (l : List Nat) : z ∈ uniqueSorted l ↔ z ∈ l := by
  induction l with
  | nil => simp [uniqueSorted]
  | cons x xs ih =>
    have e : uniqueSorted (x :: xs) = insertUnique x (uniqueSorted xs) := rfl
    rw [e, mem_insertUnique, ih]; simp

/-! ### feature rows vs indices -/

variable {α : Type}

/-- **Feature-row addressing reports the index-mode utilities of the same samples**: with the same
candidate utilities `uc`, row-mode column `k` equals index-mode column `mapping[k]`. -/
theorem rows_eq_idx_gather (n : Nat) (mp : List Nat) (uc : List (Option α))
    (hlen : uc.length = mp.length) (hnd : mp.Nodup) (hr : ∀ i ∈ mp, i < n)
    (k : Nat) (hk : k < mp.length) :
    (fullUtilities n none uc)[k]? = (fullUtilities n (some mp) uc)[mp[k]]? := by
  simp only [fullUtilities]
  rw [scatter_getElem?_mem n mp uc hlen hnd hr k hk, List.getElem?_eq_getElem (by omega)]

/-! ### unique best candidate ⇒ same selection under every seed -/

/-- If exactly one entry attains the maximum, `rand_argmax` returns it for **every** positive noise
vector — so any two addressings (whose tie-breaking noise may differ) select the same sample. -/
theorem randArgmax_unique {α β : Type} [LinearOrder α] [LinearOrder β] [Zero β]
    (a : List (Option α)) (noise noise' : List β) (m : α) (j : Nat)
    (hm : nanmax a = some m) (hj : a[j]? = some (some m))
    (huniq : ∀ i, a[i]? = some (some m) → i = j)
    (hlen : noise.length = a.length) (hp : ∀ x ∈ noise, 0 < x)
    (hlen' : noise'.length = a.length) (hp' : ∀ x ∈ noise', 0 < x) :
    randArgmax a noise = j ∧ randArgmax a noise' = j := by
  have hsome : 0 < countSome a := (countSome_pos_iff a).mpr ⟨m, List.mem_of_getElem? hj⟩
  obtain ⟨m1, hm1, hg1, -⟩ := randArgmax_is_max_of_pos a noise hlen hp hsome
  obtain ⟨m2, hm2, hg2, -⟩ := randArgmax_is_max_of_pos a noise' hlen' hp' hsome
  rw [hm] at hm1 hm2
  simp only [Option.some.injEq] at hm1 hm2
  subst hm1; subst hm2
  exact ⟨huniq _ hg1, huniq _ hg2⟩

/-! ### sample-wise scores: restriction and permutation -/

theorem scatter_map_getElem? (n : Nat) (mp : List Nat) (f : Nat → Option α) (hnd : mp.Nodup)
    (hr : ∀ i ∈ mp, i < n) (j : Nat) (hj : j ∈ mp) :
    (scatter n mp (mp.map f))[j]? = some (f j) := by
  obtain ⟨k, hk, rfl⟩ := List.getElem_of_mem hj
  rw [scatter_getElem?_mem n mp (mp.map f) (by simp) hnd hr k hk]
  simp

/-- **Restricting the candidate set leaves the remaining utilities unchanged** when the candidate
utilities are a function `f` of the candidate (its row index standing for the sample). -/
theorem pointwise_restrict (n : Nat) (mp mp' : List Nat) (f : Nat → Option α)
    (hnd : mp.Nodup) (hr : ∀ i ∈ mp, i < n) (hnd' : mp'.Nodup) (hsub : ∀ i ∈ mp', i ∈ mp) :
    ∀ j ∈ mp', (scatter n mp' (mp'.map f))[j]? = (scatter n mp (mp.map f))[j]? := by
  intro j hj
  rw [scatter_map_getElem? n mp' f hnd' (fun i hi => hr i (hsub i hi)) j hj,
    scatter_map_getElem? n mp f hnd hr j (hsub j hj)]

/-- **Reordering the rows reorders the utilities accordingly**: if row `j` moves to `σ j` (σ injective,
staying in range) and the candidate utilities travel with their samples, the utility found at `σ j`
after the permutation is the one found at `j` before — for candidates and non-candidates alike. -/
theorem pointwise_permute (n : Nat) (mp : List Nat) (uc : List (Option α)) (σ : Nat → Nat)
    (hlen : uc.length = mp.length) (hnd : mp.Nodup) (hr : ∀ i ∈ mp, i < n)
    (hinj : ∀ a b, a < n → b < n → σ a = σ b → a = b) (hσr : ∀ a, a < n → σ a < n)
    (j : Nat) (hj : j < n) :
    (scatter n (mp.map σ) uc)[σ j]? = (scatter n mp uc)[j]? := by
  have hnd' : (mp.map σ).Nodup := by
    clear hlen
    induction mp with
    | nil => simp
    | cons x xs ih =>
      have hx := List.nodup_cons.mp hnd
      simp only [List.map_cons, List.nodup_cons]
      refine ⟨?_, ih hx.2 (fun i hi => hr i (List.mem_cons_of_mem _ hi))⟩
      intro h
      obtain ⟨a, ha, hab⟩ := List.mem_map.mp h
      have := hinj a x (hr a (List.mem_cons_of_mem _ ha)) (hr x (List.mem_cons_self ..)) hab
      exact hx.1 (this ▸ ha)
  have hr' : ∀ i ∈ mp.map σ, i < n := by
    intro i hi
    obtain ⟨a, ha, rfl⟩ := List.mem_map.mp hi
    exact hσr a (hr a ha)
  rcases Classical.em (j ∈ mp) with hm | hm
  · obtain ⟨k, hk, rfl⟩ := List.getElem_of_mem hm
    have hk' : k < (mp.map σ).length := by simpa using hk
    have e : σ mp[k] = (mp.map σ)[k] := by simp
    rw [e, scatter_getElem?_mem n (mp.map σ) uc (by simpa using hlen) hnd' hr' k hk',
      scatter_getElem?_mem n mp uc hlen hnd hr k hk]
  · have hm' : σ j ∉ mp.map σ := by
      intro h
      obtain ⟨a, ha, hab⟩ := List.mem_map.mp h
      exact hm (hinj a j (hr a ha) hj hab ▸ ha)
    rw [scatter_getElem?_not_mem n (mp.map σ) uc (σ j) (hσr j hj) hm',
      scatter_getElem?_not_mem n mp uc j hj hm]

/-! ### non-vacuity -/

example : transformCandidates (.idx [4, 1, 4, 3]) [false, true, false, true, true] = some [1, 3, 4] := by decide
example : transformCandidates .none [false, true, false, true, true] = some [1, 3, 4] := by decide

end Ska.C08
