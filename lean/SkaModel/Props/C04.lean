import SkaModel.Lemmas.Budget
import Mathlib.Algebra.Field.Rat
import Mathlib.Algebra.Order.Ring.Rat
import Mathlib.Tactic.NormNum

/-!
# C04 — budget managers never spend more labels than the budget allows

Property theorems only; models in `SkaModel/Core/Budget.lean`, `Core/Stream.lean`, helper lemmas in
`SkaModel/Lemmas/Budget.lean`.

All statements are over an arbitrary ordered field `α` (exact arithmetic), for **every** utility stream
(`List (Option α)`, `none` = NaN; constant, maximal and NaN streams included), every window `w ≥ 1`
(not only integers), every budget `b > 0`, every stream of random draws (`uni`, `nrm : ℕ → α`), **every
chunking** of the stream into `idx = query(chunk); update(chunk, idx)` calls and **every prefix length
`n`**.  `runChunked M s chunks 0 = .ok r` says that no `update` raised; `r.1` are the granted positions in
the whole stream, so `(r.1.filter (· < n)).length` is the number of labels granted among the first `n`
instances.
-/

set_option linter.unusedSectionVars false

namespace Ska.C04
open Ska Ska.Budget

variable {α : Type} [Field α] [LinearOrder α] [IsStrictOrderedRing α]

/-! ## the guarded decayed counter -/

/-- **guarded_decay_bound** (reference process of the window-based managers). An adversary proposes
arbitrary `wants`; a label is granted iff it is wanted and `u_t / w < b`; `u_{t+1} = u_t (w-1)/w + g_t`.
From any `0 ≤ u₀ < b w + 1` (in particular `u₀ = 0`), after every number of steps `u` stays in
`[0, b w + 1)` and the number of grants is `< b n + n/w + b w + 1`. -/
theorem guarded_decay_bound (w b : α) (hw : 1 ≤ w) (wants : List Bool) (u : α) (h0 : 0 ≤ u)
    (h1 : u < b * w + 1) :
    0 ≤ (simLoop (gBody w b) u wants).2 ∧ (simLoop (gBody w b) u wants).2 < b * w + 1 ∧
    (countTrue (simLoop (gBody w b) u wants).1 : α) < b * wants.length + wants.length / w + b * w + 1 := by
  obtain ⟨hr, hu⟩ := guarded_resp (gBody_guarded w b) wants u
  simp only [id] at hr hu
  obtain ⟨i0, i1, -, -⟩ := decay_core w b hw _ u h0 h1 hr
  have hb := decay_bound w b hw _ u h0 h1 hr
  rw [simLoop_length] at hb
  rw [hu]
  exact ⟨i0, i1, hb⟩

/-- Every guarded process — in particular each of the five window-based managers below — *is* the
reference process driven by some stream of wanted bits: same decisions, same `u_t` trajectory end. -/
theorem guarded_refines_reference {σ ι : Type} {step : σ → ι → Bool × σ} {proj : σ → α} {w b : α}
    (h : Guarded step proj w b) (xs : List ι) (s : σ) :
    ∃ wants : List Bool, wants.length = xs.length ∧
      (simLoop (gBody w b) (proj s) wants).1 = (simLoop step s xs).1 ∧
      (simLoop (gBody w b) (proj s) wants).2 = proj (simLoop step s xs).2 :=
  ⟨(simLoop step s xs).1, simLoop_length _ _ _, (guarded_is_gRun h xs s).1, (guarded_is_gRun h xs s).2⟩

/-- the loop bodies of the five `query_by_utility` implementations are guarded by `u_t_`:
a label is granted only if `tmp_u_t / w < budget_`, and `tmp_u_t` follows the decay recursion. -/
theorem fixed_guarded (p : ZParams α) : Guarded (fixedBody p) ZState.u p.w p.b := Budget.fixed_guarded p
theorem variable_guarded (p : ZParams α) : Guarded (varBody p) ZState.u p.w p.b := Budget.var_guarded p
theorem randVar_guarded (p : ZParams α) (nrm : Nat → α) : Guarded (randVarBody p nrm) ZState.u p.w p.b :=
  Budget.randVar_guarded p nrm
theorem split_guarded (p : ZParams α) (uni : Nat → α) : Guarded (splitBody p uni) ZState.u p.w p.b :=
  Budget.split_guarded p uni
/-- for the random manager only grants on non-NaN utilities exist and count, as in the code -/
theorem random_guarded (p : ZParams α) (uni : Nat → α) : Guarded (randomBody p uni) ZState.u p.w p.b :=
  Budget.random_guarded p uni

/-! ## the bound of the property, for every manager, every chunking, every prefix -/

/-- shape shared by the five statements below -/
theorem window_bound_of_guardedMgr {σ ι : Type} {M : Mgr σ ι} {proj : σ → α} {w b : α}
    (h : GuardedMgr M proj w b) (hw : 1 ≤ w) (_hb : 0 < b) (s : σ) (h0 : 0 ≤ proj s) (h1 : proj s < b * w + 1)
    (chunks : List (List ι)) :
    ∃ r, runChunked M s chunks 0 = .ok r ∧
      ∀ n, n ≤ chunks.flatten.length →
        (((r.1.filter (fun j => decide (j < n))).length : Nat) : α) ≤ b * n + n / w + b * w + 1 := by
  obtain ⟨r, hr, hbnd⟩ := guardedMgr_bound h hw s h0 h1 chunks
  exact ⟨r, hr, fun n hn => le_of_lt (hbnd n hn)⟩

/-- **FixedUncertaintyBudgetManager**: at most `budget*n + n/w + budget*w + 1` labels among the first
`n` instances, whatever the utilities and however the stream is chunked; no `update` raises. -/
theorem fixed_budget_respected (p : ZParams α) (hw : 1 ≤ p.w) (hb : 0 < p.b) (θ : α) (c : Nat)
    (chunks : List (List (Option α))) :
    ∃ r, runChunked (fixedMgr p) { u := 0, theta := θ, rng := c } chunks 0 = .ok r ∧
      ∀ n, n ≤ chunks.flatten.length →
        (((r.1.filter (fun j => decide (j < n))).length : Nat) : α) ≤ p.b * n + n / p.w + p.b * p.w + 1 :=
  window_bound_of_guardedMgr (guardedMgr_of_refines (fixed_refines p) (Budget.fixed_guarded p)) hw hb _
    (le_refl _) (fresh_ok _ _ hw hb) chunks

/-- **VariableUncertaintyBudgetManager** (all threshold dynamics `theta_`, all `s`). -/
theorem variable_budget_respected (p : ZParams α) (hw : 1 ≤ p.w) (hb : 0 < p.b) (θ : α) (c : Nat)
    (chunks : List (List (Option α))) :
    ∃ r, runChunked (varMgr p) { u := 0, theta := θ, rng := c } chunks 0 = .ok r ∧
      ∀ n, n ≤ chunks.flatten.length →
        (((r.1.filter (fun j => decide (j < n))).length : Nat) : α) ≤ p.b * n + n / p.w + p.b * p.w + 1 :=
  window_bound_of_guardedMgr (guardedMgr_of_refines (var_refines p) (Budget.var_guarded p)) hw hb _
    (le_refl _) (fresh_ok _ _ hw hb) chunks

/-- **RandomVariableUncertaintyBudgetManager**, for every stream of normal draws. -/
theorem randVar_budget_respected (p : ZParams α) (nrm : Nat → α) (hw : 1 ≤ p.w) (hb : 0 < p.b) (θ : α)
    (c : Nat) (chunks : List (List (Option α))) :
    ∃ r, runChunked (randVarMgr p nrm) { u := 0, theta := θ, rng := c } chunks 0 = .ok r ∧
      ∀ n, n ≤ chunks.flatten.length →
        (((r.1.filter (fun j => decide (j < n))).length : Nat) : α) ≤ p.b * n + n / p.w + p.b * p.w + 1 :=
  window_bound_of_guardedMgr (randVar_guardedMgr p nrm) hw hb _ (le_refl _) (fresh_ok _ _ hw hb) chunks

/-- **SplitBudgetManager**, for every stream of uniform draws and every `v`. -/
theorem split_budget_respected (p : ZParams α) (uni : Nat → α) (hw : 1 ≤ p.w) (hb : 0 < p.b) (θ : α)
    (c : Nat) (chunks : List (List (Option α))) :
    ∃ r, runChunked (splitMgr p uni) { u := 0, theta := θ, rng := c } chunks 0 = .ok r ∧
      ∀ n, n ≤ chunks.flatten.length →
        (((r.1.filter (fun j => decide (j < n))).length : Nat) : α) ≤ p.b * n + n / p.w + p.b * p.w + 1 :=
  window_bound_of_guardedMgr (guardedMgr_of_refines (split_refines p uni) (Budget.split_guarded p uni)) hw hb _
    (le_refl _) (fresh_ok _ _ hw hb) chunks

/-- **RandomBudgetManager**, for every stream of uniform draws. -/
theorem random_budget_respected (p : ZParams α) (uni : Nat → α) (hw : 1 ≤ p.w) (hb : 0 < p.b) (θ : α)
    (c : Nat) (chunks : List (List (Option α))) :
    ∃ r, runChunked (randomMgr p uni) { u := 0, theta := θ, rng := c } chunks 0 = .ok r ∧
      ∀ n, n ≤ chunks.flatten.length →
        (((r.1.filter (fun j => decide (j < n))).length : Nat) : α) ≤ p.b * n + n / p.w + p.b * p.w + 1 :=
  window_bound_of_guardedMgr (guardedMgr_of_refines (random_refines p uni) (Budget.random_guarded p uni)) hw hb _
    (le_refl _) (fresh_ok _ _ hw hb) chunks

/-- The same bound from every reachable state (`0 ≤ u_t_ < b w + 1` is an invariant), e.g. for a
manager that has already seen part of a stream. -/
theorem window_budget_respected_from (p : ZParams α) (uni : Nat → α) (hw : 1 ≤ p.w) (hb : 0 < p.b)
    (s : ZState α) (h0 : 0 ≤ s.u) (h1 : s.u < p.b * p.w + 1) (chunks : List (List (Option α))) :
    ∃ r, runChunked (splitMgr p uni) s chunks 0 = .ok r ∧
      ∀ n, n ≤ chunks.flatten.length →
        (((r.1.filter (fun j => decide (j < n))).length : Nat) : α) ≤ p.b * n + n / p.w + p.b * p.w + 1 :=
  window_bound_of_guardedMgr (guardedMgr_of_refines (split_refines p uni) (Budget.split_guarded p uni)) hw hb s
    h0 h1 chunks

/-- **dbSplit_bound** — DensityBasedSplitBudgetManager: at most `budget*n + 1` (strictly fewer) labels
among the first `n` instances, for every stream of normal draws, any chunking. -/
theorem dbSplit_bound (p : DParams α) (nrm : Nat → α) (hb : 0 < p.b) (θ : α) (c : Nat)
    (chunks : List (List (Option α))) :
    ∃ r, runChunked (dbMgr p nrm) { u := 0, t := 0, theta := θ, rng := c } chunks 0 = .ok r ∧
      ∀ n, n ≤ chunks.flatten.length →
        (((r.1.filter (fun j => decide (j < n))).length : Nat) : α) ≤ p.b * n + 1 := by
  obtain ⟨r, hr, hbnd⟩ := counterMgr_bound (db_counterMgr p hb.le nrm) chunks
    { u := 0, t := 0, theta := θ, rng := c } (by simp [dbBnd])
  refine ⟨r, hr, fun n hn => ?_⟩
  have := hbnd n hn
  simp only [dbBnd, Nat.zero_add] at this
  exact le_of_lt this

/-- **periodic_bound** — PeriodicSampling: at most `budget*n` labels among the first `n` instances. -/
theorem periodic_bound (b : α) (hb : 0 < b) (c : Nat) (chunks : List (List Unit)) :
    ∃ r, runChunked (perMgr b) { obs := 0, qd := 0, rng := c } chunks 0 = .ok r ∧
      ∀ n, n ≤ chunks.flatten.length →
        (((r.1.filter (fun j => decide (j < n))).length : Nat) : α) ≤ b * n := by
  obtain ⟨r, hr, hbnd⟩ := counterMgr_bound (per_counterMgr b hb.le) chunks
    { obs := 0, qd := 0, rng := c } (by simp [leBnd])
  refine ⟨r, hr, fun n hn => ?_⟩
  have := hbnd n hn
  simpa only [leBnd, Nat.zero_add] using this

/-- **randomSampling_strict_bound** — StreamRandomSampling(allow_exceeding_budget=False): at most
`budget*n` labels among the first `n` instances, for every stream of uniform draws. -/
theorem randomSampling_strict_bound (b : α) (hb : 0 < b) (uni : Nat → α) (c : Nat) (chunks : List (List Unit)) :
    ∃ r, runChunked (srsMgr false b uni) { obs := 0, qd := 0, rng := c } chunks 0 = .ok r ∧
      ∀ n, n ≤ chunks.flatten.length →
        (((r.1.filter (fun j => decide (j < n))).length : Nat) : α) ≤ b * n := by
  obtain ⟨r, hr, hbnd⟩ := counterMgr_bound (srs_counterMgr b hb.le uni) chunks
    { obs := 0, qd := 0, rng := c } (by simp [leBnd])
  refine ⟨r, hr, fun n hn => ?_⟩
  have := hbnd n hn
  simpa only [leBnd, Nat.zero_add] using this

/-! ## chunking does not matter -/

/-- **chunked_grants_eq**: for a manager that refines a per-instance process (fixed, variable, split,
random: see `C10`), `query → update` per chunk grants exactly the labels of the per-instance process on
the concatenated stream and ends in its state — the `u_t_` trajectory and all guard evaluations are
the same however the stream is cut. -/
theorem chunked_grants_eq {σ ι : Type} {M : Mgr σ ι} {step : σ → ι → Bool × σ} (h : Refines M step)
    (chunks : List (List ι)) (s : σ) :
    runChunked M s chunks 0 =
      .ok (idxOf (simLoop step s chunks.flatten).1 0, (simLoop step s chunks.flatten).2) := by
  have := runChunked_eq h chunks s 0
  simpa using this

theorem fixed_chunked_grants_eq (p : ZParams α) (chunks : List (List (Option α))) (s : ZState α) :
    runChunked (fixedMgr p) s chunks 0 =
      .ok (idxOf (simLoop (fixedBody p) s chunks.flatten).1 0, (simLoop (fixedBody p) s chunks.flatten).2) :=
  chunked_grants_eq (fixed_refines p) chunks s

theorem variable_chunked_grants_eq (p : ZParams α) (chunks : List (List (Option α))) (s : ZState α) :
    runChunked (varMgr p) s chunks 0 =
      .ok (idxOf (simLoop (varBody p) s chunks.flatten).1 0, (simLoop (varBody p) s chunks.flatten).2) :=
  chunked_grants_eq (var_refines p) chunks s

theorem split_chunked_grants_eq (p : ZParams α) (uni : Nat → α) (chunks : List (List (Option α)))
    (s : ZState α) :
    runChunked (splitMgr p uni) s chunks 0 =
      .ok (idxOf (simLoop (splitBody p uni) s chunks.flatten).1 0, (simLoop (splitBody p uni) s chunks.flatten).2) :=
  chunked_grants_eq (split_refines p uni) chunks s

theorem random_chunked_grants_eq (p : ZParams α) (uni : Nat → α) (chunks : List (List (Option α)))
    (s : ZState α) :
    runChunked (randomMgr p uni) s chunks 0 =
      .ok (idxOf (simLoop (randomBody p uni) s chunks.flatten).1 0, (simLoop (randomBody p uni) s chunks.flatten).2) :=
  chunked_grants_eq (random_refines p uni) chunks s

/-! ## the hypotheses are satisfiable, the bound is not vacuous -/

/-- `w = 4`, `budget = 1/4` over ℚ, an all-max utility stream cut into chunks 2+1+3: the manager sits
exactly on the guard boundary after its first grant (`u_t_/w = 1/4 = budget`, so instance 1 is refused)
and grants 0, 2 and 5. -/
example :
    runChunked (fixedMgr (α := ℚ) { w := 4, b := 1/4, s := 0, v := 0, nc := 2 }) { u := 0, theta := 0, rng := 0 }
      [[some 1, some 1], [some 1], [some 1, some 1, some 1]] 0
      = .ok ([0, 2, 5], { u := 1699/1024, theta := 0, rng := 0 }) := by
  norm_num [runChunked, fixedMgr, fixedQuery, zQuery, simLoop, fixedBody, fixedUpdate, bitsOf, idxOf, uPass, nextU,
    budgetLeft, leO, leB, conf, fixedTheta, List.range, List.range.loop]

example : ∃ r, runChunked (varMgr (α := ℚ) { w := 4, b := 1/4, s := 1/100, v := 0, nc := 0 })
    { u := 0, theta := 1, rng := 0 } [[some 1, none], [some (1/2)]] 0 = .ok r ∧
      ∀ n, n ≤ 3 → (((r.1.filter (fun j => decide (j < n))).length : Nat) : ℚ) ≤ 1/4 * n + n / 4 + 1/4 * 4 + 1 :=
  variable_budget_respected _ (by norm_num) (by norm_num) 1 0 _

end Ska.C04
