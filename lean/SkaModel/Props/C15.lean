import SkaModel.Lemmas.Regressor

/-!
# C15 — regressor predictions are coherent with their predictive distribution

Property theorems only (helpers: `SkaModel/Lemmas/Regressor.lean`), about the model
`SkaModel/Core/Regressor.lean`, tied to `/repo` by `harness/props/c15.py` (posterior parameters
bit-exact on dyadic kernels; `predict` against the returned distribution object; wrapper fallbacks).
Arithmetic statements hold over every linear ordered field (exact arithmetic).

Clauses of the property:
* "predict returns exactly the mean (and, on request, std and entropy) of the distribution returned by
  predict_target_distribution": `predict_is_mean`, `predict_parts`;
* "standard deviations are finite and non-negative whenever a proper prior or at least two labeled
  samples are available": `combine_pos`, `combine_scale_pos`, `estimateMl_spec`, `nic_std_finite_proper_prior`,
  `nadaraya_watson_std_finite` (kernel regressors: finiteness is what `ν_post > 2` gives),
  `wrapper_fallback_values` (wrappers: at least two labels ⇒ `std = sqrt(var)`, `var ≥ 0`);
  the excluded corner is real: `improper_prior_counterexample`;
* "samples drawn by sample_y have shape (n_query_points, n_samples)": `sample_shape`,
  `fallback_sample_shape` (reproducibility: the result is a function of the draws, which are a function
  of the seed — MT19937, trusted; measured in the harness);
* "wrapped regressors fall back to the documented default (mean 0, or the empirical label mean)":
  `wrapper_fallback_values`, `wrapper_delegates`, `normal_fallback` (full strength since the scale is
  bounded below by `tiny`), `normal_fallback_few_labels`; the pre-repair behaviour is recorded in
  `Regressions.normal_fallback_zero_std_counterexample`.
-/

set_option linter.unusedSectionVars false
set_option linter.unusedVariables false

namespace Ska.C15
open Ska Ska.Classifier Ska.Regressor

section Predict
variable {α : Type}

/-- **predict_is_mean**: whatever the flags, the (first component of the) result is `rv.mean()`; the
tuple has the documented shape `(mean[, std][, entropy])` and a bare array without flags. -/
theorem predict_is_mean (d : Dist α) :
    predictOut d false false = .single d.mean ∧
    predictOut d true false = .tuple [d.mean, d.std] ∧
    predictOut d false true = .tuple [d.mean, d.entropy] ∧
    predictOut d true true = .tuple [d.mean, d.std, d.entropy] := by
  refine ⟨rfl, rfl, rfl, rfl⟩

theorem predict_parts (d : Dist α) (rs re : Bool) :
    (predictParts d rs re).head? = some d.mean ∧
    (predictParts d rs re).length = 1 + (if rs then 1 else 0) + (if re then 1 else 0) := by
  cases rs <;> cases re <;> simp [predictParts]

variable [OfNat α 0]

/-- **sample_shape**: `n_samples` draws of `n_query` values each are returned as `n_query` rows of
`n_samples` entries, entry `(i, j)` being draw `j` at query point `i`. -/
theorem sample_shape (q s : Nat) (draws : List (List α)) (hs : draws.length = s)
    (hq : ∀ r ∈ draws, r.length = q) :
    (sampleY q draws).length = q ∧ (∀ r ∈ sampleY q draws, r.length = s) ∧
    ∀ i j, ∀ hi : i < q, ∀ hj : j < draws.length,
      ((sampleY q draws).getD i []).getD j 0 = (draws[j]).getD i 0 := by
  refine ⟨by simp [sampleY, transposeM], ?_, ?_⟩
  · intro r hr
    simp only [sampleY, transposeM, List.mem_map] at hr
    obtain ⟨i, -, rfl⟩ := hr
    simp [hs]
  · intro i j hi hj
    simp only [sampleY, transposeM]
    have e : ((List.range q).map (fun j => draws.map (fun r => r.getD j 0))).getD i [] =
        draws.map (fun r => r.getD i 0) := by
      rw [List.getD_eq_getElem?_getD, List.getElem?_map, List.getElem?_range hi]; rfl
    rw [e, List.getD_eq_getElem?_getD, List.getElem?_map, List.getElem?_eq_getElem hj]
    rfl

end Predict

section Num
variable {α : Type} [Field α] [LinearOrder α] [IsStrictOrderedRing α]

/-- **combine_pos**: for a prior with `κ₀, ν₀, σ₀² ≥ 0`, an update with `κ_u = ν_u = N ≥ 0`,
`var ≥ 0`, and `κ₀ + N > 0`, `ν₀ + N > 0`: the posterior has `κ > 0`, `ν > 0`, `σ² ≥ 0`, and the
squared scale `(1+κ)/κ·σ²` handed to Student's t is `≥ 0`. -/
theorem combine_pos (p u : NIC α) (hpk : 0 ≤ p.kappa) (hpn : 0 ≤ p.nu) (hps : 0 ≤ p.sigmaSq)
    (huk : 0 ≤ u.kappa) (hun : 0 ≤ u.nu) (hus : 0 ≤ u.sigmaSq)
    (hk : 0 < p.kappa + u.kappa) (hn : 0 < p.nu + u.nu) :
    0 < (combineParams p u).kappa ∧ 0 < (combineParams p u).nu ∧ 0 ≤ (combineParams p u).sigmaSq ∧
    0 ≤ scaleSq (combineParams p u) ∧
    (combineParams p u).kappa = p.kappa + u.kappa ∧ (combineParams p u).nu = p.nu + u.nu := by
  have hsig : 0 ≤ (combineParams p u).sigmaSq := by
    simp only [combineParams]
    apply div_nonneg _ (le_of_lt hn)
    have h1 : 0 ≤ p.nu * p.sigmaSq := mul_nonneg hpn hps
    have h2 : 0 ≤ u.nu * u.sigmaSq := mul_nonneg hun hus
    have h3 : 0 ≤ p.kappa * u.kappa * sqr (p.mu - u.mu) / (p.kappa + u.kappa) :=
      div_nonneg (mul_nonneg (mul_nonneg hpk huk) (sq_nonneg' _)) (le_of_lt hk)
    linarith
  refine ⟨hk, hn, hsig, ?_, rfl, rfl⟩
  unfold scaleSq
  have hk' : 0 < (combineParams p u).kappa := hk
  exact mul_nonneg (div_nonneg (by linarith) (le_of_lt hk')) hsig

/-- with `ν₀ > 0` and `σ₀² > 0` the posterior variance parameter, hence the squared scale, is strictly
positive (scipy's frozen distributions need `scale > 0`; a zero scale yields NaN moments). -/
theorem combine_scale_pos (p u : NIC α) (hpk : 0 ≤ p.kappa) (hpn : 0 < p.nu) (hps : 0 < p.sigmaSq)
    (huk : 0 ≤ u.kappa) (hun : 0 ≤ u.nu) (hus : 0 ≤ u.sigmaSq) (hk : 0 < p.kappa + u.kappa) :
    0 < (combineParams p u).sigmaSq ∧ 0 < scaleSq (combineParams p u) := by
  have hn : 0 < p.nu + u.nu := by linarith
  have hsig : 0 < (combineParams p u).sigmaSq := by
    simp only [combineParams]
    apply div_pos _ hn
    have h1 : 0 < p.nu * p.sigmaSq := mul_pos hpn hps
    have h2 : 0 ≤ u.nu * u.sigmaSq := mul_nonneg hun hus
    have h3 : 0 ≤ p.kappa * u.kappa * sqr (p.mu - u.mu) / (p.kappa + u.kappa) :=
      div_nonneg (mul_nonneg (mul_nonneg hpk huk) (sq_nonneg' _)) (le_of_lt hk)
    linarith
  refine ⟨hsig, ?_⟩
  unfold scaleSq
  have hk' : 0 < (combineParams p u).kappa := hk
  exact mul_pos (div_pos (by linarith) hk') hsig

/-- the maximum-likelihood update of one query point: for non-negative (weighted) kernel values with
positive total mass, `N > 0` and `var ≥ 0`. -/
theorem estimateMl_spec (krow y : List α) (hk : ∀ k ∈ krow, 0 ≤ k) (hN : 0 < sumL krow) :
    0 < (estimateMl krow y).1 ∧ 0 ≤ (estimateMl krow y).2.2 := by
  refine ⟨hN, ?_⟩
  simp only [estimateMl]
  exact mul_nonneg (div_nonneg zero_le_one (le_of_lt hN)) (sumL_nonneg _ (zipWith_scatter_nonneg krow y _ hk))

/-- every update produced by the model satisfies the hypotheses of `combine_pos`. -/
theorem updateParams_nonneg (w : Option (List α)) (krow y : List α) (hk : ∀ k ∈ krow, 0 ≤ k)
    (hw : ∀ l, w = some l → ∀ x ∈ l, 0 ≤ x) (hN : y.length ≠ 0 → 0 < sumL (weightRow w krow)) :
    0 ≤ (updateParams w krow y).kappa ∧ 0 ≤ (updateParams w krow y).nu ∧ 0 ≤ (updateParams w krow y).sigmaSq ∧
    (updateParams w krow y).kappa = (updateParams w krow y).nu ∧
    (y.length ≠ 0 → 0 < (updateParams w krow y).nu) := by
  unfold updateParams
  split
  · rename_i h; simp [h]
  · rename_i h
    obtain ⟨h1, h2⟩ := estimateMl_spec (weightRow w krow) y (weightRow_nonneg w krow hk hw) (hN h)
    exact ⟨le_of_lt h1, le_of_lt h1, h2, rfl, fun _ => h1⟩

/-- **proper prior** (`κ₀ > 0`, `ν₀ > 2`, `σ₀² ≥ 0`): for every training set (also the empty one),
non-negative kernel and weights, the predictive Student-t has `df > 2`, hence a finite variance
`ν/(ν−2)·scale² ≥ 0` — the standard deviation is finite and non-negative. -/
theorem nic_std_finite_proper_prior (prior : NIC α) (w : Option (List α)) (krow y : List α)
    (hk0 : 0 < prior.kappa) (hn0 : 2 < prior.nu) (hs0 : 0 ≤ prior.sigmaSq)
    (hk : ∀ k ∈ krow, 0 ≤ k) (hw : ∀ l, w = some l → ∀ x ∈ l, 0 ≤ x)
    (hN : y.length ≠ 0 → 0 < sumL (weightRow w krow)) :
    ∃ v, tVariance (nicPosterior prior w krow y).nu (scaleSq (nicPosterior prior w krow y)) = some v ∧ 0 ≤ v := by
  obtain ⟨u1, u2, u3, -, -⟩ := updateParams_nonneg w krow y hk hw hN
  obtain ⟨c1, c2, c3, c4, c5, c6⟩ := combine_pos prior (updateParams w krow y) (le_of_lt hk0) (by linarith) hs0 u1 u2 u3
    (by linarith) (by linarith)
  have hnu : 2 < (nicPosterior prior w krow y).nu := by
    unfold nicPosterior; rw [c6]; linarith
  unfold tVariance
  have h2 : (1 : α) + 1 = 2 := by norm_num
  rw [h2, if_pos hnu]
  refine ⟨_, rfl, ?_⟩
  exact mul_nonneg (div_nonneg (by linarith) (by linarith)) c4

/-- **NadarayaWatsonRegressor** (`κ₀ = 0`, `ν₀ = 3`, `σ₀² = 1`) with at least one label and positive
kernel mass: finite, non-negative standard deviation. -/
theorem nadaraya_watson_std_finite (mu0 : α) (w : Option (List α)) (krow y : List α) (hy : y.length ≠ 0)
    (hk : ∀ k ∈ krow, 0 ≤ k) (hw : ∀ l, w = some l → ∀ x ∈ l, 0 ≤ x) (hN : 0 < sumL (weightRow w krow)) :
    ∃ v, tVariance (nicPosterior ⟨0, 3, mu0, 1⟩ w krow y).nu (scaleSq (nicPosterior ⟨0, 3, mu0, 1⟩ w krow y)) = some v ∧
      0 ≤ v := by
  obtain ⟨u1, u2, u3, u4, u5⟩ := updateParams_nonneg w krow y hk hw (fun _ => hN)
  have hpos := u5 hy
  obtain ⟨c1, c2, c3, c4, c5, c6⟩ := combine_pos (⟨0, 3, mu0, 1⟩ : NIC α) (updateParams w krow y) (le_refl _) (by norm_num)
    (by norm_num) u1 u2 u3 (by simp only; rw [u4]; linarith) (by simp only; linarith)
  have hnu : 2 < (nicPosterior ⟨0, 3, mu0, 1⟩ w krow y).nu := by
    unfold nicPosterior; rw [c6]; simp only; linarith
  unfold tVariance
  have h2 : (1 : α) + 1 = 2 := by norm_num
  rw [h2, if_pos hnu]
  refine ⟨_, rfl, ?_⟩
  exact mul_nonneg (div_nonneg (by linarith) (by linarith)) c4

/-- without a proper prior and without labels the claim fails (and the property does not make it):
`ν_post = ν₀ = 1` gives no finite variance. -/
theorem improper_prior_counterexample :
    (nicPosterior (α := Int) ⟨1, 1, 0, 1⟩ none [] []).nu = 1 ∧
    tVariance (α := Int) (nicPosterior ⟨1, 1, 0, 1⟩ none [] []).nu (scaleSq (nicPosterior ⟨1, 1, 0, 1⟩ none [] [])) = none := by
  decide

/-- **wrapper_delegates**: a fitted wrapped estimator's output is passed through unchanged. -/
theorem wrapper_delegates (sqrt : α → α) (em : List α) (es : Option (List α)) (ys : List α) (n : Nat) (rs : Bool) :
    wrapperPredict sqrt true em es ys n rs = (em, es) := rfl

/-- **wrapper_fallback_values**: when the wrapped estimator is not fitted, every query point gets
* mean `0`, std `1` with no labeled sample,
* mean `y`, std `1` with one labeled sample `y`,
* the empirical mean `Σy/n` and `sqrt` of the population variance (which is `≥ 0`) with `n ≥ 2` labels;
the std array is returned exactly when `return_std` is set. -/
theorem wrapper_fallback_values (sqrt : α → α) (em : List α) (es : Option (List α)) (n : Nat) :
    (∀ rs, wrapperPredict sqrt false em es [] n rs =
        (List.replicate n 0, if rs then some (List.replicate n 1) else none)) ∧
    (∀ rs y, wrapperPredict sqrt false em es [y] n rs =
        (List.replicate n y, if rs then some (List.replicate n 1) else none)) ∧
    (∀ rs (ys : List α), 2 ≤ ys.length →
        wrapperPredict sqrt false em es ys n rs =
          (List.replicate n (sumL ys / (ys.length : α)),
           if rs then some (List.replicate n (sqrt (labelVar ys))) else none) ∧ 0 ≤ labelVar ys) := by
  refine ⟨?_, ?_, ?_⟩
  · intro rs; simp [wrapperPredict, labelMean, labelStd]
  · intro rs y
    have : sumL [y] / natTo 1 = y := by
      rw [sumL_cons, natTo_eq]; simp
    simp [wrapperPredict, labelMean, labelStd, this]
  · intro rs ys h2
    have h0 : 0 < ys.length := by omega
    have h1 : 1 < ys.length := by omega
    refine ⟨by simp [wrapperPredict, labelMean, labelStd, h0, h1, natTo_eq], ?_⟩
    unfold labelVar
    simp only
    apply div_nonneg
    · apply sumL_nonneg
      intro x hx
      obtain ⟨y, -, rfl⟩ := List.mem_map.mp hx
      exact sq_nonneg' _
    · rw [natTo_eq]; positivity

/-- **normal_fallback** (full strength): with the scale bounded from below by a positive `tiny`,
`SklearnNormalRegressor` with an unfitted estimator predicts, for any number of labels (also constant
ones), the label mean (`0` without labels) and the standard deviation `max(_label_std, tiny)`, which is
a positive number — never NaN.  (`hsqrt`: scipy reports `sqrt(scale²)`; in IEEE doubles `tiny²`
underflows, so the reported std of constant labels is `0.0` — still finite and non-negative.) -/
theorem normal_fallback (sqrt : α → α) (hsqrt : ∀ x, 0 ≤ x → sqrt (x * x) = x) (tiny : α) (htiny : 0 < tiny)
    (ys : List α) (n : Nat) :
    normalFallbackPredict sqrt tiny ys n =
      (List.replicate n (some (labelMean ys)), List.replicate n (some (boundScale tiny (labelStd sqrt ys)))) ∧
    0 < boundScale tiny (labelStd sqrt ys) ∧ labelStd sqrt ys ≤ boundScale tiny (labelStd sqrt ys) ∧
    (tiny ≤ labelStd sqrt ys → boundScale tiny (labelStd sqrt ys) = labelStd sqrt ys) := by
  have hpos : 0 < boundScale tiny (labelStd sqrt ys) := by
    unfold boundScale; split
    · exact htiny
    · rename_i h; exact lt_of_lt_of_le htiny (not_lt.mp h)
  refine ⟨by simp [normalFallbackPredict, normMean, normStd, hpos, hsqrt _ (le_of_lt hpos)], hpos, ?_, ?_⟩
  · unfold boundScale; split
    · rename_i h; exact le_of_lt h
    · exact le_refl _
  · intro h; unfold boundScale; rw [if_neg (not_lt.mpr h)]

/-- fewer than two labels: the scale is `1` (for `tiny ≤ 1`). -/
theorem normal_fallback_few_labels (sqrt : α → α) (hsqrt : ∀ x, 0 ≤ x → sqrt (x * x) = x) (tiny : α)
    (htiny : 0 < tiny) (ht1 : tiny ≤ 1) (ys : List α) (n : Nat) (h : ys.length < 2) :
    normalFallbackPredict sqrt tiny ys n = (List.replicate n (some (labelMean ys)), List.replicate n (some 1)) := by
  have h1 : ¬ 1 < ys.length := by omega
  have hs : labelStd sqrt ys = 1 := by simp [labelStd, h1]
  obtain ⟨e, -, -, hb⟩ := normal_fallback sqrt hsqrt tiny htiny ys n
  rw [e, hb (by rw [hs]; exact ht1), hs]

/-- constant labels `3, 3` after the repair: mean `3`, std `tiny`. -/
example : normalFallbackPredict (α := Int) (fun x => x) 1 [3, 3] 2 = ([some 3, some 3], [some 1, some 1]) := by
  decide

/-- the fallback of `sample_y` keeps the shape `(n_query, n_samples)` of the normal draws. -/
theorem fallback_sample_shape (z : List (List α)) (std mean : α) :
    (fallbackSample z std mean).length = z.length ∧
    ∀ i, ∀ hi : i < z.length, ((fallbackSample z std mean)[i]'(by simp [fallbackSample]; exact hi)).length = z[i].length := by
  refine ⟨by simp [fallbackSample], ?_⟩
  intro i hi
  simp [fallbackSample]

end Num

/-! ## Non-vacuity -/

example : combineParams (α := Rat) ⟨1/10, 5/2, 0, 1⟩ ⟨2, 2, 3, 1/2⟩ = ⟨21/10, 9/2, 20/7, 61/63⟩ := by
  simp only [combineParams, sqr]; norm_num

example : estimateMl (α := Rat) [1, 1/2, 1/2] [2, 4, 0] = (2, 2, 2) := by
  simp only [estimateMl, sumL, sumFrom, sqr, List.zipWith]; norm_num

example : sampleY (α := Int) 3 [[1, 2, 3], [4, 5, 6]] = [[1, 4], [2, 5], [3, 6]] := by decide

end Ska.C15

/-! ## Regressions: statements about definitions that model code as it was before a repair -/

namespace Ska.C15.Regressions
open Ska Ska.Classifier Ska.Regressor

/-- before commit 90dd3135 (scale not bounded): two equal labels `3, 3` (any `sqrt` with `sqrt 0 = 0`)
gave NaN mean and std instead of `3` and `0`. -/
theorem normal_fallback_zero_std_counterexample :
    normalFallbackPredictOld (α := Int) (fun x => x) [3, 3] 2 = ([none, none], [none, none]) ∧
    labelMean (α := Int) [3, 3] = 3 := by decide

end Ska.C15.Regressions
