import SkaModel.Lemmas.Label

/-!
# C16 — label encoding round-trips and missing-label predicates agree

Property theorems only; helper lemmas are in `SkaModel/Lemmas/Label.lean`.

Statements quantify over every label array (`Arr α`: dtype class, shape, row-major contents over
`Lbl α` = number | NaN | string | None with `α` an arbitrary linear order), every sentinel, every
class list.  The encoder theorems are stated for an arbitrary linearly ordered label type `γ`
(`Lbl α` is one: `Lbl.instLinearOrder`) and an arbitrary "is missing" test, and then specialised to
`ExtLabelEncoder` on `Lbl α`.

Known deviation of the real code (reported as a finding by the correspondence, not provable here
because strings are abstract codes in the model): scikit-learn's `LabelEncoder.transform` casts `y` to
`classes_.dtype` before looking for unknown labels, so a string longer than the longest class (or a
float with integer classes) is silently truncated to a class instead of raising — the real
`transform` violates `transform_unseen_raises` on such inputs.
-/

namespace Ska.C16
open Ska Ska.Label

variable {α : Type} [LinearOrder α]

/-! ## is_labeled / is_unlabeled -/

/-- **`is_labeled` is the exact complement of `is_unlabeled`**: same error behaviour, same length,
every entry negated. -/
theorem isLabeled_compl (isList : Bool) (mlArg : Option (Lbl α)) (a : Arr α) :
    (∀ e, isUnlabeledArr isList mlArg a = .error e ↔ isLabeledArr isList mlArg a = .error e) ∧
    (∀ mu, isUnlabeledArr isList mlArg a = .ok mu →
      ∃ ml, isLabeledArr isList mlArg a = .ok ml ∧ ml.length = mu.length ∧
        ∀ i, ∀ h : i < mu.length, ∀ h' : i < ml.length, ml[i] = !mu[i]) := by
  unfold isLabeledArr
  cases h : isUnlabeledArr isList mlArg a with
  | error e => simp
  | ok m =>
    refine ⟨by simp, ?_⟩
    intro mu hmu
    injection hmu with hmu
    subst hmu
    exact ⟨m.map not, rfl, by simp, by intro i h h'; simp⟩

/-- Acceptance table of `check_missing_label` as the predicates apply it (non-empty array, valid
shape, ndarray input): numbers go with a number / NaN / None sentinel, strings with a string / None
sentinel, object arrays with None only. -/
def Supported : ArrKind → Lbl α → Prop
  | .number, .num _ => True
  | .number, .nanv => True
  | .number, .none_ => True
  | .string, .str _ => True
  | .string, .none_ => True
  | .object, .none_ => True
  | _, _ => False

/-- `is_unlabeled` on a non-empty, well-shaped ndarray succeeds exactly on the supported
(dtype class, sentinel) combinations; otherwise it raises `TypeError` (the only other outcome is the
unmodelled number-array/string-sentinel corner). -/
theorem isUnlabeled_accepts_iff (ml : Lbl α) (a : Arr α) (hr : a.rows ≠ 0) (hc : a.cols ≠ some 0) :
    ((∃ m, isUnlabeledArr false (some ml) a = .ok m) ↔ Supported a.kind ml) ∧
    (¬ Supported a.kind ml → isUnlabeledArr false (some ml) a = .error .typeError ∨
        isUnlabeledArr false (some ml) a = .error .unsupported) := by
  unfold isUnlabeledArr
  simp only [checkMl, hr, if_false, Bool.false_and, Bool.false_eq_true, hc]
  rcases a with ⟨k, r, c, f⟩
  cases k <;> cases ml <;> simp [Supported, compat, appendKind, Lbl.isChar]

/-- An unsupported Python type as sentinel is rejected with `TypeError`, whatever the array. -/
theorem isUnlabeled_bad_sentinel (isList : Bool) (a : Arr α) :
    isUnlabeledArr isList none a = .error .typeError := rfl

/-- **`is_unlabeled` marks precisely the entries equal to the sentinel** (for the NaN sentinel:
precisely the NaN entries), on every array on which it succeeds. -/
theorem isUnlabeled_iff_sentinel (isList : Bool) (ml : Lbl α) (a : Arr α) (mu : List Bool)
    (h : isUnlabeledArr isList (some ml) a = .ok mu) (hr : a.rows ≠ 0) :
    mu.length = a.flat.length ∧
    ∀ i, ∀ hi : i < a.flat.length, ∀ hi' : i < mu.length, (mu[i] = true ↔ a.flat[i] = ml) := by
  unfold isUnlabeledArr at h
  simp only [checkMl, hr, if_false] at h
  split at h
  · cases h
  split at h
  · cases h
  split at h
  · cases h
  split at h
  · cases h
  injection h with h
  subst h
  refine ⟨by simp, ?_⟩
  intro i hi hi'
  simp [isMissing_iff]

/-- Empty input (`len(y) == 0`, any number of columns): the empty mask, for every supported sentinel type. -/
theorem isUnlabeled_empty (isList : Bool) (ml : Lbl α) (a : Arr α) (hr : a.rows = 0) :
    isUnlabeledArr isList (some ml) a = .ok [] := by
  simp [isUnlabeledArr, checkMl, hr]

/-! ## labeled_indices / unlabeled_indices -/

/-- **1-d: the index functions enumerate exactly the marked positions, in increasing order.** -/
theorem indices_enumerate (m : List Bool) :
    (argwhere1 m).Pairwise (· < ·) ∧ ∀ i, i ∈ argwhere1 m ↔ m[i]? = some true := by
  refine ⟨whereFrom_sorted 0 m, ?_⟩
  intro i
  unfold argwhere1
  rw [mem_whereFrom]
  constructor
  · rintro ⟨j, rfl, hj⟩; simpa using hj
  · intro h; exact ⟨i, by omega, h⟩

/-- **2-d: `(row, column)` pairs of exactly the marked positions, in lexicographic (row-major) order.** -/
theorem indices_enumerate_2d (rows : List (List Bool)) :
    (argwhere2 rows).Pairwise lexLt ∧
    ∀ i j, (i, j) ∈ argwhere2 rows ↔ ∃ row, rows[i]? = some row ∧ row[j]? = some true := by
  refine ⟨argwhere2From_sorted 0 rows, ?_⟩
  intro i j
  unfold argwhere2
  rw [mem_argwhere2From]
  constructor
  · rintro ⟨r, rfl, row, h1, h2⟩; exact ⟨row, by simpa using h1, h2⟩
  · rintro ⟨row, h1, h2⟩; exact ⟨i, by omega, row, h1, h2⟩

/-- The rows used for a 2-d result are the row-major chunks of the flat mask: entry `(i, j)` of the
chunked mask is entry `i·c + j` of the flat one. -/
theorem rows_are_row_major (c r : Nat) (m : List Bool) (i j : Nat) (hi : i < r) (hj : j < c) :
    ((rowsOf c r m)[i]?.bind (·[j]?)) = m[i * c + j]? :=
  rowsOf_getElem? c r m i j hi hj

/-- `labeled_indices` and `unlabeled_indices` partition the positions of the array. -/
theorem indices_partition (m : List Bool) (i : Nat) (hi : i < m.length) :
    (i ∈ argwhere1 (m.map not) ↔ i ∉ argwhere1 m) := by
  rw [(indices_enumerate m).2, (indices_enumerate (m.map not)).2]
  simp [List.getElem?_map, List.getElem?_eq_getElem hi]

/-- The API functions are these enumerations of the predicate masks (1-d). -/
theorem unlabeledIndices1_spec (isList : Bool) (ml : Lbl α) (a : Arr α) (idx : List Nat)
    (h : unlabeledIndices1 isList (some ml) a = .ok idx) (hr : a.rows ≠ 0) :
    idx.Pairwise (· < ·) ∧ ∀ i, i ∈ idx ↔ a.flat[i]? = some ml := by
  unfold unlabeledIndices1 at h
  cases hm : isUnlabeledArr isList (some ml) a with
  | error e => simp [hm] at h
  | ok m =>
    simp only [hm] at h
    injection h with h
    subst h
    obtain ⟨hl, hs⟩ := isUnlabeled_iff_sentinel isList ml a m hm hr
    refine ⟨(indices_enumerate m).1, ?_⟩
    intro i
    rw [(indices_enumerate m).2]
    by_cases hi : i < a.flat.length
    · have hi' : i < m.length := by omega
      rw [List.getElem?_eq_getElem hi', List.getElem?_eq_getElem hi]
      simp only [Option.some.injEq]
      exact hs i hi hi'
    · have hi' : ¬ i < m.length := by omega
      simp [List.getElem?_eq_none (Nat.le_of_not_lt hi), List.getElem?_eq_none (Nat.le_of_not_lt hi')]

theorem labeledIndices1_spec (isList : Bool) (ml : Lbl α) (a : Arr α) (idx : List Nat)
    (h : labeledIndices1 isList (some ml) a = .ok idx) (hr : a.rows ≠ 0) :
    idx.Pairwise (· < ·) ∧ ∀ i, i ∈ idx ↔ ∃ x, a.flat[i]? = some x ∧ x ≠ ml := by
  unfold labeledIndices1 isLabeledArr at h
  cases hm : isUnlabeledArr isList (some ml) a with
  | error e => simp [hm] at h
  | ok m =>
    simp only [hm] at h
    injection h with h
    subst h
    obtain ⟨hl, hs⟩ := isUnlabeled_iff_sentinel isList ml a m hm hr
    refine ⟨(indices_enumerate _).1, ?_⟩
    intro i
    rw [(indices_enumerate _).2]
    by_cases hi : i < a.flat.length
    · have hi' : i < m.length := by omega
      have := hs i hi hi'
      simp only [List.getElem?_map, List.getElem?_eq_getElem hi', List.getElem?_eq_getElem hi,
        Option.map_some, Option.some.injEq, Bool.not_eq_true', exists_eq_left']
      rw [← Bool.not_eq_true, this]
    · have hi' : ¬ i < m.length := by omega
      simp [List.getElem?_eq_none (Nat.le_of_not_lt hi), List.getElem?_eq_none (Nat.le_of_not_lt hi')]

/-! ## the encoder on an arbitrary ordered label type -/

section Generic
set_option linter.unusedSectionVars false
variable {γ : Type} [LinearOrder γ]

/-- `classes_` is strictly increasing (sorted, no duplicates) and has exactly the members of the given
class list / of the labels present in `y`. -/
theorem classes_sorted (l : List γ) :
    (sortDedup l).Pairwise (· < ·) ∧ ∀ x, x ∈ sortDedup l ↔ x ∈ l :=
  ⟨sortDedup_sorted l, mem_sortDedup l⟩

/-- **`transform` maps the sorted classes to `0..K-1` and missing labels to `-1`**: on success the
result has the length of `y`; an entry is `-1` exactly when it is missing; every other entry is the
position `c < K` of its label in the sorted class list. -/
theorem transform_range (l : List γ) (missing : γ → Bool) (y : List γ) (es : List Int)
    (h : transformFlat (sortDedup l) missing y = .ok es) :
    es.length = y.length ∧
    ∀ i, ∀ hi : i < y.length, ∀ hi' : i < es.length,
      (missing y[i] = true → es[i] = -1) ∧
      (missing y[i] = false → ∃ c : Nat, es[i] = (c : Int) ∧ c < (sortDedup l).length ∧
          (sortDedup l)[c]? = some y[i]) := by
  obtain ⟨hl, hget⟩ := transformFlat_ok _ missing y es h
  refine ⟨hl, ?_⟩
  intro i hi hi'
  obtain ⟨_, he⟩ := hget i hi
  rcases encode1_spec _ missing y[i] es[i] he with ⟨hm, hc⟩ | ⟨hm, c, hc, -, hg⟩
  · exact ⟨fun _ => hc, fun h' => (by rw [hm] at h'; cases h')⟩
  · refine ⟨fun h' => (by rw [hm] at h'; cases h'), fun _ => ⟨c, hc, ?_, hg⟩⟩
    rcases Nat.lt_or_ge c (sortDedup l).length with h1 | h1
    · exact h1
    · rw [List.getElem?_eq_none h1] at hg; cases hg

/-- The encoding is **order preserving** on labeled entries: `y[i] < y[j] ↔ code i < code j`
(this is "sorted classes ↦ 0..K-1"). -/
theorem transform_monotone (l : List γ) (missing : γ → Bool) (y : List γ) (es : List Int)
    (h : transformFlat (sortDedup l) missing y = .ok es)
    (i j : Nat) (hi : i < y.length) (hj : j < y.length) (hi' : i < es.length) (hj' : j < es.length)
    (hmi : missing y[i] = false) (hmj : missing y[j] = false) :
    y[i] < y[j] ↔ es[i] < es[j] := by
  obtain ⟨-, hr⟩ := transform_range l missing y es h
  obtain ⟨ci, hci, hcil, hgi⟩ := (hr i hi hi').2 hmi
  obtain ⟨cj, hcj, hcjl, hgj⟩ := (hr j hj hj').2 hmj
  rw [hci, hcj]
  have e1 : (sortDedup l)[ci] = y[i] := by
    rw [List.getElem?_eq_getElem hcil] at hgi; exact Option.some.inj hgi
  have e2 : (sortDedup l)[cj] = y[j] := by
    rw [List.getElem?_eq_getElem hcjl] at hgj; exact Option.some.inj hgj
  rw [← e1, ← e2, sorted_getElem_lt_iff _ (sortDedup_sorted l) ci cj hcil hcjl]
  omega

/-- Encoding the class list itself yields `0, 1, …, K-1`: the `c`-th smallest class gets code `c`. -/
theorem transform_classes (l : List γ) (missing : γ → Bool) (c : Nat) (hc : c < (sortDedup l).length)
    (hm : missing (sortDedup l)[c] = false) :
    encode1 (sortDedup l) missing (sortDedup l)[c] = .ok (c : Int) := by
  unfold encode1
  simp only [hm, Bool.false_eq_true, if_false]
  rw [indexOf?_getElem _ (sorted_nodup _ (sortDedup_sorted l)) c hc]
  rfl

/-- **`transform` raises on an unseen label**: if some entry is neither missing nor a class, the
result is the error `unseen` — and conversely `transform` succeeds whenever every entry is missing or
a class, and `unseen` is the only error it can produce. -/
theorem transform_unseen_raises (cls : List γ) (missing : γ → Bool) (y : List γ) :
    ((∃ x ∈ y, missing x = false ∧ x ∉ cls) → transformFlat cls missing y = .error .unseen) ∧
    ((∀ x ∈ y, missing x = true ∨ x ∈ cls) → ∃ es, transformFlat cls missing y = .ok es) := by
  refine ⟨?_, (transformFlat_ok_iff cls missing y).mpr⟩
  rintro ⟨x, hx, hm, hc⟩
  cases h : transformFlat cls missing y with
  | error e => rw [transformFlat_err cls missing y e h]
  | ok es =>
    exfalso
    rcases (transformFlat_ok_iff cls missing y).mp ⟨es, h⟩ x hx with h1 | h1
    · rw [hm] at h1; cases h1
    · exact hc h1

/-- **Round trip**: `inverse_transform(transform(y)) = y` for every `y` on which `transform` succeeds,
provided the missing test recognises exactly the sentinel (which `isUnlabeled_iff_sentinel` shows for
`is_unlabeled`). -/
theorem inverse_transform_roundtrip (cls : List γ) (missing : γ → Bool) (ml : γ) (y : List γ)
    (es : List Int) (hmiss : ∀ x, missing x = true ↔ x = ml)
    (h : transformFlat cls missing y = .ok es) :
    decodeFlat cls ml es = .ok y := by
  rw [decodeFlat_transformFlat cls missing ml y es h]
  congr 1
  conv => rhs; rw [← List.map_id y]
  apply List.map_congr_left
  intro x _
  by_cases hx : missing x = true
  · simp [(hmiss x).mp hx]
  · simp [hx]

/-- `inverse_transform` raises on a code outside `-1..K-1`. -/
theorem inverse_out_of_range (cls : List γ) (ml : γ) (e : Int)
    (he : e < -1 ∨ (cls.length : Int) ≤ e) : decode1 cls ml e = .error .unseen := by
  unfold decode1
  rcases he with he | he
  · rw [if_neg (by omega), if_pos (by omega)]
  · have h0 : ¬ e = -1 := by omega
    have h1 : ¬ e < 0 := by omega
    rw [if_neg h0, if_neg h1]
    have : cls[e.toNat]? = none := by
      apply List.getElem?_eq_none
      omega
    rw [this]

end Generic

/-! ## `ExtLabelEncoder` on labels -/

/-- `fit` stores the sorted, de-duplicated classes (given, or the labels present in `y`) and the
sentinel; its error branches are the validated ones. -/
theorem encoderFit_classes (mlArg : Option (Lbl α)) (classes : Option (ArrKind × List (Lbl α)))
    (y : Arr α) (f : Fitted α) (h : encoderFit mlArg classes y = .ok f) :
    mlArg = some f.ml ∧ f.classes.Pairwise (· < ·) ∧
    (∀ kc cls, classes = some (kc, cls) → (∀ x, x ∈ f.classes ↔ x ∈ cls) ∧ f.ml ∉ f.classes) ∧
    (classes = none → ∀ x, x ∈ f.classes ↔ (x ∈ y.flat ∧ x ≠ f.ml)) := by
  unfold encoderFit at h
  cases mlArg with
  | none => simp [checkMl] at h
  | some ml =>
    simp only [checkMl] at h
    cases hc : checkClassifierParams ml classes with
    | error e => simp [hc] at h
    | ok u =>
      simp only [hc] at h
      split at h
      · cases h
      split at h
      · cases h
      cases classes with
      | some p =>
        obtain ⟨kc, cls⟩ := p
        simp only at h
        injection h with h
        subst h
        refine ⟨rfl, sortDedup_sorted cls, ?_, (by intro h; cases h)⟩
        intro kc' cls' he
        injection he with he
        injection he with he1 he2
        subst he2
        refine ⟨mem_sortDedup cls, ?_⟩
        simp only [mem_sortDedup]
        intro hin
        unfold checkClassifierParams at hc
        simp only at hc
        split at hc
        · cases hc
        split at hc
        · cases hc
        split at hc
        · cases hc
        split at hc
        · cases hc
        split at hc
        · cases hc
        rename_i hany
        apply hany
        rw [List.any_eq_true]
        exact ⟨ml, hin, (isMissing_iff ml ml).mpr rfl⟩
      | none =>
        simp only at h
        cases hu : isUnlabeledArr false (some ml) y with
        | error e => simp [hu] at h
        | ok m =>
          simp only [hu] at h
          injection h with h
          subst h
          refine ⟨rfl, sortDedup_sorted _, (by intro kc cls he; cases he), ?_⟩
          intro _ x
          simp only [mem_sortDedup, List.mem_filter, notMissing_iff]

/-- **Refitting is history-free**: the outcome of a `fit` on an encoder object, and — when it
succeeds — the state every later `transform` / `inverse_transform` works with, depend only on the
arguments of that last `fit`, not on anything fitted or decoded before (`prev`, `prev'` arbitrary).
The correspondence checks exactly this on the implementation: `harness/props/c16.py` re-uses one
encoder object over sequences of `set_params → fit / fit_transform → transform → inverse_transform`
steps and compares every step with this history-free model of that step alone, so state surviving a
refit (e.g. a cached decoding table) shows up as a disagreement and a failed round trip. -/
theorem encoder_refit_history_free (prev prev' : Option (Fitted α)) (mlArg : Option (Lbl α))
    (classes : Option (ArrKind × List (Lbl α))) (y : Arr α) :
    (refit prev mlArg classes y).1 = (refit prev' mlArg classes y).1 ∧
    (refit prev mlArg classes y).1 = encoderFit mlArg classes y ∧
    (∀ f, encoderFit mlArg classes y = .ok f →
      (refit prev mlArg classes y).2 = some f ∧ (refit prev' mlArg classes y).2 = some f) ∧
    (∀ e, encoderFit mlArg classes y = .error e → (refit prev mlArg classes y).2 = prev) := by
  unfold refit
  cases h : encoderFit mlArg classes y with
  | ok f => simp
  | error e => simp

/-- **`ExtLabelEncoder`: `inverse_transform(transform(y))` reproduces `y`** for every array `y`
(1-d or 2-d, flat row-major) on which `transform` succeeds. -/
theorem encoder_roundtrip (f : Fitted α) (y : Arr α) (es : List Int)
    (h : encoderTransform f y = .ok es) : encoderInverse f es = .ok y.flat := by
  unfold encoderTransform at h
  split at h
  · cases h
  cases hu : isUnlabeledArr false (some f.ml) y with
  | error e => simp [hu] at h
  | ok m =>
    simp only [hu] at h
    exact inverse_transform_roundtrip f.classes (isMissing f.ml) f.ml y.flat es (isMissing_iff f.ml) h

/-- **`ExtLabelEncoder.transform`**: codes are `-1` exactly at the entries equal to the sentinel and
positions in the sorted `classes_` elsewhere. -/
theorem encoder_transform_range (f : Fitted α) (y : Arr α) (es : List Int)
    (h : encoderTransform f y = .ok es) :
    es.length = y.flat.length ∧
    ∀ i, ∀ hi : i < y.flat.length, ∀ hi' : i < es.length,
      (es[i] = -1 ↔ y.flat[i] = f.ml) ∧
      (y.flat[i] ≠ f.ml → ∃ c : Nat, es[i] = (c : Int) ∧ f.classes[c]? = some y.flat[i]) := by
  unfold encoderTransform at h
  split at h
  · cases h
  cases hu : isUnlabeledArr false (some f.ml) y with
  | error e => simp [hu] at h
  | ok m =>
    simp only [hu] at h
    obtain ⟨hl, hget⟩ := transformFlat_ok _ _ _ _ h
    refine ⟨hl, ?_⟩
    intro i hi hi'
    obtain ⟨_, he⟩ := hget i hi
    rcases encode1_spec _ _ _ _ he with ⟨hm, hc⟩ | ⟨hm, c, hc, -, hg⟩
    · have := (isMissing_iff f.ml y.flat[i]).mp hm
      exact ⟨⟨fun _ => this, fun _ => hc⟩, fun hne => absurd this hne⟩
    · have hne : y.flat[i] ≠ f.ml := by
        intro e
        rw [(isMissing_iff f.ml y.flat[i]).mpr e] at hm
        cases hm
      refine ⟨⟨fun e => ?_, fun e => absurd e hne⟩, fun _ => ⟨c, hc, hg⟩⟩
      rw [hc] at e
      omega

/-- **`ExtLabelEncoder.transform` raises `ValueError` on a label that is neither a class nor the
sentinel** (on arrays the missing-label check accepts). -/
theorem encoder_transform_unseen (f : Fitted α) (y : Arr α) (m : List Bool)
    (hs : ¬ (y.rows ≠ 0 ∧ y.cols = some 0))
    (hu : isUnlabeledArr false (some f.ml) y = .ok m)
    (x : Lbl α) (hx : x ∈ y.flat) (hne : x ≠ f.ml) (hc : x ∉ f.classes) :
    encoderTransform f y = .error .unseen := by
  unfold encoderTransform
  rw [if_neg (by simpa using hs)]
  simp only [hu]
  refine (transform_unseen_raises f.classes (isMissing f.ml) y.flat).1 ⟨x, hx, ?_, hc⟩
  cases hm : isMissing f.ml x with
  | false => rfl
  | true => exact absurd ((isMissing_iff f.ml x).mp hm) hne

/-! ## Non-vacuity: concrete instances -/

example : isUnlabeledArr (α := Int) false (some .nanv) ⟨.number, 3, none, [.num 0, .nanv, .num 2]⟩
    = .ok [false, true, false] := by decide

example : isUnlabeledArr (α := Int) false (some (.num (-1))) ⟨.number, 2, some 2, [.num 0, .num (-1), .num (-1), .num 5]⟩
    = .ok [false, true, true, false] := by decide

example : isUnlabeledArr (α := Int) false (some .nanv) ⟨.string, 1, none, [.str 0]⟩ = .error .typeError := by
  decide

example : unlabeledIndices2 (α := Int) false (some .none_) ⟨.object, 2, some 2, [.str 0, .none_, .none_, .str 5]⟩ 2
    = .ok [(0, 1), (1, 0)] := by decide

example : ∃ f, encoderFit (α := Int) (some (.str 9)) (some (.string, [.str 2, .str 0, .str 1]))
      ⟨.string, 1, none, [.str 0]⟩ = .ok f ∧
    encoderTransform f ⟨.string, 3, none, [.str 1, .str 9, .str 2]⟩ = .ok [1, -1, 2] ∧
    encoderInverse f [1, -1, 2] = .ok [.str 1, .str 9, .str 2] ∧
    encoderTransform f ⟨.string, 1, none, [.str 7]⟩ = .error .unseen :=
  ⟨⟨[.str 0, .str 1, .str 2], .str 9, .string⟩, by decide, by decide, by decide, by decide⟩

end Ska.C16
