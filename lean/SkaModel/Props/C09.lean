import SkaModel.Lemmas.Label
import Mathlib.Data.Int.Order.Basic

/-!
# C09 — results do not depend on how labels and missing labels are encoded

Property theorems only (the encoding algebra); helper lemmas are in `SkaModel/Lemmas/Label.lean`.

Setting: two label types `γ`, `γ'` (arbitrary linear orders — numbers, strings, `Lbl α` …), a
renaming `φ : γ → γ'` of the classes, an old sentinel `m : γ` and a new one `m' : γ'`.  The label
array `y` is re-encoded by `relabel φ m m'` (sentinel ↦ sentinel, label ↦ `φ label`), the class list
by `φ`.  "Set consistently" is: `φ` preserves and reflects `<` on the labels that occur
(`MonoOn φ L`, e.g. `0,1,2 ↦ 10,20,30 ↦ 'a','b','c'`), and the new sentinel is not the name of a
class (`φ x ≠ m'`).

What a strategy / classifier sees of the labels is `ExtLabelEncoder.transform` (integer codes) and
`is_unlabeled` (a mask); `encode_monotone_invariant` and `isUnlabeled_invariant` show both are
*identical* under the two encodings, so everything computed from them (indices, utilities,
probabilities) is identical — `factors_through_encoding` — and decoded predictions are the re-encoded
originals — `decode_relabel`, `predictions_reencoded`.  That a given strategy only looks at the
labels through these two functions is checked on the real code by paired runs (harness/props/c09.py).
-/

namespace Ska.C09
open Ska Ska.Label

variable {γ γ' : Type} [LinearOrder γ] [LinearOrder γ']

/-- `missing_label` test of an encoding with sentinel `m`. -/
def isSentinel (m : γ) (x : γ) : Bool := decide (x = m)

/-- The hypotheses "classes and missing_label are set consistently" for a class list and an array. -/
structure Consistent (φ : γ → γ') (m : γ) (m' : γ') (cls y : List γ) : Prop where
  /-- `φ` is strictly increasing on the labels that occur (classes and non-missing entries). -/
  mono : MonoOn φ (cls ++ y.filter (fun x => !decide (x = m)))
  /-- the new sentinel is not the new name of a label. -/
  fresh : ∀ x ∈ cls ++ y, x ≠ m → φ x ≠ m'
  /-- the old sentinel is not a class (`check_classifier_params`). -/
  notClass : m ∉ cls

/-- **The missing-label mask is the same under both encodings.** -/
theorem isUnlabeled_invariant (φ : γ → γ') (m : γ) (m' : γ') (y : List γ)
    (hfresh : ∀ x ∈ y, x ≠ m → φ x ≠ m') :
    (y.map (relabel φ m m')).map (isSentinel m') = y.map (isSentinel m) := by
  rw [List.map_map]
  apply List.map_congr_left
  intro x hx
  simp only [Function.comp, isSentinel]
  by_cases e : x = m
  · simp [e, relabel]
  · have := (relabel_eq_sentinel φ m m' x (hfresh x hx)).not.mpr e
    simp [e, this]

/-- On `Lbl` the model's `isMissing` is this sentinel test, so the theorem applies to `is_unlabeled`
for every supported sentinel (NaN, None, numbers, strings). -/
theorem isMissing_eq_isSentinel {α : Type} [LinearOrder α] (ml x : Lbl α) :
    isMissing ml x = isSentinel ml x := by
  unfold isSentinel
  by_cases h : x = ml
  · simp [h, (isMissing_iff ml ml).mpr rfl]
  · have : isMissing ml x = false := by
      cases hm : isMissing ml x with
      | false => rfl
      | true => exact absurd ((isMissing_iff ml x).mp hm) h
    simp [h, this]

/-- The sorted class list of the renamed classes is the renamed sorted class list: class `c` keeps
its index. -/
theorem classes_relabel (φ : γ → γ') (cls : List γ) (h : MonoOn φ cls) :
    sortDedup (cls.map φ) = (sortDedup cls).map φ :=
  sortDedup_map φ cls h

/-- **The encoded array is identical**: for every strictly increasing relabeling `φ` of the classes
and any two sentinels, encoding the relabeled array with the relabeled classes gives exactly the
codes of the original (including the same `unseen label` error when `y` contains a non-class). -/
theorem encode_monotone_invariant (φ : γ → γ') (m : γ) (m' : γ') (cls y : List γ)
    (h : Consistent φ m m' cls y) :
    transformFlat (sortDedup (cls.map φ)) (isSentinel m') (y.map (relabel φ m m')) =
      transformFlat (sortDedup cls) (isSentinel m) y := by
  have hmc : MonoOn φ cls := h.mono.mono (fun x hx => List.mem_append_left _ hx)
  rw [classes_relabel φ cls hmc]
  apply transformFlat_relabel
  · intro x hx; exact h.fresh x (List.mem_append_right _ hx)
  · intro x hx hxm a ha
    apply h.mono.inj
    · apply List.mem_append_right
      simp [hx, hxm]
    · exact List.mem_append_left _ ((mem_sortDedup cls a).mp ha)

/-- the labels present in the relabeled array are the relabeled labels present in the original. -/
theorem present_labels_relabel (φ : γ → γ') (m : γ) (m' : γ') (y : List γ)
    (hfresh : ∀ x ∈ y, x ≠ m → φ x ≠ m') :
    (y.map (relabel φ m m')).filter (fun x => !isSentinel m' x) =
      (y.filter (fun x => !isSentinel m x)).map φ := by
  induction y with
  | nil => simp
  | cons x xs ih =>
    have ih' := ih (fun z hz => hfresh z (List.mem_cons_of_mem _ hz))
    simp only [List.map_cons, List.filter_cons, isSentinel] at ih' ⊢
    by_cases e : x = m
    · have : relabel φ m m' x = m' := (relabel_eq_sentinel φ m m' x (hfresh x (List.mem_cons_self ..))).mpr e
      subst e
      simp [this, ih']
    · have h2 : relabel φ m m' x = φ x := by simp [relabel, e]
      have h3 : ¬ φ x = m' := hfresh x (List.mem_cons_self ..) e
      simp [e, h2, h3, ih']

/-- Same with the classes inferred from the data (`classes=None`): the relabeled array's inferred
classes are the relabeled inferred classes, and the codes are identical. -/
theorem encode_inferred_invariant (φ : γ → γ') (m : γ) (m' : γ') (y : List γ)
    (hmono : MonoOn φ (y.filter (fun x => !isSentinel m x)))
    (hfresh : ∀ x ∈ y, x ≠ m → φ x ≠ m') :
    transformFlat (sortDedup ((y.map (relabel φ m m')).filter (fun x => !isSentinel m' x)))
        (isSentinel m') (y.map (relabel φ m m')) =
      transformFlat (sortDedup (y.filter (fun x => !isSentinel m x))) (isSentinel m) y := by
  rw [present_labels_relabel φ m m' y hfresh]
  apply encode_monotone_invariant
  refine ⟨?_, ?_, ?_⟩
  · apply hmono.mono
    intro x hx
    rcases List.mem_append.mp hx with h | h
    · exact h
    · simpa [isSentinel] using h
  · intro x hx hxm
    rcases List.mem_append.mp hx with h | h
    · exact hfresh x (List.mem_filter.mp h).1 hxm
    · exact hfresh x h hxm
  · simp [isSentinel]

/-! ## decoding -/

/-- **Decoding under the new encoding gives the re-encoded original**: `inverse_transform` of the same
codes with the relabeled classes / new sentinel is `relabel` of the old result (same error behaviour). -/
theorem decode_relabel (φ : γ → γ') (m : γ) (m' : γ') (cls : List γ)
    (hmono : MonoOn φ cls) (hm : m ∉ cls) (es : List Int) :
    decodeFlat (sortDedup (cls.map φ)) m' es =
      (decodeFlat (sortDedup cls) m es).map (List.map (relabel φ m m')) := by
  rw [classes_relabel φ cls hmono]
  exact decodeFlat_relabel φ m m' (sortDedup cls) (fun h => hm ((mem_sortDedup cls m).mp h)) es

/-- A class prediction (a code `≥ 0`) decodes to `φ` of the original prediction. -/
theorem decode_class_relabel (φ : γ → γ') (m : γ) (m' : γ') (cls : List γ)
    (hmono : MonoOn φ cls) (c : Nat) (x : γ) (h : decode1 (sortDedup cls) m (c : Int) = .ok x) :
    decode1 (sortDedup (cls.map φ)) m' (c : Int) = .ok (φ x) := by
  rw [classes_relabel φ cls hmono]
  unfold decode1 at h ⊢
  have h1 : ¬ ((c : Int) = -1) := by omega
  have h2 : ¬ ((c : Int) < 0) := by omega
  rw [if_neg h1, if_neg h2] at h ⊢
  rw [Int.toNat_natCast] at h ⊢
  rw [List.getElem?_map]
  cases hc : (sortDedup cls)[c]? with
  | none => simp [hc] at h
  | some v =>
    simp only [hc] at h
    injection h with h
    subst h
    simp

/-! ## everything computed from the encoding is invariant -/

/-- **Factoring through the encoding**: any computation `g` that sees the labels only through the
encoder output and the missing-label mask — selected indices, utilities, predicted probabilities —
gives the same result under both encodings. -/
theorem factors_through_encoding {R : Type} (g : Except LErr (List Int) → List Bool → R)
    (φ : γ → γ') (m : γ) (m' : γ') (cls y : List γ) (h : Consistent φ m m' cls y) :
    g (transformFlat (sortDedup (cls.map φ)) (isSentinel m') (y.map (relabel φ m m')))
        ((y.map (relabel φ m m')).map (isSentinel m')) =
      g (transformFlat (sortDedup cls) (isSentinel m) y) (y.map (isSentinel m)) := by
  rw [encode_monotone_invariant φ m m' cls y h,
    isUnlabeled_invariant φ m m' y (fun x hx => h.fresh x (List.mem_append_right _ hx))]

/-- **Predictions are the re-encoded originals**: if the predicted codes are any function `p` of the
encoded training labels and the mask, the decoded predictions under the new encoding are `relabel` of
the decoded predictions under the old one. -/
theorem predictions_reencoded (p : Except LErr (List Int) → List Bool → List Int)
    (φ : γ → γ') (m : γ) (m' : γ') (cls y : List γ) (h : Consistent φ m m' cls y) :
    decodeFlat (sortDedup (cls.map φ)) m'
        (p (transformFlat (sortDedup (cls.map φ)) (isSentinel m') (y.map (relabel φ m m')))
          ((y.map (relabel φ m m')).map (isSentinel m'))) =
      (decodeFlat (sortDedup cls) m
        (p (transformFlat (sortDedup cls) (isSentinel m) y) (y.map (isSentinel m)))).map
          (List.map (relabel φ m m')) := by
  rw [factors_through_encoding p φ m m' cls y h]
  exact decode_relabel φ m m' cls (h.mono.mono (fun x hx => List.mem_append_left _ hx)) h.notClass _

/-! ## cost matrices -/

/-- **The cost-matrix permutation of `SkactivemlClassifier._validate_data` is invariant**:
`cost_matrix[argsort(classes)][:, argsort(classes)]` is the same matrix for the renamed classes. -/
theorem costMatrix_perm_invariant {β : Type} [Inhabited β] (φ : γ → γ') (cls : List γ)
    (hmono : MonoOn φ cls) (c : List (List β)) :
    permuteMatrix c (argsort (cls.map φ)) = permuteMatrix c (argsort cls) := by
  rw [argsort_map φ cls hmono]

/-! ## Non-vacuity: the encodings used by the paired runs -/

section Examples
open Lbl

/-- `0,1,2 / NaN  ↦  'a','b','c' / None` on `Lbl Int` (strings as codes 0,1,2). -/
def numToStr : Lbl Int → Lbl Int
  | .num x => .str x
  | l => l

example : Consistent numToStr (.nanv : Lbl Int) .none_ [.num 0, .num 1, .num 2]
    [.num 1, .nanv, .num 0, .num 2, .nanv] := by
  refine ⟨?_, ?_, by decide⟩
  · intro a ha b hb
    simp at ha hb
    rcases ha with rfl | rfl | rfl | rfl | rfl | rfl <;> rcases hb with rfl | rfl | rfl | rfl | rfl | rfl <;> decide
  · intro x hx hne
    simp at hx
    rcases hx with rfl | rfl | rfl | rfl | rfl | rfl | rfl | rfl <;> decide

/-- `0,1,2 / NaN  ↦  10,20,30 / -1`. -/
def times10 : Lbl Int → Lbl Int
  | .num x => .num (10 * x + 10)
  | l => l

example : transformFlat (sortDedup ([Lbl.num 2, .num 0, .num 1].map times10)) (isSentinel (.num (-1)))
      ([Lbl.num 1, .nanv, .num 0, .num 2].map (relabel times10 .nanv (.num (-1)))) = .ok [1, -1, 0, 2] ∧
    transformFlat (sortDedup [Lbl.num 2, .num 0, .num (1 : Int)]) (isSentinel .nanv)
      [Lbl.num 1, .nanv, .num 0, .num 2] = .ok [1, -1, 0, 2] := by decide

example : argsort [Lbl.str 2, .str 0, .str (1 : Int)] = [1, 2, 0] ∧
    argsort ([Lbl.str 2, .str 0, .str (1 : Int)].map times10) = [1, 2, 0] := by decide

end Examples

end Ska.C09
