import SkaModel.Core.SeqChoice
import SkaModel.Props.C01seq
import Mathlib.Algebra.Order.Field.Basic
import Mathlib.Tactic.Linarith

/-!
# C01 / C02 for the strategies that draw their batch (`Badge`, `Falcun`) or shrink a list (`GreedySampling*`)

* `choiceIdx_spec`: numpy's `RandomState.choice(p=…)` (cumulative sums, normalisation by the last one,
  `searchsorted(u, side='right')`) returns a position that carries **positive** weight — for every weight
  vector without negative entries and with positive total, and every uniform draw `0 ≤ u < 1`.
* `choiceSeq_valid`: hence **any** loop that zeroes the weights of its earlier picks before drawing (the *zero
  discipline*, a decidable condition the harness evaluates on the vectors captured from the real `choice`
  calls) returns pairwise distinct positions inside the weight vector, each with positive weight (so its
  utilities entry is a number, not NaN) — for every batch length, all weights, all draws.
* `shrinkSeq_valid`: the shrinking-list loop of `_greedy_sampling` returns pairwise distinct members of the
  initial candidate list, each attaining the maximum of the scores of the candidates still remaining.

The weight / score vectors are oracles (strategy-specific numerics); the per-strategy hypotheses are checked
on every run against the arrays actually passed to `choice` / `rand_argmax`.
-/

namespace Ska.C01choice
open Ska Ska.Seq Ska.C18

section choice
variable {α : Type} [Field α] [LinearOrder α] [IsStrictOrderedRing α]

theorem foldl_add_nonneg (l : List α) (acc : α) (h : ∀ x ∈ l, 0 ≤ x) : acc ≤ l.foldl (· + ·) acc := by
  induction l generalizing acc with
  | nil => simp
  | cons x xs ih =>
    simp only [List.foldl_cons]
    have hx : 0 ≤ x := h x (by simp)
    have := ih (acc + x) (fun y hy => h y (by simp [hy]))
    linarith

/-- the search stops inside the list, at a position of positive weight -/
theorem searchFrom_spec (s u : α) (hs : 0 < s) (l : List α) :
    ∀ acc : α, (∀ x ∈ l, 0 ≤ x) → acc / s ≤ u → u < (l.foldl (· + ·) acc) / s →
    ∃ v, l[searchFrom s u acc l]? = some v ∧ 0 < v := by
  induction l with
  | nil =>
    intro acc _ h1 h2
    simp only [List.foldl_nil] at h2
    exact absurd h2 (not_lt.mpr h1)
  | cons x xs ih =>
    intro acc hnn h1 h2
    by_cases hc : u < (acc + x) / s
    · have hk : searchFrom s u acc (x :: xs) = 0 := by simp [searchFrom, hc]
      rw [hk]
      refine ⟨x, by simp, ?_⟩
      have : acc / s < (acc + x) / s := lt_of_le_of_lt h1 hc
      have := (div_lt_div_iff_of_pos_right hs).mp this
      linarith
    · have hk : searchFrom s u acc (x :: xs) = searchFrom s u (acc + x) xs + 1 := by simp [searchFrom, hc]
      rw [hk]
      obtain ⟨v, hv, hpos⟩ := ih (acc + x) (fun y hy => hnn y (by simp [hy])) (not_lt.mp hc)
        (by simpa [List.foldl_cons] using h2)
      exact ⟨v, by simpa using hv, hpos⟩

/-- **`choice(p=…)` returns a position with positive weight.** -/
theorem choiceIdx_spec (p : List α) (u : α) (hnn : ∀ x ∈ p, 0 ≤ x) (hs : 0 < total p)
    (hu0 : 0 ≤ u) (hu1 : u < 1) :
    ∃ v, p[choiceIdx p u]? = some v ∧ 0 < v := by
  unfold choiceIdx
  apply searchFrom_spec (total p) u hs p 0 hnn
  · simpa using hu0
  · have : total p / total p = 1 := div_self (ne_of_gt hs)
    unfold total at this ⊢
    rw [this]; exact hu1

omit [IsStrictOrderedRing α] in
/-- the Boolean precondition evaluated by the driver is the hypothesis of `choiceIdx_spec` -/
theorem probOkB_iff (p : List α) (u : α) :
    probOkB p u = true ↔ (∀ x ∈ p, 0 ≤ x) ∧ 0 < total p ∧ 0 ≤ u ∧ u < 1 := by
  unfold probOkB
  simp only [Bool.and_eq_true, List.all_eq_true, Bool.not_eq_true', decide_eq_false_iff_not, not_lt,
    decide_eq_true_eq, and_assoc]

omit [IsStrictOrderedRing α] in
theorem notPosAt_false_of_pos (p : List α) (j : Nat) (v : α) (h : p[j]? = some v) (hp : 0 < v) :
    notPosAt p j = false := by
  unfold notPosAt
  rw [h]
  simp [hp]

/-- **Zero-disciplined sequential draws return distinct positions of positive weight.** -/
theorem choiceSeq_aux (rows : List (List α)) (us : List α) :
    ∀ earlier : List Nat, rows.length = us.length →
    (∀ k, ∀ hk : k < rows.length, ∀ hk' : k < us.length, probOkB rows[k] us[k] = true) →
    zeroOkB earlier rows (choicePicks rows us) = true →
    (∀ p ∈ choicePicks rows us, p ∉ earlier) ∧ (choicePicks rows us).Nodup ∧
    (∀ k, ∀ hk : k < rows.length, ∀ hp : k < (choicePicks rows us).length,
        ∃ v, rows[k][(choicePicks rows us)[k]]? = some v ∧ 0 < v) := by
  induction rows generalizing us with
  | nil =>
    intro earlier hlen _ _
    cases us with
    | nil => simp [choicePicks]
    | cons n ns => simp at hlen
  | cons row rows ih =>
    intro earlier hlen hrows hzero
    cases us with
    | nil => simp at hlen
    | cons u us =>
      have h0 := hrows 0 (by simp) (by simp)
      simp only [List.getElem_cons_zero] at h0
      obtain ⟨hnn, hs, hu0, hu1⟩ := (probOkB_iff row u).mp h0
      obtain ⟨v, hv, hpos⟩ := choiceIdx_spec row u hnn hs hu0 hu1
      have hpicks : choicePicks (row :: rows) (u :: us) = choiceIdx row u :: choicePicks rows us := by
        simp [choicePicks]
      rw [hpicks] at hzero ⊢
      simp only [zeroOkB, Bool.and_eq_true] at hzero
      obtain ⟨hz0, hzrest⟩ := hzero
      have hfresh : choiceIdx row u ∉ earlier := by
        intro hin
        have := List.all_eq_true.mp hz0 _ hin
        rw [notPosAt_false_of_pos row _ v hv hpos] at this
        cases this
      have hrows' : ∀ k, ∀ hk : k < rows.length, ∀ hk' : k < us.length, probOkB rows[k] us[k] = true := by
        intro k hk hk'
        have := hrows (k+1) (by simpa using hk) (by simpa using hk')
        simpa using this
      obtain ⟨i1, i2, i3⟩ := ih us (earlier ++ [choiceIdx row u]) (by simpa using hlen) hrows' hzrest
      refine ⟨?_, ?_, ?_⟩
      · intro p hp'
        rcases List.mem_cons.mp hp' with rfl | hp'
        · exact hfresh
        · intro hin
          exact i1 p hp' (List.mem_append_left _ hin)
      · rw [List.nodup_cons]
        refine ⟨?_, i2⟩
        intro hin
        exact i1 _ hin (List.mem_append_right _ (List.mem_singleton.mpr rfl))
      · intro k hk hp'
        cases k with
        | zero => exact ⟨v, by simpa using hv, hpos⟩
        | succ k =>
          have := i3 k (by simpa using hk) (by simpa using hp')
          simpa using this

/-- The statement used by the check.  `first` are picks made before the first draw (Badge takes the arg-max of
its first weight vector); the drawn positions are pairwise distinct, distinct from `first`, inside their
weight vector and of positive weight. -/
theorem choiceSeq_valid (first : List Nat) (rows : List (List α)) (us : List α)
    (hfirst : first.Nodup) (hlen : rows.length = us.length)
    (hrows : ∀ k, ∀ hk : k < rows.length, ∀ hk' : k < us.length, probOkB rows[k] us[k] = true)
    (hzero : zeroOkB first rows (choicePicks rows us) = true) :
    (choicePicks rows us).length = rows.length ∧ (first ++ choicePicks rows us).Nodup ∧
    (∀ k, ∀ hk : k < rows.length, ∀ hp : k < (choicePicks rows us).length,
        ∃ v, rows[k][(choicePicks rows us)[k]]? = some v ∧ 0 < v) := by
  obtain ⟨h1, h2, h3⟩ := choiceSeq_aux rows us first hlen hrows hzero
  refine ⟨by simp [choicePicks]; omega, ?_, h3⟩
  rw [List.nodup_append]
  exact ⟨hfirst, h2, fun a ha b hb hab => h1 b hb (hab ▸ ha)⟩

/-- without the zero discipline the loop can repeat a pick (the seeded change `C01b` removes exactly this) -/
theorem undisciplined_draws_can_repeat :
    choicePicks (α := Rat) [[1, 1], [1, 1]] [0, 0] = [0, 0] ∧
    zeroOkB (α := Rat) [] [[1, 1], [1, 1]] [0, 0] = false := by decide +kernel

end choice

section shrink

theorem shrinkPicks_length (ps : List Nat) : ∀ remaining picks : List Nat,
    shrinkPicks remaining ps = some picks → picks.length = ps.length := by
  induction ps with
  | nil => intro r picks h; simp [shrinkPicks] at h; simp [← h]
  | cons p ps ih =>
    intro r picks h
    unfold shrinkPicks at h
    split at h
    · cases h
    · rename_i c hc
      cases hrec : shrinkPicks (r.eraseIdx p) ps with
      | none => simp [hrec] at h
      | some rest =>
        simp only [hrec, Option.map_some, Option.some.injEq] at h
        subst h
        simp [ih _ _ hrec]

/-- **The shrinking-list loop returns pairwise distinct members of the initial list.** -/
theorem shrinkPicks_valid (ps : List Nat) : ∀ remaining picks : List Nat, remaining.Nodup →
    shrinkPicks remaining ps = some picks → picks.Nodup ∧ ∀ c ∈ picks, c ∈ remaining := by
  induction ps with
  | nil => intro r picks _ h; simp [shrinkPicks] at h; subst h; simp
  | cons p ps ih =>
    intro r picks hnd h
    unfold shrinkPicks at h
    split at h
    · cases h
    · rename_i c hc
      cases hrec : shrinkPicks (r.eraseIdx p) ps with
      | none => simp [hrec] at h
      | some rest =>
        simp only [hrec, Option.map_some, Option.some.injEq] at h
        subst h
        have hp : p < r.length := by
          rcases Nat.lt_or_ge p r.length with h | h
          · exact h
          · rw [List.getElem?_eq_none h] at hc; cases hc
        have hcv : r[p] = c := by
          rw [List.getElem?_eq_getElem hp] at hc; exact Option.some.inj hc
        have hsub : ∀ x ∈ r.eraseIdx p, x ∈ r := fun x hx => List.mem_of_mem_eraseIdx hx
        obtain ⟨i1, i2⟩ := ih (r.eraseIdx p) rest (hnd.eraseIdx p) hrec
        refine ⟨?_, ?_⟩
        · rw [List.nodup_cons]
          refine ⟨?_, i1⟩
          intro hin
          obtain ⟨i, hne, hi⟩ := List.mem_eraseIdx_iff_getElem?.mp (i2 c hin)
          exact hne (((List.getElem?_inj hp hnd).mp (hc.trans hi.symm)).symm)
        · intro x hx
          rcases List.mem_cons.mp hx with rfl | hx
          · rw [← hcv]; exact List.getElem_mem hp
          · exact hsub x (i2 x hx)

variable {α : Type} [LinearOrder α]
variable {β : Type} [LinearOrder β] [Zero β]

/-- The statement used by the check: with one score per remaining candidate and positive noise, the loop
succeeds for every batch not larger than the list, and returns distinct members of the list. -/
theorem shrinkSeq_valid (remaining : List Nat) (rows : List (List (Option α))) (noises : List (List β))
    (picks : List Nat) (hnd : remaining.Nodup)
    (h : shrinkSeq remaining rows noises = some picks) :
    picks.length = min rows.length noises.length ∧ picks.Nodup ∧ ∀ c ∈ picks, c ∈ remaining := by
  unfold shrinkSeq at h
  have hl := shrinkPicks_length _ _ _ h
  obtain ⟨h1, h2⟩ := shrinkPicks_valid _ _ _ hnd h
  exact ⟨by simpa using hl, h1, h2⟩

/-- one step of the loop: the chosen position attains the maximum of the scores of the remaining candidates -/
theorem shrink_step_is_max (row : List (Option α)) (nz : List β)
    (hl : nz.length = row.length) (hp : ∀ x ∈ nz, 0 < x) (hs : 0 < countSome row) :
    ∃ m, nanmax row = some m ∧ row[randArgmax row nz]? = some (some m) := by
  obtain ⟨m, hm, hget, -⟩ := randArgmax_is_max_of_pos row nz hl hp hs
  exact ⟨m, hm, hget⟩

end shrink

/-! ### from positions to sample indices -/

/-- Positions in a duplicate-free candidate list (`unlbld_mapping`, `mapping`, …) translate to sample indices
without creating duplicates. -/
theorem map_positions_valid (space : List Nat) (hs : space.Nodup) (picks : List Nat) (hp : picks.Nodup)
    (hlt : ∀ p ∈ picks, p < space.length) :
    (picks.map (fun p => space.getD p 0)).length = picks.length ∧
    (picks.map (fun p => space.getD p 0)).Nodup ∧
    ∀ i ∈ picks.map (fun p => space.getD p 0), i ∈ space := by
  refine ⟨by simp, ?_, ?_⟩
  · have inj : ∀ a b, a < space.length → b < space.length → space.getD a 0 = space.getD b 0 → a = b := by
      intro a b h1 h2 hab
      exact (List.getD_inj h1 h2 hs).mp hab
    induction picks with
    | nil => simp
    | cons a as ih =>
      rw [List.nodup_cons] at hp
      rw [List.map_cons, List.nodup_cons]
      refine ⟨?_, ih hp.2 (fun p hp' => hlt p (by simp [hp']))⟩
      intro hin
      obtain ⟨c, hc, hceq⟩ := List.mem_map.mp hin
      have := inj c a (hlt c (by simp [hc])) (hlt a (by simp)) hceq
      exact hp.1 (this ▸ hc)
  · intro i hi
    obtain ⟨p, hp', rfl⟩ := List.mem_map.mp hi
    have h1 := hlt p hp'
    simp only [List.getD_eq_getElem?_getD, List.getElem?_eq_getElem h1, Option.getD_some]
    exact List.getElem_mem h1

/-! ### non-vacuity -/

example : probOkB (α := Rat) [0, 1/2, 0, 1/2] (3/4) = true ∧ choiceIdx (α := Rat) [0, 1/2, 0, 1/2] (3/4) = 3 := by
  decide +kernel
example : zeroOkB (α := Rat) [3] [[1/2, 1/2, 0, 0], [0, 1, 0, 0]] (choicePicks [[1/2, 1/2, 0, 0], [0, 1, 0, 0]] [0, 1/2]) = true := by
  decide +kernel
example : shrinkPicks [4, 7, 9] [1, 1] = some [7, 9] := by decide

end Ska.C01choice
