import SkaModel.Lemmas.StreamGen
import SkaModel.Lemmas.StreamSim
import SkaModel.Props.C03
import SkaModel.Props.C04
import SkaModel.Props.C10

/-!
# C03 / C04 / C10 for the model *generated from the current Python source*

`SkaModel/Gen/StreamBM.lean` is re-written by `harness/translate/pystream.py` from
`skactiveml/stream/budgetmanager/*.py` and `skactiveml/stream/_stream_baselines.py` on every run of the checks
C03, C04 and C10.  This file packages the generated `query_by_utility` / `query` / `update` functions of each class
as a manager over *objects* (`gFixedMgr`, …), states that it **simulates** the hand-written model
(`*_sim`, from the bridging theorems of `Lemmas/StreamGen.lean`, which hold for all inputs), and transfers the property
theorems of `Props/C03.lean`, `C04.lean`, `C10.lean` to it.  A change of the Python source that alters what a
method computes changes the generated definitions, and the corresponding `*_sim` theorem (or the bridging lemma
under it) no longer checks.

Property theorems only (helper lemmas: `Lemmas/StreamGen.lean`, `Lemmas/StreamSim.lean`).
-/

set_option linter.unusedSectionVars false

namespace Ska.StreamGenProps
open Ska Ska.Budget Ska.PyRt Ska.Gen.BM Ska.StreamGen Ska.StreamSim

section Managers
variable {α : Type} [Add α] [Sub α] [Mul α] [Div α] [LT α] [DecidableLT α] [OfNat α 0] [OfNat α 1] [NatCast α]
variable (nrm uni : Nat → α) (qf : List (Option α) → Option α)

/-! ## the generated methods as managers over objects -/

def gFixedMgr : Mgr (ZObj α) (Option α) :=
  { query := FixedUncertaintyBudgetManager.query_by_utility nrm uni qf,
    update := fun o c idx => FixedUncertaintyBudgetManager.update nrm uni qf o c.length idx }
def gVarMgr : Mgr (ZObj α) (Option α) :=
  { query := VariableUncertaintyBudgetManager.query_by_utility nrm uni qf,
    update := fun o c idx => VariableUncertaintyBudgetManager.update nrm uni qf o c.length idx }
def gRandVarMgr : Mgr (ZObj α) (Option α) :=
  { query := RandomVariableUncertaintyBudgetManager.query_by_utility nrm uni qf,
    update := fun o c idx => RandomVariableUncertaintyBudgetManager.update nrm uni qf o c.length idx }
def gSplitMgr : Mgr (ZObj α) (Option α) :=
  { query := SplitBudgetManager.query_by_utility nrm uni qf,
    update := fun o c idx => SplitBudgetManager.update nrm uni qf o c.length idx }
def gRandomMgr : Mgr (ZObj α) (Option α) :=
  { query := RandomBudgetManager.query_by_utility nrm uni qf,
    update := fun o c idx => RandomBudgetManager.update nrm uni qf o c.length idx }
def gDbMgr : Mgr (DObj α) (Option α) :=
  { query := DensityBasedSplitBudgetManager.query_by_utility nrm uni qf,
    update := fun o c idx => DensityBasedSplitBudgetManager.update nrm uni qf o c.length idx }
def gBiqfMgr : Mgr (QObj α) (Option α) :=
  { query := BalancedIncrementalQuantileFilter.query_by_utility nrm uni qf,
    update := fun o c idx => BalancedIncrementalQuantileFilter.update nrm uni qf o c.length idx c }
def gSrsMgr : Mgr (CObj α) Unit :=
  { query := fun o c => let r := StreamRandomSampling.query nrm uni qf o c.length; (r.1.1, r.2),
    update := fun o c idx => StreamRandomSampling.update nrm uni qf o c.length idx }
def gPerMgr : Mgr (CObj α) Unit :=
  { query := fun o c => let r := PeriodicSampling.query nrm uni qf o c.length; (r.1.1, r.2),
    update := fun o c idx => PeriodicSampling.update nrm uni qf o c.length idx }

/-! ## tie: every generated manager simulates the hand-written model of its class -/

/-- FixedUncertaintyBudgetManager as translated = `fixedMgr` (for every object whose parameters are `p`). -/
theorem fixed_sim (p : ZParams α) : Sim (gFixedMgr nrm uni qf) (fixedMgr p) zs zput (fun o => zp o = p) where
  query_eq o xs ho := by subst ho; exact fixed_query_eq nrm uni qf o xs
  update_eq o xs idx ho := by subst ho; exact fixed_update_eq nrm uni qf o xs.length idx
  inv_put o s ho := by rw [zp_zput]; exact ho
  abs_put := zs_zput
  put_abs := zput_zs
  put_put := zput_zput

theorem var_sim (p : ZParams α) : Sim (gVarMgr nrm uni qf) (varMgr p) zs zput (fun o => zp o = p) where
  query_eq o xs ho := by subst ho; exact var_query_eq nrm uni qf o xs
  update_eq o xs idx ho := by subst ho; exact var_update_eq nrm uni qf o xs.length idx
  inv_put o s ho := by rw [zp_zput]; exact ho
  abs_put := zs_zput
  put_abs := zput_zs
  put_put := zput_zput

theorem randVar_sim (p : ZParams α) : Sim (gRandVarMgr nrm uni qf) (randVarMgr p nrm) zs zput (fun o => zp o = p) where
  query_eq o xs ho := by subst ho; exact randvar_query_eq nrm uni qf o xs
  update_eq o xs idx ho := by subst ho; exact randvar_update_eq nrm uni qf o xs.length idx
  inv_put o s ho := by rw [zp_zput]; exact ho
  abs_put := zs_zput
  put_abs := zput_zs
  put_put := zput_zput

theorem split_sim (p : ZParams α) : Sim (gSplitMgr nrm uni qf) (splitMgr p uni) zs zput (fun o => zp o = p) where
  query_eq o xs ho := by subst ho; exact split_query_eq nrm uni qf o xs
  update_eq o xs idx ho := by subst ho; exact split_update_eq nrm uni qf o xs.length idx
  inv_put o s ho := by rw [zp_zput]; exact ho
  abs_put := zs_zput
  put_abs := zput_zs
  put_put := zput_zput

theorem random_sim (p : ZParams α) : Sim (gRandomMgr nrm uni qf) (randomMgr p uni) zs zput (fun o => zp o = p) where
  query_eq o xs ho := by subst ho; exact random_query_eq nrm uni qf o xs
  update_eq o xs idx ho := by subst ho; exact random_update_eq nrm uni qf o xs.length idx
  inv_put o s ho := by rw [zp_zput]; exact ho
  abs_put := zs_zput
  put_abs := zput_zs
  put_put := zput_zput

theorem dbSplit_sim (p : DParams α) : Sim (gDbMgr nrm uni qf) (dbMgr p nrm) ds dput (fun o => dp o = p) where
  query_eq o xs ho := by subst ho; exact db_query_eq nrm uni qf o xs
  update_eq o xs idx ho := by subst ho; exact db_update_eq nrm uni qf o xs.length idx
  inv_put o s ho := by rw [dp_dput]; exact ho
  abs_put := ds_dput
  put_abs := dput_ds
  put_put := dput_dput

theorem biqf_sim (p : QParams α) : Sim (gBiqfMgr nrm uni qf) (biqfMgr p qf) qs qput (fun o => qp o = p) where
  query_eq o xs ho := by subst ho; exact biqf_query_eq nrm uni qf o xs
  update_eq o xs idx ho := by subst ho; exact biqf_update_eq nrm uni qf o xs.length idx xs
  inv_put o s ho := by subst ho; rfl
  abs_put o s := rfl
  put_abs o := by cases o; rfl
  put_put o s s' := rfl

theorem streamRandom_sim (allow : Bool) (b : α) :
    Sim (gSrsMgr nrm uni qf) (srsMgr allow b uni) cs cput (fun o => o.allow_exceeding_budget = allow ∧ o.budget_ = b) where
  query_eq o xs ho := by
    obtain ⟨h1, h2⟩ := ho
    subst h1; subst h2
    simp only [gSrsMgr, srsMgr, srs_query_eq]
  update_eq o xs idx ho := by simp only [gSrsMgr, srsMgr, srs_update_eq]
  inv_put o s ho := ho
  abs_put o s := rfl
  put_abs o := by cases o; rfl
  put_put o s s' := rfl

theorem periodic_sim (b : α) : Sim (gPerMgr nrm uni qf) (perMgr b) cs cput (fun o => o.budget_ = b) where
  query_eq o xs ho := by
    subst ho
    simp only [gPerMgr, perMgr, per_query_eq]
  update_eq o xs idx ho := by simp only [gPerMgr, perMgr, per_update_eq]
  inv_put o s ho := ho
  abs_put o s := rfl
  put_abs o := by cases o; rfl
  put_put o s s' := rfl

/-! ## C03 — the translated `query` methods are pure -/

/-- **C03 on the translated source**: for every budget manager and both baseline strategies, the object returned by
the translated `query_by_utility` / `query` is the object it was called on (every attribute, the generator's cursor
included), for all objects, utilities / candidate counts and random streams. -/
theorem gen_queries_pure :
    PureQ (gFixedMgr nrm uni qf) ∧ PureQ (gVarMgr nrm uni qf) ∧ PureQ (gRandVarMgr nrm uni qf) ∧
    PureQ (gSplitMgr nrm uni qf) ∧ PureQ (gRandomMgr nrm uni qf) ∧ PureQ (gDbMgr nrm uni qf) ∧
    PureQ (gBiqfMgr nrm uni qf) ∧ PureQ (gSrsMgr nrm uni qf) ∧ PureQ (gPerMgr nrm uni qf) :=
  ⟨fun o xs => (fixed_sim nrm uni qf (zp o)).pure (C03.fixed_query_pure _) o rfl xs,
   fun o xs => (var_sim nrm uni qf (zp o)).pure (C03.variable_query_pure _) o rfl xs,
   fun o xs => (randVar_sim nrm uni qf (zp o)).pure (C03.randVar_query_pure _ nrm) o rfl xs,
   fun o xs => (split_sim nrm uni qf (zp o)).pure (C03.split_query_pure _ uni) o rfl xs,
   fun o xs => (random_sim nrm uni qf (zp o)).pure (C03.random_query_pure _ uni) o rfl xs,
   fun o xs => (dbSplit_sim nrm uni qf (dp o)).pure (C03.dbSplit_query_pure _ nrm) o rfl xs,
   fun o xs => (biqf_sim nrm uni qf (qp o)).pure (C03.biqf_query_pure _ qf) o rfl xs,
   fun o xs => (streamRandom_sim nrm uni qf o.allow_exceeding_budget o.budget_).pure
      (C03.streamRandom_query_pure _ _ uni) o ⟨rfl, rfl⟩ xs,
   fun o xs => (periodic_sim nrm uni qf o.budget_).pure (C03.periodic_query_pure _) o rfl xs⟩

/-- **C03, histories**: on the translated FixedUncertaintyBudgetManager (and likewise on every manager of
`gen_queries_pure`, through `C03.extra_queries_irrelevant`), extra `query_by_utility` calls anywhere in a history of
calls change neither the results of the other calls nor the final object. -/
theorem gen_extra_queries_irrelevant {ω ι : Type} (G : Mgr ω ι) (hG : PureQ G) (ops : List (Bool × Op ι))
    (hq : ∀ o ∈ ops, o.1 = true → isQueryOp o.2 = true) (o : ω) :
    ((runMarked G o ops).1.filter notExtra).map (·.2) = (runOps G o ((ops.filter notExtra).map (·.2))).1 ∧
    (runMarked G o ops).2 = (runOps G o ((ops.filter notExtra).map (·.2))).2 :=
  C03.extra_queries_irrelevant G hG ops hq o

/-! ## C10 — `update` commits what `query` simulated: any chunking of a stream gives the same labels and the same object -/

/-- **chunk invariance of the translated managers** (the deterministic ones and those whose draws are position
based, as the property lists them): two chunkings of one stream into `query → update` rounds grant the same
labels, end in the same object, and no `update` raises. -/
theorem gen_chunk_invariance_fixed (o : ZObj α) (c1 c2 : List (List (Option α))) (hc : c1.flatten = c2.flatten) :
    runChunked (gFixedMgr nrm uni qf) o c1 0 = runChunked (gFixedMgr nrm uni qf) o c2 0 ∧
      ∃ r, runChunked (gFixedMgr nrm uni qf) o c1 0 = .ok r :=
  (fixed_sim nrm uni qf (zp o)).chunk_invariance (C03.fixed_query_pure _) c1 c2 o rfl
    (C10.chunk_invariance_fixed (zp o) (zs o) c1 c2 hc)

theorem gen_chunk_invariance_variable (o : ZObj α) (c1 c2 : List (List (Option α))) (hc : c1.flatten = c2.flatten) :
    runChunked (gVarMgr nrm uni qf) o c1 0 = runChunked (gVarMgr nrm uni qf) o c2 0 ∧
      ∃ r, runChunked (gVarMgr nrm uni qf) o c1 0 = .ok r :=
  (var_sim nrm uni qf (zp o)).chunk_invariance (C03.variable_query_pure _) c1 c2 o rfl
    (C10.chunk_invariance_variable (zp o) (zs o) c1 c2 hc)

theorem gen_chunk_invariance_split (o : ZObj α) (c1 c2 : List (List (Option α))) (hc : c1.flatten = c2.flatten) :
    runChunked (gSplitMgr nrm uni qf) o c1 0 = runChunked (gSplitMgr nrm uni qf) o c2 0 ∧
      ∃ r, runChunked (gSplitMgr nrm uni qf) o c1 0 = .ok r :=
  (split_sim nrm uni qf (zp o)).chunk_invariance (C03.split_query_pure _ uni) c1 c2 o rfl
    (C10.chunk_invariance_split (zp o) uni (zs o) c1 c2 hc)

theorem gen_chunk_invariance_random (o : ZObj α) (c1 c2 : List (List (Option α))) (hc : c1.flatten = c2.flatten) :
    runChunked (gRandomMgr nrm uni qf) o c1 0 = runChunked (gRandomMgr nrm uni qf) o c2 0 ∧
      ∃ r, runChunked (gRandomMgr nrm uni qf) o c1 0 = .ok r :=
  (random_sim nrm uni qf (zp o)).chunk_invariance (C03.random_query_pure _ uni) c1 c2 o rfl
    (C10.chunk_invariance_random (zp o) uni (zs o) c1 c2 hc)

theorem gen_chunk_invariance_biqf (o : QObj α) (c1 c2 : List (List (Option α))) (hc : c1.flatten = c2.flatten) :
    runChunked (gBiqfMgr nrm uni qf) o c1 0 = runChunked (gBiqfMgr nrm uni qf) o c2 0 ∧
      ∃ r, runChunked (gBiqfMgr nrm uni qf) o c1 0 = .ok r :=
  (biqf_sim nrm uni qf (qp o)).chunk_invariance (C03.biqf_query_pure _ qf) c1 c2 o rfl
    (C10.chunk_invariance_biqf (qp o) qf (qs o) c1 c2 hc)

theorem gen_chunk_invariance_streamRandom (o : CObj α) (c1 c2 : List (List Unit)) (hc : c1.flatten = c2.flatten) :
    runChunked (gSrsMgr nrm uni qf) o c1 0 = runChunked (gSrsMgr nrm uni qf) o c2 0 ∧
      ∃ r, runChunked (gSrsMgr nrm uni qf) o c1 0 = .ok r :=
  (streamRandom_sim nrm uni qf o.allow_exceeding_budget o.budget_).chunk_invariance
    (C03.streamRandom_query_pure _ _ uni) c1 c2 o ⟨rfl, rfl⟩
    (C10.chunk_invariance_streamRandom o.allow_exceeding_budget o.budget_ uni (cs o) c1 c2 hc)

theorem gen_chunk_invariance_periodic (o : CObj α) (c1 c2 : List (List Unit)) (hc : c1.flatten = c2.flatten) :
    runChunked (gPerMgr nrm uni qf) o c1 0 = runChunked (gPerMgr nrm uni qf) o c2 0 ∧
      ∃ r, runChunked (gPerMgr nrm uni qf) o c1 0 = .ok r :=
  (periodic_sim nrm uni qf o.budget_).chunk_invariance (C03.periodic_query_pure _) c1 c2 o rfl
    (C10.chunk_invariance_periodic o.budget_ (cs o) c1 c2 hc)

/-- **update accepts every query result** (translated RandomVariableUncertaintyBudgetManager and
DensityBasedSplitBudgetManager, for which chunk invariance is not claimed): `update(candidates, query(...))`
never raises. -/
theorem gen_randVar_update_accepts_query (o : ZObj α) (us : List (Option α)) :
    ∃ o', (gRandVarMgr nrm uni qf).update ((gRandVarMgr nrm uni qf).query o us).2 us
      ((gRandVarMgr nrm uni qf).query o us).1 = .ok o' := by
  have h := randVar_sim nrm uni qf (zp o)
  have hp := h.pure (C03.randVar_query_pure _ nrm) o rfl us
  rw [hp, h.query_fst o rfl us, h.update_eq o us _ rfl]
  have := C10.randVar_update_accepts_query (zp o) nrm (zs o) us
  rw [C03.randVar_query_pure (zp o) nrm (zs o) us] at this
  rw [this]
  exact ⟨_, rfl⟩

theorem gen_dbSplit_update_accepts_query (o : DObj α) (us : List (Option α)) :
    ∃ o', (gDbMgr nrm uni qf).update ((gDbMgr nrm uni qf).query o us).2 us
      ((gDbMgr nrm uni qf).query o us).1 = .ok o' := by
  have h := dbSplit_sim nrm uni qf (dp o)
  have hp := h.pure (C03.dbSplit_query_pure _ nrm) o rfl us
  rw [hp, h.query_fst o rfl us, h.update_eq o us _ rfl]
  have := C10.dbSplit_update_accepts_query (dp o) nrm (ds o) us
  rw [C03.dbSplit_query_pure (dp o) nrm (ds o) us] at this
  rw [this]
  exact ⟨_, rfl⟩

end Managers

/-! ## C04 — the translated managers never overspend (ordered field, every stream, chunking, prefix) -/

section Bounds
variable {α : Type} [Field α] [LinearOrder α] [IsStrictOrderedRing α]
variable (nrm uni : Nat → α) (qf : List (Option α) → Option α)

/-- number of labels granted among the first `n` instances -/
def grantedBefore (granted : List Nat) (n : Nat) : Nat := (granted.filter (fun j => decide (j < n))).length

/-- **FixedUncertaintyBudgetManager as translated**: a fresh object (`u_t_ = 0`) grants at most
`budget*n + n/w + budget*w + 1` labels among the first `n` instances, whatever the utilities, however chunked. -/
theorem gen_fixed_budget_respected (o : ZObj α) (hw : 1 ≤ o.w) (hb : 0 < o.budget_) (h0 : o.u_t_ = 0)
    (chunks : List (List (Option α))) :
    ∃ r, runChunked (gFixedMgr nrm uni qf) o chunks 0 = .ok r ∧
      ∀ n, n ≤ chunks.flatten.length → ((grantedBefore r.1 n : Nat) : α) ≤ o.budget_ * n + n / o.w + o.budget_ * o.w + 1 := by
  have hs : zs o = { u := 0, theta := o.theta_, rng := o.rng } := by simp [zs, h0]
  refine (fixed_sim nrm uni qf (zp o)).transfer (C03.fixed_query_pure _) chunks o rfl (fun g => ∀ n, n ≤ chunks.flatten.length → ((grantedBefore g n : Nat) : α) ≤ o.budget_ * n + n / o.w + o.budget_ * o.w + 1) ?_
  rw [hs]; exact C04.fixed_budget_respected (zp o) hw hb o.theta_ o.rng chunks

theorem gen_variable_budget_respected (o : ZObj α) (hw : 1 ≤ o.w) (hb : 0 < o.budget_) (h0 : o.u_t_ = 0)
    (chunks : List (List (Option α))) :
    ∃ r, runChunked (gVarMgr nrm uni qf) o chunks 0 = .ok r ∧
      ∀ n, n ≤ chunks.flatten.length → ((grantedBefore r.1 n : Nat) : α) ≤ o.budget_ * n + n / o.w + o.budget_ * o.w + 1 := by
  have hs : zs o = { u := 0, theta := o.theta_, rng := o.rng } := by simp [zs, h0]
  refine (var_sim nrm uni qf (zp o)).transfer (C03.variable_query_pure _) chunks o rfl (fun g => ∀ n, n ≤ chunks.flatten.length → ((grantedBefore g n : Nat) : α) ≤ o.budget_ * n + n / o.w + o.budget_ * o.w + 1) ?_
  rw [hs]; exact C04.variable_budget_respected (zp o) hw hb o.theta_ o.rng chunks

theorem gen_randVar_budget_respected (o : ZObj α) (hw : 1 ≤ o.w) (hb : 0 < o.budget_) (h0 : o.u_t_ = 0)
    (chunks : List (List (Option α))) :
    ∃ r, runChunked (gRandVarMgr nrm uni qf) o chunks 0 = .ok r ∧
      ∀ n, n ≤ chunks.flatten.length → ((grantedBefore r.1 n : Nat) : α) ≤ o.budget_ * n + n / o.w + o.budget_ * o.w + 1 := by
  have hs : zs o = { u := 0, theta := o.theta_, rng := o.rng } := by simp [zs, h0]
  refine (randVar_sim nrm uni qf (zp o)).transfer (C03.randVar_query_pure _ nrm) chunks o rfl (fun g => ∀ n, n ≤ chunks.flatten.length → ((grantedBefore g n : Nat) : α) ≤ o.budget_ * n + n / o.w + o.budget_ * o.w + 1) ?_
  rw [hs]; exact C04.randVar_budget_respected (zp o) nrm hw hb o.theta_ o.rng chunks

theorem gen_split_budget_respected (o : ZObj α) (hw : 1 ≤ o.w) (hb : 0 < o.budget_) (h0 : o.u_t_ = 0)
    (chunks : List (List (Option α))) :
    ∃ r, runChunked (gSplitMgr nrm uni qf) o chunks 0 = .ok r ∧
      ∀ n, n ≤ chunks.flatten.length → ((grantedBefore r.1 n : Nat) : α) ≤ o.budget_ * n + n / o.w + o.budget_ * o.w + 1 := by
  have hs : zs o = { u := 0, theta := o.theta_, rng := o.rng } := by simp [zs, h0]
  refine (split_sim nrm uni qf (zp o)).transfer (C03.split_query_pure _ uni) chunks o rfl (fun g => ∀ n, n ≤ chunks.flatten.length → ((grantedBefore g n : Nat) : α) ≤ o.budget_ * n + n / o.w + o.budget_ * o.w + 1) ?_
  rw [hs]; exact C04.split_budget_respected (zp o) uni hw hb o.theta_ o.rng chunks

theorem gen_random_budget_respected (o : ZObj α) (hw : 1 ≤ o.w) (hb : 0 < o.budget_) (h0 : o.u_t_ = 0)
    (chunks : List (List (Option α))) :
    ∃ r, runChunked (gRandomMgr nrm uni qf) o chunks 0 = .ok r ∧
      ∀ n, n ≤ chunks.flatten.length → ((grantedBefore r.1 n : Nat) : α) ≤ o.budget_ * n + n / o.w + o.budget_ * o.w + 1 := by
  have hs : zs o = { u := 0, theta := o.theta_, rng := o.rng } := by simp [zs, h0]
  refine (random_sim nrm uni qf (zp o)).transfer (C03.random_query_pure _ uni) chunks o rfl (fun g => ∀ n, n ≤ chunks.flatten.length → ((grantedBefore g n : Nat) : α) ≤ o.budget_ * n + n / o.w + o.budget_ * o.w + 1) ?_
  rw [hs]; exact C04.random_budget_respected (zp o) uni hw hb o.theta_ o.rng chunks

/-- **DensityBasedSplitBudgetManager as translated**: a fresh object (`u_ = t_ = 0`) grants at most `budget*n + 1`. -/
theorem gen_dbSplit_bound (o : DObj α) (hb : 0 < o.budget_) (hu : o.u_ = 0) (ht : o.t_ = 0)
    (chunks : List (List (Option α))) :
    ∃ r, runChunked (gDbMgr nrm uni qf) o chunks 0 = .ok r ∧
      ∀ n, n ≤ chunks.flatten.length → ((grantedBefore r.1 n : Nat) : α) ≤ o.budget_ * n + 1 := by
  have hs : ds o = { u := 0, t := 0, theta := o.theta_, rng := o.rng } := by simp [ds, hu, ht]
  refine (dbSplit_sim nrm uni qf (dp o)).transfer (C03.dbSplit_query_pure _ nrm) chunks o rfl (fun g => ∀ n, n ≤ chunks.flatten.length → ((grantedBefore g n : Nat) : α) ≤ o.budget_ * n + 1) ?_
  rw [hs]; exact C04.dbSplit_bound (dp o) nrm hb o.theta_ o.rng chunks

/-- **PeriodicSampling as translated**: at most `budget*n`. -/
theorem gen_periodic_bound (o : CObj α) (hb : 0 < o.budget_) (h1 : o.observed_samples_ = 0) (h2 : o.queried_samples_ = 0)
    (chunks : List (List Unit)) :
    ∃ r, runChunked (gPerMgr nrm uni qf) o chunks 0 = .ok r ∧
      ∀ n, n ≤ chunks.flatten.length → ((grantedBefore r.1 n : Nat) : α) ≤ o.budget_ * n := by
  have hs : cs o = { obs := 0, qd := 0, rng := o.rng } := by simp [cs, h1, h2]
  refine (periodic_sim nrm uni qf o.budget_).transfer (C03.periodic_query_pure _) chunks o rfl (fun g => ∀ n, n ≤ chunks.flatten.length → ((grantedBefore g n : Nat) : α) ≤ o.budget_ * n) ?_
  rw [hs]; exact C04.periodic_bound o.budget_ hb o.rng chunks

/-- **StreamRandomSampling(allow_exceeding_budget=False) as translated**: at most `budget*n`. -/
theorem gen_randomSampling_strict_bound (o : CObj α) (hb : 0 < o.budget_) (ha : o.allow_exceeding_budget = false)
    (h1 : o.observed_samples_ = 0) (h2 : o.queried_samples_ = 0) (chunks : List (List Unit)) :
    ∃ r, runChunked (gSrsMgr nrm uni qf) o chunks 0 = .ok r ∧
      ∀ n, n ≤ chunks.flatten.length → ((grantedBefore r.1 n : Nat) : α) ≤ o.budget_ * n := by
  have hs : cs o = { obs := 0, qd := 0, rng := o.rng } := by simp [cs, h1, h2]
  refine (streamRandom_sim nrm uni qf false o.budget_).transfer (C03.streamRandom_query_pure _ _ uni) chunks o ⟨ha, rfl⟩ (fun g => ∀ n, n ≤ chunks.flatten.length → ((grantedBefore g n : Nat) : α) ≤ o.budget_ * n) ?_
  rw [hs]; exact C04.randomSampling_strict_bound o.budget_ hb uni o.rng chunks

/-- the hypotheses are satisfiable: a concrete fresh object over ℚ -/
example : ∃ o : ZObj ℚ, 1 ≤ o.w ∧ 0 < o.budget_ ∧ o.u_t_ = 0 :=
  ⟨{ w := 100, budget_ := 1/10, s := 1/100, v := 1/5, delta := 1, theta := 1, nclasses := 2, u_t_ := 0, theta_ := 1, rng := 0 },
   by norm_num, by norm_num, rfl⟩

end Bounds
end Ska.StreamGenProps
