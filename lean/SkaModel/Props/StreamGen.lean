import SkaModel.Gen.StreamBM

namespace Ska.StreamGen
open Ska Ska.Budget Ska.PyRt Ska.Gen.BM

section
variable {α : Type} [Add α] [Sub α] [Mul α] [Div α] [LT α] [DecidableLT α] [OfNat α 0] [OfNat α 1] [NatCast α]

def zp (o : ZObj α) : ZParams α := { w := o.w, b := o.budget_, s := o.s, v := o.v, nc := o.nclasses }
def zs (o : ZObj α) : ZState α := { u := o.u_t_, theta := o.theta_, rng := o.rng }
def zput (o : ZObj α) (s : ZState α) : ZObj α := { o with u_t_ := s.u, theta_ := s.theta, rng := s.rng }

omit [Add α] [Sub α] [Mul α] [Div α] [LT α] [DecidableLT α] [OfNat α 0] [OfNat α 1] [NatCast α] in
theorem zput_zs (o : ZObj α) : zput o (zs o) = o := by cases o; rfl

/-- a `for i, x in enumerate(map f xs)` loop that carries `L` refines `simLoop hb` on `xs` -/
theorem foldl_zipIdx_simLoop {L σ ι κ : Type} (body : L → κ × Nat → L) (hb : σ → ι → Bool × σ) (f : ι → κ)
    (proj : L → σ) (q : L → List Nat)
    (hproj : ∀ l x i, proj (body l (f x, i)) = (hb (proj l) x).2)
    (hq : ∀ l x i, q (body l (f x, i)) = if (hb (proj l) x).1 then q l ++ [i] else q l) :
    ∀ (xs : List ι) (l : L) (k : Nat),
      proj (((xs.map f).zipIdx k).foldl body l) = (simLoop hb (proj l) xs).2 ∧
      q (((xs.map f).zipIdx k).foldl body l) = q l ++ idxOf (simLoop hb (proj l) xs).1 k := by
  intro xs
  induction xs with
  | nil => intro l k; simp [simLoop, idxOf]
  | cons x xs ih =>
    intro l k
    simp only [List.map_cons, List.zipIdx_cons, List.foldl_cons, simLoop, idxOf]
    have h := ih (body l (f x, k)) (k + 1)
    rw [hproj, hq] at h
    refine ⟨h.1, ?_⟩
    rw [h.2]
    split <;> simp

omit [Add α] [Sub α] [Mul α] [Div α] [LT α] [DecidableLT α] [OfNat α 0] [OfNat α 1] [NatCast α] in
theorem lastB_append (xs : List Bool) (b : Bool) : lastB (xs ++ [b]) = b := by
  simp [lastB]

theorem fixed_query_eq (nrm uni : Nat → α) (qf) (o : ZObj α) (us : List (Option α)) :
    FixedUncertaintyBudgetManager.query_by_utility nrm uni qf o us
      = ((fixedQuery (zp o) (zs o) us).1, zput o (fixedQuery (zp o) (zs o) us).2) := by
  have h := foldl_zipIdx_simLoop
    (FixedUncertaintyBudgetManager.query_by_utility.loop1 nrm uni qf o)
    (fixedBody (zp o)) (fun u => leO (conf u) (1 / o.nclasses + o.budget_ * (1 - 1 / o.nclasses)))
    (fun l => ({ u := l.2.1, theta := o.theta_, rng := o.rng } : ZState α)) (fun l => l.2.2)
    (by
      intro l x i
      obtain ⟨bl, u, q⟩ := l
      simp only [FixedUncertaintyBudgetManager.query_by_utility.loop1, lastB_append, fixedBody, fixedTheta, zp, budgetLeft, nextU, b2f]
      by_cases h1 : u / o.w < o.budget_ <;> simp [h1])
    (by
      intro l x i
      obtain ⟨bl, u, q⟩ := l
      simp only [FixedUncertaintyBudgetManager.query_by_utility.loop1, lastB_append, fixedBody, fixedTheta, zp, budgetLeft, nextU, b2f]
      by_cases h1 : u / o.w < o.budget_ <;> simp [h1])
    us ([], o.u_t_, []) 0
  obtain ⟨h1, h2⟩ := h
  simp only [FixedUncertaintyBudgetManager.query_by_utility, fixedQuery, zQuery, List.map_map, zs, zput]
  simp only [Function.comp_def] 
  rw [h2]
  cases o; simp [zs]

end
end Ska.StreamGen
