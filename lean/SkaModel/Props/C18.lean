import SkaModel.Lemmas.Selection
import Mathlib.Data.Nat.Basic
import Mathlib.Data.Int.Order.Basic

/-!
# C18 — selection primitives pick true optima and well-formed batches

Property theorems only; helper lemmas are in `SkaModel/Lemmas/Selection.lean`.
All statements quantify over every utility vector (`List (Option α)`, `none` = NaN) over an
arbitrary linear order `α` (so `±inf`, negative values and ties are covered), every noise vector over
an arbitrary linear order `β` with a zero, every batch size.
-/

namespace Ska.C18
open Ska

variable {α : Type} [LinearOrder α]
variable {β : Type} [LinearOrder β] [Zero β]

/-- `u` with the entries at `picks` set to NaN (what `utilities[idx] = np.nan` does step by step). -/
def setNones (u : List (Option α)) (picks : List Nat) : List (Option α) :=
  picks.foldl (fun w j => w.set j none) u

/-! ## rand_argmax / rand_argmin -/

/-- Core fact behind both primitives: whatever optimum `m` the mask is built from, if some masked-in
position carries positive noise (and noise is never negative) the scan returns a masked-in position. -/
theorem argmax_masked_isOpt (m : Option α) (a : List (Option α)) (noise : List β)
    (hlen : noise.length = a.length) (hnn : ∀ n ∈ noise, 0 ≤ n)
    (hpos : ∃ i, ∃ hi : i < a.length, isOpt m a[i] = true ∧ 0 < noise[i]) :
    ∃ h : argmax (masked m a noise) < a.length, isOpt m a[argmax (masked m a noise)] = true := by
  obtain ⟨i, hi, hopt, hn⟩ := hpos
  have hne : masked m a noise ≠ [] := by
    intro h
    have := masked_length m a noise
    rw [h] at this
    simp at this
    omega
  obtain ⟨hlt, hge, -⟩ := argmax_spec (masked m a noise) hne
  have hlt' : argmax (masked m a noise) < a.length := by rw [masked_length] at hlt; exact hlt
  refine ⟨hlt', ?_⟩
  have hi' : i < (masked m a noise).length := by rw [masked_length]; exact hi
  have hmem : (masked m a noise)[i] ∈ masked m a noise := List.getElem_mem hi'
  have h1 := hge _ hmem
  rw [masked_getElem m a noise hlen i hi, masked_getElem m a noise hlen _ hlt'] at h1
  simp only [hopt, if_true] at h1
  cases hb : isOpt m a[argmax (masked m a noise)] with
  | true => rfl
  | false =>
    simp only [hb] at h1
    exact absurd (lt_of_lt_of_le hn h1) (lt_irrefl _)

/-- **rand_argmax returns the position of an exact maximum of the non-NaN entries** whenever some
maximal position carries positive noise (noise drawn by numpy lies in `[0,1)`). -/
theorem randArgmax_is_max (a : List (Option α)) (noise : List β) (m : α)
    (hlen : noise.length = a.length) (hnn : ∀ n ∈ noise, 0 ≤ n)
    (hm : nanmax a = some m)
    (hpos : ∃ i, ∃ hi : i < a.length, a[i] = some m ∧ 0 < noise[i]) :
    a[randArgmax a noise]? = some (some m) := by
  obtain ⟨i, hi, hai, hn⟩ := hpos
  have hopt : isOpt (some m) a[i] = true := (isOpt_iff _ _).mpr ⟨m, hai, rfl⟩
  obtain ⟨hlt, h⟩ := argmax_masked_isOpt (some m) a noise hlen hnn ⟨i, hi, hopt, hn⟩
  obtain ⟨v, hv, hmv⟩ := (isOpt_iff _ _).mp h
  simp only [Option.some.injEq] at hmv
  subst hmv
  unfold randArgmax
  rw [hm, List.getElem?_eq_getElem hlt, hv]

/-- With strictly positive noise everywhere (all but a 2⁻⁵³-probability corner of every draw) and at
least one non-NaN entry: the result is a maximal entry, in particular never a NaN position. -/
theorem randArgmax_is_max_of_pos (a : List (Option α)) (noise : List β)
    (hlen : noise.length = a.length) (hp : ∀ n ∈ noise, 0 < n) (hsome : 0 < countSome a) :
    ∃ m, nanmax a = some m ∧ a[randArgmax a noise]? = some (some m) ∧ ∀ v, some v ∈ a → v ≤ m := by
  obtain ⟨v, hv⟩ := (countSome_pos_iff a).mp hsome
  cases hm : nanmax a with
  | none => exact absurd ((nanmax_none_iff a).mp hm _ hv) (by simp)
  | some m =>
    obtain ⟨hmem, hge⟩ := nanmax_spec a m hm
    obtain ⟨i, hi, hai⟩ := List.getElem_of_mem hmem
    refine ⟨m, rfl, ?_, hge⟩
    refine randArgmax_is_max a noise m hlen (fun n hn => le_of_lt (hp n hn)) hm ⟨i, hi, hai, ?_⟩
    exact hp _ (List.getElem_mem _)

theorem randArgmin_is_min (a : List (Option α)) (noise : List β) (m : α)
    (hlen : noise.length = a.length) (hnn : ∀ n ∈ noise, 0 ≤ n)
    (hm : nanmin a = some m)
    (hpos : ∃ i, ∃ hi : i < a.length, a[i] = some m ∧ 0 < noise[i]) :
    a[randArgmin a noise]? = some (some m) := by
  obtain ⟨i, hi, hai, hn⟩ := hpos
  have hopt : isOpt (some m) a[i] = true := (isOpt_iff _ _).mpr ⟨m, hai, rfl⟩
  obtain ⟨hlt, h⟩ := argmax_masked_isOpt (some m) a noise hlen hnn ⟨i, hi, hopt, hn⟩
  obtain ⟨v, hv, hmv⟩ := (isOpt_iff _ _).mp h
  simp only [Option.some.injEq] at hmv
  subst hmv
  unfold randArgmin
  rw [hm, List.getElem?_eq_getElem hlt, hv]

theorem randArgmin_is_min_of_pos (a : List (Option α)) (noise : List β)
    (hlen : noise.length = a.length) (hp : ∀ n ∈ noise, 0 < n) (hsome : 0 < countSome a) :
    ∃ m, nanmin a = some m ∧ a[randArgmin a noise]? = some (some m) ∧ ∀ v, some v ∈ a → m ≤ v := by
  obtain ⟨v, hv⟩ := (countSome_pos_iff a).mp hsome
  cases hm : nanmin a with
  | none => exact absurd ((nanmin_none_iff a).mp hm _ hv) (by simp)
  | some m =>
    obtain ⟨hmem, hge⟩ := nanmin_spec a m hm
    obtain ⟨i, hi, hai⟩ := List.getElem_of_mem hmem
    refine ⟨m, rfl, ?_, hge⟩
    refine randArgmin_is_min a noise m hlen (fun n hn => le_of_lt (hp n hn)) hm ⟨i, hi, hai, ?_⟩
    exact hp _ (List.getElem_mem _)

/-- Axis variant (`axis=1`): every row's result is that row's maximum. -/
theorem randArgmaxRows_is_max (rows : List (List (Option α))) (noise : List (List β))
    (hlen : noise.length = rows.length)
    (hrow : ∀ k, ∀ hk : k < rows.length, (noise[k]'(by omega)).length = rows[k].length ∧
        (∀ n ∈ noise[k]'(by omega), 0 < n) ∧ 0 < countSome rows[k]) :
    (randArgmaxRows rows noise).length = rows.length ∧
    ∀ k, ∀ hk : k < rows.length, ∃ m, nanmax rows[k] = some m ∧
      rows[k][(randArgmaxRows rows noise)[k]'(by simp [randArgmaxRows]; omega)]? = some (some m) := by
  refine ⟨by simp [randArgmaxRows]; omega, ?_⟩
  intro k hk
  obtain ⟨h1, h2, h3⟩ := hrow k hk
  obtain ⟨m, hm, hget, -⟩ := randArgmax_is_max_of_pos rows[k] (noise[k]'(by omega)) h1 h2 h3
  refine ⟨m, hm, ?_⟩
  simpa [randArgmaxRows] using hget

/-! ### n-d arrays (`axis=None`): the flat arg-max is unravelled to a position of the array -/

theorem flatten_getElem? {γ : Type} (rows : List (List γ)) (c : Nat) (hc : 0 < c)
    (h : ∀ r ∈ rows, r.length = c) (i : Nat) :
    rows.flatten[i]? = (rows[i / c]?).bind (fun r => r[i % c]?) := by
  induction rows generalizing i with
  | nil => simp
  | cons r rs ih =>
    have hr : r.length = c := h r (List.mem_cons_self ..)
    have hrs : ∀ r' ∈ rs, r'.length = c := fun r' hr' => h r' (List.mem_cons_of_mem _ hr')
    simp only [List.flatten_cons]
    rcases Nat.lt_or_ge i c with hlt | hge
    · rw [List.getElem?_append_left (by omega)]
      have e1 : i / c = 0 := Nat.div_eq_of_lt hlt
      have e2 : i % c = i := Nat.mod_eq_of_lt hlt
      simp [e1, e2]
    · rw [List.getElem?_append_right (by omega), hr, ih hrs (i - c)]
      have e1 : i / c = (i - c) / c + 1 := by
        have : i = (i - c) + c := by omega
        rw [this, Nat.add_div_right _ hc]; simp
      have e2 : i % c = (i - c) % c := by
        have : i = (i - c) + c := by omega
        rw [this, Nat.add_mod_right]; simp
      rw [e1, e2]; simp

/-- **2-d arrays, `axis=None`**: the pair returned by `rand_argmax` (flat arg-max unravelled with
`np.unravel_index`) addresses an exact maximum of the non-NaN entries of the whole array. -/
theorem randArgmax_flat2_is_max (rows : List (List (Option α))) (c : Nat) (hc : 0 < c)
    (hshape : ∀ r ∈ rows, r.length = c) (noise : List β)
    (hlen : noise.length = rows.flatten.length) (hp : ∀ n ∈ noise, 0 < n)
    (hsome : 0 < countSome rows.flatten) :
    ∃ m, nanmax rows.flatten = some m ∧
      (rows[(unravel2 c (randArgmax rows.flatten noise)).1]?).bind
        (fun r => r[(unravel2 c (randArgmax rows.flatten noise)).2]?) = some (some m) ∧
      ∀ v, some v ∈ rows.flatten → v ≤ m := by
  obtain ⟨m, hm, hget, hge⟩ := randArgmax_is_max_of_pos rows.flatten noise hlen hp hsome
  refine ⟨m, hm, ?_, hge⟩
  have := flatten_getElem? rows c hc hshape (randArgmax rows.flatten noise)
  simp only [unravel2]
  rw [← this]
  exact hget

/-- The excluded corner is real: if numpy draws `0.0` on every maximal position the code returns a
non-maximal position (an honest limit of the implementation; probability 2⁻⁵³ per maximal entry). -/
theorem randArgmax_zero_noise_corner :
    randArgmax (α := Nat) (β := Nat) [some 1, some 5] [3, 0] = 0 := by decide

/-- **Every tied optimum is reachable**: for each maximal position `j` there is a noise vector with
entries in `{lo, hi}` (any `0 < lo < hi`, e.g. inside numpy's `[0,1)`) for which the result is `j`. -/
theorem randArgmax_reaches_every_tie (a : List (Option α)) (m : α) (hm : nanmax a = some m)
    (j : Nat) (hj : j < a.length) (haj : a[j] = some m) (lo hi : β) (h0 : 0 < lo) (hlh : lo < hi) :
    randArgmax a ((List.replicate a.length lo).set j hi) = j := by
  unfold randArgmax
  rw [hm]
  generalize hnz : (List.replicate a.length lo).set j hi = noise
  have hlen : noise.length = a.length := by rw [← hnz]; simp
  have hne : masked (some m) a noise ≠ [] := by
    intro h
    have := masked_length (some m) a noise
    rw [h] at this; simp at this; omega
  obtain ⟨hlt, hge, -⟩ := argmax_spec (masked (some m) a noise) hne
  have hlt' : argmax (masked (some m) a noise) < a.length := by rw [masked_length] at hlt; exact hlt
  have hj' : j < (masked (some m) a noise).length := by rw [masked_length]; exact hj
  have h1 := hge _ (List.getElem_mem hj')
  rw [masked_getElem (some m) a noise hlen j hj, masked_getElem (some m) a noise hlen _ hlt'] at h1
  have hoj : isOpt (some m) a[j] = true := (isOpt_iff _ _).mpr ⟨m, haj, rfl⟩
  have hnj : noise[j]'(by omega) = hi := by subst hnz; simp
  simp only [hoj, if_true, hnj] at h1
  rcases Classical.em (argmax (masked (some m) a noise) = j) with h | hne'
  · exact h
  · exfalso
    have hnk : noise[argmax (masked (some m) a noise)]'(by omega) = lo := by
      subst hnz
      rw [List.getElem_set_ne (fun e => hne' e.symm)]
      simp
    rw [hnk] at h1
    split at h1
    · exact absurd (lt_of_le_of_lt h1 hlh) (lt_irrefl _)
    · exact absurd (lt_of_le_of_lt h1 (lt_trans h0 hlh)) (lt_irrefl _)

theorem randArgmin_reaches_every_tie (a : List (Option α)) (m : α) (hm : nanmin a = some m)
    (j : Nat) (hj : j < a.length) (haj : a[j] = some m) (lo hi : β) (h0 : 0 < lo) (hlh : lo < hi) :
    randArgmin a ((List.replicate a.length lo).set j hi) = j := by
  unfold randArgmin
  rw [hm]
  generalize hnz : (List.replicate a.length lo).set j hi = noise
  have hlen : noise.length = a.length := by rw [← hnz]; simp
  have hne : masked (some m) a noise ≠ [] := by
    intro h
    have := masked_length (some m) a noise
    rw [h] at this; simp at this; omega
  obtain ⟨hlt, hge, -⟩ := argmax_spec (masked (some m) a noise) hne
  have hlt' : argmax (masked (some m) a noise) < a.length := by rw [masked_length] at hlt; exact hlt
  have hj' : j < (masked (some m) a noise).length := by rw [masked_length]; exact hj
  have h1 := hge _ (List.getElem_mem hj')
  rw [masked_getElem (some m) a noise hlen j hj, masked_getElem (some m) a noise hlen _ hlt'] at h1
  have hoj : isOpt (some m) a[j] = true := (isOpt_iff _ _).mpr ⟨m, haj, rfl⟩
  have hnj : noise[j]'(by omega) = hi := by subst hnz; simp
  simp only [hoj, if_true, hnj] at h1
  rcases Classical.em (argmax (masked (some m) a noise) = j) with h | hne'
  · exact h
  · exfalso
    have hnk : noise[argmax (masked (some m) a noise)]'(by omega) = lo := by
      subst hnz
      rw [List.getElem_set_ne (fun e => hne' e.symm)]
      simp
    rw [hnk] at h1
    split at h1
    · exact absurd (lt_of_le_of_lt h1 hlh) (lt_irrefl _)
    · exact absurd (lt_of_le_of_lt h1 (lt_trans h0 hlh)) (lt_irrefl _)

/-- Reproducibility: the result is a function of the array and the drawn noise (and the noise is a
function of the seed — MT19937, trusted). -/
theorem randArgmax_deterministic (a a' : List (Option α)) (n n' : List β) (ha : a = a') (hn : n = n') :
    randArgmax a n = randArgmax a' n' := by subst ha; subst hn; rfl

/-! ## simple_batch, `method="max"` -/

/-- The per-step contract of a maximising batch (this is also C02's step condition): the row
recorded at each step is the current utility vector, the pick attains its `nanmax`, and the pick is
NaN afterwards. -/
def StepMax : List (Option α) → List (Nat × List (Option α)) → Prop
  | _, [] => True
  | u, (i, row) :: rest =>
    row = u ∧ (∃ m, nanmax u = some m ∧ u[i]? = some (some m)) ∧ StepMax (u.set i none) rest

/-- All noise vectors have the right length and strictly positive entries. -/
def PosNoise (n : Nat) (noises : List (List β)) : Prop :=
  ∀ nz ∈ noises, nz.length = n ∧ ∀ x ∈ nz, 0 < x

theorem simpleBatchMaxLoop_stepMax (b : Nat) (u : List (Option α)) (noises : List (List β))
    (hb : b ≤ countSome u) (hn : b ≤ noises.length) (hpos : PosNoise u.length noises) :
    (simpleBatchMaxLoop b u noises).length = b ∧ StepMax u (simpleBatchMaxLoop b u noises) := by
  induction b generalizing u noises with
  | zero => simp [simpleBatchMaxLoop, StepMax]
  | succ b ih =>
    cases noises with
    | nil => simp at hn
    | cons nz ns =>
      obtain ⟨hl, hp⟩ := hpos nz (List.mem_cons_self ..)
      obtain ⟨m, hm, hget, -⟩ := randArgmax_is_max_of_pos u nz hl hp (by omega)
      have hc := countSome_set_none u (randArgmax u nz) m hget
      have hpos' : PosNoise (u.set (randArgmax u nz) none).length ns := by
        intro z hz
        simpa using hpos z (List.mem_cons_of_mem _ hz)
      obtain ⟨i1, i2⟩ := ih (u.set (randArgmax u nz) none) ns (by omega) (by simpa using hn) hpos'
      simp only [simpleBatchMaxLoop, List.length_cons, i1, StepMax, true_and]
      exact ⟨⟨m, hm, hget⟩, i2⟩

theorem getElem?_setNones (u : List (Option α)) (picks : List Nat) (j : Nat) :
    (setNones u picks)[j]? = if j ∈ picks ∧ j < u.length then some none else u[j]? := by
  induction picks generalizing u with
  | nil => simp [setNones]
  | cons p ps ih =>
    have e : setNones u (p :: ps) = setNones (u.set p none) ps := by simp [setNones]
    rw [e, ih]
    simp only [List.length_set, List.mem_cons]
    by_cases hjp : j = p
    · subst hjp
      by_cases hlt : j < u.length
      · simp [hlt]
      · simp [hlt]
    · have : ¬ p = j := fun e => hjp e.symm
      rw [List.getElem?_set_ne this]
      simp [hjp]

theorem setNones_length (u : List (Option α)) (picks : List Nat) :
    (setNones u picks).length = u.length := by
  induction picks generalizing u with
  | nil => simp [setNones]
  | cons p ps ih =>
    have e : setNones u (p :: ps) = setNones (u.set p none) ps := by simp [setNones]
    rw [e, ih]; simp

/-- Consequences of the step contract, for any batch (used for `simple_batch` here and for every
strategy's utilities in C02): distinct picks, every pick a non-NaN entry of the *original* vector,
row `k` = original vector with picks `0..k-1` set to NaN, picks in non-increasing utility order. -/
theorem stepMax_spec (u : List (Option α)) (rs : List (Nat × List (Option α))) (h : StepMax u rs) :
    (rs.map Prod.fst).Nodup ∧
    (∀ p ∈ rs, ∃ v, u[p.1]? = some (some v)) ∧
    (∀ k, ∀ hk : k < rs.length, rs[k].2 = setNones u ((rs.map Prod.fst).take k)) ∧
    (rs.map Prod.fst).Pairwise (fun i j => ∀ vi vj, u[i]? = some (some vi) → u[j]? = some (some vj) → vj ≤ vi) := by
  induction rs generalizing u with
  | nil => simp
  | cons r rest ih =>
    obtain ⟨i, row⟩ := r
    obtain ⟨hrow, ⟨m, hm, hget⟩, hrest⟩ := h
    obtain ⟨i1, i2, i3, i4⟩ := ih (u.set i none) hrest
    -- entries of the later vector are entries of `u` at positions other than `i`
    have later : ∀ j v, (u.set i none)[j]? = some (some v) → u[j]? = some (some v) ∧ j ≠ i := by
      intro j v hv
      by_cases hji : i = j
      · subst hji
        rw [List.getElem?_set] at hv
        simp only [if_true] at hv
        split at hv <;> simp at hv
      · rw [List.getElem?_set_ne hji] at hv
        exact ⟨hv, fun e => hji e.symm⟩
    refine ⟨?_, ?_, ?_, ?_⟩
    · simp only [List.map_cons, List.nodup_cons]
      refine ⟨?_, i1⟩
      intro hin
      obtain ⟨p, hp, hpe⟩ := List.mem_map.mp hin
      obtain ⟨v, hv⟩ := i2 p hp
      rw [hpe] at hv
      exact (later i v hv).2 rfl
    · intro p hp
      rcases List.mem_cons.mp hp with rfl | hp
      · exact ⟨m, hget⟩
      · obtain ⟨v, hv⟩ := i2 p hp
        exact ⟨v, (later _ v hv).1⟩
    · intro k hk
      cases k with
      | zero => simp [setNones, hrow]
      | succ k =>
        simp only [List.getElem_cons_succ, List.map_cons, List.take_succ_cons]
        rw [i3 k (by simpa using hk)]
        simp [setNones]
    · simp only [List.map_cons, List.pairwise_cons]
      refine ⟨?_, ?_⟩
      · intro j hj vi vj hvi hvj
        rw [hget] at hvi
        simp only [Option.some.injEq] at hvi
        subst hvi
        have hmem : some vj ∈ u := by
          have := List.mem_of_getElem? hvj
          exact this
        exact (nanmax_spec u _ hm).2 vj hmem
      · refine i4.imp_of_mem ?_
        intro a b ha hb hab vi vj hvi hvj
        obtain ⟨pa, hpa, rfl⟩ := List.mem_map.mp ha
        obtain ⟨pb, hpb, rfl⟩ := List.mem_map.mp hb
        obtain ⟨va, hva⟩ := i2 pa hpa
        obtain ⟨vb, hvb⟩ := i2 pb hpb
        have ea := (later _ va hva).1
        have eb := (later _ vb hvb).1
        rw [ea] at hvi; rw [eb] at hvj
        simp only [Option.some.injEq] at hvi hvj
        subst hvi; subst hvj
        exact hab va vb hva hvb

theorem hasInf_false (isInf : α → Bool) (u : List (Option α))
    (hfin : ∀ v, some v ∈ u → isInf v = false) : hasInf isInf u = false := by
  unfold hasInf
  rw [List.any_eq_false]
  intro x hx
  cases x with
  | none => simp
  | some v => simp [hfin v hx]

/-- **simple_batch (max)**: for every utility vector without infinities, every batch size ≥ 1 and
all positive noise draws, the call succeeds and returns `min(batch_size, #non-NaN)` picks that are
distinct, never NaN entries, with rows in which exactly the earlier picks were turned to NaN, each
pick attaining the maximum of its row, hence in non-increasing order of utility. -/
theorem simpleBatch_max_spec (isInf : α → Bool) [Zero α] [Add α] (u : List (Option α)) (b : Nat)
    (noises : List (List β)) (choice : List Nat)
    (hfin : ∀ v, some v ∈ u → isInf v = false) (hb : 1 ≤ b)
    (hn : min b (countSome u) ≤ noises.length) (hpos : PosNoise u.length noises) :
    ∃ rs, simpleBatch isInf u b .max noises choice = .ok rs ∧
      rs.length = min b (countSome u) ∧ StepMax u rs ∧
      (rs.map Prod.fst).Nodup ∧
      (∀ p ∈ rs, ∃ v, u[p.1]? = some (some v)) ∧
      (∀ k, ∀ hk : k < rs.length, rs[k].2 = setNones u ((rs.map Prod.fst).take k)) ∧
      (rs.map Prod.fst).Pairwise
        (fun i j => ∀ vi vj, u[i]? = some (some vi) → u[j]? = some (some vj) → vj ≤ vi) := by
  have h1 : hasInf isInf u = false := hasInf_false isInf u hfin
  have h2 : ¬ b < 1 := by omega
  obtain ⟨l, st⟩ := simpleBatchMaxLoop_stepMax (min b (countSome u)) u noises (Nat.min_le_right ..) hn hpos
  obtain ⟨s1, s2, s3, s4⟩ := stepMax_spec u _ st
  refine ⟨simpleBatchMaxLoop (min b (countSome u)) u noises, ?_, l, st, s1, s2, s3, s4⟩
  unfold simpleBatch
  rw [h1]
  simp only [Bool.false_eq_true, if_false]
  rw [if_neg h2]

/-- The error branches of `simple_batch` are exactly the validated ones. -/
theorem simpleBatch_rejects_inf (isInf : α → Bool) [Zero α] [Add α] (u : List (Option α)) (b : Nat) (m : Method)
    (noises : List (List β)) (choice : List Nat) (v : α) (hv : some v ∈ u) (hi : isInf v = true) :
    simpleBatch isInf u b m noises choice = .error .infinite := by
  have : hasInf isInf u = true := by
    unfold hasInf
    rw [List.any_eq_true]
    exact ⟨some v, hv, by simpa using hi⟩
  unfold simpleBatch
  rw [this]
  simp only [if_true]

theorem simpleBatch_rejects_batch0 (isInf : α → Bool) [Zero α] [Add α] (u : List (Option α)) (m : Method)
    (noises : List (List β)) (choice : List Nat) (hfin : ∀ v, some v ∈ u → isInf v = false) :
    simpleBatch isInf u 0 m noises choice = .error .batchSize := by
  have h1 : hasInf isInf u = false := hasInf_false isInf u hfin
  unfold simpleBatch
  rw [h1]
  simp only [Bool.false_eq_true, if_false]
  rw [if_pos (by omega)]

/-! ## simple_batch, `method="proportional"` -/

theorem nodupB_iff (l : List Nat) : nodupB l = true ↔ l.Nodup := by
  induction l with
  | nil => simp [nodupB]
  | cons x xs ih => simp [nodupB, ih]

theorem propRows_fst (u : List (Option α)) (c : List Nat) : (propRows u c).map Prod.fst = c := by
  induction c generalizing u with
  | nil => simp [propRows]
  | cons x xs ih => simp [propRows, ih]

theorem propRows_rows (u : List (Option α)) (c : List Nat) (k : Nat) (hk : k < (propRows u c).length) :
    (propRows u c)[k].2 = setNones u (c.take k) := by
  induction c generalizing u k with
  | nil => simp [propRows] at hk
  | cons x xs ih =>
    cases k with
    | zero => simp [propRows, setNones]
    | succ k =>
      simp only [propRows, List.getElem_cons_succ, List.take_succ_cons]
      rw [ih (u.set x none) k (by simpa [propRows] using hk)]
      simp [setNones]

/-- **simple_batch (proportional)**: whenever the call succeeds (with any `choice` result obeying
numpy's contract — the model checks the contract and reports `oracle` otherwise), it returns
`min(batch_size, #non-NaN)` distinct picks, each a non-NaN entry of strictly positive probability
mass (never an entry of zero weight), and rows in which exactly the earlier picks are NaN. -/
theorem simpleBatch_prop_spec [Zero α] [Add α] (isInf : α → Bool) (u : List (Option α)) (b : Nat)
    (noises : List (List β)) (choice : List Nat) (rs : List (Nat × List (Option α)))
    (h : simpleBatch isInf u b .proportional noises choice = .ok rs) :
    rs.map Prod.fst = choice ∧ rs.length = min b (countSome u) ∧ choice.Nodup ∧
    (∀ c ∈ choice, ∃ v, u[c]? = some (some v) ∧ posW (nansum u) (some v) = true ∧ v ≠ 0) ∧
    (∀ k, ∀ hk : k < rs.length, rs[k].2 = setNones u (choice.take k)) := by
  unfold simpleBatch at h
  split at h
  · cases h
  split at h
  · cases h
  simp only at h
  split at h
  · cases h
  split at h
  · cases h
  split at h
  · cases h
  split at h
  · rename_i hc
    simp only [Bool.and_eq_true, decide_eq_true_eq, List.all_eq_true] at hc
    obtain ⟨⟨hlen, hnd⟩, hall⟩ := hc
    injection h with h
    subst h
    refine ⟨propRows_fst u choice, ?_, (nodupB_iff _).mp hnd, ?_, ?_⟩
    · have := congrArg List.length (propRows_fst u choice)
      simp only [List.length_map] at this
      rw [this, hlen]
    · intro c hc
      have hp := hall c hc
      cases hu : u[c]? with
      | none => simp [List.getD, hu, posW] at hp
      | some x =>
        cases x with
        | none => simp [List.getD, hu, posW] at hp
        | some v =>
          refine ⟨v, rfl, by simpa [List.getD, hu] using hp, ?_⟩
          intro hv0
          subst hv0
          simp [List.getD, hu, posW] at hp
    · intro k hk
      exact propRows_rows u choice k hk
  · cases h

/-- The proportional branch must raise when the total mass is zero, an entry has negative
probability, or fewer entries have positive probability than the clipped batch size (numpy's
`choice` does; measured in the correspondence). -/
theorem simpleBatch_prop_raises [Zero α] [Add α] (isInf : α → Bool) (u : List (Option α)) (b : Nat)
    (noises : List (List β)) (choice : List Nat)
    (hfin : ∀ v, some v ∈ u → isInf v = false) (hb : 1 ≤ b)
    (hbad : (¬ (0 : α) < nansum u ∧ ¬ nansum u < (0 : α)) ∨ (∃ x ∈ u, negW (nansum u) x = true) ∨
      (u.filter (posW (nansum u))).length < min b (countSome u)) :
    simpleBatch isInf u b .proportional noises choice = .error .mass := by
  have h1 : hasInf isInf u = false := hasInf_false isInf u hfin
  have h2 : ¬ b < 1 := by omega
  unfold simpleBatch
  rw [h1]
  simp only [Bool.false_eq_true, if_false]
  rw [if_neg h2]
  rcases hbad with ⟨ha, hb'⟩ | hbad
  · rw [if_pos (by simp [ha, hb'])]
  · split
    · rfl
    · rcases hbad with ⟨x, hx, hneg⟩ | hlt
      · have : u.any (negW (nansum u)) = true := List.any_eq_true.mpr ⟨x, hx, hneg⟩
        rw [if_pos this]
      · split
        · rfl
        · first | rfl | (rw [if_pos hlt])

/-! ## Non-vacuity: concrete instances meet the hypotheses -/

example : ∃ m, nanmax (α := Int) [some 3, none, some 7, some 7] = some m ∧
    [some 3, none, some 7, some (7:Int)][randArgmax (β := Nat) [some 3, none, some 7, some (7:Int)] [5, 9, 2, 4]]? = some (some m) :=
  ⟨7, by decide, by decide⟩

example : randArgmax (α := Int) (β := Nat) [some 3, none, some 7, some 7] ((List.replicate 4 1).set 2 2) = 2 := by
  decide

example : PosNoise (β := Nat) 3 [[1, 2, 3], [4, 1, 1]] := by
  intro nz h; simp at h; rcases h with rfl | rfl <;> simp

example : StepMax (α := Int) [some 1, none, some 4] [(2, [some 1, none, some 4]), (0, [some 1, none, none])] := by
  simp [StepMax, nanmax]

end Ska.C18
