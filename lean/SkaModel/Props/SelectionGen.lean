import SkaModel.Lemmas.SelectionGen
import SkaModel.Props.C18

/-!
# C18 for the selection primitives *as translated from the current Python source*

`SkaModel/Gen/SelectionGen.lean` is re-written by `harness/translate/pyselect.py` from
`skactiveml/utils/_selection.py` on every run of check C18 (`rand_argmax`, `rand_argmin`, `simple_batch` with
method "max", one-dimensional arrays).  `Lemmas/SelectionGen.lean` proves the translated functions equal to the
hand-written model for all inputs; here the property theorems of `Props/C18.lean` are transferred to them.
`draws k` is the vector the k-th call of `random_state.random(a.shape)` returns; `rs` counts the calls made so far.

Property theorems only.
-/

namespace Ska.SelectionGenProps
open Ska Ska.PySel Ska.Gen.Sel Ska.SelectionGen Ska.C18

variable {α : Type} [LinearOrder α]
variable {β : Type} [LinearOrder β] [Zero β]

/-- **tie**: the translated `rand_argmax` / `rand_argmin` are the modelled ones (and consume exactly one draw). -/
theorem gen_rand_argmax_eq (draws : Nat → List β) (rs : Nat) (a : List (Option α)) :
    rand_argmax draws rs a = (randArgmax a (draws rs), rs + 1) := rand_argmax_eq draws rs a

theorem gen_rand_argmin_eq (draws : Nat → List β) (rs : Nat) (a : List (Option α)) :
    rand_argmin draws rs a = (randArgmin a (draws rs), rs + 1) := rand_argmin_eq draws rs a

/-- **rand_argmax as translated returns the position of an exact maximum of the non-NaN entries** whenever some maximal
position carries positive noise. -/
theorem gen_rand_argmax_is_max (draws : Nat → List β) (rs : Nat) (a : List (Option α)) (m : α)
    (hlen : (draws rs).length = a.length) (hnn : ∀ n ∈ draws rs, 0 ≤ n) (hm : nanmax a = some m)
    (hpos : ∃ i, ∃ hi : i < a.length, a[i] = some m ∧ 0 < (draws rs)[i]) :
    a[(rand_argmax draws rs a).1]? = some (some m) := by
  rw [rand_argmax_eq]
  exact randArgmax_is_max a (draws rs) m hlen hnn hm hpos

/-- **simple_batch (method "max") as translated**: for every utility vector without infinities, every batch size ≥ 1 and
all positive noise draws, the call succeeds and returns `min(batch_size, #non-NaN)` picks that are distinct, never NaN
entries, with utility rows in which exactly the earlier picks were turned to NaN, each pick attaining the maximum of its
row, in non-increasing order of utility. -/
theorem gen_simple_batch_max_spec (isInf : α → Bool) [Zero α] [Add α] (draws : Nat → List β) (rs : Nat)
    (u : List (Option α)) (b : Nat)
    (hfin : ∀ v, some v ∈ u → isInf v = false) (hb : 1 ≤ b)
    (hpos : ∀ k, (draws (rs + k)).length = u.length ∧ ∀ x ∈ draws (rs + k), 0 < x) :
    ∃ picks rows, simple_batch_max isInf draws rs u b = .ok (picks, rows) ∧
      picks.length = min b (countSome u) ∧ rows.length = picks.length ∧
      picks.Nodup ∧
      (∀ p ∈ picks, ∃ v, u[p]? = some (some v)) ∧
      (∀ k, ∀ hk : k < rows.length, rows[k] = setNones u (picks.take k)) ∧
      StepMax u (List.zip picks rows) ∧
      picks.Pairwise (fun i j => ∀ vi vj, u[i]? = some (some vi) → u[j]? = some (some vj) → vj ≤ vi) := by
  have hn : min b (countSome u) ≤ ((List.range (min b (countSome u))).map (fun k => draws (rs + k))).length := by simp
  have hp : PosNoise u.length ((List.range (min b (countSome u))).map (fun k => draws (rs + k))) := by
    intro nz hnz
    simp only [List.mem_map, List.mem_range] at hnz
    obtain ⟨k, _, rfl⟩ := hnz
    exact hpos k
  obtain ⟨r, hr, hlen, hstep, hnd, hval, hrows, hord⟩ :=
    simpleBatch_max_spec isInf u b _ [] hfin hb hn hp
  refine ⟨r.map (·.1), r.map (·.2), ?_, by simpa using hlen, by simp, hnd, ?_, ?_, ?_, hord⟩
  · rw [simple_batch_max_eq, hr]; rfl
  · intro p hp'
    simp only [List.mem_map] at hp'
    obtain ⟨q, hq, rfl⟩ := hp'
    exact hval q hq
  · intro k hk
    have hk' : k < r.length := by simpa using hk
    simpa using hrows k hk'
  · have : List.zip (r.map (·.1)) (r.map (·.2)) = r := by
      rw [List.zip_map']
      simp
    rw [this]; exact hstep

/-- the hypotheses are satisfiable: three utilities with a tie, constant positive noise -/
example : ∃ picks rows, simple_batch_max (α := Int) (β := Int) (fun _ => false) (fun _ => [1, 1, 1]) 0 [some 2, none, some 2] 5
    = .ok (picks, rows) ∧ picks.length = 2 := ⟨_, _, rfl, rfl⟩

end Ska.SelectionGenProps
