import SkaModel.Core.Loop
import SkaModel.Props.C01
import SkaModel.Props.C01seq
import SkaModel.Props.C01choice

/-!
# C14 — a pool active-learning loop labels every sample exactly once

`alLoop_exhausts`: for **every** query function that returns a C01-valid batch for `candidates=None`
at every labeling, every initial labeling, every batch size ≥ 1 and every oracle (the oracle only
decides *which* label is revealed, the mask evolves the same way): each query returns only unlabeled
samples, no sample is queried twice over the whole run, and the pool is exhausted after exactly
`⌈u/b⌉` queries.  `alTraceAccepts_sound`: a recorded run of the real code accepted by the Boolean
acceptor has exactly these properties.  `skeletonA_loop`: the hypothesis is discharged for
Skeleton A strategies by C01.
-/

namespace Ska.C14
open Ska Ska.C01

/-- C01 for `candidates=None` on the labeling mask `y`. -/
def ValidBatchU (y : List Bool) (b : Nat) (q : List Nat) : Prop :=
  q.length = min b (unl y) ∧ q.Nodup ∧ ∀ i ∈ q, y[i]? = some true

theorem validBatchU_iff_validBatch (y : List Bool) (b : Nat) (q : List Nat) :
    ValidBatchU y b q ↔ ValidBatch (unlabeledIdx y) b q := by
  obtain ⟨-, h2, -⟩ := unlabeledIdx_spec y
  unfold ValidBatchU ValidBatch unl
  rw [unlabeledIdx_length]
  constructor
  · rintro ⟨a, b', c⟩; exact ⟨a, b', fun i hi => (h2 i).mpr (c i hi)⟩
  · rintro ⟨a, b', c⟩; exact ⟨a, b', fun i hi => (h2 i).mp (c i hi)⟩

theorem validBatchUB_iff (y : List Bool) (b : Nat) (q : List Nat) :
    validBatchUB y b q = true ↔ ValidBatchU y b q := by
  unfold validBatchUB ValidBatchU
  simp only [Bool.and_eq_true, decide_eq_true_eq, Ska.C18.nodupB_iff, List.all_eq_true, and_assoc]
  refine and_congr_right (fun _ => and_congr_right (fun _ => ?_))
  constructor
  · intro h i hi
    have := h i hi
    rw [List.getD_eq_getElem?_getD] at this
    cases hy : y[i]? with
    | none => simp [hy] at this
    | some v => simp [hy] at this; simp [this]
  · intro h i hi
    rw [List.getD_eq_getElem?_getD, h i hi]; rfl

theorem unl_set_false (y : List Bool) (i : Nat) (h : y[i]? = some true) :
    unl (y.set i false) + 1 = unl y := by
  induction y generalizing i with
  | nil => simp at h
  | cons x xs ih =>
    cases i with
    | zero => simp at h; subst h; simp [unl, List.count_cons]
    | succ k =>
      simp at h
      have := ih k h
      cases x <;> simp_all [unl, List.count_cons]

theorem unl_reveal (y : List Bool) (q : List Nat) (nd : q.Nodup)
    (hq : ∀ i ∈ q, y[i]? = some true) :
    unl (reveal y q) + q.length = unl y ∧
    (∀ j, j ∉ q → (reveal y q)[j]? = y[j]?) ∧
    (∀ j ∈ q, (reveal y q)[j]? = some false) := by
  induction q generalizing y with
  | nil => simp [reveal]
  | cons i rest ih =>
    have nd' := (List.nodup_cons.mp nd)
    have hi := hq i (List.mem_cons_self ..)
    have hrest : ∀ j ∈ rest, (y.set i false)[j]? = some true := by
      intro j hj
      have hne : i ≠ j := fun e => nd'.1 (e ▸ hj)
      rw [List.getElem?_set_ne hne]; exact hq j (List.mem_cons_of_mem _ hj)
    obtain ⟨h1, h2, h3⟩ := ih (y.set i false) nd'.2 hrest
    have hu := unl_set_false y i hi
    have hrev : reveal y (i :: rest) = reveal (y.set i false) rest := by simp [reveal]
    rw [hrev]
    refine ⟨by simp only [List.length_cons]; omega, ?_, ?_⟩
    · intro j hj
      have hji : i ≠ j := fun e => hj (e ▸ List.mem_cons_self ..)
      have hjr : j ∉ rest := fun e => hj (List.mem_cons_of_mem _ e)
      rw [h2 j hjr, List.getElem?_set_ne hji]
    · intro j hj
      rcases List.mem_cons.mp hj with rfl | hj
      · rw [h2 j nd'.1]
        have : j < y.length := by
          rcases Nat.lt_or_ge j y.length with h | h
          · exact h
          · rw [List.getElem?_eq_none h] at hi; cases hi
        simp [List.getElem?_set, this]
      · exact h3 j hj

theorem ceil_step (u b m : Nat) (hb : 0 < b) (hu : 0 < u) (hm : m = min b u) :
    (u - m + b - 1) / b + 1 = (u + b - 1) / b := by
  rcases Nat.le_total b u with hle | hle
  · have : m = b := by omega
    subst this
    have : u + m - 1 = (u - m + m - 1) + m := by omega
    rw [this, Nat.add_div_right _ hb]
  · have : m = u := by omega
    subst this
    have h1 : (m - m + b - 1) / b = 0 := by apply Nat.div_eq_of_lt; omega
    have h2 : (m + b - 1) / b = 1 := by
      have : m + b - 1 = (m - 1) + b := by omega
      rw [this, Nat.add_div_right _ hb, Nat.div_eq_of_lt (by omega)]
    omega

/-- Conclusions of C14 for a list of batches `tr` queried from the initial labeling `y`. -/
def Exhausts (y : List Bool) (b : Nat) (tr : List (List Nat)) : Prop :=
  tr.length = (unl y + b - 1) / b ∧ tr.flatten.Nodup ∧
  (∀ i ∈ tr.flatten, y[i]? = some true) ∧ tr.flatten.length = unl y

/-- **The pool loop labels every sample exactly once** (any query function satisfying C01). -/
theorem alLoop_exhausts (query : List Bool → List Nat) (b : Nat) (hb : 0 < b)
    (hq : ∀ y, 0 < unl y → ValidBatchU y b (query y)) :
    ∀ fuel y, unl y ≤ fuel → Exhausts y b (alLoop query fuel y) := by
  intro fuel
  induction fuel with
  | zero =>
    intro y h
    have : unl y = 0 := by omega
    have hd : (b - 1) / b = 0 := Nat.div_eq_of_lt (by omega)
    simp [Exhausts, alLoop, this, hd]
  | succ k ih =>
    intro y h
    simp only [alLoop]
    split
    · rename_i h0
      have hd : (b - 1) / b = 0 := Nat.div_eq_of_lt (by omega)
      simp [Exhausts, h0, hd]
    · rename_i h0
      obtain ⟨hl, hnd, hmem⟩ := hq y (by omega)
      obtain ⟨r1, r2, r3⟩ := unl_reveal y (query y) hnd hmem
      obtain ⟨i1, i2, i3, i4⟩ := ih (reveal y (query y)) (by omega)
      refine ⟨?_, ?_, ?_, ?_⟩
      · simp only [List.length_cons, i1]
        have e : unl (reveal y (query y)) = unl y - (query y).length := by omega
        rw [e]
        exact ceil_step (unl y) b _ hb (by omega) hl
      · simp only [List.flatten_cons]
        rw [List.nodup_append]
        refine ⟨hnd, i2, ?_⟩
        intro a ha c hc hac
        subst hac
        have h1 := i3 a hc
        rw [r3 a ha] at h1
        cases h1
      · simp only [List.flatten_cons]
        intro i hi
        rcases List.mem_append.mp hi with hi | hi
        · exact hmem i hi
        · have h1 := i3 i hi
          rcases Classical.em (i ∈ query y) with hin | hnin
          · rw [r3 i hin] at h1; cases h1
          · rwa [r2 i hnin] at h1
      · simp only [List.flatten_cons, List.length_append, i4]; omega

/-- A recorded run accepted by the Boolean acceptor satisfies all conclusions of C14. -/
theorem alTraceAccepts_sound (b : Nat) (hb : 0 < b) (tr : List (List Nat)) :
    ∀ y, alTraceAccepts b y tr = true → Exhausts y b tr := by
  induction tr with
  | nil =>
    intro y h
    have : unl y = 0 := by simpa [alTraceAccepts] using h
    have hd : (b - 1) / b = 0 := Nat.div_eq_of_lt (by omega)
    simp [Exhausts, this, hd]
  | cons q rest ih =>
    intro y h
    simp only [alTraceAccepts, Bool.and_eq_true, bne_iff_ne, ne_eq] at h
    obtain ⟨⟨h0, hv⟩, hr⟩ := h
    obtain ⟨hl, hnd, hmem⟩ := (validBatchUB_iff y b q).mp hv
    obtain ⟨r1, r2, r3⟩ := unl_reveal y q hnd hmem
    obtain ⟨i1, i2, i3, i4⟩ := ih (reveal y q) hr
    refine ⟨?_, ?_, ?_, ?_⟩
    · simp only [List.length_cons, i1]
      have e : unl (reveal y q) = unl y - q.length := by omega
      rw [e]
      exact ceil_step (unl y) b _ hb (by omega) hl
    · simp only [List.flatten_cons]
      rw [List.nodup_append]
      refine ⟨hnd, i2, ?_⟩
      intro a ha c hc hac
      subst hac
      have h1 := i3 a hc
      rw [r3 a ha] at h1
      cases h1
    · simp only [List.flatten_cons]
      intro i hi
      rcases List.mem_append.mp hi with hi | hi
      · exact hmem i hi
      · have h1 := i3 i hi
        rcases Classical.em (i ∈ q) with hin | hnin
        · rw [r3 i hin] at h1; cases h1
        · rwa [r2 i hnin] at h1
    · simp only [List.flatten_cons, List.length_append, i4]; omega

/-- Skeleton A discharges the hypothesis of `alLoop_exhausts`: if at every labeling the strategy's
query is `poolQueryA` on the unlabeled samples with numeric candidate utilities (whatever they are —
`utilOf` is arbitrary, and so are the noise draws `noiseOf` as long as they are positive), the loop
labels every sample exactly once. -/
theorem skeletonA_loop {α : Type} [LinearOrder α] [Zero α] [Add α] {β : Type} [LinearOrder β] [Zero β]
    (isInf : α → Bool) (b : Nat) (hb : 0 < b)
    (utilOf : List Bool → List (Option α)) (noiseOf : List Bool → List (List β))
    (hutil : ∀ y, (utilOf y).length = (unlabeledIdx y).length ∧
      ∀ x ∈ utilOf y, ∃ v, x = some v ∧ isInf v = false)
    (hnoise : ∀ y, b ≤ (noiseOf y).length ∧ Ska.C18.PosNoise y.length (noiseOf y))
    (query : List Bool → List Nat)
    (hquery : ∀ y rs, poolQueryA isInf y.length (some (unlabeledIdx y)) (utilOf y) b .max (noiseOf y) [] = .ok rs →
      query y = rs.map Prod.fst) :
    ∀ y, Exhausts y b (alLoop query (unl y) y) := by
  intro y
  refine alLoop_exhausts query b hb ?_ (unl y) y (Nat.le_refl _)
  intro y' hpos
  obtain ⟨hu1, hu2⟩ := hutil y'
  obtain ⟨hn1, hn2⟩ := hnoise y'
  obtain ⟨rs, hrs, h1, h2, h3⟩ := poolQueryA_none_valid isInf y' (utilOf y') b (noiseOf y') [] hu1 hu2 hb
    (by unfold unl at hpos; omega) (by omega) hn2
  rw [hquery y' rs hrs]
  exact ⟨by unfold unl; exact h1, h2, h3⟩

/-- The loop strategies (CoreSet, ProbCover, Clue, DropQuery, DiscriminativeAL, FourDs, GreedySamplingX,
RegressionTreeBasedAL[random|diversity]) discharge the hypothesis of `alLoop_exhausts` through
`maskedSeq_valid`: if at every labeling the query is a masked sequential arg-max selection over
`min(b, #unlabeled)` rows (whatever the rows are) that are NaN outside the unlabeled samples, contain a
number, and obey the mask discipline, the loop labels every sample exactly once. -/
theorem maskedSeq_loop {α : Type} [LinearOrder α] {β : Type} [LinearOrder β] [Zero β]
    (b : Nat) (hb : 0 < b)
    (rowsOf : List Bool → List (List (Option α))) (noiseOf : List Bool → List (List β))
    (hshape : ∀ y, (rowsOf y).length = min b (unl y) ∧ (rowsOf y).length = (noiseOf y).length)
    (hrows : ∀ y, ∀ k, ∀ hk : k < (rowsOf y).length, ∀ hk' : k < (noiseOf y).length,
        ((noiseOf y)[k]).length = ((rowsOf y)[k]).length ∧ (∀ x ∈ (noiseOf y)[k], 0 < x) ∧
          0 < countSome ((rowsOf y)[k]))
    (hcand : ∀ y, ∀ row ∈ rowsOf y, Ska.Seq.nanOutsideB (unlabeledIdx y) row = true)
    (hmask : ∀ y, Ska.Seq.maskOkB [] (rowsOf y) (Ska.Seq.seqPicks (rowsOf y) (noiseOf y)) = true) :
    ∀ y, Exhausts y b (alLoop (fun y => Ska.Seq.seqPicks (rowsOf y) (noiseOf y)) (unl y) y) := by
  intro y
  refine alLoop_exhausts _ b hb ?_ (unl y) y (Nat.le_refl _)
  intro y' _
  obtain ⟨hs1, hs2⟩ := hshape y'
  obtain ⟨h1, h2, h3, -⟩ := Ska.C01seq.maskedSeq_valid (unlabeledIdx y') (rowsOf y') (noiseOf y') hs2
    (hrows y') (hcand y') (hmask y')
  obtain ⟨-, hu, -⟩ := unlabeledIdx_spec y'
  exact ⟨by rw [h1, hs1], h2, fun i hi => (hu i).mp (h3 i hi)⟩

/-- The drawing strategies (`Badge`, `Falcun`) discharge the hypothesis of `alLoop_exhausts` through
`choiceSeq_valid`: if at every labeling the query draws `min(b, #unlabeled)` positions with `choice` from weight
vectors over the unlabeled samples (whatever the weights are) that satisfy `choice`'s preconditions and carry no
mass at the earlier picks, the loop labels every sample exactly once. -/
theorem choiceSeq_loop {α : Type} [Field α] [LinearOrder α] [IsStrictOrderedRing α]
    (b : Nat) (hb : 0 < b)
    (rowsOf : List Bool → List (List α)) (usOf : List Bool → List α)
    (hshape : ∀ y, (rowsOf y).length = min b (unl y) ∧ (rowsOf y).length = (usOf y).length)
    (hlen : ∀ y, ∀ row ∈ rowsOf y, row.length = unl y)
    (hprob : ∀ y, ∀ k, ∀ hk : k < (rowsOf y).length, ∀ hk' : k < (usOf y).length,
        Ska.Seq.probOkB (rowsOf y)[k] (usOf y)[k] = true)
    (hzero : ∀ y, Ska.Seq.zeroOkB [] (rowsOf y) (Ska.Seq.choicePicks (rowsOf y) (usOf y)) = true) :
    ∀ y, Exhausts y b (alLoop (fun y => (Ska.Seq.choicePicks (rowsOf y) (usOf y)).map
        (fun p => (unlabeledIdx y).getD p 0)) (unl y) y) := by
  intro y
  refine alLoop_exhausts _ b hb ?_ (unl y) y (Nat.le_refl _)
  intro y' _
  obtain ⟨hs1, hs2⟩ := hshape y'
  obtain ⟨h1, h2, h3⟩ := Ska.C01choice.choiceSeq_valid [] (rowsOf y') (usOf y') List.nodup_nil hs2
    (hprob y') (hzero y')
  obtain ⟨hnd, hu, -⟩ := unlabeledIdx_spec y'
  have hlt : ∀ p ∈ Ska.Seq.choicePicks (rowsOf y') (usOf y'), p < (unlabeledIdx y').length := by
    intro p hp
    obtain ⟨k, hk, rfl⟩ := List.getElem_of_mem hp
    have hk' : k < (rowsOf y').length := by omega
    obtain ⟨v, hv, -⟩ := h3 k hk' hk
    rw [unlabeledIdx_length, ← unl, ← hlen y' _ (List.getElem_mem hk')]
    rcases Nat.lt_or_ge (Ska.Seq.choicePicks (rowsOf y') (usOf y'))[k] ((rowsOf y')[k]).length with h | h
    · exact h
    · rw [List.getElem?_eq_none h] at hv; cases hv
  obtain ⟨m1, m2, m3⟩ := Ska.C01choice.map_positions_valid (unlabeledIdx y') hnd _ (by simpa using h2) hlt
  exact ⟨by rw [m1, h1, hs1], m2, fun i hi => (hu i).mp (m3 i hi)⟩

/-- `_greedy_sampling` (GreedySamplingX / GreedySamplingTarget) discharges the hypothesis through
`shrinkSeq_valid`: the list of remaining candidates starts as the unlabeled samples; whatever the scores are, if
the loop runs for `min(b, #unlabeled)` steps it labels every sample exactly once. -/
theorem shrinkSeq_loop {α : Type} [LinearOrder α] {β : Type} [LinearOrder β] [Zero β]
    (b : Nat) (hb : 0 < b)
    (rowsOf : List Bool → List (List (Option α))) (noiseOf : List Bool → List (List β))
    (picksOf : List Bool → List Nat)
    (hshape : ∀ y, (rowsOf y).length = min b (unl y) ∧ (rowsOf y).length = (noiseOf y).length)
    (hrun : ∀ y, Ska.Seq.shrinkSeq (unlabeledIdx y) (rowsOf y) (noiseOf y) = some (picksOf y)) :
    ∀ y, Exhausts y b (alLoop picksOf (unl y) y) := by
  intro y
  refine alLoop_exhausts _ b hb ?_ (unl y) y (Nat.le_refl _)
  intro y' _
  obtain ⟨hs1, hs2⟩ := hshape y'
  obtain ⟨hnd, hu, -⟩ := unlabeledIdx_spec y'
  obtain ⟨h1, h2, h3⟩ := Ska.C01choice.shrinkSeq_valid (unlabeledIdx y') (rowsOf y') (noiseOf y') (picksOf y') hnd (hrun y')
  exact ⟨by rw [h1, ← hs2, Nat.min_self, hs1], h2, fun i hi => (hu i).mp (h3 i hi)⟩

/-! ### non-vacuity -/

example : alTraceAccepts 2 [true, false, true, true] [[3, 0], [2]] = true := by decide
example : Exhausts [true, false, true, true] 2 [[3, 0], [2]] :=
  alTraceAccepts_sound 2 (by decide) _ _ (by decide)

end Ska.C14
