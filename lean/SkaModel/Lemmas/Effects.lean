import SkaModel.Core.Effects

/-!
# Soundness of the abstract interpretation `check` w.r.t. the store semantics `run`

Helper lemmas for `Props/C05.lean` and `Props/C13.lean` (core Lean only).
-/

namespace Ska.Effects

/-! ## bit sets -/

theorem forceN_eq {β : Type} (n : Nat) (k : Nat → β) : forceN n k = k n := by
  cases n <;> rfl

theorem Abs.force_eq {β : Type} (A : Abs) (k : Abs → β) : A.force k = k A := by
  simp [Abs.force, forceN_eq]

theorem testBit_setBitTo (n i j : Nat) (b : Bool) :
    (setBitTo n i b).testBit j = if j = i then b else n.testBit j := by
  unfold setBitTo
  cases b
  · simp only [Bool.false_eq_true, if_false, Nat.testBit_xor, Nat.testBit_and, Nat.testBit_two_pow]
    by_cases h : j = i
    · subst h; simp
    · have : ¬ i = j := fun e => h e.symm
      simp [h, this]
  · simp only [if_true, Nat.testBit_or, Nat.testBit_two_pow]
    by_cases h : j = i
    · subst h; simp
    · have : ¬ i = j := fun e => h e.symm
      simp [h, this]

theorem testBit_maskOf (l : List Nat) (i : Nat) : (maskOf l).testBit i = l.contains i := by
  induction l with
  | nil => simp [maskOf]
  | cons a l ih =>
    simp only [maskOf, Nat.testBit_or, Nat.testBit_two_pow, ih, List.contains_cons]
    by_cases h : a = i
    · subst h; simp
    · have : ¬ i = a := fun e => h e.symm
      simp [h, this]

/-! ## `check` in direct style -/

theorem check_seq (S : Summary) (e : Atom) (rest : Prog) (A : Abs) :
    check S (.seq e rest) A =
      ((checkAtom S.params A e).1 && (check S rest (checkAtom S.params A e).2).1,
       (check S rest (checkAtom S.params A e).2).2) := by
  rw [check, Abs.force_eq]

theorem check_ite (S : Summary) (t e rest : Prog) (A : Abs) :
    check S (.ite t e rest) A =
      match joinO (check S t A).2 (check S e A).2 with
      | none => ((check S t A).1 && (check S e A).1, none)
      | some J => ((check S t A).1 && (check S e A).1 && (check S rest J).1, (check S rest J).2) := by
  rw [check, Abs.force_eq]
  cases check S t A with
  | mk ok1 r1 =>
    cases check S e A with
    | mk ok2 r2 =>
      simp only
      cases joinO r1 r2 <;> rfl

theorem histCheck_seq (ps : List Nat) (e : Atom) (rest : Prog) (W : Nat) :
    histCheck ps (.seq e rest) W =
      ((histAtom ps W e).1 && (histCheck ps rest (histAtom ps W e).2).1,
       (histCheck ps rest (histAtom ps W e).2).2) := by
  rw [histCheck, forceN_eq]

theorem histCheck_ite (ps : List Nat) (t e rest : Prog) (W : Nat) :
    histCheck ps (.ite t e rest) W =
      match joinW (histCheck ps t W).2 (histCheck ps e W).2 with
      | none => ((histCheck ps t W).1 && (histCheck ps e W).1, none)
      | some J =>
        ((histCheck ps t W).1 && (histCheck ps e W).1 && (histCheck ps rest J).1,
         (histCheck ps rest J).2) := by
  rw [histCheck, forceN_eq]
  cases histCheck ps t W with
  | mk ok1 r1 =>
    cases histCheck ps e W with
    | mk ok2 r2 =>
      simp only
      cases joinW r1 r2 <;> rfl

/-! ## The frame context of one call -/

/-- Fixed data of one call: `n₀` the allocation pointer on entry, `self`, its parameter attributes,
`O` the old cells privately owned by `self` (objects created by earlier calls of `self`), `W` the
fields that calls of *other* strategy objects (`callInner`) are allowed to write. -/
structure Ctx where
  n₀ : Nat
  self : Nat
  ps : List Nat
  O : Nat → Prop
  W : Nat → Nat → Prop

/-- a cell this call may mutate without the caller noticing -/
def Ctx.Safe (C : Ctx) (r : Nat) : Prop := C.n₀ ≤ r ∨ C.O r

structure Ctx.WF (C : Ctx) : Prop where
  self_lt : C.self < C.n₀
  O_self : ¬ C.O C.self
  W_lt : ∀ c k, C.W c k → c < C.n₀
  W_O : ∀ c k, C.W c k → ¬ C.O c
  W_self : ∀ k, C.W C.self k → C.ps.contains k = false

/-- The only old fields the call may change: cells owned by `self`, what inner calls may write, and
the non-parameter attributes of `self`. -/
def Ctx.Touch (C : Ctx) (r k : Nat) : Prop :=
  C.O r ∨ C.W r k ∨ (r = C.self ∧ C.ps.contains k = false)

def FrameRel (C : Ctx) (h h' : Heap) : Prop :=
  h.next ≤ h'.next ∧ ∀ r k, r < C.n₀ → ¬ C.Touch r k → h'.cell r k = h.cell r k

/-- Contract of the transformers used for `callInner`: they leave alone every existing field
outside `W`. -/
def InnerOK (C : Ctx) (inner : Nat → Heap → Heap) : Prop :=
  ∀ r h, C.n₀ ≤ h.next →
    h.next ≤ (inner r h).next ∧ ∀ c k, c < h.next → ¬ C.W c k → (inner r h).cell c k = h.cell c k

theorem FrameRel.refl (C : Ctx) (h : Heap) : FrameRel C h h :=
  ⟨Nat.le_refl _, fun _ _ _ _ => rfl⟩

theorem FrameRel.trans {C : Ctx} {h₁ h₂ h₃ : Heap} (a : FrameRel C h₁ h₂) (b : FrameRel C h₂ h₃) :
    FrameRel C h₁ h₃ :=
  ⟨Nat.le_trans a.1 b.1, fun r k hr ht => (b.2 r k hr ht).trans (a.2 r k hr ht)⟩

/-! ## The simulation invariant -/

def okVal (C : Ctx) (D : Nat → Prop) (nx : Nat) (k : Cls) (v : Val) : Prop :=
  (k.m = true → ∀ r, v = .ref r → C.Safe r ∧ r < nx) ∧
  (k.c = true → ∀ r, v = .ref r → D r) ∧
  (k.n = true → ∀ r, v = .ref r → ¬ D r ∧ r < nx)

def Cls.le (k k' : Cls) : Prop :=
  (k.m = true → k'.m = true) ∧ (k.c = true → k'.c = true) ∧ (k.n = true → k'.n = true)

theorem okVal_le {C : Ctx} {D : Nat → Prop} {nx : Nat} {k k' : Cls} {v : Val} (hle : k.le k')
    (h : okVal C D nx k' v) : okVal C D nx k v :=
  ⟨fun hm => h.1 (hle.1 hm), fun hc => h.2.1 (hle.2.1 hc), fun hn => h.2.2 (hle.2.2 hn)⟩

/-- the closed set may grow by cells that did not exist yet, the allocation pointer may advance -/
theorem okVal_grow {C : Ctx} {D D' : Nat → Prop} {nx nx' : Nat} (hnx : nx ≤ nx')
    (hD : ∀ c, D c → D' c) (hD' : ∀ c, D' c → D c ∨ nx ≤ c) {k : Cls} {v : Val}
    (h : okVal C D nx k v) : okVal C D' nx' k v := by
  refine ⟨fun hm r hv => ?_, fun hc r hv => hD _ (h.2.1 hc r hv), fun hn r hv => ?_⟩
  · have := h.1 hm r hv; exact ⟨this.1, by omega⟩
  · have := h.2.2 hn r hv
    refine ⟨fun hd => ?_, by omega⟩
    rcases hD' r hd with hd | hd
    · exact this.1 hd
    · omega

theorem okVal_atom (C : Ctx) (D : Nat → Prop) (nx : Nat) (k : Cls) (n : Nat) :
    okVal C D nx k (.atom n) :=
  ⟨fun _ r h => (by cases h), fun _ r h => (by cases h), fun _ r h => (by cases h)⟩

theorem okVal_none (C : Ctx) (D : Nat → Prop) (nx : Nat) (v : Val) : okVal C D nx ⟨false, false, false⟩ v :=
  ⟨fun h => (by cases h), fun h => (by cases h), fun h => (by cases h)⟩

structure Sim (C : Ctx) (A : Abs) (D : Nat → Prop) (s : St) : Prop where
  loc : ∀ x, okVal C D s.h.next (clsPath A (.loc x)) (s.env x)
  attr : ∀ a, okVal C D s.h.next (clsPath A (.attr a)) (s.h.cell C.self a)
  dsafe : ∀ c, D c → C.Safe c ∧ c < s.h.next
  dclosed : ∀ c, D c → ∀ k r, s.h.cell c k = .ref r → D r
  nxt : C.n₀ ≤ s.h.next

theorem Safe.ne_self {C : Ctx} (hC : C.WF) {r : Nat} (h : C.Safe r) : r ≠ C.self := by
  intro e
  subst e
  rcases h with h | h
  · have := hC.self_lt; omega
  · exact hC.O_self h

theorem clsPath_sound {C : Ctx} {A : Abs} {D : Nat → Prop} {s : St} (hs : Sim C A D s) (p : Path) :
    okVal C D s.h.next (clsPath A p) (evalPath C.self s p) := by
  induction p with
  | loc x => exact hs.loc x
  | attr a => exact hs.attr a
  | sub p k ih =>
    simp only [clsPath, evalPath]
    cases hc : (clsPath A p).c with
    | false => exact okVal_none _ _ _ _
    | true =>
      cases hv : evalPath C.self s p with
      | atom n => exact okVal_atom _ _ _ _ _
      | ref r =>
        have hD : D r := ih.2.1 hc r hv
        refine ⟨fun _ r' hr' => hs.dsafe _ (hs.dclosed r hD k r' hr'),
          fun _ r' hr' => hs.dclosed r hD k r' hr', fun h => (by cases h)⟩

theorem mutOK_safe {C : Ctx} {A : Abs} {D : Nat → Prop} {s : St} (hs : Sim C A D s) (p : Path)
    (hok : mutOK A p = true) (r : Nat) (hv : evalPath C.self s p = .ref r) : C.Safe r := by
  unfold mutOK at hok
  simp only [Bool.or_eq_true] at hok
  rcases hok with h | h
  · exact ((clsPath_sound hs p).1 h r hv).1
  · exact (hs.dsafe r ((clsPath_sound hs p).2.1 h r hv)).1

theorem pickStored_closed {C : Ctx} {A : Abs} {D : Nat → Prop} {s : St} (hs : Sim C A D s)
    (ps : List Path) (hall : allClosed A ps = true) (i : Nat) (d : Val) (r : Nat)
    (hd : d = .ref r → D r) (h : pickStored C.self s ps i d = .ref r) : D r := by
  unfold pickStored at h
  cases hp : ps[i]? with
  | none => rw [hp] at h; exact hd h
  | some p =>
    rw [hp] at h
    have hmem : p ∈ ps := List.mem_of_getElem? hp
    have hc : (clsPath A p).c = true := by
      unfold allClosed at hall
      exact (List.all_eq_true.mp hall) p hmem
    exact (clsPath_sound hs p).2.1 hc r h

/-! ### monotonicity of `Sim` in the abstract state -/

theorem Sim.weaken {C : Ctx} {A B : Abs} {D : Nat → Prop} {s : St} (hs : Sim C A D s)
    (hl : ∀ x, (clsPath B (.loc x)).le (clsPath A (.loc x)))
    (ha : ∀ x, (clsPath B (.attr x)).le (clsPath A (.attr x))) : Sim C B D s :=
  { loc := fun x => okVal_le (hl x) (hs.loc x)
    attr := fun a => okVal_le (ha a) (hs.attr a)
    dsafe := hs.dsafe
    dclosed := hs.dclosed
    nxt := hs.nxt }

theorem Sim.join_left {C : Ctx} {A B : Abs} {D : Nat → Prop} {s : St} (hs : Sim C A D s) :
    Sim C (A.join B) D s := by
  apply hs.weaken <;> intro x <;>
    simp only [Cls.le, clsPath, Abs.join, Nat.testBit_and, Bool.and_eq_true] <;>
    exact ⟨fun h => h.1, fun h => h.1, fun h => h.1⟩

theorem Sim.join_right {C : Ctx} {A B : Abs} {D : Nat → Prop} {s : St} (hs : Sim C B D s) :
    Sim C (A.join B) D s := by
  apply hs.weaken <;> intro x <;>
    simp only [Cls.le, clsPath, Abs.join, Nat.testBit_and, Bool.and_eq_true] <;>
    exact ⟨fun h => h.2, fun h => h.2, fun h => h.2⟩

theorem Sim.forgetAttrs {C : Ctx} {A : Abs} {D : Nat → Prop} {s : St} (hs : Sim C A D s) :
    Sim C A.forgetAttrs D s := by
  apply hs.weaken <;> intro x <;> simp [Cls.le, clsPath, Abs.forgetAttrs]

theorem okVal_demote {C : Ctx} {D : Nat → Prop} {nx : Nat} {k : Cls} {v : Val}
    (hd : ∀ c, D c → C.Safe c ∧ c < nx) (h : okVal C D nx k v) :
    okVal C (fun _ => False) nx ⟨k.m || k.c, false, k.m || k.c || k.n⟩ v := by
  have hmc : (k.m || k.c) = true → ∀ r, v = .ref r → C.Safe r ∧ r < nx := by
    intro hmc r hv
    simp only [Bool.or_eq_true] at hmc
    rcases hmc with hm | hc
    · exact h.1 hm r hv
    · exact hd r (h.2.1 hc r hv)
  refine ⟨hmc, fun hf => (by cases hf), fun hn r hv => ⟨fun hf => hf, ?_⟩⟩
  simp only [Bool.or_eq_true] at hn
  rcases hn with hn | hn
  · exact (hmc (by simpa using hn) r hv).2
  · exact (h.2.2 hn r hv).2

/-- Dropping all `closed` facts: the closed set may be emptied. -/
theorem Sim.demote {C : Ctx} {A : Abs} {D : Nat → Prop} {s : St} (hs : Sim C A D s) :
    Sim C A.demote (fun _ => False) s :=
  { loc := fun x => by
      have := okVal_demote hs.dsafe (hs.loc x)
      simpa [clsPath, Abs.demote, Nat.testBit_or] using this
    attr := fun a => by
      have := okVal_demote hs.dsafe (hs.attr a)
      simpa [clsPath, Abs.demote, Nat.testBit_or] using this
    dsafe := fun _ h => h.elim
    dclosed := fun _ h => h.elim
    nxt := hs.nxt }

/-! ### heap updates that keep `Sim` -/

theorem Sim.alloc_plain {C : Ctx} (hC : C.WF) {A : Abs} {D : Nat → Prop} {s : St} (hs : Sim C A D s)
    (o : Nat → Val) : Sim C A D { s with h := s.h.alloc o } := by
  have hself : C.self ≠ s.h.next := by have := hC.self_lt; have := hs.nxt; omega
  have hg : ∀ {k v}, okVal C D s.h.next k v → okVal C D (s.h.alloc o).next k v := fun h =>
    okVal_grow (by simp [Heap.alloc]) (fun _ h => h) (fun _ h => Or.inl h) h
  refine ⟨fun x => hg (hs.loc x), fun a => ?_, fun c hc => ?_, fun c hc k r hv => ?_, ?_⟩
  · have := hg (hs.attr a)
    simpa only [Heap.alloc, hself, if_false] using this
  · have := hs.dsafe c hc
    exact ⟨this.1, by simp only [Heap.alloc]; omega⟩
  · have hlt := (hs.dsafe c hc).2
    have hne : c ≠ s.h.next := by omega
    simp only [Heap.alloc, hne, if_false] at hv
    exact hs.dclosed c hc k r hv
  · have := hs.nxt; simp only [Heap.alloc]; omega

theorem Sim.alloc_closed {C : Ctx} (hC : C.WF) {A : Abs} {D : Nat → Prop} {s : St} (hs : Sim C A D s)
    (o : Nat → Val) (ho : ∀ k r, o k = .ref r → D r ∨ r = s.h.next) :
    Sim C A (fun c => D c ∨ c = s.h.next) { s with h := s.h.alloc o } := by
  have hself : C.self ≠ s.h.next := by have := hC.self_lt; have := hs.nxt; omega
  have hg : ∀ {k v}, okVal C D s.h.next k v →
      okVal C (fun c => D c ∨ c = s.h.next) (s.h.alloc o).next k v := fun h =>
    okVal_grow (by simp [Heap.alloc]) (fun _ h => Or.inl h)
      (fun c h => by rcases h with h | h; exact Or.inl h; exact Or.inr (by omega)) h
  refine ⟨fun x => hg (hs.loc x), fun a => ?_, fun c hc => ?_, fun c hc k r hv => ?_, ?_⟩
  · have := hg (hs.attr a)
    simpa only [Heap.alloc, hself, if_false] using this
  · rcases hc with hc | hc
    · have := hs.dsafe c hc
      exact ⟨this.1, by simp only [Heap.alloc]; omega⟩
    · subst hc
      exact ⟨Or.inl hs.nxt, by simp only [Heap.alloc]; omega⟩
  · rcases hc with hc | hc
    · have hlt := (hs.dsafe c hc).2
      have hne : c ≠ s.h.next := by omega
      simp only [Heap.alloc, hne, if_false] at hv
      exact Or.inl (hs.dclosed c hc k r hv)
    · subst hc
      simp only [Heap.alloc, if_true] at hv
      exact ho k r hv
  · have := hs.nxt; simp only [Heap.alloc]; omega

theorem Sim.setCell {C : Ctx} (hC : C.WF) {A : Abs} {D : Nat → Prop} {s : St} (hs : Sim C A D s)
    (r : Nat) (hr : C.Safe r) (o : Nat → Val) (ho : D r → ∀ k r', o k = .ref r' → D r') (n : Nat) :
    Sim C A D { s with h := s.h.setCell r o, clk := n } := by
  have hne : C.self ≠ r := fun e => Safe.ne_self hC hr e.symm
  refine ⟨hs.loc, fun a => ?_, hs.dsafe, fun c hc k r' hv => ?_, hs.nxt⟩
  · simp only [Heap.setCell, hne, if_false]; exact hs.attr a
  · by_cases hcr : c = r
    · subst hcr
      simp only [Heap.setCell, if_true] at hv
      exact ho hc k r' hv
    · simp only [Heap.setCell, hcr, if_false] at hv
      exact hs.dclosed c hc k r' hv

theorem frame_setCell {C : Ctx} (h : Heap) (r : Nat) (hr : C.Safe r) (o : Nat → Val) :
    FrameRel C h (h.setCell r o) := by
  refine ⟨Nat.le_refl _, fun r' k hlt ht => ?_⟩
  by_cases e : r' = r
  · subst e
    rcases hr with hr | hr
    · omega
    · exact absurd (Or.inl hr) ht
  · simp [Heap.setCell, e]

theorem frame_alloc (C : Ctx) (h : Heap) (hn : C.n₀ ≤ h.next) (o : Nat → Val) :
    FrameRel C h (h.alloc o) := by
  refine ⟨by simp [Heap.alloc], fun r k hlt _ => ?_⟩
  have : r ≠ h.next := by omega
  simp [Heap.alloc, this]

/-! ### right-hand sides -/

/-- the reference to a newly allocated cell that was *not* put into the closed set -/
theorem okVal_new_open {C : Ctx} {D : Nat → Prop} {s : St} (hs : Sim C A D s) (o : Nat → Val) (c : Bool)
    (hc : c = false) : okVal C D (s.h.alloc o).next ⟨true, c, !c⟩ (.ref s.h.next) := by
  subst hc
  refine ⟨fun _ r hr => ?_, fun h => (by cases h), fun _ r hr => ?_⟩
  · cases hr; exact ⟨Or.inl hs.nxt, by simp [Heap.alloc]⟩
  · cases hr
    refine ⟨fun hd => ?_, by simp [Heap.alloc]⟩
    have := (hs.dsafe _ hd).2
    omega

/-- the reference to a newly allocated cell that was put into the closed set -/
theorem okVal_new_closed {C : Ctx} {D : Nat → Prop} {s : St} (hs : Sim C A D s) (o : Nat → Val) (c : Bool)
    (hc : c = true) :
    okVal C (fun q => D q ∨ q = s.h.next) (s.h.alloc o).next ⟨true, c, !c⟩ (.ref s.h.next) := by
  subst hc
  refine ⟨fun _ r hr => ?_, fun _ r hr => ?_, fun h => (by cases h)⟩
  · cases hr; exact ⟨Or.inl hs.nxt, by simp [Heap.alloc]⟩
  · cases hr; exact Or.inr rfl

theorem rhs_sound {C : Ctx} (hC : C.WF) {A : Abs} {D : Nat → Prop} {s : St} (ω : Ora)
    (hs : Sim C A D s) (r : Rhs) :
    ∃ D', okVal C D' (evalRhs C.self ω s r).2.next (clsRhs A r) (evalRhs C.self ω s r).1 ∧
      Sim C A D' { s with h := (evalRhs C.self ω s r).2 } ∧
      FrameRel C s.h (evalRhs C.self ω s r).2 := by
  cases r with
  | alias p =>
    exact ⟨D, clsPath_sound hs p, hs, FrameRel.refl _ _⟩
  | copy p =>
    simp only [evalRhs, clsRhs]
    cases hv : evalPath C.self s p with
    | atom n => exact ⟨D, okVal_atom _ _ _ _ _, hs, FrameRel.refl _ _⟩
    | ref r =>
      simp only
      cases hc : (clsPath A p).c with
      | false =>
        exact ⟨D, okVal_new_open hs _ _ rfl, hs.alloc_plain hC _, frame_alloc C _ hs.nxt _⟩
      | true =>
        have hD : D r := (clsPath_sound hs p).2.1 hc r hv
        exact ⟨fun c => D c ∨ c = s.h.next, okVal_new_closed hs _ _ rfl,
          hs.alloc_closed hC _ (fun k r' hr' => Or.inl (hs.dclosed r hD k r' hr')),
          frame_alloc C _ hs.nxt _⟩
  | deep p =>
    simp only [evalRhs, clsRhs]
    cases hv : evalPath C.self s p with
    | atom n => exact ⟨D, okVal_atom _ _ _ _ _, hs, FrameRel.refl _ _⟩
    | ref r =>
      simp only
      refine ⟨fun c => D c ∨ c = s.h.next, okVal_new_closed hs _ true rfl,
        hs.alloc_closed hC _ (fun k r' hr' => ?_), frame_alloc C _ hs.nxt _⟩
      right
      cases hcell : s.h.cell r k with
      | atom n => rw [hcell] at hr'; cases hr'
      | ref q => rw [hcell] at hr'; cases hr'; rfl
  | fresh caps =>
    simp only [evalRhs, clsRhs]
    cases hc : allClosed A caps with
    | false =>
      exact ⟨D, okVal_new_open hs _ _ rfl, hs.alloc_plain hC _, frame_alloc C _ hs.nxt _⟩
    | true =>
      refine ⟨fun c => D c ∨ c = s.h.next, okVal_new_closed hs _ _ rfl,
        hs.alloc_closed hC _ (fun k r' hr' => ?_), frame_alloc C _ hs.nxt _⟩
      left
      cases hp : ω.pick s.clk k with
      | keep => rw [hp] at hr'; cases hr'
      | atom n => rw [hp] at hr'; cases hr'
      | stored i =>
        rw [hp] at hr'
        exact pickStored_closed hs caps hc i (.atom 0) r' (fun h => by cases h) hr'

/-! ### atoms -/

theorem Sim.clk {C : Ctx} {A : Abs} {D : Nat → Prop} {s : St} (hs : Sim C A D s) (n : Nat) :
    Sim C A D { s with clk := n } :=
  ⟨hs.loc, hs.attr, hs.dsafe, hs.dclosed, hs.nxt⟩

theorem atom_sound {C : Ctx} (hC : C.WF) (inner : Nat → Heap → Heap) (hin : InnerOK C inner) (ω : Ora)
    {A : Abs} {D : Nat → Prop} {s : St} (hs : Sim C A D s) (e : Atom)
    (hok : (checkAtom C.ps A e).1 = true) :
    ∃ D', Sim C (checkAtom C.ps A e).2 D' (execAtom C.self inner ω s e) ∧
      FrameRel C s.h (execAtom C.self inner ω s e).h := by
  cases e with
  | bind x r =>
    obtain ⟨D', hval, hsim', hfr⟩ := rhs_sound hC ω hs r
    simp only [execAtom, checkAtom]
    cases hE : evalRhs C.self ω s r with
    | mk v h' =>
      rw [hE] at hval hsim' hfr
      refine ⟨D', ⟨fun y => ?_, fun a => hsim'.attr a, hsim'.dsafe, hsim'.dclosed, hsim'.nxt⟩, hfr⟩
      simp only [clsPath, Abs.setLoc, testBit_setBitTo]
      by_cases hy : y = x
      · simp only [hy, if_true]
        exact hval
      · simp only [hy, if_false]
        exact hsim'.loc y
  | writeAttr a r =>
    obtain ⟨D', hval, hsim', hfr⟩ := rhs_sound hC ω hs r
    simp only [execAtom, checkAtom] at hok ⊢
    cases hE : evalRhs C.self ω s r with
    | mk v h' =>
      rw [hE] at hval hsim' hfr
      have hpa : C.ps.contains a = false := by
        cases hc : C.ps.contains a with
        | false => rfl
        | true => rw [hc] at hok; cases hok
      refine ⟨D', ⟨fun y => hsim'.loc y, fun a' => ?_, hsim'.dsafe, fun c hc k q hv => ?_, hsim'.nxt⟩, ?_⟩
      · simp only [clsPath, Abs.setAttr, testBit_setBitTo, Heap.setField, Heap.setCell, if_true]
        by_cases ha : a' = a
        · simp only [ha, if_true]
          exact hval
        · simp only [ha, if_false]
          exact hsim'.attr a'
      · have hne : c ≠ C.self := Safe.ne_self hC (hsim'.dsafe c hc).1
        simp only [Heap.setField, Heap.setCell, hne, if_false] at hv
        exact hsim'.dclosed c hc k q hv
      · refine hfr.trans ⟨Nat.le_refl _, fun r' k hlt ht => ?_⟩
        by_cases e1 : r' = C.self
        · subst e1
          have hk : k ≠ a := by
            intro e2; subst e2
            exact ht (Or.inr (Or.inr ⟨rfl, hpa⟩))
          simp [Heap.setField, Heap.setCell, hk]
        · simp [Heap.setField, Heap.setCell, e1]
  | mutate p stored =>
    simp only [execAtom, checkAtom] at hok ⊢
    cases hv : evalPath C.self s p with
    | atom n =>
      simp only [St.tick]
      cases hall : ((clsPath A p).n || allClosed A stored) with
      | true => exact ⟨D, by simpa using hs.clk _, FrameRel.refl _ _⟩
      | false => exact ⟨fun _ => False, by simpa using hs.demote.clk _, FrameRel.refl _ _⟩
    | ref r =>
      have hsafe : C.Safe r := mutOK_safe hs p hok r hv
      simp only
      cases hall : ((clsPath A p).n || allClosed A stored) with
      | true =>
        refine ⟨D, ?_, frame_setCell _ _ hsafe _⟩
        simp only [if_true]
        refine hs.setCell hC r hsafe _ (fun hD k r' hr' => ?_) _
        simp only [Bool.or_eq_true] at hall
        rcases hall with hn | hall
        · exact absurd hD ((clsPath_sound hs p).2.2 hn r hv).1
        · cases hp : ω.pick s.clk k with
          | keep => rw [hp] at hr'; exact hs.dclosed r hD k r' hr'
          | atom n => rw [hp] at hr'; cases hr'
          | stored i =>
            rw [hp] at hr'
            exact pickStored_closed hs stored hall i _ r' (fun h => hs.dclosed r hD k r' h) hr'
      | false =>
        refine ⟨fun _ => False, ?_, frame_setCell _ _ hsafe _⟩
        simp only [Bool.false_eq_true, if_false]
        exact hs.demote.setCell hC r hsafe _ (fun hD => hD.elim) _
  | callFit p =>
    simp only [execAtom, checkAtom] at hok ⊢
    cases hv : evalPath C.self s p with
    | atom n => exact ⟨D, by simpa [St.tick] using hs.clk _, FrameRel.refl _ _⟩
    | ref r =>
      have hsafe : C.Safe r := mutOK_safe hs p hok r hv
      refine ⟨D, ?_, frame_setCell _ _ hsafe _⟩
      refine hs.setCell hC r hsafe _ (fun hD k r' hr' => ?_) _
      cases hp : ω.pick s.clk k with
      | keep => rw [hp] at hr'; exact hs.dclosed r hD k r' hr'
      | atom n => rw [hp] at hr'; cases hr'
      | stored i => rw [hp] at hr'; exact hs.dclosed r hD k r' hr'
  | callInner p =>
    simp only [execAtom, checkAtom]
    cases hv : evalPath C.self s p with
    | atom n => exact ⟨D, by simpa [St.tick] using hs.forgetAttrs.clk _, FrameRel.refl _ _⟩
    | ref r =>
      obtain ⟨hnext, hcells⟩ := hin r s.h hs.nxt
      have hkeep : ∀ c, C.Safe c → c < s.h.next → ∀ k, (inner r s.h).cell c k = s.h.cell c k := by
        intro c hc hlt k
        apply hcells c k hlt
        intro hw
        rcases hc with hc | hc
        · have := hC.W_lt c k hw; omega
        · exact hC.W_O c k hw hc
      refine ⟨D, ⟨fun x => ?_, fun a => ?_, fun c hc => ?_, fun c hc k q hq => ?_, ?_⟩, hnext, ?_⟩
      · exact okVal_grow hnext (fun _ h => h) (fun _ h => Or.inl h) (hs.forgetAttrs.loc x)
      · simp only [clsPath, Abs.forgetAttrs, Nat.zero_testBit]
        exact okVal_none _ _ _ _
      · have := hs.dsafe c hc
        exact ⟨this.1, by simp only; omega⟩
      · have := hs.dsafe c hc
        simp only at hq
        rw [hkeep c this.1 this.2 k] at hq
        exact hs.dclosed c hc k q hq
      · have := hs.nxt; simp only; omega
      · intro r' k hlt ht
        have := hs.nxt
        exact hcells r' k (by omega) (fun hw => ht (Or.inr (Or.inl hw)))
  | readAttr a => exact ⟨D, by simpa [execAtom, checkAtom, St.tick] using hs.clk _, FrameRel.refl _ _⟩

/-! ### programs -/

theorem execAtom_dead (self : Nat) (inner : Nat → Heap → Heap) (ω : Ora) (s : St) (e : Atom) :
    (execAtom self inner ω s e).dead = s.dead := by
  cases e with
  | bind x r => simp only [execAtom]
  | writeAttr a r => simp only [execAtom]
  | mutate p st => simp only [execAtom]; cases evalPath self s p <;> rfl
  | callFit p => simp only [execAtom]; cases evalPath self s p <;> rfl
  | callInner p => simp only [execAtom]; cases evalPath self s p <;> rfl
  | readAttr a => rfl

/-- What `check` guarantees about the state a program ends in: after an exceptional exit the
ownership exit condition holds for some abstract state describing the final store; after a normal
exit the abstract state computed by `check` describes it. -/
def Post (C : Ctx) (S : Summary) (r : Option Abs) (D' : Nat → Prop) (s' : St) : Prop :=
  if s'.dead then ∃ A', Sim C A' D' s' ∧ exitOK S A' = true
  else ∃ A', r = some A' ∧ Sim C A' D' s'

theorem Sim.dead {C : Ctx} {A : Abs} {D : Nat → Prop} {s : St} (hs : Sim C A D s) (b : Bool) :
    Sim C A D { s with dead := b } :=
  ⟨hs.loc, hs.attr, hs.dsafe, hs.dclosed, hs.nxt⟩

theorem prog_sound {C : Ctx} (hC : C.WF) (S : Summary) (hps : S.params = C.ps)
    (inner : Nat → Heap → Heap) (hin : InnerOK C inner) (ω : Ora)
    (p : Prog) : ∀ {A : Abs} {D : Nat → Prop} {s : St}, Sim C A D s → s.dead = false →
      (check S p A).1 = true →
      ∃ D', Post C S (check S p A).2 D' (run C.self inner ω p s) ∧
        FrameRel C s.h (run C.self inner ω p s).h := by
  induction p with
  | skip =>
    intro A D s hs hd _
    refine ⟨D, ?_, FrameRel.refl _ _⟩
    simp only [Post, run, hd, check]
    exact ⟨A, rfl, hs⟩
  | abort =>
    intro A D s hs _ hok
    refine ⟨D, ?_, FrameRel.refl _ _⟩
    simp only [Post, run, if_true]
    exact ⟨A, hs.dead true, by simpa [check] using hok⟩
  | seq e rest ih =>
    intro A D s hs hd hok
    rw [check_seq] at hok ⊢
    simp only [Bool.and_eq_true] at hok
    have hok1 : (checkAtom C.ps A e).1 = true := by rw [← hps]; exact hok.1
    obtain ⟨D₁, hs₁, hf₁⟩ := atom_sound hC inner hin ω hs e hok1
    rw [← hps] at hs₁
    have hd₁ : (execAtom C.self inner ω s e).dead = false := by rw [execAtom_dead]; exact hd
    obtain ⟨D₂, hp₂, hf₂⟩ := ih hs₁ hd₁ hok.2
    exact ⟨D₂, hp₂, hf₁.trans hf₂⟩
  | ite t e rest iht ihe ihr =>
    intro A D s hs hd hok
    rw [check_ite] at hok ⊢
    simp only [run]
    have hst : Sim C A D s.tick := hs.clk _
    have hdt : s.tick.dead = false := hd
    have hft : FrameRel C s.h s.tick.h := FrameRel.refl _ _
    -- the state after the branch, its Post w.r.t. the branch's own result, and the frame
    have hbranch : ∃ D₁ r₁, Post C S r₁ D₁
          (if ω.coin s.clk then run C.self inner ω t s.tick else run C.self inner ω e s.tick) ∧
        FrameRel C s.h
          (if ω.coin s.clk then run C.self inner ω t s.tick else run C.self inner ω e s.tick).h ∧
        (∀ A₁, r₁ = some A₁ → ∃ J, joinO (check S t A).2 (check S e A).2 = some J ∧
          ∀ D₂ s₂, Sim C A₁ D₂ s₂ → Sim C J D₂ s₂) ∧
        ((check S t A).1 = true ∧ (check S e A).1 = true) := by
      have hoks : (check S t A).1 = true ∧ (check S e A).1 = true := by
        cases hj : joinO (check S t A).2 (check S e A).2 with
        | none => rw [hj] at hok; simpa using hok
        | some J => rw [hj] at hok; simp only [Bool.and_eq_true] at hok; exact hok.1
      cases hc : ω.coin s.clk with
      | true =>
        obtain ⟨D₁, hp₁, hf₁⟩ := iht hst hdt hoks.1
        refine ⟨D₁, (check S t A).2, by simpa using hp₁, by simpa using hft.trans hf₁, ?_, hoks⟩
        intro A₁ hA₁
        rw [hA₁]
        cases h2 : (check S e A).2 with
        | none => exact ⟨A₁, rfl, fun _ _ h => h⟩
        | some A₂ => exact ⟨A₁.join A₂, rfl, fun _ _ h => h.join_left⟩
      | false =>
        obtain ⟨D₁, hp₁, hf₁⟩ := ihe hst hdt hoks.2
        refine ⟨D₁, (check S e A).2, by simpa using hp₁, by simpa using hft.trans hf₁, ?_, hoks⟩
        intro A₂ hA₂
        rw [hA₂]
        cases h1 : (check S t A).2 with
        | none => exact ⟨A₂, rfl, fun _ _ h => h⟩
        | some A₁ => exact ⟨A₁.join A₂, rfl, fun _ _ h => h.join_right⟩
    obtain ⟨D₁, r₁, hp₁, hf₁, hjoin, hoks⟩ := hbranch
    generalize hs' : (if ω.coin s.clk then run C.self inner ω t s.tick else run C.self inner ω e s.tick) = s' at hp₁ hf₁
    cases hdead : s'.dead with
    | true =>
      simp only [if_true]
      refine ⟨D₁, ?_, hf₁⟩
      unfold Post at hp₁ ⊢
      simp only [hdead, if_true] at hp₁ ⊢
      exact hp₁
    | false =>
      simp only [Bool.false_eq_true, if_false]
      unfold Post at hp₁
      simp only [hdead, Bool.false_eq_true, if_false] at hp₁
      obtain ⟨A₁, hr₁, hs₁⟩ := hp₁
      obtain ⟨J, hJ, hweak⟩ := hjoin A₁ hr₁
      rw [hJ] at hok ⊢
      simp only [Bool.and_eq_true] at hok
      obtain ⟨D₂, hp₂, hf₂⟩ := ihr (hweak _ _ hs₁) hdead hok.2
      exact ⟨D₂, hp₂, hf₁.trans hf₂⟩

/-! ## History-freeness -/

/-- Two runs agree on the parameters, on everything written so far, on what they have read and on
the program point. -/
def HAgree (ps : List Nat) (W : Nat) (s s' : HSt) : Prop :=
  (∀ a, (ps.contains a || W.testBit a) = true → s.obj a = s'.obj a) ∧ s.log = s'.log ∧ s.clk = s'.clk

theorem HAgree.mono {ps : List Nat} {W W' : Nat} {s s' : HSt} (h : HAgree ps W s s')
    (hW : ∀ a, W'.testBit a = true → W.testBit a = true) : HAgree ps W' s s' := by
  refine ⟨fun a ha => h.1 a ?_, h.2⟩
  simp only [Bool.or_eq_true] at ha ⊢
  rcases ha with ha | ha
  · exact Or.inl ha
  · exact Or.inr (hW a ha)

theorem hatom_sound (F : HOra) (ps : List Nat) (W : Nat) (s s' : HSt) (e : Atom)
    (hag : HAgree ps W s s') (hok : (histAtom ps W e).1 = true) :
    HAgree ps (histAtom ps W e).2 (hAtom F s e) (hAtom F s' e) := by
  obtain ⟨hobj, hlog, hclk⟩ := hag
  have hreads : (atomReads e).map s.obj = (atomReads e).map s'.obj := by
    apply List.map_congr_left
    intro a ha
    exact hobj a ((List.all_eq_true.mp hok) a ha)
  have hlog' : (atomReads e).map s.obj ++ s.log = (atomReads e).map s'.obj ++ s'.log := by
    rw [hreads, hlog]
  cases e with
  | writeAttr a r =>
    simp only [hAtom, histAtom]
    refine ⟨fun a' ha' => ?_, hlog', by rw [hclk]⟩
    by_cases e1 : a' = a
    · simp only [e1, if_true]; rw [hlog', hclk]
    · simp only [e1, if_false]
      apply hobj a'
      simp only [Bool.or_eq_true, Nat.testBit_or, Nat.testBit_two_pow, decide_eq_true_eq] at ha' ⊢
      rcases ha' with h | h | h
      · exact Or.inl h
      · exact Or.inr h
      · exact absurd h.symm e1
  | bind x r => exact ⟨hobj, hlog', by simp only [hAtom]; rw [hclk]⟩
  | mutate p st => exact ⟨hobj, hlog', by simp only [hAtom]; rw [hclk]⟩
  | callFit p => exact ⟨hobj, hlog', by simp only [hAtom]; rw [hclk]⟩
  | callInner p => exact ⟨hobj, hlog', by simp only [hAtom]; rw [hclk]⟩
  | readAttr a => exact ⟨hobj, hlog', by simp only [hAtom]; rw [hclk]⟩

theorem hAtom_dead (F : HOra) (s : HSt) (e : Atom) : (hAtom F s e).dead = s.dead := by
  cases e <;> rfl

/-- Lock-step of two runs: same log, clock and liveness; on a normal exit they agree on the
parameters and on everything `histCheck` reports as certainly written. -/
def HPost (ps : List Nat) (r : Option Nat) (s s' : HSt) : Prop :=
  s.log = s'.log ∧ s.clk = s'.clk ∧ s.dead = s'.dead ∧
    (s.dead = false → ∃ W', r = some W' ∧ HAgree ps W' s s')

theorem hist_sound (F : HOra) (ps : List Nat) (p : Prog) : ∀ (W : Nat) (s s' : HSt),
    HAgree ps W s s' → s.dead = false → s'.dead = false → (histCheck ps p W).1 = true →
      HPost ps (histCheck ps p W).2 (hRun F p s) (hRun F p s') := by
  induction p with
  | skip =>
    intro W s s' h hd hd' _
    exact ⟨h.2.1, h.2.2, by simp only [hRun]; rw [hd, hd'], fun _ => ⟨W, rfl, h⟩⟩
  | abort =>
    intro W s s' h _ _ _
    exact ⟨h.2.1, h.2.2, rfl, fun hf => by simp [hRun] at hf⟩
  | seq e rest ih =>
    intro W s s' h hd hd' hok
    rw [histCheck_seq] at hok ⊢
    simp only [Bool.and_eq_true] at hok
    exact ih _ _ _ (hatom_sound F ps W s s' e h hok.1) (by rw [hAtom_dead]; exact hd)
      (by rw [hAtom_dead]; exact hd') hok.2
  | ite t e rest iht ihe ihr =>
    intro W s s' h hd hd' hok
    rw [histCheck_ite] at hok ⊢
    simp only [hRun]
    have htick : HAgree ps W { s with clk := s.clk + 1 } { s' with clk := s'.clk + 1 } :=
      ⟨h.1, h.2.1, by simp only; rw [h.2.2]⟩
    have hcond : F.cond s'.clk s'.log = F.cond s.clk s.log := by rw [h.2.1, h.2.2]
    rw [hcond]
    have hoks : (histCheck ps t W).1 = true ∧ (histCheck ps e W).1 = true := by
      cases hj : joinW (histCheck ps t W).2 (histCheck ps e W).2 with
      | none => rw [hj] at hok; simpa using hok
      | some J => rw [hj] at hok; simp only [Bool.and_eq_true] at hok; exact hok.1
    -- both runs take the same branch
    have hbranch : ∃ r₁, HPost ps r₁
          (if F.cond s.clk s.log then hRun F t { s with clk := s.clk + 1 }
            else hRun F e { s with clk := s.clk + 1 })
          (if F.cond s.clk s.log then hRun F t { s' with clk := s'.clk + 1 }
            else hRun F e { s' with clk := s'.clk + 1 }) ∧
        (∀ W₁, r₁ = some W₁ → ∃ J, joinW (histCheck ps t W).2 (histCheck ps e W).2 = some J ∧
          ∀ a, J.testBit a = true → W₁.testBit a = true) := by
      cases hc : F.cond s.clk s.log with
      | true =>
        refine ⟨_, by simpa using iht _ _ _ htick hd hd' hoks.1, ?_⟩
        intro W₁ hW₁
        rw [hW₁]
        cases h2 : (histCheck ps e W).2 with
        | none => exact ⟨W₁, rfl, fun _ h => h⟩
        | some W₂ =>
          refine ⟨W₁ &&& W₂, rfl, fun a ha => ?_⟩
          rw [Nat.testBit_and] at ha; simp only [Bool.and_eq_true] at ha; exact ha.1
      | false =>
        refine ⟨_, by simpa using ihe _ _ _ htick hd hd' hoks.2, ?_⟩
        intro W₂ hW₂
        rw [hW₂]
        cases h1 : (histCheck ps t W).2 with
        | none => exact ⟨W₂, rfl, fun _ h => h⟩
        | some W₁ =>
          refine ⟨W₁ &&& W₂, rfl, fun a ha => ?_⟩
          rw [Nat.testBit_and] at ha; simp only [Bool.and_eq_true] at ha; exact ha.2
    obtain ⟨r₁, hp₁, hjoin⟩ := hbranch
    generalize (if F.cond s.clk s.log then hRun F t { s with clk := s.clk + 1 }
            else hRun F e { s with clk := s.clk + 1 }) = u at hp₁
    generalize (if F.cond s.clk s.log then hRun F t { s' with clk := s'.clk + 1 }
            else hRun F e { s' with clk := s'.clk + 1 }) = u' at hp₁
    obtain ⟨hlog, hclk, hdd, hlive⟩ := hp₁
    cases hdu : u.dead with
    | true =>
      have hdu' : u'.dead = true := by rw [← hdd]; exact hdu
      simp only [hdu', if_true]
      exact ⟨hlog, hclk, by rw [hdu, hdu'], fun hf => by rw [hdu] at hf; cases hf⟩
    | false =>
      have hdu' : u'.dead = false := by rw [← hdd]; exact hdu
      simp only [hdu', Bool.false_eq_true, if_false]
      obtain ⟨W₁, hr₁, hag⟩ := hlive hdu
      obtain ⟨J, hJ, hsub⟩ := hjoin W₁ hr₁
      rw [hJ] at hok ⊢
      simp only [Bool.and_eq_true] at hok
      exact ihr _ _ _ (hag.mono hsub) hdu hdu' hok.2

end Ska.Effects
