import SkaModel.Core.Effects

/-!
# Soundness of the abstract interpretation `check` w.r.t. the store semantics `run`

Helper lemmas for `Props/C05.lean` and `Props/C13.lean` (core Lean only).
-/

namespace Ska.Effects

/-! ## bit sets -/

theorem forceN_eq {β : Type} (n : Nat) (k : Nat → β) : forceN n k = k n := by
  cases n <;> rfl

theorem Abs.force_eq {β : Type} (A : Abs) (k : Abs → β) : A.force k = k A := by
  simp [Abs.force, forceN_eq]

theorem testBit_setBitTo (n i j : Nat) (b : Bool) :
    (setBitTo n i b).testBit j = if j = i then b else n.testBit j := by
  unfold setBitTo
  cases b
  · simp only [Bool.false_eq_true, if_false, Nat.testBit_xor, Nat.testBit_and, Nat.testBit_two_pow]
    by_cases h : j = i
    · subst h; simp
    · have : ¬ i = j := fun e => h e.symm
      simp [h, this]
  · simp only [if_true, Nat.testBit_or, Nat.testBit_two_pow]
    by_cases h : j = i
    · subst h; simp
    · have : ¬ i = j := fun e => h e.symm
      simp [h, this]

theorem testBit_maskOf (l : List Nat) (i : Nat) : (maskOf l).testBit i = l.contains i := by
  induction l with
  | nil => simp [maskOf]
  | cons a l ih =>
    simp only [maskOf, Nat.testBit_or, Nat.testBit_two_pow, ih, List.contains_cons]
    by_cases h : a = i
    · subst h; simp
    · have : ¬ i = a := fun e => h e.symm
      simp [h, this]

/-! ## `check` in direct style -/

theorem check_seq (ps : List Nat) (e : Atom) (rest : Prog) (A : Abs) :
    check ps (.seq e rest) A =
      ((checkAtom ps A e).1 && (check ps rest (checkAtom ps A e).2).1,
       (check ps rest (checkAtom ps A e).2).2) := by
  rw [check, Abs.force_eq]

theorem check_ite (ps : List Nat) (t e rest : Prog) (A : Abs) :
    check ps (.ite t e rest) A =
      ((check ps t A).1 && (check ps e A).1 &&
        (check ps rest ((check ps t A).2.join (check ps e A).2)).1,
       (check ps rest ((check ps t A).2.join (check ps e A).2)).2) := by
  rw [check, Abs.force_eq]

theorem histCheck_seq (ps : List Nat) (e : Atom) (rest : Prog) (W : Nat) :
    histCheck ps (.seq e rest) W =
      ((histAtom ps W e).1 && (histCheck ps rest (histAtom ps W e).2).1,
       (histCheck ps rest (histAtom ps W e).2).2) := by
  rw [histCheck, forceN_eq]

theorem histCheck_ite (ps : List Nat) (t e rest : Prog) (W : Nat) :
    histCheck ps (.ite t e rest) W =
      ((histCheck ps t W).1 && (histCheck ps e W).1 &&
        (histCheck ps rest ((histCheck ps t W).2 &&& (histCheck ps e W).2)).1,
       (histCheck ps rest ((histCheck ps t W).2 &&& (histCheck ps e W).2)).2) := by
  rw [histCheck, forceN_eq]

/-! ## The frame context of one call -/

/-- Fixed data of one call: `n₀` the allocation pointer on entry, `self`, its parameter attributes,
`O` the old cells privately owned by `self` (objects created by earlier calls of `self`), `W` the
fields that calls of *other* strategy objects (`callInner`) are allowed to write. -/
structure Ctx where
  n₀ : Nat
  self : Nat
  ps : List Nat
  O : Nat → Prop
  W : Nat → Nat → Prop

/-- a cell this call may mutate without the caller noticing -/
def Ctx.Safe (C : Ctx) (r : Nat) : Prop := C.n₀ ≤ r ∨ C.O r

structure Ctx.WF (C : Ctx) : Prop where
  self_lt : C.self < C.n₀
  O_lt : ∀ r, C.O r → r < C.n₀
  O_self : ¬ C.O C.self
  W_lt : ∀ c k, C.W c k → c < C.n₀
  W_O : ∀ c k, C.W c k → ¬ C.O c
  W_self : ∀ k, C.W C.self k → C.ps.contains k = false

/-- The only old fields the call may change: cells owned by `self`, what inner calls may write, and
the non-parameter attributes of `self`. -/
def Ctx.Touch (C : Ctx) (r k : Nat) : Prop :=
  C.O r ∨ C.W r k ∨ (r = C.self ∧ C.ps.contains k = false)

def FrameRel (C : Ctx) (h h' : Heap) : Prop :=
  h.next ≤ h'.next ∧ ∀ r k, r < C.n₀ → ¬ C.Touch r k → h'.cell r k = h.cell r k

/-- Contract of the transformers used for `callInner`: they leave alone every existing field
outside `W`. -/
def InnerOK (C : Ctx) (inner : Nat → Heap → Heap) : Prop :=
  ∀ r h, C.n₀ ≤ h.next →
    h.next ≤ (inner r h).next ∧ ∀ c k, c < h.next → ¬ C.W c k → (inner r h).cell c k = h.cell c k

theorem FrameRel.refl (C : Ctx) (h : Heap) : FrameRel C h h :=
  ⟨Nat.le_refl _, fun _ _ _ _ => rfl⟩

theorem FrameRel.trans {C : Ctx} {h₁ h₂ h₃ : Heap} (a : FrameRel C h₁ h₂) (b : FrameRel C h₂ h₃) :
    FrameRel C h₁ h₃ :=
  ⟨Nat.le_trans a.1 b.1, fun r k hr ht => (b.2 r k hr ht).trans (a.2 r k hr ht)⟩

/-! ## The simulation invariant -/

def okVal (C : Ctx) (D : Nat → Prop) (sc : Bool × Bool) (v : Val) : Prop :=
  (sc.1 = true → ∀ r, v = .ref r → C.Safe r) ∧ (sc.2 = true → ∀ r, v = .ref r → D r)

theorem okVal_mono {C : Ctx} {D D' : Nat → Prop} (hD : ∀ c, D c → D' c) {sc : Bool × Bool} {v : Val}
    (h : okVal C D sc v) : okVal C D' sc v :=
  ⟨h.1, fun hc r hv => hD _ (h.2 hc r hv)⟩

theorem okVal_atom (C : Ctx) (D : Nat → Prop) (sc : Bool × Bool) (n : Nat) : okVal C D sc (.atom n) :=
  ⟨fun _ r h => (by cases h), fun _ r h => (by cases h)⟩

theorem okVal_false (C : Ctx) (D : Nat → Prop) (v : Val) : okVal C D (false, false) v :=
  ⟨fun h => (by cases h), fun h => (by cases h)⟩

structure Sim (C : Ctx) (A : Abs) (D : Nat → Prop) (s : St) : Prop where
  loc : ∀ x, okVal C D (clsPath A (.loc x)) (s.env x)
  attr : ∀ a, okVal C D (clsPath A (.attr a)) (s.h.cell C.self a)
  dsafe : ∀ c, D c → C.Safe c ∧ c < s.h.next
  dclosed : ∀ c, D c → ∀ k r, s.h.cell c k = .ref r → D r
  nxt : C.n₀ ≤ s.h.next

theorem Safe.ne_self {C : Ctx} (hC : C.WF) {r : Nat} (h : C.Safe r) : r ≠ C.self := by
  intro e
  subst e
  rcases h with h | h
  · have := hC.self_lt; omega
  · exact hC.O_self h

theorem Safe.not_lt_or {C : Ctx} {r : Nat} (h : C.Safe r) : ¬ r < C.n₀ ∨ C.O r := by
  rcases h with h | h
  · left; omega
  · right; exact h

theorem clsPath_sound {C : Ctx} {A : Abs} {D : Nat → Prop} {s : St} (hs : Sim C A D s) (p : Path) :
    okVal C D (clsPath A p) (evalPath C.self s p) := by
  induction p with
  | loc x => exact hs.loc x
  | attr a => exact hs.attr a
  | sub p k ih =>
    simp only [clsPath, evalPath]
    cases hc : (clsPath A p).2 with
    | false => exact okVal_false _ _ _
    | true =>
      cases hv : evalPath C.self s p with
      | atom n => exact okVal_atom _ _ _ _
      | ref r =>
        have hD : D r := ih.2 hc r hv
        refine ⟨fun _ r' hr' => (hs.dsafe _ (hs.dclosed r hD k r' hr')).1, fun _ r' hr' => hs.dclosed r hD k r' hr'⟩

theorem pickStored_closed {C : Ctx} {A : Abs} {D : Nat → Prop} {s : St} (hs : Sim C A D s)
    (ps : List Path) (hall : allClosed A ps = true) (i : Nat) (d : Val) (r : Nat)
    (hd : d = .ref r → D r) (h : pickStored C.self s ps i d = .ref r) : D r := by
  unfold pickStored at h
  cases hp : ps[i]? with
  | none => rw [hp] at h; exact hd h
  | some p =>
    rw [hp] at h
    have hmem : p ∈ ps := List.mem_of_getElem? hp
    have hc : (clsPath A p).2 = true := by
      unfold allClosed at hall
      exact (List.all_eq_true.mp hall) p hmem
    exact (clsPath_sound hs p).2 hc r h

/-! ### monotonicity of `Sim` in the abstract state -/

theorem Sim.weaken {C : Ctx} {A B : Abs} {D : Nat → Prop} {s : St} (hs : Sim C A D s)
    (hl1 : ∀ x, (clsPath B (.loc x)).1 = true → (clsPath A (.loc x)).1 = true)
    (hl2 : ∀ x, (clsPath B (.loc x)).2 = true → (clsPath A (.loc x)).2 = true)
    (ha1 : ∀ x, (clsPath B (.attr x)).1 = true → (clsPath A (.attr x)).1 = true)
    (ha2 : ∀ x, (clsPath B (.attr x)).2 = true → (clsPath A (.attr x)).2 = true) :
    Sim C B D s :=
  { loc := fun x => ⟨fun h => (hs.loc x).1 (hl1 x h), fun h => (hs.loc x).2 (hl2 x h)⟩
    attr := fun a => ⟨fun h => (hs.attr a).1 (ha1 a h), fun h => (hs.attr a).2 (ha2 a h)⟩
    dsafe := hs.dsafe
    dclosed := hs.dclosed
    nxt := hs.nxt }

theorem Sim.join_left {C : Ctx} {A B : Abs} {D : Nat → Prop} {s : St} (hs : Sim C A D s) :
    Sim C (A.join B) D s := by
  apply hs.weaken <;> intro x <;> simp only [clsPath, Abs.join, Nat.testBit_and] <;>
    cases A.ls.testBit x <;> cases A.lc.testBit x <;> cases A.as.testBit x <;> cases A.ac.testBit x <;> simp

theorem Sim.join_right {C : Ctx} {A B : Abs} {D : Nat → Prop} {s : St} (hs : Sim C B D s) :
    Sim C (A.join B) D s := by
  apply hs.weaken <;> intro x <;> simp only [clsPath, Abs.join, Nat.testBit_and] <;>
    cases B.ls.testBit x <;> cases B.lc.testBit x <;> cases B.as.testBit x <;> cases B.ac.testBit x <;> simp

theorem Sim.forgetAttrs {C : Ctx} {A : Abs} {D : Nat → Prop} {s : St} (hs : Sim C A D s) :
    Sim C A.forgetAttrs D s := by
  apply hs.weaken <;> intro x <;> simp [clsPath, Abs.forgetAttrs]

/-- Dropping all `closed` facts: the closed set may be emptied. -/
theorem Sim.demote {C : Ctx} {A : Abs} {D : Nat → Prop} {s : St} (hs : Sim C A D s) :
    Sim C A.demote (fun _ => False) s :=
  { loc := fun x => by
      refine ⟨fun _ r hv => ?_, fun h => ?_⟩
      · cases h1 : (clsPath A (.loc x)).1 with
        | true => exact (hs.loc x).1 h1 r hv
        | false =>
          simp only [clsPath, Abs.demote, Nat.testBit_or, Nat.zero_testBit, Bool.or_false] at *
          simp_all
      · simp [clsPath, Abs.demote] at h
    attr := fun a => by
      refine ⟨fun _ r hv => ?_, fun h => ?_⟩
      · cases h1 : (clsPath A (.attr a)).1 with
        | true => exact (hs.attr a).1 h1 r hv
        | false =>
          simp only [clsPath, Abs.demote, Nat.testBit_or, Nat.zero_testBit, Bool.or_false] at *
          simp_all
      · simp [clsPath, Abs.demote] at h
    dsafe := fun _ h => h.elim
    dclosed := fun _ h => h.elim
    nxt := hs.nxt }

/-! ### heap updates that keep `Sim` -/

theorem Sim.alloc_plain {C : Ctx} (hC : C.WF) {A : Abs} {D : Nat → Prop} {s : St} (hs : Sim C A D s)
    (o : Nat → Val) : Sim C A D { s with h := s.h.alloc o } := by
  have hself : C.self ≠ s.h.next := by have := hC.self_lt; have := hs.nxt; omega
  refine ⟨hs.loc, fun a => ?_, fun c hc => ?_, fun c hc k r hv => ?_, ?_⟩
  · simp only [Heap.alloc, hself, if_false]; exact hs.attr a
  · have := hs.dsafe c hc
    exact ⟨this.1, by simp only [Heap.alloc]; omega⟩
  · have hlt := (hs.dsafe c hc).2
    have hne : c ≠ s.h.next := by omega
    simp only [Heap.alloc, hne, if_false] at hv
    exact hs.dclosed c hc k r hv
  · have := hs.nxt; simp only [Heap.alloc]; omega

theorem Sim.alloc_closed {C : Ctx} (hC : C.WF) {A : Abs} {D : Nat → Prop} {s : St} (hs : Sim C A D s)
    (o : Nat → Val) (ho : ∀ k r, o k = .ref r → D r ∨ r = s.h.next) :
    Sim C A (fun c => D c ∨ c = s.h.next) { s with h := s.h.alloc o } := by
  have hself : C.self ≠ s.h.next := by have := hC.self_lt; have := hs.nxt; omega
  refine ⟨fun x => okVal_mono (fun _ => Or.inl) (hs.loc x), fun a => ?_, fun c hc => ?_,
    fun c hc k r hv => ?_, ?_⟩
  · simp only [Heap.alloc, hself, if_false]; exact okVal_mono (fun _ => Or.inl) (hs.attr a)
  · rcases hc with hc | hc
    · have := hs.dsafe c hc
      exact ⟨this.1, by simp only [Heap.alloc]; omega⟩
    · subst hc
      exact ⟨Or.inl hs.nxt, by simp only [Heap.alloc]; omega⟩
  · rcases hc with hc | hc
    · have hlt := (hs.dsafe c hc).2
      have hne : c ≠ s.h.next := by omega
      simp only [Heap.alloc, hne, if_false] at hv
      exact Or.inl (hs.dclosed c hc k r hv)
    · subst hc
      simp only [Heap.alloc, if_true] at hv
      exact ho k r hv
  · have := hs.nxt; simp only [Heap.alloc]; omega

theorem Sim.setCell {C : Ctx} (hC : C.WF) {A : Abs} {D : Nat → Prop} {s : St} (hs : Sim C A D s)
    (r : Nat) (hr : C.Safe r) (o : Nat → Val) (ho : D r → ∀ k r', o k = .ref r' → D r') (n : Nat) :
    Sim C A D { s with h := s.h.setCell r o, clk := n } := by
  have hne : C.self ≠ r := fun e => Safe.ne_self hC hr e.symm
  refine ⟨hs.loc, fun a => ?_, hs.dsafe, fun c hc k r' hv => ?_, hs.nxt⟩
  · simp only [Heap.setCell, hne, if_false]; exact hs.attr a
  · by_cases hcr : c = r
    · subst hcr
      simp only [Heap.setCell, if_true] at hv
      exact ho hc k r' hv
    · simp only [Heap.setCell, hcr, if_false] at hv
      exact hs.dclosed c hc k r' hv

theorem frame_setCell {C : Ctx} (h : Heap) (r : Nat) (hr : C.Safe r) (o : Nat → Val) :
    FrameRel C h (h.setCell r o) := by
  refine ⟨Nat.le_refl _, fun r' k hlt ht => ?_⟩
  by_cases e : r' = r
  · subst e
    rcases hr with hr | hr
    · omega
    · exact absurd (Or.inl hr) ht
  · simp [Heap.setCell, e]

theorem frame_alloc (C : Ctx) (h : Heap) (hn : C.n₀ ≤ h.next) (o : Nat → Val) :
    FrameRel C h (h.alloc o) := by
  refine ⟨by simp [Heap.alloc], fun r k hlt _ => ?_⟩
  have : r ≠ h.next := by omega
  simp [Heap.alloc, this]

/-! ### right-hand sides -/

theorem rhs_sound {C : Ctx} (hC : C.WF) {A : Abs} {D : Nat → Prop} {s : St} (ω : Ora)
    (hs : Sim C A D s) (r : Rhs) :
    ∃ D', (∀ c, D c → D' c) ∧
      okVal C D' (clsRhs A r) (evalRhs C.self ω s r).1 ∧
      Sim C A D' { s with h := (evalRhs C.self ω s r).2 } ∧
      FrameRel C s.h (evalRhs C.self ω s r).2 := by
  cases r with
  | alias p =>
    exact ⟨D, fun _ h => h, clsPath_sound hs p, hs, FrameRel.refl _ _⟩
  | copy p =>
    simp only [evalRhs, clsRhs]
    cases hv : evalPath C.self s p with
    | atom n => exact ⟨D, fun _ h => h, okVal_atom _ _ _ _, hs, FrameRel.refl _ _⟩
    | ref r =>
      simp only
      cases hc : (clsPath A p).2 with
      | false =>
        refine ⟨D, fun _ h => h, ⟨fun _ r' hr' => ?_, fun h => by cases h⟩,
          hs.alloc_plain hC _, frame_alloc C _ hs.nxt _⟩
        cases hr'; exact Or.inl hs.nxt
      | true =>
        have hD : D r := (clsPath_sound hs p).2 hc r hv
        refine ⟨fun c => D c ∨ c = s.h.next, fun _ => Or.inl, ⟨fun _ r' hr' => ?_, fun _ r' hr' => ?_⟩,
          hs.alloc_closed hC _ (fun k r' hr' => Or.inl (hs.dclosed r hD k r' hr')),
          frame_alloc C _ hs.nxt _⟩
        · cases hr'; exact Or.inl hs.nxt
        · cases hr'; exact Or.inr rfl
  | deep p =>
    simp only [evalRhs, clsRhs]
    cases hv : evalPath C.self s p with
    | atom n => exact ⟨D, fun _ h => h, okVal_atom _ _ _ _, hs, FrameRel.refl _ _⟩
    | ref r =>
      simp only
      refine ⟨fun c => D c ∨ c = s.h.next, fun _ => Or.inl, ⟨fun _ r' hr' => ?_, fun _ r' hr' => ?_⟩,
        hs.alloc_closed hC _ (fun k r' hr' => ?_), frame_alloc C _ hs.nxt _⟩
      · cases hr'; exact Or.inl hs.nxt
      · cases hr'; exact Or.inr rfl
      · right
        cases hcell : s.h.cell r k with
        | atom n => rw [hcell] at hr'; cases hr'
        | ref q => rw [hcell] at hr'; cases hr'; rfl
  | fresh caps =>
    simp only [evalRhs, clsRhs]
    cases hc : allClosed A caps with
    | false =>
      refine ⟨D, fun _ h => h, ⟨fun _ r' hr' => ?_, fun h => by cases h⟩,
        hs.alloc_plain hC _, frame_alloc C _ hs.nxt _⟩
      cases hr'; exact Or.inl hs.nxt
    | true =>
      refine ⟨fun c => D c ∨ c = s.h.next, fun _ => Or.inl, ⟨fun _ r' hr' => ?_, fun _ r' hr' => ?_⟩,
        hs.alloc_closed hC _ (fun k r' hr' => ?_), frame_alloc C _ hs.nxt _⟩
      · cases hr'; exact Or.inl hs.nxt
      · cases hr'; exact Or.inr rfl
      · left
        cases hp : ω.pick s.clk k with
        | keep => rw [hp] at hr'; cases hr'
        | atom n => rw [hp] at hr'; cases hr'
        | stored i =>
          rw [hp] at hr'
          exact pickStored_closed hs caps hc i (.atom 0) r' (fun h => by cases h) hr'


/-! ### atoms -/

theorem okVal_or {C : Ctx} {D : Nat → Prop} {a b : Bool} {v : Val} (h : okVal C D (a, b) v)
    (hD : ∀ r, D r → C.Safe r) : okVal C D (a || b, b) v := by
  refine ⟨fun hab r hv => ?_, h.2⟩
  cases a with
  | true => exact h.1 rfl r hv
  | false =>
    cases b with
    | true => exact hD r (h.2 rfl r hv)
    | false => cases hab

theorem Sim.clk {C : Ctx} {A : Abs} {D : Nat → Prop} {s : St} (hs : Sim C A D s) (n : Nat) :
    Sim C A D { s with clk := n } :=
  ⟨hs.loc, hs.attr, hs.dsafe, hs.dclosed, hs.nxt⟩

theorem atom_sound {C : Ctx} (hC : C.WF) (inner : Nat → Heap → Heap) (hin : InnerOK C inner) (ω : Ora)
    {A : Abs} {D : Nat → Prop} {s : St} (hs : Sim C A D s) (e : Atom)
    (hok : (checkAtom C.ps A e).1 = true) :
    ∃ D', Sim C (checkAtom C.ps A e).2 D' (execAtom C.self inner ω s e) ∧
      FrameRel C s.h (execAtom C.self inner ω s e).h := by
  cases e with
  | bind x r =>
    obtain ⟨D', _, hval, hsim', hfr⟩ := rhs_sound hC ω hs r
    simp only [execAtom, checkAtom]
    cases hE : evalRhs C.self ω s r with
    | mk v h' =>
      rw [hE] at hval hsim' hfr
      refine ⟨D', ⟨fun y => ?_, fun a => hsim'.attr a, hsim'.dsafe, hsim'.dclosed, hsim'.nxt⟩, hfr⟩
      simp only [clsPath, testBit_setBitTo]
      by_cases hy : y = x
      · simp only [hy, if_true]
        exact okVal_or hval (fun r hr => (hsim'.dsafe r hr).1)
      · simp only [hy, if_false]
        exact hsim'.loc y
  | writeAttr a r =>
    obtain ⟨D', _, hval, hsim', hfr⟩ := rhs_sound hC ω hs r
    simp only [execAtom, checkAtom] at hok ⊢
    cases hE : evalRhs C.self ω s r with
    | mk v h' =>
      rw [hE] at hval hsim' hfr
      have hpa : C.ps.contains a = false := by
        cases hc : C.ps.contains a with
        | false => rfl
        | true => rw [hc] at hok; cases hok
      refine ⟨D', ⟨fun y => hsim'.loc y, fun a' => ?_, hsim'.dsafe, fun c hc k q hv => ?_, hsim'.nxt⟩, ?_⟩
      · simp only [clsPath, testBit_setBitTo, Heap.setField, Heap.setCell, if_true]
        by_cases ha : a' = a
        · simp only [ha, if_true]
          exact okVal_or hval (fun r hr => (hsim'.dsafe r hr).1)
        · simp only [ha, if_false]
          exact hsim'.attr a'
      · have hne : c ≠ C.self := Safe.ne_self hC (hsim'.dsafe c hc).1
        simp only [Heap.setField, Heap.setCell, hne, if_false] at hv
        exact hsim'.dclosed c hc k q hv
      · refine hfr.trans ⟨Nat.le_refl _, fun r' k hlt ht => ?_⟩
        by_cases e1 : r' = C.self
        · subst e1
          have hk : k ≠ a := by
            intro e2; subst e2
            exact ht (Or.inr (Or.inr ⟨rfl, hpa⟩))
          simp [Heap.setField, Heap.setCell, hk]
        · simp [Heap.setField, Heap.setCell, e1]
  | mutate p stored =>
    simp only [execAtom, checkAtom] at hok ⊢
    cases hv : evalPath C.self s p with
    | atom n =>
      simp only [St.tick]
      cases hall : allClosed A stored with
      | true => exact ⟨D, by simpa using hs.clk _, FrameRel.refl _ _⟩
      | false => exact ⟨fun _ => False, by simpa using hs.demote.clk _, FrameRel.refl _ _⟩
    | ref r =>
      have hsafe : C.Safe r := (clsPath_sound hs p).1 hok r hv
      simp only
      cases hall : allClosed A stored with
      | true =>
        refine ⟨D, ?_, frame_setCell _ _ hsafe _⟩
        simp only [if_true]
        refine hs.setCell hC r hsafe _ (fun hD k r' hr' => ?_) _
        cases hp : ω.pick s.clk k with
        | keep => rw [hp] at hr'; exact hs.dclosed r hD k r' hr'
        | atom n => rw [hp] at hr'; cases hr'
        | stored i =>
          rw [hp] at hr'
          exact pickStored_closed hs stored hall i _ r' (fun h => hs.dclosed r hD k r' h) hr'
      | false =>
        refine ⟨fun _ => False, ?_, frame_setCell _ _ hsafe _⟩
        simp only [Bool.false_eq_true, if_false]
        exact hs.demote.setCell hC r hsafe _ (fun hD => hD.elim) _
  | callFit p =>
    simp only [execAtom, checkAtom] at hok ⊢
    cases hv : evalPath C.self s p with
    | atom n => exact ⟨D, by simpa [St.tick] using hs.clk _, FrameRel.refl _ _⟩
    | ref r =>
      have hsafe : C.Safe r := (clsPath_sound hs p).1 hok r hv
      refine ⟨D, ?_, frame_setCell _ _ hsafe _⟩
      refine hs.setCell hC r hsafe _ (fun hD k r' hr' => ?_) _
      cases hp : ω.pick s.clk k with
      | keep => rw [hp] at hr'; exact hs.dclosed r hD k r' hr'
      | atom n => rw [hp] at hr'; cases hr'
      | stored i => rw [hp] at hr'; exact hs.dclosed r hD k r' hr'
  | callInner p =>
    simp only [execAtom, checkAtom]
    cases hv : evalPath C.self s p with
    | atom n => exact ⟨D, by simpa [St.tick] using hs.forgetAttrs.clk _, FrameRel.refl _ _⟩
    | ref r =>
      obtain ⟨hnext, hcells⟩ := hin r s.h hs.nxt
      have hkeep : ∀ c, C.Safe c → c < s.h.next → ∀ k, (inner r s.h).cell c k = s.h.cell c k := by
        intro c hc hlt k
        apply hcells c k hlt
        intro hw
        rcases hc with hc | hc
        · have := hC.W_lt c k hw; omega
        · exact hC.W_O c k hw hc
      refine ⟨D, ⟨hs.loc, fun a => ?_, fun c hc => ?_, fun c hc k q hq => ?_, ?_⟩, hnext, ?_⟩
      · simp only [clsPath, Abs.forgetAttrs, Nat.zero_testBit, Bool.or_false]
        exact okVal_false _ _ _
      · have := hs.dsafe c hc
        exact ⟨this.1, by simp only; omega⟩
      · have := hs.dsafe c hc
        simp only at hq
        rw [hkeep c this.1 this.2 k] at hq
        exact hs.dclosed c hc k q hq
      · have := hs.nxt; simp only; omega
      · intro r' k hlt ht
        have := hs.nxt
        exact hcells r' k (by omega) (fun hw => ht (Or.inr (Or.inl hw)))
  | readAttr a => exact ⟨D, by simpa [execAtom, checkAtom, St.tick] using hs.clk _, FrameRel.refl _ _⟩

/-! ### programs -/

theorem prog_sound {C : Ctx} (hC : C.WF) (inner : Nat → Heap → Heap) (hin : InnerOK C inner) (ω : Ora)
    (p : Prog) : ∀ {A : Abs} {D : Nat → Prop} {s : St}, Sim C A D s → (check C.ps p A).1 = true →
      ∃ D', Sim C (check C.ps p A).2 D' (run C.self inner ω p s) ∧
        FrameRel C s.h (run C.self inner ω p s).h := by
  induction p with
  | skip =>
    intro A D s hs _
    exact ⟨D, hs, FrameRel.refl _ _⟩
  | seq e rest ih =>
    intro A D s hs hok
    rw [check_seq] at hok ⊢
    simp only [Bool.and_eq_true] at hok
    obtain ⟨D₁, hs₁, hf₁⟩ := atom_sound hC inner hin ω hs e hok.1
    obtain ⟨D₂, hs₂, hf₂⟩ := ih hs₁ hok.2
    exact ⟨D₂, hs₂, hf₁.trans hf₂⟩
  | ite t e rest iht ihe ihr =>
    intro A D s hs hok
    rw [check_ite] at hok ⊢
    simp only [Bool.and_eq_true] at hok
    simp only [run]
    have hst : Sim C A D s.tick := hs.clk _
    cases hc : ω.coin s.clk with
    | true =>
      obtain ⟨D₁, hs₁, hf₁⟩ := iht hst hok.1.1
      obtain ⟨D₂, hs₂, hf₂⟩ := ihr (hs₁.join_left (B := (check C.ps e A).2)) hok.2
      exact ⟨D₂, by simpa using hs₂, by simpa using (show FrameRel C s.h s.tick.h from FrameRel.refl _ _).trans (hf₁.trans hf₂)⟩
    | false =>
      obtain ⟨D₁, hs₁, hf₁⟩ := ihe hst hok.1.2
      obtain ⟨D₂, hs₂, hf₂⟩ := ihr (hs₁.join_right (A := (check C.ps t A).2)) hok.2
      exact ⟨D₂, by simpa using hs₂, by simpa using (show FrameRel C s.h s.tick.h from FrameRel.refl _ _).trans (hf₁.trans hf₂)⟩

/-! ## History-freeness -/

/-- Two runs agree on the parameters, on everything written so far, on what they have read and on
the program point. -/
def HAgree (ps : List Nat) (W : Nat) (s s' : HSt) : Prop :=
  (∀ a, (ps.contains a || W.testBit a) = true → s.obj a = s'.obj a) ∧ s.log = s'.log ∧ s.clk = s'.clk

theorem HAgree.mono {ps : List Nat} {W W' : Nat} {s s' : HSt} (h : HAgree ps W s s')
    (hW : ∀ a, W'.testBit a = true → W.testBit a = true) : HAgree ps W' s s' := by
  refine ⟨fun a ha => h.1 a ?_, h.2⟩
  simp only [Bool.or_eq_true] at ha ⊢
  rcases ha with ha | ha
  · exact Or.inl ha
  · exact Or.inr (hW a ha)

theorem hatom_sound (F : HOra) (ps : List Nat) (W : Nat) (s s' : HSt) (e : Atom)
    (hag : HAgree ps W s s') (hok : (histAtom ps W e).1 = true) :
    HAgree ps (histAtom ps W e).2 (hAtom F s e) (hAtom F s' e) := by
  obtain ⟨hobj, hlog, hclk⟩ := hag
  have hreads : (atomReads e).map s.obj = (atomReads e).map s'.obj := by
    apply List.map_congr_left
    intro a ha
    exact hobj a ((List.all_eq_true.mp hok) a ha)
  have hlog' : (atomReads e).map s.obj ++ s.log = (atomReads e).map s'.obj ++ s'.log := by
    rw [hreads, hlog]
  cases e with
  | writeAttr a r =>
    simp only [hAtom, histAtom]
    refine ⟨fun a' ha' => ?_, hlog', by rw [hclk]⟩
    by_cases e1 : a' = a
    · simp only [e1, if_true]; rw [hlog', hclk]
    · simp only [e1, if_false]
      apply hobj a'
      simp only [Bool.or_eq_true, Nat.testBit_or, Nat.testBit_two_pow, decide_eq_true_eq] at ha' ⊢
      rcases ha' with h | h | h
      · exact Or.inl h
      · exact Or.inr h
      · exact absurd h.symm e1
  | bind x r => exact ⟨hobj, hlog', by simp only [hAtom]; rw [hclk]⟩
  | mutate p st => exact ⟨hobj, hlog', by simp only [hAtom]; rw [hclk]⟩
  | callFit p => exact ⟨hobj, hlog', by simp only [hAtom]; rw [hclk]⟩
  | callInner p => exact ⟨hobj, hlog', by simp only [hAtom]; rw [hclk]⟩
  | readAttr a => exact ⟨hobj, hlog', by simp only [hAtom]; rw [hclk]⟩

theorem hist_sound (F : HOra) (ps : List Nat) (p : Prog) : ∀ (W : Nat) (s s' : HSt),
    HAgree ps W s s' → (histCheck ps p W).1 = true →
      HAgree ps (histCheck ps p W).2 (hRun F p s) (hRun F p s') := by
  induction p with
  | skip => intro W s s' h _; exact h
  | seq e rest ih =>
    intro W s s' h hok
    rw [histCheck_seq] at hok ⊢
    simp only [Bool.and_eq_true] at hok
    exact ih _ _ _ (hatom_sound F ps W s s' e h hok.1) hok.2
  | ite t e rest iht ihe ihr =>
    intro W s s' h hok
    rw [histCheck_ite] at hok ⊢
    simp only [Bool.and_eq_true] at hok
    simp only [hRun]
    have htick : HAgree ps W { s with clk := s.clk + 1 } { s' with clk := s'.clk + 1 } :=
      ⟨h.1, h.2.1, by simp only; rw [h.2.2]⟩
    have hcond : F.cond s'.clk s'.log = F.cond s.clk s.log := by rw [h.2.1, h.2.2]
    rw [hcond]
    cases hc : F.cond s.clk s.log with
    | true =>
      simp only [if_true]
      refine ihr _ _ _ ((iht _ _ _ htick hok.1.1).mono ?_) hok.2
      intro a ha; rw [Nat.testBit_and] at ha; simp only [Bool.and_eq_true] at ha; exact ha.1
    | false =>
      simp only [Bool.false_eq_true, if_false]
      refine ihr _ _ _ ((ihe _ _ _ htick hok.1.2).mono ?_) hok.2
      intro a ha; rw [Nat.testBit_and] at ha; simp only [Bool.and_eq_true] at ha; exact ha.2

end Ska.Effects
