import SkaModel.Gen.AnnotGen

/-! Bridging lemmas: the function translated from the current source of
`SingleAnnotatorWrapper._n_to_assign_annotators` (`Gen/AnnotGen.lean`) is `Ska.MultiAnnot.nToAssign`, for all inputs and fuels. -/

namespace Ska.Gen.Annot
open Ska Ska.MultiAnnot

theorem filter_id_length (r : List Bool) : (r.filter id).length = countRow r := by
  unfold countRow
  induction r with
  | nil => rfl
  | cons b bs ih => cases b <;> simp [List.filter, ih]

theorem step_eq (nmax cur : List Nat) :
    List.zipWith min nmax (cur.map (· + 1)) = assignStep nmax cur := by
  unfold assignStep
  induction nmax generalizing cur with
  | nil => simp
  | cons n ns ih =>
    cases cur with
    | nil => simp
    | cons c cs => simp [minSucc, ih]

theorem canGrow_eq (nmax cur : List Nat) :
    (List.zipWith (fun x y => decide (x < y)) cur nmax).any id = canGrow nmax cur := by
  unfold canGrow
  induction nmax generalizing cur with
  | nil => cases cur <;> simp
  | cons n ns ih =>
    cases cur with
    | nil => simp
    | cons c cs => simp [ltB, ih]

/-- the translated loop is `assignIter` (the running sum is kept next to the vector) -/
theorem while1_eq (b : Nat) (nmax : List Nat) (fuel : Nat) (cur : List Nat) :
    _n_to_assign_annotators.while1 b nmax fuel cur cur.sum = (assignIter fuel b nmax cur).map (fun r => (r, r.sum)) := by
  induction fuel generalizing cur with
  | zero =>
    unfold _n_to_assign_annotators.while1 assignIter
    rw [canGrow_eq]
    by_cases h1 : cur.sum < b <;> by_cases h2 : canGrow nmax cur = true <;> simp [h1, h2] <;> omega
  | succ f ih =>
    unfold _n_to_assign_annotators.while1 assignIter
    rw [canGrow_eq, step_eq]
    by_cases h1 : cur.sum < b
    · by_cases h2 : canGrow nmax cur = true
      · have hn : ¬ (b ≤ cur.sum) := by omega
        simp only [h1, h2, decide_true, Bool.and_self, ↓reduceIte, hn, decide_false, Bool.not_true, Bool.or_self,
          Bool.false_eq_true, ge_iff_le]
        by_cases h3 : b ≤ (assignStep nmax cur).sum
        · simp only [h3, decide_true, ↓reduceIte]
          unfold assignIter
          simp [h3]
        · simp only [h3, decide_false, Bool.false_eq_true, ↓reduceIte]
          exact ih _
      · have hn : ¬ (b ≤ cur.sum) := by omega
        simp [h1, h2, hn]
    · have hn : b ≤ cur.sum := by omega
      simp [h1, hn]

/-- **the translated function is `nToAssign`** on `nmax = np.sum(A, axis=1)[s_indices]` -/
theorem n_to_assign_eq (fuel b : Nat) (A : List (List Bool)) (s : List Nat) (pref : List Nat) :
    _n_to_assign_annotators fuel b A s pref =
      nToAssign fuel b (s.map (fun i => countRow (A.getD i []))) pref := by
  have hn : (s.map (fun i => (A.map (fun row => (row.filter id).length)).getD i 0)) =
      s.map (fun i => countRow (A.getD i [])) := by
    apply List.map_congr_left
    intro i _
    by_cases h : i < A.length
    · simp [List.getD, h, filter_id_length]
    · simp [List.getD, h, countRow]
  unfold _n_to_assign_annotators nToAssign
  simp only [hn]
  rw [show (List.zipWith min (List.map (fun i => countRow (A.getD i [])) s) pref) =
      assignInit (s.map (fun i => countRow (A.getD i []))) pref from rfl, while1_eq]
  cases assignIter fuel b _ (assignInit _ pref) <;> rfl

/-- more fuel never changes a result -/
theorem assignIter_mono (f1 f2 b : Nat) (nmax cur r : List Nat) (h : assignIter f1 b nmax cur = some r) (hle : f1 ≤ f2) :
    assignIter f2 b nmax cur = some r := by
  induction f1 generalizing f2 cur with
  | zero =>
    unfold assignIter at h
    by_cases hc : (b ≤ cur.sum || !(canGrow nmax cur)) = true
    · rw [if_pos hc] at h
      unfold assignIter
      rw [if_pos hc]; exact h
    · rw [if_neg hc] at h; cases h
  | succ f ih =>
    unfold assignIter at h
    by_cases hc : (b ≤ cur.sum || !(canGrow nmax cur)) = true
    · rw [if_pos hc] at h
      unfold assignIter
      rw [if_pos hc]; exact h
    · rw [if_neg hc] at h
      cases f2 with
      | zero => omega
      | succ g =>
        unfold assignIter
        rw [if_neg hc]
        exact ih g _ h (by omega)

end Ska.Gen.Annot
