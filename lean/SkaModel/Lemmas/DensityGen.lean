import SkaModel.Gen.DensityGen

/-!
# The generated `StreamDensityBasedAL._calculate_ldf` (`Gen/DensityGen.lean`) is the hand-written `calcLdf`
(`Core/Density.lean`)

All statements hold for arbitrary lengths of `window_` and `min_dist_` (they need not be equal): `List.zipWith`
truncates to the shorter list exactly as `lowerTo` / `countNew` stop at the shorter list, and the loop never touches
a position beyond the shorter of the two.
-/

set_option linter.unusedSectionVars false
set_option linter.unusedSimpArgs false

namespace Ska.DensityGen
open Ska Ska.Budget Ska.Density Ska.Gen.Dens

variable {α : Type} [LT α] [DecidableLT α] {χ : Type}

def dw (o : WObj α χ) : DW α χ := { win := o.window_, md := o.min_dist_ }
def wput (o : WObj α χ) (s : DW α χ) : WObj α χ := { o with window_ := s.win, min_dist_ := s.md }

omit [LT α] [DecidableLT α] in
theorem wput_dw (o : WObj α χ) : wput o (dw o) = o := by cases o; rfl
omit [LT α] [DecidableLT α] in
theorem dw_wput (o : WObj α χ) (s : DW α χ) : dw (wput o s) = s := rfl
omit [LT α] [DecidableLT α] in
theorem wput_wput (o : WObj α χ) (s s' : DW α χ) : wput (wput o s) s' = wput o s' := rfl

omit [LT α] [DecidableLT α] in
theorem getD_append_length {β : Type} (pre : List β) (x : β) (xs : List β) (d : β) :
    (pre ++ x :: xs).getD pre.length d = x := by
  simp [List.getD]

omit [LT α] [DecidableLT α] in
theorem set_append_length {β : Type} (pre : List β) (x : β) (xs : List β) (v : β) :
    (pre ++ x :: xs).set pre.length v = pre ++ v :: xs := by
  simp [List.set_append]

/-- `np.sum(distances < np.array(min_dist_))` -/
theorem countTrue_zipWith_eq_countNew (d md : List α) :
    countTrue (List.zipWith (fun d m => decide (d < m)) d md) = countNew md d := by
  induction md generalizing d with
  | nil => simp [countTrue, countNew]
  | cons m ms ih =>
    cases d with
    | nil => simp [countTrue, countNew]
    | cons x xs =>
      have h := ih xs
      simp only [countTrue] at h
      simp only [List.zipWith_cons_cons, countTrue, countNew, List.filter_cons]
      by_cases hx : x < m
      · simp [hx, h, Nat.add_comm]
      · simp [hx, h]

/-- the loop with a processed prefix: positions `< pre.length` are done, the remaining distances are `ds`, the
remaining entries of `min_dist_` are `ms` -/
theorem lower_loop_gen (inf : α) (o : WObj α χ) (ms : List α) :
    ∀ (ds pre dpre : List α), dpre.length = pre.length →
      (idxOf (List.zipWith (fun d m => decide (d < m)) ds ms) pre.length).foldl
          (_calculate_ldf.loop1 inf (dpre ++ ds)) { o with min_dist_ := pre ++ ms }
        = { o with min_dist_ := pre ++ lowerTo ms ds } := by
  induction ms with
  | nil => intro ds pre dpre _; simp [idxOf, lowerTo]
  | cons m ms ih =>
    intro ds pre dpre hlen
    cases ds with
    | nil => simp [idxOf, lowerTo]
    | cons d ds =>
      have hl : (dpre ++ [d]).length = (pre ++ [d]).length := by simp [hlen]
      have hl' : (dpre ++ [d]).length = (pre ++ [m]).length := by simp [hlen]
      have h1 := ih ds (pre ++ [d]) (dpre ++ [d]) hl
      have h2 := ih ds (pre ++ [m]) (dpre ++ [d]) hl'
      simp only [List.append_assoc, List.singleton_append, List.length_append, List.length_cons, List.length_nil,
        Nat.zero_add] at h1 h2
      simp only [List.zipWith_cons_cons, idxOf, lowerTo]
      by_cases hx : d < m
      · simp only [hx, decide_true, if_true, List.foldl_cons, _calculate_ldf.loop1]
        rw [← hlen, getD_append_length, hlen, set_append_length]
        exact h1
      · simp only [hx, decide_false, if_false, Bool.false_eq_true]
        exact h2

/-- the `for i in np.where(is_new_nn)[0]` loop, the whole object -/
theorem lower_loop_obj (inf : α) (d md : List α) (o : WObj α χ) :
    (idxOf (List.zipWith (fun d m => decide (d < m)) d md) 0).foldl (_calculate_ldf.loop1 inf d)
        { o with min_dist_ := md }
      = { o with min_dist_ := lowerTo md d } := by
  have h := lower_loop_gen inf o md d [] [] rfl
  simpa using h

theorem lower_loop_eq (inf : α) (d md : List α) (o : WObj α χ) :
    ((idxOf (List.zipWith (fun d m => decide (d < m)) d md) 0).foldl (_calculate_ldf.loop1 inf d)
        { o with min_dist_ := md }).min_dist_
      = lowerTo md d := by
  rw [lower_loop_obj]

theorem lower_loop_window (inf : α) (d md : List α) (o : WObj α χ) :
    ((idxOf (List.zipWith (fun d m => decide (d < m)) d md) 0).foldl (_calculate_ldf.loop1 inf d)
        { o with min_dist_ := md }).window_
      = o.window_ := by
  rw [lower_loop_obj]

theorem lower_loop_window_size (inf : α) (d md : List α) (o : WObj α χ) :
    ((idxOf (List.zipWith (fun d m => decide (d < m)) d md) 0).foldl (_calculate_ldf.loop1 inf d)
        { o with min_dist_ := md }).window_size
      = o.window_size := by
  rw [lower_loop_obj]

theorem minLF_cons (inf d : α) (ds : List α) : minLF inf (d :: ds) = minL d ds := rfl

/-- the generated `_calculate_ldf` is `calcLdf` on the two deques, `window_size` is left alone -/
theorem calculate_ldf_eq (dist : χ → χ → α) (inf : α) (o : WObj α χ) (x : χ) :
    _calculate_ldf dist inf o x
      = ((calcLdf o.window_size inf dist (dw o) x).1, wput o (calcLdf o.window_size inf dist (dw o) x).2) := by
  obtain ⟨win, md, w⟩ := o
  cases win with
  | nil => simp [_calculate_ldf, calcLdf, dw, wput]
  | cons v vs =>
    have h := lower_loop_obj inf (dist v x :: vs.map (fun v => dist v x)) md
      ({ window_ := v :: vs, min_dist_ := md, window_size := w } : WObj α χ)
    simp only [_calculate_ldf, calcLdf, dw, wput, List.map_cons, List.length_cons, countTrue_zipWith_eq_countNew]
    simp only [Nat.le_add_left, decide_true, if_true]
    rw [h]
    rfl

end Ska.DensityGen
