import SkaModel.Lemmas.Classifier
import SkaModel.Core.Regressor
import Mathlib.Tactic.Positivity

/-! Helper lemmas for C15 (`Core/Regressor.lean`). -/

set_option linter.unusedSectionVars false
set_option linter.unusedVariables false

namespace Ska.Regressor
open Ska.Classifier

section L
variable {α : Type} [Field α] [LinearOrder α] [IsStrictOrderedRing α]

theorem sq_nonneg' (x : α) : 0 ≤ sqr x := by unfold sqr; exact mul_self_nonneg x

theorem zipWith_scatter_nonneg (krow y : List α) (mu : α) (hk : ∀ k ∈ krow, 0 ≤ k) :
    ∀ z ∈ List.zipWith (fun k yi => k * sqr (yi - mu)) krow y, 0 ≤ z := by
  induction krow generalizing y with
  | nil => simp
  | cons k ks ih =>
    cases y with
    | nil => simp
    | cons v vs =>
      intro z hz
      simp only [List.zipWith_cons_cons, List.mem_cons] at hz
      rcases hz with rfl | hz
      · exact mul_nonneg (hk k (List.mem_cons_self ..)) (sq_nonneg' _)
      · exact ih vs (fun k' hk' => hk k' (List.mem_cons_of_mem _ hk')) z hz

theorem weightRow_nonneg (w : Option (List α)) (krow : List α) (hk : ∀ k ∈ krow, 0 ≤ k)
    (hw : ∀ l, w = some l → ∀ x ∈ l, 0 ≤ x) : ∀ z ∈ weightRow w krow, 0 ≤ z := by
  cases w with
  | none => simpa [weightRow] using hk
  | some l =>
    have hl := hw l rfl
    simp only [weightRow]
    clear hw
    induction l generalizing krow with
    | nil => simp
    | cons a as ih =>
      cases krow with
      | nil => simp
      | cons k ks =>
        intro z hz
        simp only [List.zipWith_cons_cons, List.mem_cons] at hz
        rcases hz with rfl | hz
        · exact mul_nonneg (hl a (List.mem_cons_self ..)) (hk k (List.mem_cons_self ..))
        · exact ih ks (fun k' hk' => hk k' (List.mem_cons_of_mem _ hk'))
            (fun x hx => hl x (List.mem_cons_of_mem _ hx)) z hz

theorem transposeM_length (q : Nat) (M : List (List α)) : (transposeM q M).length = q := by
  simp [transposeM]

end L
end Ska.Regressor
