import SkaModel.Gen.SelectionGen

/-! The generated model of `skactiveml/utils/_selection.py` (`Gen/SelectionGen.lean`) agrees with the
hand-written model (`Core/Selection.lean`) on all inputs. Core Lean only. -/

namespace Ska.SelectionGen
open Ska Ska.PySel Ska.Gen.Sel

section Rand
variable {α : Type} [LT α] [DecidableLT α] {β : Type} [LT β] [DecidableLT β] [OfNat β 0]

omit [LT β] [DecidableLT β] in
theorem vmulB_eq_masked (m : Option α) (a : List (Option α)) (noise : List β) :
    vmulB noise (a.map (fun x => isOpt m x)) = masked m a noise := by
  induction a generalizing noise with
  | nil => cases noise <;> simp [vmulB, masked]
  | cons x xs ih =>
    cases noise with
    | nil => simp [vmulB, masked, ih]
    | cons n ns => simp [vmulB, masked, ih]

theorem rand_argmax_eq (draws : Nat → List β) (rs : Nat) (a : List (Option α)) :
    rand_argmax draws rs a = (randArgmax a (draws rs), rs + 1) := by
  simp only [rand_argmax, randArgmax, vmulB_eq_masked]

theorem rand_argmin_eq (draws : Nat → List β) (rs : Nat) (a : List (Option α)) :
    rand_argmin draws rs a = (randArgmin a (draws rs), rs + 1) := by
  simp only [rand_argmin, randArgmin, vmulB_eq_masked]

/-- the draws `c, c+1, …, c+n-1`. -/
def drawsFrom (draws : Nat → List β) : Nat → Nat → List (List β)
  | _, 0 => []
  | c, n+1 => draws c :: drawsFrom draws (c+1) n

omit [LT β] [DecidableLT β] [OfNat β 0] in
theorem range_map_drawsFrom (draws : Nat → List β) (n : Nat) :
    ∀ c, (List.range n).map (fun k => draws (c + k)) = drawsFrom draws c n := by
  induction n with
  | zero => intro c; simp [drawsFrom]
  | succ n ih =>
    intro c
    rw [List.range_succ_eq_map, List.map_cons, List.map_map, drawsFrom, ← ih (c+1)]
    simp only [Nat.add_zero, List.cons.injEq, true_and]
    apply List.map_congr_left
    intro k _
    simp only [Function.comp, Nat.succ_eq_add_one]
    congr 1
    omega

theorem set_append_length {γ : Type} (pre : List γ) (x : γ) (xs : List γ) (v : γ) :
    (pre ++ x :: xs).set pre.length v = pre ++ v :: xs := by
  simp

theorem getD_append_length {γ : Type} (pre : List γ) (x : γ) (xs : List γ) (d : γ) :
    (pre ++ x :: xs).getD pre.length d = x := by
  simp [List.getD]

/-- Loop invariant of the generated `simple_batch` loop: the first `k` slots are filled, the remaining `n` slots
still hold their initial value; after the `n` remaining steps they hold the picks / rows of `simpleBatchMaxLoop`. -/
theorem simple_batch_loop (draws : Nat → List β) (n : Nat) :
    ∀ (k : Nat) (cur : List (Option α)) (picks : List Nat) (rows : List (List (Option α))) (c : Nat),
    picks.length = k → rows.length = k →
    ∃ fin, (List.range' k n).foldl (simple_batch.loop1 draws)
        (picks ++ List.replicate n 0, rows ++ List.replicate n [], cur, c)
      = (picks ++ (simpleBatchMaxLoop n cur (drawsFrom draws c n)).map (·.1),
         rows ++ (simpleBatchMaxLoop n cur (drawsFrom draws c n)).map (·.2), fin, c + n) := by
  induction n with
  | zero =>
    intro k cur picks rows c _ _
    exact ⟨cur, by simp [simpleBatchMaxLoop]⟩
  | succ n ih =>
    intro k cur picks rows c hp hr
    have h := ih (k + 1) (cur.set (randArgmax cur (draws c)) none) (picks ++ [randArgmax cur (draws c)])
      (rows ++ [cur]) (c + 1) (by simp [hp]) (by simp [hr])
    obtain ⟨fin, h⟩ := h
    refine ⟨fin, ?_⟩
    simp only [List.range'_succ, List.foldl_cons, List.replicate_succ, drawsFrom, simpleBatchMaxLoop,
      List.map_cons]
    have e1 : simple_batch.loop1 draws
        (picks ++ 0 :: List.replicate n 0, rows ++ [] :: List.replicate n [], cur, c) k
        = ((picks ++ [randArgmax cur (draws c)]) ++ List.replicate n 0,
           (rows ++ [cur]) ++ List.replicate n [], cur.set (randArgmax cur (draws c)) none, c + 1) := by
      subst hp
      simp only [simple_batch.loop1, rand_argmax_eq, set_append_length, getD_append_length]
      rw [← hr, set_append_length]
      simp
    rw [e1, h]
    simp [Nat.add_assoc, Nat.add_comm 1 n]

end Rand

section Batch
variable {α : Type} [LT α] [DecidableLT α] [OfNat α 0] [Add α]
variable {β : Type} [LT β] [DecidableLT β] [OfNat β 0]

theorem simple_batch_max_eq (isInf : α → Bool) (draws : Nat → List β) (rs : Nat) (u : List (Option α)) (b : Nat) :
    simple_batch_max isInf draws rs u b
      = (simpleBatch (β := β) isInf u b .max
          ((List.range (min b (countSome u))).map (fun k => draws (rs + k))) []).map
          (fun rows => (rows.map (·.1), rows.map (·.2))) := by
  unfold simple_batch_max simpleBatch
  by_cases h1 : hasInf isInf u = true
  · simp [h1, Except.map]
  · by_cases h2 : b < 1
    · simp [h1, h2, Except.map]
    · have hb : (if countSome u < b then countSome u else b) = min b (countSome u) := by
        rw [Nat.min_def]; split <;> split <;> omega
      simp only [h1, h2, if_false, hb, Except.map, Bool.false_eq_true]
      obtain ⟨fin, h⟩ := simple_batch_loop draws (min b (countSome u)) 0 u [] [] rs rfl rfl
      rw [range_map_drawsFrom, List.range_eq_range']
      simp only [List.nil_append] at h
      rw [h]

end Batch

end Ska.SelectionGen
