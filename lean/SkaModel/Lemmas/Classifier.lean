import Mathlib.Algebra.Order.Field.Basic
import Mathlib.Tactic.Linarith
import Mathlib.Tactic.Ring
import Mathlib.Tactic.FieldSimp
import Mathlib.Data.List.Nodup
import SkaModel.Core.Classifier
import SkaModel.Lemmas.Selection

/-! Helper lemmas for the classifier model (`Core/Classifier.lean`): sums, simplex rows, matrix
products, scatterCols / searchsorted, the fitted branch of `SklearnClassifier.predict_proba`, vote counts.
Property theorems live in `SkaModel/Props/C11.lean`. -/

set_option linter.unusedSectionVars false
set_option linter.unusedVariables false

namespace Ska.Classifier
section SumL
variable {α : Type} [Field α] [LinearOrder α] [IsStrictOrderedRing α]

theorem sumFrom_add (acc : α) (l : List α) : sumFrom acc l = acc + sumL l := by
  unfold sumL
  induction l generalizing acc with
  | nil => simp [sumFrom]
  | cons x xs ih =>
    simp only [sumFrom]
    rw [ih (acc + x), ih (0 + x)]
    ring

@[simp] theorem sumL_nil : sumL ([] : List α) = 0 := rfl

theorem sumL_cons (x : α) (xs : List α) : sumL (x :: xs) = x + sumL xs := by
  show sumFrom (0 + x) xs = _
  rw [sumFrom_add]; ring

theorem natTo_eq (n : Nat) : (natTo n : α) = (n : α) := by
  induction n with
  | zero => simp [natTo]
  | succ n ih => simp [natTo, ih]

theorem sumL_nonneg (l : List α) (h : ∀ x ∈ l, 0 ≤ x) : 0 ≤ sumL l := by
  induction l with
  | nil => simp
  | cons x xs ih =>
    rw [sumL_cons]
    have h1 := h x (List.mem_cons_self ..)
    have h2 := ih (fun y hy => h y (List.mem_cons_of_mem _ hy))
    linarith

theorem sumL_map_divBy (l : List α) (s : α) : sumL (l.map (divBy s)) = sumL l / s := by
  induction l with
  | nil => simp
  | cons x xs ih =>
    simp only [List.map_cons, sumL_cons, ih, divBy]
    ring

theorem sumL_replicate (n : Nat) (c : α) : sumL (List.replicate n c) = (n : α) * c := by
  induction n with
  | zero => simp
  | succ n ih =>
    simp only [List.replicate_succ, sumL_cons, ih]
    push_cast; ring

theorem sumL_eq_zero_of_all_zero (l : List α) (h : ∀ x ∈ l, x = 0) : sumL l = 0 := by
  induction l with
  | nil => simp
  | cons x xs ih =>
    rw [sumL_cons, h x (List.mem_cons_self ..), ih (fun y hy => h y (List.mem_cons_of_mem _ hy))]
    ring

/-- a non-negative list with zero sum is all zero -/
theorem all_zero_of_sumL_eq_zero (l : List α) (h : ∀ x ∈ l, 0 ≤ x) (hs : sumL l = 0) : ∀ x ∈ l, x = 0 := by
  induction l with
  | nil => simp
  | cons x xs ih =>
    rw [sumL_cons] at hs
    have h1 := h x (List.mem_cons_self ..)
    have h2 := sumL_nonneg xs (fun y hy => h y (List.mem_cons_of_mem _ hy))
    intro y hy
    rcases List.mem_cons.mp hy with rfl | hy
    · linarith
    · exact ih (fun y hy => h y (List.mem_cons_of_mem _ hy)) (by linarith) y hy

theorem sumL_set (l : List α) (i : Nat) (v : α) (hi : i < l.length) :
    sumL (l.set i v) = sumL l - l.getD i 0 + v := by
  induction l generalizing i with
  | nil => simp at hi
  | cons x xs ih =>
    cases i with
    | zero => simp [sumL_cons]; ring
    | succ i =>
      simp only [List.set_cons_succ, sumL_cons, List.getD_cons_succ]
      rw [ih i (by simpa using hi)]
      ring

end SumL

/-! ## simplex predicate -/
section Simplex
variable {α : Type} [Field α] [LinearOrder α] [IsStrictOrderedRing α]

/-- a probability row over `k` classes: right length, non-negative entries, sum one. -/
def IsSimplex (k : Nat) (row : List α) : Prop := row.length = k ∧ (∀ x ∈ row, 0 ≤ x) ∧ sumL row = 1

theorem uniformRow_simplex (k : Nat) (hk : 0 < k) : IsSimplex k (uniformRow (α := α) k) := by
  have hkα : (0 : α) < (k : α) := by exact_mod_cast hk
  refine ⟨by simp [uniformRow], ?_, ?_⟩
  · intro x hx
    simp only [uniformRow, List.mem_replicate] at hx
    rw [hx.2, natTo_eq]
    positivity
  · simp only [uniformRow, sumL_replicate, natTo_eq]
    field_simp

theorem uniformRow_entry (k : Nat) (x : α) (hx : x ∈ uniformRow (α := α) k) : x = 1 / (k : α) := by
  simp only [uniformRow, List.mem_replicate] at hx
  rw [hx.2, natTo_eq]

theorem divBy_simplex (row : List α) (h : ∀ x ∈ row, 0 ≤ x) (hs : 0 < sumL row) :
    IsSimplex row.length (row.map (divBy (sumL row))) := by
  refine ⟨by simp, ?_, ?_⟩
  · intro x hx
    obtain ⟨y, hy, rfl⟩ := List.mem_map.mp hx
    exact div_nonneg (h y hy) (le_of_lt hs)
  · rw [sumL_map_divBy]; exact div_self (ne_of_gt hs)

theorem addRow_length (r p : List α) : (addRow r p).length = min r.length p.length := by
  simp [addRow]

theorem addRow_nonneg (r p : List α) (hr : ∀ x ∈ r, 0 ≤ x) (hp : ∀ x ∈ p, 0 ≤ x) :
    ∀ x ∈ addRow r p, 0 ≤ x := by
  induction r generalizing p with
  | nil => simp [addRow]
  | cons a as ih =>
    cases p with
    | nil => simp [addRow]
    | cons b bs =>
      intro x hx
      simp only [addRow, List.zipWith_cons_cons, List.mem_cons] at hx
      rcases hx with rfl | hx
      · have := hr a (List.mem_cons_self ..); have := hp b (List.mem_cons_self ..); linarith
      · exact ih bs (fun y hy => hr y (List.mem_cons_of_mem _ hy)) (fun y hy => hp y (List.mem_cons_of_mem _ hy)) x hx

theorem normalizeRow_simplex (k : Nat) (hk : 0 < k) (row : List α) (hl : row.length = k)
    (h : ∀ x ∈ row, 0 ≤ x) : IsSimplex k (normalizeRow k row) := by
  unfold normalizeRow
  simp only
  split
  · rename_i hs
    have := divBy_simplex row h hs
    rwa [hl] at this
  · rename_i hs
    have h0 := sumL_nonneg row h
    rw [if_neg (not_lt.mpr h0)]
    exact uniformRow_simplex k hk

theorem normalizeRow_zero (k : Nat) (row : List α) (h : ∀ x ∈ row, x = 0) :
    normalizeRow k row = uniformRow k := by
  unfold normalizeRow
  simp only [sumL_eq_zero_of_all_zero row h, lt_irrefl, if_false]

theorem normalizeRow_pos (k : Nat) (row : List α) (hs : 0 < sumL row) :
    normalizeRow k row = row.map (divBy (sumL row)) := by
  unfold normalizeRow
  simp only [hs, if_true]

end Simplex

/-! ## matrix products -/
section Mat
variable {α : Type} [Field α] [LinearOrder α] [IsStrictOrderedRing α]

theorem getD_nonneg (row : List α) (h : ∀ x ∈ row, 0 ≤ x) (c : Nat) : 0 ≤ row.getD c 0 := by
  rw [List.getD_eq_getElem?_getD]
  cases hc : row[c]? with
  | none => simp
  | some v => simpa using h v (List.mem_of_getElem? hc)

theorem zipMul_nonneg (a : List α) (B : List (List α)) (c : Nat) (ha : ∀ x ∈ a, 0 ≤ x)
    (hB : ∀ row ∈ B, ∀ x ∈ row, 0 ≤ x) :
    ∀ z ∈ List.zipWith (fun x row => x * row.getD c 0) a B, 0 ≤ z := by
  induction a generalizing B with
  | nil => simp
  | cons x xs ih =>
    cases B with
    | nil => simp
    | cons r rs =>
      intro z hz
      simp only [List.zipWith_cons_cons, List.mem_cons] at hz
      rcases hz with rfl | hz
      · exact mul_nonneg (ha x (List.mem_cons_self ..)) (getD_nonneg r (hB r (List.mem_cons_self ..)) c)
      · exact ih rs (fun y hy => ha y (List.mem_cons_of_mem _ hy))
          (fun row hrow => hB row (List.mem_cons_of_mem _ hrow)) z hz

theorem rowMul_length (k : Nat) (a : List α) (B : List (List α)) : (rowMul k a B).length = k := by
  simp [rowMul]

theorem rowMul_nonneg (k : Nat) (a : List α) (B : List (List α)) (ha : ∀ x ∈ a, 0 ≤ x)
    (hB : ∀ row ∈ B, ∀ x ∈ row, 0 ≤ x) : ∀ z ∈ rowMul k a B, 0 ≤ z := by
  intro z hz
  simp only [rowMul, List.mem_map] at hz
  obtain ⟨c, -, rfl⟩ := hz
  exact sumL_nonneg _ (zipMul_nonneg a B c ha hB)

theorem zipMul_zero (a : List α) (B : List (List α)) (c : Nat)
    (hB : ∀ row ∈ B, ∀ x ∈ row, x = 0) :
    ∀ z ∈ List.zipWith (fun x row => x * row.getD c 0) a B, z = 0 := by
  induction a generalizing B with
  | nil => simp
  | cons x xs ih =>
    cases B with
    | nil => simp
    | cons r rs =>
      intro z hz
      simp only [List.zipWith_cons_cons, List.mem_cons] at hz
      rcases hz with rfl | hz
      · have : r.getD c 0 = 0 := by
          rw [List.getD_eq_getElem?_getD]
          cases hc : r[c]? with
          | none => simp
          | some v => simpa using hB r (List.mem_cons_self ..) v (List.mem_of_getElem? hc)
        rw [this]; ring
      · exact ih rs (fun row hrow => hB row (List.mem_cons_of_mem _ hrow)) z hz

theorem rowMul_zero (k : Nat) (a : List α) (B : List (List α))
    (hB : ∀ row ∈ B, ∀ x ∈ row, x = 0) : ∀ z ∈ rowMul k a B, z = 0 := by
  intro z hz
  simp only [rowMul, List.mem_map] at hz
  obtain ⟨c, -, rfl⟩ := hz
  exact sumL_eq_zero_of_all_zero _ (zipMul_zero a B c hB)

/-- column `c` of `1 - eye(k)` against a row: `Σ_i a_i·[i ≠ c] = Σ a − a_c`. -/
theorem sumL_zipWith_zeroOne (a : List α) (c s : Nat) :
    sumL (List.zipWith (fun x i => x * (if i = c then (0 : α) else 1)) a (List.range' s a.length)) =
      sumL a - (if s ≤ c then a.getD (c - s) 0 else 0) := by
  induction a generalizing s with
  | nil => simp
  | cons x xs ih =>
    simp only [List.length_cons, List.range'_succ, List.zipWith_cons_cons, sumL_cons]
    rw [ih (s + 1)]
    by_cases h1 : s = c
    · subst h1; simp
    · by_cases h2 : s ≤ c
      · have h3 : s + 1 ≤ c := by omega
        have h4 : c - s = (c - (s + 1)) + 1 := by omega
        simp only [h1, h2, h3, if_true, if_false]
        rw [h4, List.getD_cons_succ]
        ring
      · have h3 : ¬ s + 1 ≤ c := by omega
        simp only [h1, h2, h3, if_false]
        ring

theorem zeroOne_getD (k i c : Nat) (hi : i < k) (hc : c < k) :
    ((zeroOne (α := α) k).getD i []).getD c 0 = if i = c then 0 else 1 := by
  simp [zeroOne, hi, hc]

theorem rowMul_zeroOne (k : Nat) (a : List α) (ha : a.length = k) (c : Nat) (hc : c < k) :
    (rowMul k a (zeroOne k)).getD c 0 = sumL a - a.getD c 0 := by
  have hf : (fun (x : α) (i : Nat) => x * ((List.range k).map (fun j => if i = j then (0 : α) else 1)).getD c 0) =
      fun x i => x * (if i = c then (0 : α) else 1) := by
    funext x i; simp [hc]
  have hz : List.zipWith (fun x row => x * row.getD c 0) a (zeroOne (α := α) k) =
      List.zipWith (fun x i => x * (if i = c then (0 : α) else 1)) a (List.range' 0 a.length) := by
    rw [ha]
    unfold zeroOne
    rw [List.zipWith_map_right, ← List.range_eq_range', hf]
  have := sumL_zipWith_zeroOne a c 0
  simp only [Nat.zero_le, if_true, Nat.sub_zero] at this
  simp only [rowMul]
  rw [List.getD_eq_getElem?_getD, List.getElem?_map, List.getElem?_range hc]
  simp only [Option.map_some, Option.getD_some]
  rw [hz, this]

end Mat

/-! ## scatterCols (`P_ext[:, class_indices] = P`) -/
section Scatter

theorem scatterCols_length {δ : Type} (row : List δ) (ci : List Nat) (vals : List δ) :
    (scatterCols row ci vals).length = row.length := by
  induction ci generalizing row vals with
  | nil => simp [scatterCols]
  | cons i is ih =>
    cases vals with
    | nil => simp [scatterCols]
    | cons v vs => simp [scatterCols, ih]

theorem scatterCols_map {δ ε : Type} (f : δ → ε) (row : List δ) (ci : List Nat) (vals : List δ) :
    scatterCols (row.map f) ci (vals.map f) = (scatterCols row ci vals).map f := by
  induction ci generalizing row vals with
  | nil => simp [scatterCols]
  | cons i is ih =>
    cases vals with
    | nil => simp [scatterCols]
    | cons v vs =>
      simp only [scatterCols, List.map_cons]
      rw [← List.map_set]
      exact ih _ _

theorem scatterCols_not_mem {δ : Type} (row : List δ) (ci : List Nat) (vals : List δ) (c : Nat) (hc : c ∉ ci) :
    (scatterCols row ci vals)[c]? = row[c]? := by
  induction ci generalizing row vals with
  | nil => simp [scatterCols]
  | cons i is ih =>
    cases vals with
    | nil => simp [scatterCols]
    | cons v vs =>
      simp only [scatterCols]
      rw [ih _ _ (fun h => hc (List.mem_cons_of_mem _ h))]
      have : i ≠ c := fun h => hc (h ▸ List.mem_cons_self ..)
      rw [List.getElem?_set_ne this]

/-- column `ci[j]` of the re-mapped row holds the estimator's column `j`. -/
theorem scatterCols_mem {δ : Type} (row : List δ) (ci : List Nat) (vals : List δ) (hnd : ci.Nodup)
    (hlen : vals.length = ci.length) (hlt : ∀ i ∈ ci, i < row.length) (j : Nat) (hj : j < ci.length) :
    (scatterCols row ci vals)[ci[j]]? = vals[j]? := by
  induction ci generalizing row vals j with
  | nil => simp at hj
  | cons i is ih =>
    cases vals with
    | nil => simp at hlen
    | cons v vs =>
      simp only [scatterCols]
      rw [List.nodup_cons] at hnd
      cases j with
      | zero =>
        simp only [List.getElem_cons_zero, List.getElem?_cons_zero]
        rw [scatterCols_not_mem _ _ _ _ hnd.1]
        rw [List.getElem?_set_self (hlt i (List.mem_cons_self ..))]
      | succ j =>
        simp only [List.getElem_cons_succ, List.getElem?_cons_succ]
        exact ih (row.set i v) vs hnd.2 (by simpa using hlen)
          (fun x hx => by simpa using hlt x (List.mem_cons_of_mem _ hx)) j (by simpa using hj)

theorem scatterCols_mem_or {δ : Type} (row : List δ) (ci : List Nat) (vals : List δ) :
    ∀ x ∈ scatterCols row ci vals, x ∈ row ∨ x ∈ vals := by
  induction ci generalizing row vals with
  | nil => intro x hx; left; simpa [scatterCols] using hx
  | cons i is ih =>
    cases vals with
    | nil => intro x hx; left; simpa [scatterCols] using hx
    | cons v vs =>
      intro x hx
      simp only [scatterCols] at hx
      rcases ih _ _ x hx with h | h
      · rcases List.mem_or_eq_of_mem_set h with h | h
        · left; exact h
        · right; rw [h]; exact List.mem_cons_self ..
      · right; exact List.mem_cons_of_mem _ h

variable {α : Type} [Field α] [LinearOrder α] [IsStrictOrderedRing α]

theorem scatterCols_sum (row : List α) (ci : List Nat) (vals : List α) (hnd : ci.Nodup)
    (hlen : vals.length = ci.length) (hlt : ∀ i ∈ ci, i < row.length)
    (hz : ∀ i ∈ ci, row.getD i 0 = 0) :
    sumL (scatterCols row ci vals) = sumL row + sumL vals := by
  induction ci generalizing row vals with
  | nil =>
    cases vals with
    | nil => simp [scatterCols]
    | cons v vs => simp at hlen
  | cons i is ih =>
    cases vals with
    | nil => simp at hlen
    | cons v vs =>
      simp only [scatterCols]
      rw [List.nodup_cons] at hnd
      rw [ih (row.set i v) vs hnd.2 (by simpa using hlen)
        (fun x hx => by simpa using hlt x (List.mem_cons_of_mem _ hx)) ?_]
      · rw [sumL_set row i v (hlt i (List.mem_cons_self ..)), hz i (List.mem_cons_self ..), sumL_cons]
        ring
      · intro x hx
        have hne : i ≠ x := fun h => hnd.1 (h ▸ hx)
        rw [List.getD_eq_getElem?_getD, List.getElem?_set_ne hne, ← List.getD_eq_getElem?_getD]
        exact hz x (List.mem_cons_of_mem _ hx)

end Scatter

/-! ## searchsorted / class_indices -/
section Search
variable {γ : Type} [LinearOrder γ]

theorem searchsorted_nil_of_le (cls : List γ) (x : γ) (h : ∀ c ∈ cls, x ≤ c) : searchsorted cls x = 0 := by
  unfold searchsorted
  rw [List.length_eq_zero_iff, List.filter_eq_nil_iff]
  intro c hc
  simp [isLtB, not_lt.mpr (h c hc)]

/-- on a strictly increasing `classes_`, `searchsorted` finds the position of every member. -/
theorem searchsorted_spec (cls : List γ) (hs : cls.Pairwise (· < ·)) (x : γ) (hx : x ∈ cls) :
    cls[searchsorted cls x]? = some x := by
  induction cls with
  | nil => simp at hx
  | cons c cs ih =>
    rw [List.pairwise_cons] at hs
    by_cases hcx : c < x
    · have hx' : x ∈ cs := by
        rcases List.mem_cons.mp hx with rfl | h
        · exact absurd hcx (lt_irrefl _)
        · exact h
      have : searchsorted (c :: cs) x = searchsorted cs x + 1 := by
        simp [searchsorted, isLtB, hcx]
      rw [this, List.getElem?_cons_succ]
      exact ih hs.2 hx'
    · have hxc : x = c := by
        rcases List.mem_cons.mp hx with h | h
        · exact h
        · exact absurd (hs.1 x h) hcx
      subst hxc
      have : searchsorted (x :: cs) x = 0 := by
        apply searchsorted_nil_of_le
        intro c hc
        rcases List.mem_cons.mp hc with rfl | h
        · exact le_refl _
        · exact le_of_lt (hs.1 c h)
      rw [this]; simp

theorem searchsorted_lt (cls : List γ) (hs : cls.Pairwise (· < ·)) (x : γ) (hx : x ∈ cls) :
    searchsorted cls x < cls.length := by
  have := searchsorted_spec cls hs x hx
  by_contra h
  rw [List.getElem?_eq_none (not_lt.mp h)] at this
  cases this

end Search

/-! ## helpers for the property theorems of C11 -/
section C11Helpers
variable {α : Type} [Field α] [LinearOrder α] [IsStrictOrderedRing α]

theorem addRow_zero (r p : List α) (hr : ∀ x ∈ r, x = 0) (hp : ∀ x ∈ p, x = 0) : ∀ x ∈ addRow r p, x = 0 := by
  induction r generalizing p with
  | nil => simp [addRow]
  | cons a as ih =>
    cases p with
    | nil => simp [addRow]
    | cons b bs =>
      intro x hx
      simp only [addRow, List.zipWith_cons_cons, List.mem_cons] at hx
      rcases hx with rfl | hx
      · rw [hr a (List.mem_cons_self ..), hp b (List.mem_cons_self ..)]; ring
      · exact ih bs (fun y hy => hr y (List.mem_cons_of_mem _ hy)) (fun y hy => hp y (List.mem_cons_of_mem _ hy)) x hx

theorem allNumbers_map_some (Q : List (List α)) : allNumbers (Q.map (fun r => r.map some)) = some Q := by
  unfold allNumbers
  induction Q with
  | nil => rfl
  | cons q qs ih =>
    have hq : (q.map some).mapM id = some q := by
      induction q with
      | nil => rfl
      | cons x xs ihx => simp [List.mapM_cons, ihx]
    simp only [List.map_cons, List.mapM_cons, hq, ih]
    rfl

theorem labelCountProba_simplex (k n : Nat) (hk : 0 < k) (counts : List α) (hl : counts.length = k)
    (hc : ∀ x ∈ counts, 0 ≤ x) :
    (labelCountProba k n counts).length = n ∧ ∀ r ∈ labelCountProba k n counts, IsSimplex k r := by
  unfold labelCountProba
  simp only
  have h0 := sumL_nonneg counts hc
  split
  · rename_i h
    have hpos : 0 < sumL counts := by
      simp only [Bool.or_eq_true, decide_eq_true_eq] at h
      rcases h with h | h
      · exact h
      · exact absurd h (not_lt.mpr h0)
    refine ⟨by simp, ?_⟩
    intro r hr
    rw [(List.mem_replicate.mp hr).2]
    have := divBy_simplex counts hc hpos
    rwa [hl] at this
  · refine ⟨by simp, ?_⟩
    intro r hr
    rw [(List.mem_replicate.mp hr).2]
    exact uniformRow_simplex k hk

/-- the re-mapped row of one estimator row `p` (no NaN) -/
theorem remapRow_some (k : Nat) (ci : List Nat) (p : List α) (h1 : ci.length ≠ 1) (hp : p.length = ci.length) :
    remapRow k ci (p.map some) = .ok ((scatterCols (List.replicate k (0 : α)) ci p).map some) := by
  unfold remapRow
  simp only [h1, if_false, List.length_map, hp, if_true]
  rw [← scatterCols_map]
  simp

theorem remapRow_single (k : Nat) (i : Nat) (p : List (Option α)) :
    remapRow (α := α) k [i] p = .ok (((List.replicate k (0 : α)).set i 1).map some) := by
  unfold remapRow
  simp [scatterCols, List.map_set]

theorem scatterCols_zeros_simplex (k : Nat) (ci : List Nat) (p : List α) (hnd : ci.Nodup) (hlt : ∀ i ∈ ci, i < k)
    (hp : IsSimplex ci.length p) : IsSimplex k (scatterCols (List.replicate k (0 : α)) ci p) := by
  obtain ⟨hlen, hnn, hsum⟩ := hp
  refine ⟨by simp [scatterCols_length], ?_, ?_⟩
  · intro x hx
    rcases scatterCols_mem_or _ _ _ x hx with h | h
    · rw [(List.mem_replicate.mp h).2]
    · exact hnn x h
  · rw [scatterCols_sum _ ci p hnd hlen (by simpa using hlt) ?_, hsum]
    · rw [sumL_replicate]; ring
    · intro i hi
      rw [List.getD_eq_getElem?_getD, List.getElem?_replicate]
      simp [hlt i hi]

theorem mapM_ok {σ τ ε : Type} (f : σ → Except ε τ) (g : σ → τ) (l : List σ)
    (h : ∀ x ∈ l, f x = .ok (g x)) : l.mapM f = .ok (l.map g) := by
  induction l with
  | nil => rfl
  | cons x xs ih =>
    rw [List.mapM_cons, h x (List.mem_cons_self ..), ih (fun y hy => h y (List.mem_cons_of_mem _ hy))]
    rfl

/-- what the fitted branch computes on NaN-free estimator output: identity when the estimator knows
all `k` classes, otherwise the scatterCols of every row into `k` zero columns. -/
def remapped (k : Nat) (ci : List Nat) (Pe : List (List α)) : List (List α) :=
  if ci.length = k then Pe
  else if ci.length = 1 then Pe.map (fun _ => (List.replicate k (0 : α)).set (ci.getD 0 0) 1)
  else Pe.map (fun p => scatterCols (List.replicate k (0 : α)) ci p)

theorem sklearnPredictProba_fitted (k n : Nat) (Pe : List (List α)) (ci : List Nat) (counts : List α)
    (hne : Pe ≠ []) (hP : ∀ p ∈ Pe, p.length = ci.length) :
    sklearnPredictProba k n true (Pe.map (fun r => r.map some)) ci counts = .ok (remapped k ci Pe) := by
  cases Pe with
  | nil => exact absurd rfl hne
  | cons p0 ps =>
    have h0 : p0.length = ci.length := hP p0 (List.mem_cons_self ..)
    unfold sklearnPredictProba remapped
    simp only [if_true, List.map_cons, List.length_map, h0]
    by_cases hk : ci.length = k
    · simp only [hk, ne_eq, not_true_eq_false, if_false, if_true]
      have := allNumbers_map_some (p0 :: ps)
      simp only [List.map_cons] at this
      rw [this]
    · simp only [ne_eq, hk, not_false_eq_true, if_true, if_false]
      by_cases h1 : ci.length = 1
      · obtain ⟨i, rfl⟩ := List.length_eq_one_iff.mp h1
        have := mapM_ok (remapRow (α := α) k [i]) (fun _ => ((List.replicate k (0 : α)).set i 1).map some)
          ((p0.map some) :: ps.map (fun r => r.map some)) (fun x _ => remapRow_single k i x)
        rw [this]
        simp only [List.length_cons, List.length_nil, if_true, List.getD_cons_zero]
        have e := allNumbers_map_some ((p0 :: ps).map (fun _ => (List.replicate k (0 : α)).set i 1))
        simp only [List.map_cons, List.map_map] at e ⊢
        rw [show ((fun _ => List.map some ((List.replicate k (0 : α)).set i 1)) ∘ fun (r : List α) => List.map some r) =
            ((fun r => List.map some r) ∘ fun (_ : List α) => (List.replicate k (0 : α)).set i 1) from rfl]
        rw [e]
      · have := mapM_ok (remapRow (α := α) k ci) (fun r => (scatterCols (List.replicate k (0 : α)) ci (r.filterMap id)).map some)
          ((p0 :: ps).map (fun r => r.map some)) ?_
        · simp only [List.map_cons] at this
          rw [this]
          simp only [h1, if_false]
          have e := allNumbers_map_some ((p0 :: ps).map (fun p => scatterCols (List.replicate k (0 : α)) ci p))
          simp only [List.map_cons, List.map_map] at e ⊢
          have hfm : ∀ (l : List α), (l.map some).filterMap id = l := by
            intro l; induction l with
            | nil => rfl
            | cons x xs ih => simp
          simp only [Function.comp_def, hfm]
          simp only [Function.comp_def] at e
          rw [e]
        · intro x hx
          obtain ⟨p, hp, rfl⟩ := List.mem_map.mp hx
          have hfm : (p.map some).filterMap id = p := by
            induction p with
            | nil => rfl
            | cons x xs ih => simp
          rw [hfm]
          exact remapRow_some k ci p h1 (hP p hp)

/-- expected cost of predicting class index `j` for query row `i`: `(P @ cost_matrix_)[i, j]`. -/
def costAt (k : Nat) (P C : List (List α)) (i j : Nat) : α := ((expectedCosts k P C).getD i []).getD j 0

theorem countSome_map_some (l : List α) (h : 0 < l.length) : 0 < countSome (l.map some) := by
  rw [countSome_pos_iff]
  cases l with
  | nil => simp at h
  | cons x xs => exact ⟨x, by simp⟩

theorem sumL_addRow (a b : List α) (h : a.length = b.length) : sumL (addRow a b) = sumL a + sumL b := by
  induction a generalizing b with
  | nil =>
    cases b with
    | nil => simp [addRow]
    | cons _ _ => simp at h
  | cons x xs ihx =>
    cases b with
    | nil => simp at h
    | cons y ys =>
      simp only [addRow, List.zipWith_cons_cons, sumL_cons]
      have := ihx ys (by simpa using h)
      simp only [addRow] at this
      rw [this]; ring

theorem addRowsFrom_spec (k : Nat) (acc : List α) (rows : List (List α)) (h : ∀ r ∈ rows, IsSimplex k r)
    (hl : acc.length = k) (hnn : ∀ x ∈ acc, 0 ≤ x) :
    (addRowsFrom acc rows).length = k ∧ (∀ x ∈ addRowsFrom acc rows, 0 ≤ x) ∧
      sumL (addRowsFrom acc rows) = sumL acc + (rows.length : α) := by
  induction rows generalizing acc with
  | nil => exact ⟨hl, hnn, by simp [addRowsFrom]⟩
  | cons r rs ih =>
    obtain ⟨rl, rnn, rs1⟩ := h r (List.mem_cons_self ..)
    obtain ⟨i1, i2, i3⟩ := ih (addRow acc r) (fun y hy => h y (List.mem_cons_of_mem _ hy))
      (by rw [addRow_length, hl, rl]; simp) (addRow_nonneg _ _ hnn rnn)
    refine ⟨i1, i2, ?_⟩
    simp only [addRowsFrom]
    rw [i3, sumL_addRow acc r (by rw [hl, rl]), rs1]
    simp only [List.length_cons]
    push_cast; ring

theorem addRows_spec (k : Nat) (rows : List (List α)) (h : ∀ r ∈ rows, IsSimplex k r) :
    (addRows k rows).length = k ∧ (∀ x ∈ addRows k rows, 0 ≤ x) ∧ sumL (addRows k rows) = (rows.length : α) := by
  have := addRowsFrom_spec k (List.replicate k (0 : α)) rows h (by simp)
    (fun x hx => by rw [(List.mem_replicate.mp hx).2])
  unfold addRows
  rw [sumL_replicate] at this
  simpa using this

theorem sumL_map_add {σ : Type} (l : List σ) (f g : σ → α) :
    sumL (l.map (fun c => f c + g c)) = sumL (l.map f) + sumL (l.map g) := by
  induction l with
  | nil => simp
  | cons x xs ih => simp only [List.map_cons, sumL_cons, ih]; ring

theorem sumL_indicator (l : List Nat) (a : Nat) :
    sumL (l.map (fun c => if a = c then (1 : α) else 0)) = ((l.filter (· == a)).length : α) := by
  induction l with
  | nil => simp
  | cons x xs ih =>
    simp only [List.map_cons, sumL_cons, ih, List.filter_cons]
    by_cases h : a = x
    · subst h; simp; ring
    · have h' : ¬ x = a := fun e => h e.symm
      simp [h, h']

/-- the vote counts of `m` members voting for classes below `k` add up to `m`. -/
theorem sumL_voteCounts (k : Nat) (p : List Nat) (hlt : ∀ c ∈ p, c < k) :
    sumL (voteCounts (α := α) k p) = (p.length : α) := by
  induction p with
  | nil =>
    simp only [voteCounts, List.filter_nil, List.length_nil, natTo]
    rw [show (List.range k).map (fun _ => (0 : α)) = List.replicate k 0 by simp [List.map_const']]
    rw [sumL_replicate]; simp
  | cons a as ih =>
    have ha : a < k := hlt a (List.mem_cons_self ..)
    have ih' := ih (fun c hc => hlt c (List.mem_cons_of_mem _ hc))
    have hcnt : ∀ c, (natTo (((a :: as).filter (· == c)).length) : α) =
        (if a = c then (1 : α) else 0) + natTo ((as.filter (· == c)).length) := by
      intro c
      by_cases h : a = c
      · subst h; simp [natTo_eq]; ring
      · simp [h, natTo_eq]
    simp only [voteCounts] at ih' ⊢
    rw [show (fun c => (natTo (((a :: as).filter (· == c)).length) : α)) =
        fun c => (if a = c then (1 : α) else 0) + natTo ((as.filter (· == c)).length) from funext hcnt]
    rw [sumL_map_add, ih', sumL_indicator]
    have : ((List.range k).filter (· == a)).length = 1 := by
      have hnd : (List.range k).Nodup := List.nodup_range
      have hmem : a ∈ List.range k := List.mem_range.mpr ha
      have := List.count_eq_one_of_mem hnd hmem
      rw [List.count_eq_length_filter] at this
      simpa using this
    rw [this]; simp only [List.length_cons]; push_cast; ring

end C11Helpers

/-! ## argsort / cost-matrix permutation -/
section
variable {γ : Type} [LinearOrder γ]

theorem searchsorted_lt_of_lt (cls : List γ) (x y : γ) (hx : x ∈ cls) (hxy : x < y) :
    searchsorted cls x < searchsorted cls y := by
  unfold searchsorted
  rw [← List.countP_eq_length_filter, ← List.countP_eq_length_filter]
  induction cls with
  | nil => simp at hx
  | cons c cs ih =>
    simp only [List.countP_cons]
    have hmono : List.countP (isLtB x) cs ≤ List.countP (isLtB y) cs := by
      apply List.countP_mono_left
      intro z _ hz
      simp only [isLtB, decide_eq_true_eq] at hz ⊢
      exact lt_trans hz hxy
    rcases List.mem_cons.mp hx with rfl | hx'
    · have h1 : isLtB x x = false := by simp [isLtB]
      have h2 : isLtB y x = true := by simp [isLtB, hxy]
      simp only [h1, h2, Bool.false_eq_true, if_false, if_true]
      omega
    · have := ih hx'
      by_cases hc : isLtB x c = true
      · have hc' : isLtB y c = true := by
          simp only [isLtB, decide_eq_true_eq] at hc ⊢; exact lt_trans hc hxy
        simp only [hc, hc', if_true]; omega
      · have hc0 : (if isLtB x c = true then 1 else 0) = 0 := by simp [hc]
        rw [hc0]
        have h0 : 0 ≤ (if isLtB y c = true then 1 else 0) := Nat.zero_le _
        omega

theorem searchsorted_inj (cls : List γ) (x y : γ) (hx : x ∈ cls) (hy : y ∈ cls)
    (h : searchsorted cls x = searchsorted cls y) : x = y := by
  rcases lt_trichotomy x y with h1 | h1 | h1
  · exact absurd h (ne_of_lt (searchsorted_lt_of_lt cls x y hx h1))
  · exact h1
  · exact absurd h.symm (ne_of_lt (searchsorted_lt_of_lt cls y x hy h1))

/-- for distinct labels, the entry of `argsort` at the rank of label `i` is `i`. -/
theorem argsortL_rank (cls : List γ) (hnd : cls.Nodup) (i : Nat) (hi : i < cls.length)
    (hr : searchsorted cls cls[i] < cls.length) :
    (argsortL cls).getD (searchsorted cls cls[i]) 0 = i := by
  unfold argsortL
  rw [List.getD_eq_getElem?_getD, List.getElem?_map, List.getElem?_range hr]
  simp only [Option.map_some, Option.getD_some]
  rw [List.findIdx_eq hi]
  refine ⟨by simp [rankIs], ?_⟩
  intro j hji
  have hj : j < cls.length := by omega
  by_contra hne
  have : rankIs cls (searchsorted cls cls[i]) cls[j] = true := by simpa using hne
  simp only [rankIs, beq_iff_eq] at this
  have e := searchsorted_inj cls cls[j] cls[i] (List.getElem_mem hj) (List.getElem_mem hi) this
  have := (List.Nodup.getElem_inj_iff hnd).mp e
  omega

theorem searchsorted_lt_length (cls : List γ) (x : γ) (hx : x ∈ cls) : searchsorted cls x < cls.length := by
  unfold searchsorted
  have h1 : (cls.filter (isLtB x)).length ≤ cls.length := List.length_filter_le _ _
  rcases Nat.lt_or_ge (cls.filter (isLtB x)).length cls.length with h | h
  · exact h
  · exfalso
    have he : (cls.filter (isLtB x)).length = cls.length := by omega
    have := List.length_filter_eq_length_iff.mp he x hx
    simp [isLtB] at this
end

end Ska.Classifier
