import SkaModel.Core.MultiAnnot
import SkaModel.Lemmas.Selection
import SkaModel.Props.C18
import Mathlib.Order.Defs.LinearOrder
import Mathlib.Order.Basic
import Mathlib.Algebra.Order.Field.Basic
import Mathlib.Tactic.Linarith

/-! Helper lemmas for the multi-annotator model (`Core/MultiAnnot.lean`). Property theorems live in
`SkaModel/Props/C07.lean`. -/

namespace Ska.MultiAnnot
open Ska Ska.C18
set_option linter.unusedSectionVars false
set_option linter.unusedSimpArgs false

/-! ### `_n_to_assign_annotators` -/

theorem sum_zipWith_le (f : Nat → Nat → Nat) (hf : ∀ n c, f n c ≤ n) (nmax cur : List Nat) :
    (List.zipWith f nmax cur).sum ≤ nmax.sum := by
  induction nmax generalizing cur with
  | nil => simp
  | cons n ns ih =>
    cases cur with
    | nil => simp
    | cons c cs =>
      simp only [List.zipWith_cons_cons, List.sum_cons]
      have := ih cs
      have := hf n c
      omega

theorem assignInit_sum_le (nmax pref : List Nat) : (assignInit nmax pref).sum ≤ nmax.sum :=
  sum_zipWith_le min (fun n c => Nat.min_le_left n c) nmax pref

theorem assignStep_sum_le (nmax cur : List Nat) : (assignStep nmax cur).sum ≤ nmax.sum :=
  sum_zipWith_le minSucc (fun n c => Nat.min_le_left n (c + 1)) nmax cur

namespace Regressions

/-- the loop of `_n_to_assign_annotators` **before repair 6c5fda89** (`while n_pairs < batch_size:` only) -/
def assignIterOld : Nat → Nat → List Nat → List Nat → Option (List Nat)
  | fuel, b, nmax, cur =>
    if b ≤ cur.sum then some cur
    else match fuel with
      | 0 => none
      | f + 1 => assignIterOld f b nmax (assignStep nmax cur)

def nToAssignOld (fuel b : Nat) (nmax pref : List Nat) : Option (List Nat) :=
  assignIterOld fuel b nmax (assignInit nmax pref)

theorem assignIterOld_none (fuel b : Nat) (nmax cur : List Nat) (h : nmax.sum < b)
    (hc : cur.sum ≤ nmax.sum) : assignIterOld fuel b nmax cur = none := by
  induction fuel generalizing cur with
  | zero =>
    unfold assignIterOld
    rw [if_neg (by omega)]
  | succ f ih =>
    unfold assignIterOld
    rw [if_neg (by omega)]
    exact ih _ (assignStep_sum_le nmax cur)

end Regressions

/-- pointwise `≤` of two lists of equal length -/
def LeL : List Nat → List Nat → Prop
  | [], [] => True
  | a :: as, b :: bs => a ≤ b ∧ LeL as bs
  | _, _ => False

theorem LeL.refl (l : List Nat) : LeL l l := by
  induction l with
  | nil => trivial
  | cons a as ih => exact ⟨Nat.le_refl a, ih⟩

theorem LeL.trans {a b c : List Nat} (h1 : LeL a b) (h2 : LeL b c) : LeL a c := by
  induction a generalizing b c with
  | nil => cases b <;> cases c <;> simp_all [LeL]
  | cons x xs ih =>
    cases b with
    | nil => simp [LeL] at h1
    | cons y ys =>
      cases c with
      | nil => simp [LeL] at h2
      | cons z zs => exact ⟨Nat.le_trans h1.1 h2.1, ih h1.2 h2.2⟩

theorem LeL.length {a b : List Nat} (h : LeL a b) : a.length = b.length := by
  induction a generalizing b with
  | nil => cases b <;> simp_all [LeL]
  | cons x xs ih =>
    cases b with
    | nil => simp [LeL] at h
    | cons y ys => simp [ih h.2]

theorem LeL.getD {a b : List Nat} (h : LeL a b) (i : Nat) : a.getD i 0 ≤ b.getD i 0 := by
  induction a generalizing b i with
  | nil => cases b <;> simp_all [LeL]
  | cons x xs ih =>
    cases b with
    | nil => simp [LeL] at h
    | cons y ys =>
      cases i with
      | zero => simpa using h.1
      | succ i => simpa using ih h.2 i

theorem LeL.sum_le {a b : List Nat} (h : LeL a b) : a.sum ≤ b.sum := by
  induction a generalizing b with
  | nil => cases b <;> simp_all [LeL]
  | cons x xs ih =>
    cases b with
    | nil => simp [LeL] at h
    | cons y ys => have := ih h.2; have := h.1; simp only [List.sum_cons]; omega

theorem assignStep_spec (nmax cur : List Nat) (h : LeL cur nmax) :
    LeL (assignStep nmax cur) nmax ∧ LeL cur (assignStep nmax cur) ∧
    (cur.sum < nmax.sum → cur.sum + 1 ≤ (assignStep nmax cur).sum) := by
  induction cur generalizing nmax with
  | nil => cases nmax <;> simp_all [LeL, assignStep]
  | cons c cs ih =>
    cases nmax with
    | nil => simp [LeL] at h
    | cons n ns =>
      obtain ⟨i1, i2, i3⟩ := ih ns h.2
      have hcn := h.1
      have hs := LeL.sum_le h.2
      have hs2 := LeL.sum_le i2
      simp only [assignStep, List.zipWith_cons_cons, LeL, minSucc, List.sum_cons] at *
      refine ⟨⟨by omega, i1⟩, ⟨by omega, i2⟩, ?_⟩
      intro hlt
      by_cases hc : c < n
      · omega
      · have := i3 (by omega); omega

theorem assignInit_le (nmax pref : List Nat) (h : nmax.length = pref.length) :
    LeL (assignInit nmax pref) nmax := by
  induction nmax generalizing pref with
  | nil => cases pref <;> simp_all [assignInit, LeL]
  | cons n ns ih =>
    cases pref with
    | nil => simp at h
    | cons p ps =>
      have := ih ps (by simpa using h)
      simp only [assignInit, List.zipWith_cons_cons, LeL] at *
      exact ⟨Nat.min_le_left .., this⟩

theorem canGrow_cons (n c : Nat) (ns cs : List Nat) :
    canGrow (n :: ns) (c :: cs) = (decide (c < n) || canGrow ns cs) := by
  simp [canGrow, ltB]

theorem canGrow_false (nmax cur : List Nat) (hle : LeL cur nmax) (h : canGrow nmax cur = false) :
    cur = nmax := by
  induction cur generalizing nmax with
  | nil => cases nmax <;> simp_all [LeL]
  | cons c cs ih =>
    cases nmax with
    | nil => simp [LeL] at hle
    | cons n ns =>
      rw [canGrow_cons] at h
      simp only [Bool.or_eq_false_iff, decide_eq_false_iff_not] at h
      have e := ih ns hle.2 h.2
      have h1 := hle.1
      have : c = n := by omega
      rw [e, this]

theorem canGrow_true_lt (nmax cur : List Nat) (hle : LeL cur nmax) (h : canGrow nmax cur = true) :
    cur.sum < nmax.sum := by
  induction cur generalizing nmax with
  | nil => cases nmax <;> simp_all [LeL, canGrow]
  | cons c cs ih =>
    cases nmax with
    | nil => simp [LeL] at hle
    | cons n ns =>
      rw [canGrow_cons] at h
      have h1 := hle.1
      have h2 := LeL.sum_le hle.2
      simp only [List.sum_cons]
      rcases Bool.or_eq_true_iff.mp h with h | h
      · have : c < n := by simpa using h
        omega
      · have := ih ns hle.2 h
        omega

/-- the repaired loop always exits (within `Σ nmax − Σ cur` passes): with the batch filled, or
saturated at `nmax` -/
theorem assignIter_some (fuel b : Nat) (nmax cur : List Nat) (hle : LeL cur nmax)
    (hf : nmax.sum - cur.sum ≤ fuel) :
    ∃ r, assignIter fuel b nmax cur = some r ∧ (b ≤ r.sum ∨ r = nmax) ∧ LeL r nmax ∧ LeL cur r ∧
      (b ≤ cur.sum → r = cur) := by
  induction fuel generalizing cur with
  | zero =>
    have hs := LeL.sum_le hle
    unfold assignIter
    by_cases hbc : b ≤ cur.sum
    · rw [if_pos (by simp [hbc])]
      exact ⟨cur, rfl, Or.inl hbc, hle, LeL.refl _, fun _ => rfl⟩
    · cases hg : canGrow nmax cur with
      | true => have := canGrow_true_lt nmax cur hle hg; omega
      | false =>
        rw [if_pos (by simp [hg])]
        exact ⟨cur, rfl, Or.inr (canGrow_false nmax cur hle hg), hle, LeL.refl _, fun _ => rfl⟩
  | succ f ih =>
    unfold assignIter
    by_cases hbc : b ≤ cur.sum
    · rw [if_pos (by simp [hbc])]
      exact ⟨cur, rfl, Or.inl hbc, hle, LeL.refl _, fun _ => rfl⟩
    · cases hg : canGrow nmax cur with
      | false =>
        rw [if_pos (by simp)]
        exact ⟨cur, rfl, Or.inr (canGrow_false nmax cur hle hg), hle, LeL.refl _, fun _ => rfl⟩
      | true =>
        rw [if_neg (by simp [hbc])]
        obtain ⟨s1, s2, s3⟩ := assignStep_spec nmax cur hle
        have := s3 (canGrow_true_lt nmax cur hle hg)
        obtain ⟨r, hr, r1, r2, r3, -⟩ := ih (assignStep nmax cur) s1 (by omega)
        exact ⟨r, hr, r1, r2, LeL.trans s2 r3, fun h => absurd h hbc⟩

section BlockL
variable {α : Type}

def blockCount (M : List (Option α)) (m s : Nat) : Nat := countSome ((M.drop (s * m)).take m)

theorem set_none_some (M : List (Option α)) (p q : Nat) (v : α)
    (h : (M.set p none)[q]? = some (some v)) : M[q]? = some (some v) ∧ q ≠ p := by
  by_cases hqp : p = q
  · subst hqp
    rw [List.getElem?_set] at h
    simp only [if_true] at h
    split at h <;> simp at h
  · rw [List.getElem?_set_ne hqp] at h
    exact ⟨h, fun e => hqp e.symm⟩

theorem div_block {m s k : Nat} (hk : k < m) : (s * m + k) / m = s := by
  have hm : 0 < m := by omega
  rw [Nat.add_comm, Nat.add_mul_div_right _ _ hm, Nat.div_eq_of_lt hk]
  simp

theorem block_bounds {m q : Nat} (hm : 0 < m) : q / m * m ≤ q ∧ q < q / m * m + m := by
  refine ⟨Nat.div_mul_le_self q m, ?_⟩
  have := Nat.lt_div_mul_add (a := q) hm
  omega

theorem blockCount_pos (M : List (Option α)) (m s : Nat) (h : 0 < blockCount M m s) :
    ∃ q v, q / m = s ∧ M[q]? = some (some v) := by
  obtain ⟨v, hv⟩ := (countSome_pos_iff _).mp h
  obtain ⟨k, hk, hkv⟩ := List.getElem_of_mem hv
  have hkm : k < m := by
    simp only [List.length_take] at hk; omega
  refine ⟨s * m + k, v, div_block hkm, ?_⟩
  rw [List.getElem_take, List.getElem_drop] at hkv
  rw [← hkv]
  exact List.getElem?_eq_getElem _

theorem blockCount_set_in (M : List (Option α)) (m s q : Nat) (v : α) (hm : 0 < m)
    (hq : q / m = s) (h : M[q]? = some (some v)) :
    blockCount (M.set q none) m s + 1 = blockCount M m s := by
  unfold blockCount
  obtain ⟨h1, h2⟩ := block_bounds (q := q) hm
  rw [hq] at h1 h2
  have e : ((M.set q none).drop (s * m)).take m = ((M.drop (s * m)).take m).set (q - s * m) none := by
    rw [List.drop_set, if_neg (by omega), List.take_set]
  rw [e]
  apply countSome_set_none _ _ v
  rw [List.getElem?_take, if_pos (by omega), List.getElem?_drop]
  rwa [show s * m + (q - s * m) = q by omega]

theorem blockCount_set_out (M : List (Option α)) (m s q : Nat) (hm : 0 < m) (hq : q / m ≠ s) :
    blockCount (M.set q none) m s = blockCount M m s := by
  unfold blockCount
  rcases Nat.lt_or_gt_of_ne hq with hlt | hgt
  · have : q < s * m := (Nat.div_lt_iff_lt_mul hm).mp hlt
    rw [List.drop_set, if_pos this]
  · have : (s + 1) * m ≤ q := (Nat.le_div_iff_mul_le hm).mp hgt
    have h3 : s * m + m ≤ q := by rw [Nat.add_mul] at this; omega
    rw [List.drop_set, if_neg (by omega), List.take_set]
    congr 1
    apply List.set_eq_of_length_le
    simp only [List.length_take]; omega

end BlockL
section LoopL
variable {α : Type} [LinearOrder α]
variable {β : Type} [LinearOrder β] [Zero β]

/-- what C07 demands of the step records, `prev` being the picks of earlier steps -/
def Valid (avail : List Bool) : List Nat → List (Nat × List (Option α)) → Prop
  | _, [] => True
  | prev, (p, row) :: rest =>
    avail.getD p false = true ∧ p ∉ prev ∧ (∃ v, row[p]? = some (some v)) ∧
    row.length = avail.length ∧
    (∀ q, (avail.getD q false = false ∨ q ∈ prev) → row.getD q none = none) ∧
    Valid avail (p :: prev) rest

/-- the schedule of the sample pointer: which chosen sample each batch step works on -/
def phaseSeq : Nat → List Nat → List Nat → Nat → Nat → List Nat
  | 0, _, _, _, _ => []
  | b + 1, nAs, c, si, ps =>
    c.getD si 0 ::
      (if nAs.getD si 0 ≤ ps + 1 then phaseSeq b nAs c (si + 1) 0 else phaseSeq b nAs c si (ps + 1))

/-- facts about the matrices that survive `setAll` -/
structure Good (m : Nat) (avail : List Bool) (c : List Nat) (S : List (List (Option α))) : Prop where
  len : S.length = c.length
  shape : ∀ M ∈ S, M.length = avail.length
  availOnly : ∀ M ∈ S, ∀ q v, M[q]? = some (some v) → avail.getD q false = true
  dom : ∀ t, ∀ q q' v v', (S.getD t [])[q]? = some (some v) → (S.getD t [])[q']? = some (some v') →
    q / m = c.getD t 0 → q' / m ≠ c.getD t 0 → v' < v

theorem getD_setAll (S : List (List (Option α))) (p t : Nat) :
    (setAll S p).getD t [] = (S.getD t []).set p none := by
  unfold setAll
  simp only [List.getD_eq_getElem?_getD, List.getElem?_map]
  cases S[t]? <;> simp [setPair]

theorem good_setAll (m : Nat) (avail : List Bool) (c : List Nat) (S : List (List (Option α))) (p : Nat)
    (g : Good m avail c S) : Good m avail c (setAll S p) := by
  refine ⟨?_, ?_, ?_, ?_⟩
  · simp [setAll, g.len]
  · intro M hM
    simp only [setAll, List.mem_map] at hM
    obtain ⟨M0, h0, rfl⟩ := hM
    simp [setPair, g.shape M0 h0]
  · intro M hM q v hv
    simp only [setAll, List.mem_map] at hM
    obtain ⟨M0, h0, rfl⟩ := hM
    exact g.availOnly M0 h0 q v (set_none_some M0 p q v hv).1
  · intro t q q' v v' h1 h2 h3 h4
    rw [getD_setAll] at h1 h2
    exact g.dom t q q' v v' (set_none_some _ p q v h1).1 (set_none_some _ p q' v' h2).1 h3 h4

theorem getD_none_of_not_some (M : List (Option α)) (q : Nat)
    (h : ∀ v, M[q]? ≠ some (some v)) : M.getD q none = none := by
  rw [List.getD_eq_getElem?_getD]
  cases hq : M[q]? with
  | none => rfl
  | some x =>
    cases x with
    | none => rfl
    | some v => exact absurd hq (h v)

theorem sum_drop (l : List Nat) (i : Nat) (h : i < l.length) :
    (l.drop i).sum = l.getD i 0 + (l.drop (i + 1)).sum := by
  have e : l.getD i 0 = l[i] := by simp [List.getD_eq_getElem?_getD, List.getElem?_eq_getElem h]
  rw [List.drop_eq_getElem_cons h, List.sum_cons, e]

theorem nodup_getElem_inj (l : List Nat) (h : l.Nodup) (i j : Nat) (hi : i < l.length)
    (hj : j < l.length) (e : l[i] = l[j]) : i = j := by
  have hp := List.pairwise_iff_getElem.mp h
  rcases Nat.lt_trichotomy i j with hlt | heq | hgt
  · exact absurd e (hp i j hi hj hlt)
  · exact heq
  · exact absurd e.symm (hp j i hj hi hgt)

theorem qaLoop_valid (m : Nat) (hm : 0 < m) (avail : List Bool) (c nAs : List Nat)
    (hlen : nAs.length = c.length) (hc : c.Nodup)
    (hnas : ∀ t, t < c.length → 1 ≤ nAs.getD t 0)
    (b : Nat) (S : List (List (Option α))) (si ps : Nat) (noises : List (List β)) (prev : List Nat)
    (good : Good m avail c S)
    (hprev : ∀ M ∈ S, ∀ q ∈ prev, M.getD q none = none)
    (hnoise : b ≤ noises.length) (hpos : PosNoise avail.length noises)
    (hcnt : ∀ t, si ≤ t → t < c.length →
      nAs.getD t 0 - (if t = si then ps else 0) ≤ blockCount (S.getD t []) m (c.getD t 0))
    (hps : si < c.length → ps < nAs.getD si 0)
    (hcap : b ≤ (nAs.drop si).sum - ps) :
    (qaLoop b S nAs si ps noises).length = b ∧
    Valid avail prev (qaLoop b S nAs si ps noises) ∧
    (qaLoop b S nAs si ps noises).map (fun r => r.1 / m) = phaseSeq b nAs c si ps := by
  induction b generalizing S si ps noises prev with
  | zero => simp [qaLoop, Valid, phaseSeq]
  | succ b ih =>
    cases noises with
    | nil => simp at hnoise
    | cons nz ns =>
      -- the sample pointer is inside the chosen samples
      have hsi : si < c.length := by
        rcases Nat.lt_or_ge si c.length with h | h
        · exact h
        · rw [List.drop_eq_nil_of_le (by omega)] at hcap; simp at hcap
      have hsiS : si < S.length := by rw [good.len]; exact hsi
      have hps' := hps hsi
      have hcur : S[si]? = some S[si] := List.getElem?_eq_getElem hsiS
      have hgetD : S.getD si [] = S[si] := by simp [List.getD_eq_getElem?_getD, hcur]
      have hmem : S[si] ∈ S := List.getElem_mem hsiS
      -- the current sample still has a free available pair
      have hc0 := hcnt si (Nat.le_refl _) hsi
      rw [if_pos rfl, hgetD] at hc0
      obtain ⟨q0, v0, hq0, hv0⟩ := blockCount_pos S[si] m (c.getD si 0) (by omega)
      have hsome : 0 < countSome S[si] := (countSome_pos_iff _).mpr ⟨v0, List.mem_of_getElem? hv0⟩
      obtain ⟨hnl, hnp⟩ := hpos nz (List.mem_cons_self ..)
      obtain ⟨mx, -, hpick, hmax⟩ :=
        randArgmax_is_max_of_pos S[si] nz (by rw [hnl, good.shape _ hmem]) hnp hsome
      -- the pick belongs to the current sample
      have hblock : randArgmax S[si] nz / m = c.getD si 0 := by
        rcases Classical.em (randArgmax S[si] nz / m = c.getD si 0) with h | h
        · exact h
        · have h1 := good.dom si q0 (randArgmax S[si] nz) v0 mx (by rw [hgetD]; exact hv0)
            (by rw [hgetD]; exact hpick) hq0 h
          have h2 := hmax v0 (List.mem_of_getElem? hv0)
          exact absurd (lt_of_lt_of_le h1 h2) (lt_irrefl _)
      generalize hp : randArgmax S[si] nz = p at hpick hblock
      have good' := good_setAll m avail c S p good
      have hprev' : ∀ M ∈ setAll S p, ∀ q ∈ p :: prev, M.getD q none = none := by
        intro M hM q hq
        simp only [setAll, List.mem_map] at hM
        obtain ⟨M0, h0, rfl⟩ := hM
        apply getD_none_of_not_some
        intro v hv
        obtain ⟨h1, h2⟩ := set_none_some M0 p q v hv
        rcases List.mem_cons.mp hq with rfl | hq
        · exact h2 rfl
        · have := hprev M0 h0 q hq
          rw [List.getD_eq_getElem?_getD, h1] at this
          simp at this
      have hpos' : PosNoise avail.length ns := fun z hz => hpos z (List.mem_cons_of_mem _ hz)
      have hnoise' : b ≤ ns.length := by simpa using hnoise
      -- the record of this step
      have hrec : avail.getD p false = true ∧ p ∉ prev ∧ (∃ v, S[si][p]? = some (some v)) ∧
          S[si].length = avail.length ∧
          (∀ q, (avail.getD q false = false ∨ q ∈ prev) → S[si].getD q none = none) := by
        refine ⟨good.availOnly _ hmem p mx hpick, ?_, ⟨mx, hpick⟩, good.shape _ hmem, ?_⟩
        · intro hin
          have := hprev _ hmem p hin
          rw [List.getD_eq_getElem?_getD, hpick] at this
          simp at this
        · intro q hq
          rcases hq with hq | hq
          · apply getD_none_of_not_some
            intro v hv
            have := good.availOnly _ hmem q v hv
            rw [hq] at this; cases this
          · exact hprev _ hmem q hq
      -- other chosen samples keep their blocks
      have hother : ∀ t, t ≠ si → t < c.length →
          blockCount ((setAll S p).getD t []) m (c.getD t 0) = blockCount (S.getD t []) m (c.getD t 0) := by
        intro t hts ht
        rw [getD_setAll]
        apply blockCount_set_out _ _ _ _ hm
        rw [hblock]
        intro e
        apply hts
        have e1 : c.getD si 0 = c[si] := by simp [List.getD_eq_getElem?_getD, List.getElem?_eq_getElem hsi]
        have e2 : c.getD t 0 = c[t] := by simp [List.getD_eq_getElem?_getD, List.getElem?_eq_getElem ht]
        rw [e1, e2] at e
        exact (nodup_getElem_inj c hc si t hsi ht e).symm
      have hsum := sum_drop nAs si (by omega)
      unfold qaLoop
      simp only [hcur, hp]
      by_cases hend : nAs.getD si 0 ≤ ps + 1
      · -- the current sample is served: advance the pointer
        rw [if_pos hend]
        obtain ⟨i1, i2, i3⟩ := ih (setAll S p) (si + 1) 0 ns (p :: prev) good' hprev' hnoise' hpos'
          (by
            intro t h1 h2
            rw [hother t (by omega) h2]
            have := hcnt t (by omega) h2
            rw [if_neg (by omega)] at this
            split <;> omega)
          (fun h => hnas _ h)
          (by omega)
        refine ⟨by simp [i1], ?_, ?_⟩
        · exact ⟨hrec.1, hrec.2.1, hrec.2.2.1, hrec.2.2.2.1, hrec.2.2.2.2, i2⟩
        · simp only [List.map_cons, phaseSeq, if_pos hend, i3, hblock]
      · rw [if_neg hend]
        obtain ⟨i1, i2, i3⟩ := ih (setAll S p) si (ps + 1) ns (p :: prev) good' hprev' hnoise' hpos'
          (by
            intro t h1 h2
            by_cases hts : t = si
            · subst hts
              rw [if_pos rfl, getD_setAll, hgetD]
              have := blockCount_set_in S[t] m (c.getD t 0) p mx hm hblock hpick
              omega
            · rw [hother t hts h2, if_neg hts]
              have := hcnt t h1 h2
              rw [if_neg hts] at this
              exact this)
          (fun _ => by omega)
          (by omega)
        refine ⟨by simp [i1], ?_, ?_⟩
        · exact ⟨hrec.1, hrec.2.1, hrec.2.2.1, hrec.2.2.2.1, hrec.2.2.2.2, i2⟩
        · simp only [List.map_cons, phaseSeq, if_neg hend, i3, hblock]

end LoopL

section RankL
variable {α : Type} [LinearOrder α]

theorem below_mono (i k : Nat) (vi vk : α) (h : vi < vk) (l : Nat) (vl : α)
    (hb : below i vi l vl = true) : below k vk l vl = true := by
  unfold below at *
  simp only [Bool.or_eq_true, Bool.and_eq_true, decide_eq_true_eq] at *
  rcases hb with hb | ⟨-, hb⟩
  · exact Or.inl (lt_trans hb h)
  · rw [eqv_iff] at hb; subst hb; exact Or.inl h

theorem countBelow_mono (i k : Nat) (vi vk : α) (h : vi < vk) (l0 : Nat) (row : List α) :
    countBelow i vi l0 row ≤ countBelow k vk l0 row := by
  induction row generalizing l0 with
  | nil => simp [countBelow]
  | cons x xs ih =>
    simp only [countBelow]
    have := ih (l0 + 1)
    by_cases hb : below i vi l0 x = true
    · rw [if_pos hb, if_pos (below_mono i k vi vk h l0 x hb)]; omega
    · rw [if_neg hb]; split <;> omega

theorem countBelow_strict (i k : Nat) (vi vk : α) (h : vi < vk) (l0 : Nat) (row : List α)
    (j : Nat) (x : α) (hj : row[j]? = some x) (h1 : below k vk (l0 + j) x = true)
    (h2 : below i vi (l0 + j) x = false) :
    countBelow i vi l0 row + 1 ≤ countBelow k vk l0 row := by
  induction row generalizing l0 j with
  | nil => simp at hj
  | cons y ys ih =>
    simp only [countBelow]
    cases j with
    | zero =>
      simp at hj; subst hj
      simp only [Nat.add_zero] at h1 h2
      rw [if_pos h1, h2]
      have := countBelow_mono i k vi vk h (l0 + 1) ys
      simp; omega
    | succ j =>
      simp at hj
      have := ih (l0 + 1) j hj (by rwa [show l0 + 1 + j = l0 + (j + 1) by omega])
        (by rwa [show l0 + 1 + j = l0 + (j + 1) by omega])
      by_cases hb : below i vi l0 y = true
      · rw [if_pos hb, if_pos (below_mono i k vi vk h l0 y hb)]; omega
      · rw [if_neg hb]; split <;> omega

/-- ordinal ranks are strictly monotone in the values -/
theorem ordRank_lt (row : List α) (i k : Nat) (vi vk : α) (hi : row[i]? = some vi)
    (hk : row[k]? = some vk) (h : vi < vk) : ordRank row i < ordRank row k := by
  unfold ordRank
  rw [hi, hk]
  have := countBelow_strict i k vi vk h 0 row i vi hi
    (by simp [below, h])
    (by simp [below, eqv])
  simp only at this ⊢
  omega

theorem countBelow_le (i : Nat) (vi : α) (l0 : Nat) (row : List α) :
    countBelow i vi l0 row ≤ row.length := by
  induction row generalizing l0 with
  | nil => simp [countBelow]
  | cons x xs ih =>
    have := ih (l0 + 1)
    simp only [countBelow, List.length_cons]
    split <;> omega

theorem countBelow_lt (i : Nat) (vi : α) (l0 : Nat) (row : List α) (j : Nat) (x : α)
    (hj : row[j]? = some x) (h : below i vi (l0 + j) x = false) :
    countBelow i vi l0 row + 1 ≤ row.length := by
  induction row generalizing l0 j with
  | nil => simp at hj
  | cons y ys ih =>
    simp only [countBelow, List.length_cons]
    cases j with
    | zero =>
      simp at hj; subst hj
      simp only [Nat.add_zero] at h
      rw [h]
      have := countBelow_le i vi (l0 + 1) ys
      simp; omega
    | succ j =>
      simp at hj
      have := ih (l0 + 1) j hj (by rwa [show l0 + 1 + j = l0 + (j + 1) by omega])
      split <;> omega

/-- an ordinal rank never exceeds the number of entries: the forced rank `n + 1` is above all of them -/
theorem ordRank_le_length (row : List α) (i : Nat) : ordRank row i ≤ row.length := by
  unfold ordRank
  cases hi : row[i]? with
  | none => simp
  | some vi =>
    have := countBelow_lt i vi 0 row i vi hi (by simp [below, eqv])
    simp only; omega

end RankL
section RankRowL
variable {α : Type} [Field α] [LinearOrder α] [IsStrictOrderedRing α]

theorem rankRow_getD (ninf : α) (cast : Nat → α) (row : List (Option α)) (chosen i : Nat) :
    (rankRow ninf cast row chosen).getD i none =
      if i < row.length then
        maskRank cast (chosenRank row.length chosen (ordRank (row.map (fillNaN ninf)) i) i) (row.getD i none)
      else none := by
  unfold rankRow
  simp only [List.getD_eq_getElem?_getD, List.getElem?_map]
  split <;> simp_all

theorem sMatrix_getElem? (m : Nat) (avail : List Bool) (au : List α) (rk : List (Option α)) (p : Nat) :
    (sMatrix m avail au rk)[p]? =
      if p < avail.length then some (combineAt m avail au rk p) else none := by
  unfold sMatrix
  by_cases h : p < avail.length
  · rw [if_pos h, List.getElem?_map, List.getElem?_range h]; rfl
  · rw [if_neg h]
    apply List.getElem?_eq_none
    simp only [List.length_map, List.length_range]; omega

theorem sMatrix_length (m : Nat) (avail : List Bool) (au : List α) (rk : List (Option α)) :
    (sMatrix m avail au rk).length = avail.length := by
  simp [sMatrix]

theorem combineAt_some (m : Nat) (avail : List Bool) (au : List α) (rk : List (Option α)) (p : Nat)
    (v : α) (h : combineAt m avail au rk p = some v) :
    avail.getD p false = true ∧ ∃ r a, rk.getD (p / m) none = some r ∧ au[p]? = some a ∧ v = r + a := by
  unfold combineAt at h
  split at h
  · rename_i ha
    refine ⟨ha, ?_⟩
    split at h
    · rename_i r a hr hau
      injection h with h
      exact ⟨r, a, hr, hau, h.symm⟩
    · cases h
  · cases h

theorem combineAt_of (m : Nat) (avail : List Bool) (au : List α) (rk : List (Option α)) (p : Nat)
    (r a : α) (ha : avail.getD p false = true) (hr : rk.getD (p / m) none = some r)
    (hau : au[p]? = some a) : combineAt m avail au rk p = some (r + a) := by
  unfold combineAt
  rw [if_pos ha, hr, hau]

end RankRowL

section InitL
variable {α : Type} [Field α] [LinearOrder α] [IsStrictOrderedRing α]

theorem flatten_getElem? {γ : Type} (A : List (List γ)) (m : Nat) (hrect : ∀ r ∈ A, r.length = m)
    (s k : Nat) (hk : k < m) : A.flatten[s * m + k]? = (A.getD s [])[k]? := by
  induction A generalizing s with
  | nil => simp
  | cons r rs ih =>
    have hr : r.length = m := hrect r (List.mem_cons_self ..)
    have hrs : ∀ r ∈ rs, r.length = m := fun x hx => hrect x (List.mem_cons_of_mem _ hx)
    cases s with
    | zero =>
      simp only [List.flatten_cons, Nat.zero_mul, Nat.zero_add, List.getD_cons_zero]
      rw [List.getElem?_append_left (by omega)]
    | succ s =>
      simp only [List.flatten_cons, List.getD_cons_succ]
      rw [List.getElem?_append_right (by rw [hr, Nat.add_mul]; omega)]
      rw [show (s + 1) * m + k - r.length = s * m + k by rw [hr, Nat.add_mul]; omega]
      exact ih hrs s

theorem flatten_length {γ : Type} (A : List (List γ)) (m : Nat) (hrect : ∀ r ∈ A, r.length = m) :
    A.flatten.length = A.length * m := by
  induction A with
  | nil => simp
  | cons r rs ih =>
    have hr : r.length = m := hrect r (List.mem_cons_self ..)
    have := ih (fun x hx => hrect x (List.mem_cons_of_mem _ hx))
    simp only [List.flatten_cons, List.length_append, List.length_cons, this, hr, Nat.add_mul]
    omega

theorem countSome_eq_countRow (X : List (Option α)) (r : List Bool) (hl : X.length = r.length)
    (h : ∀ k, k < r.length → (X.getD k none).isSome = r.getD k false) : countSome X = countRow r := by
  induction X generalizing r with
  | nil => cases r <;> simp_all [countSome, countRow]
  | cons x xs ih =>
    cases r with
    | nil => simp at hl
    | cons b bs =>
      have h0 := h 0 (by simp)
      have := ih bs (by simpa using hl) (fun k hk => by simpa using h (k + 1) (by simpa using hk))
      simp only [List.getD_cons_zero] at h0
      unfold countSome countRow at *
      cases x <;> cases b <;> simp_all [List.filter, List.count_cons]

end InitL

section Init2
variable {α : Type} [Field α] [LinearOrder α] [IsStrictOrderedRing α]

/-- the block of sample `s` in a freshly built matrix holds a number exactly at the available annotators -/
theorem blockCount_init (m : Nat) (A : List (List Bool)) (hrect : ∀ r ∈ A, r.length = m)
    (au : List α) (hau : au.length = A.length * m) (rk : List (Option α)) (s : Nat) (hs : s < A.length)
    (r : α) (hr : rk.getD s none = some r) :
    blockCount (sMatrix m A.flatten au rk) m s = countRow (A.getD s []) := by
  unfold blockCount
  have hfl := flatten_length A m hrect
  have hle : s * m + m ≤ A.length * m := by
    have := Nat.mul_le_mul_right m (show s + 1 ≤ A.length by omega)
    rw [Nat.add_mul] at this; omega
  have hrow : (A.getD s []).length = m := by
    rw [List.getD_eq_getElem?_getD, List.getElem?_eq_getElem hs]
    exact hrect _ (List.getElem_mem hs)
  apply countSome_eq_countRow
  · rw [List.length_take, List.length_drop, sMatrix_length, hfl, hrow]; omega
  · intro k hk
    rw [hrow] at hk
    rw [List.getD_eq_getElem?_getD, List.getElem?_take, if_pos hk, List.getElem?_drop, sMatrix_getElem?,
      if_pos (by omega)]
    have hav : A.flatten.getD (s * m + k) false = (A.getD s []).getD k false := by
      rw [List.getD_eq_getElem?_getD, flatten_getElem? A m hrect s k hk, ← List.getD_eq_getElem?_getD]
    simp only [Option.getD_some]
    cases hb : (A.getD s []).getD k false with
    | false =>
      have : combineAt m A.flatten au rk (s * m + k) = none := by
        unfold combineAt; rw [hav, hb]; simp
      rw [this]; rfl
    | true =>
      have hk' : s * m + k < au.length := by omega
      rw [combineAt_of m A.flatten au rk (s * m + k) r au[s * m + k] (by rw [hav, hb])
        (by rw [div_block hk]; exact hr) (List.getElem?_eq_getElem hk')]
      rfl

theorem zip_getD (ninf : α) (cast : Nat → α) (m : Nat) (avail : List Bool) (au : List α)
    (candRows : List (List (Option α))) (sIdx : List Nat) (t : Nat) :
    ((List.zipWith (rankRow ninf cast) candRows sIdx).map (sMatrix m avail au)).getD t [] =
      match candRows[t]?, sIdx[t]? with
      | some row, some s => sMatrix m avail au (rankRow ninf cast row s)
      | _, _ => [] := by
  simp only [List.getD_eq_getElem?_getD, List.getElem?_map, List.getElem?_zipWith]
  cases candRows[t]? <;> cases sIdx[t]? <;> simp

theorem good_init (ninf : α) (cast : Nat → α) (m : Nat) (A : List (List Bool))
    (hrect : ∀ r ∈ A, r.length = m) (candRows : List (List (Option α))) (sIdx : List Nat) (au : List α)
    (hT : candRows.length = sIdx.length)
    (hrow : ∀ (t : Nat) (row : List (Option α)) (s : Nat), candRows[t]? = some row → sIdx[t]? = some s →
      row.length = A.length ∧ s < A.length ∧ ∃ v, row[s]? = some (some v))
    (hau : au.length = A.length * m) (hau01 : ∀ a ∈ au, 0 ≤ a ∧ a < 1)
    (hcast : ∀ a b : Nat, a < b → cast a + 1 ≤ cast b) :
    Good m A.flatten sIdx ((List.zipWith (rankRow ninf cast) candRows sIdx).map (sMatrix m A.flatten au)) ∧
    ∀ t, t < sIdx.length →
      blockCount (((List.zipWith (rankRow ninf cast) candRows sIdx).map (sMatrix m A.flatten au)).getD t []) m
        (sIdx.getD t 0) = countRow (A.getD (sIdx.getD t 0) []) := by
  refine ⟨⟨?_, ?_, ?_, ?_⟩, ?_⟩
  · simp [hT]
  · intro M hM
    simp only [List.mem_map] at hM
    obtain ⟨rk, -, rfl⟩ := hM
    exact sMatrix_length ..
  · intro M hM q v hv
    simp only [List.mem_map] at hM
    obtain ⟨rk, -, rfl⟩ := hM
    rw [sMatrix_getElem?] at hv
    split at hv
    · injection hv with hv
      exact (combineAt_some _ _ _ _ _ _ hv).1
    · cases hv
  · intro t q q' v v' h1 h2 h3 h4
    rw [zip_getD] at h1 h2
    cases hrowt : candRows[t]? with
    | none => rw [hrowt] at h1; simp at h1
    | some row =>
      cases hst : sIdx[t]? with
      | none => rw [hrowt, hst] at h1; simp at h1
      | some s =>
        rw [hrowt, hst] at h1 h2
        simp only at h1 h2
        obtain ⟨hl, hs, w, hw⟩ := hrow t row s hrowt hst
        have hcs : sIdx.getD t 0 = s := by simp [List.getD_eq_getElem?_getD, hst]
        rw [hcs] at h3 h4
        rw [sMatrix_getElem?] at h1 h2
        split at h1
        · split at h2
          · injection h1 with h1; injection h2 with h2
            obtain ⟨-, r, a, hr, ha, rfl⟩ := combineAt_some _ _ _ _ _ _ h1
            obtain ⟨-, r', a', hr', ha', rfl⟩ := combineAt_some _ _ _ _ _ _ h2
            rw [h3, rankRow_getD] at hr
            rw [rankRow_getD] at hr'
            rw [if_pos (by omega)] at hr
            split at hr'
            · rename_i hi
              -- ranks
              have hlt : ordRank (row.map (fillNaN ninf)) (q' / m) < row.length + 1 := by
                have := ordRank_le_length (row.map (fillNaN ninf)) (q' / m)
                simp only [List.length_map] at this; omega
              -- unpack maskRank
              have e1 : r = cast (row.length + 1) := by
                cases hx : row.getD s none with
                | none => rw [hx] at hr; simp [maskRank] at hr
                | some x =>
                  rw [hx] at hr; simp only [maskRank, chosenRank, if_true] at hr
                  injection hr with hr; exact hr.symm
              have e2 : r' = cast (ordRank (row.map (fillNaN ninf)) (q' / m)) := by
                cases hx : row.getD (q' / m) none with
                | none => rw [hx] at hr'; simp [maskRank] at hr'
                | some x =>
                  rw [hx] at hr'; simp only [maskRank, chosenRank, if_neg h4] at hr'
                  injection hr' with hr'; exact hr'.symm
              have hc := hcast _ _ hlt
              have ha1 := hau01 a (List.mem_of_getElem? ha)
              have ha2 := hau01 a' (List.mem_of_getElem? ha')
              rw [e1, e2]
              linarith [ha1.1, ha2.2]
            · cases hr'
          · cases h2
        · cases h1
  · intro t ht
    rw [zip_getD]
    have h1 : candRows[t]? = some candRows[t] := List.getElem?_eq_getElem (by omega)
    have h2 : sIdx[t]? = some sIdx[t] := List.getElem?_eq_getElem ht
    obtain ⟨hl, hs, w, hw⟩ := hrow t _ _ h1 h2
    have hcs : sIdx.getD t 0 = sIdx[t] := by simp [List.getD_eq_getElem?_getD, h2]
    rw [h1, h2, hcs]
    simp only
    have hr : (rankRow ninf cast candRows[t] sIdx[t]).getD sIdx[t] none =
        some (cast (candRows[t].length + 1)) := by
      rw [rankRow_getD, if_pos (by omega), List.getD_eq_getElem?_getD, hw]
      simp [maskRank, chosenRank]
    exact blockCount_init m A hrect au hau _ _ hs _ hr

end Init2

section ValidL
variable {α : Type} [LinearOrder α]

theorem valid_spec (avail : List Bool) (prev : List Nat) (out : List (Nat × List (Option α)))
    (h : Valid avail prev out) :
    (out.map Prod.fst).Nodup ∧ (∀ p ∈ out.map Prod.fst, p ∉ prev) ∧
    (∀ r ∈ out, avail.getD r.1 false = true ∧ ∃ v, r.2[r.1]? = some (some v)) ∧
    (∀ r ∈ out, r.2.length = avail.length) ∧
    (∀ k, ∀ hk : k < out.length, ∀ q,
      (avail.getD q false = false ∨ q ∈ prev ∨ q ∈ (out.map Prod.fst).take k) →
        out[k].2.getD q none = none) := by
  induction out generalizing prev with
  | nil => simp
  | cons r rest ih =>
    obtain ⟨p, row⟩ := r
    obtain ⟨h1, h2, h3, h4, h5, h6⟩ := h
    obtain ⟨i1, i2, i3, i4, i5⟩ := ih (p :: prev) h6
    refine ⟨?_, ?_, ?_, ?_, ?_⟩
    · simp only [List.map_cons, List.nodup_cons]
      exact ⟨fun hin => (i2 p hin) (List.mem_cons_self ..), i1⟩
    · intro x hx
      simp only [List.map_cons, List.mem_cons] at hx
      rcases hx with rfl | hx
      · exact h2
      · exact fun hin => (i2 x hx) (List.mem_cons_of_mem _ hin)
    · intro r hr
      rcases List.mem_cons.mp hr with rfl | hr
      · exact ⟨h1, h3⟩
      · exact i3 r hr
    · intro r hr
      rcases List.mem_cons.mp hr with rfl | hr
      · exact h4
      · exact i4 r hr
    · intro k hk q hq
      cases k with
      | zero =>
        simp only [List.getElem_cons_zero]
        apply h5
        rcases hq with hq | hq | hq
        · exact Or.inl hq
        · exact Or.inr hq
        · simp at hq
      | succ k =>
        simp only [List.getElem_cons_succ]
        apply i5 k (by simpa using hk)
        rcases hq with hq | hq | hq
        · exact Or.inl hq
        · exact Or.inr (Or.inl (List.mem_cons_of_mem _ hq))
        · simp only [List.map_cons, List.take_succ_cons, List.mem_cons] at hq
          rcases hq with rfl | hq
          · exact Or.inr (Or.inl (List.mem_cons_self ..))
          · exact Or.inr (Or.inr hq)

theorem assignInit_getD (nmax pref : List Nat) (t : Nat) (h1 : t < nmax.length) (h2 : t < pref.length) :
    (assignInit nmax pref).getD t 0 = min (nmax.getD t 0) (pref.getD t 0) := by
  unfold assignInit
  simp [List.getD_eq_getElem?_getD, List.getElem?_zipWith, List.getElem?_eq_getElem h1,
    List.getElem?_eq_getElem h2]

end ValidL

section TransformL

theorem getD_replicate_row {γ : Type} (n : Nat) (r : List γ) (i : Nat) :
    (List.replicate n r).getD i [] = if i < n then r else [] := by
  simp only [List.getD_eq_getElem?_getD, List.getElem?_replicate]
  split <;> simp

theorem replicate_true_iff (m j : Nat) : (List.replicate m true)[j]?.getD false = true ↔ j < m := by
  simp only [List.getElem?_replicate]
  split <;> simp_all

theorem colMask_iff (m : Nat) (a : List Nat) (j : Nat) :
    (colMask m a)[j]?.getD false = true ↔ j < m ∧ j ∈ a := by
  unfold colMask
  simp only [List.getElem?_map]
  by_cases h : j < m
  · rw [List.getElem?_range h]; simp [h]
  · rw [List.getElem?_eq_none (by simpa using h)]; simp [h]

/-- the sample (index into `X`, or into the feature-row candidates) that row `i` of `A_cand` is about -/
def rowSample (mp : Option (List Nat)) (n i : Nat) : Option Nat :=
  match mp with
  | none => if i < n then some i else none
  | some l => l[i]?

/-- "available pair as defined by the arguments": `s` the sample, `i` its position among the
candidates, `j` the annotator. -/
def Available (nS m : Nat) (unl : List (List Bool)) : Cand → Annot → Nat → Nat → Nat → Prop
  | .all, .all, s, _, j => (unl.getD s []).getD j false = true
  | .all, .idx a, s, _, j => s < nS ∧ j < m ∧ j ∈ a
  | .all, .mat M, s, _, j => s < nS ∧ (M.getD s []).getD j false = true
  | .idx c, .all, s, i, j => c[i]? = some s ∧ j < m
  | .idx c, .idx a, s, i, j => c[i]? = some s ∧ j < m ∧ j ∈ a
  | .idx c, .mat M, s, i, j => c[i]? = some s ∧ (M.getD i []).getD j false = true
  | .feat n, .all, s, i, j => s = i ∧ i < n ∧ j < m
  | .feat n, .idx a, s, i, j => s = i ∧ i < n ∧ j < m ∧ j ∈ a
  | .feat n, .mat M, s, i, j => s = i ∧ i < n ∧ (M.getD i []).getD j false = true

def candCount (nS : Nat) : Cand → Nat
  | .all => nS
  | .idx c => c.length
  | .feat n => n

end TransformL

/-- `np.repeat`-style schedule: sample `c_t` repeated `nAs_t` times, in order -/
def expand (nAs c : List Nat) : List Nat := (List.zipWith (fun n s => List.replicate n s) nAs c).flatten

theorem expand_drop (nAs c : List Nat) (si : Nat) (h1 : si < nAs.length) (h2 : si < c.length) :
    expand (nAs.drop si) (c.drop si) =
      List.replicate (nAs.getD si 0) (c.getD si 0) ++ expand (nAs.drop (si + 1)) (c.drop (si + 1)) := by
  have e1 : nAs.getD si 0 = nAs[si] := by simp [List.getD_eq_getElem?_getD, List.getElem?_eq_getElem h1]
  have e2 : c.getD si 0 = c[si] := by simp [List.getD_eq_getElem?_getD, List.getElem?_eq_getElem h2]
  unfold expand
  rw [List.drop_eq_getElem_cons h1, List.drop_eq_getElem_cons h2, e1, e2]
  simp only [List.zipWith_cons_cons, List.flatten_cons]

theorem phaseSeq_expand (nAs c : List Nat) (hlen : nAs.length = c.length)
    (hnas : ∀ t, t < c.length → 1 ≤ nAs.getD t 0) (b si ps : Nat)
    (hps : si < c.length → ps < nAs.getD si 0) (hcap : b ≤ (nAs.drop si).sum - ps) :
    phaseSeq b nAs c si ps = ((expand (nAs.drop si) (c.drop si)).drop ps).take b := by
  induction b generalizing si ps with
  | zero => simp [phaseSeq]
  | succ b ih =>
    have hsi : si < c.length := by
      rcases Nat.lt_or_ge si c.length with h | h
      · exact h
      · rw [List.drop_eq_nil_of_le (by omega)] at hcap; simp at hcap
    have hps' := hps hsi
    have hsum := sum_drop nAs si (by omega)
    rw [expand_drop nAs c si (by omega) hsi]
    generalize hn : nAs.getD si 0 = n at *
    generalize hrest : expand (nAs.drop (si + 1)) (c.drop (si + 1)) = rest
    have hX : ps < (List.replicate n (c.getD si 0) ++ rest).length := by simp; omega
    rw [List.drop_eq_getElem_cons hX, List.take_succ_cons]
    have hhead : (List.replicate n (c.getD si 0) ++ rest)[ps] = c.getD si 0 := by
      rw [List.getElem_append_left (by simpa using hps')]; simp
    simp only [phaseSeq, hn, hhead]
    congr 1
    by_cases hend : n ≤ ps + 1
    · rw [if_pos hend, ih (si + 1) 0 (fun h => hnas _ h) (by omega), hrest]
      have : n = ps + 1 := by omega
      subst this
      rw [List.drop_append_of_le_length (by simp)]
      simp
    · rw [if_neg hend, ih si (ps + 1) (fun _ => by omega) (by omega),
        expand_drop nAs c si (by omega) hsi, hn, hrest]

section OutL

/-- availability of the flat output position `q` (the pair `(q / m, q % m)` in the index space of the
result) in terms of `(mapping, A_cand)` -/
def outAvail (m : Nat) (mapping : Option (List Nat)) (A : List (List Bool)) (q : Nat) : Bool :=
  match mapping with
  | none => (A.getD (q / m) []).getD (q % m) false
  | some mp => mp.contains (q / m) && (A.getD (posIn mp (q / m)) []).getD (q % m) false

theorem allTrue_getD (r : List Bool) (k : Nat) (h : allTrue r = true) (hk : k < r.length) :
    r.getD k false = true := by
  unfold allTrue at h
  rw [List.all_eq_true] at h
  have := h r[k] (List.getElem_mem hk)
  simpa [List.getD_eq_getElem?_getD, List.getElem?_eq_getElem hk] using this

variable {α : Type}

theorem ietMask_some (m : Nat) (hm : 0 < m) (A : List (List Bool)) (hrect : ∀ r ∈ A, r.length = m)
    (U : List (Option α)) (q : Nat) (v : α) (h : (ietMask m A U)[q]? = some (some v)) :
    q < A.length * m ∧ (A.getD (q / m) []).getD (q % m) false = true := by
  unfold ietMask at h
  rw [List.getElem?_map] at h
  by_cases hq : q < A.length * m
  · refine ⟨hq, ?_⟩
    rw [List.getElem?_range hq] at h
    simp only [Option.map_some, Option.some.injEq, ietMaskAt] at h
    split at h
    · rename_i hf
      have hi : q / m < A.length := (Nat.div_lt_iff_lt_mul hm).mpr hq
      have hrow : A.getD (q / m) [] = A[q / m] := by
        simp [List.getD_eq_getElem?_getD, List.getElem?_eq_getElem hi]
      have : allTrue A[q / m] = true := by
        simpa [List.getD_eq_getElem?_getD, List.getElem?_map, List.getElem?_eq_getElem hi] using hf
      rw [hrow]
      apply allTrue_getD _ _ this
      rw [hrect _ (List.getElem_mem hi)]
      exact Nat.mod_lt _ hm
    · cases h
  · rw [List.getElem?_eq_none (by simpa using hq)] at h
    simp at h

theorem scatter_some (nS m : Nat) (mp : List Nat) (row : List (Option α)) (q : Nat) (v : α)
    (h : (scatterRows nS m mp row)[q]? = some (some v)) :
    q < nS * m ∧ mp.contains (q / m) = true ∧ row.getD (posIn mp (q / m) * m + q % m) none = some v := by
  unfold scatterRows at h
  rw [List.getElem?_map] at h
  by_cases hq : q < nS * m
  · rw [List.getElem?_range hq] at h
    simp only [Option.map_some, Option.some.injEq, scatterAt] at h
    split at h
    · rename_i hc
      exact ⟨hq, hc, h⟩
    · cases h
  · rw [List.getElem?_eq_none (by simpa using hq)] at h
    simp at h

theorem getD_some_getElem? (row : List (Option α)) (p : Nat) (v : α) (h : row.getD p none = some v) :
    row[p]? = some (some v) := by
  rw [List.getD_eq_getElem?_getD] at h
  cases hp : row[p]? with
  | none => rw [hp] at h; simp at h
  | some x => rw [hp] at h; simp at h; rw [h]

theorem mod_block {m i k : Nat} (hk : k < m) : (i * m + k) % m = k := by
  rw [Nat.add_comm, Nat.add_mul_mod_self_right, Nat.mod_eq_of_lt hk]

/-- a number in the utilities handed to `simple_batch` sits at an available pair -/
theorem ietUtilities_some (nS m : Nat) (hm : 0 < m) (unl : List (List Bool)) (cand : Cand) (annot : Annot)
    (hrect : ∀ r ∈ (transformCandAnnot nS m unl cand annot).2, r.length = m)
    (U : List (Option α)) (q : Nat) (v : α)
    (h : (ietUtilities nS m unl cand annot U)[q]? = some (some v)) :
    outAvail m (transformCandAnnot nS m unl cand annot).1 (transformCandAnnot nS m unl cand annot).2 q = true := by
  unfold ietUtilities at h
  generalize transformCandAnnot nS m unl cand annot = tr at *
  obtain ⟨mapping, A⟩ := tr
  simp only at h hrect ⊢
  cases mapping with
  | none =>
    simp only at h
    exact (ietMask_some m hm A hrect U q v h).2
  | some mp =>
    simp only at h
    obtain ⟨-, hc, hrow⟩ := scatter_some nS m mp _ q v h
    have := (ietMask_some m hm A hrect U _ v (getD_some_getElem? _ _ v hrow)).2
    rw [div_block (Nat.mod_lt _ hm), mod_block (Nat.mod_lt _ hm)] at this
    simp only [outAvail, hc, this, Bool.and_self]

end OutL

section ExtraL

theorem clipBatch_eq_min (b pairs : Nat) : clipBatch b pairs = min b pairs := by
  unfold clipBatch; split <;> omega

theorem unlabeledSamples_nodup (unl : List (List Bool)) : (unlabeledSamples unl).Nodup := by
  unfold unlabeledSamples
  exact List.Pairwise.sublist List.filter_sublist List.nodup_range

theorem mem_unlabeledSamples (unl : List (List Bool)) (s j : Nat)
    (h : (unl.getD s []).getD j false = true) : s ∈ unlabeledSamples unl := by
  unfold unlabeledSamples
  rw [List.mem_filter, List.mem_range]
  have hs : s < unl.length := by
    rcases Nat.lt_or_ge s unl.length with h' | h'
    · exact h'
    · simp [List.getD_eq_getElem?_getD, List.getElem?_eq_none h'] at h
  refine ⟨hs, ?_⟩
  unfold hasUnl anyTrue
  rw [List.any_eq_true]
  have hj : j < (unl.getD s []).length := by
    rcases Nat.lt_or_ge j (unl.getD s []).length with h' | h'
    · exact h'
    · rw [List.getD_eq_getElem?_getD (l := unl.getD s []), List.getElem?_eq_none h'] at h; simp at h
  refine ⟨(unl.getD s [])[j], List.getElem_mem hj, ?_⟩
  rw [List.getD_eq_getElem?_getD (l := unl.getD s []), List.getElem?_eq_getElem hj] at h
  simpa using h

/-- the mapping produced by `_transform_cand_annot` has no repetitions (index arrays are made unique
by `check_indices`) -/
theorem transformCandAnnot_mapping_nodup (nS m : Nat) (unl : List (List Bool)) (cand : Cand) (annot : Annot)
    (hc : ∀ c, cand = .idx c → c.Nodup) (mp : List Nat)
    (h : (transformCandAnnot nS m unl cand annot).1 = some mp) : mp.Nodup := by
  cases cand with
  | all =>
    cases annot <;> simp only [transformCandAnnot, Option.some.injEq] at h <;> subst h
    · exact unlabeledSamples_nodup unl
    · exact List.nodup_range
    · exact List.nodup_range
  | idx c =>
    simp only [transformCandAnnot, Option.some.injEq] at h
    subst h
    exact hc c rfl
  | feat n => simp [transformCandAnnot] at h

/-- rows of `A_cand` and entries of `mapping` correspond one to one -/
theorem transformCandAnnot_lengths (nS m : Nat) (unl : List (List Bool)) (cand : Cand) (annot : Annot)
    (hM : ∀ M, annot = .mat M → M.length = candCount nS cand) (mp : List Nat)
    (h : (transformCandAnnot nS m unl cand annot).1 = some mp) :
    (transformCandAnnot nS m unl cand annot).2.length = mp.length := by
  cases cand with
  | all =>
    cases annot with
    | all => simp only [transformCandAnnot, Option.some.injEq] at h ⊢; subst h; simp
    | idx a => simp only [transformCandAnnot, Option.some.injEq] at h ⊢; subst h; simp [annotRows]
    | mat M =>
      have := hM M rfl
      simp only [transformCandAnnot, Option.some.injEq] at h ⊢; subst h; simp [annotRows, this, candCount]
  | idx c =>
    cases annot with
    | all => simp only [transformCandAnnot, Option.some.injEq] at h ⊢; subst h; simp [annotRows]
    | idx a => simp only [transformCandAnnot, Option.some.injEq] at h ⊢; subst h; simp [annotRows]
    | mat M =>
      have := hM M rfl
      simp only [transformCandAnnot, Option.some.injEq] at h ⊢; subst h; simp [annotRows, this, candCount]
  | feat n => simp [transformCandAnnot] at h

/-- `A_cand` is rectangular with `n_annotators` columns -/
theorem transformCandAnnot_rect (nS m : Nat) (unl : List (List Bool)) (cand : Cand) (annot : Annot)
    (hunl : ∀ r ∈ unl, r.length = m) (hM : ∀ M, annot = .mat M → ∀ r ∈ M, r.length = m) :
    ∀ r ∈ (transformCandAnnot nS m unl cand annot).2, r.length = m := by
  have hrows : ∀ n, ∀ r ∈ annotRows n m annot, r.length = m := by
    intro n r hr
    cases annot with
    | all => simp only [annotRows, List.mem_replicate] at hr; rw [hr.2]; simp
    | idx a => simp only [annotRows, List.mem_replicate] at hr; rw [hr.2]; simp [colMask]
    | mat M => exact hM M rfl r hr
  cases cand with
  | all =>
    cases annot with
    | all =>
      intro r hr
      simp only [transformCandAnnot, List.mem_map] at hr
      obtain ⟨i, hi, rfl⟩ := hr
      have : i < unl.length := by
        simp only [unlabeledSamples, List.mem_filter, List.mem_range] at hi; exact hi.1
      rw [List.getD_eq_getElem?_getD, List.getElem?_eq_getElem this]
      exact hunl _ (List.getElem_mem this)
    | idx a => exact hrows nS
    | mat M => exact hrows nS
  | idx c => cases annot <;> exact hrows c.length
  | feat n => cases annot <;> exact hrows n

/-- distinct flat picks give distinct `(sample, annotator)` pairs after the translation through
`mapping` -/
theorem translatePick_nodup (m : Nat) (hm : 0 < m) (mapping : Option (List Nat)) (n : Nat)
    (hmp : ∀ mp, mapping = some mp → mp.Nodup ∧ mp.length = n) (picks : List Nat)
    (hnd : picks.Nodup) (hlt : ∀ p ∈ picks, p < n * m) :
    (picks.map (translatePick m mapping)).Nodup := by
  have inj : ∀ p q, p < n * m → q < n * m → translatePick m mapping p = translatePick m mapping q → p = q := by
    intro p q hp hq e
    have hdm : p / m = q / m ∧ p % m = q % m → p = q := by
      intro ⟨h1, h2⟩
      rw [← Nat.div_add_mod p m, ← Nat.div_add_mod q m, h1, h2]
    apply hdm
    cases mapping with
    | none => simpa [translatePick] using e
    | some mp =>
      obtain ⟨hnod, hl⟩ := hmp mp rfl
      simp only [translatePick, Prod.mk.injEq] at e
      refine ⟨?_, e.2⟩
      have hp' : p / m < mp.length := by rw [hl]; exact (Nat.div_lt_iff_lt_mul hm).mpr hp
      have hq' : q / m < mp.length := by rw [hl]; exact (Nat.div_lt_iff_lt_mul hm).mpr hq
      have e1 := e.1
      rw [List.getD_eq_getElem?_getD, List.getD_eq_getElem?_getD, List.getElem?_eq_getElem hp',
        List.getElem?_eq_getElem hq'] at e1
      exact nodup_getElem_inj mp hnod _ _ hp' hq' (by simpa using e1)
  induction picks with
  | nil => simp
  | cons x xs ih =>
    simp only [List.map_cons, List.nodup_cons] at hnd ⊢
    refine ⟨?_, ih hnd.2 (fun p hp => hlt p (List.mem_cons_of_mem _ hp))⟩
    intro hin
    obtain ⟨y, hy, hxy⟩ := List.mem_map.mp hin
    have := inj y x (hlt y (List.mem_cons_of_mem _ hy)) (hlt x (List.mem_cons_self ..)) hxy
    subst this
    exact hnd.1 hy

theorem getD_true_lt (l : List Bool) (p : Nat) (h : l.getD p false = true) : p < l.length := by
  rcases Nat.lt_or_ge p l.length with h' | h'
  · exact h'
  · rw [List.getD_eq_getElem?_getD, List.getElem?_eq_none h'] at h; simp at h

end ExtraL

section CountL

theorem countTrue_replicate (n : Nat) (r : List Bool) : countTrue (List.replicate n r) = n * countRow r := by
  unfold countTrue
  induction n with
  | zero => simp
  | succ n ih => simp only [List.replicate_succ, List.map_cons, List.sum_cons, ih, Nat.succ_mul]; omega

theorem countRow_replicate_true (m : Nat) : countRow (List.replicate m true) = m := by
  simp [countRow]

theorem count_true_map {γ : Type} (f : γ → Bool) (l : List γ) : (l.map f).count true = (l.filter f).length := by
  induction l with
  | nil => simp
  | cons x xs ih =>
    simp only [List.map_cons, List.count_cons, ih, List.filter_cons]
    cases f x <;> simp

theorem countRow_colMask (m : Nat) (a : List Nat) (hnd : a.Nodup) (hlt : ∀ x ∈ a, x < m) :
    countRow (colMask m a) = a.length := by
  unfold countRow colMask
  rw [count_true_map]
  apply List.Perm.length_eq
  rw [List.perm_ext_iff_of_nodup (List.Pairwise.sublist List.filter_sublist List.nodup_range) hnd]
  intro x
  simp only [List.mem_filter, List.mem_range, List.contains_iff_mem]
  exact ⟨fun h => h.2, fun h => ⟨hlt x h, h⟩⟩

theorem countRow_zero_of_not_any (r : List Bool) (h : anyTrue r = false) : countRow r = 0 := by
  unfold countRow anyTrue at *
  rw [List.count_eq_zero]
  intro hin
  rw [List.any_eq_false] at h
  exact absurd rfl (h true hin)

theorem countTrue_filter_any (L : List (List Bool)) : countTrue (L.filter anyTrue) = countTrue L := by
  unfold countTrue
  induction L with
  | nil => simp
  | cons r rs ih =>
    simp only [List.filter_cons]
    cases h : anyTrue r with
    | true => simp [ih]
    | false => simp [ih, countRow_zero_of_not_any r h]

/-- rows picked through the filtered indices = the filtered rows -/
theorem filter_indices_rows {γ : Type} (p : γ → Bool) (d : γ) (pre L : List γ) :
    ((List.range' pre.length L.length).filter (fun i => p ((pre ++ L).getD i d))).map
        (fun i => (pre ++ L).getD i d) = L.filter p := by
  induction L generalizing pre with
  | nil => simp
  | cons x xs ih =>
    have hx : (pre ++ x :: xs).getD pre.length d = x := by
      simp [List.getD_eq_getElem?_getD]
    have := ih (pre ++ [x])
    simp only [List.length_append, List.length_cons, List.length_nil, List.append_assoc,
      List.cons_append, List.nil_append, Nat.zero_add] at this
    simp only [List.length_cons, List.range'_succ, List.filter_cons, hx]
    cases hp : p x with
    | true => simp only [if_true, List.map_cons, hx, this]
    | false => simpa using this

theorem unlabeled_rows (unl : List (List Bool)) :
    (unlabeledSamples unl).map (fun i => unl.getD i []) = unl.filter anyTrue := by
  have := filter_indices_rows anyTrue [] [] unl
  have e : hasUnl unl = fun i => anyTrue (unl.getD i []) := rfl
  unfold unlabeledSamples
  rw [e]
  simpa [List.range_eq_range'] using this

/-- **the batch size is clipped to the number of available pairs**: `n_candidate_pairs` of
`_validate_data` equals the number of `True` entries of the mask of `_transform_cand_annot`
(annotator index arrays are unique and in range after `check_indices`) -/
theorem nCandidatePairs_eq_countTrue (nS m : Nat) (unl : List (List Bool)) (cand : Cand) (annot : Annot)
    (ha : ∀ a, annot = .idx a → a.Nodup ∧ ∀ x ∈ a, x < m) :
    nCandidatePairs nS m unl cand annot = countTrue (transformCandAnnot nS m unl cand annot).2 := by
  cases cand with
  | all =>
    cases annot with
    | all => simp only [nCandidatePairs, transformCandAnnot, unlabeled_rows, countTrue_filter_any]
    | idx a =>
      obtain ⟨h1, h2⟩ := ha a rfl
      simp only [nCandidatePairs, transformCandAnnot, annotRows, countTrue_replicate, countRow_colMask m a h1 h2]
    | mat M => simp only [nCandidatePairs, transformCandAnnot, annotRows]
  | idx c =>
    cases annot with
    | all => simp only [nCandidatePairs, transformCandAnnot, annotRows, countTrue_replicate, countRow_replicate_true]
    | idx a =>
      obtain ⟨h1, h2⟩ := ha a rfl
      simp only [nCandidatePairs, transformCandAnnot, annotRows, countTrue_replicate, countRow_colMask m a h1 h2]
    | mat M => simp only [nCandidatePairs, transformCandAnnot, annotRows]
  | feat n =>
    cases annot with
    | all => simp only [nCandidatePairs, transformCandAnnot, annotRows, countTrue_replicate, countRow_replicate_true]
    | idx a =>
      obtain ⟨h1, h2⟩ := ha a rfl
      simp only [nCandidatePairs, transformCandAnnot, annotRows, countTrue_replicate, countRow_colMask m a h1 h2]
    | mat M => simp only [nCandidatePairs, transformCandAnnot, annotRows]

end CountL

section IetCount
variable {α : Type}

theorem countSome_map_range (N : Nat) (f : Nat → Option α) (h : ∀ p, p < N → (f p).isSome = true) :
    countSome ((List.range N).map f) = N := by
  unfold countSome
  have : ((List.range N).map f).filter Option.isSome = (List.range N).map f := by
    rw [List.filter_eq_self]
    intro x hx
    obtain ⟨p, hp, rfl⟩ := List.mem_map.mp hx
    exact h p (List.mem_range.mp hp)
  rw [this]; simp

/-- documented domain of IntervalEstimationThreshold with feature-row candidates: every candidate has
all annotators available and every utility is a number ⇒ all `n_candidates * n_annotators` pairs are
selectable -/
theorem ietMask_countSome_full (m : Nat) (hm : 0 < m) (A : List (List Bool)) (U : List (Option α))
    (hfull : ∀ r ∈ A, allTrue r = true) (hU : ∀ p, p < A.length * m → (U.getD p none).isSome = true) :
    countSome (ietMask m A U) = A.length * m := by
  unfold ietMask
  apply countSome_map_range
  intro p hp
  have hi : p / m < A.length := (Nat.div_lt_iff_lt_mul hm).mpr hp
  have : (A.map allTrue).getD (p / m) false = true := by
    simp only [List.getD_eq_getElem?_getD, List.getElem?_map, List.getElem?_eq_getElem hi]
    simpa using hfull _ (List.getElem_mem hi)
  simp only [ietMaskAt, this, if_true]
  exact hU p hp

end IetCount

section ScatterCount
variable {α : Type}

theorem countSome_eq_filter_length (f : Nat → Option α) (N : Nat) :
    countSome ((List.range N).map f) = ((List.range N).filter (fun q => (f q).isSome)).length := by
  unfold countSome
  rw [List.filter_map, List.length_map]
  rfl

/-- number of flat positions `q < n * m` whose row `q / m` satisfies `P` -/
theorem block_filter_length (m : Nat) (_hm : 0 < m) (P : Nat → Bool) (n : Nat) :
    ((List.range (n * m)).filter (fun q => P (q / m))).length = m * ((List.range n).filter P).length := by
  induction n with
  | zero => simp
  | succ n ih =>
    have e : List.range ((n + 1) * m) = List.range (n * m) ++ List.range' (n * m) m := by
      rw [List.range_eq_range', List.range_eq_range', Nat.add_mul, Nat.one_mul]
      exact (List.range'_append_1 (s := 0) (m := n * m) (n := m)).symm ▸ by simp
    rw [e, List.filter_append, List.length_append, ih, List.range_succ, List.filter_append, List.length_append]
    have hblock : (List.range' (n * m) m).filter (fun q => P (q / m)) =
        if P n then List.range' (n * m) m else [] := by
      have hq : ∀ q ∈ List.range' (n * m) m, q / m = n := by
        intro q hq
        simp only [List.mem_range'_1] at hq
        have : q = n * m + (q - n * m) := by omega
        rw [this]; exact div_block (by omega)
      cases hP : P n with
      | true =>
        simp only [if_true]
        rw [List.filter_eq_self]
        intro q hq'; rw [hq q hq', hP]
      | false =>
        simp only [Bool.false_eq_true, if_false]
        rw [List.filter_eq_nil_iff]
        intro q hq'; rw [hq q hq', hP]; simp
    rw [hblock]
    cases hP : P n <;> simp [hP, Nat.mul_add]

theorem filter_contains_length (n : Nat) (mp : List Nat) (hnd : mp.Nodup) (hlt : ∀ s ∈ mp, s < n) :
    ((List.range n).filter (fun s => mp.contains s)).length = mp.length := by
  apply List.Perm.length_eq
  rw [List.perm_ext_iff_of_nodup (List.Pairwise.sublist List.filter_sublist List.nodup_range) hnd]
  intro x
  simp only [List.mem_filter, List.mem_range, List.contains_iff_mem]
  exact ⟨fun h => h.2, fun h => ⟨hlt x h, h⟩⟩

theorem posIn_lt (mp : List Nat) (s : Nat) (h : mp.contains s = true) : posIn mp s < mp.length := by
  unfold posIn
  exact List.idxOf_lt_length_of_mem (by simpa using h)

/-- documented domain with a mapping: every candidate row fully available, every utility a number ⇒
`len(mapping) * n_annotators` selectable pairs after the scatter into `len(X)` rows -/
theorem scatter_countSome_full (nS m : Nat) (hm : 0 < m) (mp : List Nat) (hnd : mp.Nodup)
    (hlt : ∀ s ∈ mp, s < nS) (row : List (Option α))
    (hrow : ∀ p, p < mp.length * m → (row.getD p none).isSome = true) :
    countSome (scatterRows nS m mp row) = mp.length * m := by
  unfold scatterRows
  rw [countSome_eq_filter_length]
  have e : (fun q => (scatterAt m mp row q).isSome) = (fun q => mp.contains (q / m)) := by
    funext q
    unfold scatterAt
    cases hc : mp.contains (q / m) with
    | false => simp
    | true =>
      simp only [if_true]
      apply hrow
      have h1 := posIn_lt mp (q / m) hc
      have h2 : q % m < m := Nat.mod_lt _ hm
      have := Nat.mul_le_mul_right m (show posIn mp (q / m) + 1 ≤ mp.length by omega)
      rw [Nat.add_mul] at this
      omega
  rw [e, block_filter_length m hm (fun s => mp.contains s) nS, filter_contains_length nS mp hnd hlt, Nat.mul_comm]

end ScatterCount

section IetDoc
variable {α : Type}

theorem ietMask_getD_full (m : Nat) (hm : 0 < m) (A : List (List Bool)) (U : List (Option α))
    (hfull : ∀ r ∈ A, allTrue r = true) (p : Nat) (hp : p < A.length * m) :
    (ietMask m A U).getD p none = U.getD p none := by
  unfold ietMask
  have hi : p / m < A.length := (Nat.div_lt_iff_lt_mul hm).mpr hp
  have : (A.map allTrue).getD (p / m) false = true := by
    simp only [List.getD_eq_getElem?_getD, List.getElem?_map, List.getElem?_eq_getElem hi]
    simpa using hfull _ (List.getElem_mem hi)
  simp only [List.getD_eq_getElem?_getD, List.getElem?_map, List.getElem?_range hp, Option.map_some,
    Option.getD_some, ietMaskAt]
  simp only [List.getD_eq_getElem?_getD, List.getElem?_map] at this
  rw [this]; simp

/-- on IntervalEstimationThreshold's documented domain (every candidate sample has all annotators
available, every utility is a number) every candidate pair is selectable -/
theorem ietUtilities_countSome_full (nS m : Nat) (hm : 0 < m) (unl : List (List Bool)) (cand : Cand)
    (annot : Annot) (U : List (Option α))
    (hmp : ∀ mp, (transformCandAnnot nS m unl cand annot).1 = some mp →
      mp.Nodup ∧ (∀ s ∈ mp, s < nS) ∧ mp.length = (transformCandAnnot nS m unl cand annot).2.length)
    (hfull : ∀ r ∈ (transformCandAnnot nS m unl cand annot).2, allTrue r = true)
    (hU : ∀ p, p < (transformCandAnnot nS m unl cand annot).2.length * m → (U.getD p none).isSome = true) :
    countSome (ietUtilities nS m unl cand annot U) =
      (transformCandAnnot nS m unl cand annot).2.length * m := by
  unfold ietUtilities
  generalize transformCandAnnot nS m unl cand annot = tr at *
  obtain ⟨mapping, A⟩ := tr
  simp only at hmp hfull hU ⊢
  cases mapping with
  | none => exact ietMask_countSome_full m hm A U hfull hU
  | some mp =>
    obtain ⟨h1, h2, h3⟩ := hmp mp rfl
    simp only
    rw [scatter_countSome_full nS m hm mp h1 h2 _ (by
      intro p hp
      rw [h3] at hp
      rw [ietMask_getD_full m hm A U hfull p hp]
      exact hU p hp), h3]

end IetDoc

section TranslateL
variable {α : Type}

theorem nodup_map_of_inj_on {γ δ : Type} (f : γ → δ) (l : List γ)
    (hinj : ∀ x ∈ l, ∀ y ∈ l, f x = f y → x = y) (hnd : l.Nodup) : (l.map f).Nodup := by
  induction l with
  | nil => simp
  | cons x xs ih =>
    simp only [List.map_cons, List.nodup_cons] at hnd ⊢
    refine ⟨?_, ih (fun a ha b hb => hinj a (List.mem_cons_of_mem _ ha) b (List.mem_cons_of_mem _ hb)) hnd.2⟩
    intro hin
    obtain ⟨y, hy, hxy⟩ := List.mem_map.mp hin
    have := hinj y (List.mem_cons_of_mem _ hy) x (List.mem_cons_self ..) hxy
    subst this
    exact hnd.1 hy

theorem posIn_getD (mp : List Nat) (s : Nat) (h : s ∈ mp) : mp.getD (posIn mp s) 0 = s := by
  have hl : posIn mp s < mp.length := List.idxOf_lt_length_of_mem h
  rw [List.getD_eq_getElem?_getD, List.getElem?_eq_getElem hl]
  simp only [Option.getD_some]
  exact List.getElem_idxOf hl

theorem posIn_getElem (mp : List Nat) (hnd : mp.Nodup) (i : Nat) (hi : i < mp.length) :
    posIn mp mp[i] = i := hnd.idxOf_getElem i hi

theorem expand_map (f : Nat → Nat) (nAs c : List Nat) : (expand nAs c).map f = expand nAs (c.map f) := by
  unfold expand
  induction nAs generalizing c with
  | nil => simp
  | cons n ns ih =>
    cases c with
    | nil => simp
    | cons x xs => simp [ih]

theorem gatherRow_get (mp : List Nat) (row : List (Option α)) (s : Nat) (h : s ∈ mp) :
    (gatherRow mp row)[posIn mp s]? = some (row.getD s none) := by
  have hl : posIn mp s < mp.length := List.idxOf_lt_length_of_mem h
  unfold gatherRow
  rw [List.getElem?_map, List.getElem?_eq_getElem hl]
  simp only [Option.map_some]
  have : mp[posIn mp s] = s := List.getElem_idxOf hl
  rw [this]

theorem flat_of_avail (m : Nat) (hm : 0 < m) (A : List (List Bool)) (hrect : ∀ r ∈ A, r.length = m)
    (p : Nat) : A.flatten.getD p false = (A.getD (p / m) []).getD (p % m) false := by
  have h := flatten_getElem? A m hrect (p / m) (p % m) (Nat.mod_lt _ hm)
  rw [Nat.mul_comm, Nat.div_add_mod] at h
  rw [List.getD_eq_getElem?_getD, h, ← List.getD_eq_getElem?_getD]

/-- flat position, in the index space of the result, of a translated pair -/
def outPos (m : Nat) (pr : Nat × Nat) : Nat := pr.1 * m + pr.2

theorem scatterRows_getD (nS m : Nat) (mp : List Nat) (row : List (Option α)) (q : Nat) :
    (scatterRows nS m mp row).getD q none = if q < nS * m then scatterAt m mp row q else none := by
  unfold scatterRows
  by_cases h : q < nS * m
  · simp [List.getD_eq_getElem?_getD, List.getElem?_map, List.getElem?_range h, h]
  · rw [if_neg h, List.getD_eq_getElem?_getD, List.getElem?_eq_none (by simpa using h)]
    rfl

/-- translated picks are available pairs in the index space of the result, and the translated
utilities are NaN at every unavailable position and at every translated earlier pick -/
theorem translate_spec (nS m : Nat) (hm : 0 < m) (A : List (List Bool)) (hrect : ∀ r ∈ A, r.length = m)
    (mapping : Option (List Nat))
    (hmp : ∀ mp, mapping = some mp → mp.Nodup ∧ mp.length = A.length)
    (out : List (Nat × List (Option α)))
    (hav : ∀ r ∈ out, A.flatten.getD r.1 false = true)
    (hnan : ∀ k, ∀ hk : k < out.length, ∀ q,
      (A.flatten.getD q false = false ∨ q ∈ (out.map Prod.fst).take k) → out[k].2.getD q none = none) :
    (∀ r ∈ out, (translatePick m mapping r.1).2 < m ∧
      outAvail m mapping A (outPos m (translatePick m mapping r.1)) = true) ∧
    (∀ k, ∀ hk : k < out.length, ∀ q,
      (outAvail m mapping A q = false ∨
        q ∈ ((out.map Prod.fst).take k).map (fun p => outPos m (translatePick m mapping p))) →
      (translateRow nS m mapping out[k].2).getD q none = none) := by
  have hfl := flatten_length A m hrect
  cases mapping with
  | none =>
    have hpos : ∀ p, outPos m (translatePick m none p) = p := by
      intro p; simp only [outPos, translatePick]; rw [Nat.mul_comm]; exact Nat.div_add_mod p m
    refine ⟨?_, ?_⟩
    · intro r hr
      refine ⟨Nat.mod_lt _ hm, ?_⟩
      rw [hpos]
      simp only [outAvail]
      rw [← flat_of_avail m hm A hrect]
      exact hav r hr
    · intro k hk q hq
      simp only [translateRow]
      apply hnan k hk q
      rcases hq with hq | hq
      · left
        simp only [outAvail] at hq
        rw [flat_of_avail m hm A hrect]; exact hq
      · right
        obtain ⟨p, hp, rfl⟩ := List.mem_map.mp hq
        rw [hpos]; exact hp
  | some mp =>
    obtain ⟨hnd, hl⟩ := hmp mp rfl
    -- a flat position `p` of the selectable space with its translated position
    have key : ∀ p, p < A.length * m →
        outPos m (translatePick m (some mp) p) / m = mp.getD (p / m) 0 ∧
        outPos m (translatePick m (some mp) p) % m = p % m ∧
        mp.contains (mp.getD (p / m) 0) = true ∧ posIn mp (mp.getD (p / m) 0) = p / m := by
      intro p hp
      have hi : p / m < mp.length := by rw [hl]; exact (Nat.div_lt_iff_lt_mul hm).mpr hp
      have hj : p % m < m := Nat.mod_lt _ hm
      have e : mp.getD (p / m) 0 = mp[p / m] := by
        simp [List.getD_eq_getElem?_getD, List.getElem?_eq_getElem hi]
      refine ⟨?_, ?_, ?_, ?_⟩
      · simp only [outPos, translatePick]; exact div_block hj
      · simp only [outPos, translatePick]; exact mod_block hj
      · rw [e]; simpa using List.getElem_mem hi
      · rw [e]; exact posIn_getElem mp hnd _ hi
    refine ⟨?_, ?_⟩
    · intro r hr
      have hp : r.1 < A.length * m := by
        have := getD_true_lt _ _ (hav r hr); rwa [hfl] at this
      obtain ⟨k1, k2, k3, k4⟩ := key r.1 hp
      refine ⟨Nat.mod_lt _ hm, ?_⟩
      simp only [outAvail, k1, k2, k3, k4, Bool.true_and]
      rw [← flat_of_avail m hm A hrect]
      exact hav r hr
    · intro k hk q hq
      simp only [translateRow]
      rw [scatterRows_getD]
      split
      · unfold scatterAt
        split
        · rename_i hc
          rcases hq with hq | hq
          · apply hnan k hk
            left
            simp only [outAvail, hc, Bool.true_and] at hq
            rw [flat_of_avail m hm A hrect, div_block (Nat.mod_lt _ hm), mod_block (Nat.mod_lt _ hm)]
            exact hq
          · obtain ⟨p, hp, rfl⟩ := List.mem_map.mp hq
            have hpm : p ∈ out.map Prod.fst := List.mem_of_mem_take hp
            obtain ⟨r, hr, rfl⟩ := List.mem_map.mp hpm
            have hp' : r.1 < A.length * m := by
              have := getD_true_lt _ _ (hav r hr); rwa [hfl] at this
            obtain ⟨k1, k2, k3, k4⟩ := key r.1 hp'
            rw [k1, k2, k4, Nat.mul_comm, Nat.div_add_mod]
            exact hnan k hk r.1 (Or.inr hp)
        · rfl
      · rfl

end TranslateL

/-- position of an inner pick among the selectable candidates -/
def selPos (mapping : Option (List Nat)) (s : Nat) : Nat :=
  match mapping with
  | none => s
  | some mp => posIn mp s

/-- number of available annotators of the selectable candidate `s` -/
def nmaxAt (A : List (List Bool)) (s : Nat) : Nat := countRow (A.getD s [])

theorem mem_expand (nAs c : List Nat) (y : Nat) (h : y ∈ expand nAs c) : y ∈ c := by
  unfold expand at h
  induction nAs generalizing c with
  | nil => simp at h
  | cons n ns ih =>
    cases c with
    | nil => simp at h
    | cons x xs =>
      simp only [List.zipWith_cons_cons, List.flatten_cons, List.mem_append, List.mem_replicate] at h
      rcases h with h | h
      · rw [h.2]; exact List.mem_cons_self ..
      · exact List.mem_cons_of_mem _ (ih xs h)

/-- in `expand nAs c` the entries appear in the order of `c` (no entry of a later rank before one of
an earlier rank) -/
theorem expand_pairwise (nAs c : List Nat) (hc : c.Nodup) :
    (expand nAs c).Pairwise (fun x y => c.idxOf x ≤ c.idxOf y) := by
  induction nAs generalizing c with
  | nil => simp [expand]
  | cons n ns ih =>
    cases c with
    | nil => simp [expand]
    | cons x xs =>
      have hx : x ∉ xs := (List.nodup_cons.mp hc).1
      have e : expand (n :: ns) (x :: xs) = List.replicate n x ++ expand ns xs := by simp [expand]
      rw [e, List.pairwise_append]
      refine ⟨?_, ?_, ?_⟩
      · rw [List.pairwise_replicate]; right; exact Nat.le_refl _
      · refine (ih xs (List.nodup_cons.mp hc).2).imp_of_mem ?_
        intro a b ha hb hab
        have ha' := mem_expand ns xs a ha
        have hb' := mem_expand ns xs b hb
        have ne1 : x ≠ a := fun e => hx (e ▸ ha')
        have ne2 : x ≠ b := fun e => hx (e ▸ hb')
        have b1 : (x == a) = false := by simpa using ne1
        have b2 : (x == b) = false := by simpa using ne2
        simp only [List.idxOf_cons, b1, b2, cond_false]
        omega
      · intro a ha b _
        rw [(List.mem_replicate.mp ha).2]
        simp [List.idxOf_cons_self]

theorem prefVector_length (pref : Pref) (sq : Nat) : (prefVector pref sq).length = sq := by
  cases pref with
  | int n => simp [prefVector]
  | arr l =>
    simp only [prefVector]
    split
    · simp only [List.length_take]; omega
    · simp only [List.length_append, List.length_replicate]; omega

/-- `n_annotators_per_sample ≥ 1` (an int is validated by the code; an array must be non-empty) carries
over to `pref_n_annotators` -/
theorem prefVector_ge_one (pref : Pref) (sq : Nat)
    (h : match pref with
      | .int n => 1 ≤ n
      | .arr l => l ≠ [] ∧ ∀ x ∈ l, 1 ≤ x) :
    ∀ x ∈ prefVector pref sq, 1 ≤ x := by
  cases pref with
  | int n =>
    intro x hx
    simp only [prefVector, List.mem_replicate] at hx
    rw [hx.2]; exact h
  | arr l =>
    obtain ⟨hne, hl⟩ := h
    intro x hx
    simp only [prefVector] at hx
    split at hx
    · exact hl x (List.mem_of_mem_take hx)
    · rcases List.mem_append.mp hx with hx | hx
      · exact hl x hx
      · rw [(List.mem_replicate.mp hx).2]
        apply hl
        cases l with
        | nil => exact absurd rfl hne
        | cons a as => rw [List.getLastD_cons]; exact List.getLastD_mem_cons ..

theorem assignInit_eq_of_le (nmax pref : List Nat) (h : LeL pref nmax) : assignInit nmax pref = pref := by
  induction pref generalizing nmax with
  | nil => cases nmax <;> simp [assignInit]
  | cons p ps ih =>
    cases nmax with
    | nil => simp [LeL] at h
    | cons n ns =>
      have := ih ns h.2
      simp only [assignInit, List.zipWith_cons_cons] at this ⊢
      rw [this, Nat.min_eq_right h.1]

namespace Regressions

/-- numbers with a `-inf` that absorbs addition (`-inf + 1 = -inf`), as IEEE doubles do -/
inductive Ext where
  | negInf
  | fin (n : Nat)
  deriving DecidableEq, Repr

def Ext.lt : Ext → Ext → Bool
  | .negInf, .negInf => false
  | .negInf, .fin _ => true
  | .fin _, .negInf => false
  | .fin a, .fin b => decide (a < b)

instance : LT Ext := ⟨fun a b => Ext.lt a b = true⟩
instance : DecidableLT Ext := fun a b => inferInstanceAs (Decidable (Ext.lt a b = true))
instance : Add Ext := ⟨fun a b => match a, b with
  | .fin x, .fin y => .fin (x + y)
  | _, _ => .negInf⟩
instance : OfNat Ext 1 := ⟨.fin 1⟩

end Regressions

end Ska.MultiAnnot
