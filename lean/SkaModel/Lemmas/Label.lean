import Mathlib.Order.Defs.LinearOrder
import Mathlib.Order.Basic
import SkaModel.Core.Label

/-! Helper lemmas about the label model (`Core/Label.lean`). Property theorems live in
`SkaModel/Props/C16.lean` and `SkaModel/Props/C09.lean`. -/

namespace Ska.Label

/-! ## the sentinel test -/

section Missing
variable {α : Type} [DecidableEq α]

theorem isMissing_iff (ml x : Lbl α) : isMissing ml x = true ↔ x = ml := by
  cases ml <;> cases x <;> simp [isMissing]

theorem notMissing_iff (ml x : Lbl α) : notMissing ml x = true ↔ x ≠ ml := by
  rw [notMissing, Bool.not_eq_true', ← Bool.not_eq_true, isMissing_iff]

end Missing

/-! ## `np.argwhere` -/

section Where

theorem mem_whereFrom (k : Nat) (m : List Bool) (i : Nat) :
    i ∈ whereFrom k m ↔ ∃ j, i = k + j ∧ m[j]? = some true := by
  induction m generalizing k with
  | nil => simp [whereFrom]
  | cons b bs ih =>
    simp only [whereFrom]
    constructor
    · intro h
      split at h
      · rename_i hb
        rcases List.mem_cons.mp h with rfl | h
        · exact ⟨0, rfl, by simp [hb]⟩
        · obtain ⟨j, rfl, hj⟩ := (ih (k+1)).mp h
          exact ⟨j+1, by omega, by simpa using hj⟩
      · obtain ⟨j, rfl, hj⟩ := (ih (k+1)).mp h
        exact ⟨j+1, by omega, by simpa using hj⟩
    · rintro ⟨j, rfl, hj⟩
      cases j with
      | zero =>
        simp at hj
        subst hj
        simp
      | succ j =>
        have : k + (j + 1) ∈ whereFrom (k+1) bs := (ih (k+1)).mpr ⟨j, by omega, by simpa using hj⟩
        split
        · exact List.mem_cons_of_mem _ this
        · exact this

theorem whereFrom_ge (k : Nat) (m : List Bool) : ∀ i ∈ whereFrom k m, k ≤ i := by
  intro i hi
  obtain ⟨j, rfl, -⟩ := (mem_whereFrom k m i).mp hi
  omega

theorem whereFrom_sorted (k : Nat) (m : List Bool) : (whereFrom k m).Pairwise (· < ·) := by
  induction m generalizing k with
  | nil => simp [whereFrom]
  | cons b bs ih =>
    simp only [whereFrom]
    split
    · refine List.pairwise_cons.mpr ⟨?_, ih (k+1)⟩
      intro i hi
      have := whereFrom_ge (k+1) bs i hi
      omega
    · exact ih (k+1)

/-- lexicographic order on index pairs (the order of `np.argwhere` on a 2-d mask). -/
def lexLt (p q : Nat × Nat) : Prop := p.1 < q.1 ∨ (p.1 = q.1 ∧ p.2 < q.2)

theorem mem_argwhere2From (k : Nat) (rows : List (List Bool)) (i j : Nat) :
    (i, j) ∈ argwhere2From k rows ↔ ∃ r, i = k + r ∧ ∃ row, rows[r]? = some row ∧ row[j]? = some true := by
  induction rows generalizing k with
  | nil => simp [argwhere2From]
  | cons r rs ih =>
    simp only [argwhere2From, List.mem_append, List.mem_map, pairWith, Prod.mk.injEq]
    constructor
    · rintro (⟨j', hj', rfl, rfl⟩ | h)
      · obtain ⟨t, ht, hget⟩ := (mem_whereFrom 0 r j').mp hj'
        refine ⟨0, rfl, r, by simp, ?_⟩
        have : j' = t := by omega
        subst this
        exact hget
      · obtain ⟨t, rfl, row, hrow, hget⟩ := (ih (k+1)).mp h
        exact ⟨t+1, by omega, row, by simpa using hrow, hget⟩
    · rintro ⟨t, rfl, row, hrow, hget⟩
      cases t with
      | zero =>
        left
        simp at hrow
        subst hrow
        exact ⟨j, (mem_whereFrom 0 r j).mpr ⟨j, by omega, hget⟩, rfl, rfl⟩
      | succ t =>
        right
        exact (ih (k+1)).mpr ⟨t, by omega, row, by simpa using hrow, hget⟩

theorem argwhere2From_sorted (k : Nat) (rows : List (List Bool)) :
    (argwhere2From k rows).Pairwise lexLt := by
  induction rows generalizing k with
  | nil => simp [argwhere2From]
  | cons r rs ih =>
    simp only [argwhere2From]
    rw [List.pairwise_append]
    refine ⟨?_, ih (k+1), ?_⟩
    · rw [List.pairwise_map]
      exact (whereFrom_sorted 0 r).imp (fun h => Or.inr ⟨rfl, h⟩)
    · intro p hp q hq
      obtain ⟨j, -, rfl⟩ := List.mem_map.mp hp
      obtain ⟨q1, q2⟩ := q
      obtain ⟨t, ht, -⟩ := (mem_argwhere2From (k+1) rs q1 q2).mp hq
      left
      simp only [pairWith]
      omega

end Where

/-! ## row-major chunking -/

section Rows
variable {γ : Type}

theorem rowsOf_length (c r : Nat) (l : List γ) : (rowsOf c r l).length = r := by
  induction r generalizing l with
  | zero => simp [rowsOf]
  | succ r ih => simp [rowsOf, ih]

theorem rowsOf_getElem? (c r : Nat) (l : List γ) (i j : Nat) (hi : i < r) (hj : j < c) :
    ((rowsOf c r l)[i]?.bind (·[j]?)) = l[i * c + j]? := by
  induction r generalizing l i with
  | zero => omega
  | succ r ih =>
    cases i with
    | zero =>
      simp only [rowsOf, List.getElem?_cons_zero, Option.bind_some, Nat.zero_mul, Nat.zero_add]
      rw [List.getElem?_take]
      simp [hj]
    | succ i =>
      simp only [rowsOf, List.getElem?_cons_succ]
      rw [ih (l.drop c) i (by omega), List.getElem?_drop]
      congr 1
      rw [Nat.succ_mul]
      omega

end Rows

/-! ## sort + dedupe, index lookup -/

section SortL
variable {γ : Type} [LinearOrder γ]

theorem mem_insertSorted (x : γ) (l : List γ) (y : γ) : y ∈ insertSorted x l ↔ y = x ∨ y ∈ l := by
  induction l with
  | nil => simp [insertSorted]
  | cons z zs ih =>
    simp only [insertSorted]
    split
    · simp
    · split
      · simp only [List.mem_cons, ih]
        constructor
        · rintro (h | h | h)
          · exact Or.inr (Or.inl h)
          · exact Or.inl h
          · exact Or.inr (Or.inr h)
        · rintro (h | h | h)
          · exact Or.inr (Or.inl h)
          · exact Or.inl h
          · exact Or.inr (Or.inr h)
      · rename_i h1 h2
        have : x = z := le_antisymm (not_lt.mp h2) (not_lt.mp h1)
        subst this
        simp

theorem insertSorted_sorted (x : γ) (l : List γ) (h : l.Pairwise (· < ·)) :
    (insertSorted x l).Pairwise (· < ·) := by
  induction l with
  | nil => simp [insertSorted]
  | cons z zs ih =>
    obtain ⟨hz, hzs⟩ := List.pairwise_cons.mp h
    simp only [insertSorted]
    split
    · rename_i hxz
      refine List.pairwise_cons.mpr ⟨?_, h⟩
      intro y hy
      rcases List.mem_cons.mp hy with rfl | hy
      · exact hxz
      · exact lt_trans hxz (hz y hy)
    · split
      · rename_i hzx
        refine List.pairwise_cons.mpr ⟨?_, ih hzs⟩
        intro y hy
        rcases (mem_insertSorted x zs y).mp hy with rfl | hy
        · exact hzx
        · exact hz y hy
      · exact h

theorem mem_sortDedup (l : List γ) (y : γ) : y ∈ sortDedup l ↔ y ∈ l := by
  induction l with
  | nil => simp [sortDedup]
  | cons x xs ih => simp [sortDedup, mem_insertSorted, ih]

theorem sortDedup_sorted (l : List γ) : (sortDedup l).Pairwise (· < ·) := by
  induction l with
  | nil => simp [sortDedup]
  | cons x xs ih => exact insertSorted_sorted x _ ih

theorem sorted_nodup (l : List γ) (h : l.Pairwise (· < ·)) : l.Nodup :=
  h.imp (fun hab => ne_of_lt hab)

/-- In a strictly sorted list positions compare like their entries. -/
theorem sorted_getElem_lt_iff (l : List γ) (h : l.Pairwise (· < ·)) (i j : Nat) (hi : i < l.length)
    (hj : j < l.length) : l[i] < l[j] ↔ i < j := by
  constructor
  · intro hlt
    rcases Nat.lt_or_ge i j with hij | hij
    · exact hij
    · exfalso
      rcases Nat.eq_or_lt_of_le hij with e | hji
      · subst e; exact lt_irrefl _ hlt
      · have := List.pairwise_iff_getElem.mp h j i hj hi hji
        exact lt_asymm hlt this
  · intro hij
    exact List.pairwise_iff_getElem.mp h i j hi hj hij

theorem indexOf?_eq_none (x : γ) (l : List γ) : indexOf? x l = none ↔ x ∉ l := by
  induction l with
  | nil => simp [indexOf?]
  | cons y ys ih =>
    simp only [indexOf?]
    split
    · rename_i h; subst h; simp
    · rename_i h
      simp only [Option.map_eq_none_iff, ih, List.mem_cons, not_or]
      exact ⟨fun h' => ⟨h, h'⟩, fun h' => h'.2⟩

/-- `indexOf?` returns the first position holding `x`. -/
theorem indexOf?_eq_some (x : γ) (l : List γ) (i : Nat) (h : indexOf? x l = some i) :
    l[i]? = some x := by
  induction l generalizing i with
  | nil => simp [indexOf?] at h
  | cons y ys ih =>
    simp only [indexOf?] at h
    split at h
    · rename_i hxy
      simp only [Option.some.injEq] at h
      subst h; subst hxy; simp
    · cases hq : indexOf? x ys with
      | none => simp [hq] at h
      | some k =>
        simp only [hq, Option.map_some, Option.some.injEq] at h
        subst h
        simpa using ih k hq

/-- On a duplicate-free list `indexOf?` inverts indexing. -/
theorem indexOf?_getElem (l : List γ) (hn : l.Nodup) (i : Nat) (hi : i < l.length) :
    indexOf? l[i] l = some i := by
  induction l generalizing i with
  | nil => simp at hi
  | cons y ys ih =>
    obtain ⟨hy, hys⟩ := List.nodup_cons.mp hn
    cases i with
    | zero => simp [indexOf?]
    | succ i =>
      have hi' : i < ys.length := by simpa using hi
      simp only [List.getElem_cons_succ, indexOf?]
      have hne : ys[i] ≠ y := by
        intro e
        exact hy (e ▸ List.getElem_mem _)
      rw [if_neg hne, ih hys i hi']
      rfl

theorem indexOf?_of_mem (x : γ) (l : List γ) (h : x ∈ l) : ∃ i, indexOf? x l = some i := by
  cases hq : indexOf? x l with
  | none => exact absurd h ((indexOf?_eq_none x l).mp hq)
  | some i => exact ⟨i, rfl⟩

end SortL

/-! ## transform / inverse_transform on flat arrays -/

section Transform
set_option linter.unusedSectionVars false
variable {γ : Type} [LinearOrder γ]

theorem encode1_ok_iff (cls : List γ) (missing : γ → Bool) (x : γ) :
    (∃ c, encode1 cls missing x = .ok c) ↔ (missing x = true ∨ x ∈ cls) := by
  unfold encode1
  cases hm : missing x with
  | true => simp
  | false =>
    simp only [Bool.false_eq_true, if_false, false_or]
    cases hq : indexOf? x cls with
    | none =>
      have := (indexOf?_eq_none x cls).mp hq
      simp [this]
    | some i =>
      have := List.mem_of_getElem? (indexOf?_eq_some x cls i hq)
      simp [this]

theorem encode1_unseen (cls : List γ) (missing : γ → Bool) (x : γ) (hm : missing x = false)
    (hx : x ∉ cls) : encode1 cls missing x = .error .unseen := by
  unfold encode1
  simp [hm, (indexOf?_eq_none x cls).mpr hx]

theorem encode1_err (cls : List γ) (missing : γ → Bool) (x : γ) (e : LErr)
    (h : encode1 cls missing x = .error e) : e = .unseen ∧ missing x = false ∧ x ∉ cls := by
  unfold encode1 at h
  cases hm : missing x with
  | true => simp [hm] at h
  | false =>
    simp only [hm, Bool.false_eq_true, if_false] at h
    cases hq : indexOf? x cls with
    | none =>
      simp only [hq] at h
      injection h with h
      exact ⟨h.symm, rfl, (indexOf?_eq_none x cls).mp hq⟩
    | some i => simp [hq] at h

/-- what a successful `encode1` returns. -/
theorem encode1_spec (cls : List γ) (missing : γ → Bool) (x : γ) (c : Int)
    (h : encode1 cls missing x = .ok c) :
    (missing x = true ∧ c = -1) ∨
    (missing x = false ∧ ∃ i : Nat, c = (i : Int) ∧ indexOf? x cls = some i ∧ cls[i]? = some x) := by
  unfold encode1 at h
  cases hm : missing x with
  | true =>
    simp only [hm, if_true] at h
    injection h with h
    exact Or.inl ⟨rfl, h.symm⟩
  | false =>
    simp only [hm, Bool.false_eq_true, if_false] at h
    cases hq : indexOf? x cls with
    | none => simp [hq] at h
    | some i =>
      simp only [hq] at h
      injection h with h
      exact Or.inr ⟨rfl, i, h.symm, rfl, indexOf?_eq_some x cls i hq⟩

theorem transformFlat_ok (cls : List γ) (missing : γ → Bool) (y : List γ) (es : List Int)
    (h : transformFlat cls missing y = .ok es) :
    es.length = y.length ∧ ∀ i, ∀ hi : i < y.length, ∃ hi' : i < es.length,
      encode1 cls missing y[i] = .ok es[i] := by
  induction y generalizing es with
  | nil =>
    simp only [transformFlat] at h
    injection h with h
    subst h
    simp
  | cons x xs ih =>
    simp only [transformFlat] at h
    cases hx : encode1 cls missing x with
    | error e => simp [hx] at h
    | ok c =>
      simp only [hx] at h
      cases hxs : transformFlat cls missing xs with
      | error e => simp [hxs] at h
      | ok cs =>
        simp only [hxs] at h
        injection h with h
        subst h
        obtain ⟨hl, hget⟩ := ih cs hxs
        refine ⟨by simp [hl], ?_⟩
        intro i hi
        cases i with
        | zero => exact ⟨by simp, by simpa using hx⟩
        | succ i =>
          obtain ⟨hi', he⟩ := hget i (by simpa using hi)
          exact ⟨by simpa using hi', by simpa using he⟩

theorem transformFlat_ok_iff (cls : List γ) (missing : γ → Bool) (y : List γ) :
    (∃ es, transformFlat cls missing y = .ok es) ↔ ∀ x ∈ y, missing x = true ∨ x ∈ cls := by
  induction y with
  | nil => simp [transformFlat]
  | cons x xs ih =>
    simp only [transformFlat, List.mem_cons, forall_eq_or_imp]
    rw [← ih, ← encode1_ok_iff]
    constructor
    · rintro ⟨es, h⟩
      cases hx : encode1 cls missing x with
      | error e => simp [hx] at h
      | ok c =>
        cases hxs : transformFlat cls missing xs with
        | error e => simp [hx, hxs] at h
        | ok cs => exact ⟨⟨c, rfl⟩, ⟨cs, rfl⟩⟩
    · rintro ⟨⟨c, hc⟩, ⟨cs, hcs⟩⟩
      exact ⟨c :: cs, by simp [hc, hcs]⟩

theorem transformFlat_err (cls : List γ) (missing : γ → Bool) (y : List γ) (e : LErr)
    (h : transformFlat cls missing y = .error e) : e = .unseen := by
  induction y with
  | nil => simp [transformFlat] at h
  | cons x xs ih =>
    simp only [transformFlat] at h
    cases hx : encode1 cls missing x with
    | error e' =>
      simp only [hx] at h
      injection h with h
      subst h
      exact (encode1_err cls missing x _ hx).1
    | ok c =>
      simp only [hx] at h
      cases hxs : transformFlat cls missing xs with
      | error e' =>
        simp only [hxs] at h
        injection h with h
        subst h
        exact ih hxs
      | ok cs => simp [hxs] at h

theorem decodeFlat_ok (cls : List γ) (ml : γ) (es : List Int) (ys : List γ)
    (h : decodeFlat cls ml es = .ok ys) :
    ys.length = es.length ∧ ∀ i, ∀ hi : i < es.length, ∃ hi' : i < ys.length,
      decode1 cls ml es[i] = .ok ys[i] := by
  induction es generalizing ys with
  | nil =>
    simp only [decodeFlat] at h
    injection h with h
    subst h
    simp
  | cons x xs ih =>
    simp only [decodeFlat] at h
    cases hx : decode1 cls ml x with
    | error e => simp [hx] at h
    | ok c =>
      simp only [hx] at h
      cases hxs : decodeFlat cls ml xs with
      | error e => simp [hxs] at h
      | ok cs =>
        simp only [hxs] at h
        injection h with h
        subst h
        obtain ⟨hl, hget⟩ := ih cs hxs
        refine ⟨by simp [hl], ?_⟩
        intro i hi
        cases i with
        | zero => exact ⟨by simp, by simpa using hx⟩
        | succ i =>
          obtain ⟨hi', he⟩ := hget i (by simpa using hi)
          exact ⟨by simpa using hi', by simpa using he⟩

/-- decoding what `encode1` produced gives the label back (missing entries give the sentinel). -/
theorem decode1_encode1 (cls : List γ) (missing : γ → Bool) (ml : γ) (x : γ) (c : Int)
    (h : encode1 cls missing x = .ok c) :
    decode1 cls ml c = .ok (if missing x then ml else x) := by
  rcases encode1_spec cls missing x c h with ⟨hm, rfl⟩ | ⟨hm, i, rfl, -, hget⟩
  · simp [decode1, hm]
  · have h1 : ¬ ((i : Int) = -1) := by omega
    have h2 : ¬ ((i : Int) < 0) := by omega
    simp only [decode1, if_neg h1, if_neg h2, hm, Bool.false_eq_true, if_false]
    rw [Int.toNat_natCast, hget]

theorem decodeFlat_transformFlat (cls : List γ) (missing : γ → Bool) (ml : γ) (y : List γ)
    (es : List Int) (h : transformFlat cls missing y = .ok es) :
    decodeFlat cls ml es = .ok (y.map (fun x => if missing x then ml else x)) := by
  induction y generalizing es with
  | nil =>
    simp only [transformFlat] at h
    injection h with h
    subst h
    simp [decodeFlat]
  | cons x xs ih =>
    simp only [transformFlat] at h
    cases hx : encode1 cls missing x with
    | error e => simp [hx] at h
    | ok c =>
      simp only [hx] at h
      cases hxs : transformFlat cls missing xs with
      | error e => simp [hxs] at h
      | ok cs =>
        simp only [hxs] at h
        injection h with h
        subst h
        simp [decodeFlat, decode1_encode1 cls missing ml x c hx, ih cs hxs]

end Transform

/-! ## the order on labels is a linear order -/

section LblOrder
variable {α : Type} [LinearOrder α]

/-- `Lbl.lt` (numbers < NaN < strings < None, numbers and strings by value) is a linear order whose
`<` is the `LT` instance the executable model uses. -/
instance Lbl.instLinearOrder : LinearOrder (Lbl α) where
  le a b := Lbl.lt b a = false
  lt a b := Lbl.lt a b = true
  le_refl a := by cases a <;> simp [Lbl.lt]
  le_trans a b c := by
    cases a <;> cases b <;> cases c <;> simp [Lbl.lt] <;> exact fun h1 h2 => le_trans h1 h2
  lt_iff_le_not_ge a b := by
    cases a <;> cases b <;> simp [Lbl.lt] <;> exact fun h => le_of_lt h
  le_antisymm a b := by
    cases a <;> cases b <;> simp [Lbl.lt] <;> exact fun h1 h2 => le_antisymm h1 h2
  le_total a b := by
    cases a <;> cases b <;> simp [Lbl.lt] <;> exact le_total _ _
  toDecidableLE := fun a b => inferInstanceAs (Decidable (Lbl.lt b a = false))
  toDecidableEq := inferInstance
  toDecidableLT := fun a b => inferInstanceAs (Decidable (Lbl.lt a b = true))

theorem Lbl.instLinearOrder_lt : (Lbl.instLinearOrder (α := α)).toLT = (Lbl.instLT : LT (Lbl α)) := rfl

theorem Lbl.num_lt_num (a b : α) : (Lbl.num a : Lbl α) < Lbl.num b ↔ a < b := by
  show Lbl.lt (Lbl.num a) (Lbl.num b) = true ↔ a < b
  simp [Lbl.lt]

theorem Lbl.str_lt_str (a b : α) : (Lbl.str a : Lbl α) < Lbl.str b ↔ a < b := by
  show Lbl.lt (Lbl.str a) (Lbl.str b) = true ↔ a < b
  simp [Lbl.lt]

end LblOrder

/-! ## relabeling by an order-preserving map (C09) -/

section Relabel
set_option linter.unusedSectionVars false
variable {γ γ' : Type} [LinearOrder γ] [LinearOrder γ']

/-- re-encode a label array: the old sentinel becomes the new one, every other label goes through `φ`. -/
def relabel (φ : γ → γ') (m : γ) (m' : γ') (x : γ) : γ' := if x = m then m' else φ x

/-- `φ` preserves and reflects `<` between the members of `L`. -/
def MonoOn (φ : γ → γ') (L : List γ) : Prop := ∀ a ∈ L, ∀ b ∈ L, (a < b ↔ φ a < φ b)

theorem MonoOn.inj {φ : γ → γ'} {L : List γ} (h : MonoOn φ L) (a b : γ) (ha : a ∈ L) (hb : b ∈ L) :
    φ a = φ b ↔ a = b := by
  constructor
  · intro e
    rcases lt_trichotomy a b with hlt | heq | hgt
    · have := (h a ha b hb).mp hlt
      rw [e] at this; exact absurd this (lt_irrefl _)
    · exact heq
    · have := (h b hb a ha).mp hgt
      rw [e] at this; exact absurd this (lt_irrefl _)
  · rintro rfl; rfl

theorem MonoOn.mono {φ : γ → γ'} {L L' : List γ} (h : MonoOn φ L) (hsub : ∀ x ∈ L', x ∈ L) : MonoOn φ L' :=
  fun a ha b hb => h a (hsub a ha) b (hsub b hb)

theorem insertSorted_map (φ : γ → γ') (x : γ) (l : List γ) (h : MonoOn φ (x :: l)) :
    insertSorted (φ x) (l.map φ) = (insertSorted x l).map φ := by
  induction l with
  | nil => simp [insertSorted]
  | cons y ys ih =>
    have hxy := h x (List.mem_cons_self ..) y (List.mem_cons_of_mem _ (List.mem_cons_self ..))
    have hyx := h y (List.mem_cons_of_mem _ (List.mem_cons_self ..)) x (List.mem_cons_self ..)
    have ih' := ih (h.mono (by
      intro z hz
      rcases List.mem_cons.mp hz with rfl | hz
      · exact List.mem_cons_self ..
      · exact List.mem_cons_of_mem _ (List.mem_cons_of_mem _ hz)))
    simp only [List.map_cons, insertSorted]
    by_cases h1 : x < y
    · rw [if_pos h1, if_pos (hxy.mp h1)]; simp
    · rw [if_neg h1, if_neg (fun h' => h1 (hxy.mpr h'))]
      by_cases h2 : y < x
      · rw [if_pos h2, if_pos (hyx.mp h2)]; simp [ih']
      · rw [if_neg h2, if_neg (fun h' => h2 (hyx.mpr h'))]; simp

theorem sortDedup_map (φ : γ → γ') (l : List γ) (h : MonoOn φ l) :
    sortDedup (l.map φ) = (sortDedup l).map φ := by
  induction l with
  | nil => simp [sortDedup]
  | cons x xs ih =>
    simp only [List.map_cons, sortDedup]
    rw [ih (h.mono (fun z hz => List.mem_cons_of_mem _ hz))]
    apply insertSorted_map
    apply h.mono
    intro z hz
    rcases List.mem_cons.mp hz with rfl | hz
    · exact List.mem_cons_self ..
    · exact List.mem_cons_of_mem _ ((mem_sortDedup xs z).mp hz)

theorem indexOf?_map (φ : γ → γ') (x : γ) (l : List γ) (h : ∀ a ∈ l, (φ x = φ a ↔ x = a)) :
    indexOf? (φ x) (l.map φ) = indexOf? x l := by
  induction l with
  | nil => simp [indexOf?]
  | cons y ys ih =>
    simp only [List.map_cons, indexOf?]
    have hy := h y (List.mem_cons_self ..)
    by_cases e : x = y
    · rw [if_pos e, if_pos (hy.mpr e)]
    · rw [if_neg e, if_neg (fun e' => e (hy.mp e')), ih (fun a ha => h a (List.mem_cons_of_mem _ ha))]

theorem relabel_eq_sentinel (φ : γ → γ') (m : γ) (m' : γ') (x : γ) (h : x ≠ m → φ x ≠ m') :
    relabel φ m m' x = m' ↔ x = m := by
  unfold relabel
  by_cases e : x = m
  · simp [e]
  · simp [e, h e]

/-- one entry: the code of the relabeled value under the relabeled classes is the old code. -/
theorem encode1_relabel (φ : γ → γ') (m : γ) (m' : γ') (cls : List γ) (x : γ)
    (hx : x ≠ m → φ x ≠ m') (hinj : x ≠ m → ∀ a ∈ cls, (φ x = φ a ↔ x = a)) :
    encode1 (cls.map φ) (fun z => decide (z = m')) (relabel φ m m' x) =
      encode1 cls (fun z => decide (z = m)) x := by
  unfold encode1
  by_cases e : x = m
  · have : relabel φ m m' x = m' := (relabel_eq_sentinel φ m m' x hx).mpr e
    rw [this, e]
    simp
  · have h1 : ¬ relabel φ m m' x = m' := fun h => e ((relabel_eq_sentinel φ m m' x hx).mp h)
    have h2 : relabel φ m m' x = φ x := by simp [relabel, e]
    simp only [h1, e, decide_false, Bool.false_eq_true, if_false]
    rw [h2, indexOf?_map φ x cls (hinj e)]

theorem transformFlat_relabel (φ : γ → γ') (m : γ) (m' : γ') (cls : List γ) (y : List γ)
    (hx : ∀ x ∈ y, x ≠ m → φ x ≠ m')
    (hinj : ∀ x ∈ y, x ≠ m → ∀ a ∈ cls, (φ x = φ a ↔ x = a)) :
    transformFlat (cls.map φ) (fun z => decide (z = m')) (y.map (relabel φ m m')) =
      transformFlat cls (fun z => decide (z = m)) y := by
  induction y with
  | nil => simp [transformFlat]
  | cons x xs ih =>
    simp only [List.map_cons, transformFlat]
    rw [encode1_relabel φ m m' cls x (hx x (List.mem_cons_self ..)) (hinj x (List.mem_cons_self ..)),
      ih (fun z hz => hx z (List.mem_cons_of_mem _ hz)) (fun z hz => hinj z (List.mem_cons_of_mem _ hz))]

theorem decode1_relabel (φ : γ → γ') (m : γ) (m' : γ') (cls : List γ) (hm : m ∉ cls) (e : Int) :
    decode1 (cls.map φ) m' e = (decode1 cls m e).map (relabel φ m m') := by
  unfold decode1
  by_cases h1 : e = -1
  · simp [h1, relabel, Except.map]
  · rw [if_neg h1, if_neg h1]
    by_cases h2 : e < 0
    · simp [h2, Except.map]
    · rw [if_neg h2, if_neg h2, List.getElem?_map]
      cases hc : cls[e.toNat]? with
      | none => simp [Except.map]
      | some c =>
        have : c ≠ m := fun h => hm (h ▸ List.mem_of_getElem? hc)
        simp [Except.map, relabel, this]

theorem decodeFlat_relabel (φ : γ → γ') (m : γ) (m' : γ') (cls : List γ) (hm : m ∉ cls) (es : List Int) :
    decodeFlat (cls.map φ) m' es = (decodeFlat cls m es).map (List.map (relabel φ m m')) := by
  induction es with
  | nil => simp [decodeFlat, Except.map]
  | cons e es ih =>
    simp only [decodeFlat]
    rw [decode1_relabel φ m m' cls hm e, ih]
    cases decode1 cls m e with
    | error err => simp [Except.map]
    | ok c =>
      cases decodeFlat cls m es with
      | error err => simp [Except.map]
      | ok cs => simp [Except.map]

end Relabel

/-! ## argsort and order-preserving maps (cost-matrix permutation) -/

section Argsort
set_option linter.unusedSectionVars false
variable {γ γ' : Type} [LinearOrder γ] [LinearOrder γ']

def mapKey (φ : γ → γ') (p : γ × Nat) : γ' × Nat := (φ p.1, p.2)

theorem mem_insertKey (p : γ × Nat) (l : List (γ × Nat)) (q : γ × Nat) :
    q ∈ insertKey p l ↔ q = p ∨ q ∈ l := by
  induction l with
  | nil => simp [insertKey]
  | cons z zs ih =>
    simp only [insertKey]
    split
    · simp
    · simp only [List.mem_cons, ih]
      constructor
      · rintro (h | h | h)
        · exact Or.inr (Or.inl h)
        · exact Or.inl h
        · exact Or.inr (Or.inr h)
      · rintro (h | h | h)
        · exact Or.inr (Or.inl h)
        · exact Or.inl h
        · exact Or.inr (Or.inr h)

theorem mem_sortKeys (l : List (γ × Nat)) (q : γ × Nat) : q ∈ sortKeys l ↔ q ∈ l := by
  induction l with
  | nil => simp [sortKeys]
  | cons x xs ih => simp [sortKeys, mem_insertKey, ih]

theorem insertKey_map (φ : γ → γ') (p : γ × Nat) (l : List (γ × Nat))
    (h : ∀ q ∈ l, (p.1 < q.1 ↔ φ p.1 < φ q.1)) :
    insertKey (mapKey φ p) (l.map (mapKey φ)) = (insertKey p l).map (mapKey φ) := by
  induction l with
  | nil => simp [insertKey]
  | cons q qs ih =>
    have hq := h q (List.mem_cons_self ..)
    simp only [List.map_cons, insertKey, mapKey]
    by_cases h1 : p.1 < q.1
    · rw [if_pos h1, if_pos (hq.mp h1)]; simp [mapKey]
    · rw [if_neg h1, if_neg (fun h' => h1 (hq.mpr h'))]
      have := ih (fun z hz => h z (List.mem_cons_of_mem _ hz))
      simp only [mapKey] at this
      simp [mapKey, this]

theorem sortKeys_map (φ : γ → γ') (l : List (γ × Nat))
    (h : ∀ p ∈ l, ∀ q ∈ l, (p.1 < q.1 ↔ φ p.1 < φ q.1)) :
    sortKeys (l.map (mapKey φ)) = (sortKeys l).map (mapKey φ) := by
  induction l with
  | nil => simp [sortKeys]
  | cons x xs ih =>
    simp only [List.map_cons, sortKeys]
    rw [ih (fun p hp q hq => h p (List.mem_cons_of_mem _ hp) q (List.mem_cons_of_mem _ hq))]
    apply insertKey_map
    intro q hq
    exact h x (List.mem_cons_self ..) q (List.mem_cons_of_mem _ ((mem_sortKeys xs q).mp hq))

theorem enumFrom'_map (φ : γ → γ') (i : Nat) (l : List γ) :
    enumFrom' i (l.map φ) = (enumFrom' i l).map (mapKey φ) := by
  induction l generalizing i with
  | nil => simp [enumFrom']
  | cons x xs ih => simp [enumFrom', ih, mapKey]

theorem mem_enumFrom' (i : Nat) (l : List γ) (p : γ × Nat) (h : p ∈ enumFrom' i l) : p.1 ∈ l := by
  induction l generalizing i with
  | nil => simp [enumFrom'] at h
  | cons x xs ih =>
    simp only [enumFrom', List.mem_cons] at h
    rcases h with rfl | h
    · exact List.mem_cons_self ..
    · exact List.mem_cons_of_mem _ (ih (i+1) h)

/-- `np.argsort` only looks at comparisons: an order-preserving renaming leaves it unchanged. -/
theorem argsort_map (φ : γ → γ') (l : List γ) (h : MonoOn φ l) : argsort (l.map φ) = argsort l := by
  unfold argsort
  rw [enumFrom'_map, sortKeys_map φ _ (fun p hp q hq => h p.1 (mem_enumFrom' 0 l p hp) q.1 (mem_enumFrom' 0 l q hq)),
    List.map_map]
  apply List.map_congr_left
  intro p _
  rfl

end Argsort

end Ska.Label
