import SkaModel.Core.Pool
import SkaModel.Lemmas.Selection
import SkaModel.Props.C18

/-! Helper lemmas for the pool skeleton (scatter, deciders). Property theorems are in
`Props/C01.lean`, `Props/C02.lean`. -/

namespace Ska

section ScatterL
variable {α : Type}

theorem scatter_length (n : Nat) (is : List Nat) (vs : List (Option α)) :
    (scatter n is vs).length = n := by
  induction is generalizing vs with
  | nil => simp [scatter]
  | cons i is ih =>
    cases vs with
    | nil => simp [scatter]
    | cons v vs => simp [scatter, ih]

/-- Outside the mapping the scattered vector is NaN. -/
theorem scatter_getElem?_not_mem (n : Nat) (is : List Nat) (vs : List (Option α)) (j : Nat)
    (hj : j < n) (hnm : j ∉ is) : (scatter n is vs)[j]? = some none := by
  induction is generalizing vs with
  | nil => simp [scatter, hj]
  | cons i is ih =>
    cases vs with
    | nil => simp [scatter, hj]
    | cons v vs =>
      simp only [scatter]
      have hne : i ≠ j := fun e => hnm (e ▸ List.mem_cons_self ..)
      rw [List.getElem?_set_ne hne]
      exact ih vs (fun h => hnm (List.mem_cons_of_mem _ h))

/-- At the `k`-th mapped position the scattered vector holds the `k`-th candidate utility. -/
theorem scatter_getElem?_mem (n : Nat) (is : List Nat) (vs : List (Option α))
    (hlen : vs.length = is.length) (hnd : is.Nodup) (hr : ∀ i ∈ is, i < n)
    (k : Nat) (hk : k < is.length) :
    (scatter n is vs)[is[k]]? = some (vs[k]'(by omega)) := by
  induction is generalizing vs k with
  | nil => simp at hk
  | cons i is ih =>
    cases vs with
    | nil => simp at hlen
    | cons v vs =>
      have hnd' := List.nodup_cons.mp hnd
      simp only [scatter]
      cases k with
      | zero =>
        simp only [List.getElem_cons_zero]
        rw [List.getElem?_set]
        simp [scatter_length, hr i (List.mem_cons_self ..)]
      | succ k =>
        simp only [List.getElem_cons_succ]
        have hk' : k < is.length := by simpa using hk
        have hne : i ≠ is[k] := fun e => hnd'.1 (e ▸ List.getElem_mem hk')
        rw [List.getElem?_set_ne hne]
        exact ih vs (by simpa using hlen) hnd'.2 (fun x hx => hr x (List.mem_cons_of_mem _ hx)) k hk'

theorem countSome_replicate_none (n : Nat) : countSome (List.replicate n (none : Option α)) = 0 := by
  induction n with
  | zero => simp [countSome]
  | succ n ih => simpa [countSome, List.replicate_succ] using ih

theorem countSome_set_some (u : List (Option α)) (i : Nat) (v : α) (h : u[i]? = some none) :
    countSome (u.set i (some v)) = countSome u + 1 := by
  induction u generalizing i with
  | nil => simp at h
  | cons x xs ih =>
    cases i with
    | zero =>
      simp at h; subst h
      simp [countSome, List.filter]
    | succ k =>
      simp at h
      have := ih k h
      cases x <;> simp_all [countSome, List.filter]

/-- With no NaN among the candidate utilities, exactly the mapped positions are numbers. -/
theorem countSome_scatter (n : Nat) (is : List Nat) (vs : List (Option α))
    (hlen : vs.length = is.length) (hnd : is.Nodup) (hr : ∀ i ∈ is, i < n)
    (hall : ∀ x ∈ vs, ∃ v, x = some v) : countSome (scatter n is vs) = is.length := by
  induction is generalizing vs with
  | nil => simp [scatter, countSome_replicate_none]
  | cons i is ih =>
    cases vs with
    | nil => simp at hlen
    | cons v vs =>
      have hnd' := List.nodup_cons.mp hnd
      obtain ⟨w, hw⟩ := hall v (List.mem_cons_self ..)
      subst hw
      simp only [scatter, List.length_cons]
      rw [countSome_set_some _ _ _ (scatter_getElem?_not_mem n is vs i (hr i (List.mem_cons_self ..)) hnd'.1)]
      rw [ih vs (by simpa using hlen) hnd'.2 (fun x hx => hr x (List.mem_cons_of_mem _ hx))
        (fun x hx => hall x (List.mem_cons_of_mem _ hx))]

/-- A number in the scattered vector sits at a mapped position. -/
theorem scatter_some_mem (n : Nat) (is : List Nat) (vs : List (Option α)) (j : Nat) (v : α)
    (h : (scatter n is vs)[j]? = some (some v)) : j ∈ is := by
  rcases Classical.em (j ∈ is) with hm | hm
  · exact hm
  · have hj : j < n := by
      rcases Nat.lt_or_ge j n with h' | h'
      · exact h'
      · rw [List.getElem?_eq_none (by rw [scatter_length]; exact h')] at h; cases h
    rw [scatter_getElem?_not_mem n is vs j hj hm] at h
    cases h

end ScatterL

section StepL
variable {α : Type} [LinearOrder α]
open Ska.C18

/-- Each step of a `StepMax` batch: the recorded row's maximum is attained at the recorded pick. -/
theorem stepMax_rows_max (u : List (Option α)) (rs : List (Nat × List (Option α))) (h : StepMax u rs) :
    ∀ k, ∀ hk : k < rs.length, ∃ m, nanmax rs[k].2 = some m ∧ rs[k].2[rs[k].1]? = some (some m) := by
  induction rs generalizing u with
  | nil => intro k hk; simp at hk
  | cons r rest ih =>
    obtain ⟨i, row⟩ := r
    obtain ⟨hrow, hmax, hrest⟩ := h
    intro k hk
    cases k with
    | zero => simpa [hrow] using hmax
    | succ k => simpa using ih (u.set i none) hrest k (by simpa using hk)

end StepL

end Ska
