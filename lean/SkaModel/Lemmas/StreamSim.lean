import SkaModel.Lemmas.Budget

/-! Simulation: a manager over objects `ω` (the model generated from the Python source) that computes, through an
abstraction `abs`, what a manager over states `σ` (the hand-written model) computes, runs every chunked protocol
the same way and is pure whenever the hand-written model is. `inv` carries what stays constant in an object
(its parameters). -/

namespace Ska.StreamSim
open Ska Ska.Budget

variable {ω σ ι : Type}

structure Sim (G : Mgr ω ι) (M : Mgr σ ι) (abs : ω → σ) (put : ω → σ → ω) (inv : ω → Prop) : Prop where
  query_eq : ∀ o xs, inv o → G.query o xs = ((M.query (abs o) xs).1, put o (M.query (abs o) xs).2)
  update_eq : ∀ o xs idx, inv o → G.update o xs idx = (M.update (abs o) xs idx).map (put o)
  inv_put : ∀ o s, inv o → inv (put o s)
  abs_put : ∀ o s, abs (put o s) = s
  put_abs : ∀ o, put o (abs o) = o
  put_put : ∀ o s s', put (put o s) s' = put o s'

theorem Sim.pure {G : Mgr ω ι} {M : Mgr σ ι} {abs : ω → σ} {put : ω → σ → ω} {inv : ω → Prop}
    (h : Sim G M abs put inv) (hp : PureQ M) (o : ω) (ho : inv o) (xs : List ι) : (G.query o xs).2 = o := by
  rw [h.query_eq o xs ho, hp, h.put_abs]

theorem Sim.query_fst {G : Mgr ω ι} {M : Mgr σ ι} {abs : ω → σ} {put : ω → σ → ω} {inv : ω → Prop}
    (h : Sim G M abs put inv) (o : ω) (ho : inv o) (xs : List ι) : (G.query o xs).1 = (M.query (abs o) xs).1 := by
  rw [h.query_eq o xs ho]

theorem Sim.run_chunked {G : Mgr ω ι} {M : Mgr σ ι} {abs : ω → σ} {put : ω → σ → ω} {inv : ω → Prop}
    (h : Sim G M abs put inv) (hp : PureQ M) (chunks : List (List ι)) (o : ω) (ho : inv o) (off : Nat) :
    runChunked G o chunks off = (runChunked M (abs o) chunks off).map (fun r => (r.1, put o r.2)) := by
  induction chunks generalizing o off with
  | nil => simp [Budget.runChunked, Except.map, h.put_abs]
  | cons c cs ih =>
    simp only [Budget.runChunked]
    rw [h.query_eq o c ho, hp, h.put_abs, h.update_eq o c _ ho]
    cases hu : M.update (abs o) c (M.query (abs o) c).1 with
    | error e => simp [Except.map]
    | ok s' =>
      simp only [Except.map]
      rw [ih (put o s') (h.inv_put o s' ho), h.abs_put]
      cases Budget.runChunked M s' cs (off + c.length) with
      | error e => simp [Except.map]
      | ok r => simp [Except.map, h.put_put]

/-- the granted positions of a chunked run are those of the hand-written model -/
theorem Sim.run_chunked_ok {G : Mgr ω ι} {M : Mgr σ ι} {abs : ω → σ} {put : ω → σ → ω} {inv : ω → Prop}
    (h : Sim G M abs put inv) (hp : PureQ M) (chunks : List (List ι)) (o : ω) (ho : inv o) (off : Nat)
    (r : List Nat × σ) (hr : runChunked M (abs o) chunks off = .ok r) :
    runChunked G o chunks off = .ok (r.1, put o r.2) := by
  rw [h.run_chunked hp chunks o ho off, hr]; rfl

/-- whatever holds of the labels the hand-written model grants over a chunked run holds of the generated model -/
theorem Sim.transfer {G : Mgr ω ι} {M : Mgr σ ι} {abs : ω → σ} {put : ω → σ → ω} {inv : ω → Prop}
    (h : Sim G M abs put inv) (hp : PureQ M) (chunks : List (List ι)) (o : ω) (ho : inv o) (P : List Nat → Prop)
    (hM : ∃ r, runChunked M (abs o) chunks 0 = .ok r ∧ P r.1) :
    ∃ r, runChunked G o chunks 0 = .ok r ∧ P r.1 := by
  obtain ⟨r, hr, hP⟩ := hM
  exact ⟨(r.1, put o r.2), h.run_chunked_ok hp chunks o ho 0 r hr, hP⟩

/-- chunk invariance transfers: two chunkings of one stream grant the same labels and end in the same object -/
theorem Sim.chunk_invariance {G : Mgr ω ι} {M : Mgr σ ι} {abs : ω → σ} {put : ω → σ → ω} {inv : ω → Prop}
    (h : Sim G M abs put inv) (hp : PureQ M) (c1 c2 : List (List ι)) (o : ω) (ho : inv o)
    (hM : runChunked M (abs o) c1 0 = runChunked M (abs o) c2 0 ∧ ∃ r, runChunked M (abs o) c1 0 = .ok r) :
    runChunked G o c1 0 = runChunked G o c2 0 ∧ ∃ r, runChunked G o c1 0 = .ok r := by
  obtain ⟨h12, r, hr⟩ := hM
  refine ⟨?_, (r.1, put o r.2), h.run_chunked_ok hp c1 o ho 0 r hr⟩
  rw [h.run_chunked hp c1 o ho 0, h.run_chunked hp c2 o ho 0, h12]

end Ska.StreamSim
