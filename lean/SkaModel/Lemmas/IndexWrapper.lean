import SkaModel.Core.IndexWrapper

/-! Helper lemmas about the `IndexClassifierWrapper` model (`SkaModel/Core/IndexWrapper.lean`): list
selection, the abstraction to training lists of `(index, label, weight)` triples, argument validation,
`fit` and `partial_fit` spelled out. Property theorems live in `SkaModel/Props/C19.lean`. -/

namespace Ska.IW

section ListL
variable {α β : Type}

theorem maskSel_nil_right (l : List α) : maskSel l [] = [] := by
  cases l <;> rfl

theorem maskSel_map (f : α → β) (l : List α) (m : List Bool) :
    maskSel (l.map f) m = (maskSel l m).map f := by
  induction l generalizing m with
  | nil => simp [maskSel]
  | cons a as ih =>
    cases m with
    | nil => simp [maskSel]
    | cons b bs => cases b <;> simp [maskSel, ih]

theorem maskSel_zip (a : List α) (b : List β) (m : List Bool) :
    maskSel (a.zip b) m = (maskSel a m).zip (maskSel b m) := by
  induction a generalizing b m with
  | nil => simp [maskSel]
  | cons x xs ih =>
    cases b with
    | nil => cases m with
      | nil => simp [maskSel]
      | cons c cs => cases c <;> simp [maskSel]
    | cons y ys =>
      cases m with
      | nil => simp [maskSel]
      | cons c cs => cases c <;> simp [maskSel, ih]

theorem maskSel_map_self (p : α → Bool) (l : List α) : maskSel l (l.map p) = l.filter p := by
  induction l with
  | nil => simp [maskSel]
  | cons a as ih => cases h : p a <;> simp [maskSel, h, ih]

theorem maskSel_length_le (l : List α) (m : List Bool) : (maskSel l m).length ≤ l.length := by
  induction l generalizing m with
  | nil => simp [maskSel]
  | cons a as ih =>
    cases m with
    | nil => simp [maskSel]
    | cons b bs =>
      cases b
      · simp only [maskSel, Bool.false_eq_true, if_false, List.length_cons]; exact Nat.le_succ_of_le (ih bs)
      · simp only [maskSel, if_true, List.length_cons]; exact Nat.succ_le_succ (ih bs)

/-- two lists of equal length are selected to equal lengths -/
theorem maskSel_length_eq (a : List α) (b : List β) (m : List Bool) (h : a.length = b.length) :
    (maskSel a m).length = (maskSel b m).length := by
  induction a generalizing b m with
  | nil => cases b with
    | nil => simp [maskSel]
    | cons _ _ => simp at h
  | cons x xs ih =>
    cases b with
    | nil => simp at h
    | cons y ys =>
      cases m with
      | nil => simp [maskSel]
      | cons c cs =>
        have := ih ys cs (by simpa using h)
        cases c <;> simp [maskSel, this]

theorem maskSel_sublist (l : List α) (m : List Bool) : (maskSel l m).Sublist l := by
  induction l generalizing m with
  | nil => simp [maskSel]
  | cons a as ih =>
    cases m with
    | nil => simp [maskSel]
    | cons b bs =>
      cases b
      · simpa [maskSel] using (ih bs).cons a
      · simpa [maskSel] using (ih bs).cons_cons a

theorem nodupI_iff (l : List Int) : nodupI l = true ↔ l.Nodup := by
  induction l with
  | nil => simp [nodupI]
  | cons x xs ih => simp [nodupI, ih]

end ListL

section MapOpt
variable {α β : Type}

theorem mapOpt_eq_map (f : α → Option β) (g : α → β) (l : List α) (h : ∀ a ∈ l, f a = some (g a)) :
    mapOpt f l = some (l.map g) := by
  induction l with
  | nil => rfl
  | cons a as ih =>
    simp only [mapOpt, h a (List.mem_cons_self ..), ih (fun b hb => h b (List.mem_cons_of_mem _ hb)), List.map_cons]

theorem mapOpt_none_of_mem (f : α → Option β) (l : List α) (a : α) (ha : a ∈ l) (h : f a = none) :
    mapOpt f l = none := by
  induction l with
  | nil => cases ha
  | cons b bs ih =>
    rcases List.mem_cons.mp ha with rfl | hb
    · simp [mapOpt, h]
    · simp only [mapOpt, ih hb]
      split <;> simp_all

theorem mapOpt_some_all (f : α → Option β) (l : List α) (r : List β) (h : mapOpt f l = some r) :
    r.length = l.length ∧ ∀ k, ∀ hk : k < l.length, ∀ hk' : k < r.length, f l[k] = some r[k] := by
  induction l generalizing r with
  | nil => simp [mapOpt] at h; subst h; exact ⟨rfl, fun k hk => by cases hk⟩
  | cons a as ih =>
    simp only [mapOpt] at h
    split at h
    · rename_i b bs hb hbs
      injection h with h; subst h
      obtain ⟨h1, h2⟩ := ih bs hbs
      refine ⟨by simp [h1], ?_⟩
      intro k hk hk'
      cases k with
      | zero => simpa using hb
      | succ k => simpa using h2 k (by simpa using hk) (by simpa using hk')
    · cases h

theorem mapOpt_some_eq_map (f : α → Option β) (g : α → β) (l : List α) (r : List β)
    (h : mapOpt f l = some r) (hg : ∀ a b, f a = some b → b = g a) : r = l.map g := by
  induction l generalizing r with
  | nil => simp [mapOpt] at h; subst h; rfl
  | cons a as ih =>
    simp only [mapOpt] at h
    split at h
    · rename_i b bs hb hbs
      injection h with h; subst h
      rw [ih bs hbs, hg a b hb]; rfl
    · cases h

theorem mapOpt_isSome (f : α → Option β) (l : List α) (h : ∀ a ∈ l, f a ≠ none) :
    ∃ r, mapOpt f l = some r := by
  induction l with
  | nil => exact ⟨[], rfl⟩
  | cons a as ih =>
    obtain ⟨bs, hbs⟩ := ih (fun b hb => h b (List.mem_cons_of_mem _ hb))
    cases hb : f a with
    | none => exact absurd hb (h a (List.mem_cons_self ..))
    | some b => exact ⟨b :: bs, by simp [mapOpt, hb, hbs]⟩

end MapOpt

/-! ## The abstraction: lists (hence multisets) of `(sample index, label, weight)` triples -/

section Abs
variable {C L W : Type}

/-- record invariant: the three arrays are in step -/
def Data.WF (d : Data L W) : Prop :=
  d.y.length = d.idx.length ∧ ∀ w, d.sw = some w → w.length = d.idx.length

/-- per-sample weights (`None` for every sample when `sample_weight_ is None`) -/
def Data.weights (d : Data L W) : List (Option W) :=
  match d.sw with
  | none => d.idx.map (fun _ => none)
  | some w => w.map some

/-- what the wrapped classifier is trained on, sample by sample -/
def Data.triples (d : Data L W) : List (Int × L × Option W) :=
  d.idx.zip (d.y.zip d.weights)

/-- specification of the emulated `partial_fit` on training lists: drop the re-added indices (unique
mode only), append the new triples -/
def specPartial (unique : Bool) (start add : List (Int × L × Option W)) : List (Int × L × Option W) :=
  start.filter (fun t => !(unique && (add.map Prod.fst).contains t.1)) ++ add

theorem Data.weights_length (d : Data L W) (h : d.WF) : d.weights.length = d.idx.length := by
  unfold Data.weights
  cases hs : d.sw with
  | none => simp
  | some w => simpa using h.2 w hs

theorem Data.triples_map_fst (d : Data L W) (h : d.WF) : d.triples.map Prod.fst = d.idx := by
  unfold Data.triples
  apply List.map_fst_zip
  rw [List.length_zip, h.1, Data.weights_length d h]
  simp

theorem Data.triples_length (d : Data L W) (h : d.WF) : d.triples.length = d.idx.length := by
  have := congrArg List.length (Data.triples_map_fst d h)
  simpa using this

theorem selKeep_some {α : Type} (u : Bool) (keep : List Bool) (l : List α) (h : l.length = keep.length) :
    selKeep u keep l = some (maskSel l keep) := by
  unfold selKeep
  cases u <;> simp [h]

theorem keepMask_length (u : Bool) (cur add : List Int) : (keepMask u cur add).length = cur.length := by
  simp [keepMask]

/-- `merge` succeeds exactly when the weights are both absent or both given (on in-step records). -/
theorem merge_ok_of_wf (u : Bool) (d : Data L W) (idx : List Int) (ay : List L) (aw : Option (List W))
    (hd : d.WF) (hsw : d.sw.isSome = aw.isSome) :
    ∃ d', merge u d idx ay aw = .ok d' := by
  simp only [merge]
  rw [selKeep_some u _ d.y (by rw [keepMask_length]; exact hd.1)]
  cases hs : d.sw with
  | none =>
    cases aw with
    | none => exact ⟨_, rfl⟩
    | some a => simp [hs] at hsw
  | some w =>
    simp only
    rw [selKeep_some u _ w (by rw [keepMask_length]; exact hd.2 w hs)]
    cases aw with
    | none => simp [hs] at hsw
    | some a => exact ⟨_, rfl⟩

/-- **`merge` commutes with the abstraction**: the merged record is in step and its training list is
the specified one. -/
theorem merge_ok_spec (u : Bool) (d : Data L W) (idx : List Int) (ay : List L) (aw : Option (List W))
    (hd : d.WF) (ha : (⟨idx, ay, aw⟩ : Data L W).WF) (d' : Data L W)
    (h : merge u d idx ay aw = .ok d') :
    d'.WF ∧ d'.triples = specPartial u d.triples (Data.triples ⟨idx, ay, aw⟩) ∧
      d'.idx = d.idx.filter (fun i => !(u && idx.contains i)) ++ idx ∧
      (d'.sw.isSome = d.sw.isSome) := by
  have hkl : (keepMask u d.idx idx).length = d.idx.length := keepMask_length ..
  have hidx : maskSel d.idx (keepMask u d.idx idx) = d.idx.filter (fun i => !(u && idx.contains i)) := by
    unfold keepMask; exact maskSel_map_self _ _
  -- the mask as a function of the triples
  have hmask : keepMask u d.idx idx =
      d.triples.map (fun t => !(u && (((⟨idx, ay, aw⟩ : Data L W).triples).map Prod.fst).contains t.1)) := by
    rw [Data.triples_map_fst _ ha]
    have : d.triples.map (fun t => !(u && idx.contains t.1)) =
        (d.triples.map Prod.fst).map (fun i => !(u && idx.contains i)) := by
      rw [List.map_map]; rfl
    rw [this, Data.triples_map_fst d hd]; rfl
  simp only [merge] at h
  rw [selKeep_some u _ d.y (by rw [hkl]; exact hd.1)] at h
  cases hs : d.sw with
  | none =>
    rw [hs] at h
    cases aw with
    | some a => simp at h
    | none =>
      simp only at h
      injection h with h
      subst h
      have hylen : (maskSel d.y (keepMask u d.idx idx)).length = (maskSel d.idx (keepMask u d.idx idx)).length :=
        maskSel_length_eq _ _ _ hd.1
      refine ⟨⟨by simp [hylen, ha.1], (by intro w hw; cases hw)⟩, ?_, ?_, by simp⟩
      · unfold specPartial
        rw [← maskSel_map_self, ← hmask]
        unfold Data.triples Data.weights
        simp only [hs]
        rw [maskSel_zip, maskSel_zip, maskSel_map]
        rw [List.map_append, List.zip_append (by simp [hylen]), List.zip_append (by simp [hylen])]
      · simp only; rw [hidx]
  | some w =>
    rw [hs] at h
    simp only at h
    rw [selKeep_some u _ w (by rw [hkl]; exact hd.2 w hs)] at h
    cases aw with
    | none => simp at h
    | some a =>
      simp only at h
      injection h with h
      subst h
      have hylen : (maskSel d.y (keepMask u d.idx idx)).length = (maskSel d.idx (keepMask u d.idx idx)).length :=
        maskSel_length_eq _ _ _ hd.1
      have hwlen : (maskSel w (keepMask u d.idx idx)).length = (maskSel d.idx (keepMask u d.idx idx)).length :=
        maskSel_length_eq _ _ _ (hd.2 w hs)
      have halen : a.length = idx.length := ha.2 a rfl
      refine ⟨⟨by simp [hylen, ha.1], by intro w' hw'; cases hw'; simp [hwlen, halen]⟩, ?_, ?_, by simp⟩
      · unfold specPartial
        rw [← maskSel_map_self, ← hmask]
        unfold Data.triples Data.weights
        simp only [hs]
        rw [maskSel_zip, maskSel_zip, maskSel_map]
        rw [List.map_append, List.zip_append (by simp [hylen, hwlen]), List.zip_append (by simp [hylen, hwlen])]
      · simp only; rw [hidx]

end Abs

/-! ## Argument validation -/

section Valid
variable {C L W : Type}

theorem gather_length {α : Type} (l : List α) (idx : List Int) (r : List α) (h : gather l idx = some r) :
    r.length = idx.length := by
  induction idx generalizing r with
  | nil => simp [gather] at h; subst h; rfl
  | cons i is ih =>
    simp only [gather] at h
    split at h
    · cases h
    · split at h
      · injection h with h; subst h; rename_i as _ hg; simp [ih as hg]
      · cases h

theorem checkIdx_none (cfg : Cfg L W) (idx : List Int) (h : checkIdx cfg idx = none) :
    idx ≠ [] ∧ (cfg.unique = true → idx.Nodup) ∧ ∀ i ∈ idx, i < (cfg.n : Int) := by
  unfold checkIdx at h
  split at h
  · cases h
  split at h
  · cases h
  split at h
  · cases h
  rename_i h1 h2 h3
  refine ⟨by intro e; subst e; simp at h1, ?_, ?_⟩
  · intro hu
    rw [hu] at h2
    simp only [Bool.true_and, Bool.not_eq_true', Bool.not_eq_false] at h2
    exact (nodupI_iff idx).mp h2
  · intro i hi
    simp only [List.any_eq_true, decide_eq_true_eq, not_exists, not_and] at h3
    exact Int.not_le.mp (h3 i hi)

theorem xIndexOk_iff (cfg : Cfg L W) (idx : List Int) :
    xIndexOk cfg idx = true ↔ ∀ i ∈ idx, -(cfg.n : Int) ≤ i := by
  simp [xIndexOk]

theorem resolveY_ok (cfg : Cfg L W) (idx : List Int) (y : Option (List L)) (yy : List L)
    (h : resolveY cfg idx y = .ok yy) : yy.length = idx.length := by
  unfold resolveY at h
  split at h
  · split at h
    · cases h
    · injection h with h; subst h; rename_i hg; exact gather_length _ _ _ hg
  · split at h
    · injection h with h; subst h; assumption
    · cases h

theorem resolveSW_ok (cfg : Cfg L W) (idx : List Int) (sw : Option (List W)) (ww : Option (List W))
    (h : resolveSW cfg idx sw = .ok ww) :
    (∀ w, ww = some w → w.length = idx.length) ∧ (cfg.sw0.isSome = true → ww.isSome = true) := by
  unfold resolveSW at h
  split at h
  · split at h
    · injection h with h; subst h
      rename_i h0
      exact ⟨(by intro w hw; cases hw), (by intro hh; simp [h0] at hh)⟩
    · split at h
      · cases h
      · injection h with h; subst h
        rename_i hg
        exact ⟨(by intro w hw; injection hw with hw; subst hw; exact gather_length _ _ _ hg), (by intro _; rfl)⟩
  · split at h
    · injection h with h; subst h
      rename_i hl
      exact ⟨(by intro w hw; injection hw with hw; subst hw; exact hl), (by intro _; rfl)⟩
    · cases h

/-- the record a successful call trains on is in step -/
theorem resolved_wf (cfg : Cfg L W) (idx : List Int) (y : Option (List L)) (sw : Option (List W))
    (yy : List L) (ww : Option (List W))
    (hy : resolveY cfg idx y = .ok yy) (hw : resolveSW cfg idx sw = .ok ww) :
    (⟨idx, yy, ww⟩ : Data L W).WF :=
  ⟨resolveY_ok cfg idx y yy hy, (resolveSW_ok cfg idx sw ww hw).1⟩

end Valid

/-! ## `fit` -/

section Fit
variable {C L W : Type}

/-- the state `fit` produces when it does not raise -/
def fitResult (cfg : Cfg L W) (fitFn : Data L W → C) (s : St C L W) (d : Data L W) (sb : Bool) : St C L W :=
  let cur' := if cfg.native then s.cur else some d
  if sb then ⟨some (fitFn d), cur', some (fitFn d), if cfg.native then s.base else cur'⟩
  else ⟨some (fitFn d), cur', s.bclf, s.base⟩

/-- **`fit` is atomic**: when it raises, the object is unchanged. -/
theorem fit_error_unchanged (cfg : Cfg L W) (fitFn : Data L W → C) (s s' : St C L W)
    (idx : List Int) (y : Option (List L)) (sw : Option (List W)) (sb : Bool) (e : Err)
    (h : fit cfg fitFn s idx y sw sb = (s', some e)) : s' = s := by
  unfold fit at h
  split at h
  · injection h with h _; exact h.symm
  split at h
  · injection h with h _; exact h.symm
  split at h
  · injection h with h _; exact h.symm
  split at h
  · injection h with h _; exact h.symm
  simp only at h
  split at h <;> (injection h with _ h; cases h)

theorem fit_ok (cfg : Cfg L W) (fitFn : Data L W → C) (s s' : St C L W)
    (idx : List Int) (y : Option (List L)) (sw : Option (List W)) (sb : Bool)
    (h : fit cfg fitFn s idx y sw sb = (s', none)) :
    ∃ yy ww, checkIdx cfg idx = none ∧ resolveY cfg idx y = .ok yy ∧ resolveSW cfg idx sw = .ok ww ∧
      xIndexOk cfg idx = true ∧ s' = fitResult cfg fitFn s ⟨idx, yy, ww⟩ sb := by
  unfold fit at h
  split at h
  · injection h with _ h; cases h
  rename_i hc
  split at h
  · injection h with _ h; cases h
  rename_i yy hy
  split at h
  · injection h with _ h; cases h
  rename_i ww hw
  split at h
  · injection h with _ h; cases h
  rename_i hx
  refine ⟨yy, ww, hc, hy, hw, by simpa using hx, ?_⟩
  simp only at h
  unfold fitResult
  split at h <;> (injection h with h _; rw [← h]; simp [*])

/-- conversely, validated arguments make `fit` succeed with that result -/
theorem fit_of_valid (cfg : Cfg L W) (fitFn : Data L W → C) (s : St C L W)
    (idx : List Int) (y : Option (List L)) (sw : Option (List W)) (sb : Bool) (yy : List L) (ww : Option (List W))
    (hc : checkIdx cfg idx = none) (hy : resolveY cfg idx y = .ok yy) (hw : resolveSW cfg idx sw = .ok ww)
    (hx : xIndexOk cfg idx = true) :
    fit cfg fitFn s idx y sw sb = (fitResult cfg fitFn s ⟨idx, yy, ww⟩ sb, none) := by
  unfold fit fitResult
  rw [hc]; simp only [hy, hw, hx]
  cases sb <;> simp

end Fit

/-! ## `partial_fit` -/

section Partial
variable {C L W : Type}

/-- a stored training record as every successful call leaves it -/
def Data.Good (cfg : Cfg L W) (d : Data L W) : Prop :=
  d.WF ∧ (cfg.unique = true → d.idx.Nodup) ∧ (∀ i ∈ d.idx, -(cfg.n : Int) ≤ i ∧ i < (cfg.n : Int)) ∧
  (cfg.sw0.isSome = true → d.sw.isSome = true) ∧ d.idx ≠ []

theorem resolved_good (cfg : Cfg L W) (idx : List Int) (y : Option (List L)) (sw : Option (List W))
    (yy : List L) (ww : Option (List W)) (hc : checkIdx cfg idx = none)
    (hy : resolveY cfg idx y = .ok yy) (hw : resolveSW cfg idx sw = .ok ww) (hx : xIndexOk cfg idx = true) :
    (⟨idx, yy, ww⟩ : Data L W).Good cfg := by
  obtain ⟨h1, h2, h3⟩ := checkIdx_none cfg idx hc
  exact ⟨resolved_wf cfg idx y sw yy ww hy hw, h2,
    fun i hi => ⟨(xIndexOk_iff cfg idx).mp hx i hi, h3 i hi⟩, (resolveSW_ok cfg idx sw ww hw).2, h1⟩

/-- re-validating a good record inside `partial_fit`'s closing `self.fit(...)` changes nothing -/
theorem resolve_self (cfg : Cfg L W) (d : Data L W) (hd : d.WF)
    (hs : cfg.sw0.isSome = true → d.sw.isSome = true) :
    resolveY cfg d.idx (some d.y) = .ok d.y ∧ resolveSW cfg d.idx d.sw = .ok d.sw := by
  constructor
  · simp [resolveY, hd.1]
  · unfold resolveSW
    cases hsw : d.sw with
    | none =>
      cases h0 : cfg.sw0 with
      | none => rfl
      | some w0 => rw [h0, hsw] at hs; simp at hs
    | some w => simp [hd.2 w hsw]

theorem merge_idx (u : Bool) (d : Data L W) (idx : List Int) (ay : List L) (aw : Option (List W))
    (d' : Data L W) (h : merge u d idx ay aw = .ok d') :
    d'.idx = maskSel d.idx (keepMask u d.idx idx) ++ idx := by
  simp only [merge] at h
  split at h
  · cases h
  · split at h
    · split at h
      · injection h with h; subst h; rfl
      · cases h
    · split at h
      · cases h
      · split at h
        · injection h with h; subst h; rfl
        · cases h

/-- the index list after the concatenation block has no duplicates in unique mode — whether or not
the block (or the refit after it) raises -/
theorem merged_idx_nodup (d : Data L W) (idx : List Int) (hd : d.idx.Nodup) (hi : idx.Nodup) :
    (maskSel d.idx (keepMask true d.idx idx) ++ idx).Nodup := by
  have hf : maskSel d.idx (keepMask true d.idx idx) = d.idx.filter (fun i => !(idx.contains i)) := by
    unfold keepMask
    have := maskSel_map_self (fun i => !(true && idx.contains i)) d.idx
    simpa using this
  rw [hf, List.nodup_append]
  refine ⟨hd.filter _, hi, ?_⟩
  intro a ha b hb hab
  subst hab
  simp only [List.mem_filter, Bool.not_eq_true', List.contains_eq_mem, decide_eq_false_iff_not] at ha
  exact ha.2 hb

/-- the successful emulated `partial_fit`, spelled out -/
theorem partialEmu_ok (cfg : Cfg L W) (fitFn : Data L W → C) (s s' : St C L W)
    (idx : List Int) (ay : List L) (aw : Option (List W)) (ub sb : Bool)
    (hg : ∀ d, (if ub then s.base else s.cur) = some d → d.Good cfg)
    (ha : (⟨idx, ay, aw⟩ : Data L W).WF)
    (h : partialEmu cfg fitFn s idx ay aw ub sb = (s', none)) :
    ∃ d d', s.cur ≠ none ∧ (if ub then s.base else s.cur) = some d ∧ merge cfg.unique d idx ay aw = .ok d' ∧
      d'.Good cfg ∧ s' = fitResult cfg fitFn ⟨if ub then none else s.clf, s.cur, s.bclf, s.base⟩ d' sb := by
  unfold partialEmu at h
  split at h
  · injection h with _ h; cases h
  rename_i cur0 hcur
  split at h
  · injection h with _ h; cases h
  rename_i d hstart
  have hstart' : (if ub then s.base else s.cur) = some d := by rw [hcur]; exact hstart
  have hgd := hg d hstart'
  split at h
  · injection h with _ h; cases h
  rename_i d' hm
  obtain ⟨hwf', -, -, hsw'⟩ := merge_ok_spec cfg.unique d idx ay aw hgd.1 ha d' hm
  simp only at h
  split at h
  · injection h with _ h; cases h
  rename_i he
  obtain ⟨yy, ww, hc, hy, hw, hx, hs'⟩ := fit_ok cfg fitFn _ s' d'.idx (some d'.y) d'.sw sb
    h
  have hsome : cfg.sw0.isSome = true → d'.sw.isSome = true := by
    intro h0; rw [hsw']; exact hgd.2.2.2.1 h0
  have hself := resolve_self cfg d' hwf' hsome
  rw [hself.1] at hy; rw [hself.2] at hw
  injection hy with hy; injection hw with hw
  subst hy; subst hw
  obtain ⟨h1, h2, h3⟩ := checkIdx_none cfg d'.idx hc
  exact ⟨d, d', by rw [hcur]; simp, hstart', hm,
    ⟨hwf', h2, fun i hi => ⟨(xIndexOk_iff cfg d'.idx).mp hx i hi, h3 i hi⟩, hsome, h1⟩, hs'⟩

theorem validatePartial_ok (cfg : Cfg L W) (s : St C L W) (idx : List Int) (y : Option (List L))
    (sw : Option (List W)) (ub : Bool) (ay : List L) (aw : Option (List W))
    (h : validatePartial cfg s idx y sw ub = .ok (ay, aw)) :
    checkIdx cfg idx = none ∧ (if ub then s.bclf.isNone else s.clf.isNone) = false ∧
      resolveY cfg idx y = .ok ay ∧ resolveSW cfg idx sw = .ok aw := by
  unfold validatePartial at h
  split at h
  · cases h
  rename_i hc
  cases hf : (if ub then s.bclf.isNone else s.clf.isNone) with
  | true => rw [hf] at h; simp at h
  | false =>
    rw [hf] at h
    simp only [Bool.false_eq_true, if_false] at h
    split at h
    · cases h
    rename_i ay' hy
    split at h
    · cases h
    rename_i aw' hw
    injection h with h
    injection h with h1 h2
    subst h1; subst h2
    exact ⟨hc, rfl, hy, hw⟩

/-- **arguments rejected by the validation (and `NotFittedError`) leave the object unchanged** -/
theorem partialFit_rejected_unchanged (cfg : Cfg L W) (fitFn : Data L W → C) (pfitFn : C → Data L W → C)
    (s : St C L W) (idx : List Int) (y : Option (List L)) (sw : Option (List W)) (ub sb : Bool) (e : Err)
    (h : validatePartial cfg s idx y sw ub = .error e) :
    partialFit cfg fitFn pfitFn s idx y sw ub sb = (s, some e) := by
  unfold partialFit; rw [h]

theorem partialFit_valid (cfg : Cfg L W) (fitFn : Data L W → C) (pfitFn : C → Data L W → C)
    (s : St C L W) (idx : List Int) (y : Option (List L)) (sw : Option (List W)) (ub sb : Bool)
    (ay : List L) (aw : Option (List W)) (h : validatePartial cfg s idx y sw ub = .ok (ay, aw)) :
    partialFit cfg fitFn pfitFn s idx y sw ub sb =
      if cfg.native then partialNative cfg pfitFn s idx ay aw ub sb else partialEmu cfg fitFn s idx ay aw ub sb := by
  unfold partialFit; rw [h]

/-- a `partial_fit` that does not raise got through the validation -/
theorem partialFit_ok_valid (cfg : Cfg L W) (fitFn : Data L W → C) (pfitFn : C → Data L W → C)
    (s s' : St C L W) (idx : List Int) (y : Option (List L)) (sw : Option (List W)) (ub sb : Bool)
    (h : partialFit cfg fitFn pfitFn s idx y sw ub sb = (s', none)) :
    ∃ ay aw, validatePartial cfg s idx y sw ub = .ok (ay, aw) := by
  unfold partialFit at h
  split at h
  · injection h with _ h; cases h
  · rename_i ay aw hv; exact ⟨ay, aw, hv⟩

end Partial
end Ska.IW
