import SkaModel.Gen.StreamBM

set_option linter.unusedSectionVars false
set_option linter.unusedSimpArgs false

namespace Ska.StreamGen
open Ska Ska.Budget Ska.PyRt Ska.Gen.BM

section
variable {α : Type} [Add α] [Sub α] [Mul α] [Div α] [LT α] [DecidableLT α] [OfNat α 0] [OfNat α 1] [NatCast α]

def zp (o : ZObj α) : ZParams α := { w := o.w, b := o.budget_, s := o.s, v := o.v, nc := o.nclasses }
def zs (o : ZObj α) : ZState α := { u := o.u_t_, theta := o.theta_, rng := o.rng }
def zput (o : ZObj α) (s : ZState α) : ZObj α := { o with u_t_ := s.u, theta_ := s.theta, rng := s.rng }

omit [Add α] [Sub α] [Mul α] [Div α] [LT α] [DecidableLT α] [OfNat α 0] [OfNat α 1] [NatCast α] in
theorem zput_zs (o : ZObj α) : zput o (zs o) = o := by cases o; rfl

/-- a `for i, x in enumerate(map f xs)` loop that carries `L` refines `simLoop hb` on `xs` -/
theorem foldl_zipIdx_simLoop {L σ ι κ : Type} (body : L → κ × Nat → L) (hb : σ → ι → Bool × σ) (f : ι → κ)
    (proj : L → σ) (q : L → List Nat)
    (hproj : ∀ l x i, proj (body l (f x, i)) = (hb (proj l) x).2)
    (hq : ∀ l x i, q (body l (f x, i)) = if (hb (proj l) x).1 then q l ++ [i] else q l) :
    ∀ (xs : List ι) (l : L) (k : Nat),
      proj (((xs.map f).zipIdx k).foldl body l) = (simLoop hb (proj l) xs).2 ∧
      q (((xs.map f).zipIdx k).foldl body l) = q l ++ idxOf (simLoop hb (proj l) xs).1 k := by
  intro xs
  induction xs with
  | nil => intro l k; simp [simLoop, idxOf]
  | cons x xs ih =>
    intro l k
    simp only [List.map_cons, List.zipIdx_cons, List.foldl_cons, simLoop, idxOf]
    have h := ih (body l (f x, k)) (k + 1)
    rw [hproj, hq] at h
    refine ⟨h.1, ?_⟩
    rw [h.2]
    split <;> simp

/-- the same with an invariant `P` of the loop-carried tuple (e.g. "`self` is the object we started with up to
its generator") -/
theorem foldl_zipIdx_simLoop_inv {L σ ι κ : Type} (body : L → κ × Nat → L) (hb : σ → ι → Bool × σ) (f : ι → κ)
    (proj : L → σ) (q : L → List Nat) (P : L → Prop)
    (hP : ∀ l x i, P l → P (body l (f x, i)))
    (hproj : ∀ l x i, P l → proj (body l (f x, i)) = (hb (proj l) x).2)
    (hq : ∀ l x i, P l → q (body l (f x, i)) = if (hb (proj l) x).1 then q l ++ [i] else q l) :
    ∀ (xs : List ι) (l : L) (k : Nat), P l →
      P (((xs.map f).zipIdx k).foldl body l) ∧
      proj (((xs.map f).zipIdx k).foldl body l) = (simLoop hb (proj l) xs).2 ∧
      q (((xs.map f).zipIdx k).foldl body l) = q l ++ idxOf (simLoop hb (proj l) xs).1 k := by
  intro xs
  induction xs with
  | nil => intro l k hl; simp [simLoop, idxOf, hl]
  | cons x xs ih =>
    intro l k hl
    simp only [List.map_cons, List.zipIdx_cons, List.foldl_cons, simLoop, idxOf]
    have h := ih (body l (f x, k)) (k + 1) (hP l x k hl)
    rw [hproj l x k hl, hq l x k hl] at h
    refine ⟨h.1, h.2.1, ?_⟩
    rw [h.2.2]
    split <;> simp

omit [Add α] [Sub α] [Mul α] [Div α] [LT α] [DecidableLT α] [OfNat α 0] [OfNat α 1] [NatCast α] in
theorem lastB_append (xs : List Bool) (b : Bool) : lastB (xs ++ [b]) = b := by
  simp [lastB]

theorem fixed_query_eq (nrm uni : Nat → α) (qf) (o : ZObj α) (us : List (Option α)) :
    FixedUncertaintyBudgetManager.query_by_utility nrm uni qf o us
      = ((fixedQuery (zp o) (zs o) us).1, zput o (fixedQuery (zp o) (zs o) us).2) := by
  have h := foldl_zipIdx_simLoop
    (FixedUncertaintyBudgetManager.query_by_utility.loop1 nrm uni qf o)
    (fixedBody (zp o)) (fun u => leO (conf u) (1 / o.nclasses + o.budget_ * (1 - 1 / o.nclasses)))
    (fun l => ({ u := l.2.1, theta := o.theta_, rng := o.rng } : ZState α)) (fun l => l.2.2)
    (by
      intro l x i
      obtain ⟨bl, u, q⟩ := l
      simp only [FixedUncertaintyBudgetManager.query_by_utility.loop1, lastB_append, fixedBody, fixedTheta, zp, budgetLeft, nextU, b2f]
      by_cases h1 : u / o.w < o.budget_ <;> simp [h1])
    (by
      intro l x i
      obtain ⟨bl, u, q⟩ := l
      simp only [FixedUncertaintyBudgetManager.query_by_utility.loop1, lastB_append, fixedBody, fixedTheta, zp, budgetLeft, nextU, b2f]
      by_cases h1 : u / o.w < o.budget_ <;> simp [h1])
    us ([], o.u_t_, []) 0
  obtain ⟨h1, h2⟩ := h
  simp only [FixedUncertaintyBudgetManager.query_by_utility, fixedQuery, zQuery, List.map_map, zs, zput]
  simp only [Function.comp_def] 
  rw [h2]
  cases o; simp [zs]

/-! ### `EstimatedBudgetZliobaite.update`, `FixedUncertaintyBudgetManager.update` -/

theorem est_loop_foldl (nrm uni : Nat → α) (qf) (bits : List Bool) (o : ZObj α) :
    bits.foldl (EstimatedBudgetZliobaite.update.loop1 nrm uni qf) o
      = { o with u_t_ := uPass o.w o.u_t_ bits } := by
  induction bits generalizing o with
  | nil => simp [uPass]
  | cons b bs ih =>
    simp only [List.foldl_cons, ih, uPass, EstimatedBudgetZliobaite.update.loop1, nextU, b2f]

theorem est_update_eq (nrm uni : Nat → α) (qf) (o : ZObj α) (n : Nat) (idx : List Nat) :
    EstimatedBudgetZliobaite.update nrm uni qf o n idx = (fixedUpdate (zp o) (zs o) n idx).map (zput o) := by
  simp only [EstimatedBudgetZliobaite.update, fixedUpdate, est_loop_foldl]
  cases bitsOf n idx <;> simp [Except.map, zput, zs, zp]

theorem fixed_update_eq (nrm uni : Nat → α) (qf) (o : ZObj α) (n : Nat) (idx : List Nat) :
    FixedUncertaintyBudgetManager.update nrm uni qf o n idx = (fixedUpdate (zp o) (zs o) n idx).map (zput o) := by
  simp only [FixedUncertaintyBudgetManager.update, est_update_eq]
  cases (fixedUpdate (zp o) (zs o) n idx) <;> simp [Except.map]

/-! ### `VariableUncertaintyBudgetManager` -/

theorem var_query_eq (nrm uni : Nat → α) (qf) (o : ZObj α) (us : List (Option α)) :
    VariableUncertaintyBudgetManager.query_by_utility nrm uni qf o us
      = ((varQuery (zp o) (zs o) us).1, zput o (varQuery (zp o) (zs o) us).2) := by
  have h := foldl_zipIdx_simLoop
    (VariableUncertaintyBudgetManager.query_by_utility.loop1 nrm uni qf o)
    (varBody (zp o)) conf
    (fun l => ({ u := l.2.2.2, theta := l.2.1, rng := o.rng } : ZState α)) (fun l => l.2.2.1)
    (by
      intro l x i
      obtain ⟨bl, th, q, u⟩ := l
      simp only [VariableUncertaintyBudgetManager.query_by_utility.loop1, lastB_append, varBody, zp, budgetLeft, nextU, b2f, scale]
      by_cases h1 : u / o.w < o.budget_ <;> simp [h1]
      by_cases h2 : ltO (conf x) th <;> simp [h2])
    (by
      intro l x i
      obtain ⟨bl, th, q, u⟩ := l
      simp only [VariableUncertaintyBudgetManager.query_by_utility.loop1, lastB_append, varBody, zp, budgetLeft, nextU, b2f, scale]
      by_cases h1 : u / o.w < o.budget_ <;> simp [h1]
      by_cases h2 : ltO (conf x) th <;> simp [h2])
    us ([], o.theta_, [], o.u_t_) 0
  obtain ⟨h1, h2⟩ := h
  simp only [VariableUncertaintyBudgetManager.query_by_utility, varQuery, zQuery, zs, zput]
  rw [h2]
  cases o; simp

theorem var_update_loop (nrm uni : Nat → α) (qf) (bits : List Bool) (o : ZObj α) (tu : α) (k : Nat) :
    (bits.zipIdx k).foldl (VariableUncertaintyBudgetManager.update.loop1 nrm uni qf) (o, tu)
      = ({ o with theta_ := thetaPass (zp o) tu o.theta_ bits }, uPass o.w tu bits) := by
  induction bits generalizing o tu k with
  | nil => simp [thetaPass, uPass]
  | cons b bs ih =>
    simp only [List.zipIdx_cons, List.foldl_cons, VariableUncertaintyBudgetManager.update.loop1]
    rw [ih]
    simp only [thetaPass, uPass, zp, budgetLeft, nextU, b2f, scale]
    by_cases h1 : tu / o.w < o.budget_ <;> simp [h1]
    cases b <;> simp

theorem var_update_eq (nrm uni : Nat → α) (qf) (o : ZObj α) (n : Nat) (idx : List Nat) :
    VariableUncertaintyBudgetManager.update nrm uni qf o n idx = (varUpdate (zp o) (zs o) n idx).map (zput o) := by
  simp only [VariableUncertaintyBudgetManager.update, varUpdate, var_update_loop, est_update_eq, fixedUpdate]
  cases bitsOf n idx <;> simp [Except.map, zput, zs, zp]

/-! ### `RandomVariableUncertaintyBudgetManager` -/

theorem randvar_query_eq (nrm uni : Nat → α) (qf) (o : ZObj α) (us : List (Option α)) :
    RandomVariableUncertaintyBudgetManager.query_by_utility nrm uni qf o us
      = ((randVarQuery (zp o) nrm (zs o) us).1, zput o (randVarQuery (zp o) nrm (zs o) us).2) := by
  have h := foldl_zipIdx_simLoop_inv
    (RandomVariableUncertaintyBudgetManager.query_by_utility.loop1 nrm uni qf)
    (randVarBody (zp o) nrm) conf
    (fun l => ({ u := l.2.2.2.2, theta := l.2.2.1, rng := l.2.1.rng } : ZState α)) (fun l => l.2.2.2.1)
    (fun l => ∃ r, l.2.1 = { o with rng := r })
    (by
      intro l x i hl
      obtain ⟨bl, self, th, q, u⟩ := l
      obtain ⟨r, rfl⟩ := hl
      simp only [RandomVariableUncertaintyBudgetManager.query_by_utility.loop1, lastB_append]
      by_cases h1 : u / o.w < o.budget_ <;> simp [h1])
    (by
      intro l x i hl
      obtain ⟨bl, self, th, q, u⟩ := l
      obtain ⟨r, rfl⟩ := hl
      simp only [RandomVariableUncertaintyBudgetManager.query_by_utility.loop1, lastB_append, randVarBody, zp, budgetLeft, nextU, b2f, scale]
      by_cases h1 : u / o.w < o.budget_ <;> simp [h1]
      by_cases h2 : ltO (conf x) (th * nrm r) <;> simp [h2])
    (by
      intro l x i hl
      obtain ⟨bl, self, th, q, u⟩ := l
      obtain ⟨r, rfl⟩ := hl
      simp only [RandomVariableUncertaintyBudgetManager.query_by_utility.loop1, lastB_append, randVarBody, zp, budgetLeft, nextU, b2f, scale]
      by_cases h1 : u / o.w < o.budget_ <;> simp [h1]
      by_cases h2 : ltO (conf x) (th * nrm r) <;> simp [h2])
    us ([], o, o.theta_, [], o.u_t_) 0 ⟨o.rng, rfl⟩
  obtain ⟨⟨r, h0⟩, h1, h2⟩ := h
  simp only [RandomVariableUncertaintyBudgetManager.query_by_utility, randVarQuery, zQuery, zs, zput]
  rw [h2, h0]
  cases o; simp

theorem randvar_update_loop (nrm uni : Nat → α) (qf) (bits : List Bool) (o : ZObj α) (tu : α) :
    bits.foldl (RandomVariableUncertaintyBudgetManager.update.loop1 nrm uni qf) (o, tu)
      = ({ o with theta_ := thetaPass (zp o) tu o.theta_ bits }, uPass o.w tu bits) := by
  induction bits generalizing o tu with
  | nil => simp [thetaPass, uPass]
  | cons b bs ih =>
    simp only [List.foldl_cons, RandomVariableUncertaintyBudgetManager.update.loop1]
    rw [ih]
    simp only [thetaPass, uPass, zp, budgetLeft, nextU, b2f, scale]
    by_cases h1 : tu / o.w < o.budget_ <;> simp [h1]
    cases b <;> simp

theorem randvar_update_eq (nrm uni : Nat → α) (qf) (o : ZObj α) (n : Nat) (idx : List Nat) :
    RandomVariableUncertaintyBudgetManager.update nrm uni qf o n idx
      = (randVarUpdate (zp o) (zs o) n idx).map (zput o) := by
  simp only [RandomVariableUncertaintyBudgetManager.update, randVarUpdate, randvar_update_loop, est_update_eq,
    fixedUpdate]
  cases bitsOf n idx <;> simp [Except.map, zput, zs, zp]

/-! ### `SplitBudgetManager` -/

theorem split_query_eq (nrm uni : Nat → α) (qf) (o : ZObj α) (us : List (Option α)) :
    SplitBudgetManager.query_by_utility nrm uni qf o us
      = ((splitQuery (zp o) uni (zs o) us).1, zput o (splitQuery (zp o) uni (zs o) us).2) := by
  have h := foldl_zipIdx_simLoop_inv
    (SplitBudgetManager.query_by_utility.loop1 nrm uni qf)
    (splitBody (zp o) uni) conf
    (fun l => ({ u := l.2.2.2.2, theta := l.2.2.1, rng := l.2.1.rng } : ZState α)) (fun l => l.2.2.2.1)
    (fun l => ∃ r, l.2.1 = { o with rng := r })
    (by
      intro l x i hl
      obtain ⟨bl, self, th, q, u⟩ := l
      obtain ⟨r, rfl⟩ := hl
      simp only [SplitBudgetManager.query_by_utility.loop1, lastB_append]
      by_cases h1 : u / o.w < o.budget_ <;> simp [h1]
      by_cases h3 : uni r < o.v <;> simp [h3])
    (by
      intro l x i hl
      obtain ⟨bl, self, th, q, u⟩ := l
      obtain ⟨r, rfl⟩ := hl
      simp only [SplitBudgetManager.query_by_utility.loop1, lastB_append, splitBody, zp, budgetLeft, nextU, b2f, scale]
      by_cases h1 : u / o.w < o.budget_ <;> simp [h1]
      by_cases h3 : uni r < o.v <;> simp [h3]
      · by_cases h4 : leB (uni (r + 1)) o.budget_ <;> simp [h4]
      · by_cases h2 : ltO (conf x) th <;> simp [h2])
    (by
      intro l x i hl
      obtain ⟨bl, self, th, q, u⟩ := l
      obtain ⟨r, rfl⟩ := hl
      simp only [SplitBudgetManager.query_by_utility.loop1, lastB_append, splitBody, zp, budgetLeft, nextU, b2f, scale]
      by_cases h1 : u / o.w < o.budget_ <;> simp [h1]
      by_cases h3 : uni r < o.v <;> simp [h3])
    us ([], o, o.theta_, [], o.u_t_) 0 ⟨o.rng, rfl⟩
  obtain ⟨⟨r, h0⟩, h1, h2⟩ := h
  simp only [SplitBudgetManager.query_by_utility, splitQuery, zQuery, zs, zput]
  rw [h2, h0]
  cases o; simp

omit [Add α] [Sub α] [Mul α] [Div α] [LT α] [DecidableLT α] [OfNat α 0] [OfNat α 1] [NatCast α] in
theorem bitsOf_one (q : Bool) : bitsOf 1 (if q then [0] else []) = .ok [q] := by
  cases q <;> rfl

omit [Add α] [Sub α] [Mul α] [Div α] [LT α] [DecidableLT α] [OfNat α 0] [OfNat α 1] [NatCast α] in
theorem zp_zput (o : ZObj α) (s : ZState α) : zp (zput o s) = zp o := rfl
omit [Add α] [Sub α] [Mul α] [Div α] [LT α] [DecidableLT α] [OfNat α 0] [OfNat α 1] [NatCast α] in
theorem zs_zput (o : ZObj α) (s : ZState α) : zs (zput o s) = s := rfl
omit [Add α] [Sub α] [Mul α] [Div α] [LT α] [DecidableLT α] [OfNat α 0] [OfNat α 1] [NatCast α] in
theorem zput_zput (o : ZObj α) (s s' : ZState α) : zput (zput o s) s' = zput o s' := rfl

theorem split_update_step (nrm uni : Nat → α) (qf) (o : ZObj α) (q : Bool) :
    SplitBudgetManager.update.loop1 nrm uni qf o q = .ok (zput o (splitUBody (zp o) uni (zs o) q)) := by
  simp only [SplitBudgetManager.update.loop1, est_update_eq, fixedUpdate, bitsOf_one, splitUBody, zp, zs, zput,
    budgetLeft, uPass, nextU, scale, Except.map]
  by_cases h1 : o.u_t_ / o.w < o.budget_ <;> simp [h1]
  by_cases h3 : uni o.rng < o.v <;> simp [h3]
  cases q <;> simp

theorem split_update_loop (nrm uni : Nat → α) (qf) (bits : List Bool) (o : ZObj α) :
    bits.foldlM (SplitBudgetManager.update.loop1 nrm uni qf) o
      = .ok (zput o (bits.foldl (splitUBody (zp o) uni) (zs o))) := by
  induction bits generalizing o with
  | nil => simp [zput_zs]; rfl
  | cons b bs ih =>
    simp only [List.foldlM_cons, List.foldl_cons, split_update_step]
    show bs.foldlM _ _ = _
    rw [ih, zp_zput, zs_zput, zput_zput]

theorem split_update_eq (nrm uni : Nat → α) (qf) (o : ZObj α) (n : Nat) (idx : List Nat) :
    SplitBudgetManager.update nrm uni qf o n idx = (splitUpdate (zp o) uni (zs o) n idx).map (zput o) := by
  simp only [SplitBudgetManager.update, splitUpdate, split_update_loop]
  cases bitsOf n idx <;> simp [Except.map]

/-! ### `RandomBudgetManager` -/

omit [Add α] [Sub α] [Mul α] [Div α] [LT α] [DecidableLT α] [OfNat α 0] [OfNat α 1] [NatCast α] in
theorem getD_append_length {β : Type} (pre : List β) (x : β) (xs : List β) (d : β) :
    (pre ++ x :: xs).getD pre.length d = x := by
  simp [List.getD]

theorem random_query_loop (nrm uni : Nat → α) (qf) (o : ZObj α) (th : α) (xs : List (Option α)) :
    ∀ (pre : List (Option α)) (c : Nat) (u : α) (q : List Nat),
    ((((List.range xs.length).map (fun k => uni (c + k))).map (fun d => leB d o.budget_)).zipIdx pre.length).foldl
        (RandomBudgetManager.query_by_utility.loop1 nrm uni qf o (pre ++ xs)) (u, q)
      = ((simLoop (randomBody (zp o) uni) { u := u, theta := th, rng := c } xs).2.u,
         q ++ idxOf (simLoop (randomBody (zp o) uni) { u := u, theta := th, rng := c } xs).1 pre.length) := by
  induction xs with
  | nil => intro pre c u q; simp [simLoop, idxOf]
  | cons x xs ih =>
    intro pre c u q
    have h := ih (pre ++ [x]) (c + 1)
    simp only [List.append_assoc, List.singleton_append, List.length_append, List.length_cons, List.length_nil,
      Nat.zero_add] at h
    simp only [List.length_cons, List.range_succ_eq_map, List.map_cons, List.map_map, List.zipIdx_cons,
      List.foldl_cons, simLoop, idxOf]
    have hf : ((fun d => leB d o.budget_) ∘ (fun k => uni (c + k)) ∘ Nat.succ)
        = ((fun d => leB d o.budget_) ∘ fun k => uni (c + 1 + k)) := by
      funext k
      simp only [Function.comp, Nat.succ_eq_add_one]
      rw [Nat.add_assoc, Nat.add_comm 1 k]
    rw [hf, ← List.map_map]
    simp only [RandomBudgetManager.query_by_utility.loop1, getD_append_length]
    rw [h]
    simp only [randomBody, zp, budgetLeft, nextU, b2f, Nat.add_zero]
    by_cases h1 : u / o.w < o.budget_ <;> simp [h1]
    · cases x <;> simp
      by_cases h2 : leB (uni c) o.budget_ <;> simp [h2]

theorem random_query_eq (nrm uni : Nat → α) (qf) (o : ZObj α) (us : List (Option α)) :
    RandomBudgetManager.query_by_utility nrm uni qf o us
      = ((randomQuery (zp o) uni (zs o) us).1, zput o (randomQuery (zp o) uni (zs o) us).2) := by
  have h := random_query_loop nrm uni qf { o with rng := o.rng + us.length } o.theta_ us [] o.rng o.u_t_ []
  simp only [List.nil_append, List.length_nil] at h
  simp only [RandomBudgetManager.query_by_utility, randomQuery, zQuery, zs, zput, List.length_map]
  rw [h]
  cases o; simp [zp]

theorem random_update_eq (nrm uni : Nat → α) (qf) (o : ZObj α) (n : Nat) (idx : List Nat) :
    RandomBudgetManager.update nrm uni qf o n idx = (randomUpdate (zp o) (zs o) n idx).map (zput o) := by
  simp only [RandomBudgetManager.update, randomUpdate, est_update_eq, fixedUpdate]
  cases bitsOf n idx <;> simp [Except.map, zput, zs, zp]


/-! ### `DensityBasedSplitBudgetManager` -/

def dp (o : DObj α) : DParams α := { b := o.budget_, s := o.s }
def ds (o : DObj α) : DState α := { u := o.u_, t := o.t_, theta := o.theta_, rng := o.rng }
def dput (o : DObj α) (s : DState α) : DObj α := { o with u_ := s.u, t_ := s.t, theta_ := s.theta, rng := s.rng }

theorem db_query_eq (nrm uni : Nat → α) (qf) (o : DObj α) (us : List (Option α)) :
    DensityBasedSplitBudgetManager.query_by_utility nrm uni qf o us
      = ((dbQuery (dp o) nrm (ds o) us).1, dput o (dbQuery (dp o) nrm (ds o) us).2) := by
  have h := foldl_zipIdx_simLoop_inv
    (DensityBasedSplitBudgetManager.query_by_utility.loop1 nrm uni qf)
    (dbBody (dp o) nrm) conf
    (fun l => ({ u := l.2.2.2.2, t := l.1, theta := l.2.2.1, rng := l.2.1.rng } : DState α)) (fun l => l.2.2.2.1)
    (fun l => ∃ r, l.2.1 = { o with rng := r })
    (by
      intro l x i hl
      obtain ⟨t, self, th, q, u⟩ := l
      obtain ⟨r, rfl⟩ := hl
      simp only [DensityBasedSplitBudgetManager.query_by_utility.loop1]
      by_cases h1 : (u : α) / ((t + 1 : Nat) : α) < o.budget_ <;> simp [h1])
    (by
      intro l x i hl
      obtain ⟨t, self, th, q, u⟩ := l
      obtain ⟨r, rfl⟩ := hl
      simp only [DensityBasedSplitBudgetManager.query_by_utility.loop1, dbBody, dbLeft, dp, b2n, scale]
      by_cases h1 : (u : α) / ((t + 1 : Nat) : α) < o.budget_ <;> simp [h1]
      by_cases h2 : ltO (conf x) (th * nrm r) <;> simp [h2])
    (by
      intro l x i hl
      obtain ⟨t, self, th, q, u⟩ := l
      obtain ⟨r, rfl⟩ := hl
      simp only [DensityBasedSplitBudgetManager.query_by_utility.loop1, dbBody, dbLeft, dp, b2n, scale]
      by_cases h1 : (u : α) / ((t + 1 : Nat) : α) < o.budget_ <;> simp [h1]
      by_cases h2 : ltO (conf x) (th * nrm r) <;> simp [h2])
    us (o.t_, o, o.theta_, [], o.u_) 0 ⟨o.rng, rfl⟩
  obtain ⟨⟨r, h0⟩, h1, h2⟩ := h
  simp only [DensityBasedSplitBudgetManager.query_by_utility, dbQuery, ds, dput]
  rw [h2, h0]
  cases o; simp

omit [Add α] [Sub α] [Mul α] [Div α] [LT α] [DecidableLT α] [OfNat α 0] [OfNat α 1] [NatCast α] in
theorem dput_ds (o : DObj α) : dput o (ds o) = o := by cases o; rfl
omit [Add α] [Sub α] [Mul α] [Div α] [LT α] [DecidableLT α] [OfNat α 0] [OfNat α 1] [NatCast α] in
theorem dp_dput (o : DObj α) (s : DState α) : dp (dput o s) = dp o := rfl
omit [Add α] [Sub α] [Mul α] [Div α] [LT α] [DecidableLT α] [OfNat α 0] [OfNat α 1] [NatCast α] in
theorem ds_dput (o : DObj α) (s : DState α) : ds (dput o s) = s := rfl
omit [Add α] [Sub α] [Mul α] [Div α] [LT α] [DecidableLT α] [OfNat α 0] [OfNat α 1] [NatCast α] in
theorem dput_dput (o : DObj α) (s s' : DState α) : dput (dput o s) s' = dput o s' := rfl

theorem db_update_step (nrm uni : Nat → α) (qf) (o : DObj α) (b : Bool) :
    DensityBasedSplitBudgetManager.update.loop1 nrm uni qf o b = dput o (dbUBody (dp o) (ds o) b) := by
  simp only [DensityBasedSplitBudgetManager.update.loop1, dbUBody, dbLeft, dp, ds, dput, b2n, scale]
  by_cases h1 : (o.u_ : α) / ((o.t_ + 1 : Nat) : α) < o.budget_ <;> simp [h1]
  cases b <;> simp

theorem db_update_loop (nrm uni : Nat → α) (qf) (bits : List Bool) (o : DObj α) :
    bits.foldl (DensityBasedSplitBudgetManager.update.loop1 nrm uni qf) o
      = dput o (bits.foldl (dbUBody (dp o)) (ds o)) := by
  induction bits generalizing o with
  | nil => simp [dput_ds]
  | cons b bs ih =>
    simp only [List.foldl_cons, db_update_step]
    rw [ih, dp_dput, ds_dput, dput_dput]

theorem db_update_eq (nrm uni : Nat → α) (qf) (o : DObj α) (n : Nat) (idx : List Nat) :
    DensityBasedSplitBudgetManager.update nrm uni qf o n idx = (dbUpdate (dp o) (ds o) n idx).map (dput o) := by
  simp only [DensityBasedSplitBudgetManager.update, dbUpdate, db_update_loop]
  cases bitsOf n idx <;> simp [Except.map, dput, ds, dp]

/-! ### `StreamRandomSampling`, `PeriodicSampling` -/

def cs (o : CObj α) : CState := { obs := o.observed_samples_, qd := o.queried_samples_, rng := o.rng }
def cput (o : CObj α) (s : CState) : CObj α :=
  { o with observed_samples_ := s.obs, queried_samples_ := s.qd, rng := s.rng }

omit [Add α] [Sub α] [Mul α] [Div α] [LT α] [DecidableLT α] [OfNat α 0] [OfNat α 1] [NatCast α] in
theorem set_append_length {β : Type} (pre : List β) (x : β) (xs : List β) (v : β) :
    (pre ++ x :: xs).set pre.length v = pre ++ v :: xs := by
  simp [List.set_append]

omit [Add α] [Sub α] [Mul α] [Div α] [LT α] [DecidableLT α] [OfNat α 0] [OfNat α 1] [NatCast α] in
theorem range_map_draws (uni : Nat → α) (n : Nat) : ∀ c, (List.range n).map (fun k => uni (c + k)) = draws uni c n := by
  induction n with
  | zero => intro c; simp [draws]
  | succ n ih =>
    intro c
    simp only [List.range_succ_eq_map, List.map_cons, List.map_map, draws, Nat.add_zero]
    rw [← ih (c + 1)]
    congr 2
    funext k
    simp only [Function.comp, Nat.succ_eq_add_one]
    rw [Nat.add_assoc, Nat.add_comm 1 k]

theorem srs_query_loop (nrm uni : Nat → α) (qf) (o : CObj α) (c : Nat) (xs : List α) :
    ∀ (pre : List Bool) (obs qd : Nat),
      (xs.zipIdx pre.length).foldl (StreamRandomSampling.query.loop1 nrm uni qf o)
          (obs, pre ++ List.replicate xs.length false, qd)
        = ((simLoop (srsBody o.allow_exceeding_budget o.budget_) { obs := obs, qd := qd, rng := c } xs).2.obs,
           pre ++ (simLoop (srsBody o.allow_exceeding_budget o.budget_) { obs := obs, qd := qd, rng := c } xs).1,
           (simLoop (srsBody o.allow_exceeding_budget o.budget_) { obs := obs, qd := qd, rng := c } xs).2.qd) := by
  induction xs with
  | nil => intro pre obs qd; simp [simLoop]
  | cons x xs ih =>
    intro pre obs qd
    have h := ih (pre ++ [(o.allow_exceeding_budget || decide ((1:α) < ((obs + 1 : Nat) : α) * o.budget_ - (qd : α))) && leB (1 - o.budget_) x])
    simp only [List.append_assoc, List.singleton_append, List.length_append, List.length_cons, List.length_nil,
      Nat.zero_add] at h
    simp only [List.length_cons, List.replicate_succ, List.zipIdx_cons, List.foldl_cons, simLoop,
      StreamRandomSampling.query.loop1, set_append_length, getD_append_length]
    rw [h]
    simp only [srsBody, b2n]

theorem srs_query_eq (nrm uni : Nat → α) (qf) (o : CObj α) (n : Nat) :
    StreamRandomSampling.query nrm uni qf o n
      = ((srsQuery o.allow_exceeding_budget o.budget_ uni (cs o) n).1,
         cput o (srsQuery o.allow_exceeding_budget o.budget_ uni (cs o) n).2) := by
  have h := srs_query_loop nrm uni qf { o with rng := o.rng } o.rng (draws uni o.rng n) []
    o.observed_samples_ o.queried_samples_
  simp only [List.nil_append, List.length_nil] at h
  simp only [StreamRandomSampling.query, srsQuery, cs, cput, range_map_draws]
  rw [h]


theorem srs_update_eq (nrm uni : Nat → α) (qf) (o : CObj α) (n : Nat) (idx : List Nat) :
    StreamRandomSampling.update nrm uni qf o n idx = (srsUpdate (cs o) n idx).map (cput o) := by
  simp only [StreamRandomSampling.update, srsUpdate]
  cases bitsOf n idx <;> simp [Except.map, cput, cs]

theorem per_update_eq (nrm uni : Nat → α) (qf) (o : CObj α) (n : Nat) (idx : List Nat) :
    PeriodicSampling.update nrm uni qf o n idx = (perUpdate (cs o) n idx).map (cput o) := by
  simp only [PeriodicSampling.update, perUpdate]
  cases bitsOf n idx <;> simp [Except.map, cput, cs]

omit [Add α] [Sub α] [Mul α] [Div α] [LT α] [DecidableLT α] [OfNat α 0] [OfNat α 1] [NatCast α] in
theorem set_map_append_length {β γ : Type} (g : γ → β) (pre : List γ) (x : β) (xs : List β) (v : β) :
    (pre.map g ++ x :: xs).set pre.length v = pre.map g ++ v :: xs := by
  simp [List.set_append]

theorem per_query_loop (nrm uni : Nat → α) (qf) (o : CObj α) (c : Nat) (m : Nat) :
    ∀ (pre : List Bool) (obs qd : Nat),
      ((List.replicate m ()).zipIdx pre.length).foldl (PeriodicSampling.query.loop1 nrm uni qf o)
          (obs, pre ++ List.replicate m false,
            pre.map (fun q => if q then (1 : α) else 0) ++ List.replicate m (0 : α), qd)
        = ((simLoop (perBody o.budget_) { obs := obs, qd := qd, rng := c } (List.replicate m ())).2.obs,
           pre ++ (simLoop (perBody o.budget_) { obs := obs, qd := qd, rng := c } (List.replicate m ())).1,
           (pre ++ (simLoop (perBody o.budget_) { obs := obs, qd := qd, rng := c } (List.replicate m ())).1).map
              (fun q => if q then (1 : α) else 0),
           (simLoop (perBody o.budget_) { obs := obs, qd := qd, rng := c } (List.replicate m ())).2.qd) := by
  induction m with
  | zero => intro pre obs qd; simp [simLoop]
  | succ m ih =>
    intro pre obs qd
    have h := ih (pre ++ [leB (1 : α) (((obs + 1 : Nat) : α) * o.budget_ - (qd : α))])
    simp only [List.append_assoc, List.singleton_append, List.length_append, List.length_cons, List.length_nil,
      Nat.zero_add, List.map_append, List.map_cons, List.map_nil] at h
    simp only [List.replicate_succ, List.zipIdx_cons, List.foldl_cons, simLoop,
      PeriodicSampling.query.loop1, set_append_length, getD_append_length, set_map_append_length, perBody, b2n,
      List.map_append, List.map_cons]
    generalize leB (1 : α) (((obs + 1 : Nat) : α) * o.budget_ - (qd : α)) = v at h ⊢
    cases v
    · exact h _ _
    · exact h _ _

theorem per_query_eq (nrm uni : Nat → α) (qf) (o : CObj α) (n : Nat) :
    PeriodicSampling.query nrm uni qf o n
      = ((perQuery o.budget_ (cs o) n).1, cput o (perQuery o.budget_ (cs o) n).2) := by
  have h := per_query_loop nrm uni qf o o.rng n [] o.observed_samples_ o.queried_samples_
  simp only [List.nil_append, List.length_nil, List.map_nil] at h
  simp only [PeriodicSampling.query, perQuery, cs, cput]
  rw [h]


/-! ### `BalancedIncrementalQuantileFilter` -/

def qp (o : QObj α) : QParams α := { w := o.w, wtol := o.w_tol, b := o.budget_ }
def qs (o : QObj α) : QState α := { obs := o.observed_samples_, qd := o.queried_samples_, hist := o.history_sorted_ }
def qput (o : QObj α) (s : QState α) : QObj α :=
  { o with observed_samples_ := s.obs, queried_samples_ := s.qd, history_sorted_ := s.hist }

theorem subO_maxO_minO (h : List (Option α)) : subO (maxO h) (minO h) = rangeO h := by
  simp only [maxO, minO, rangeO]
  cases allSome h with
  | none => rfl
  | some l => cases l <;> rfl

theorem biqf_sample_eq (b wtol : α) (obs qd : Nat) (qf : List (Option α) → Option α) (h : List (Option α))
    (x : Option α) :
    leOO (subO (qf h) (mulO (subO (maxO h) (minO h)) (some ((b * (obs : α) - (qd : α)) / wtol)))) x
      = (match x, qf h, rangeO h with
         | some u, some th, some rg => leB (th - rg * ((b * (obs : α) - (qd : α)) / wtol)) u
         | _, _, _ => false) := by
  rw [subO_maxO_minO]
  cases x <;> cases qf h <;> cases rangeO h <;> simp [leOO, subO, mulO]

theorem biqf_query_eq (nrm uni : Nat → α) (qf) (o : QObj α) (us : List (Option α)) :
    BalancedIncrementalQuantileFilter.query_by_utility nrm uni qf o us
      = ((biqfQuery (qp o) qf (qs o) us).1, qput o (biqfQuery (qp o) qf (qs o) us).2) := by
  have h := foldl_zipIdx_simLoop
    (BalancedIncrementalQuantileFilter.query_by_utility.loop1 nrm uni qf o)
    (biqfBody (qp o) qf) id
    (fun l => ({ obs := l.1, qd := l.2.2.1, hist := l.2.1 } : QState α)) (fun l => l.2.2.2)
    (by
      intro l x i
      obtain ⟨obs, hist, qd, q⟩ := l
      simp only [BalancedIncrementalQuantileFilter.query_by_utility.loop1, biqfBody, qp, id, biqf_sample_eq]
      split <;> simp [*] <;> split <;> simp [*])
    (by
      intro l x i
      obtain ⟨obs, hist, qd, q⟩ := l
      simp only [BalancedIncrementalQuantileFilter.query_by_utility.loop1, biqfBody, qp, id, biqf_sample_eq]
      split <;> simp [*] <;> split <;> simp [*])
    us (o.observed_samples_, o.history_sorted_, o.queried_samples_, []) 0
  obtain ⟨h1, h2⟩ := h
  simp only [List.map_id] at h2
  simp only [BalancedIncrementalQuantileFilter.query_by_utility, biqfQuery, qs, qput]
  rw [h2]
  cases o; simp

theorem biqf_update_eq (nrm uni : Nat → α) (qf) (o : QObj α) (n : Nat) (idx : List Nat) (us : List (Option α)) :
    BalancedIncrementalQuantileFilter.update nrm uni qf o n idx us
      = (biqfUpdate (qp o) (qs o) n idx us).map (qput o) := by
  simp only [BalancedIncrementalQuantileFilter.update, biqfUpdate]
  cases bitsOf n idx <;> simp [Except.map, qput, qs, qp]

end
end Ska.StreamGen
