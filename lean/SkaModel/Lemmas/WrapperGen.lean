import SkaModel.Gen.WrapperGen
import SkaModel.Lemmas.IndexWrapper

/-! Bridging lemmas: the block translated from the current source of `IndexClassifierWrapper.partial_fit`
(`Gen/WrapperGen.lean`) computes exactly `Ska.IW.merge`, for all inputs. -/

namespace Ska.Gen.IW
open Ska Ska.IW Ska.PyIW

variable {C L W : Type}

theorem maskSel_replicate_true {α : Type} (l : List α) (k : Nat) :
    maskSel l (List.replicate k true) = l.take k := by
  induction l generalizing k with
  | nil => cases k <;> simp [maskSel]
  | cons a as ih =>
    cases k with
    | zero => simp [maskSel]
    | succ k => simp [List.replicate_succ, maskSel, ih]

theorem keepMask_false (cur add : List Int) : keepMask false cur add = List.replicate cur.length true := by
  induction cur with
  | nil => rfl
  | cons a as ih =>
    have : keepMask false (a :: as) add = true :: keepMask false as add := by simp [keepMask]
    rw [this, ih]; rfl

theorem keepMask_true (cur add : List Int) : keepMask true cur add = cur.map (fun i => !(add.contains i)) := by
  simp [keepMask]

/-- `a[cur_idx]` is `selKeep` of the hand-written model -/
theorem npIndex_eq_selKeep {α : Type} (u : Bool) (cur add : List Int) (l : List α) :
    npIndex l (if u then CurIdx.mask (cur.map (fun i => !(add.contains i))) else CurIdx.arange cur.length) =
      match selKeep u (keepMask u cur add) l with
      | some r => .ok r
      | none => .error .index := by
  cases u
  · simp only [Bool.false_eq_true, ↓reduceIte, npIndex, selKeep, keepMask_false, List.length_replicate,
      maskSel_replicate_true]
    by_cases h : cur.length ≤ l.length <;> simp [h]
  · simp only [↓reduceIte, npIndex, selKeep, keepMask_true, List.length_map]
    by_cases h : l.length = cur.length <;> simp [h]

/-- **the translated block is `merge`** -/
theorem merge_eq (u : Bool) (d : Data L W) (idx : List Int) (ay : List L) (aw : Option (List W)) :
    partial_fit.merge u d.idx d.y d.sw idx ay aw = merge u d idx ay aw := by
  have hidx : npIndex d.idx (if u then CurIdx.mask (d.idx.map (fun i => !(idx.contains i))) else CurIdx.arange d.idx.length)
      = .ok (maskSel d.idx (keepMask u d.idx idx)) := by
    rw [npIndex_eq_selKeep, selKeep_some u _ d.idx (by rw [keepMask_length])]
  unfold partial_fit.merge merge
  simp only [bind, Except.bind, pure, Except.pure]
  rw [hidx]
  simp only [npIndex_eq_selKeep]
  cases hy : selKeep u (keepMask u d.idx idx) d.y with
  | none => simp
  | some ky =>
    simp only
    cases hs : d.sw with
    | none =>
      cases aw <;> simp [_get_sw, _concat_sw, pure, Except.pure, throw, throwThe, MonadExceptOf.throw]
    | some w =>
      simp only [_get_sw, bind, Except.bind, pure, Except.pure, npIndex_eq_selKeep]
      cases hw : selKeep u (keepMask u d.idx idx) w with
      | none => simp
      | some kw =>
        cases aw <;> simp [_concat_sw, pure, Except.pure, throw, throwThe, MonadExceptOf.throw]

/-! ## the attribute-storing tail of `fit` -/

/-- `(idx_, y_, sample_weight_)` as the model's training record: present once all three attributes are assigned -/
def absRec (i : Option (List Int)) (y : Option (List L)) (w : Option (Option (List W))) : Option (Data L W) :=
  match i, y, w with
  | some i, some y, some w => some ⟨i, y, w⟩
  | _, _, _ => none

/-- the model state an object stands for -/
def absW (o : WObj C L W) : St C L W :=
  ⟨o.clf_, absRec o.idx_ o.y_ o.sample_weight_, o.base_clf_, absRec o.base_idx_ o.base_y_ o.base_sample_weight_⟩

set_option linter.unusedSimpArgs false in
/-- **the translated tail of `fit` ends in the state the model's `fit` ends in**: on an object whose `clf_` has just been
fitted it never raises, and the attributes it leaves stand for `⟨clf_, cur', base classifier, base record⟩` as computed by
`Ska.IW.fit` (`cur'` = the new record unless the classifier has a native `partial_fit`). -/
theorem fit_store_abs (native sb : Bool) (o : WObj C L W) (c : C) (idx : List Int) (y : List L) (sw : Option (List W))
    (hc : o.clf_ = some c) :
    ∃ o', fit.store native sb o idx y sw = .ok o' ∧
      absW o' =
        (let cur' := if native then (absW o).cur else some ⟨idx, y, sw⟩
         if sb then ⟨some c, cur', some c, if native then (absW o).base else cur'⟩
         else ⟨some c, cur', (absW o).bclf, (absW o).base⟩) := by
  obtain ⟨clf, i, yy, w, bc, bi, by', bw⟩ := o
  simp only at hc
  subst hc
  cases native <;> cases sb <;>
    simp [fit.store, absW, absRec, attr, _copy_sw, bind, Except.bind, pure, Except.pure]
  all_goals (cases sw <;> simp [_copy_sw, absRec, pure, Except.pure])

/-! ## the native branch of `partial_fit` -/

theorem xRows_eq (cfg : Cfg L W) (idx : List Int) :
    xRows cfg.n idx = if xIndexOk cfg idx then .ok idx else .error .index := rfl

set_option linter.unusedSimpArgs false in
/-- **the translated native branch is `partialNative`**: on an object that holds the classifier to update (which the argument
validation of `partial_fit` has established before: `NotFittedError` otherwise) it raises exactly when `self.X[add_idx]` does, and
otherwise leaves attributes that stand for the state `Ska.IW.partialNative` returns; the stored training records are untouched. -/
theorem native_abs (cfg : Cfg L W) (pfit : C → Data L W → C) (ub sb : Bool) (o : WObj C L W) (c : C)
    (idx : List Int) (ay : List L) (aw : Option (List W))
    (hc : (if ub then o.base_clf_ else o.clf_) = some c) :
    (match partial_fit.native cfg.n pfit ub sb o idx ay aw with
     | .ok o' => (absW o', (none : Option Err))
     | .error e => (absW o, some e)) = partialNative cfg pfit (absW o) idx ay aw ub sb := by
  obtain ⟨clf, i, yy, w, bc, bi, by', bw⟩ := o
  unfold partial_fit.native partialNative
  simp only [xRows_eq, absW]
  by_cases hx : xIndexOk cfg idx = true
  · cases ub <;> cases sb <;> cases aw <;> simp_all [attr, bind, Except.bind, pure, Except.pure, absRec]
  · cases ub <;> cases sb <;> cases aw <;> simp_all [attr, bind, Except.bind, pure, Except.pure, absRec]

end Ska.Gen.IW
