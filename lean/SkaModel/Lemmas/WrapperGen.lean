import SkaModel.Gen.WrapperGen
import SkaModel.Lemmas.IndexWrapper

/-! Bridging lemmas: the block translated from the current source of `IndexClassifierWrapper.partial_fit`
(`Gen/WrapperGen.lean`) computes exactly `Ska.IW.merge`, for all inputs. -/

namespace Ska.Gen.IW
open Ska Ska.IW Ska.PyIW

variable {L W : Type}

theorem maskSel_replicate_true {α : Type} (l : List α) (k : Nat) :
    maskSel l (List.replicate k true) = l.take k := by
  induction l generalizing k with
  | nil => cases k <;> simp [maskSel]
  | cons a as ih =>
    cases k with
    | zero => simp [maskSel]
    | succ k => simp [List.replicate_succ, maskSel, ih]

theorem keepMask_false (cur add : List Int) : keepMask false cur add = List.replicate cur.length true := by
  induction cur with
  | nil => rfl
  | cons a as ih =>
    have : keepMask false (a :: as) add = true :: keepMask false as add := by simp [keepMask]
    rw [this, ih]; rfl

theorem keepMask_true (cur add : List Int) : keepMask true cur add = cur.map (fun i => !(add.contains i)) := by
  simp [keepMask]

/-- `a[cur_idx]` is `selKeep` of the hand-written model -/
theorem npIndex_eq_selKeep {α : Type} (u : Bool) (cur add : List Int) (l : List α) :
    npIndex l (if u then CurIdx.mask (cur.map (fun i => !(add.contains i))) else CurIdx.arange cur.length) =
      match selKeep u (keepMask u cur add) l with
      | some r => .ok r
      | none => .error .index := by
  cases u
  · simp only [Bool.false_eq_true, ↓reduceIte, npIndex, selKeep, keepMask_false, List.length_replicate,
      maskSel_replicate_true]
    by_cases h : cur.length ≤ l.length <;> simp [h]
  · simp only [↓reduceIte, npIndex, selKeep, keepMask_true, List.length_map]
    by_cases h : l.length = cur.length <;> simp [h]

/-- **the translated block is `merge`** -/
theorem merge_eq (u : Bool) (d : Data L W) (idx : List Int) (ay : List L) (aw : Option (List W)) :
    partial_fit.merge u d.idx d.y d.sw idx ay aw = merge u d idx ay aw := by
  have hidx : npIndex d.idx (if u then CurIdx.mask (d.idx.map (fun i => !(idx.contains i))) else CurIdx.arange d.idx.length)
      = .ok (maskSel d.idx (keepMask u d.idx idx)) := by
    rw [npIndex_eq_selKeep, selKeep_some u _ d.idx (by rw [keepMask_length])]
  unfold partial_fit.merge merge
  simp only [bind, Except.bind, pure, Except.pure]
  rw [hidx]
  simp only [npIndex_eq_selKeep]
  cases hy : selKeep u (keepMask u d.idx idx) d.y with
  | none => simp
  | some ky =>
    simp only
    cases hs : d.sw with
    | none =>
      cases aw <;> simp [_get_sw, _concat_sw, pure, Except.pure, throw, throwThe, MonadExceptOf.throw]
    | some w =>
      simp only [_get_sw, bind, Except.bind, pure, Except.pure, npIndex_eq_selKeep]
      cases hw : selKeep u (keepMask u d.idx idx) w with
      | none => simp
      | some kw =>
        cases aw <;> simp [_concat_sw, pure, Except.pure, throw, throwThe, MonadExceptOf.throw]

end Ska.Gen.IW
