import Mathlib.Order.Defs.LinearOrder
import Mathlib.Order.Basic
import SkaModel.Core.Selection

/-! Helper lemmas about the selection model over linear orders. Property theorems live in
`SkaModel/Props/C18.lean`. -/

namespace Ska

section ArgmaxL
variable {β : Type} [LinearOrder β]

theorem argmaxFrom_spec (xs : List β) (i best : Nat) (bv : β) :
    (argmaxFrom xs i best bv = best ∧ ∀ x ∈ xs, x ≤ bv) ∨
    (∃ k, ∃ hk : k < xs.length, argmaxFrom xs i best bv = i + k ∧ bv < xs[k] ∧
        (∀ x ∈ xs, x ≤ xs[k]) ∧ ∀ j, ∀ hj : j < k, xs[j]'(Nat.lt_trans hj hk) < xs[k]) := by
  induction xs generalizing i best bv with
  | nil => simp [argmaxFrom]
  | cons x xs ih =>
    simp only [argmaxFrom]
    split
    · rename_i h
      rcases ih (i+1) i x with ⟨hr, hle⟩ | ⟨k, hk, hr, hlt, hle, hfirst⟩
      · right
        refine ⟨0, by simp, by simpa using hr, by simpa using h, ?_, ?_⟩
        · intro y hy
          rcases List.mem_cons.mp hy with rfl | hy
          · simp
          · simpa using hle y hy
        · intro j hj; omega
      · right
        refine ⟨k+1, by simpa using hk, by omega, ?_, ?_, ?_⟩
        · simp only [List.getElem_cons_succ]; exact lt_trans h hlt
        · intro y hy
          simp only [List.getElem_cons_succ]
          rcases List.mem_cons.mp hy with rfl | hy
          · exact le_of_lt hlt
          · exact hle y hy
        · intro j hj
          simp only [List.getElem_cons_succ]
          cases j with
          | zero => simpa using hlt
          | succ j => simpa using hfirst j (by omega)
    · rename_i h
      have hxle : x ≤ bv := not_lt.mp h
      rcases ih (i+1) best bv with ⟨hr, hle⟩ | ⟨k, hk, hr, hlt, hle, hfirst⟩
      · left
        refine ⟨hr, ?_⟩
        intro y hy
        rcases List.mem_cons.mp hy with rfl | hy
        · exact hxle
        · exact hle y hy
      · right
        refine ⟨k+1, by simpa using hk, by omega, ?_, ?_, ?_⟩
        · simpa using hlt
        · intro y hy
          simp only [List.getElem_cons_succ]
          rcases List.mem_cons.mp hy with rfl | hy
          · exact le_of_lt (lt_of_le_of_lt hxle hlt)
          · exact hle y hy
        · intro j hj
          simp only [List.getElem_cons_succ]
          cases j with
          | zero => simpa using lt_of_le_of_lt hxle hlt
          | succ j => simpa using hfirst j (by omega)

/-- `argmax` is in range, dominates every element and is the *first* such position. -/
theorem argmax_spec (l : List β) (hl : l ≠ []) :
    ∃ h : argmax l < l.length, (∀ x ∈ l, x ≤ l[argmax l]) ∧
      ∀ j, ∀ hj : j < argmax l, l[j]'(Nat.lt_trans hj h) < l[argmax l] := by
  cases l with
  | nil => exact absurd rfl hl
  | cons x xs =>
    simp only [argmax]
    rcases argmaxFrom_spec xs 1 0 x with ⟨hr, hle⟩ | ⟨k, hk, hr, hlt, hle, hfirst⟩
    · simp only [hr]
      refine ⟨by simp, ?_, ?_⟩
      · intro y hy
        rcases List.mem_cons.mp hy with rfl | hy
        · simp
        · simpa using hle y hy
      · intro j hj; omega
    · have e : argmaxFrom xs 1 0 x = k + 1 := by omega
      simp only [e]
      refine ⟨by simpa using hk, ?_, ?_⟩
      · intro y hy
        simp only [List.getElem_cons_succ]
        rcases List.mem_cons.mp hy with rfl | hy
        · exact le_of_lt hlt
        · exact hle y hy
      · intro j hj
        simp only [List.getElem_cons_succ]
        cases j with
        | zero => simpa using hlt
        | succ j => simpa using hfirst j (by omega)

end ArgmaxL

section NanmaxL
variable {α : Type} [LinearOrder α]

theorem eqv_iff (a b : α) : eqv a b = true ↔ a = b := by
  unfold eqv
  simp only [Bool.and_eq_true, Bool.not_eq_true', decide_eq_false_iff_not, not_lt]
  constructor
  · rintro ⟨h1, h2⟩; exact le_antisymm h2 h1
  · rintro rfl; exact ⟨le_refl _, le_refl _⟩

theorem nanmax_none_iff (a : List (Option α)) : nanmax a = none ↔ ∀ x ∈ a, x = none := by
  induction a with
  | nil => simp [nanmax]
  | cons x xs ih =>
    cases x with
    | none => simp [nanmax, ih]
    | some v =>
      simp only [nanmax]
      constructor
      · intro h
        split at h
        · cases h
        · split at h <;> cases h
      · intro h
        have := h (some v) (List.mem_cons_self ..)
        cases this

theorem nanmax_spec (a : List (Option α)) (m : α) (h : nanmax a = some m) :
    some m ∈ a ∧ ∀ v, some v ∈ a → v ≤ m := by
  induction a generalizing m with
  | nil => simp [nanmax] at h
  | cons x xs ih =>
    cases x with
    | none =>
      simp only [nanmax] at h
      obtain ⟨h1, h2⟩ := ih m h
      refine ⟨List.mem_cons_of_mem _ h1, ?_⟩
      intro v hv
      rcases List.mem_cons.mp hv with hv | hv
      · cases hv
      · exact h2 v hv
    | some w =>
      simp only [nanmax] at h
      cases hm : nanmax xs with
      | none =>
        rw [hm] at h
        simp only [Option.some.injEq] at h
        subst h
        refine ⟨List.mem_cons_self .., ?_⟩
        intro v hv
        rcases List.mem_cons.mp hv with hv | hv
        · cases hv; exact le_refl _
        · have := (nanmax_none_iff xs).mp hm _ hv
          cases this
      | some m' =>
        rw [hm] at h
        obtain ⟨h1, h2⟩ := ih m' hm
        by_cases hlt : w < m'
        · simp only [hlt, if_true, Option.some.injEq] at h
          subst h
          refine ⟨List.mem_cons_of_mem _ h1, ?_⟩
          intro v hv
          rcases List.mem_cons.mp hv with hv | hv
          · cases hv; exact le_of_lt hlt
          · exact h2 v hv
        · simp only [hlt, if_false, Option.some.injEq] at h
          subst h
          refine ⟨List.mem_cons_self .., ?_⟩
          intro v hv
          rcases List.mem_cons.mp hv with hv | hv
          · cases hv; exact le_refl _
          · exact le_trans (h2 v hv) (not_lt.mp hlt)

theorem nanmin_none_iff (a : List (Option α)) : nanmin a = none ↔ ∀ x ∈ a, x = none := by
  induction a with
  | nil => simp [nanmin]
  | cons x xs ih =>
    cases x with
    | none => simp [nanmin, ih]
    | some v =>
      simp only [nanmin]
      constructor
      · intro h
        split at h
        · cases h
        · split at h <;> cases h
      · intro h
        have := h (some v) (List.mem_cons_self ..)
        cases this

theorem nanmin_spec (a : List (Option α)) (m : α) (h : nanmin a = some m) :
    some m ∈ a ∧ ∀ v, some v ∈ a → m ≤ v := by
  induction a generalizing m with
  | nil => simp [nanmin] at h
  | cons x xs ih =>
    cases x with
    | none =>
      simp only [nanmin] at h
      obtain ⟨h1, h2⟩ := ih m h
      refine ⟨List.mem_cons_of_mem _ h1, ?_⟩
      intro v hv
      rcases List.mem_cons.mp hv with hv | hv
      · cases hv
      · exact h2 v hv
    | some w =>
      simp only [nanmin] at h
      cases hm : nanmin xs with
      | none =>
        rw [hm] at h
        simp only [Option.some.injEq] at h
        subst h
        refine ⟨List.mem_cons_self .., ?_⟩
        intro v hv
        rcases List.mem_cons.mp hv with hv | hv
        · cases hv; exact le_refl _
        · have := (nanmin_none_iff xs).mp hm _ hv
          cases this
      | some m' =>
        rw [hm] at h
        obtain ⟨h1, h2⟩ := ih m' hm
        by_cases hlt : m' < w
        · simp only [hlt, if_true, Option.some.injEq] at h
          subst h
          refine ⟨List.mem_cons_of_mem _ h1, ?_⟩
          intro v hv
          rcases List.mem_cons.mp hv with hv | hv
          · cases hv; exact le_of_lt hlt
          · exact h2 v hv
        · simp only [hlt, if_false, Option.some.injEq] at h
          subst h
          refine ⟨List.mem_cons_self .., ?_⟩
          intro v hv
          rcases List.mem_cons.mp hv with hv | hv
          · cases hv; exact le_refl _
          · exact le_trans (not_lt.mp hlt) (h2 v hv)

theorem isOpt_iff (m x : Option α) : isOpt m x = true ↔ ∃ v, x = some v ∧ m = some v := by
  cases x with
  | none => cases m <;> simp [isOpt]
  | some v =>
    cases m with
    | none => simp [isOpt]
    | some w =>
      simp only [isOpt, eqv_iff, Option.some.injEq]
      constructor
      · rintro rfl; exact ⟨v, rfl, rfl⟩
      · rintro ⟨_, rfl, rfl⟩; rfl

end NanmaxL

section MaskedL
set_option linter.unusedSectionVars false
variable {α : Type} [LT α] [DecidableLT α]
variable {β : Type} [LT β] [DecidableLT β] [OfNat β 0]

theorem masked_length (m : Option α) (a : List (Option α)) (noise : List β) :
    (masked m a noise).length = a.length := by
  induction a generalizing noise with
  | nil => simp [masked]
  | cons x xs ih => cases noise <;> simp [masked, ih]

theorem masked_getElem (m : Option α) (a : List (Option α)) (noise : List β)
    (hlen : noise.length = a.length) (i : Nat) (hi : i < a.length) :
    (masked m a noise)[i]'(by rw [masked_length]; exact hi) =
      if isOpt m a[i] then noise[i]'(by omega) else 0 := by
  induction a generalizing noise i with
  | nil => simp at hi
  | cons x xs ih =>
    cases noise with
    | nil => simp at hlen
    | cons n ns =>
      cases i with
      | zero => simp [masked]
      | succ i =>
        simp only [masked, List.getElem_cons_succ]
        exact ih ns (by simpa using hlen) i (by simpa using hi)

end MaskedL

section CountL
variable {α : Type}

theorem countSome_pos_iff (u : List (Option α)) : 0 < countSome u ↔ ∃ v, some v ∈ u := by
  induction u with
  | nil => simp [countSome]
  | cons x xs ih =>
    cases x with
    | none =>
      have : countSome (none :: xs) = countSome xs := by simp [countSome]
      rw [this, ih]
      constructor
      · rintro ⟨v, hv⟩; exact ⟨v, List.mem_cons_of_mem _ hv⟩
      · rintro ⟨v, hv⟩
        rcases List.mem_cons.mp hv with hv | hv
        · cases hv
        · exact ⟨v, hv⟩
    | some w =>
      constructor
      · intro _; exact ⟨w, List.mem_cons_self ..⟩
      · intro _; simp [countSome]

theorem countSome_set_none (u : List (Option α)) (i : Nat) (v : α) (h : u[i]? = some (some v)) :
    countSome (u.set i none) + 1 = countSome u := by
  induction u generalizing i with
  | nil => simp at h
  | cons x xs ih =>
    cases i with
    | zero =>
      simp at h; subst h
      simp [countSome, List.filter]
    | succ k =>
      simp at h
      have := ih k h
      cases x <;> simp_all [countSome, List.filter]

end CountL

end Ska
