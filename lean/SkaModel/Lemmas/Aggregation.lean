import Mathlib.Algebra.BigOperators.Group.List.Basic
import Mathlib.Algebra.Order.Field.Basic
import SkaModel.Core.Aggregation
import SkaModel.Lemmas.Label
import SkaModel.Lemmas.Selection
import SkaModel.Props.C18

/-! Helper lemmas about the aggregation model (`Core/Aggregation.lean`). Property theorems live in
`SkaModel/Props/C17.lean`. -/

namespace Ska.Agg
open Ska Ska.Label

/-! ## bincount -/

section Bincount
variable {α : Type} [AddMonoid α]

/-- the weight booked on bin `p` by the index/weight pairs, in array order. -/
def wsum (p : Nat) : List Nat → List α → α
  | i :: is, w :: ws => (if i = p then w else 0) + wsum p is ws
  | _, _ => 0

theorem addAt_length (acc : List α) (i : Nat) (w : α) : (addAt acc i w).length = acc.length := by
  induction acc generalizing i with
  | nil => simp [addAt]
  | cons x xs ih => cases i <;> simp [addAt, ih]

theorem addAt_getElem? (acc : List α) (i : Nat) (w : α) (p : Nat) :
    (addAt acc i w)[p]? = (acc[p]?).map (fun x => x + (if i = p then w else 0)) := by
  induction acc generalizing i p with
  | nil => simp [addAt]
  | cons x xs ih =>
    cases i with
    | zero =>
      cases p with
      | zero => simp [addAt]
      | succ p => simp [addAt]
    | succ i =>
      cases p with
      | zero => simp [addAt]
      | succ p => simp [addAt, ih]

theorem bincountGo_length (acc : List α) (idx : List Nat) (wts : List α) :
    (bincountGo acc idx wts).length = acc.length := by
  induction idx generalizing acc wts with
  | nil => simp [bincountGo]
  | cons i is ih =>
    cases wts with
    | nil => simp [bincountGo]
    | cons w ws => simp [bincountGo, ih, addAt_length]

theorem bincountGo_getElem? (acc : List α) (idx : List Nat) (wts : List α) (p : Nat) :
    (bincountGo acc idx wts)[p]? = (acc[p]?).map (fun x => x + wsum p idx wts) := by
  induction idx generalizing acc wts with
  | nil => simp [bincountGo, wsum]
  | cons i is ih =>
    cases wts with
    | nil => simp [bincountGo, wsum]
    | cons w ws =>
      simp only [bincountGo, wsum]
      rw [ih, addAt_getElem?]
      cases acc[p]? with
      | none => simp
      | some x => simp [add_assoc]

theorem bincount_getElem? (len : Nat) (idx : List Nat) (wts : List α) (p : Nat) (hp : p < len) :
    (bincount len idx wts)[p]? = some (wsum p idx wts) := by
  unfold bincount
  rw [bincountGo_getElem?]
  simp [hp]

theorem bincount_length (len : Nat) (idx : List Nat) (wts : List α) :
    (bincount len idx wts).length = len := by
  simp [bincount, bincountGo_length]

theorem wsum_append (p : Nat) (i1 i2 : List Nat) (w1 w2 : List α) (h : i1.length = w1.length) :
    wsum p (i1 ++ i2) (w1 ++ w2) = wsum p i1 w1 + wsum p i2 w2 := by
  induction i1 generalizing w1 with
  | nil =>
    cases w1 with
    | nil => simp [wsum]
    | cons _ _ => simp at h
  | cons i is ih =>
    cases w1 with
    | nil => simp at h
    | cons w ws =>
      simp only [List.cons_append, wsum]
      rw [ih ws (by simpa using h), add_assoc]

end Bincount

/-! ## the vote of one row -/

section RowVote
variable {α : Type} [AddMonoid α]

/-- weight of an annotation once NaN weights are ignored. -/
def weightOf : Option α → α
  | none => 0
  | some v => v

/-- the counting specification for one sample: `Σ_j w[j] · [y[j] = c]` (missing labels have the code
`-1`, which is no class; NaN weights count `0`). -/
def rowVote (c : Nat) : List Int → List (Option α) → α
  | e :: es, w :: ws => (if e = (c : Int) then weightOf w else 0) + rowVote c es ws
  | _, _ => 0

/-- valid output of the encoder: `-1` or a class index. -/
def ValidCode (K : Nat) (e : Int) : Prop := e = -1 ∨ (0 ≤ e ∧ e < (K : Int))

theorem offsetRow_eq_iff (K i : Nat) (e : Int) (p : Nat) (hK : 0 < K) (he : 0 ≤ e ∧ e < (K : Int)) :
    offsetRow K i e = p ↔ (p / K = i ∧ e = ((p % K : Nat) : Int)) := by
  unfold offsetRow voteClass
  have hne : ¬ e = -1 := by omega
  rw [if_neg hne]
  obtain ⟨n, rfl⟩ := Int.eq_ofNat_of_zero_le he.1
  simp only [Int.toNat_natCast]
  have hn : n < K := by omega
  constructor
  · intro h
    subst h
    refine ⟨?_, ?_⟩
    · rw [Nat.add_mul_div_right _ _ hK, Nat.div_eq_of_lt hn]; omega
    · rw [Nat.add_mul_mod_self_right, Nat.mod_eq_of_lt hn]
  · rintro ⟨h1, h2⟩
    have h2' : n = p % K := by exact_mod_cast h2
    rw [h2', ← h1]
    have := Nat.div_add_mod' p K
    omega

theorem wsum_row (K i p : Nat) (hK : 0 < K) (r : List Int) (wr : List (Option α))
    (hlen : r.length = wr.length) (hv : ∀ e ∈ r, ValidCode K e) :
    wsum p (r.map (offsetRow K i)) (List.zipWith voteWeight r wr) =
      if p / K = i then rowVote (p % K) r wr else 0 := by
  induction r generalizing wr with
  | nil => simp [wsum, rowVote]
  | cons e es ih =>
    cases wr with
    | nil => simp at hlen
    | cons w ws =>
      have hve := hv e (List.mem_cons_self ..)
      have ih' := ih ws (by simpa using hlen) (fun e' he' => hv e' (List.mem_cons_of_mem _ he'))
      simp only [List.map_cons, List.zipWith_cons_cons, wsum, rowVote, ih']
      rcases hve with rfl | hve
      · -- missing entry: booked on class 0 with weight 0
        have h1 : voteWeight (α := α) (-1) w = 0 := by simp [voteWeight]
        have h2 : ¬ ((-1 : Int) = ((p % K : Nat) : Int)) := by omega
        rw [h1, if_neg h2]
        split <;> simp
      · have hne : ¬ e = -1 := by omega
        have hw : voteWeight e w = weightOf w := by
          unfold voteWeight weightOf
          rw [if_neg hne]
          cases w <;> rfl
        rw [hw]
        by_cases hp : p / K = i
        · simp only [hp, if_true]
          by_cases hc : e = ((p % K : Nat) : Int)
          · rw [if_pos ((offsetRow_eq_iff K i e p hK hve).mpr ⟨hp, hc⟩), if_pos hc]
          · rw [if_neg (fun h => hc ((offsetRow_eq_iff K i e p hK hve).mp h).2), if_neg hc]
        · simp only [hp, if_false]
          rw [if_neg (fun h => hp ((offsetRow_eq_iff K i e p hK hve).mp h).1)]
          simp

theorem sameShape_cons {β γ : Type} (r : List β) (rs : List (List β)) (w : List γ) (ws : List (List γ)) :
    sameShape (r :: rs) (w :: ws) = true ↔ r.length = w.length ∧ sameShape rs ws = true := by
  simp [sameShape]

theorem sameShape_length {β γ : Type} (rs : List (List β)) (ws : List (List γ))
    (h : sameShape rs ws = true) : rs.length = ws.length := by
  induction rs generalizing ws with
  | nil => cases ws <;> simp_all [sameShape]
  | cons r rs ih =>
    cases ws with
    | nil => simp [sameShape] at h
    | cons w ws =>
      have := (sameShape_cons r rs w ws).mp h
      simp [ih ws this.2]

theorem flatWeights_length (rows : List (List Int)) (wts : List (List (Option α)))
    (h : sameShape rows wts = true) :
    (flatWeights rows wts).length = (rows.map List.length).sum := by
  induction rows generalizing wts with
  | nil => simp [flatWeights]
  | cons r rs ih =>
    cases wts with
    | nil => simp [sameShape] at h
    | cons w ws =>
      obtain ⟨h1, h2⟩ := (sameShape_cons r rs w ws).mp h
      simp [flatWeights, ih ws h2, h1]

/-- the bin `p` of the whole matrix receives the vote of row `p / K` for class `p % K`. -/
theorem wsum_offsets (K i0 p : Nat) (hK : 0 < K) (rows : List (List Int)) (wts : List (List (Option α)))
    (hs : sameShape rows wts = true) (hv : ∀ r ∈ rows, ∀ e ∈ r, ValidCode K e) :
    wsum p (offsets K i0 rows) (flatWeights rows wts) =
      if i0 ≤ p / K then
        match rows[p / K - i0]?, wts[p / K - i0]? with
        | some r, some w => rowVote (p % K) r w
        | _, _ => 0
      else 0 := by
  induction rows generalizing wts i0 with
  | nil => simp [offsets, flatWeights, wsum]
  | cons r rs ih =>
    cases wts with
    | nil => simp [sameShape] at hs
    | cons w ws =>
      obtain ⟨h1, h2⟩ := (sameShape_cons r rs w ws).mp hs
      simp only [offsets, flatWeights]
      rw [wsum_append _ _ _ _ _ (by simp [h1]),
        wsum_row K i0 p hK r w h1 (hv r (List.mem_cons_self ..)),
        ih (i0+1) ws h2 (fun r' hr' => hv r' (List.mem_cons_of_mem _ hr'))]
      by_cases hp : p / K = i0
      · have h3 : ¬ (i0 + 1 ≤ p / K) := by omega
        simp [hp]
      · by_cases h4 : i0 ≤ p / K
        · have h5 : i0 + 1 ≤ p / K := by omega
          have h6 : p / K - i0 = (p / K - (i0 + 1)) + 1 := by omega
          simp only [hp, if_false, h4, h5, if_true, zero_add]
          rw [h6]
          simp
        · have h5 : ¬ (i0 + 1 ≤ p / K) := by omega
          simp [hp, h4, h5]

end RowVote

/-! ## compute_vote_vectors -/

section VoteSpec
variable {α : Type} [Semiring α]

theorem rowsOf_getElem?_eq {γ : Type} (c r : Nat) (l : List γ) (i : Nat) (hi : i < r) :
    (rowsOf c r l)[i]? = some ((l.drop (i * c)).take c) := by
  induction r generalizing l i with
  | zero => omega
  | succ r ih =>
    cases i with
    | zero => simp [rowsOf]
    | succ i =>
      simp only [rowsOf, List.getElem?_cons_succ]
      rw [ih (l.drop c) i (by omega), List.drop_drop]
      congr 3
      rw [Nat.succ_mul]
      omega

theorem sameShape_onesLike (yenc : List (List Int)) :
    sameShape yenc (onesLike (α := α) yenc) = true := by
  induction yenc with
  | nil => simp [onesLike, sameShape]
  | cons r rs ih =>
    simp only [onesLike, List.map_cons, sameShape_cons, List.length_map, true_and]
    exact ih

theorem offsets_length (K i0 : Nat) (rows : List (List Int)) :
    (offsets K i0 rows).length = (rows.map List.length).sum := by
  induction rows generalizing i0 with
  | nil => simp [offsets]
  | cons r rs ih => simp [offsets, ih]

/-- **Vote vectors are the weighted counts**: on success the result has one row per sample, `K`
entries per row, and entry `(i, c)` is the vote `Σ_j w[i][j]·[y[i][j] = c]` of sample `i` for class `c`. -/
theorem computeVoteVectors_spec (K : Nat) (yenc : List (List Int)) (w : Option (List (List (Option α))))
    (V : List (List α)) (h : computeVoteVectors K yenc w = .ok V)
    (hv : ∀ r ∈ yenc, ∀ e ∈ r, ValidCode K e) :
    0 < K ∧ sameShape yenc (effWeights yenc w) = true ∧ V.length = yenc.length ∧
    ∀ i, ∀ hi : i < yenc.length, ∃ row wi, V[i]? = some row ∧ (effWeights yenc w)[i]? = some wi ∧
      row.length = K ∧ ∀ c, c < K → row[c]? = some (rowVote c yenc[i] wi) := by
  unfold computeVoteVectors at h
  split at h
  · cases h
  rename_i hK0
  have hK : 0 < K := Nat.pos_of_ne_zero hK0
  split at h
  · cases h
  rename_i hs
  have hs' : sameShape yenc (effWeights yenc w) = true := by simpa using hs
  injection h with h
  subst h
  refine ⟨hK, hs', rowsOf_length _ _ _, ?_⟩
  intro i hi
  have hwl := sameShape_length _ _ hs'
  have hiw : i < (effWeights yenc w).length := by omega
  refine ⟨_, (effWeights yenc w)[i], rowsOf_getElem?_eq K yenc.length _ i hi, List.getElem?_eq_getElem hiw, ?_, ?_⟩
  · rw [List.length_take, List.length_drop, bincount_length]
    have : i * K + K ≤ yenc.length * K := by
      have := Nat.mul_le_mul_right K (Nat.succ_le_of_lt hi)
      rw [Nat.succ_mul] at this
      exact this
    omega
  · intro c hc
    rw [List.getElem?_take, if_pos hc, List.getElem?_drop]
    have hp : i * K + c < yenc.length * K := by
      have := Nat.mul_le_mul_right K (Nat.succ_le_of_lt hi)
      rw [Nat.succ_mul] at this
      omega
    rw [bincount_getElem? _ _ _ _ hp, wsum_offsets K 0 (i * K + c) hK yenc _ hs' hv]
    have h1 : (i * K + c) / K = i := by
      rw [Nat.add_comm, Nat.add_mul_div_right _ _ hK, Nat.div_eq_of_lt hc]; omega
    have h2 : (i * K + c) % K = c := by
      rw [Nat.add_comm, Nat.add_mul_mod_self_right, Nat.mod_eq_of_lt hc]
    simp [h1, h2, List.getElem?_eq_getElem hi, List.getElem?_eq_getElem hiw]

/-- unweighted votes (`w=None`): the vote is the number of annotators that chose the class. -/
theorem rowVote_ones (c : Nat) (r : List Int) :
    rowVote (α := α) c r (r.map (fun _ => some (1 : α))) = ((r.filter (fun e => decide (e = (c : Int)))).length : α) := by
  induction r with
  | nil => simp [rowVote]
  | cons e es ih =>
    simp only [List.map_cons, rowVote, ih, weightOf]
    by_cases he : e = (c : Int)
    · simp [he, add_comm]
    · simp [he]

/-- `rowVote` as a plain sum over the annotators. -/
theorem rowVote_eq_sum (c : Nat) (r : List Int) (w : List (Option α)) :
    rowVote c r w = ((r.zip w).map (fun ew => if ew.1 = (c : Int) then weightOf ew.2 else 0)).sum := by
  induction r generalizing w with
  | nil => simp [rowVote]
  | cons e es ih =>
    cases w with
    | nil => simp [rowVote]
    | cons x xs => simp [rowVote, ih]

end VoteSpec

/-! ## majority_vote -/

section MajorityL

theorem mem_selectRows {γ : Type} (lab : List Bool) (xs : List γ) (x : γ)
    (h : x ∈ selectRows lab xs) : x ∈ xs := by
  induction lab generalizing xs with
  | nil => simp [selectRows] at h
  | cons b bs ih =>
    cases xs with
    | nil => cases b <;> simp [selectRows] at h
    | cons y ys =>
      cases b with
      | true =>
        simp only [selectRows, List.mem_cons] at h
        rcases h with rfl | h
        · exact List.mem_cons_self ..
        · exact List.mem_cons_of_mem _ (ih ys h)
      | false =>
        simp only [selectRows] at h
        exact List.mem_cons_of_mem _ (ih ys h)

theorem sameShape_selectRows {β γ : Type} (lab : List Bool) (rs : List (List β)) (ws : List (List γ))
    (h : sameShape rs ws = true) : sameShape (selectRows lab rs) (selectRows lab ws) = true := by
  induction lab generalizing rs ws with
  | nil => simp [selectRows, sameShape]
  | cons b bs ih =>
    cases rs with
    | nil =>
      cases ws with
      | nil => cases b <;> simp [selectRows, sameShape]
      | cons _ _ => simp [sameShape] at h
    | cons r rs =>
      cases ws with
      | nil => simp [sameShape] at h
      | cons w ws =>
        obtain ⟨h1, h2⟩ := (sameShape_cons r rs w ws).mp h
        cases b with
        | true => simp only [selectRows, sameShape_cons]; exact ⟨h1, ih rs ws h2⟩
        | false => simp only [selectRows]; exact ih rs ws h2

theorem selectRows_onesLike {α : Type} [OfNat α 1] (lab : List Bool) (ys : List (List Int)) :
    selectRows lab (onesLike (α := α) ys) = onesLike (selectRows lab ys) := by
  induction lab generalizing ys with
  | nil => simp [selectRows, onesLike]
  | cons b bs ih =>
    cases ys with
    | nil => cases b <;> simp [selectRows, onesLike]
    | cons y ys =>
      have := ih ys
      cases b <;> simp_all [selectRows, onesLike]

/-- `scatterPicks` puts the `k`-th pick at the position of the `k`-th labeled row and `-1` elsewhere;
`selectRows` extracts exactly those rows (of any array indexed alike). -/
theorem scatter_spec (ys : List (List Int)) (picks : List Nat)
    (hlen : picks.length = (selectRows (ys.map rowLabeled) ys).length) :
    (scatterPicks (ys.map rowLabeled) picks).length = ys.length ∧
    ∀ i, ∀ hi : i < ys.length,
      (rowLabeled ys[i] = false → (scatterPicks (ys.map rowLabeled) picks)[i]? = some (-1)) ∧
      (rowLabeled ys[i] = true → ∃ k, ∃ hk : k < picks.length,
        (scatterPicks (ys.map rowLabeled) picks)[i]? = some (picks[k] : Int) ∧
        (selectRows (ys.map rowLabeled) ys)[k]? = some ys[i] ∧
        ∀ {γ : Type} (ws : List γ), (selectRows (ys.map rowLabeled) ws)[k]? = ws[i]?) := by
  induction ys generalizing picks with
  | nil => simp [scatterPicks]
  | cons y ys ih =>
    cases hy : rowLabeled y with
    | false =>
      simp only [List.map_cons, hy, selectRows] at hlen
      obtain ⟨l1, l2⟩ := ih picks hlen
      refine ⟨by simp [hy, scatterPicks, l1], ?_⟩
      intro i hi
      cases i with
      | zero => simp [hy, scatterPicks]
      | succ i =>
        obtain ⟨a1, a2⟩ := l2 i (by simpa using hi)
        simp only [List.map_cons, hy, scatterPicks, List.getElem_cons_succ, List.getElem?_cons_succ, selectRows]
        refine ⟨a1, ?_⟩
        intro hl
        obtain ⟨k, hk, b1, b2, b3⟩ := a2 hl
        refine ⟨k, hk, b1, b2, ?_⟩
        intro γ ws
        cases ws with
        | nil => simp [selectRows]
        | cons x xs => simpa [selectRows] using b3 xs
    | true =>
      cases picks with
      | nil => simp [hy, selectRows] at hlen
      | cons p ps =>
        simp only [List.map_cons, hy, selectRows, List.length_cons, Nat.add_right_cancel_iff] at hlen
        obtain ⟨l1, l2⟩ := ih ps hlen
        refine ⟨by simp [hy, scatterPicks, l1], ?_⟩
        intro i hi
        cases i with
        | zero =>
          simp only [List.getElem_cons_zero, hy, Bool.true_eq_false, false_implies, true_and]
          intro _
          refine ⟨0, by simp, by simp [hy, scatterPicks], by simp [hy, selectRows], ?_⟩
          intro γ ws
          cases ws with
          | nil => simp [selectRows]
          | cons x xs => simp [hy, selectRows]
        | succ i =>
          obtain ⟨a1, a2⟩ := l2 i (by simpa using hi)
          simp only [List.map_cons, hy, scatterPicks, List.getElem_cons_succ, List.getElem?_cons_succ, selectRows]
          refine ⟨a1, ?_⟩
          intro hl
          obtain ⟨k, hk, b1, b2, b3⟩ := a2 hl
          refine ⟨k+1, by simpa using hk, by simpa using b1, by simpa using b2, ?_⟩
          intro γ ws
          cases ws with
          | nil => simp [selectRows]
          | cons x xs => simpa [selectRows] using b3 xs

theorem scatter_all_unlabeled (ys : List (List Int)) (h : (ys.map rowLabeled).any id = false) :
    ∀ i, ∀ hi : i < ys.length, rowLabeled ys[i] = false := by
  intro i hi
  rw [List.any_eq_false] at h
  have := h (rowLabeled ys[i]) (List.mem_map.mpr ⟨ys[i], List.getElem_mem _, rfl⟩)
  simpa using this

end MajorityL

section MajoritySpec
set_option linter.unusedSectionVars false
variable {α : Type} [Semiring α] [LinearOrder α]
variable {β : Type} [LinearOrder β] [Zero β]

theorem countSome_someRow (r : List α) : countSome (someRow r) = r.length := by
  induction r with
  | nil => simp [someRow, countSome]
  | cons x xs ih =>
    simp only [someRow, countSome] at ih ⊢
    simp [ih]

theorem effWeights_selectRows (lab : List Bool) (yenc : List (List Int))
    (w : Option (List (List (Option α)))) :
    effWeights (selectRows lab yenc) (match w with | none => none | some w => some (selectRows lab w)) =
      selectRows lab (effWeights yenc w) := by
  cases w with
  | none => simp [effWeights, selectRows_onesLike]
  | some w => simp [effWeights]

/-- **majority_vote picks a class of maximal vote, and the sentinel exactly for unlabeled samples.** -/
theorem majorityVote_spec (K : Nat) (yenc : List (List Int)) (w : Option (List (List (Option α))))
    (noise : List (List β)) (hK : 0 < K)
    (hv : ∀ r ∈ yenc, ∀ e ∈ r, ValidCode K e)
    (hs : sameShape yenc (effWeights yenc w) = true)
    (hn : noise.length = (selectRows (yenc.map rowLabeled) yenc).length)
    (hpos : ∀ nz ∈ noise, nz.length = K ∧ ∀ x ∈ nz, 0 < x) :
    ∃ res, majorityVote K yenc w noise = .ok res ∧ res.length = yenc.length ∧
      ∀ i, ∀ hi : i < yenc.length, ∃ wi, (effWeights yenc w)[i]? = some wi ∧
        (rowLabeled yenc[i] = false → res[i]? = some (-1)) ∧
        (rowLabeled yenc[i] = true → ∃ c : Nat, c < K ∧ res[i]? = some (c : Int) ∧
          ∀ c', c' < K → rowVote c' yenc[i] wi ≤ rowVote c yenc[i] wi) := by
  have hwl := sameShape_length _ _ hs
  unfold majorityVote
  simp only
  cases hany : (yenc.map rowLabeled).any id with
  | false =>
    simp only [Bool.not_false, if_true]
    refine ⟨_, rfl, by simp, ?_⟩
    intro i hi
    have hl := scatter_all_unlabeled yenc hany i hi
    refine ⟨(effWeights yenc w)[i]'(by omega), List.getElem?_eq_getElem _, ?_, ?_⟩
    · intro _; simp [hi]
    · intro h; rw [hl] at h; cases h
  | true =>
    simp only [Bool.not_true, Bool.false_eq_true, if_false]
    -- the vote matrix of the labeled rows
    have hs2 : sameShape (selectRows (yenc.map rowLabeled) yenc)
        (effWeights (selectRows (yenc.map rowLabeled) yenc)
          (match w with | none => none | some w => some (selectRows (yenc.map rowLabeled) w))) = true := by
      rw [effWeights_selectRows]
      exact sameShape_selectRows _ _ _ hs
    have hv2 : ∀ r ∈ selectRows (yenc.map rowLabeled) yenc, ∀ e ∈ r, ValidCode K e :=
      fun r hr => hv r (mem_selectRows _ _ _ hr)
    cases hV : computeVoteVectors K (selectRows (yenc.map rowLabeled) yenc)
        (match w with | none => none | some w => some (selectRows (yenc.map rowLabeled) w)) with
    | error e =>
      exfalso
      unfold computeVoteVectors at hV
      rw [if_neg (by omega), hs2] at hV
      simp at hV
    | ok V =>
      simp only
      obtain ⟨-, -, hVl, hVrow⟩ := computeVoteVectors_spec K _ _ V hV hv2
      have hpl : (randArgmaxRows (V.map someRow) noise).length =
          (selectRows (yenc.map rowLabeled) yenc).length := by
        simp [randArgmaxRows, hVl, hn]
      obtain ⟨l1, l2⟩ := scatter_spec yenc _ hpl
      refine ⟨_, rfl, l1, ?_⟩
      intro i hi
      refine ⟨(effWeights yenc w)[i]'(by omega), List.getElem?_eq_getElem _, (l2 i hi).1, ?_⟩
      intro hl
      obtain ⟨k, hk, b1, b2, b3⟩ := (l2 i hi).2 hl
      have hk' : k < (selectRows (yenc.map rowLabeled) yenc).length := by omega
      obtain ⟨row, wi, r1, r2, r3, r4⟩ := hVrow k hk'
      -- identify row k of the labeled sub-matrix with row i of the full matrix
      have e1 : (selectRows (yenc.map rowLabeled) yenc)[k] = yenc[i] := by
        rw [List.getElem?_eq_getElem hk'] at b2; exact Option.some.inj b2
      have e2 : wi = (effWeights yenc w)[i]'(by omega) := by
        rw [effWeights_selectRows, b3, List.getElem?_eq_getElem (by omega)] at r2
        exact (Option.some.inj r2).symm
      have hkV : k < V.length := by omega
      have hkn : k < noise.length := by omega
      have eV : V[k] = row := by
        rw [List.getElem?_eq_getElem hkV] at r1; exact Option.some.inj r1
      obtain ⟨nl, np⟩ := hpos noise[k] (List.getElem_mem _)
      -- the pick of this row
      have hpick : (randArgmaxRows (V.map someRow) noise)[k] = randArgmax (someRow row) noise[k] := by
        simp [randArgmaxRows, eV]
      obtain ⟨m, -, hget, hmax⟩ := Ska.C18.randArgmax_is_max_of_pos (someRow row) noise[k]
        (by simp [someRow, nl, r3]) np (by rw [countSome_someRow]; omega)
      have hget' : row[randArgmax (someRow row) noise[k]]? = some m := by
        have h0 : (someRow row)[randArgmax (someRow row) noise[k]]? = some (some m) := hget
        generalize randArgmax (someRow row) noise[k] = p at h0 ⊢
        simp only [someRow, List.getElem?_map, Option.map_eq_some_iff] at h0
        obtain ⟨a, ha, ham⟩ := h0
        rw [ha, Option.some.inj ham]
      have hlt : randArgmax (someRow row) noise[k] < K := by
        rcases Nat.lt_or_ge (randArgmax (someRow row) noise[k]) K with h | h
        · exact h
        · rw [List.getElem?_eq_none (by omega)] at hget'; cases hget'
      refine ⟨randArgmax (someRow row) noise[k], hlt, by rw [b1, hpick], ?_⟩
      intro c' hc'
      have h1 := r4 c' hc'
      have h2 := r4 _ hlt
      rw [hget'] at h2
      have hm : m = rowVote (randArgmax (someRow row) noise[k]) yenc[i] ((effWeights yenc w)[i]'(by omega)) := by
        rw [← e1, ← e2]; exact Option.some.inj h2
      have hmem : some (rowVote c' (selectRows (yenc.map rowLabeled) yenc)[k] wi) ∈ someRow row := by
        simp only [someRow, List.mem_map, Option.some.injEq, exists_eq_right]
        exact List.mem_of_getElem? h1
      have := hmax _ hmem
      rw [hm, e1, e2] at this
      exact this

end MajoritySpec

/-! ## ext_confusion_matrix -/

section ConfusionL

theorem pairIs_missing (i j : Nat) (t : Int) : pairIs i j (t, -1) = false := by
  simp only [pairIs, Bool.and_eq_false_iff, decide_eq_false_iff_not]
  right; omega

/-- dropping the pairs with a missing prediction does not change any count. -/
theorem labeledPairs_filter (i j : Nat) (ts ps : List Int) :
    (labeledPairs ts ps).filter (pairIs i j) = (ts.zip ps).filter (pairIs i j) := by
  induction ts generalizing ps with
  | nil => simp [labeledPairs]
  | cons t ts ih =>
    cases ps with
    | nil => simp [labeledPairs]
    | cons p ps =>
      simp only [labeledPairs, List.zip_cons_cons]
      by_cases hp : p = -1
      · subst hp
        rw [if_pos rfl, List.filter_cons, pairIs_missing, ih]
        simp
      · rw [if_neg hp, List.filter_cons, List.filter_cons, ih]

theorem confusionCounts_getElem (K : Nat) (pairs : List (Int × Int)) (i j : Nat) (hi : i < K) (hj : j < K) :
    ((confusionCounts K pairs)[i]?.bind (·[j]?)) = some ((pairs.filter (pairIs i j)).length) := by
  simp [confusionCounts, hi, hj]

theorem confusionCounts_shape (K : Nat) (pairs : List (Int × Int)) :
    (confusionCounts K pairs).length = K ∧ ∀ r ∈ confusionCounts K pairs, r.length = K := by
  refine ⟨by simp [confusionCounts], ?_⟩
  intro r hr
  simp only [confusionCounts, List.mem_map] at hr
  obtain ⟨i, -, rfl⟩ := hr
  simp

theorem natSum_eq_sum (l : List Nat) : natSum l = l.sum := by
  induction l with
  | nil => rfl
  | cons x xs ih => simp [natSum] at ih ⊢; omega

variable {α : Type} [Field α]

theorem cast_natSum (l : List Nat) : ((natSum l : Nat) : α) = (l.map (fun (c : Nat) => (c : α))).sum := by
  induction l with
  | nil => simp [natSum]
  | cons x xs ih =>
    have : natSum (x :: xs) = x + natSum xs := rfl
    rw [this, Nat.cast_add, ih]
    simp

theorem sum_map_div (l : List Nat) (s : α) :
    (l.map (fun (c : Nat) => (c : α) / s)).sum = (l.map (fun (c : Nat) => (c : α))).sum / s := by
  induction l with
  | nil => simp
  | cons x xs ih => simp [ih, add_div]

/-- a row of counts divided by its (non-zero) sum adds up to one. -/
theorem normalised_row_sum [CharZero α] (l : List Nat) (h : natSum l ≠ 0) :
    (l.map (fun (c : Nat) => (c : α) / ((natSum l : Nat) : α))).sum = 1 := by
  rw [sum_map_div, ← cast_natSum]
  exact div_self (by exact_mod_cast h)

end ConfusionL

end Ska.Agg
