import Mathlib.Tactic.Linarith
import Mathlib.Tactic.FieldSimp
import Mathlib.Tactic.Ring
import Mathlib.Algebra.Order.Field.Basic
import SkaModel.Core.Budget
import SkaModel.Core.Stream

/-! Helper lemmas about the budget-manager / stream-strategy models. Property theorems live in
`SkaModel/Props/C04.lean`, `C03.lean`, `C10.lean`. -/

set_option linter.unusedSectionVars false

namespace Ska.Budget

/-! ## lists of decisions -/

section Lists
variable {σ ι : Type}

theorem simLoop_length (body : σ → ι → Bool × σ) (xs : List ι) (s : σ) :
    (simLoop body s xs).1.length = xs.length := by
  induction xs generalizing s with
  | nil => rfl
  | cons x xs ih => simp [simLoop, ih]

theorem simLoop_append (body : σ → ι → Bool × σ) (xs ys : List ι) (s : σ) :
    simLoop body s (xs ++ ys) =
      ((simLoop body s xs).1 ++ (simLoop body (simLoop body s xs).2 ys).1,
       (simLoop body (simLoop body s xs).2 ys).2) := by
  induction xs generalizing s with
  | nil => simp [simLoop]
  | cons x xs ih => simp [simLoop, ih]

theorem idxOf_shift (bs : List Bool) (i k : Nat) : idxOf bs (i + k) = (idxOf bs i).map (· + k) := by
  induction bs generalizing i with
  | nil => rfl
  | cons b bs ih =>
    have h := ih (i + 1)
    have e : i + 1 + k = i + k + 1 := by omega
    rw [e] at h
    cases b <;> simp [idxOf, h]

theorem idxOf_append (as bs : List Bool) (i : Nat) :
    idxOf (as ++ bs) i = idxOf as i ++ idxOf bs (i + as.length) := by
  induction as generalizing i with
  | nil => simp [idxOf]
  | cons a as ih =>
    have e : i + 1 + as.length = i + (as.length + 1) := by omega
    cases a <;> simp [idxOf, ih, e]

theorem mem_idxOf (bs : List Bool) (i j : Nat) :
    j ∈ idxOf bs i ↔ i ≤ j ∧ bs[j - i]? = some true := by
  induction bs generalizing i with
  | nil => simp [idxOf]
  | cons b bs ih =>
    cases b
    · simp only [idxOf, Bool.false_eq_true, if_false, ih]
      constructor
      · rintro ⟨h1, h2⟩
        refine ⟨by omega, ?_⟩
        have e : j - i = (j - (i + 1)) + 1 := by omega
        rw [e]; simpa using h2
      · rintro ⟨h1, h2⟩
        rcases Nat.eq_or_lt_of_le h1 with rfl | hlt
        · simp at h2
        · refine ⟨hlt, ?_⟩
          have e : j - i = (j - (i + 1)) + 1 := by omega
          rw [e] at h2; simpa using h2
    · simp only [idxOf, if_true, List.mem_cons, ih]
      constructor
      · rintro (rfl | ⟨h1, h2⟩)
        · simp
        · refine ⟨by omega, ?_⟩
          have e : j - i = (j - (i + 1)) + 1 := by omega
          rw [e]; simpa using h2
      · rintro ⟨h1, h2⟩
        rcases Nat.eq_or_lt_of_le h1 with rfl | hlt
        · left; rfl
        · right
          refine ⟨hlt, ?_⟩
          have e : j - i = (j - (i + 1)) + 1 := by omega
          rw [e] at h2; simpa using h2

theorem idxOf_lt (bs : List Bool) (i j : Nat) (h : j ∈ idxOf bs i) : i ≤ j ∧ j < i + bs.length := by
  obtain ⟨h1, h2⟩ := (mem_idxOf bs i j).mp h
  refine ⟨h1, ?_⟩
  have := (List.getElem?_eq_some_iff.mp h2).1
  omega

/-- the queried indices are strictly increasing -/
theorem idxOf_sorted (bs : List Bool) (i : Nat) : (idxOf bs i).Pairwise (· < ·) := by
  induction bs generalizing i with
  | nil => simp [idxOf]
  | cons b bs ih =>
    cases b
    · simpa [idxOf] using ih (i + 1)
    · simp only [idxOf, if_true, List.pairwise_cons]
      refine ⟨?_, ih (i + 1)⟩
      intro j hj
      have := (idxOf_lt bs (i + 1) j hj).1
      omega

theorem idxOf_contains (bs : List Bool) (j : Nat) (hj : j < bs.length) :
    (idxOf bs 0).contains j = bs[j] := by
  cases hb : bs[j] with
  | true =>
    rw [List.contains_iff_mem.mpr]
    exact (mem_idxOf bs 0 j).mpr ⟨Nat.zero_le _, by simp [List.getElem?_eq_getElem hj, hb]⟩
  | false =>
    cases hc : (idxOf bs 0).contains j with
    | false => rfl
    | true =>
      have := (mem_idxOf bs 0 j).mp (List.contains_iff_mem.mp hc)
      simp [List.getElem?_eq_getElem hj, hb] at this

/-- `update` rebuilds exactly the decisions `query` took: `queried[queried_indices] = 1`. -/
theorem bitsOf_idxOf (bs : List Bool) : bitsOf bs.length (idxOf bs 0) = .ok bs := by
  unfold bitsOf
  have hall : (idxOf bs 0).all (fun i => decide (i < bs.length)) = true := by
    rw [List.all_eq_true]
    intro j hj
    have := (idxOf_lt bs 0 j hj).2
    simpa using this
  rw [if_pos hall]
  congr 1
  apply List.ext_getElem
  · simp
  · intro j h1 h2
    simp only [List.getElem_map, List.getElem_range]
    exact idxOf_contains bs j h2

theorem bitsOf_length (n : Nat) (idx : List Nat) (bits : List Bool) (h : bitsOf n idx = .ok bits) :
    bits.length = n := by
  unfold bitsOf at h
  split at h
  · cases h; simp
  · cases h

theorem idxOf_length (bs : List Bool) (i : Nat) : (idxOf bs i).length = countTrue bs := by
  induction bs generalizing i with
  | nil => rfl
  | cons b bs ih => cases b <;> simp [idxOf, countTrue, ih]

/-- number of queried indices below `n` = number of positive decisions among the first `n` -/
theorem idxOf_filter_lt (bs : List Bool) (i n : Nat) :
    ((idxOf bs i).filter (fun j => decide (j < i + n))).length = countTrue (bs.take n) := by
  induction bs generalizing i n with
  | nil => simp [idxOf, countTrue]
  | cons b bs ih =>
    cases n with
    | zero =>
      have : ∀ j ∈ idxOf (b :: bs) i, ¬ (j < i + 0) := by
        intro j hj; have := (idxOf_lt _ _ _ hj).1; omega
      simp only [List.take_zero, countTrue, List.filter_nil, List.length_nil, List.length_eq_zero_iff,
        List.filter_eq_nil_iff]
      intro j hj; simpa using this j hj
    | succ n =>
      have h := ih (i + 1) n
      have e : i + 1 + n = i + (n + 1) := by omega
      rw [e] at h
      cases b
      · simpa [idxOf, countTrue] using h
      · simp only [idxOf, if_true, List.take_succ_cons, countTrue, List.filter_cons, id]
        have hi : decide (i < i + (n + 1)) = true := by simp
        simp only [hi, if_true, List.length_cons]
        simp only [countTrue] at h
        rw [h]

end Lists

/-! ## the chunked protocol equals the instance-by-instance process -/

section Chunks
variable {σ ι : Type}

/-- `M` *refines* the per-instance process `step`: `query` reports the decisions of the simulated
steps and leaves the object as it was, `update` with those decisions commits the simulated state. -/
structure Refines (M : Mgr σ ι) (step : σ → ι → Bool × σ) : Prop where
  query_eq : ∀ s xs, M.query s xs = (idxOf (simLoop step s xs).1 0, s)
  update_eq : ∀ s xs, M.update s xs (idxOf (simLoop step s xs).1 0) = .ok (simLoop step s xs).2

theorem runChunked_eq {M : Mgr σ ι} {step : σ → ι → Bool × σ} (h : Refines M step)
    (chunks : List (List ι)) (s : σ) (off : Nat) :
    runChunked M s chunks off =
      .ok ((idxOf (simLoop step s chunks.flatten).1 0).map (· + off), (simLoop step s chunks.flatten).2) := by
  induction chunks generalizing s off with
  | nil => simp [runChunked, simLoop, idxOf]
  | cons c cs ih =>
    simp only [runChunked, h.query_eq, h.update_eq, ih, List.flatten_cons, simLoop_append, idxOf_append,
      List.map_append, Nat.zero_add, simLoop_length]
    congr 2
    have := idxOf_shift (simLoop step (simLoop step s c).2 cs.flatten).1 0 c.length
    rw [Nat.zero_add] at this
    rw [this, List.map_map]
    congr 1
    apply List.map_congr_left
    intro j _
    simp only [Function.comp]
    omega

/-- commit the decisions `bits` of the instances `xs` one by one -/
def commit (ustep : σ → ι → Bool → σ) : σ → List ι → List Bool → σ
  | s, x :: xs, q :: qs => commit ustep (ustep s x q) xs qs
  | s, _, _ => s

theorem commit_simLoop (step : σ → ι → Bool × σ) (ustep : σ → ι → Bool → σ)
    (h : ∀ s x, ustep s x (step s x).1 = (step s x).2) (xs : List ι) (s : σ) :
    commit ustep s xs (simLoop step s xs).1 = (simLoop step s xs).2 := by
  induction xs generalizing s with
  | nil => rfl
  | cons x xs ih => simp [simLoop, commit, h, ih]

/-! ## histories with extra queries -/

def PureQ (M : Mgr σ ι) : Prop := ∀ s xs, (M.query s xs).2 = s

theorem runMarked_extra {M : Mgr σ ι} (hp : PureQ M) (ops : List (Bool × Op ι))
    (hq : ∀ o ∈ ops, o.1 = true → isQueryOp o.2 = true) (s : σ) :
    ((runMarked M s ops).1.filter notExtra).map (·.2) = (runOps M s ((ops.filter notExtra).map (·.2))).1 ∧
    (runMarked M s ops).2 = (runOps M s ((ops.filter notExtra).map (·.2))).2 := by
  induction ops generalizing s with
  | nil => simp [runMarked, runOps]
  | cons o ops ih =>
    have hq' : ∀ o ∈ ops, o.1 = true → isQueryOp o.2 = true := fun o ho => hq o (List.mem_cons_of_mem _ ho)
    obtain ⟨m, op⟩ := o
    cases op with
    | query xs =>
      cases m with
      | true =>
        have := ih hq' (M.query s xs).2
        rw [hp s xs] at this
        simpa [runMarked, notExtra, hp s xs] using this
      | false =>
        have := ih hq' (M.query s xs).2
        simp only [runMarked, notExtra, List.filter_cons, Bool.not_false, if_true, List.map_cons, runOps]
        exact ⟨by rw [this.1], this.2⟩
    | update xs idx =>
      cases m with
      | true =>
        have := hq (true, Op.update xs idx) (List.mem_cons_self) rfl
        simp [isQueryOp] at this
      | false =>
        simp only [runMarked, notExtra, List.filter_cons, Bool.not_false, if_true, List.map_cons, runOps]
        cases hu : M.update s xs idx with
        | ok s' =>
          have := ih hq' s'
          exact ⟨by simp [notExtra, this.1], this.2⟩
        | error e =>
          have := ih hq' s
          exact ⟨by simp [notExtra, this.1], this.2⟩

end Chunks

end Ska.Budget

namespace Ska.Budget

/-! ## the Žliobaitė family: query reports the simulated decisions, update commits them -/

theorem zQuery_eq {α : Type} (body : ZState α → Option α → Bool × ZState α) (s : ZState α) (us : List (Option α)) :
    zQuery body s us = (idxOf (simLoop body s us).1 0, s) := by
  cases s; rfl

theorem bitsOf_sim {σ ι : Type} (step : σ → ι → Bool × σ) (s : σ) (xs : List ι) :
    bitsOf xs.length (idxOf (simLoop step s xs).1 0) = .ok (simLoop step s xs).1 := by
  have := bitsOf_idxOf (simLoop step s xs).1
  rwa [simLoop_length] at this

section ZRef
variable {α : Type} [Add α] [Sub α] [Mul α] [Div α] [LT α] [DecidableLT α] [OfNat α 0] [OfNat α 1]

theorem fixed_commit (p : ZParams α) (xs : List (Option α)) (s : ZState α) :
    ({ s with u := uPass p.w s.u (simLoop (fixedBody p) s xs).1 } : ZState α) = (simLoop (fixedBody p) s xs).2 := by
  induction xs generalizing s with
  | nil => cases s; rfl
  | cons x xs ih =>
    simp only [simLoop, uPass]
    rw [← ih]
    simp [fixedBody]

theorem var_commit (p : ZParams α) (xs : List (Option α)) (s : ZState α) :
    ({ s with theta := thetaPass p s.u s.theta (simLoop (varBody p) s xs).1,
              u := uPass p.w s.u (simLoop (varBody p) s xs).1 } : ZState α) = (simLoop (varBody p) s xs).2 := by
  induction xs generalizing s with
  | nil => cases s; rfl
  | cons x xs ih =>
    simp only [simLoop, uPass, thetaPass]
    rw [← ih]
    unfold varBody
    cases hb : budgetLeft p.w p.b s.u <;> simp

theorem split_commit (p : ZParams α) (uni : Nat → α) (xs : List (Option α)) (s : ZState α) :
    (simLoop (splitBody p uni) s xs).1.foldl (splitUBody p uni) s = (simLoop (splitBody p uni) s xs).2 := by
  induction xs generalizing s with
  | nil => rfl
  | cons x xs ih =>
    simp only [simLoop, List.foldl_cons]
    rw [← ih]
    congr 1
    unfold splitBody splitUBody
    cases hb : budgetLeft p.w p.b s.u
    · simp
    · by_cases hv : uni s.rng < p.v <;> simp [hv]

theorem random_commit (p : ZParams α) (uni : Nat → α) (xs : List (Option α)) (s : ZState α) :
    ({ s with rng := s.rng + xs.length, u := uPass p.w s.u (simLoop (randomBody p uni) s xs).1 } : ZState α)
      = (simLoop (randomBody p uni) s xs).2 := by
  induction xs generalizing s with
  | nil => cases s; rfl
  | cons x xs ih =>
    simp only [simLoop, uPass, List.length_cons]
    rw [← ih]
    simp only [randomBody]
    congr 1
    omega

theorem fixed_refines (p : ZParams α) : Refines (fixedMgr p) (fixedBody p) where
  query_eq := zQuery_eq _
  update_eq := by
    intro s xs
    simp only [fixedMgr, fixedUpdate, bitsOf_sim, fixed_commit]

theorem var_refines (p : ZParams α) : Refines (varMgr p) (varBody p) where
  query_eq := zQuery_eq _
  update_eq := by
    intro s xs
    simp only [varMgr, varUpdate, bitsOf_sim, var_commit]

theorem split_refines (p : ZParams α) (uni : Nat → α) : Refines (splitMgr p uni) (splitBody p uni) where
  query_eq := zQuery_eq _
  update_eq := by
    intro s xs
    simp only [splitMgr, splitUpdate, bitsOf_sim, split_commit]

theorem random_refines (p : ZParams α) (uni : Nat → α) : Refines (randomMgr p uni) (randomBody p uni) where
  query_eq := zQuery_eq _
  update_eq := by
    intro s xs
    simp only [randomMgr, randomUpdate, bitsOf_sim, random_commit]

/-- `u_t_` after the split manager's update loop is the decayed count of the committed bits -/
theorem split_foldl_u (p : ZParams α) (uni : Nat → α) (bits : List Bool) (s : ZState α) :
    (bits.foldl (splitUBody p uni) s).u = uPass p.w s.u bits := by
  induction bits generalizing s with
  | nil => rfl
  | cons q qs ih =>
    simp only [List.foldl_cons, uPass, ih]
    congr 1
    unfold splitUBody
    cases hb : budgetLeft p.w p.b s.u
    · simp
    · by_cases hv : uni s.rng < p.v <;> simp [hv]

end ZRef

end Ska.Budget

namespace Ska.Budget

/-! ## the guarded decayed counter (C04) -/

section Bound
variable {α : Type} [Field α] [LinearOrder α] [IsStrictOrderedRing α]

/-- the decisions `ds` respect the guard along the `u_t` trajectory they generate from `u`:
a label is granted only while `u_t / w < b`. -/
def Resp (w b : α) : α → List Bool → Prop
  | _, [] => True
  | u, g :: gs => (g = true → u / w < b) ∧ Resp w b (nextU w u g) gs

/-- `Σ_t u_t` along the trajectory -/
def uSum (w : α) : α → List Bool → α
  | _, [] => 0
  | u, g :: gs => u + uSum w (nextU w u g) gs

theorem nextU_bounds (w b u : α) (hw : 1 ≤ w) (g : Bool) (h0 : 0 ≤ u) (h1 : u < b * w + 1)
    (hg : g = true → u / w < b) : 0 ≤ nextU w u g ∧ nextU w u g < b * w + 1 := by
  have hwpos : 0 < w := lt_of_lt_of_le one_pos hw
  unfold nextU
  have hfrac : 0 ≤ (w - 1) / w := div_nonneg (by linarith) hwpos.le
  have hfrac1 : (w - 1) / w ≤ 1 := by rw [div_le_one hwpos]; linarith
  have hmul : u * ((w - 1) / w) ≤ u := by
    calc u * ((w - 1) / w) ≤ u * 1 := mul_le_mul_of_nonneg_left hfrac1 h0
      _ = u := mul_one u
  constructor
  · have := mul_nonneg h0 hfrac
    split <;> linarith
  · cases g with
    | false => simp; linarith
    | true =>
      simp
      have hgt : u / w < b := hg rfl
      have hub : u < b * w := by rwa [div_lt_iff₀ hwpos] at hgt
      linarith

theorem decay_core (w b : α) (hw : 1 ≤ w) (ds : List Bool) :
    ∀ u, 0 ≤ u → u < b * w + 1 → Resp w b u ds →
      0 ≤ uPass w u ds ∧ uPass w u ds < b * w + 1 ∧
      (countTrue ds : α) + u = uPass w u ds + uSum w u ds / w ∧
      uSum w u ds ≤ ds.length * (b * w + 1) := by
  induction ds with
  | nil => intro u h0 h1 _; simp [uPass, uSum, countTrue]; exact ⟨h0, h1⟩
  | cons g gs ih =>
    intro u h0 h1 hr
    have hwpos : 0 < w := lt_of_lt_of_le one_pos hw
    obtain ⟨hg, hr'⟩ := hr
    obtain ⟨n0, n1⟩ := nextU_bounds w b u hw g h0 h1 hg
    obtain ⟨i0, i1, i2, i3⟩ := ih (nextU w u g) n0 n1 hr'
    simp only [uPass, uSum]
    refine ⟨i0, i1, ?_, ?_⟩
    · have e : nextU w u g = u - u / w + (if g then 1 else 0) := by
        unfold nextU; field_simp
      have hc : (countTrue (g :: gs) : α) = (if g then 1 else 0) + (countTrue gs : α) := by
        cases g <;> simp [countTrue]
        ring
      rw [hc, add_div]
      linarith [i2, e]
    · simp only [List.length_cons]; push_cast
      nlinarith [i3, h1]

/-- **Bound for the guarded decayed counter**: however the decisions are taken, as long as a label is
granted only while `u_t / w < b`, fewer than `b n + n/w + b w + 1` labels are granted in `n` steps. -/
theorem decay_bound (w b : α) (hw : 1 ≤ w) (ds : List Bool) (u : α) (h0 : 0 ≤ u) (h1 : u < b * w + 1)
    (hr : Resp w b u ds) :
    (countTrue ds : α) < b * ds.length + ds.length / w + b * w + 1 := by
  have hwpos : 0 < w := lt_of_lt_of_le one_pos hw
  obtain ⟨i0, i1, i2, i3⟩ := decay_core w b hw ds u h0 h1 hr
  have hs : uSum w u ds / w ≤ b * ds.length + ds.length / w := by
    rw [div_le_iff₀ hwpos]
    have : (b * (ds.length : α) + (ds.length : α) / w) * w = ds.length * (b * w + 1) := by
      field_simp
    rw [this]; exact i3
  linarith

/-- the fresh state `u_t_ = 0` lies in the invariant range -/
theorem fresh_ok (w b : α) (hw : 1 ≤ w) (hb : 0 < b) : (0 : α) < b * w + 1 := by
  have : 0 < b * w := mul_pos hb (lt_of_lt_of_le one_pos hw)
  linarith

theorem Resp_append (w b : α) (xs ys : List Bool) (u : α) :
    Resp w b u (xs ++ ys) ↔ Resp w b u xs ∧ Resp w b (uPass w u xs) ys := by
  induction xs generalizing u with
  | nil => simp [Resp, uPass]
  | cons x xs ih => simp [Resp, uPass, ih, and_assoc]

theorem uPass_append (w : α) (xs ys : List Bool) (u : α) :
    uPass w u (xs ++ ys) = uPass w (uPass w u xs) ys := by
  induction xs generalizing u with
  | nil => rfl
  | cons x xs ih => simp [uPass, ih]

theorem Resp_take (w b : α) (ds : List Bool) (u : α) (n : Nat) (h : Resp w b u ds) : Resp w b u (ds.take n) := by
  have := (Resp_append w b (ds.take n) (ds.drop n) u).mp (by rwa [List.take_append_drop])
  exact this.1

/-- A per-instance process is *guarded* by the decayed counter `proj`. -/
structure Guarded {σ ι : Type} (step : σ → ι → Bool × σ) (proj : σ → α) (w b : α) : Prop where
  guard : ∀ s x, (step s x).1 = true → proj s / w < b
  next : ∀ s x, proj (step s x).2 = nextU w (proj s) (step s x).1

theorem guarded_resp {σ ι : Type} {step : σ → ι → Bool × σ} {proj : σ → α} {w b : α}
    (h : Guarded step proj w b) (xs : List ι) (s : σ) :
    Resp w b (proj s) (simLoop step s xs).1 ∧ proj (simLoop step s xs).2 = uPass w (proj s) (simLoop step s xs).1 := by
  induction xs generalizing s with
  | nil => simp [simLoop, Resp, uPass]
  | cons x xs ih =>
    obtain ⟨i1, i2⟩ := ih (step s x).2
    simp only [simLoop, Resp, uPass]
    rw [h.next] at i1 i2
    exact ⟨⟨h.guard s x, i1⟩, i2⟩

/-- the reference process of DESIGN §4/C04: an adversary proposes `want`, the guard decides -/
def gBody (w b : α) (u : α) (want : Bool) : Bool × α :=
  (budgetLeft w b u && want, nextU w u (budgetLeft w b u && want))

theorem gBody_guarded (w b : α) : Guarded (gBody w b) id w b where
  guard := by
    intro s x h
    simp only [gBody, budgetLeft, Bool.and_eq_true, decide_eq_true_eq] at h
    exact h.1
  next := by intro s x; rfl

/-- every guarded process is the reference process driven by some stream of "wanted" bits
(its own decisions) -/
theorem guarded_is_gRun {σ ι : Type} {step : σ → ι → Bool × σ} {proj : σ → α} {w b : α}
    (h : Guarded step proj w b) (xs : List ι) (s : σ) :
    (simLoop (gBody w b) (proj s) (simLoop step s xs).1).1 = (simLoop step s xs).1 ∧
    (simLoop (gBody w b) (proj s) (simLoop step s xs).1).2 = proj (simLoop step s xs).2 := by
  induction xs generalizing s with
  | nil => simp [simLoop]
  | cons x xs ih =>
    obtain ⟨i1, i2⟩ := ih (step s x).2
    have hg : (budgetLeft w b (proj s) && (step s x).1) = (step s x).1 := by
      cases hd : (step s x).1 with
      | false => simp
      | true => simp [budgetLeft, h.guard s x hd]
    simp only [simLoop, gBody, hg]
    rw [h.next] at i1 i2
    exact ⟨by rw [i1], i2⟩

end Bound

end Ska.Budget

namespace Ska.Budget

theorem countTrue_append (a b : List Bool) : countTrue (a ++ b) = countTrue a + countTrue b := by
  simp [countTrue, List.filter_append]

theorem countTrue_cons (d : Bool) (ds : List Bool) : countTrue (d :: ds) = (if d then 1 else 0) + countTrue ds := by
  cases d <;> simp [countTrue]; omega

/-! ## managers guarded by the decayed counter, under any chunking -/

section GM
variable {α : Type} [Field α] [LinearOrder α] [IsStrictOrderedRing α]
variable {σ ι : Type}

/-- what C04 needs of a manager: on every chunk, `query` reports decisions that respect the guard from
the committed `u_t_`, leaves the object unchanged, and `update` with these decisions succeeds and
commits exactly the decayed count. -/
structure GuardedMgr (M : Mgr σ ι) (proj : σ → α) (w b : α) : Prop where
  sim : ∀ s xs, ∃ ds s', ds.length = xs.length ∧ Resp w b (proj s) ds ∧ M.query s xs = (idxOf ds 0, s) ∧
      M.update s xs (idxOf ds 0) = .ok s' ∧ proj s' = uPass w (proj s) ds

theorem guardedMgr_of_refines {M : Mgr σ ι} {step : σ → ι → Bool × σ} {proj : σ → α} {w b : α}
    (hr : Refines M step) (hg : Guarded step proj w b) : GuardedMgr M proj w b where
  sim := by
    intro s xs
    obtain ⟨h1, h2⟩ := guarded_resp hg xs s
    exact ⟨(simLoop step s xs).1, (simLoop step s xs).2, simLoop_length _ _ _, h1, hr.query_eq s xs,
      hr.update_eq s xs, h2⟩

theorem guardedMgr_chunked {M : Mgr σ ι} {proj : σ → α} {w b : α} (h : GuardedMgr M proj w b)
    (chunks : List (List ι)) (s : σ) (off : Nat) :
    ∃ ds r, runChunked M s chunks off = .ok r ∧ r.1 = (idxOf ds 0).map (· + off) ∧
      ds.length = chunks.flatten.length ∧ Resp w b (proj s) ds ∧ proj r.2 = uPass w (proj s) ds := by
  induction chunks generalizing s off with
  | nil => exact ⟨[], ([], s), by simp [runChunked], by simp [idxOf], by simp, by simp [Resp], by simp [uPass]⟩
  | cons c cs ih =>
    obtain ⟨ds1, s1, hl1, hr1, hq, hu, hp1⟩ := h.sim s c
    obtain ⟨ds2, r2, hrun, hidx, hl2, hr2, hp2⟩ := ih s1 (off + c.length)
    refine ⟨ds1 ++ ds2, ((idxOf ds1 0).map (· + off) ++ r2.1, r2.2), ?_, ?_, ?_, ?_, ?_⟩
    · simp only [runChunked, hq, hu, hrun]
    · simp only [idxOf_append, List.map_append, Nat.zero_add, hidx]
      congr 1
      have := idxOf_shift ds2 0 ds1.length
      rw [Nat.zero_add] at this
      rw [this, List.map_map, hl1]
      apply List.map_congr_left
      intro j _
      simp only [Function.comp]
      omega
    · simp [hl1, hl2]
    · rw [Resp_append, ← hp1]; exact ⟨hr1, hr2⟩
    · simp only [hp2, hp1, uPass_append]

/-- **C04 for the window-based managers, any chunking, every prefix.** -/
theorem guardedMgr_bound {M : Mgr σ ι} {proj : σ → α} {w b : α} (h : GuardedMgr M proj w b) (hw : 1 ≤ w)
    (s : σ) (h0 : 0 ≤ proj s) (h1 : proj s < b * w + 1) (chunks : List (List ι)) :
    ∃ r, runChunked M s chunks 0 = .ok r ∧
      ∀ n, n ≤ chunks.flatten.length →
        (((r.1.filter (fun j => decide (j < n))).length : Nat) : α) < b * n + n / w + b * w + 1 := by
  obtain ⟨ds, r, hrun, hidx, hl, hr, -⟩ := guardedMgr_chunked h chunks s 0
  refine ⟨r, hrun, ?_⟩
  intro n hn
  have hidx' : r.1 = idxOf ds 0 := by simpa using hidx
  have hc := idxOf_filter_lt ds 0 n
  simp only [Nat.zero_add] at hc
  rw [hidx', hc]
  have hlen : (ds.take n).length = n := by simp [List.length_take]; omega
  have := decay_bound w b hw (ds.take n) (proj s) h0 h1 (Resp_take w b ds _ n hr)
  rwa [hlen] at this

end GM

/-! ## the five window-based managers are guarded -/

section ZG
variable {α : Type} [Field α] [LinearOrder α] [IsStrictOrderedRing α]

theorem fixed_guarded (p : ZParams α) : Guarded (fixedBody p) ZState.u p.w p.b where
  guard := by
    intro s x h
    simp only [fixedBody, budgetLeft, Bool.and_eq_true, decide_eq_true_eq] at h
    exact h.1
  next := by intro s x; rfl

theorem var_guarded (p : ZParams α) : Guarded (varBody p) ZState.u p.w p.b where
  guard := by
    intro s x h
    unfold varBody at h
    cases hb : budgetLeft p.w p.b s.u with
    | true => simpa [budgetLeft] using hb
    | false => simp [hb] at h
  next := by
    intro s x
    unfold varBody
    cases hb : budgetLeft p.w p.b s.u <;> simp

theorem randVar_guarded (p : ZParams α) (nrm : Nat → α) : Guarded (randVarBody p nrm) ZState.u p.w p.b where
  guard := by
    intro s x h
    unfold randVarBody at h
    cases hb : budgetLeft p.w p.b s.u with
    | true => simpa [budgetLeft] using hb
    | false => simp [hb] at h
  next := by
    intro s x
    unfold randVarBody
    cases hb : budgetLeft p.w p.b s.u <;> simp

theorem split_guarded (p : ZParams α) (uni : Nat → α) : Guarded (splitBody p uni) ZState.u p.w p.b where
  guard := by
    intro s x h
    unfold splitBody at h
    cases hb : budgetLeft p.w p.b s.u with
    | true => simpa [budgetLeft] using hb
    | false => simp [hb] at h
  next := by
    intro s x
    unfold splitBody
    cases hb : budgetLeft p.w p.b s.u
    · simp
    · by_cases hv : uni s.rng < p.v <;> simp [hv]

theorem random_guarded (p : ZParams α) (uni : Nat → α) : Guarded (randomBody p uni) ZState.u p.w p.b where
  guard := by
    intro s x h
    simp only [randomBody, budgetLeft, Bool.and_eq_true, decide_eq_true_eq] at h
    exact h.1.1
  next := by intro s x; rfl

theorem randVar_guardedMgr (p : ZParams α) (nrm : Nat → α) :
    GuardedMgr (randVarMgr p nrm) ZState.u p.w p.b where
  sim := by
    intro s xs
    obtain ⟨h1, -⟩ := guarded_resp (randVar_guarded p nrm) xs s
    refine ⟨(simLoop (randVarBody p nrm) s xs).1,
      { u := uPass p.w s.u (simLoop (randVarBody p nrm) s xs).1,
        theta := thetaPass p s.u s.theta (simLoop (randVarBody p nrm) s xs).1, rng := s.rng + xs.length },
      simLoop_length _ _ _, h1, zQuery_eq _ s xs, ?_, rfl⟩
    simp only [randVarMgr, randVarUpdate, bitsOf_sim]

end ZG

end Ska.Budget

namespace Ska.Budget

theorem draws_length {α : Type} (uni : Nat → α) (c n : Nat) : (draws uni c n).length = n := by
  induction n generalizing c with
  | zero => rfl
  | succ n ih => simp [draws, ih]

/-! ## managers with exact counters (density-based split, periodic, strict random sampling) -/

section CM
variable {σ ι : Type}

/-- on every chunk from a state whose counters satisfy `Bnd`, `query` reports decisions `ds`, leaves the
object unchanged, `update` commits the counters, and `Bnd` holds at every prefix of the chunk. -/
structure CounterMgr (M : Mgr σ ι) (seen granted : σ → Nat) (Bnd : Nat → Nat → Prop) : Prop where
  sim : ∀ s xs, Bnd (granted s) (seen s) → ∃ ds s', ds.length = xs.length ∧ M.query s xs = (idxOf ds 0, s) ∧
      M.update s xs (idxOf ds 0) = .ok s' ∧ seen s' = seen s + xs.length ∧
      granted s' = granted s + countTrue ds ∧
      ∀ n, n ≤ xs.length → Bnd (granted s + countTrue (ds.take n)) (seen s + n)

theorem counterMgr_chunked {M : Mgr σ ι} {seen granted : σ → Nat} {Bnd : Nat → Nat → Prop}
    (h : CounterMgr M seen granted Bnd) (chunks : List (List ι)) (s : σ) (off : Nat)
    (hB : Bnd (granted s) (seen s)) :
    ∃ ds r, runChunked M s chunks off = .ok r ∧ r.1 = (idxOf ds 0).map (· + off) ∧
      ds.length = chunks.flatten.length ∧ seen r.2 = seen s + ds.length ∧
      granted r.2 = granted s + countTrue ds ∧
      ∀ n, n ≤ ds.length → Bnd (granted s + countTrue (ds.take n)) (seen s + n) := by
  induction chunks generalizing s off with
  | nil =>
    refine ⟨[], ([], s), by simp [runChunked], by simp [idxOf], by simp, by simp, by simp [countTrue], ?_⟩
    intro n hn
    have : n = 0 := by simpa using hn
    subst this
    simpa [countTrue] using hB
  | cons c cs ih =>
    obtain ⟨ds1, s1, hl1, hq, hu, hs1, hg1, hb1⟩ := h.sim s c hB
    have hB1 : Bnd (granted s1) (seen s1) := by
      have := hb1 c.length (Nat.le_refl _)
      rw [← hl1, List.take_length] at this
      rw [hg1, hs1, ← hl1]; exact this
    obtain ⟨ds2, r2, hrun, hidx, hl2, hs2, hg2, hb2⟩ := ih s1 (off + c.length) hB1
    refine ⟨ds1 ++ ds2, ((idxOf ds1 0).map (· + off) ++ r2.1, r2.2), ?_, ?_, ?_, ?_, ?_, ?_⟩
    · simp only [runChunked, hq, hu, hrun]
    · simp only [idxOf_append, List.map_append, Nat.zero_add, hidx]
      congr 1
      have := idxOf_shift ds2 0 ds1.length
      rw [Nat.zero_add] at this
      rw [this, List.map_map, hl1]
      apply List.map_congr_left
      intro j _
      simp only [Function.comp]
      omega
    · simp [hl1, hl2]
    · simp only [hs2, hs1, List.length_append, hl1]; omega
    · simp only [hg2, hg1, countTrue_append]; omega
    · intro n hn
      rcases Nat.le_total n ds1.length with hle | hge
      · rw [List.take_append_of_le_length hle]
        exact hb1 n (by omega)
      · have hn2 : n - ds1.length ≤ ds2.length := by simp at hn; omega
        have := hb2 (n - ds1.length) hn2
        rw [List.take_append, List.take_of_length_le hge, countTrue_append]
        rw [hg1, hs1, ← hl1] at this
        have e1 : granted s + countTrue ds1 + countTrue (List.take (n - ds1.length) ds2)
            = granted s + (countTrue ds1 + countTrue (List.take (n - ds1.length) ds2)) := by omega
        have e2 : seen s + ds1.length + (n - ds1.length) = seen s + n := by omega
        rw [e1, e2] at this
        exact this

/-- the bound at every prefix of the whole stream, counted on the returned indices -/
theorem counterMgr_bound {M : Mgr σ ι} {seen granted : σ → Nat} {Bnd : Nat → Nat → Prop}
    (h : CounterMgr M seen granted Bnd) (chunks : List (List ι)) (s : σ)
    (hB : Bnd (granted s) (seen s)) :
    ∃ r, runChunked M s chunks 0 = .ok r ∧
      ∀ n, n ≤ chunks.flatten.length →
        Bnd (granted s + (r.1.filter (fun j => decide (j < n))).length) (seen s + n) := by
  obtain ⟨ds, r, hrun, hidx, hl, -, -, hb⟩ := counterMgr_chunked h chunks s 0 hB
  refine ⟨r, hrun, ?_⟩
  intro n hn
  have hidx' : r.1 = idxOf ds 0 := by simpa using hidx
  have hc := idxOf_filter_lt ds 0 n
  simp only [Nat.zero_add] at hc
  rw [hidx', hc]
  exact hb n (by omega)

end CM

section Counters
variable {α : Type} [Field α] [LinearOrder α] [IsStrictOrderedRing α]

/-! ### DensityBasedSplitBudgetManager: `u < b t + 1` -/

def dbBnd (b : α) (g t : Nat) : Prop := (g : α) < b * (t : α) + 1

theorem db_step (p : DParams α) (hb : 0 ≤ p.b) (nrm : Nat → α) (s : DState α) (x : Option α)
    (h : dbBnd p.b s.u s.t) :
    (dbBody p nrm s x).2.t = s.t + 1 ∧
    (dbBody p nrm s x).2.u = s.u + (if (dbBody p nrm s x).1 then 1 else 0) ∧
    dbBnd p.b (dbBody p nrm s x).2.u (dbBody p nrm s x).2.t := by
  have hexp : p.b * (((s.t + 1 : Nat) : α)) = p.b * (s.t : α) + p.b := by push_cast; ring
  unfold dbBnd at *
  cases hl : dbLeft p.b s.u (s.t + 1) with
  | false =>
    simp only [dbBody, hl]
    refine ⟨rfl, by simp, ?_⟩
    simp only [Bool.false_eq_true, if_false]
    rw [hexp]; linarith
  | true =>
    have hl' : (s.u : α) / ((s.t + 1 : Nat) : α) < p.b := by simpa [dbLeft] using hl
    have hpos : (0 : α) < ((s.t + 1 : Nat) : α) := by exact_mod_cast Nat.succ_pos _
    rw [div_lt_iff₀ hpos] at hl'
    simp only [dbBody, hl, if_true, true_and]
    cases ltO (conf x) (s.theta * nrm s.rng) with
    | false => simp only [Bool.false_eq_true, if_false, Nat.add_zero]; linarith
    | true => simp only [if_true]; push_cast at hl' ⊢; linarith

theorem db_loop (p : DParams α) (hb : 0 ≤ p.b) (nrm : Nat → α) (xs : List (Option α)) (s : DState α)
    (h : dbBnd p.b s.u s.t) :
    (simLoop (dbBody p nrm) s xs).2.t = s.t + xs.length ∧
    (simLoop (dbBody p nrm) s xs).2.u = s.u + countTrue (simLoop (dbBody p nrm) s xs).1 ∧
    ∀ n, n ≤ xs.length → dbBnd p.b (s.u + countTrue ((simLoop (dbBody p nrm) s xs).1.take n)) (s.t + n) := by
  induction xs generalizing s with
  | nil =>
    refine ⟨by simp [simLoop], by simp [simLoop, countTrue], ?_⟩
    intro n hn
    have : n = 0 := by simpa using hn
    subst this; simpa [countTrue] using h
  | cons x xs ih =>
    obtain ⟨ht, hu, hB⟩ := db_step p hb nrm s x h
    obtain ⟨i1, i2, i3⟩ := ih (dbBody p nrm s x).2 hB
    simp only [simLoop, List.length_cons, countTrue_cons]
    refine ⟨by rw [i1, ht]; omega, by rw [i2, hu]; omega, ?_⟩
    intro n hn
    cases n with
    | zero => simpa [countTrue] using h
    | succ m =>
      have := i3 m (by omega)
      rw [ht, hu] at this
      simp only [List.take_succ_cons, countTrue_cons]
      have e1 : s.u + ((if (dbBody p nrm s x).1 = true then 1 else 0) +
          countTrue (List.take m (simLoop (dbBody p nrm) (dbBody p nrm s x).2 xs).1))
          = s.u + (if (dbBody p nrm s x).1 = true then 1 else 0) +
          countTrue (List.take m (simLoop (dbBody p nrm) (dbBody p nrm s x).2 xs).1) := by omega
      have e2 : s.t + (m + 1) = s.t + 1 + m := by omega
      rw [e1, e2]; exact this

theorem db_foldl (p : DParams α) (bits : List Bool) (s : DState α) :
    (bits.foldl (dbUBody p) s).u = s.u + countTrue bits ∧ (bits.foldl (dbUBody p) s).t = s.t + bits.length := by
  induction bits generalizing s with
  | nil => simp [countTrue]
  | cons q qs ih =>
    obtain ⟨i1, i2⟩ := ih (dbUBody p s q)
    rw [List.foldl_cons, i1, i2]
    simp only [dbUBody, countTrue_cons, List.length_cons]
    constructor <;> omega

theorem db_counterMgr (p : DParams α) (hb : 0 ≤ p.b) (nrm : Nat → α) :
    CounterMgr (dbMgr p nrm) DState.t DState.u (dbBnd p.b) where
  sim := by
    intro s xs hB
    obtain ⟨h1, h2, h3⟩ := db_loop p hb nrm xs s hB
    obtain ⟨f1, f2⟩ := db_foldl p (simLoop (dbBody p nrm) s xs).1 { s with rng := s.rng + xs.length }
    refine ⟨(simLoop (dbBody p nrm) s xs).1,
      (simLoop (dbBody p nrm) s xs).1.foldl (dbUBody p) { s with rng := s.rng + xs.length },
      simLoop_length _ _ _, ?_, ?_, ?_, ?_, h3⟩
    · cases s; rfl
    · simp only [dbMgr, dbUpdate, bitsOf_sim]
    · rw [f2, simLoop_length]
    · rw [f1]

/-! ### PeriodicSampling: `queried ≤ b * observed`; strict StreamRandomSampling: the same bound -/

def leBnd (b : α) (g t : Nat) : Prop := (g : α) ≤ b * (t : α)

theorem per_step (b : α) (hb : 0 ≤ b) (s : CState) (x : Unit) (h : leBnd b s.qd s.obs) :
    (perBody b s x).2.obs = s.obs + 1 ∧ (perBody b s x).2.qd = s.qd + (if (perBody b s x).1 then 1 else 0) ∧
    (perBody b s x).2.rng = s.rng ∧ leBnd b (perBody b s x).2.qd (perBody b s x).2.obs := by
  unfold perBody leBnd at *
  simp only [true_and]
  cases hq : leB (1 : α) (((s.obs + 1 : Nat) : α) * b - (s.qd : α)) with
  | false => simp; nlinarith
  | true =>
    simp only [if_true]
    have : ¬ (((s.obs + 1 : Nat) : α) * b - (s.qd : α) < 1) := by simpa [leB] using hq
    push_cast at this ⊢
    linarith [not_lt.mp this]

theorem srs_step (b : α) (hb : 0 ≤ b) (s : CState) (x : α) (h : leBnd b s.qd s.obs) :
    (srsBody false b s x).2.obs = s.obs + 1 ∧
    (srsBody false b s x).2.qd = s.qd + (if (srsBody false b s x).1 then 1 else 0) ∧
    (srsBody false b s x).2.rng = s.rng ∧ leBnd b (srsBody false b s x).2.qd (srsBody false b s x).2.obs := by
  unfold srsBody leBnd at *
  simp only [true_and, Bool.false_or]
  cases hq : (decide ((1 : α) < ((s.obs + 1 : Nat) : α) * b - (s.qd : α)) && leB (1 - b) x) with
  | false => simp; nlinarith
  | true =>
    simp only [if_true]
    have : (1 : α) < ((s.obs + 1 : Nat) : α) * b - (s.qd : α) := by
      simp only [Bool.and_eq_true, decide_eq_true_eq] at hq; exact hq.1
    push_cast at this ⊢
    linarith

/-- a loop over a body that keeps the two counters exactly and preserves `Bnd` -/
theorem counter_loop {ι : Type} (body : CState → ι → Bool × CState) (Bnd : Nat → Nat → Prop)
    (hstep : ∀ s x, Bnd s.qd s.obs → (body s x).2.obs = s.obs + 1 ∧
      (body s x).2.qd = s.qd + (if (body s x).1 then 1 else 0) ∧ (body s x).2.rng = s.rng ∧
      Bnd (body s x).2.qd (body s x).2.obs)
    (xs : List ι) (s : CState) (h : Bnd s.qd s.obs) :
    (simLoop body s xs).2.obs = s.obs + xs.length ∧
    (simLoop body s xs).2.qd = s.qd + countTrue (simLoop body s xs).1 ∧
    (simLoop body s xs).2.rng = s.rng ∧
    ∀ n, n ≤ xs.length → Bnd (s.qd + countTrue ((simLoop body s xs).1.take n)) (s.obs + n) := by
  induction xs generalizing s with
  | nil =>
    refine ⟨by simp [simLoop], by simp [simLoop, countTrue], by simp [simLoop], ?_⟩
    intro n hn
    have : n = 0 := by simpa using hn
    subst this; simpa [countTrue] using h
  | cons x xs ih =>
    obtain ⟨ht, hu, hr, hB⟩ := hstep s x h
    obtain ⟨i1, i2, i4, i3⟩ := ih (body s x).2 hB
    simp only [simLoop, List.length_cons, countTrue_cons]
    refine ⟨by rw [i1, ht]; omega, by rw [i2, hu]; omega, by rw [i4, hr], ?_⟩
    intro n hn
    cases n with
    | zero => simpa [countTrue] using h
    | succ m =>
      have := i3 m (by omega)
      rw [ht, hu] at this
      simp only [List.take_succ_cons, countTrue_cons]
      have e1 : s.qd + ((if (body s x).1 = true then 1 else 0) +
          countTrue (List.take m (simLoop body (body s x).2 xs).1))
          = s.qd + (if (body s x).1 = true then 1 else 0) +
          countTrue (List.take m (simLoop body (body s x).2 xs).1) := by omega
      have e2 : s.obs + (m + 1) = s.obs + 1 + m := by omega
      rw [e1, e2]; exact this

theorem per_counterMgr (b : α) (hb : 0 ≤ b) : CounterMgr (perMgr b) CState.obs CState.qd (leBnd b) where
  sim := by
    intro s xs hB
    obtain ⟨h1, h2, h4, h3⟩ := counter_loop (perBody b) (leBnd b) (per_step b hb) (List.replicate xs.length ()) s hB
    have hlen : (simLoop (perBody b) s (List.replicate xs.length ())).1.length = xs.length := by
      rw [simLoop_length]; simp
    refine ⟨(simLoop (perBody b) s (List.replicate xs.length ())).1,
      { s with obs := s.obs + xs.length, qd := s.qd + countTrue (simLoop (perBody b) s (List.replicate xs.length ())).1 },
      hlen, rfl, ?_, rfl, rfl, ?_⟩
    · have hb' := bitsOf_idxOf (simLoop (perBody b) s (List.replicate xs.length ())).1
      rw [hlen] at hb'
      simp only [perMgr, perUpdate, hb', hlen]
    · intro n hn; exact h3 n (by simpa using hn)

theorem srs_counterMgr (b : α) (hb : 0 ≤ b) (uni : Nat → α) :
    CounterMgr (srsMgr false b uni) CState.obs CState.qd (leBnd b) where
  sim := by
    intro s xs hB
    obtain ⟨h1, h2, h4, h3⟩ := counter_loop (srsBody false b) (leBnd b) (srs_step b hb) (draws uni s.rng xs.length) s hB
    have hlen : (simLoop (srsBody false b) s (draws uni s.rng xs.length)).1.length = xs.length := by
      rw [simLoop_length, draws_length]
    refine ⟨(simLoop (srsBody false b) s (draws uni s.rng xs.length)).1,
      { obs := s.obs + xs.length, qd := s.qd + countTrue (simLoop (srsBody false b) s (draws uni s.rng xs.length)).1,
        rng := s.rng + xs.length },
      hlen, ?_, ?_, rfl, rfl, ?_⟩
    · cases s; rfl
    · have hb' := bitsOf_idxOf (simLoop (srsBody false b) s (draws uni s.rng xs.length)).1
      rw [hlen] at hb'
      simp only [srsMgr, srsUpdate, hb']
    · intro n hn; exact h3 n (by simpa [draws_length] using hn)

end Counters

end Ska.Budget

namespace Ska.Budget

/-! ## chunk invariance of BIQF and of the baseline strategies -/

section MoreRef
variable {α : Type} [Add α] [Sub α] [Mul α] [Div α] [LT α] [DecidableLT α] [OfNat α 0] [OfNat α 1] [NatCast α]

theorem QState.ext' {a b : QState α} (h1 : a.obs = b.obs) (h2 : a.qd = b.qd) (h3 : a.hist = b.hist) : a = b := by
  cases a; cases b; simp_all

theorem biqf_commit (p : QParams α) (qf : List (Option α) → Option α) (xs : List (Option α)) (s : QState α) :
    ({ obs := s.obs + (simLoop (biqfBody p qf) s xs).1.length,
       qd := s.qd + countTrue (simLoop (biqfBody p qf) s xs).1,
       hist := xs.foldl (pushW p.w) s.hist } : QState α) = (simLoop (biqfBody p qf) s xs).2 := by
  induction xs generalizing s with
  | nil => cases s; simp [simLoop, countTrue]
  | cons x xs ih =>
    simp only [simLoop, List.length_cons, countTrue_cons, List.foldl_cons]
    rw [← ih]
    have e1 : (biqfBody p qf s x).2.obs = s.obs + 1 := rfl
    have e2 : (biqfBody p qf s x).2.qd = s.qd + (if (biqfBody p qf s x).1 then 1 else 0) := rfl
    have e3 : (biqfBody p qf s x).2.hist = pushW p.w s.hist x := rfl
    apply QState.ext'
    · simp only [e1]; omega
    · simp only [e2]; omega
    · simp only [e3]

theorem biqf_refines (p : QParams α) (qf : List (Option α) → Option α) :
    Refines (biqfMgr p qf) (biqfBody p qf) where
  query_eq := by intro s xs; rfl
  update_eq := by
    intro s xs
    simp only [biqfMgr, biqfUpdate, bitsOf_sim, biqf_commit]

theorem replicate_unit (c : List Unit) : List.replicate c.length () = c := by
  induction c with
  | nil => rfl
  | cons x xs ih => simp [List.replicate_succ, ih]

theorem CState.ext' {a b : CState} (h1 : a.obs = b.obs) (h2 : a.qd = b.qd) (h3 : a.rng = b.rng) : a = b := by
  cases a; cases b; simp_all

theorem per_commit (b : α) (xs : List Unit) (s : CState) :
    ({ s with obs := s.obs + (simLoop (perBody b) s xs).1.length,
              qd := s.qd + countTrue (simLoop (perBody b) s xs).1 } : CState) = (simLoop (perBody b) s xs).2 := by
  induction xs generalizing s with
  | nil => cases s; simp [simLoop, countTrue]
  | cons x xs ih =>
    simp only [simLoop, List.length_cons, countTrue_cons]
    rw [← ih]
    have e1 : (perBody b s x).2.obs = s.obs + 1 := rfl
    have e2 : (perBody b s x).2.qd = s.qd + (if (perBody b s x).1 then 1 else 0) := rfl
    have e3 : (perBody b s x).2.rng = s.rng := rfl
    apply CState.ext'
    · simp only [e1]; omega
    · simp only [e2]; omega
    · simp only [e3]

theorem per_refines (b : α) : Refines (perMgr b) (perBody b) where
  query_eq := by
    intro s xs
    simp only [perMgr, perQuery, replicate_unit]
  update_eq := by
    intro s xs
    simp only [perMgr, perUpdate, bitsOf_sim, per_commit]

/-- `StreamRandomSampling` instance by instance: the utility of the instance is the next draw -/
def srsStep (allow : Bool) (b : α) (uni : Nat → α) (t : CState) (_x : Unit) : Bool × CState :=
  let r := srsBody allow b t (uni t.rng)
  (r.1, { r.2 with rng := t.rng + 1 })

theorem srsBody_rng (allow : Bool) (b : α) (us : List α) (s : CState) (k : Nat) :
    simLoop (srsBody allow b) { s with rng := k } us =
      ((simLoop (srsBody allow b) s us).1, { (simLoop (srsBody allow b) s us).2 with rng := k }) := by
  induction us generalizing s with
  | nil => simp [simLoop]
  | cons x xs ih =>
    simp only [simLoop]
    have h1 : (srsBody allow b { s with rng := k } x).1 = (srsBody allow b s x).1 := rfl
    have h2 : (srsBody allow b { s with rng := k } x).2 = { (srsBody allow b s x).2 with rng := k } := rfl
    rw [h1, h2, ih]

theorem srs_steps (allow : Bool) (b : α) (uni : Nat → α) (n : Nat) (s : CState) :
    simLoop (srsStep allow b uni) s (List.replicate n ()) =
      ((simLoop (srsBody allow b) s (draws uni s.rng n)).1,
       { (simLoop (srsBody allow b) s (draws uni s.rng n)).2 with rng := s.rng + n }) := by
  induction n generalizing s with
  | zero => cases s; simp [simLoop, draws]
  | succ n ih =>
    simp only [List.replicate_succ, simLoop, draws]
    rw [ih]
    have h2 : (srsStep allow b uni s ()).2 = { (srsBody allow b s (uni s.rng)).2 with rng := s.rng + 1 } := rfl
    have h1 : (srsStep allow b uni s ()).1 = (srsBody allow b s (uni s.rng)).1 := rfl
    rw [h1, h2, srsBody_rng]
    simp only [Prod.mk.injEq, true_and]
    apply CState.ext' <;> simp; omega

theorem srs_commit (allow : Bool) (b : α) (us : List α) (s : CState) :
    (simLoop (srsBody allow b) s us).2 =
      { obs := s.obs + us.length, qd := s.qd + countTrue (simLoop (srsBody allow b) s us).1, rng := s.rng } := by
  induction us generalizing s with
  | nil => cases s; simp [simLoop, countTrue]
  | cons x xs ih =>
    simp only [simLoop, List.length_cons, countTrue_cons]
    rw [ih]
    have e1 : (srsBody allow b s x).2.obs = s.obs + 1 := rfl
    have e2 : (srsBody allow b s x).2.qd = s.qd + (if (srsBody allow b s x).1 then 1 else 0) := rfl
    have e3 : (srsBody allow b s x).2.rng = s.rng := rfl
    apply CState.ext'
    · simp only [e1]; omega
    · simp only [e2]; omega
    · simp only [e3]

theorem srs_refines (allow : Bool) (b : α) (uni : Nat → α) :
    Refines (srsMgr allow b uni) (srsStep allow b uni) where
  query_eq := by
    intro s xs
    have := srs_steps allow b uni xs.length s
    rw [replicate_unit] at this
    rw [this]
    cases s; rfl
  update_eq := by
    intro s xs
    have h := srs_steps allow b uni xs.length s
    rw [replicate_unit] at h
    rw [h]
    have hl : (simLoop (srsBody allow b) s (draws uni s.rng xs.length)).1.length = xs.length := by
      rw [simLoop_length, draws_length]
    have hb' := bitsOf_idxOf (simLoop (srsBody allow b) s (draws uni s.rng xs.length)).1
    rw [hl] at hb'
    simp only [srsMgr, srsUpdate, hb', srs_commit]
    congr 1
    apply CState.ext' <;> simp [draws_length]

end MoreRef

end Ska.Budget

namespace Ska.Budget

theorem idxOf_wellformed (ds : List Bool) :
    (idxOf ds 0).Pairwise (· < ·) ∧ ∀ i ∈ idxOf ds 0, i < ds.length := by
  refine ⟨idxOf_sorted ds 0, fun i hi => ?_⟩
  have := (idxOf_lt ds 0 i hi).2
  omega

section Commit2
variable {α : Type} [Add α] [Sub α] [Mul α] [Div α] [LT α] [DecidableLT α] [OfNat α 0] [OfNat α 1]

/-- the two loops of `RandomVariableUncertaintyBudgetManager.update` reproduce the simulated
`tmp_theta` and `tmp_u_t` -/
theorem randVar_commit (p : ZParams α) (nrm : Nat → α) (xs : List (Option α)) (s : ZState α) :
    thetaPass p s.u s.theta (simLoop (randVarBody p nrm) s xs).1 = (simLoop (randVarBody p nrm) s xs).2.theta ∧
    uPass p.w s.u (simLoop (randVarBody p nrm) s xs).1 = (simLoop (randVarBody p nrm) s xs).2.u := by
  induction xs generalizing s with
  | nil => exact ⟨rfl, rfl⟩
  | cons x xs ih =>
    obtain ⟨i1, i2⟩ := ih (randVarBody p nrm s x).2
    simp only [simLoop, thetaPass, uPass]
    rw [← i1, ← i2]
    unfold randVarBody
    cases hb : budgetLeft p.w p.b s.u <;> simp

variable [NatCast α]

theorem dbUBody_body (p : DParams α) (nrm : Nat → α) (s : DState α) (x : Option α) (k : Nat) :
    dbUBody p { s with rng := k } (dbBody p nrm s x).1 = { (dbBody p nrm s x).2 with rng := k } := by
  unfold dbUBody dbBody
  cases hl : dbLeft p.b s.u (s.t + 1) <;> simp [hl]

theorem db_commit (p : DParams α) (nrm : Nat → α) (xs : List (Option α)) (s : DState α) (k : Nat) :
    (simLoop (dbBody p nrm) s xs).1.foldl (dbUBody p) { s with rng := k } =
      { (simLoop (dbBody p nrm) s xs).2 with rng := k } := by
  induction xs generalizing s with
  | nil => rfl
  | cons x xs ih =>
    simp only [simLoop, List.foldl_cons]
    rw [dbUBody_body, ih]

end Commit2

end Ska.Budget

namespace Ska.Budget

/-! ## density / cognitive strategies: what the budget manager is told -/

section Density
variable {σ ι : Type}

theorem densityDecisions_length (M : Mgr σ (Option ι)) (s : σ) (c : List (Bool × Option ι)) :
    (densityDecisions M s c).length = c.length := by
  induction c with
  | nil => rfl
  | cons x xs ih => obtain ⟨p, u⟩ := x; simp [densityDecisions, ih]

/-- only instances that pass the density filter are ever queried -/
theorem densityDecisions_pass (M : Mgr σ (Option ι)) (s : σ) (c : List (Bool × Option ι)) (i : Nat)
    (h : (densityDecisions M s c)[i]? = some true) : ∃ hi : i < c.length, c[i].1 = true := by
  induction c generalizing i with
  | nil => simp [densityDecisions] at h
  | cons x xs ih =>
    obtain ⟨p, u⟩ := x
    cases i with
    | zero =>
      simp only [densityDecisions, List.getElem?_cons_zero, Option.some.injEq] at h
      refine ⟨by simp, ?_⟩
      cases p <;> simp_all
    | succ i =>
      simp only [densityDecisions, List.getElem?_cons_succ] at h
      obtain ⟨hi, hp⟩ := ih i h
      exact ⟨by simp; omega, by simpa using hp⟩

/-- `new_positions[i]` is the position of instance `i` in `new_candidates`, and the entry found there
is the one appended for instance `i`. -/
theorem newPositions_spec (keepAll : Bool) (c : List (Bool × Option ι)) (k i : Nat) (hi : i < c.length)
    (hp : passedOn keepAll c[i] = true) :
    ∃ j, (newPositions keepAll c k).getD i none = some (k + j) ∧
      (newCandidates keepAll c)[j]? = some (entryOf c[i]) := by
  induction c generalizing k i with
  | nil => simp at hi
  | cons x xs ih =>
    cases i with
    | zero =>
      simp only [List.getElem_cons_zero] at hp
      exact ⟨0, by simp [newPositions, hp], by simp [newCandidates, hp]⟩
    | succ i =>
      simp only [List.getElem_cons_succ] at hp ⊢
      have hi' : i < xs.length := by simpa using hi
      cases hx : passedOn keepAll x with
      | true =>
        obtain ⟨j, h1, h2⟩ := ih (k + 1) i hi' hp
        refine ⟨j + 1, ?_, ?_⟩
        · simp only [newPositions, hx, if_true, List.getD_cons_succ, h1]; congr 1; omega
        · simpa [newCandidates, List.filter_cons, hx] using h2
      | false =>
        obtain ⟨j, h1, h2⟩ := ih k i hi' hp
        refine ⟨j, ?_, ?_⟩
        · simp only [newPositions, hx, Bool.false_eq_true, if_false, List.getD_cons_succ, h1]
        · simpa [newCandidates, List.filter_cons, hx] using h2

theorem remap_ok (pos : List (Option Nat)) (idx : List Nat) (P : Nat → Nat → Prop)
    (h : ∀ i ∈ idx, ∃ j, pos.getD i none = some j ∧ P i j) :
    ∃ js, remap pos idx = .ok js ∧ List.Forall₂ P idx js := by
  induction idx with
  | nil => exact ⟨[], rfl, List.Forall₂.nil⟩
  | cons i is ih =>
    obtain ⟨j, hj, hP⟩ := h i (List.mem_cons_self)
    obtain ⟨js, hjs, hf⟩ := ih (fun i' hi' => h i' (List.mem_cons_of_mem _ hi'))
    exact ⟨j :: js, by simp only [remap, hj, hjs], List.Forall₂.cons hP hf⟩

theorem forall₂_right {α β : Type} {P : α → β → Prop} {Q : β → Prop} {as : List α} {bs : List β}
    (h : List.Forall₂ P as bs) (hq : ∀ a b, P a b → Q b) : ∀ b ∈ bs, Q b := by
  induction h with
  | nil => simp
  | cons hab _ ih =>
    intro b hb
    rcases List.mem_cons.mp hb with rfl | hb
    · exact hq _ _ hab
    · exact ih b hb

end Density

end Ska.Budget
