import SkaModel.Gen.RngGen

/-! Bridging lemmas: the function translated from the current source of `skactiveml.utils.check_random_state`
(`Gen/RngGen.lean`) is `Ska.Rng.checkRandomState`, for all inputs. -/

namespace Ska.Gen.Rng
open Ska Ska.Rng Ska.PyRng

/-- the argument `random_state` as a Python value: a caller-owned instance at cursor `cur` is an object whose `i`-th next draw is
`st (cur + i)` -/
def absSeed : Seed → RSParam
  | .none => .none
  | .int n => .int n
  | .inst st cur => .inst ⟨fun i => st (cur + i), true, 0⟩

/-- numpy's global generator at cursor `globCur` -/
def globObj (globS : Stream) (globCur : Nat) : GenObj := ⟨fun i => globS (globCur + i), true, 0⟩

/-- cursor of the caller's instance before the call (0 when `random_state` is no instance) -/
def seedCur : Seed → Nat
  | .inst _ cur => cur
  | _ => 0

/-- what the caller can observe of a result: the values the returned generator will produce, whether it is an object the caller
owns, where the caller's instance stands afterwards -/
def toCrs (seed : Seed) (r : GenObj × Nat) : Crs :=
  ⟨fun i => r.1.stream (r.1.taken + i), r.1.callers, seedCur seed + (match seed with | .inst _ _ => r.2 | _ => 0)⟩

/-- **the translated function is `checkRandomState`** -/
theorem check_random_state_eq (mk : Nat → Stream) (seed : Seed) (mult : Option Nat) (globS : Stream) (globCur : Nat) :
    toCrs seed (check_random_state mk (globObj globS globCur) (absSeed seed) mult) =
      checkRandomState mk seed mult globS globCur := by
  cases seed <;> cases mult <;>
    simp [check_random_state, checkRandomState, toCrs, absSeed, globObj, seedCur, check_random_state_sklearn, deepcopy,
      randint, newRandomState, RSParam.isNone, derivedSeed]

end Ska.Gen.Rng
