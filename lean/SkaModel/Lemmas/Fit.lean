import SkaModel.Lemmas.Classifier
import SkaModel.Core.Fit
import Mathlib.Data.List.Perm.Basic

/-! Helper lemmas and auxiliary notions for C12 (`Core/Fit.lean`). -/

set_option linter.unusedSectionVars false
set_option linter.unusedVariables false

namespace Ska.Fit
open Ska.Classifier

section Filter
variable {ξ ζ ω : Type}

/-- `d'` is obtained from `d` by inserting the rows of `u` at arbitrary positions, keeping the order
inside `d` and inside `u` (read right to left: by deleting them). -/
inductive Interleave : List (ξ × Option ζ × ω) → List (ξ × Option ζ × ω) → List (ξ × Option ζ × ω) → Prop
  | nil : Interleave [] [] []
  | left (r) {d u d'} : Interleave d u d' → Interleave (r :: d) u (r :: d')
  | right (r) {d u d'} : Interleave d u d' → Interleave d (r :: u) (r :: d')

/-- same features and labels row by row; weights may differ on unlabeled rows only. -/
def SameUpToUnlabeledWeights (d d' : List (ξ × Option ζ × ω)) : Prop :=
  List.Forall₂ (fun r r' => r.1 = r'.1 ∧ r.2.1 = r'.2.1 ∧ (r.2.1.isSome → r.2.2 = r'.2.2)) d d'

theorem filterLabeled_cons_unlabeled (x : ξ) (w : ω) (d : List (ξ × Option ζ × ω)) :
    filterLabeled ((x, none, w) :: d) = filterLabeled d := by
  unfold filterLabeled
  rw [List.filterMap_cons]
  simp [stripRow]

theorem filterLabeled_cons_labeled (x : ξ) (y : ζ) (w : ω) (d : List (ξ × Option ζ × ω)) :
    filterLabeled ((x, some y, w) :: d) = (x, y, w) :: filterLabeled d := by
  unfold filterLabeled
  rw [List.filterMap_cons]
  simp [stripRow]

theorem filterLabeled_append (a b : List (ξ × Option ζ × ω)) :
    filterLabeled (a ++ b) = filterLabeled a ++ filterLabeled b := by
  simp [filterLabeled]

theorem filterLabeled_all_unlabeled (u : List (ξ × Option ζ × ω)) (h : ∀ r ∈ u, r.2.1 = none) :
    filterLabeled u = [] := by
  induction u with
  | nil => rfl
  | cons r rs ih =>
    obtain ⟨x, y, w⟩ := r
    have : y = none := h (x, y, w) (List.mem_cons_self ..)
    subst this
    rw [filterLabeled_cons_unlabeled]
    exact ih (fun r hr => h r (List.mem_cons_of_mem _ hr))

/-- revealing a label leaves the other rows alone -/
theorem reveal_length (d : List (ξ × Option ζ × ω)) (iy : Nat × ζ) : (reveal d iy).length = d.length := by
  unfold reveal; split <;> simp

theorem reveal_getElem? (d : List (ξ × Option ζ × ω)) (iy : Nat × ζ) (j : Nat) :
    (reveal d iy)[j]? = if j = iy.1 then d[j]?.map (fun r => (r.1, some iy.2, r.2.2)) else d[j]? := by
  unfold reveal
  cases h : d[iy.1]? with
  | none =>
    simp only
    by_cases hj : j = iy.1
    · subst hj; simp [h]
    · simp [hj]
  | some r =>
    simp only
    by_cases hj : j = iy.1
    · subst hj
      have hlt : iy.1 < d.length := by
        by_contra hc
        rw [List.getElem?_eq_none (not_lt.mp hc)] at h
        cases h
      simp [h, List.getElem?_set_self hlt]
    · have : iy.1 ≠ j := fun e => hj e.symm
      simp [hj, List.getElem?_set_ne this]

theorem reveal_comm (d : List (ξ × Option ζ × ω)) (a b : Nat × ζ) (h : a.1 ≠ b.1) :
    reveal (reveal d a) b = reveal (reveal d b) a := by
  apply List.ext_getElem?
  intro j
  simp only [reveal_getElem?]
  by_cases ha : j = a.1
  · have hb : ¬ j = b.1 := fun e => h (ha ▸ e)
    simp [ha, h]
  · by_cases hb : j = b.1
    · have hba : ¬ b.1 = a.1 := fun e => h e.symm
      subst hb
      simp [hba]
    · simp [ha, hb]

end Filter

section Pwc
variable {ξ : Type} {α : Type} [Semiring α]

theorem sumFrom_add' (acc : α) (l : List α) : sumFrom acc l = acc + sumL l := by
  unfold sumL
  induction l generalizing acc with
  | nil => simp [sumFrom]
  | cons x xs ih =>
    simp only [sumFrom]
    rw [ih (acc + x), ih (0 + x)]
    simp [add_assoc]

theorem sumL_cons' (x : α) (xs : List α) : sumL (x :: xs) = x + sumL xs := by
  show sumFrom (0 + x) xs = _
  rw [sumFrom_add']; simp

end Pwc

end Ska.Fit
