import SkaModel.Core.Window

/-! Helper lemmas about the sliding-window buffers (`SkaModel/Core/Window.lean`). Property theorems
live in `SkaModel/Props/C13w.lean`. -/

namespace Ska.Window

section LastN
variable {α : Type}

/-- extending a bounded deque twice = extending it once with the concatenation -/
theorem lastN_lastN_append (w : Option Nat) (a b : List α) :
    lastN w (lastN w a ++ b) = lastN w (a ++ b) := by
  cases w with
  | none => rfl
  | some w =>
    simp only [lastN, List.drop_append, List.length_append, List.length_drop, List.drop_drop]
    rcases Nat.lt_or_ge w a.length with h | h
    · have e1 : a.length - w + (a.length - (a.length - w) + b.length - w) = a.length + b.length - w := by omega
      have e2 : a.length - (a.length - w) + b.length - w - (a.length - (a.length - w)) = a.length + b.length - w - a.length := by omega
      rw [e1, e2]
    · have e1 : a.length - w + (a.length - (a.length - w) + b.length - w) = a.length + b.length - w := by omega
      have e2 : a.length - (a.length - w) + b.length - w - (a.length - (a.length - w)) = a.length + b.length - w - a.length := by omega
      rw [e1, e2]

theorem lastN_nil (w : Option Nat) : lastN w ([] : List α) = [] := by
  cases w <;> simp [lastN]

theorem lastN_length_le (w : Nat) (l : List α) : (lastN (some w) l).length ≤ w := by
  simp only [lastN, List.length_drop]; omega

theorem lastN_length (w : Option Nat) (l : List α) :
    (lastN w l).length = match w with | none => l.length | some n => min n l.length := by
  cases w with
  | none => rfl
  | some n => simp only [lastN, List.length_drop]; omega

/-- the window is a suffix of what was given -/
theorem lastN_suffix (w : Option Nat) (l : List α) : ∃ pre, l = pre ++ lastN w l := by
  cases w with
  | none => exact ⟨[], rfl⟩
  | some n => exact ⟨l.take (l.length - n), (List.take_append_drop _ _).symm⟩

end LastN

section Filter
variable {S W : Type}

theorem filter_zip_length (labeled : S → Bool) (xs : List S) (w : List W) (h : w.length = xs.length) :
    (((List.zip xs w).filter (fun t => labeled t.1)).map Prod.snd).length = (xs.filter labeled).length := by
  induction xs generalizing w with
  | nil => simp
  | cons x xs ih =>
    cases w with
    | nil => simp at h
    | cons v vs =>
      have := ih vs (by simpa using h)
      simp only [List.zip_cons_cons, List.filter_cons]
      cases labeled x <;> simp_all

end Filter

end Ska.Window
