import SkaModel.Core.Proto
import SkaModel.Core.Density
import SkaModel.Gen.DensityGen
import SkaModel.Drv.Density

/-! Driver command executing the *generated* `_calculate_ldf` (`Gen/DensityGen.lean`) inside the window loops of
`Core/Density.lean`: `g_dens_win` takes the input of `dens_win` and prints in the same format. -/

namespace Ska.Drv.DensityGen
open Ska Ska.Proto Ska.Budget Ska.Density Ska.Gen.Dens Ska.Drv.Density

/-- one instance: the translated `_calculate_ldf`, then `window_.append(x)` -/
def gstep (w : Nat) (s : DW Float Pt) (x : Pt) : Bool × DW Float Pt :=
  let r := _calculate_ldf manhattan inf ({ window_ := s.win, min_dist_ := s.md, window_size := w } : WObj Float Pt) x
  (decide (0 < r.1), { win := pushMax w r.2.window_ x, md := r.2.min_dist_ })

def grunCalls (w : Nat) : DW Float Pt → List Call → List String
  | _, [] => []
  | s, c :: cs =>
    let r := simLoop (gstep w) s c.pts
    let s' : DW Float Pt := if c.isQuery then s else r.2
    (showNats (r.1.map (fun b => if b then 1 else 0)) ++ " | " ++ showState s') :: grunCalls w s' cs

def cmdDens : P String := do
  let w ← nat
  let cs ← listOf callP
  pure (" ; ".intercalate (grunCalls w { win := [], md := [] } cs))

def handlers : List (String × P String) := [("g_dens_win", cmdDens)]

end Ska.Drv.DensityGen
