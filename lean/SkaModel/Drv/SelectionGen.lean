import SkaModel.Core.Proto
import SkaModel.Core.Selection
import SkaModel.Core.PySel
import SkaModel.Gen.SelectionGen
import SkaModel.Drv.Sel

/-! Driver commands that execute the *generated* selection model (`Gen/SelectionGen.lean`). `g_<cmd>` takes the input
of `<cmd>` in `Drv/Sel.lean` and prints in the same format. -/

namespace Ska.Drv.SelectionGen
open Ska Ska.Proto Ska.PySel Ska.Gen.Sel Ska.Drv.Sel

def drawsOf (l : List (List Float)) : Nat → List Float :=
  let a := l.toArray
  fun k => a.getD k []

/-- `g_randargmax <n> a… <n> noise…` -/
def cmdRandArg (isMax : Bool) : P String := do
  let a ← listOf optFloat
  let noise ← listOf float
  let d := drawsOf [noise]
  pure (toString (if isMax then (rand_argmax d 0 a).1 else (rand_argmin d 0 a).1))

/-- `g_simplebatch max <b:int> <n> u… <k> noise(k*n)… <m> choice…` (only method "max" is translated) -/
def cmdSimpleBatch : P String := do
  let ms ← tok
  let b ← int
  let u ← listOf optFloat
  let k ← nat
  let noises ← many (many float u.length) k
  let _choice ← listOf nat
  if ms != "max" then pure "skip"
  else if hasInf Float.isInf u then pure (showErr .infinite)
  else if b < 1 then pure (showErr .batchSize)
  else
    pure (match simple_batch_max (β := Float) Float.isInf (drawsOf noises) 0 u b.toNat with
      | .ok r => showRows (List.zip r.1 r.2)
      | .error e => showErr e)

def handlers : List (String × P String) :=
  [ ("g_randargmax", cmdRandArg true), ("g_randargmin", cmdRandArg false), ("g_simplebatch", cmdSimpleBatch) ]

end Ska.Drv.SelectionGen
