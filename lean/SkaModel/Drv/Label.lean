import SkaModel.Core.Proto

/-! Driver commands for the `Label` model family. One self-contained case per line. -/

namespace Ska.Drv.Label
open Ska Ska.Proto

def handlers : List (String × P String) := []

end Ska.Drv.Label
